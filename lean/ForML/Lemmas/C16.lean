/-
C16 helper lemmas: executor id bookkeeping (`ExecOk`), inversion of `step`, and the three invariant groups
(`ExecOk` per executor, `InvD` descriptor cache / lock, `InvC` correlation) with their preservation proofs.
Core Lean only.
-/
import ForML.Model.Serving
namespace ForML.Serving

structure ExecOk (e : Exec) : Prop where
  keys_nodup : (keys e).Nodup
  fl_nodup : (inflight e).Nodup
  fl_keys : ∀ id, id ∈ inflight e ↔ id ∈ keys e
  keys_lt : ∀ id, id ∈ keys e → id < e.next

/-- generic transfer: in-flight ids and keys both gain the same fresh id -/
theorem ExecOk.grow {e e' : Exec} (h : ExecOk e) (n : Nat) (hn : e.next ≤ n) (hnext : e'.next = n + 1)
    (hk : keys e' = n :: keys e) (hf : (inflight e').Perm (n :: inflight e)) : ExecOk e' := by
  have h1 : n ∉ keys e := fun hm => by have := h.keys_lt _ hm; omega
  have h2 : n ∉ inflight e := fun hm => h1 ((h.fl_keys _).1 hm)
  refine ⟨?_, ?_, ?_, ?_⟩
  · rw [hk]; exact List.nodup_cons.2 ⟨h1, h.keys_nodup⟩
  · exact hf.nodup_iff.2 (List.nodup_cons.2 ⟨h2, h.fl_nodup⟩)
  · intro id; rw [hf.mem_iff, hk]; simp [h.fl_keys]
  · intro id; rw [hk, hnext]; intro hm
    rcases List.mem_cons.1 hm with rfl | hm
    · omega
    · have := h.keys_lt _ hm; omega

/-- generic transfer: in-flight ids are permuted, pending unchanged -/
theorem ExecOk.shuffle {e e' : Exec} (h : ExecOk e) (hnext : e'.next = e.next)
    (hk : keys e' = keys e) (hf : (inflight e').Perm (inflight e)) : ExecOk e' := by
  refine ⟨?_, ?_, ?_, ?_⟩
  · rw [hk]; exact h.keys_nodup
  · exact hf.nodup_iff.2 h.fl_nodup
  · intro id; rw [hf.mem_iff, hk]; exact h.fl_keys id
  · intro id; rw [hk, hnext]; exact h.keys_lt id

/-- generic transfer: one id leaves both -/
theorem ExecOk.shrink {e e' : Exec} (h : ExecOk e) (n : Nat) (hnext : e'.next = e.next)
    (hk : (keys e).Perm (n :: keys e')) (hf : (inflight e).Perm (n :: inflight e')) : ExecOk e' := by
  have k1 := hk.nodup_iff.1 h.keys_nodup
  have f1 := hf.nodup_iff.1 h.fl_nodup
  rw [List.nodup_cons] at k1 f1
  refine ⟨k1.2, f1.2, ?_, ?_⟩
  · intro id
    have a := h.fl_keys id
    rw [hf.mem_iff, hk.mem_iff] at a
    simp only [List.mem_cons] at a
    constructor
    · intro hm; have := a.1 (Or.inr hm); rcases this with rfl | h'
      · exact absurd hm f1.1
      · exact h'
    · intro hm; have := a.2 (Or.inr hm); rcases this with rfl | h'
      · exact absurd hm k1.1
      · exact h'
  · intro id hm; rw [hnext]; exact h.keys_lt id (hk.mem_iff.2 (List.mem_cons_of_mem _ hm))

theorem lookup_mem {l : List (Nat × β)} {k : Nat} {v : β} (h : l.lookup k = some v) : (k, v) ∈ l := by
  induction l with
  | nil => simp at h
  | cons x r ih =>
    obtain ⟨a, b⟩ := x
    simp only [List.lookup] at h
    split at h
    · rename_i heq; simp at heq; cases h; simp [heq]
    · exact List.mem_cons_of_mem _ (ih h)

theorem lookup_none {l : List (Nat × β)} {k : Nat} (h : l.lookup k = none) : k ∉ l.map (·.1) := by
  induction l with
  | nil => simp
  | cons x r ih =>
    obtain ⟨a, b⟩ := x
    simp only [List.lookup] at h
    split at h
    · cases h
    · rename_i hne; simp at hne; simp; exact ⟨hne, by simpa using ih h⟩


theorem ExecOk.submit {e : Exec} (h : ExecOk e) (c : Nat) (en : Entry) :
    ExecOk { e with started := true, next := e.next + 1, pending := (e.next, c) :: e.pending,
                    taskQ := e.taskQ ++ [⟨e.next, en⟩] } := by
  refine h.grow e.next (Nat.le_refl _) rfl (by simp [keys]) ?_
  simp only [inflight, List.map_append, List.map_cons, List.map_nil, List.append_assoc, List.singleton_append]
  exact List.perm_middle

theorem ExecOk.take {e : Exec} (h : ExecOk e) (w : Nat) (t : Task) (q : List Task) (hq : e.taskQ = t :: q) :
    ExecOk { e with taskQ := q, held := (w, t) :: e.held } := by
  refine h.shuffle rfl rfl ?_
  simp only [inflight, hq, List.map_cons, List.append_assoc, List.cons_append]
  exact List.perm_middle

theorem ExecOk.finish {e : Exec} (h : ExecOk e) (w : Nat) (t : Task) (o : Outcome) (b : Bool)
    (hm : (w, t) ∈ e.held) :
    ExecOk { e with held := e.held.erase (w, t), resultQ := e.resultQ ++ [⟨t.id, o⟩], stopped := b } := by
  refine h.shuffle rfl rfl ?_
  simp only [inflight, List.map_append, List.map_cons, List.map_nil, List.append_assoc]
  have p : (e.held.map (·.2.id)).Perm (t.id :: (e.held.erase (w, t)).map (·.2.id)) :=
    (List.perm_cons_erase hm).map _
  refine (List.Perm.append_left _ ?_)
  refine List.Perm.trans ?_ (List.Perm.append_right _ p.symm)
  simp only [List.cons_append]
  rw [← List.append_assoc]
  have := @List.perm_middle _ t.id ((e.held.erase (w, t)).map (·.2.id) ++ e.resultQ.map (·.id)) []
  simpa using this

theorem ExecOk.deliver {e : Exec} (h : ExecOk e) (r : Result) (q : List Result) (c : Nat)
    (hq : e.resultQ = r :: q) (hm : (r.id, c) ∈ e.pending) :
    ExecOk { e with resultQ := q, pending := e.pending.erase (r.id, c) } := by
  refine h.shrink r.id rfl ?_ ?_
  · exact (List.perm_cons_erase hm).map (·.1)
  · simp only [inflight, hq, List.map_cons]
    exact List.perm_middle

theorem ExecOk.init : ExecOk {} := by
  refine ⟨?_, ?_, ?_, ?_⟩ <;> simp [keys, inflight]

variable {cfg : Config} {s s' : State}

theorem step_arrive {c : Nat} (h : step cfg s (.arrive c) = some s') :
    c < cfg.callers.length ∧ s.phase c = .fresh ∧ s' = { s with phase := upd s.phase c .d0 } := by
  simp only [step] at h
  split at h
  · rename_i hc; cases h; exact ⟨hc.1, hc.2, rfl⟩
  · cases h

/-- the seven enabled shapes of a `_get_descriptor` step -/
theorem step_desc {c : Nat} (h : step cfg s (.desc c) = some s') :
    (s.phase c = .d0 ∧ ¬(cfg.locked = true ∧ s.lock ≠ none) ∧ (spec cfg c).app ∈ s.cache
        ∧ s' = { s with phase := upd s.phase c .resolved })
    ∨ (s.phase c = .d0 ∧ ¬(cfg.locked = true ∧ s.lock ≠ none) ∧ (spec cfg c).app ∉ s.cache
        ∧ s' = { s with phase := upd s.phase c .d1, lock := if cfg.locked then some c else none })
    ∨ (s.phase c = .d1 ∧ s' = { s with phase := upd s.phase c (.d2 cfg.inventory) })
    ∨ (∃ l, s.phase c = .d2 l ∧ s' = { s with phase := upd s.phase c (.d3 (l.filter (fun a => a ∉ s.cache))) })
    ∨ (∃ u, s.phase c = .d3 u ∧ s' = { s with phase := upd s.phase c (.d4 u), cache := s.cache ++ u })
    ∨ (∃ u, s.phase c = .d4 u ∧ (spec cfg c).app ∈ u
        ∧ s' = { s with phase := upd s.phase c .resolved, lock := none })
    ∨ (∃ u, s.phase c = .d4 u ∧ (spec cfg c).app ∉ u
        ∧ s' = { answer s c (.error .missingApp) with lock := none }) := by
  simp only [step] at h
  split at h
  · rename_i hp
    split at h
    · cases h
    · rename_i hl
      split at h
      · rename_i hc; cases h; exact Or.inl ⟨hp, hl, hc, rfl⟩
      · rename_i hc; cases h; exact Or.inr (Or.inl ⟨hp, hl, hc, rfl⟩)
  · rename_i hp; cases h; exact Or.inr (Or.inr (Or.inl ⟨hp, rfl⟩))
  · rename_i l hp; cases h; exact Or.inr (Or.inr (Or.inr (Or.inl ⟨l, hp, rfl⟩)))
  · rename_i u hp; cases h; exact Or.inr (Or.inr (Or.inr (Or.inr (Or.inl ⟨u, hp, rfl⟩))))
  · rename_i u hp
    split at h
    · rename_i hc; cases h; exact Or.inr (Or.inr (Or.inr (Or.inr (Or.inr (Or.inl ⟨u, hp, hc, rfl⟩)))))
    · rename_i hc; cases h; exact Or.inr (Or.inr (Or.inr (Or.inr (Or.inr (Or.inr ⟨u, hp, hc, rfl⟩)))))
  · cases h

theorem step_decodeFail {c : Nat} (h : step cfg s (.decodeFail c) = some s') :
    s.phase c = .resolved ∧ (spec cfg c).badEncoding = true ∧ s' = answer s c (.error .unsupported) := by
  simp only [step] at h
  split at h
  · rename_i hc; cases h; exact ⟨hc.1, hc.2, rfl⟩
  · cases h

theorem step_submit {c : Nat} (h : step cfg s (.submit c) = some s') :
    s.phase c = .resolved ∧ (spec cfg c).badEncoding = false ∧
    (((s.execs (cfg.select (spec cfg c).app)).stopped = true ∧ s' = answer s c (.error .notRunning))
     ∨ ((s.execs (cfg.select (spec cfg c).app)).stopped = false ∧
        s' = { s with
          phase := upd s.phase c (.submitted (cfg.select (spec cfg c).app) (s.execs (cfg.select (spec cfg c).app)).next)
          execs := upd s.execs (cfg.select (spec cfg c).app) { s.execs (cfg.select (spec cfg c).app) with
            started := true, next := (s.execs (cfg.select (spec cfg c).app)).next + 1,
            pending := ((s.execs (cfg.select (spec cfg c).app)).next, c) :: (s.execs (cfg.select (spec cfg c).app)).pending,
            taskQ := (s.execs (cfg.select (spec cfg c).app)).taskQ ++ [⟨(s.execs (cfg.select (spec cfg c).app)).next, entryOf cfg c⟩] } })) := by
  simp only [step] at h
  split at h
  · rename_i hc
    refine ⟨hc.1, hc.2, ?_⟩
    split at h
    · rename_i hs; cases h; exact Or.inl ⟨hs, rfl⟩
    · rename_i hs; cases h; exact Or.inr ⟨by simpa using hs, rfl⟩
  · cases h

theorem step_take {i w : Nat} (h : step cfg s (.take i w) = some s') :
    w < cfg.workers ∧ (s.execs i).stopped = false ∧ (s.execs i).held.lookup w = none ∧
    ∃ t q, (s.execs i).taskQ = t :: q ∧
      s' = { s with execs := upd s.execs i { s.execs i with taskQ := q, held := (w, t) :: (s.execs i).held } } := by
  simp only [step] at h
  split at h
  · rename_i hc
    refine ⟨hc.1, hc.2.1, hc.2.2, ?_⟩
    split at h
    · cases h
    · rename_i t q hq; cases h; exact ⟨t, q, hq, rfl⟩
  · cases h

theorem step_finish {i w : Nat} (h : step cfg s (.finish i w) = some s') :
    ∃ t, (s.execs i).held.lookup w = some t ∧
      s' = { s with execs := upd s.execs i { s.execs i with
        held := (s.execs i).held.erase (w, t), resultQ := (s.execs i).resultQ ++ [⟨t.id, runModel i t.entry⟩],
        stopped := (s.execs i).stopped || decide (t.entry.kind = .fatal) } } := by
  simp only [step] at h
  split at h
  · cases h
  · rename_i t ht; cases h; exact ⟨t, ht, rfl⟩

theorem step_deliver {i : Nat} (h : step cfg s (.deliver i) = some s') :
    (s.execs i).stopped = false ∧ ∃ r q, (s.execs i).resultQ = r :: q ∧
      (((s.execs i).pending.lookup r.id = none ∧
          s' = { s with execs := upd s.execs i { s.execs i with resultQ := q, stopped := true } })
       ∨ ∃ c, (s.execs i).pending.lookup r.id = some c ∧
          s' = { answer s c r.out with
            execs := upd s.execs i { s.execs i with resultQ := q, pending := (s.execs i).pending.erase (r.id, c) } }) := by
  simp only [step] at h
  split at h
  · cases h
  · rename_i hs
    refine ⟨by simpa using hs, ?_⟩
    split at h
    · cases h
    · rename_i r q hq
      refine ⟨r, q, hq, ?_⟩
      split at h
      · rename_i hl; cases h; exact Or.inl ⟨hl, rfl⟩
      · rename_i c hl; cases h; exact Or.inr ⟨c, hl, rfl⟩

/-! ### group E: every executor keeps its id bookkeeping -/

theorem execOk_step (a : Step) (h : ∀ i, ExecOk (s.execs i)) (hs : step cfg s a = some s') :
    ∀ i, ExecOk (s'.execs i) := by
  intro j
  cases a with
  | arrive c => obtain ⟨_, _, rfl⟩ := step_arrive hs; exact h j
  | desc c =>
    rcases step_desc hs with ⟨_, _, _, rfl⟩ | ⟨_, _, _, rfl⟩ | ⟨_, rfl⟩ | ⟨_, _, rfl⟩ | ⟨_, _, rfl⟩ | ⟨_, _, _, rfl⟩ | ⟨_, _, _, rfl⟩
      <;> exact h j
  | decodeFail c => obtain ⟨_, _, rfl⟩ := step_decodeFail hs; exact h j
  | submit c =>
    obtain ⟨_, _, ⟨_, rfl⟩ | ⟨_, rfl⟩⟩ := step_submit hs
    · exact h j
    · simp only [upd]; split
      · exact (h _).submit c _
      · exact h j
  | take i w =>
    obtain ⟨_, _, _, t, q, hq, rfl⟩ := step_take hs
    simp only [upd]; split
    · exact (h i).take w t q hq
    · exact h j
  | finish i w =>
    obtain ⟨t, ht, rfl⟩ := step_finish hs
    simp only [upd]; split
    · exact (h i).finish w t _ _ (lookup_mem ht)
    · exact h j
  | deliver i =>
    obtain ⟨_, r, q, hq, ⟨hl, rfl⟩ | ⟨c, hl, rfl⟩⟩ := step_deliver hs
    · -- KeyError branch: impossible, the result's id is in flight hence pending
      exfalso
      have : r.id ∈ inflight (s.execs i) := by simp [inflight, hq]
      exact lookup_none hl (((h i).fl_keys _).1 this)
    · simp only [upd]; split
      · exact (h i).deliver r q c hq (lookup_mem hl)
      · exact h j

/-! ### group D: descriptor cache and lock -/

def critical : Phase → Prop
  | .d1 | .d2 _ | .d3 _ | .d4 _ => True
  | _ => False

instance : DecidablePred critical := fun p => by cases p <;> simp [critical] <;> infer_instance

structure InvD (cfg : Config) (s : State) : Prop where
  cache_inv : ∀ a, a ∈ s.cache → a ∈ cfg.inventory
  listed_inv : ∀ c l, s.phase c = .d2 l → l = cfg.inventory
  upd_inv : ∀ c u, (s.phase c = .d3 u ∨ s.phase c = .d4 u) → ∀ a, a ∈ u → a ∈ cfg.inventory
  res_known : ∀ c, s.phase c = .resolved → (spec cfg c).app ∈ cfg.inventory
  lock_off : cfg.locked = false → s.lock = none
  lock_crit : ∀ c, s.lock = some c → critical (s.phase c)
  crit_lock : cfg.locked = true → ∀ c, critical (s.phase c) → s.lock = some c
  lk_fresh : cfg.locked = true → ∀ c, (s.phase c = .d1 ∨ ∃ l, s.phase c = .d2 l) → (spec cfg c).app ∉ s.cache
  lk_upd : cfg.locked = true → ∀ c u, (s.phase c = .d3 u ∨ s.phase c = .d4 u) →
    (spec cfg c).app ∈ cfg.inventory → (spec cfg c).app ∈ u

theorem InvD.init : InvD cfg Serving.init := by
  constructor <;> simp [Serving.init, critical]

/-- steps that do not touch cache/lock and move callers only between non-descriptor phases -/
theorem InvD.frame (h : InvD cfg s) (hc : s'.cache = s.cache) (hl : s'.lock = s.lock)
    (hp : ∀ c, s'.phase c = s.phase c ∨
      (¬ critical (s'.phase c) ∧ s'.phase c ≠ .resolved ∧ ¬ critical (s.phase c))) : InvD cfg s' := by
  obtain ⟨h1, h2, h3, h4, h5, h6, h7, h8, h9⟩ := h
  constructor
  · intro a; rw [hc]; exact h1 a
  · intro c l e; rcases hp c with p | ⟨p, _, _⟩
    · exact h2 c l (p ▸ e)
    · simp [e, critical] at p
  · intro c u e; rcases hp c with p | ⟨p, _, _⟩
    · exact h3 c u (p ▸ e)
    · rcases e with e | e <;> simp [e, critical] at p
  · intro c e; rcases hp c with p | ⟨_, p, _⟩
    · exact h4 c (p ▸ e)
    · exact absurd e p
  · intro e; rw [hl]; exact h5 e
  · intro c e; rw [hl] at e; rcases hp c with p | ⟨_, _, p⟩
    · rw [p]; exact h6 c e
    · exact absurd (h6 c e) p
  · intro e c k; rw [hl]; rcases hp c with p | ⟨p, _, _⟩
    · exact h7 e c (p ▸ k)
    · exact absurd k p
  · intro e c k; rw [hc]; rcases hp c with p | ⟨p, _, _⟩
    · exact h8 e c (p ▸ k)
    · rcases k with k | ⟨l, k⟩ <;> simp [k, critical] at p
  · intro e c u k; rcases hp c with p | ⟨p, _, _⟩
    · exact h9 e c u (p ▸ k)
    · rcases k with k | k <;> simp [k, critical] at p

