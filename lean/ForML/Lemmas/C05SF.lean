/-
Helper lemmas for C05 (several writers): every path named `<sid>.bin` — staged or inside a generation — is a plain
file, in every tree the registry code can leave (needed once `dump` and `commit` are separate history steps: a commit
moves whatever other steps have staged).
-/
import ForML.Lemmas.C05Steps

namespace ForML.Registry
open ForML.Fs

def endsState (p : Path) : Bool :=
  match p.getLast? with
  | some (.state _) => true
  | _ => false

/-- every `*.bin` path is a file -/
def StateFiles (fs : Fs) : Prop := ∀ k n, get fs k = some n → endsState k = true → ∃ b, n = .file b

/-- the micro-operations that cannot put a directory at a `*.bin` path -/
def OpSF : Op → Prop
  | .mkdir p => endsState p = false
  | .rename p q => endsState q = true → endsState p = true
  | _ => True

theorem endsState_append (a r : Path) (hr : r ≠ []) : endsState (a ++ r) = endsState r := by
  unfold endsState
  rw [List.getLast?_append]
  cases h : r.getLast? with
  | none => exact absurd (List.getLast?_eq_none_iff.mp h) hr
  | some x => rfl

theorem no_entry_below (fs : Fs) (q k : Path) (hall : fs.all (fun e => !(q <+: e.1)) = true) (hk : q <+: k) :
    get fs k = none := by
  cases h : get fs k with
  | none => rfl
  | some n =>
    have hm := mem_of_get fs k n h
    have := List.all_eq_true.mp hall (k, n) hm
    simp [hk] at this

theorem step_stateFiles (fs fs' : Fs) (op : Op) (sf : StateFiles fs) (ok : OpSF op) (h : step fs op = some fs') :
    StateFiles fs' := by
  intro k n hg he
  cases op with
  | mkdir p =>
    simp only [step] at h; split at h <;> cases h
    rw [get_set] at hg
    by_cases hk : k = p
    · subst hk; simp only [OpSF] at ok; rw [ok] at he; cases he
    · simp only [hk, if_false] at hg; exact sf k n hg he
  | createEmpty p =>
    simp only [step] at h; split at h <;> cases h
    rw [get_set] at hg
    by_cases hk : k = p
    · simp only [hk, if_true] at hg; cases hg; exact ⟨_, rfl⟩
    · simp only [hk, if_false] at hg; exact sf k n hg he
  | copyFile p b =>
    simp only [step] at h; split at h <;> cases h
    rw [get_set] at hg
    by_cases hk : k = p
    · simp only [hk, if_true] at hg; cases hg; exact ⟨_, rfl⟩
    · simp only [hk, if_false] at hg; exact sf k n hg he
  | append p b =>
    simp only [step] at h
    split at h
    · cases h
      rw [get_set] at hg
      by_cases hk : k = p
      · simp only [hk, if_true] at hg; cases hg; exact ⟨_, rfl⟩
      · simp only [hk, if_false] at hg; exact sf k n hg he
    · cases h
  | rmtree p =>
    simp only [step] at h
    split at h
    · cases h
      rw [get_rmtree] at hg
      split at hg
      · cases hg
      · exact sf k n hg he
    · cases h; exact sf k n hg he
  | rename p q =>
    simp only [step] at h
    split at h
    · split at h <;> cases h
      rw [get_set] at hg
      by_cases hk : k = q
      · simp only [hk, if_true] at hg; cases hg; exact ⟨_, rfl⟩
      · simp only [hk, if_false, get_del] at hg
        split at hg
        · cases hg
        · exact sf k n hg he
    · rename_i hdir
      split at h
      · rename_i hc
        cases h
        obtain ⟨_, _, _, hpq, hqp, hall⟩ := hc
        rw [get_moveTree fs p q k hpq hqp] at hg
        unfold swapKey at hg
        by_cases h1 : p <+: k
        · simp only [h1, if_true] at hg
          rw [no_entry_below fs q _ hall (List.prefix_append _ _)] at hg; cases hg
        · simp only [h1, if_false] at hg
          by_cases h2 : q <+: k
          · simp only [h2, if_true] at hg
            by_cases hr : k.drop q.length = []
            · -- `k = q`: the moved directory itself would be at a `*.bin` path
              have hkq : k = q := by
                have := List.prefix_iff_eq_append.mp h2
                rw [hr, List.append_nil] at this; exact this.symm
              subst hkq
              simp only [OpSF] at ok
              have hp := ok he
              obtain ⟨b, hb⟩ := sf p .dir hdir hp
              cases hb
            · have e1 : endsState (p ++ k.drop q.length) = endsState (k.drop q.length) := endsState_append _ _ hr
              have e2 : endsState k = endsState (k.drop q.length) := by
                have := List.prefix_iff_eq_append.mp h2
                rw [← this, endsState_append _ _ hr]
                simp
              exact sf _ n hg (by rw [e1, ← e2]; exact he)
          · simp only [h2, if_false] at hg; exact sf k n hg he
      · cases h
    · cases h

theorem run_stateFiles (ops : List Op) (fs fs' : Fs) (sf : StateFiles fs) (ok : ∀ op ∈ ops, OpSF op)
    (h : run fs ops = some fs') : StateFiles fs' := by
  induction ops generalizing fs with
  | nil => simp [run] at h; subst h; exact sf
  | cons op rest ih =>
    simp only [run] at h
    split at h
    · rename_i fs1 h1
      exact ih fs1 (step_stateFiles fs fs1 op sf (ok op (by simp)) h1) (fun o ho => ok o (by simp [ho])) h
    · cases h

/-- a crash list is a prefix of the operations, possibly followed by a shortened write -/
theorem crashOps_opSF (ops : List Op) (k : Nat) (cut : Option Nat) (ok : ∀ op ∈ ops, OpSF op) :
    ∀ op ∈ crashOps ops k cut, OpSF op := by
  intro op hop
  unfold crashOps at hop
  rcases List.mem_append.mp hop with h | h
  · exact ok op (List.mem_of_mem_take h)
  · split at h
    · simp only [List.mem_cons, List.not_mem_nil, or_false] at h; subst h; trivial
    · cases h

theorem atomsAll_opSF (ops : List Op) (ok : ∀ op ∈ ops, OpSF op) : ∀ op ∈ atomsAll ops, OpSF op := by
  intro a ha
  simp only [atomsAll, List.mem_flatMap] at ha
  obtain ⟨o, ho, hao⟩ := ha
  cases o with
  | copyFile p b =>
    simp only [Op.atoms, List.mem_cons, List.not_mem_nil, or_false] at hao
    rcases hao with rfl | rfl <;> trivial
  | mkdir p => simp only [Op.atoms, List.mem_cons, List.not_mem_nil, or_false] at hao; subst hao; exact ok _ ho
  | createEmpty p => simp only [Op.atoms, List.mem_cons, List.not_mem_nil, or_false] at hao; subst hao; exact ok _ ho
  | append p b => simp only [Op.atoms, List.mem_cons, List.not_mem_nil, or_false] at hao; subst hao; exact ok _ ho
  | rename p q => simp only [Op.atoms, List.mem_cons, List.not_mem_nil, or_false] at hao; subst hao; exact ok _ ho
  | rmtree p => simp only [Op.atoms, List.mem_cons, List.not_mem_nil, or_false] at hao; subst hao; exact ok _ ho

theorem mkdirP_opSF (fs : Fs) (path : Path) (hp : ∀ q ∈ prefixes path, endsState q = false) :
    ∀ op ∈ mkdirP fs path, OpSF op := by
  intro op hop
  obtain ⟨q, hq, rfl, _⟩ := mem_mkdirP _ _ _ hop
  exact hp q hq

theorem writeOps_opSF (fs : Fs) (p v sid : Nat) (b : Bytes) : ∀ op ∈ writeOps fs p v sid b, OpSF op := by
  intro op hop
  simp only [writeOps, List.mem_append, List.mem_cons, List.not_mem_nil, or_false] at hop
  rcases hop with hop | rfl | rfl
  · refine mkdirP_opSF fs _ ?_ op hop
    intro q hq
    simp only [stageP, prefixes, List.map_cons, List.map_nil, List.mem_cons, List.not_mem_nil, or_false] at hq
    rcases hq with rfl | rfl | rfl <;> rfl
  · trivial
  · trivial

theorem closeOps_opSF (impl : Impl) (fs : Fs) (p v g : Nat) (t : Tag) : ∀ op ∈ closeOps impl fs p v g t, OpSF op := by
  intro op hop
  simp only [closeOps, List.mem_append, List.mem_map] at hop
  rcases hop with (hop | ⟨s, _, rfl⟩) | hop
  · refine mkdirP_opSF fs _ ?_ op hop
    intro q hq
    simp only [generationP, prefixes, List.map_cons, List.map_nil, List.mem_cons, List.not_mem_nil, or_false] at hq
    rcases hq with rfl | rfl | rfl <;> rfl
  · intro _; rfl
  · unfold tagWriteOps at hop
    split at hop
    · simp only [List.mem_cons, List.not_mem_nil, or_false] at hop
      rcases hop with rfl | rfl | rfl
      · trivial
      · trivial
      · intro h; simp [endsState, tagP] at h
    · simp only [List.mem_cons, List.not_mem_nil, or_false] at hop
      rcases hop with rfl | rfl <;> trivial

theorem pushOps_opSF (impl : Impl) (fs : Fs) (p v : Nat) (pkg : Pkg) : ∀ op ∈ pushOps impl fs p v pkg, OpSF op := by
  intro op hop
  simp only [pushOps, List.mem_append] at hop
  rcases hop with hop | hop
  · refine mkdirP_opSF fs _ ?_ op hop
    intro q hq
    simp only [releaseP, prefixes, List.map_cons, List.map_nil, List.mem_cons, List.not_mem_nil, or_false] at hq
    rcases hq with rfl | rfl <;> rfl
  · cases pkg with
    | file b =>
      simp only [packageWriteOps] at hop
      split at hop
      · simp only [List.mem_cons, List.not_mem_nil, or_false] at hop
        rcases hop with rfl | rfl | rfl
        · trivial
        · trivial
        · intro h; simp [endsState, packageP] at h
      · simp only [List.mem_cons, List.not_mem_nil, or_false] at hop
        rcases hop with rfl | rfl <;> trivial
    | dir ms =>
      have key : ∀ o ∈ ms.map (fun m => Op.copyFile (packageTmpP p v ++ [Seg.member m.1]) m.2), OpSF o := by
        intro o ho; obtain ⟨m, _, rfl⟩ := List.mem_map.mp ho; trivial
      have key2 : ∀ o ∈ ms.map (fun m => Op.copyFile (packageP p v ++ [Seg.member m.1]) m.2), OpSF o := by
        intro o ho; obtain ⟨m, _, rfl⟩ := List.mem_map.mp ho; trivial
      have hren : OpSF (Op.rename (packageTmpP p v) (packageP p v)) := by
        intro h; simp [endsState, packageP] at h
      have hmk1 : OpSF (Op.mkdir (packageTmpP p v)) := by show endsState (packageTmpP p v) = false; rfl
      have hmk2 : OpSF (Op.mkdir (packageP p v)) := by show endsState (packageP p v) = false; rfl
      simp only [packageWriteOps] at hop
      split at hop
      · rcases List.mem_append.mp hop with hop | hop
        · rcases List.mem_append.mp hop with hop | hop
          · unfold rmtreeP at hop
            split at hop
            · simp only [List.mem_cons, List.not_mem_nil, or_false] at hop; subst hop; trivial
            · cases hop
          · rcases List.mem_cons.mp hop with rfl | hop
            · exact hmk1
            · exact key op hop
        · simp only [List.mem_cons, List.not_mem_nil, or_false] at hop; subst hop; exact hren
      · rcases List.mem_cons.mp hop with rfl | hop
        · exact hmk2
        · exact key2 op hop

/-- every tree a call sequence of registry calls can leave keeps `*.bin` paths plain files -/
theorem CrashTree.stateFiles {fs x : Fs} {cs : List (Fs → List Op)} (h : CrashTree fs cs x) (sf : StateFiles fs)
    (ok : ∀ c ∈ cs, ∀ f, ∀ op ∈ c f, OpSF op) : StateFiles x := by
  induction h with
  | done => exact sf
  | here fs c rest k cut x hr =>
    exact run_stateFiles _ fs x sf (crashOps_opSF _ k cut (atomsAll_opSF _ (ok c (by simp) fs))) hr
  | later fs c rest fs' x hr _ ih =>
    exact ih (run_stateFiles _ fs fs' sf (atomsAll_opSF _ (ok c (by simp) fs)) hr) (fun c' hc' => ok c' (by simp [hc']))

theorem empty_stateFiles : StateFiles Fs.empty := by
  intro k n hg he
  simp only [Fs.empty, Fs.get] at hg
  split at hg
  · rename_i hk; subst hk; simp [endsState] at he
  · cases hg

end ForML.Registry
