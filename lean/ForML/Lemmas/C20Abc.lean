/- What makes a class abstract (`Model/BankAbc.lean`): every way in and every way out, one class statement at a time (C20). -/
import ForML.Model.BankAbc
import ForML.Lemmas.C20Bank

namespace ForML.Bank

/-- the class object created by a statement is the new last entry of the table -/
theorem tab_last (tab : Tab) (c : Cls) : (tab ++ [c])[tab.length]? = some c := by
  simp

/-- class objects that exist already are not touched by a later class statement -/
theorem tab_old (tab : Tab) (c : Cls) {j : Nat} (hj : j < tab.length) : (tab ++ [c])[j]? = tab[j]? := by
  simp [List.getElem?_append_left hj]

theorem inspectAbstract_old (tab : Tab) (c : Cls) {j : Nat} (hj : j < tab.length) :
    inspectAbstract (tab ++ [c]) j = inspectAbstract tab j := by
  simp only [inspectAbstract, tab_old tab c hj]

theorem inspectAbstract_new (tab : Tab) (s : ClsStmt) :
    inspectAbstract (tab ++ [mkCls tab s]) tab.length =
      (stmtAbc tab s && !(computeAbstracts tab s.ns s.bases s.mro).isEmpty) := by
  simp only [inspectAbstract, tab_last, mkCls]
  cases stmtAbc tab s <;> simp

theorem mem_computeAbstracts {tab : Tab} {ns : List (Nat × Attr)} {bases mro : List Nat} {n : Nat} :
    n ∈ computeAbstracts tab ns bases mro ↔
      (∃ e ∈ ns, e.1 = n ∧ isAbsAttr (some e.2) = true) ∨
      (∃ b ∈ bases, ∃ cb, tab[b]? = some cb ∧ n ∈ cb.abstracts ∧ isAbsAttr (getattrNs tab ns mro n) = true) := by
  simp only [computeAbstracts, List.mem_append, List.mem_map, List.mem_filter, List.mem_flatMap]
  constructor
  · rintro (⟨e, ⟨he, ha⟩, hn⟩ | ⟨b, hb, hm⟩)
    · exact Or.inl ⟨e, he, hn, ha⟩
    · right
      unfold inheritedFrom at hm
      cases hc : tab[b]? with
      | none => simp [hc] at hm
      | some cb =>
        simp only [hc, List.mem_filter] at hm
        exact ⟨b, hb, cb, hc, hm.1, hm.2⟩
  · rintro (⟨e, he, hn, ha⟩ | ⟨b, hb, cb, hc, hn, ha⟩)
    · exact Or.inl ⟨e, ⟨he, ha⟩, hn⟩
    · right
      refine ⟨b, hb, ?_⟩
      simp only [inheritedFrom, hc, List.mem_filter]
      exact ⟨hn, ha⟩

/-- `inspect.isabstract` of a freshly created class, spelled out: an ABCMeta class with an abstract method / property
of its own, or with a name from the `__abstractmethods__` of a direct base that it still resolves to an abstract one -/
theorem inspectAbstract_new_iff (tab : Tab) (s : ClsStmt) :
    inspectAbstract (tab ++ [mkCls tab s]) tab.length = true ↔
      stmtAbc tab s = true ∧
        ((∃ e ∈ s.ns, isAbsAttr (some e.2) = true) ∨
         (∃ b ∈ s.bases, ∃ cb, tab[b]? = some cb ∧ ∃ n ∈ cb.abstracts,
            isAbsAttr (getattrNs tab s.ns s.mro n) = true)) := by
  rw [inspectAbstract_new]
  simp only [Bool.and_eq_true, Bool.not_eq_true', List.isEmpty_eq_false_iff_exists_mem]
  constructor
  · rintro ⟨ha, n, hn⟩
    refine ⟨ha, ?_⟩
    rcases mem_computeAbstracts.1 hn with ⟨e, he, _, hab⟩ | ⟨b, hb, cb, hc, hn, hab⟩
    · exact Or.inl ⟨e, he, hab⟩
    · exact Or.inr ⟨b, hb, cb, hc, n, hn, hab⟩
  · rintro ⟨ha, h⟩
    refine ⟨ha, ?_⟩
    rcases h with ⟨e, he, hab⟩ | ⟨b, hb, cb, hc, n, hn, hab⟩
    · exact ⟨e.1, mem_computeAbstracts.2 (Or.inl ⟨e, he, rfl, hab⟩)⟩
    · exact ⟨n, mem_computeAbstracts.2 (Or.inr ⟨b, hb, cb, hc, hn, hab⟩)⟩

/-- the extended predicate of a freshly created class: only the class' own attributes are looked at, and the classes
among them are judged as they were when the statement ran -/
theorem innerAbstract_new (tab : Tab) (s : ClsStmt) (hwf : ∀ e ∈ s.ns, ∀ j, e.2 = .cls j → j < tab.length) :
    innerAbstract (tab ++ [mkCls tab s]) tab.length = s.ns.any (fun e => attrAbstract tab e.2) := by
  simp only [innerAbstract, tab_last, mkCls]
  apply List.any_congr_mem
  intro e he
  cases hv : e.2 with
  | func b => simp [attrAbstract]
  | other => simp [attrAbstract]
  | cls j => simp only [attrAbstract]; exact inspectAbstract_old tab _ (hwf e he j hv)
where
  List.any_congr_mem {α : Type} {l : List α} {f g : α → Bool} (h : ∀ x ∈ l, f x = g x) : l.any f = l.any g := by
    induction l with
    | nil => rfl
    | cons x l ih =>
      simp only [List.any_cons, h x (by simp)]
      rw [ih (fun y hy => h y (List.mem_cons_of_mem _ hy))]

theorem nsLookup_some_mem {n : Nat} {ns : List (Nat × Attr)} {v : Attr} (h : nsLookup n ns = some v) : (n, v) ∈ ns := by
  induction ns with
  | nil => simp [nsLookup] at h
  | cons e rest ih =>
    obtain ⟨k, x⟩ := e
    by_cases hk : k = n
    · simp [nsLookup, hk] at h; simp [hk, h]
    · simp [nsLookup, hk] at h; exact List.mem_cons_of_mem _ (ih h)

end ForML.Bank
