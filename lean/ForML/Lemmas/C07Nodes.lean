/-
C07 helper lemmas: each constructor's checks (`checkExpr`, `checkJoin`, `checkSet`, `checkQuery`), run with structural
equality on well-formed operands of a tame script, succeed exactly when the documented rule of that node holds.
-/
import ForML.Model.Grammar
import ForML.Lemmas.C07Dissect
import ForML.Lemmas.C07Collapse
import ForML.Lemmas.C07Kinds

namespace ForML.Dsl

/-! ### small facts -/

theorem bind_unit_eq_ok {β : Type} (x : R Unit) (y : R β) (b : β) :
    (x >>= fun _ => y) = Except.ok b ↔ x = Except.ok () ∧ y = Except.ok b := by
  cases x <;> simp [bind, Except.bind]

theorem Features.wf_iff : (fs : Features) → (fs.wf = true ↔ ∀ f ∈ fs.toList, f.wf = true)
  | .nil => by simp [Features.wf, Features.toList]
  | .cons f fs => by simp [Features.wf, Features.toList, Features.wf_iff fs]

theorem Features.tame_iff : (fs : Features) → (fs.tame = true ↔ ∀ f ∈ fs.toList, f.tame = true)
  | .nil => by simp [Features.tame, Features.toList]
  | .cons f fs => by simp [Features.tame, Features.toList, Features.tame_iff fs]

theorem Features.kindsS_eq : (fs : Features) → fs.kindsS = fs.toList.map Feature.kindS
  | .nil => rfl
  | .cons f fs => by simp [Features.kindsS, Features.toList, Features.kindsS_eq fs]

theorem Features.kindsOf_eq_mapM : (fs : Features) → fs.kindsOf = fs.toList.mapM Feature.kindOf
  | .nil => rfl
  | .cons f fs => by
    simp only [Features.kindsOf, Features.toList, List.mapM_cons, Features.kindsOf_eq_mapM fs]
    rfl

theorem Features.isEmpty_iff (fs : Features) : fs.isEmpty = fs.toList.isEmpty := by
  cases fs <;> rfl

theorem any_or {α : Type} (p q : α → Bool) (l : List α) : l.any (fun x => p x || q x) = (l.any p || l.any q) := by
  induction l with
  | nil => rfl
  | cons a l ih =>
    simp only [List.any_cons, ih]
    cases p a <;> cases q a <;> cases l.any p <;> cases l.any q <;> rfl

theorem dissect_cumulative (f : Feature) :
    (f.dissect Feature.isCumulative []).isEmpty = !(f.hasAggregate || f.hasWindow) := by
  rw [dissect_isEmpty]
  unfold Feature.hasAggregate Feature.hasWindow
  rw [← any_or]
  rfl

theorem dissect_aggregate (f : Feature) : (f.dissect Feature.isAggregate []).isEmpty = !f.hasAggregate :=
  dissect_isEmpty _ f

theorem dissect_window (f : Feature) : (f.dissect Feature.isWindow []).isEmpty = !f.hasWindow :=
  dissect_isEmpty _ f

/-! ### operand kinds -/

theorem ensureKinds_iff (p : Kind → Bool) : (l : List Feature) →
    (ensureKinds p l = Except.ok () ↔ ∀ a ∈ l, ∃ k, a.kindOf = Except.ok k ∧ p k = true)
  | [] => by simp [ensureKinds]
  | a :: l => by
    simp only [ensureKinds, bind_eq_ok, guardG_eq_ok, ensureKinds_iff p l, List.mem_cons, forall_eq_or_imp]
    constructor
    · rintro ⟨k, hk, _, hp, hl⟩
      exact ⟨⟨k, hk, hp⟩, hl⟩
    · rintro ⟨⟨k, hk, hp⟩, hl⟩
      exact ⟨k, hk, (), hp, hl⟩

theorem ensureKinds_spec (p : Kind → Bool) (l : List Feature) (hw : ∀ a ∈ l, a.wf = true) (ht : ∀ a ∈ l, a.tame = true) :
    ensureKinds p l = Except.ok () ↔ (l.map Feature.kindS).all (fun k => k.any p) = true := by
  rw [ensureKinds_iff]
  simp only [List.all_map, List.all_eq_true, Function.comp_apply]
  constructor
  · intro h a ha
    obtain ⟨k, hk, hp⟩ := h a ha
    rw [(Feature.kind_iff a (hw a ha) (ht a ha) k).mp hk]
    simpa using hp
  · intro h a ha
    have := h a ha
    cases hk : a.kindS with
    | none => simp [hk] at this
    | some k =>
      simp only [hk, Option.any_some] at this
      exact ⟨k, (Feature.kind_iff a (hw a ha) (ht a ha) k).mpr hk, this⟩

theorem all_eq_head (l : List Kind) : allSame l = true ↔ ∀ a ∈ l, ∀ b ∈ l, a = b := by
  cases l with
  | nil => simp [allSame]
  | cons k rest =>
    simp only [allSame, List.all_eq_true, beq_iff_eq, List.mem_cons]
    constructor
    · intro h a ha b hb
      have ea : a = k := by
        rcases ha with rfl | ha
        · rfl
        · exact h a ha
      have eb : b = k := by
        rcases hb with rfl | hb
        · rfl
        · exact h b hb
      rw [ea, eb]
    · intro h a ha
      exact h a (Or.inr ha) k (Or.inl rfl)

theorem comparable_spec (ks : List Kind) :
    comparable ks = true ↔ ((ks.map some).all Option.isSome &&
      ((ks.map some).all (fun k => k.any Kind.isNumeric) ||
        (ks.map some).all (fun a => (ks.map some).all (fun b => a == b)))) = true := by
  unfold comparable
  rw [Bool.or_eq_true, all_eq_head]
  simp only [Bool.or_eq_true, Bool.and_eq_true, List.all_map, List.all_eq_true, Function.comp_apply,
    Option.isSome_some, Option.any_some, beq_iff_eq, Option.some.injEq, implies_true, true_and]

theorem exists_map_some : (os : List (Option Kind)) → os.all Option.isSome = true → ∃ ks : List Kind, os = ks.map some
  | [], _ => ⟨[], rfl⟩
  | o :: os, h => by
    simp only [List.all_cons, Bool.and_eq_true] at h
    obtain ⟨ks, hks⟩ := exists_map_some os h.2
    cases o with
    | none => simp at h
    | some k => exact ⟨k :: ks, by simp [hks]⟩

/-- `Univariate/Bivariate.__new__` + the mixin's `__init__` = the documented operand rules -/
theorem checkExpr_iff (op : Op) (args : Features) (hw : args.wf = true) (ht : args.tame = true) :
    checkExpr op args.toList = Except.ok () ↔
      (decide (args.toList.length = op.arity) && args.toList.all (fun a => !a.isAlias) && kindRule op args.kindsS) = true := by
  have hw' := (Features.wf_iff args).mp hw
  have ht' := (Features.tame_iff args).mp ht
  unfold checkExpr kindRule
  by_cases hlen : args.toList.length = op.arity
  case neg => simp [hlen]
  simp only [hlen, ne_eq, not_true_eq_false, if_false, decide_true, Bool.true_and, Bool.and_eq_true]
  rw [Features.kindsS_eq]
  cases hg : op.group <;> simp only [bind_unit_eq_ok, guardG_eq_ok]
  · -- cmp2
    simp only [bind_eq_ok, guardG_eq_ok]
    rw [← Features.kindsOf_eq_mapM]
    constructor
    · rintro ⟨h1, ks, hk, h2⟩
      have := (Features.kinds_iff args hw ht ks).mp hk
      rw [Features.kindsS_eq] at this
      rw [this]
      exact ⟨h1, (comparable_spec ks).mp h2⟩
    · rintro ⟨h1, h2⟩
      have h3 := h2
      simp only [Bool.and_eq_true] at h3
      obtain ⟨ks, hks⟩ := exists_map_some _ h3.1
      refine ⟨h1, ks, (Features.kinds_iff args hw ht ks).mpr (by rw [Features.kindsS_eq]; exact hks), ?_⟩
      rw [hks] at h2
      exact (comparable_spec ks).mpr h2
  · -- cmp1
    simp only [bind_eq_ok, guardG_eq_ok]
    rw [← Features.kindsOf_eq_mapM]
    constructor
    · rintro ⟨h1, ks, hk, h2⟩
      have := (Features.kinds_iff args hw ht ks).mp hk
      rw [Features.kindsS_eq] at this
      rw [this]
      exact ⟨h1, (comparable_spec ks).mp h2⟩
    · rintro ⟨h1, h2⟩
      have h3 := h2
      simp only [Bool.and_eq_true] at h3
      obtain ⟨ks, hks⟩ := exists_map_some _ h3.1
      refine ⟨h1, ks, (Features.kinds_iff args hw ht ks).mpr (by rw [Features.kindsS_eq]; exact hks), ?_⟩
      rw [hks] at h2
      exact (comparable_spec ks).mpr h2
  · -- logic
    rw [ensureKinds_spec _ _ hw' ht']
    have : ∀ k : Option Kind, (k.any (fun k => k == Kind.boolean)) = (k == some Kind.boolean) := by
      intro k
      cases k with
      | none => rfl
      | some k => simp
    simp only [this]
  · -- arith
    rw [ensureKinds_spec _ _ hw' ht']
  · -- arithInt
    rw [ensureKinds_spec _ _ hw' ht']
  · -- count
    simp
  · -- year
    rw [ensureKinds_spec _ _ hw' ht']
  · -- rownumber
    simp

/-! ### `Source.features` -/

theorem ok_bind {α β : Type} (a : α) (f : α → R β) : ((Except.ok a : R α) >>= f) = f a := rfl

theorem checkExpr_iff' (op : Op) (args : Features) (hw : args.wf = true) (ht : args.tame = true) (u : Unit) :
    checkExpr op args.toList = Except.ok u ↔
      (decide (args.toList.length = op.arity) && args.toList.all (fun a => !a.isAlias) && kindRule op args.kindsS) = true :=
  checkExpr_iff op args hw ht

theorem mapM_names : (fs : List Feature) → (∀ f ∈ fs, (nameOf f).isSome = true) →
    fs.mapM nameOrRecursion = Except.ok (fs.filterMap nameOf)
  | [], _ => rfl
  | f :: fs, h => by
    have hf := h f (by simp)
    rw [List.mapM_cons, mapM_names fs (fun g hg => h g (by simp [hg]))]
    cases hn : nameOf f with
    | none => simp [hn] at hf
    | some x => simp [hn, nameOrRecursion, bind, Except.bind, pure, Except.pure]

/-- in a tame script every `features` property can be read -/
theorem Source.featuresOf_outs : (s : Source) → s.tame = true → s.featuresOf = Except.ok s.outs
  | .table n fs, _ => rfl
  | .ref i n, ht => by
    simp only [Source.tame, Bool.and_eq_true] at ht
    have hp := (Source.plain_iff i).mp ht.2
    simp only [Source.featuresOf, Source.featuresOf_outs i ht.1, ok_bind, mapM_names _ hp.1, Source.outs]
  | .join l r k c, ht => by
    simp only [Source.tame, Bool.and_eq_true] at ht
    simp only [Source.featuresOf, Source.featuresOf_outs l ht.1.1, Source.featuresOf_outs r ht.1.2, ok_bind, Source.outs]
  | .set l r k, ht => by
    simp only [Source.tame, Bool.and_eq_true] at ht
    simp only [Source.featuresOf, Source.featuresOf_outs l ht.1.1.1, Source.featuresOf_outs r ht.1.1.2, ok_bind,
      Source.outs]
  | .query s sel pre grp post ord rows, ht => by
    simp only [Source.tame, Bool.and_eq_true] at ht
    cases hsel : sel.isEmpty <;>
      simp [Source.featuresOf, Source.outs, hsel, Source.featuresOf_outs s ht.1.1.1.1.1]

theorem mem_superset (s : Source) (e : Feature) : e ∈ dissectAll Feature.isElem s.outs ↔ e ∈ s.avail := by
  rw [mem_dissectAll_elem]
  rfl

/-! ### predicates, joins, sets -/

theorem kindOf_boolean_iff (p : Feature) (hw : p.wf = true) (ht : p.tame = true) :
    (∃ k, p.kindOf = Except.ok k ∧ (k == Kind.boolean) = true) ↔ (p.kindS == some Kind.boolean) = true := by
  simp only [beq_iff_eq]
  constructor
  · rintro ⟨k, hk, rfl⟩
    exact (Feature.kind_iff p hw ht _).mp hk
  · intro h
    exact ⟨_, (Feature.kind_iff p hw ht _).mpr h, rfl⟩

theorem ensurePredicate_iff (p : Feature) (hw : p.wf = true) (ht : p.tame = true) (u : Unit) :
    ensurePredicate p = Except.ok u ↔ isPredicate p = true := by
  unfold ensurePredicate isPredicate
  simp only [guardG_eq_ok, bind_eq_ok, exists_const, Bool.and_eq_true, kindOf_boolean_iff p hw ht]

theorem checkJoin_iff (l r : Source) (k : JoinKind) (c : FeatureOpt) (htl : l.tame = true) (htr : r.tame = true)
    (hwc : c.wf = true) (htc : c.tame = true) (u : Unit) :
    checkJoin structEqv l r k c.toOption = Except.ok u ↔ joinRule l r k c = true := by
  unfold checkJoin joinRule
  cases c with
  | none =>
    simp [FeatureOpt.toOption, bind_eq_ok, guardG_eq_ok]
  | some p =>
    simp only [FeatureOpt.wf] at hwc
    simp only [FeatureOpt.tame] at htc
    have hsub := subset_dissect_within p (dissectAll Feature.isElem (l.outs ++ r.outs)) (l.avail ++ r.avail) (by
      intro e
      rw [mem_dissectAll_elem]
      simp [Source.avail, List.flatMap_append])
    have hne : (FeatureOpt.some p == FeatureOpt.none) = false := by simp
    simp only [FeatureOpt.toOption, Option.isNone_some, bind_eq_ok, guardG_eq_ok, exists_const,
      ensurePredicate_iff p hwc htc, Source.featuresOf_outs l htl, Source.featuresOf_outs r htr, ok_bind,
      dissect_cumulative, hsub, Bool.and_eq_true, hne]
    simp [and_assoc]

theorem checkSet_iff (l r : Source) (hwl : l.wf = true) (hwr : r.wf = true) (htl : l.tame = true) (htr : r.tame = true)
    (hpl : l.plain = true) (hpr : r.plain = true) (u : Unit) :
    checkSet l r = Except.ok u ↔ (l.sig == r.sig) = true := by
  obtain ⟨le, hle, hls⟩ := Source.entries_spec l hwl htl hpl
  obtain ⟨re, hre, hrs⟩ := Source.entries_spec r hwr htr hpr
  unfold checkSet Source.schemaOf
  simp only [hle, hre, ok_bind, guardG_eq_ok, beq_iff_eq, ← hls, ← hrs]
  constructor
  · intro h
    rw [h]
  · exact liftSig_inj _ _

/-! ### queries -/

theorem checkFilter_iff (s : Source) (cum : Feature → Bool) (banned : Feature → Bool)
    (hb : ∀ p : Feature, (p.dissect cum []).isEmpty = !banned p)
    (c : FeatureOpt) (hwc : c.wf = true) (htc : c.tame = true) (u : Unit) :
    checkFilter structEqv (dissectAll Feature.isElem s.outs) cum c.toOption = Except.ok u ↔
      filterRule s.avail banned c = true := by
  unfold checkFilter filterRule
  cases c with
  | none => simp [FeatureOpt.toOption]
  | some p =>
    simp only [FeatureOpt.wf] at hwc
    simp only [FeatureOpt.tame] at htc
    have hsub := subset_dissect_within p (dissectAll Feature.isElem s.outs) s.avail (mem_superset s)
    simp only [FeatureOpt.toOption, guardG_eq_ok, bind_eq_ok, exists_const, hsub, hb, isPredicate,
      Bool.and_eq_true]
    constructor
    · rintro ⟨h1, h2, k, hk, hb, h4⟩
      exact ⟨⟨⟨h1, (kindOf_boolean_iff p hwc htc).mp ⟨k, hk, hb⟩⟩, h2⟩, h4⟩
    · rintro ⟨⟨⟨h1, h3⟩, h2⟩, h4⟩
      obtain ⟨k, hk, hb⟩ := (kindOf_boolean_iff p hwc htc).mpr h3
      exact ⟨h1, h2, k, hk, hb, h4⟩

theorem ensureGroup_iff (g : Feature) (u : Unit) :
    ensureGroup g = Except.ok u ↔ (!g.isAlias && !(g.hasAggregate || g.hasWindow)) = true := by
  unfold ensureGroup
  simp only [bind_eq_ok, guardG_eq_ok, exists_const, dissect_cumulative, Bool.and_eq_true]

theorem ensureGroups_iff : (l : List Feature) → (u : Unit) →
    (ensureGroups l = Except.ok u ↔ ∀ g ∈ l, (!g.isAlias && !(g.hasAggregate || g.hasWindow)) = true)
  | [], _ => by simp [ensureGroups]
  | g :: l, u => by
    simp only [ensureGroups, bind_eq_ok, ensureGroup_iff, exists_const, ensureGroups_iff l, List.mem_cons,
      forall_eq_or_imp]

theorem checkGrouping_iff (s : Source) (sel grp : Features) (u : Unit) :
    checkGrouping structEqv (dissectAll Feature.isElem s.outs) s.outs sel.toList grp.toList = Except.ok u ↔
      (grp.toList.all (fun g => !g.isAlias && g.within s.avail && !(g.hasAggregate || g.hasWindow)) &&
        (grp.isEmpty || (if sel.isEmpty then s.outs else sel.toList).all (fun f =>
          grp.toList.contains f.operable || f.operable.hasAggregate))) = true := by
  unfold checkGrouping
  rw [Features.isEmpty_iff grp, Features.isEmpty_iff sel]
  cases hg : grp.toList.isEmpty with
  | true =>
    have : grp.toList = [] := List.isEmpty_iff.mp hg
    simp [this]
  | false =>
    have hsub := subset_dissectAll_within grp.toList (dissectAll Feature.isElem s.outs) s.avail (mem_superset s)
    simp only [Bool.false_eq_true, if_false, bind_eq_ok, guardG_eq_ok, exists_const, ensureGroups_iff, hsub,
      Bool.false_or, Bool.and_eq_true, List.all_eq_true, List.all_map, Function.comp_apply, Bool.or_eq_true,
      memBy_struct, dissect_aggregate, List.contains_iff_mem, Bool.not_not]
    constructor
    · rintro ⟨h1, h2, h3⟩
      exact ⟨fun g hg' => ⟨⟨(h1 g hg').1, h2 g hg'⟩, (h1 g hg').2⟩, h3⟩
    · rintro ⟨h1, h3⟩
      exact ⟨fun g hg' => ⟨(h1 g hg').1.1, (h1 g hg').2⟩, fun g hg' => (h1 g hg').1.2, h3⟩

theorem checkQuery_iff (s : Source) (sel : Features) (pre : FeatureOpt) (grp : Features) (post : FeatureOpt)
    (ord : Orderings) (hts : s.tame = true) (hwpre : pre.wf = true) (htpre : pre.tame = true)
    (hwpost : post.wf = true) (htpost : post.tame = true) (u : Unit) :
    checkQuery structEqv s sel.toList pre.toOption grp.toList post.toOption ord.toList = Except.ok u ↔
      queryRule s sel pre grp post ord = true := by
  unfold checkQuery queryRule
  have hsel := subset_dissectAll_within sel.toList (dissectAll Feature.isElem s.outs) s.avail (mem_superset s)
  have hord := subset_dissectAll_within (ord.toList.map Ordering.feature) (dissectAll Feature.isElem s.outs) s.avail
    (mem_superset s)
  have e1 := checkFilter_iff s Feature.isCumulative (fun p => p.hasAggregate || p.hasWindow) dissect_cumulative pre hwpre htpre
  have e2 := checkFilter_iff s Feature.isWindow Feature.hasWindow dissect_window post hwpost htpost
  have e3 := checkGrouping_iff s sel grp
  simp only [Source.featuresOf_outs s hts, ok_bind, bind_eq_ok, guardG_eq_ok, exists_const, hsel, hord, e1, e2, e3,
    Bool.and_eq_true, List.all_eq_true, List.mem_map, forall_exists_index, and_imp, forall_apply_eq_imp_iff₂]
  constructor
  · rintro ⟨h1, h2, ⟨h3, h4⟩, h5, h6, h7⟩
    exact ⟨⟨⟨⟨⟨h1, h2⟩, h3⟩, h4⟩, h5⟩, fun o ho => ⟨h6 o ho, h7 o ho⟩⟩
  · rintro ⟨⟨⟨⟨⟨h1, h2⟩, h3⟩, h4⟩, h5⟩, h6⟩
    exact ⟨h1, h2, ⟨h3, h4⟩, h5, fun o ho => (h6 o ho).1, fun o ho => (h6 o ho).2⟩

end ForML.Dsl
