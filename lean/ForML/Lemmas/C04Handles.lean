/-
C04 helper lemmas, part 14: histories in which actions work through long-lived handles (`runHandles`,
Model/PersistHandles.lean) keep the registry invariant, only ever append to the registry, and every observation
satisfies the property with respect to the generation the handle addresses.
-/
import ForML.Model.PersistHandles
import ForML.Lemmas.C04Modes
import ForML.Lemmas.C04Step

namespace ForML.Persist

theorem runSegment_prefix {c : Comp} {h t : Nat} {reg reg' : Registry} {a : Action} {obs : List Obs}
    (hs : runSegment c h t reg a = .ok (reg', obs)) : ∃ l, reg' = reg ++ l := by
  simp only [runSegment] at hs
  split at hs
  · cases hs
  · split at hs
    · cases hs
    · cases hs; exact ⟨[], by simp⟩
    · cases hs; exact ⟨_, rfl⟩

theorem step_prefix {cs : Case} {reg reg' : Registry} {a : Action} {obs : List Obs}
    (hs : step cs reg a = .ok (reg', obs)) : ∃ l, reg' = reg ++ l := by
  simp only [step] at hs
  split at hs
  · split at hs
    · cases hs
    · exact runSegment_prefix hs
  · exact runSegment_prefix hs
  · exact runSegment_prefix hs
  · split at hs
    · cases hs
    · exact runSegment_prefix hs

theorem RegInv.take {T : List (Option Nat)} {reg : Registry} (h : RegInv T reg) (n : Nat) : RegInv T (reg.take n) :=
  fun g hg => h g (List.mem_of_mem_take hg)

/-- what one action through a handle guarantees -/
structure ViaOk (T : List (Option Nat)) (reg : Registry) (r : Registry × Outcome × HandleView) : Prop where
  inv : RegInv T r.1
  seenInv : RegInv T r.2.1.seen
  obs : ∀ obs, r.2.1.result = .ok obs → ∀ o ∈ obs, obsOk r.2.1.seen r.2.1.act o = true
  pre : ∃ l, r.1 = reg ++ l

theorem serveKept_ok {cs : Case} (hwf : cs.wf = true) {reg : Registry} (hreg : RegInv cs.plain.persistentTags reg)
    (v : HandleView) (a : Action) (len : Nat) (sel : Option Nat) (hp : Nat) :
    ViaOk cs.plain.persistentTags reg (serveKept cs reg v a len sel hp) := by
  have htake := hreg.take len
  unfold serveKept
  cases hs : step cs (List.take len reg) { a with gen := sel, hp := hp } with
  | error e => exact ⟨hreg, htake, fun obs h => (by cases h), ⟨[], by simp⟩⟩
  | ok r =>
    obtain ⟨reg', obs⟩ := r
    have hok := step_ok hwf htake hs
    refine ⟨hreg, htake, ?_, ⟨[], by simp⟩⟩
    intro obs' h
    cases h
    exact hok.2

theorem stepKey_ok {cs : Case} (hwf : cs.wf = true) {reg : Registry} (hreg : RegInv cs.plain.persistentTags reg)
    (v : HandleView) (keeps : Bool) (a : Action) : ViaOk cs.plain.persistentTags reg (stepKey cs reg v keeps a) := by
  unfold stepKey
  cases hs : step cs reg { a with gen := v.key.address reg } with
  | error e => exact ⟨hreg, hreg, fun obs h => (by cases h), ⟨[], by simp⟩⟩
  | ok r =>
    obtain ⟨reg', obs⟩ := r
    have hok := step_ok hwf hreg hs
    refine ⟨hok.1, hreg, ?_, step_prefix hs⟩
    intro obs' h
    cases h
    exact hok.2

theorem stepVia_ok {cs : Case} (hwf : cs.wf = true) {reg : Registry} (hreg : RegInv cs.plain.persistentTags reg)
    (v : HandleView) (keeps : Bool) (a : Action) : ViaOk cs.plain.persistentTags reg (stepVia cs reg v keeps a) := by
  unfold stepVia
  split
  · exact serveKept_ok hwf hreg v a _ _ _
  · exact stepKey_ok hwf hreg v _ a

/-- an action through a handle only ever appends to the registry (no well-formedness needed) -/
theorem stepVia_prefix (cs : Case) (reg : Registry) (v : HandleView) (keeps : Bool) (a : Action) :
    ∃ l, (stepVia cs reg v keeps a).1 = reg ++ l := by
  unfold stepVia
  split
  · unfold serveKept
    split <;> exact ⟨[], by simp⟩
  · unfold stepKey
    split
    · rename_i reg' obs hs
      exact step_prefix hs
    · exact ⟨[], by simp⟩

theorem pins_rename {ρ σ : Nat → Nat} (hρ : Inj ρ) (hσ : Inj σ) (cs : Case) (a : Action) (ok : Bool) :
    pins (cs.rename ρ σ) a ok = pins cs a ok := by
  have hplain : (cs.rename ρ σ).plain.persistent.isEmpty = cs.plain.persistent.isEmpty := by
    show (cs.plain.rename ρ σ).persistent.isEmpty = _
    rw [Comp.persistent_rename hρ hσ]
    cases cs.plain.persistent <;> rfl
  unfold pins
  cases a.kind with
  | train => rfl
  | apply => simp only [hplain]
  | serve => simp only [hplain]
  | perftrack =>
    simp only [Case.rename]
    cases hp : cs.perf with
    | error e => rfl
    | ok p =>
      simp only
      rw [Comp.persistent_rename hρ hσ]
      cases p.persistent <;> rfl

theorem stepVia_rename {ρ σ : Nat → Nat} (hρ : Inj ρ) (hσ : Inj σ) (cs : Case) (reg : Registry) (v : HandleView)
    (keeps : Bool) (a : Action) : stepVia (cs.rename ρ σ) reg v keeps a = stepVia cs reg v keeps a := by
  unfold stepVia serveKept stepKey
  simp only [step_rename hρ hσ, pins_rename hρ hσ]

def ViaFreshOk (hist : List (Action × Fresh × Option Via)) : Prop := ∀ e ∈ hist, Inj e.2.1.1 ∧ Inj e.2.1.2

theorem runHandles_ok (cs : Case) (hwf : cs.wf = true) :
    ∀ (hist : List (Action × Fresh × Option Via)) (reg : Registry) (vs : Views),
      RegInv cs.plain.persistentTags reg → ViaFreshOk hist →
      ∀ out ∈ runHandles cs reg vs hist,
        RegInv cs.plain.persistentTags out.seen ∧
        ∀ obs, out.result = .ok obs → ∀ o ∈ obs, obsOk out.seen out.act o = true := by
  intro hist
  induction hist with
  | nil => intro reg vs _ _ out ho; cases ho
  | cons x rest ih =>
    intro reg vs hreg hfresh out ho
    obtain ⟨a, f, via⟩ := x
    have hx := hfresh (a, f, via) List.mem_cons_self
    have hrest : ViaFreshOk rest := fun e h => hfresh e (List.mem_cons_of_mem _ h)
    cases via with
    | none =>
      simp only [runHandles, step_rename hx.1 hx.2] at ho
      cases hs : step cs reg a with
      | error e =>
        rw [hs] at ho
        cases ho with
        | head => exact ⟨hreg, fun obs h => by cases h⟩
        | tail _ h' => exact ih reg vs hreg hrest out h'
      | ok r =>
        obtain ⟨reg', obs⟩ := r
        rw [hs] at ho
        have hok := step_ok hwf hreg hs
        cases ho with
        | head =>
          refine ⟨hreg, ?_⟩
          intro obs' h
          cases h
          exact hok.2
        | tail _ h' => exact ih reg' vs hok.1 hrest out h'
    | some via =>
      simp only [runHandles] at ho
      rw [stepVia_rename hx.1 hx.2] at ho
      have hv := stepVia_ok hwf hreg ((vs.lookup via.id).getD ⟨⟨a.gen⟩, none⟩) via.keeps a
      cases ho with
      | head => exact ⟨hv.seenInv, hv.obs⟩
      | tail _ h' => exact ih _ _ hv.inv hrest out h'

end ForML.Persist
