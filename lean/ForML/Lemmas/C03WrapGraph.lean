/-
C03 — helper lemmas, part 8: the graph side of `wrap.Operator.compose`: optional slots, optional subscriptions,
workers becoming live slot by slot.
-/
import ForML.Lemmas.C03Wrap

namespace ForML.Compose

/-! ### optional slots -/

def buildGroupsOpt (groups : List (Nat × WRef)) (slot : Option Actor) (n : Nat) : List (Nat × WRef) :=
  match slot with
  | none => groups
  | some a => buildGroups groups a n

def buildTrainsOpt (groups : List (Nat × WRef)) (slot : Option Actor) (n : Nat) (lt lp : PubRef) : List Training :=
  match slot with
  | none => []
  | some a => buildTrains groups a n lt lp

/-- what is known about the (optional) worker of one slot -/
structure SlotBuilt (gL : Graph) (lt : PubRef) (g : Graph) (lo hi : Nat) (slot : Option Actor) (w? : Option WRef)
    (groups : List (Nat × WRef)) (lpOf : Nat → PubRef) : Prop where
  some_ : ∀ a, slot = some a →
    ∃ w, w? = some w ∧ Built gL lt g w (lpOf a.tag) ∧ lo ≤ w.uid ∧ w.uid < hi ∧ w.actor = buildActor groups a
  none_ : slot = none → w? = none

theorem SlotBuilt.frame {gL lt g g' lo hi slot w? groups lpOf} (h : SlotBuilt gL lt g lo hi slot w? groups lpOf)
    (hf : Frame g g') : SlotBuilt gL lt g' lo hi slot w? groups lpOf := by
  refine ⟨?_, h.none_⟩
  intro a ha
  obtain ⟨w, h1, h2, h3, h4, h5⟩ := h.some_ a ha
  exact ⟨w, h1, h2.frame hf, h3, h4, h5⟩

/-- a slot worker, when present, is the one `SlotBuilt` describes -/
theorem SlotBuilt.of_some {gL lt g lo hi slot w? groups lpOf} (h : SlotBuilt gL lt g lo hi slot w? groups lpOf)
    {w : WRef} (hw : w? = some w) :
    ∃ a, slot = some a ∧ Built gL lt g w (lpOf a.tag) ∧ lo ≤ w.uid ∧ w.uid < hi ∧ w.actor = buildActor groups a := by
  cases hs : slot with
  | none => rw [h.none_ hs] at hw; cases hw
  | some a =>
    obtain ⟨w', h1, h2, h3, h4, h5⟩ := h.some_ a hs
    rw [hw] at h1
    cases h1
    exact ⟨a, rfl, h2, h3, h4, h5⟩

theorem buildOpt_spec {gL g : Graph} (hb : Bounded g) (hfL : Frame gL g) (lt lp : PubRef) (lpOf : Nat → PubRef)
    (groups : List (Nat × WRef)) (slot : Option Actor) (hG : GroupsOk gL lt lpOf g groups)
    (hlp : ∀ a, slot = some a → groups.lookup a.tag = none → lp = lpOf a.tag) :
    ∃ w? g', Run (buildOpt groups slot lt lp) g (w?, buildGroupsOpt groups slot g.next) g' ∧ Bounded g' ∧ Frame g g' ∧
      (slot.isSome = true → g.next + 3 ≤ g'.next) ∧ g'.next ≤ g.next + 4 ∧
      SlotBuilt gL lt g' g.next g'.next slot w? groups lpOf ∧
      GroupsOk gL lt lpOf g' (buildGroupsOpt groups slot g.next) ∧
      g'.trains = g.trains ++ buildTrainsOpt groups slot g.next lt lp ∧
      (∀ u k, g'.inputOf u k = g.inputOf u k) ∧ (Wired g → Wired g') := by
  cases slot with
  | none =>
    refine ⟨none, g, rfl, hb, Frame.refl g, ?_, ?_, ⟨?_, fun _ => rfl⟩, hG, ?_, fun _ _ => rfl, fun h => h⟩
    · intro h; cases h
    · omega
    · intro a h; cases h
    · simp [buildTrainsOpt]
  | some a =>
    obtain ⟨w, g', hrun, hb', hf', h3, h4, hbuilt, hwu, hact, hG', htr, hin, hwr⟩ :=
      build_spec hb hfL lt lp lpOf groups a hG (hlp a rfl)
    refine ⟨some w, g', ?_, hb', hf', fun _ => h3, h4, ⟨?_, by intro h; cases h⟩, hG', htr, hin, hwr⟩
    · show Run (do let (w, gs) ← build groups a lt lp; pure (some w, gs)) g _ g'
      exact Run.bind hrun (Run.pure _ _)
    · intro a' ha'
      cases ha'
      exact ⟨w, rfl, hbuilt, hwu, hbuilt.uid_lt, hact⟩

theorem lookup_buildGroupsOpt_none {groups : List (Nat × WRef)} {slot : Option Actor} {n k : Nat}
    (h : (buildGroupsOpt groups slot n).lookup k = none) : groups.lookup k = none := by
  cases slot with
  | none => exact h
  | some a =>
    unfold buildGroupsOpt buildGroups at h
    cases hl : groups.lookup a.tag with
    | some p => simpa [hl] using h
    | none =>
      simp only [hl, List.lookup_append] at h
      cases hk : groups.lookup k with
      | none => rfl
      | some v => simp [hk] at h

/-! ### optional subscriptions -/

def Graph.pushEdgeOpt (g : Graph) : Option Edge → Graph
  | none => g
  | some e => g.pushEdge e

def edgeOf (w? : Option WRef) (q : PubRef) : Option Edge := w?.map (fun w => ⟨w.uid, 0, q⟩)

@[simp] theorem pushEdgeOpt_next (g : Graph) (o) : (g.pushEdgeOpt o).next = g.next := by cases o <;> rfl
@[simp] theorem pushEdgeOpt_trains (g : Graph) (o) : (g.pushEdgeOpt o).trains = g.trains := by cases o <;> rfl
@[simp] theorem kindOf_pushEdgeOpt (g : Graph) (o u) : (g.pushEdgeOpt o).kindOf u = g.kindOf u := by cases o <;> rfl
@[simp] theorem trainerOf_pushEdgeOpt (g : Graph) (o u) : (g.pushEdgeOpt o).trainerOf u = g.trainerOf u := by
  cases o <;> rfl

/-- the publisher an optional subscription `w?[0] ← q` provides for input port `k` of `u` -/
def edgeHit (w? : Option WRef) (q : PubRef) (u k : Nat) : Option PubRef :=
  match w? with
  | some w => if w.uid = u ∧ 0 = k then some q else none
  | none => none

@[simp] theorem edgeHit_none (q u k) : edgeHit none q u k = none := rfl
theorem edgeHit_self (w : WRef) (q) : edgeHit (some w) q w.uid 0 = some q := by simp [edgeHit]
theorem edgeHit_ne (w : WRef) (q u k) (h : w.uid ≠ u) : edgeHit (some w) q u k = none := by simp [edgeHit, h]

theorem edgeHit_some {w? : Option WRef} {q q' : PubRef} {u k : Nat} (h : edgeHit w? q u k = some q') :
    ∃ w, w? = some w ∧ w.uid = u ∧ q' = q := by
  cases w? with
  | none => simp [edgeHit] at h
  | some w =>
    unfold edgeHit at h
    simp only at h
    split at h
    · rename_i hc; cases h; exact ⟨w, rfl, hc.1, rfl⟩
    · cases h

theorem or_some {α} {a b : Option α} {q : α} (h : a.or b = some q) : a = some q ∨ b = some q := by
  cases a with
  | none => right; simpa using h
  | some x => left; simpa using h

theorem inputOf_pushEdgeOpt (g : Graph) (w? : Option WRef) (q : PubRef) (u k : Nat) :
    (g.pushEdgeOpt (edgeOf w? q)).inputOf u k = (g.inputOf u k).or (edgeHit w? q u k) := by
  cases w? with
  | none => simp [edgeOf, Graph.pushEdgeOpt]
  | some w => simp [edgeOf, Graph.pushEdgeOpt, inputOf_pushEdge, edgeHit]

/-- `label_publisher` of `wrap.Operator.compose` -/
def labelPubOf (wl? : Option WRef) (ll : PubRef) : PubRef :=
  match wl? with
  | some w => ⟨w.uid, 0⟩
  | none => ll

/-- the label publisher the group of builder `τ` is trained with: the label actor sees the untransformed labels -/
def lpOfFn (lab : Option Actor) (ll labelPub : PubRef) (τ : Nat) : PubRef :=
  match lab with
  | some l => if l.tag = τ then ll else labelPub
  | none => labelPub

theorem composeWrap_eq (lab app trn : Option Actor) (scope : GraphM Trunk) :
    composeWrap lab app trn scope = (do
      let left ← scope
      let r1 ← buildOpt [] lab left.train.publisher left.label.publisher
      let r2 ← buildOpt r1.2 app left.train.publisher (labelPubOf r1.1 left.label.publisher)
      let r3 ← buildOpt r2.2 trn left.train.publisher (labelPubOf r1.1 left.label.publisher)
      left.extend (r2.1.map (fun w => Segment.ofNode w.uid)) (r3.1.map (fun w => Segment.ofNode w.uid))
        (r1.1.map (fun w => Segment.ofNode w.uid))) := rfl

theorem Inv.pushEdgeOpt {g W} (hi : Inv g W) (w? : Option WRef) (q : PubRef)
    (h : ∀ w, w? = some w → ¬ W.live w.uid ∧ w.uid < g.next) : Inv (g.pushEdgeOpt (edgeOf w? q)) W := by
  cases w? with
  | none => exact hi
  | some w => exact hi.pushEdge_notLive _ (h w rfl).1 (h w rfl).2

theorem Frame.pushEdgeOpt {g0 g} (hf : Frame g0 g) (w? : Option WRef) (q : PubRef)
    (h : ∀ w, w? = some w → g0.next ≤ w.uid) : Frame g0 (g.pushEdgeOpt (edgeOf w? q)) := by
  cases w? with
  | none => exact hf
  | some w => exact hf.pushEdge _ (h w rfl)

theorem Wired.pushEdgeOpt {g} (hw : Wired g) (w? : Option WRef) (q : PubRef) (hq : q.node < g.next)
    (h : ∀ w, w? = some w → g.inputOf w.uid 0 = none) : Wired (g.pushEdgeOpt (edgeOf w? q)) := by
  cases w? with
  | none => exact hw
  | some w => exact hw.pushEdge _ hq (h w rfl)

theorem run_extendOpt_worker (s : Segment) (w? : Option WRef) (g : Graph)
    (h : ∀ w, w? = some w → g.inputOf w.uid 0 = none) :
    Run (Trunk.extendOpt s (w?.map (fun w => Segment.ofNode w.uid))) g ⟨s.head, (w?.map (·.uid)).getD s.tail⟩
      (g.pushEdgeOpt (edgeOf w? s.publisher)) := by
  cases w? with
  | none => exact run_extendOpt_none s g
  | some w => exact run_extendOpt_some s w.uid g (h w rfl)

/-! ### an optional worker becomes live -/

theorem liveSlot {g W} (hi : Inv g W) (w? : Option WRef) (q : PubRef) (r : Nat) (st : Val)
    (hr : ∀ w, w? = some w → r < g.next) (hq : RefOk W q r)
    (hw : ∀ w, w? = some w → g.kindOf w.uid = some (.worker w.gid w.actor 1 1) ∧ g.inputOf w.uid 0 = some q ∧
      ¬ W.live w.uid ∧ StateFor g W w.gid w.actor r st) :
    ∃ W', Inv g W' ∧
      (∀ n, W'.live n ↔ (W.live n ∨ ∃ w, w? = some w ∧ n = w.uid)) ∧
      (∀ n, (∀ w, w? = some w → n ≠ w.uid) → W'.h n = W.h n ∧ ∀ i, W'.σ ⟨n, i⟩ = W.σ ⟨n, i⟩) ∧
      (∀ w, w? = some w → W'.h w.uid = r ∧ W'.σ ⟨w.uid, 0⟩ = .apply w.actor.tag st [W.σ q]) := by
  cases w? with
  | none =>
    refine ⟨W, hi, ?_, fun n _ => ⟨rfl, fun _ => rfl⟩, by intro w h; cases h⟩
    intro n
    constructor
    · exact Or.inl
    · rintro (h | ⟨w, h, _⟩)
      · exact h
      · cases h
  | some w =>
    obtain ⟨hk, hin, hnl, hst⟩ := hw w rfl
    refine ⟨_, hi.liveUnary w.uid w.gid w.actor q r st hk hnl (hr w rfl) hin hq hst, ?_, ?_, ?_⟩
    · intro n
      constructor
      · rintro (h | h)
        · exact Or.inr ⟨w, rfl, h⟩
        · exact Or.inl h
      · rintro (h | ⟨w', h, hn⟩)
        · exact Or.inr h
        · cases h; exact Or.inl hn
    · intro n hn
      have := hn w rfl
      exact ⟨set_h_other _ _ _ _ _ this, fun i => set_σ_other _ _ _ _ ⟨n, i⟩ this⟩
    · intro w' h
      cases h
      exact ⟨set_h_self _ _ _ _, set_σ_self _ _ _ _ _⟩

/-- what survives a `liveSlot` step: references to nodes that were live before -/
theorem liveSlot_keep {W W' : World} {w? : Option WRef}
    (L1 : ∀ n, W'.live n ↔ (W.live n ∨ ∃ w, w? = some w ∧ n = w.uid))
    (L2 : ∀ n, (∀ w, w? = some w → n ≠ w.uid) → W'.h n = W.h n ∧ ∀ i, W'.σ ⟨n, i⟩ = W.σ ⟨n, i⟩)
    (hnl : ∀ w, w? = some w → ¬ W.live w.uid) (q : PubRef) (hq : W.live q.node) :
    W'.live q.node ∧ W'.h q.node = W.h q.node ∧ W'.σ q = W.σ q := by
  have hne : ∀ w, w? = some w → q.node ≠ w.uid := fun w hw e => hnl w hw (e ▸ hq)
  obtain ⟨h1, h2⟩ := L2 q.node hne
  exact ⟨(L1 _).mpr (Or.inl hq), h1, h2 q.idx⟩

theorem liveSlot_keepRef {W W' : World} {w? : Option WRef}
    (L1 : ∀ n, W'.live n ↔ (W.live n ∨ ∃ w, w? = some w ∧ n = w.uid))
    (L2 : ∀ n, (∀ w, w? = some w → n ≠ w.uid) → W'.h n = W.h n ∧ ∀ i, W'.σ ⟨n, i⟩ = W.σ ⟨n, i⟩)
    (hnl : ∀ w, w? = some w → ¬ W.live w.uid) (q : PubRef) (r : Nat) (hq : RefOk W q r) :
    RefOk W' q r ∧ W'.σ q = W.σ q := by
  obtain ⟨h1, h2, h3⟩ := liveSlot_keep L1 L2 hnl q hq.1
  exact ⟨⟨h1, by rw [h2]; exact hq.2⟩, h3⟩

/-- the state a built worker runs on, once the publishers its group was trained on carry their values -/
theorem slot_stateFor {gL gC g6 : Graph} {W : World} {lt lp : PubRef} {w : WRef} (built : Built gL lt gC w lp)
    (t6 : ∀ u, g6.trainerOf u = gC.trainerOf u) (r : Nat) (h1 : RefOk W lt r) (h2 : RefOk W lp r) (vt lv : Val)
    (e1 : W.σ lt = vt) (e2 : W.σ lp = lv) : StateFor g6 W w.gid w.actor r (trainedState w.actor vt lv) := by
  by_cases hs : w.actor.stateful = true
  · obtain ⟨t, ht, x1, x2⟩ := built.trained hs
    have := StateFor.trained (g := g6) (W := W) (a := w.actor) (r := r) (by rw [t6]; exact ht) hs
      (by rw [x1]; exact h1) (by rw [x2]; exact h2)
    rw [x1, x2, e1, e2] at this
    simpa [trainedState, hs] using this
  · have hs' : w.actor.stateful = false := by simpa using hs
    simp only [trainedState, hs']
    exact StateFor.stateless hs'

/-! ### the values the slots carry -/

/-- the (transformed) labels: output of the label actor, if any -/
def labelVal (lab : Option Actor) (vt vl : Val) : Val :=
  match lab with
  | some l => applied l (trainedState l vt vl) vl
  | none => vl

/-- the label value the group of builder `τ` is trained with (mirror of `lpOfFn`) -/
def lblvFn (lab : Option Actor) (vl label' : Val) (τ : Nat) : Val :=
  match lab with
  | some l => if l.tag = τ then vl else label'
  | none => label'

/-- the state of the worker of a slot -/
def slotState (vt : Val) (lblv : Nat → Val) (groups : List (Nat × WRef)) (slot : Option Actor) : Val :=
  match slot with
  | some a => trainedState (buildActor groups a) vt (lblv a.tag)
  | none => .none

/-- the value at the tail of a slot: the slot's actor applied to the incoming value, or the incoming value itself -/
def slotVal (vt : Val) (lblv : Nat → Val) (groups : List (Nat × WRef)) (slot : Option Actor) (x : Val) : Val :=
  match slot with
  | some a => applied (buildActor groups a) (trainedState (buildActor groups a) vt (lblv a.tag)) x
  | none => x

end ForML.Compose
