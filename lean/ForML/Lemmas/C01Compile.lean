/-
C01 — `compile_denotes`: the compiler model, on every well-formed linked segment with a compatible asset accessor and
for every visit order that covers the members once, succeeds and returns exactly the symbols of the table the segment
denotes, every instruction once.
-/
import ForML.Lemmas.C01Denotes

namespace ForML.Flow
open CState Segment

theorem compile_denotes {g : Segment} {A : Option Assets} {rank : Uid → Nat} {order : List Uid}
    (hwf : g.wf rank = true) (hA : g.assetsOK A = true) (hperm : order.Perm g.uids) :
    ∃ t, compile g A order = .ok t ∧ Denotes g A t ∧ (t.map (·.id)).Nodup := by
  have h := wf_WF hwf
  have hA' := assetsOK_AssetsOK hA
  have ho := orderOK_of_perm hperm h.nodup
  have hf := final_state (A := A) h ho
  refine ⟨emitted g A (addAll g A order), ?_, hf.emitted_denotes h hA' ho, hf.emitted_nodup h hA' ho⟩
  unfold compile
  simp only [hf.ok]
  exact hf.emit_ok h hA' ho

theorem nodup_of_nodup_map {α β : Type} (f : α → β) {l : List α} (h : (l.map f).Nodup) : l.Nodup := by
  induction l with
  | nil => exact List.nodup_nil
  | cons x r ih =>
    simp only [List.map_cons, List.nodup_cons] at h ⊢
    exact ⟨fun hx => h.1 (List.mem_map.mpr ⟨x, hx, rfl⟩), ih h.2⟩

end ForML.Flow
