/-
C12 — helper lemmas about the data-level reducers (ForML/Model/CrossValReduce.lean).
-/
import ForML.Model.CrossValReduce

namespace ForML.CrossVal

theorem sum_set_add (xs : List Int) (i : Nat) (h : i < xs.length) (δ : Int) :
    (xs.set i (xs[i] + δ)).sum = xs.sum + δ := by
  induction xs generalizing i with
  | nil => simp at h
  | cons x xs ih =>
    cases i with
    | zero => simp; omega
    | succ i =>
      have := ih i (by simpa using h)
      simp only [List.set_cons_succ, List.sum_cons, List.getElem_cons_succ] at this ⊢
      omega

theorem sum_perm {xs ys : List Int} (h : xs.Perm ys) : xs.sum = ys.sum := by
  induction h with
  | nil => rfl
  | cons x _ ih => simp [ih]
  | swap x y l => simp only [List.sum_cons]; omega
  | trans _ _ ih₁ ih₂ => exact ih₁.trans ih₂

/-- with folds of one shape every fold has a value at every row: the row across the folds has one value per fold -/
theorem rowAcross_eq_map (folds : List (List Int)) (m i : Nat) (hm : ∀ f ∈ folds, f.length = m) (hi : i < m) :
    rowAcross i folds = folds.map (·.getD i 0) := by
  induction folds with
  | nil => rfl
  | cons f rest ih =>
    have hf : i < f.length := by rw [hm f List.mem_cons_self]; exact hi
    simp only [rowAcross, List.filterMap_cons, List.map_cons, List.getElem?_eq_getElem hf, List.getD_eq_getElem?_getD,
      Option.getD_some]
    congr 1
    exact ih fun g hg => hm g (List.mem_cons_of_mem _ hg)

theorem rowAcross_length (folds : List (List Int)) (m i : Nat) (hm : ∀ f ∈ folds, f.length = m) (hi : i < m) :
    (rowAcross i folds).length = folds.length := by
  rw [rowAcross_eq_map folds m i hm hi, List.length_map]

theorem pick_length {α : Type} (ps : List Nat) (xs : List α) (h : ∀ p ∈ ps, p < xs.length) :
    (pick ps xs).length = ps.length := by
  induction ps with
  | nil => rfl
  | cons p ps ih =>
    have hp := h p List.mem_cons_self
    simp only [pick, List.filterMap_cons, List.getElem?_eq_getElem hp, List.length_cons]
    congr 1
    exact ih fun q hq => h q (List.mem_cons_of_mem _ hq)

theorem pick_getElem? {α : Type} (ps : List Nat) (xs : List α) (h : ∀ p ∈ ps, p < xs.length) (j : Nat) :
    (pick ps xs)[j]? = (ps[j]?).bind (xs[·]?) := by
  induction ps generalizing j with
  | nil => simp [pick]
  | cons p ps ih =>
    have hp := h p List.mem_cons_self
    have ih' := ih (fun q hq => h q (List.mem_cons_of_mem _ hq))
    simp only [pick, List.filterMap_cons, List.getElem?_eq_getElem hp] at ih' ⊢
    cases j with
    | zero => simp [List.getElem?_eq_getElem hp]
    | succ j => simpa using ih' j

/-- row `j` across the folds after picking rows `ps` of every fold = row `ps[j]` across the folds -/
theorem rowAcross_pick (folds : List (List Int)) (m : Nat) (hm : ∀ f ∈ folds, f.length = m) (ps : List Nat)
    (hps : ∀ p ∈ ps, p < m) (j : Nat) (hj : j < ps.length) :
    rowAcross j (folds.map (pick ps)) = rowAcross ps[j] folds := by
  induction folds with
  | nil => rfl
  | cons f rest ih =>
    have hf : ∀ p ∈ ps, p < f.length := fun p hp => by rw [hm f List.mem_cons_self]; exact hps p hp
    have hrest := ih fun g hg => hm g (List.mem_cons_of_mem _ hg)
    simp only [rowAcross, List.map_cons, List.filterMap_cons] at hrest ⊢
    rw [pick_getElem? ps f hf j, List.getElem?_eq_getElem hj, Option.bind_some, hrest]

end ForML.CrossVal
