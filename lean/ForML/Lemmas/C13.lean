/-
Helper lemmas for C13 (dict algebra of `pget/pset/pupdate/pfilter`, signature binding, constructor
invariants) over ForML.Model.Actor.  Core Lean only.
-/
import ForML.Model.Actor

namespace ForML.Actor

variable {σ : Type}

/-! ### dict lemmas -/

theorem pget_pset (m : PMap) (k : Key) (v : Int) (k' : Key) :
    pget (pset m k v) k' = if k = k' then some v else pget m k' := by
  induction m with
  | nil => simp [pset, pget]
  | cons kv r ih =>
    obtain ⟨k0, v0⟩ := kv
    by_cases h0 : k0 = k
    · subst h0; simp only [pset, pget, if_true]; by_cases h : k0 = k' <;> simp [h]
    · by_cases h1 : k = k'
      · subst h1; simp [pset, pget, h0, ih]
      · simp [pset, pget, h0, ih, h1]

theorem pget_pupdate (m u : PMap) (k : Key) :
    pget (pupdate m u) k = por (pget u k) (pget m k) := by
  induction u with
  | nil => simp [pupdate, pget, por]
  | cons kv r ih =>
    obtain ⟨k0, v0⟩ := kv
    simp only [pupdate, pget_pset, pget]
    by_cases h : k0 = k
    · simp [h, por]
    · simp [h, ih]

theorem por_some {a b : Option Int} {v : Int} (h : a = some v) : por a b = some v := by
  subst h; rfl

theorem por_self (a : Option Int) : por a a = a := by cases a <;> rfl

/-- a key-only predicate holds for all entries iff it holds for every key that can be looked up -/
theorem all_keys_iff (P : Key → Bool) (m : PMap) :
    m.all (fun kv => P kv.1) = true ↔ ∀ k, (pget m k).isSome = true → P k = true := by
  induction m with
  | nil => simp [pget]
  | cons kv r ih =>
    obtain ⟨k0, v0⟩ := kv
    simp only [List.all_cons, Bool.and_eq_true, ih, pget]
    constructor
    · rintro ⟨h0, hr⟩ k hk
      by_cases h : k0 = k
      · subst h; exact h0
      · simp [h] at hk; exact hr k hk
    · intro h
      refine ⟨h k0 (by simp), fun k hk => ?_⟩
      by_cases h' : k0 = k
      · subst h'; exact h k0 (by simp)
      · exact h k (by simp [h', hk])

theorem all_keys_congr (P : Key → Bool) (m1 m2 : PMap) (h : ∀ k, pget m1 k = pget m2 k) :
    m1.all (fun kv => P kv.1) = m2.all (fun kv => P kv.1) := by
  have e : (m1.all (fun kv => P kv.1) = true) ↔ (m2.all (fun kv => P kv.1) = true) := by
    rw [all_keys_iff, all_keys_iff]; simp [h]
  cases h1 : m1.all (fun kv => P kv.1) <;> cases h2 : m2.all (fun kv => P kv.1) <;> simp_all

theorem accepts_congr (s : Sig) (m1 m2 : PMap) (h : ∀ k, pget m1 k = pget m2 k) :
    accepts s m1 = accepts s m2 := by
  unfold accepts
  rw [all_keys_congr (fun k => s.names.contains k) m1 m2 h]

theorem all_keys_pupdate (P : Key → Bool) (m u : PMap)
    (hm : m.all (fun kv => P kv.1) = true) (hu : u.all (fun kv => P kv.1) = true) :
    (pupdate m u).all (fun kv => P kv.1) = true := by
  rw [all_keys_iff] at *
  intro k hk
  rw [pget_pupdate] at hk
  cases h : pget u k with
  | some v => exact hu k (by simp [h])
  | none => rw [h] at hk; exact hm k (by simpa [por] using hk)

theorem accepts_pupdate (s : Sig) (m u : PMap) (hm : accepts s m = true) (hu : accepts s u = true) :
    accepts s (pupdate m u) = true := by
  unfold accepts at *
  cases hv : s.varkw
  · simp [hv] at hm hu ⊢
    have := all_keys_pupdate (fun k => s.names.contains k) m u (by simpa using hm) (by simpa using hu)
    simpa using this
  · simp

theorem pget_zipPos_isSome (ks : List Key) (vs : List Int) (k : Key) :
    (pget (zipPos ks vs) k).isSome = true → k ∈ ks := by
  induction ks generalizing vs with
  | nil => simp [zipPos, pget]
  | cons k0 r ih =>
    cases vs with
    | nil => simp [zipPos, pget]
    | cons v vs =>
      simp only [zipPos, pget]
      by_cases h : k0 = k
      · subst h; simp
      · simp only [h, if_false]; intro hk; exact List.mem_cons_of_mem _ (ih vs hk)

theorem accepts_zipPos (s : Sig) (vs : List Int) : accepts s (zipPos s.pos vs) = true := by
  unfold accepts
  cases s.varkw
  · simp only [Bool.false_or]
    rw [all_keys_iff (fun k => s.names.contains k)]
    intro k hk
    have := pget_zipPos_isSome s.pos vs k hk
    simp [Sig.names, this]
  · simp

/-! ### invariants of objects coming out of a constructor -/

theorem accepts_defaults (s : Sig) (hwf : s.wf = true) : accepts s s.defaults = true := by
  unfold accepts; unfold Sig.wf at hwf; rw [hwf]; simp

theorem bind_accepts (s : Sig) (args : List Int) (kw b : PMap) (h : bind s args kw = .ok b) :
    accepts s b = true := by
  unfold bind at h
  cases hp : bindPartial s args kw with
  | error e => simp [hp] at h
  | ok b' =>
    simp only [hp] at h
    split at h
    · cases h
      unfold bindPartial at hp
      split at hp
      · cases hp
      · simp only at hp
        split at hp
        · cases hp
        · split at hp
          · cases hp
          · rename_i _ _ hacc
            cases hp
            exact accepts_pupdate s _ _ (accepts_zipPos s _) (by simpa using hacc)
    · cases h

theorem ctorStore_ok (s : Sig) (hwf : s.wf = true) (args : List Int) (kw : PMap) (o : Obj σ)
    (h : ctorStore s args kw = .ok o) :
    o.state = none ∧ accepts s o.params = true ∧ (∀ k, (pget s.defaults k).isSome = true → (pget o.params k).isSome = true) := by
  unfold ctorStore at h
  cases hb : bind s args kw with
  | error e => simp [hb] at h
  | ok b =>
    simp only [hb] at h
    cases h
    refine ⟨rfl, ?_, ?_⟩
    · exact accepts_pupdate s _ _ (accepts_defaults s hwf) (bind_accepts s args kw b hb)
    · intro k hk
      simp only [pget_pupdate]
      cases hbk : pget b k with
      | some v => simp [por]
      | none => simpa [por] using hk


/-! ### filters, settable dicts -/

theorem pget_pfilter (p : Key → Bool) (m : PMap) (k : Key) :
    pget (pfilter p m) k = if p k then pget m k else none := by
  induction m with
  | nil => simp [pfilter, pget]
  | cons kv r ih =>
    obtain ⟨k0, v0⟩ := kv
    simp only [pfilter, List.filter_cons] at ih ⊢
    by_cases hp : p k0
    · simp only [hp, if_true, pget]
      by_cases h : k0 = k
      · subst h; simp [hp]
      · simp only [h, if_false]; exact ih
    · simp only [hp, pget]
      by_cases h : k0 = k
      · subst h; simp only [if_true] at *; simp [hp] at ih ⊢; simpa [hp] using ih
      · simp only [h, if_false]; simpa using ih

theorem por_assoc (a b c : Option Int) : por (por a b) c = por a (por b c) := by
  cases a <;> rfl

theorem por_none_right (a : Option Int) : por a none = a := by cases a <;> rfl

theorem settable_accepts (s : Sig) (m : PMap) (h : settable s m = true) : accepts s m = true := by
  unfold settable at h; simp only [Bool.and_eq_true] at h; exact h.1

/-- a settable dict has no entry for a name that is not a hyper-parameter -/
theorem settable_hidden (s : Sig) (m : PMap) (h : settable s m = true) (k : Key) (hk : s.visible k = false) :
    pget m k = none := by
  unfold settable at h
  simp only [Bool.and_eq_true] at h
  have := (all_keys_iff (fun k => s.visible k) m).1 h.2 k
  cases hg : pget m k with
  | none => rfl
  | some v => simp [hg, hk] at this

theorem settable_congr (s : Sig) (m1 m2 : PMap) (h : ∀ k, pget m1 k = pget m2 k) :
    settable s m1 = settable s m2 := by
  unfold settable
  rw [accepts_congr s m1 m2 h, all_keys_congr (fun k => s.visible k) m1 m2 h]

theorem settable_pupdate (s : Sig) (m u : PMap) (hm : settable s m = true) (hu : settable s u = true) :
    settable s (pupdate m u) = true := by
  unfold settable at *
  simp only [Bool.and_eq_true] at *
  exact ⟨accepts_pupdate s m u hm.1 hu.1, all_keys_pupdate (fun k => s.visible k) m u hm.2 hu.2⟩

theorem accepts_pfilter (s : Sig) (p : Key → Bool) (m : PMap) (h : accepts s m = true) :
    accepts s (pfilter p m) = true := by
  unfold accepts at *
  cases hv : s.varkw
  · simp only [hv, Bool.false_or] at h ⊢
    rw [all_keys_iff (fun k => s.names.contains k)] at h ⊢
    intro k hk
    rw [pget_pfilter] at hk
    by_cases hp : p k
    · simp only [hp, if_true] at hk; exact h k hk
    · simp [hp] at hk
  · simp

/-- what `get_params` reports can always be given back to `set_params` -/
theorem settable_reported (s : Sig) (o : Obj σ) (h : accepts s o.params = true) :
    settable s (reported s o) = true := by
  unfold settable reported
  simp only [Bool.and_eq_true]
  refine ⟨accepts_pfilter s _ _ h, ?_⟩
  rw [all_keys_iff (fun k => s.visible k)]
  intro k hk
  rw [pget_pfilter] at hk
  by_cases hp : s.visible k
  · exact hp
  · simp [hp] at hk

theorem pget_reported (s : Sig) (o : Obj σ) (k : Key) :
    pget (reported s o) k = if s.visible k then pget o.params k else none := pget_pfilter _ _ _

/-! ### the wrapped constructor -/

theorem wrappedBuild_ok (s : Sig) (args : List Int) (kw : PMap) (o : Obj σ) (h : wrappedBuild s args kw = .ok o) :
    ∃ o1 : Obj σ, ctorStore s args kw = .ok o1 ∧ o = { o1 with ctor := (args, kw) } := by
  unfold wrappedBuild at h
  cases hc : (ctorStore s args kw : Except Err (Obj σ)) with
  | error e => simp [hc] at h
  | ok o1 => simp only [hc] at h; cases h; exact ⟨o1, rfl, rfl⟩

theorem wrappedBuild_of (s : Sig) (args : List Int) (kw : PMap) (o1 : Obj σ) (h : ctorStore s args kw = .ok o1) :
    wrappedBuild s args kw = .ok { o1 with ctor := (args, kw) } := by
  simp [wrappedBuild, h]

/-! ### what a constructor stores -/

theorem bind_eq (s : Sig) (args : List Int) (kw b : PMap) (h : bind s args kw = .ok b) :
    b = pupdate (zipPos s.pos (args.drop s.anon)) kw := by
  unfold bind at h
  cases hp : bindPartial s args kw with
  | error e => simp [hp] at h
  | ok b' =>
    simp only [hp] at h
    split at h
    · cases h
      unfold bindPartial at hp
      split at hp
      · cases hp
      · simp only at hp
        split at hp
        · cases hp
        · split at hp
          · cases hp
          · cases hp; rfl
    · cases h

/-- attributes stored by a class constructor, per key: keyword, else positional, else default -/
theorem ctorStore_lookup (s : Sig) (args : List Int) (kw : PMap) (o : Obj σ) (h : ctorStore s args kw = .ok o) (k : Key) :
    pget o.params k = por (pget kw k) (pget (pupdate s.defaults (zipPos s.pos (args.drop s.anon))) k) := by
  unfold ctorStore at h
  cases hb : bind s args kw with
  | error e => simp [hb] at h
  | ok b =>
    simp only [hb] at h
    cases h
    rw [bind_eq s args kw b hb]
    simp only [pget_pupdate, por_assoc]

end ForML.Actor
