/-
C04 helper lemmas, part 10: a commit is atomic for the readers.  Of the micro-steps of a training run's commit
(stage the state files, create the generation directory, move the files, write the tag to a temporary file, rename it
to `tag.toml`) only the last one changes what readers see: after any proper prefix (= a crash) the registry reads as
before, after all of them it reads as before plus exactly the committed generation with exactly its states.
Hence histories with crashes inside commits and with re-trainings racing with loads keep the registry invariant and
the binding (`runFaulty_ok`).
-/
import ForML.Lemmas.C04Commit
import ForML.Lemmas.C04Modes

namespace ForML.Persist

/-! ### a registry written as a store reads back as itself -/

theorem filesFrom_ge (base : Nat) :
    ∀ (os : List Origin) (j sid : Nat) (o : Origin), (sid, o) ∈ filesFrom base j os → base + j ≤ sid := by
  intro os
  induction os with
  | nil => intro j sid o h; cases h
  | cons o0 os ih =>
    intro j sid o h
    simp only [filesFrom, List.mem_cons] at h
    rcases h with h | h
    · have := (Prod.mk.inj h).1
      omega
    · have := ih (j + 1) sid o h
      omega

theorem filesFrom_find (base : Nat) :
    ∀ (os : List Origin) (j sid : Nat) (o : Origin), (sid, o) ∈ filesFrom base j os →
      (filesFrom base j os).find? (fun f => f.1 == sid) = some (sid, o) := by
  intro os
  induction os with
  | nil => intro j sid o h; cases h
  | cons o0 os ih =>
    intro j sid o h
    simp only [filesFrom, List.mem_cons] at h
    by_cases hs : sid = base + j
    · have ho : o = o0 := by
        rcases h with h | h
        · exact (Prod.mk.inj h).2
        · have := filesFrom_ge base os (j + 1) sid o h
          omega
      subst hs
      subst ho
      simp [filesFrom]
    · rcases h with h | h
      · exact absurd (Prod.mk.inj h).1 hs
      · have hne : (base + j == sid) = false := by
          simp only [beq_eq_false_iff_ne, ne_eq]
          exact fun e => hs e.symm
        simp only [filesFrom, List.find?_cons, hne]
        exact ih (j + 1) sid o h

theorem filesFrom_snd (base : Nat) : ∀ (os : List Origin) (j : Nat), (filesFrom base j os).map (·.2) = os := by
  intro os
  induction os with
  | nil => intro j; rfl
  | cons o os ih => intro j; simp only [filesFrom, List.map_cons, ih]

/-- the state ids of one generation are pairwise different -/
theorem filesFrom_pairwise (base : Nat) :
    ∀ (os : List Origin) (j : Nat), (filesFrom base j os).Pairwise (fun a b => a.1 ≠ b.1) := by
  intro os
  induction os with
  | nil => intro j; exact List.Pairwise.nil
  | cons o os ih =>
    intro j
    simp only [filesFrom]
    apply List.Pairwise.cons
    · intro b hb
      have := filesFrom_ge base os (j + 1) b.1 b.2 hb
      show base + j ≠ b.1
      omega
    · exact ih (j + 1)

/-- reading the listed state ids of a generation's directory yields its states -/
theorem genDirOf_entry (k : Nat) (g : Generation) :
    (genDirOf k g).entry = some (k, g.run, g.states.map some) := by
  simp only [GenDir.entry, genDirOf, List.map_map]
  congr 3
  have hread : ∀ f ∈ filesFrom (1000 * k) 0 g.states,
      ((genDirOf k g).read ∘ (fun f => f.1)) f = (some ∘ (fun f => f.2)) f := by
    intro f hf
    simp only [Function.comp, GenDir.read, genDirOf]
    rw [filesFrom_find _ _ _ f.1 f.2 hf]
    rfl
  have h1 := List.map_congr_left hread
  simp only [genDirOf] at h1
  rw [h1, ← List.map_map, filesFrom_snd]

theorem registry_gensFrom :
    ∀ (reg : Registry) (i : Nat) (st : List (Nat × Origin)), (⟨st, gensFrom i reg⟩ : Store).registry = reg := by
  intro reg
  induction reg with
  | nil => intro i st; rfl
  | cons g gs ih =>
    intro i st
    have := ih (i + 1) st
    simp only [Store.registry, Store.view, gensFrom, List.filterMap_cons, genDirOf_entry, List.map_cons] at this ⊢
    rw [this]
    congr 1
    simp

theorem registry_storeOf (reg : Registry) : (storeOf reg).registry = reg := registry_gensFrom reg 0 []

theorem gensFrom_keys : ∀ (reg : Registry) (i : Nat) (d : GenDir), d ∈ gensFrom i reg → i < d.key ∧ d.key ≤ i + reg.length := by
  intro reg
  induction reg with
  | nil => intro i d h; cases h
  | cons g gs ih =>
    intro i d h
    simp only [gensFrom, List.mem_cons] at h
    rcases h with h | h
    · subst h
      have hk : (genDirOf (i + 1) g).key = i + 1 := rfl
      rw [hk]
      simp only [List.length_cons]
      omega
    · have := ih (i + 1) d h
      simp only [List.length_cons]
      omega

theorem gensFrom_append : ∀ (reg : Registry) (i : Nat) (g : Generation),
    gensFrom i (reg ++ [g]) = gensFrom i reg ++ [genDirOf (i + reg.length + 1) g] := by
  intro reg
  induction reg with
  | nil => intro i g; rfl
  | cons g0 gs ih =>
    intro i g
    have e : i + 1 + gs.length + 1 = i + (gs.length + 1) + 1 := by omega
    simp only [List.cons_append, gensFrom, ih (i + 1) g, List.length_cons, e]

/-! ### only the last micro-step changes what readers see -/

/-- the directories with key `k` are not listed -/
def Unlisted (k : Nat) (s : Store) : Prop := ∀ g ∈ s.gens, g.key = k → g.tag = none

/-- a micro-step of the preparation of generation `k` -/
def Op.prepFor (k : Nat) : Op → Bool
  | .stage _ _ => true
  | .mkdir k' => k' == k
  | .move k' _ => k' == k
  | .stageTag _ => true
  | .publishTag _ _ _ => false

theorem entry_none_of_tag {g : GenDir} (h : g.tag = none) : g.entry = none := by
  simp [GenDir.entry, h]

theorem view_updGen_files (k : Nat) (f : Nat × Origin) :
    ∀ (gens : List GenDir), (∀ g ∈ gens, g.key = k → g.tag = none) →
      (updGen k (fun g => { g with files := g.files ++ [f] }) gens).filterMap GenDir.entry
        = gens.filterMap GenDir.entry := by
  intro gens
  induction gens with
  | nil => intro _; rfl
  | cons g gs ih =>
    intro h
    have hrest := ih (fun g' hg' => h g' (List.mem_cons_of_mem _ hg'))
    simp only [updGen, List.map_cons, List.filterMap_cons] at hrest ⊢
    by_cases hk : g.key = k
    · have ht := h g List.mem_cons_self hk
      have hb : (g.key == k) = true := by simpa using hk
      have e1 : ({ g with files := g.files ++ [f] } : GenDir).entry = none := entry_none_of_tag ht
      simp only [hb, if_true, e1, entry_none_of_tag ht]
      exact hrest
    · have hb : (g.key == k) = false := by simpa using hk
      simp only [hb, Bool.false_eq_true, if_false]
      rw [hrest]

theorem applyOp_prep {k : Nat} {s s' : Store} {op : Op} (hop : Op.prepFor k op = true) (hu : Unlisted k s)
    (h : applyOp s op = some s') : s'.view = s.view ∧ Unlisted k s' := by
  cases op with
  | stage sid o =>
    simp only [applyOp, Option.some.injEq] at h
    subst h
    exact ⟨rfl, hu⟩
  | mkdir k' =>
    have hk : k' = k := by simpa [Op.prepFor] using hop
    subst hk
    simp only [applyOp] at h
    split at h
    · cases h; exact ⟨rfl, hu⟩
    · cases h
      refine ⟨?_, ?_⟩
      · simp [Store.view, List.filterMap_append, GenDir.entry]
      · intro g hg hgk
        simp only [List.mem_append, List.mem_singleton] at hg
        cases hg with
        | inl h' => exact hu g h' hgk
        | inr h' => subst h'; rfl
  | move k' sid =>
    have hk : k' = k := by simpa [Op.prepFor] using hop
    subst hk
    simp only [applyOp] at h
    cases hf : s.staged.find? (fun f => f.1 == sid) with
    | none => rw [hf] at h; cases h
    | some f =>
      rw [hf] at h
      cases h
      refine ⟨view_updGen_files k' f s.gens hu, ?_⟩
      intro g hg hgk
      simp only [updGen, List.mem_map] at hg
      obtain ⟨g0, hg0, rfl⟩ := hg
      split at hgk
      · rename_i hb
        have : g0.key = k' := by simpa using hb
        have ht := hu g0 hg0 this
        simp only [hb, if_true]
        exact ht
      · rename_i hb
        simp only [hb, Bool.false_eq_true, if_false]
        exact hu g0 hg0 hgk
  | stageTag k' =>
    simp only [applyOp, Option.some.injEq] at h
    subst h
    exact ⟨rfl, hu⟩
  | publishTag k' run sids => cases hop

theorem runOps_prep {k : Nat} : ∀ (ops : List Op) (s : Store), (∀ op ∈ ops, Op.prepFor k op = true) → Unlisted k s →
    (runOps s ops).view = s.view := by
  intro ops
  induction ops with
  | nil => intro s _ _; rfl
  | cons op rest ih =>
    intro s hall hu
    simp only [runOps]
    cases h : applyOp s op with
    | none => rfl
    | some s' =>
      have := applyOp_prep (hall op List.mem_cons_self) hu h
      rw [ih s' (fun o ho => hall o (List.mem_cons_of_mem _ ho)) this.2, this.1]

theorem prepareOps_prepFor (k : Nat) (states : List (Nat × Origin)) :
    ∀ op ∈ prepareOps k states, Op.prepFor k op = true := by
  intro op hop
  simp only [prepareOps, List.mem_append, List.mem_map, List.mem_singleton] at hop
  rcases hop with ((⟨f, _, rfl⟩ | rfl) | ⟨f, _, rfl⟩) | rfl <;> simp [Op.prepFor]

/-! ### the complete commit, exactly -/

theorem runAll_stages (gens : List GenDir) :
    ∀ (xs st : List (Nat × Origin)),
      runAll ⟨st, gens⟩ (xs.map (fun f => Op.stage f.1 f.2)) = some ⟨st ++ xs, gens⟩ := by
  intro xs
  induction xs with
  | nil => intro st; simp [runAll]
  | cons x xs ih =>
    intro st
    simp only [List.map_cons, runAll, applyOp]
    rw [ih (st ++ [x])]
    simp

theorem updGen_last (k : Nat) (f : GenDir → GenDir) (old : List GenDir) (d : GenDir)
    (hold : ∀ g ∈ old, g.key ≠ k) (hd : d.key = k) : updGen k f (old ++ [d]) = old ++ [f d] := by
  simp only [updGen, List.map_append, List.map_cons, List.map_nil]
  have hb : (d.key == k) = true := by simpa using hd
  simp only [hb, if_true]
  congr 1
  have : ∀ g ∈ old, (if (g.key == k) = true then f g else g) = g := by
    intro g hg
    have : (g.key == k) = false := by simpa using hold g hg
    simp [this]
  rw [List.map_congr_left this, List.map_id']

theorem runAll_moves (k : Nat) (old : List GenDir) (hold : ∀ g ∈ old, g.key ≠ k) :
    ∀ (rest done : List (Nat × Origin)), rest.Pairwise (fun a b => a.1 ≠ b.1) →
      runAll ⟨rest, old ++ [⟨k, done, none⟩]⟩ (rest.map (fun f => Op.move k f.1))
        = some ⟨[], old ++ [⟨k, done ++ rest, none⟩]⟩ := by
  intro rest
  induction rest with
  | nil => intro done _; simp [runAll]
  | cons x xs ih =>
    intro done hp
    have hx : ∀ b ∈ xs, x.1 ≠ b.1 := fun b hb => List.rel_of_pairwise_cons hp hb
    have hxs := List.Pairwise.of_cons hp
    have hfilter : (x :: xs).filter (fun f' => f'.1 != x.1) = xs := by
      simp only [List.filter_cons, bne_self_eq_false, Bool.false_eq_true, if_false]
      apply List.filter_eq_self.mpr
      intro b hb
      simp only [bne_iff_ne, ne_eq]
      exact fun e => hx b hb e.symm
    simp only [List.map_cons, runAll, applyOp, List.find?_cons, beq_self_eq_true, hfilter]
    rw [updGen_last k _ old ⟨k, done, none⟩ hold rfl]
    have := ih (done ++ [x]) hxs
    simp only [List.append_assoc, List.singleton_append] at this
    exact this

/-- all micro-steps of the commit of `g` on top of `reg`: the store of `reg ++ [g]` -/
theorem runAll_commit (reg : Registry) (g : Generation) :
    runAll (storeOf reg) (commitOps reg g) = some (storeOf (reg ++ [g])) := by
  have hold : ∀ d ∈ gensFrom 0 reg, d.key ≠ reg.length + 1 := by
    intro d hd
    have := gensFrom_keys reg 0 d hd
    omega
  simp only [commitOps, trainOps, prepareOps, storeOf]
  rw [runAll_append, runAll_append, runAll_append, runAll_append, runAll_stages]
  simp only [Option.bind_some, List.nil_append, runAll, applyOp]
  have hng : (⟨filesFrom (1000 * (reg.length + 1)) 0 g.states, gensFrom 0 reg⟩ : Store).hasGen (reg.length + 1) = false := by
    simp only [Store.hasGen]
    apply List.any_eq_false.mpr
    intro d hd
    simpa using hold d hd
  simp only [hng, Bool.false_eq_true, if_false, Option.bind_some]
  rw [runAll_moves (reg.length + 1) (gensFrom 0 reg) hold _ [] (filesFrom_pairwise _ _ _)]
  simp only [Option.bind_some, List.nil_append]
  rw [updGen_last (reg.length + 1) _ (gensFrom 0 reg) _ hold rfl, gensFrom_append]
  simp [genDirOf]

theorem runOps_of_runAll : ∀ (ops : List Op) (s s' : Store), runAll s ops = some s' → runOps s ops = s' := by
  intro ops
  induction ops with
  | nil => intro s s' h; cases h; rfl
  | cons op rest ih =>
    intro s s' h
    simp only [runAll] at h
    simp only [runOps]
    cases h1 : applyOp s op with
    | none => rw [h1] at h; cases h
    | some s1 => rw [h1] at h; exact ih s1 s' h

theorem storeOf_unlisted (reg : Registry) : Unlisted (reg.length + 1) (storeOf reg) := by
  intro d hd hk
  have := gensFrom_keys reg 0 d hd
  omega

/-- **A complete commit** is read as the registry plus exactly the committed generation. -/
theorem crashedCommit_complete (reg : Registry) (g : Generation) (n : Nat) (h : (commitOps reg g).length ≤ n) :
    crashedCommit reg g n = reg ++ [g] := by
  simp only [crashedCommit, List.take_of_length_le h, runOps_of_runAll _ _ _ (runAll_commit reg g), registry_storeOf]

/-- **A crashed commit** (any proper prefix of the micro-steps) is not visible at all. -/
theorem crashedCommit_crashed (reg : Registry) (g : Generation) (n : Nat) (h : n < (commitOps reg g).length) :
    crashedCommit reg g n = reg := by
  have hlen : n ≤ (prepareOps (reg.length + 1) (filesFrom (1000 * (reg.length + 1)) 0 g.states)).length := by
    simp only [commitOps, trainOps, List.length_append, List.length_cons, List.length_nil] at h
    omega
  have hview : (runOps (storeOf reg) ((commitOps reg g).take n)).view = (storeOf reg).view := by
    simp only [commitOps, trainOps]
    rw [List.take_append_of_le_length hlen]
    exact runOps_prep _ _ (fun op hop => prepareOps_prepFor _ _ op (List.mem_of_mem_take hop)) (storeOf_unlisted reg)
  have := registry_storeOf reg
  simp only [crashedCommit, Store.registry, hview] at this ⊢
  exact this

theorem crashedCommit_atomic (reg : Registry) (g : Generation) (n : Nat) :
    crashedCommit reg g n = reg ∨ crashedCommit reg g n = reg ++ [g] := by
  by_cases h : n < (commitOps reg g).length
  · exact Or.inl (crashedCommit_crashed reg g n h)
  · exact Or.inr (crashedCommit_complete reg g n (by omega))

/-! ### histories with faults keep the invariant and the binding -/

/-- the expansions of the racing processes are fresh ones, too -/
def Fault.FreshOk (x : Fault) : Prop :=
  match x.race with
  | none => True
  | some (_, _, f) => Inj f.1 ∧ Inj f.2

theorem settle_inv {cs : Case} (hwf : cs.wf = true) {reg reg' : Registry}
    (hreg : RegInv cs.plain.persistentTags reg) (hreg' : RegInv cs.plain.persistentTags reg') (x : Fault)
    (hx : x.FreshOk) : RegInv cs.plain.persistentTags (settle cs reg reg' x) := by
  have hcrash : RegInv cs.plain.persistentTags (match x.crash with
      | none => reg'
      | some k =>
        match reg'.drop reg.length with
        | [g] => crashedCommit reg g k
        | _ => reg') := by
    cases x.crash with
    | none => exact hreg'
    | some k =>
      simp only
      split
      · rename_i g hd
        have hg : g ∈ reg' := List.mem_of_mem_drop (by rw [hd]; exact List.mem_singleton_self g)
        cases crashedCommit_atomic reg g k with
        | inl h => rw [h]; exact hreg
        | inr h => rw [h]; exact hreg.append (hreg' g hg)
      · exact hreg'
  simp only [settle]
  cases hr : x.race with
  | none => exact hcrash
  | some r =>
    obtain ⟨run, hp, f⟩ := r
    simp only [Fault.FreshOk, hr] at hx
    simp only [step_rename hx.1 hx.2]
    split
    · rename_i reg'' obs hs
      exact (step_ok hwf hcrash hs).1
    · exact hcrash

def FaultyFreshOk (hist : List (Action × Fresh × Fault)) : Prop :=
  ∀ e ∈ hist, Inj e.2.1.1 ∧ Inj e.2.1.2 ∧ e.2.2.FreshOk

theorem runFaulty_ok (cs : Case) (hwf : cs.wf = true) :
    ∀ (hist : List (Action × Fresh × Fault)) (reg : Registry), RegInv cs.plain.persistentTags reg →
      FaultyFreshOk hist →
      ∀ entry ∈ runFaulty cs reg hist,
        RegInv cs.plain.persistentTags entry.2.1 ∧
        ∀ obs, entry.2.2 = .ok obs → ∀ o ∈ obs, obsOk entry.2.1 entry.1 o = true := by
  intro hist
  induction hist with
  | nil => intro reg _ _ entry he; cases he
  | cons x rest ih =>
    intro reg hreg hfresh entry he
    obtain ⟨a, f, flt⟩ := x
    have hx := hfresh (a, f, flt) List.mem_cons_self
    have hrest : FaultyFreshOk rest := fun e h => hfresh e (List.mem_cons_of_mem _ h)
    simp only [runFaulty, step_rename hx.1 hx.2.1] at he
    cases hs : step cs reg a with
    | error e =>
      rw [hs] at he
      cases he with
      | head => exact ⟨hreg, fun obs h => by cases h⟩
      | tail _ h' => exact ih _ (settle_inv hwf hreg hreg flt hx.2.2) hrest entry h'
    | ok r =>
      obtain ⟨reg', obs⟩ := r
      rw [hs] at he
      have hok := step_ok hwf hreg hs
      cases he with
      | head =>
        refine ⟨hreg, ?_⟩
        intro obs' h
        cases h
        exact hok.2
      | tail _ h' => exact ih _ (settle_inv hwf hreg hok.1 flt hx.2.2) hrest entry h'

end ForML.Persist
