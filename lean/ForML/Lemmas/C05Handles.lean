/-
Helper lemmas for C05, several writers: one registry call of a handle (`Act`) on a good tree — every tree it can leave
(at its end, where it raises, where the process dies) is good and shows the previous view or the complete new item; what a
completed commit / dump adds.  `dump` and `commit` are separate history steps here, so a commit moves whatever is staged
under the given ids at that moment (not necessarily written by the same step).
-/
import ForML.Lemmas.C05SF
import ForML.Model.RegistryHandles

namespace ForML.Registry
open ForML.Fs

/-- the invariant of reachable trees when dumps and commits of several writers interleave -/
structure Good2 (fs : Fs) : Prop where
  good : Good fs
  sf : StateFiles fs

theorem empty_good2 : Good2 Fs.empty := ⟨empty_good, empty_stateFiles⟩

theorem closeAt_eq (impl : Impl) (p v ord : Nat) (sids : List Nat) :
    closeAt impl p v ord sids = closeCall impl p v ord sids := rfl

theorem relListed_dirs (fs : Fs) (p v : Nat) (h : relListed fs p v = true) :
    get fs (projectP p) ≠ none ∧ get fs (releaseP p v) ≠ none := by
  simp only [relListed, Bool.and_eq_true, isDir, beq_iff_eq] at h
  exact ⟨by rw [h.1.1]; simp, by rw [h.1.2]; simp⟩

/-- a commit that completes found every state it names staged -/
theorem close_sources (kf : Bool) (fs x : Fs) (p v g : Nat) (t : Tag)
    (hr : run fs (closeOps ⟨true, kf⟩ fs p v g t) = some x) :
    ∀ s ∈ t.sids, get fs (stagedStateP p v s) ≠ none := by
  intro s hs habs
  have hsplit : closeOps ⟨true, kf⟩ fs p v g t = mkdirP fs (generationP p v g) ++ (renOps p v g t.sids
      ++ [Op.createEmpty (tagTmpP p v g), Op.append (tagTmpP p v g) (encodeTag t),
          Op.rename (tagTmpP p v g) (tagP p v g)]) := by
    simp [closeOps, tagWriteOps, renOps]
  rw [hsplit, run_append] at hr
  cases h1 : run fs (mkdirP fs (generationP p v g)) with
  | none => rw [h1] at hr; cases hr
  | some f1 =>
    rw [h1] at hr
    simp only [Option.bind_some, run_append] at hr
    have habs1 : get f1 (stagedStateP p v s) = none := by
      rw [← habs]
      apply run_frame _ _ _ _ h1
      intro op hop
      obtain ⟨q, hq, rfl, _⟩ := mem_mkdirP _ _ _ hop
      simp only [generationP, prefixes, List.map_cons, List.map_nil, List.mem_cons, List.not_mem_nil,
        or_false] at hq
      rcases hq with rfl | rfl | rfl <;> simp [touches, stagedStateP]
    rw [renames_absent_fail p v g s t.sids f1 habs1 hs] at hr
    cases hr

/-! ### the trees one call can leave -/

/-- a dump — complete or interrupted anywhere — changes nothing outside the stage directory -/
theorem write_left (fs x : Fs) (g2 : Good2 fs) (p v sid : Nat) (b : Bytes) (hl : relListed fs p v = true)
    (hx : CrashTree fs [fun f => writeOps f p v sid b] x) :
    Good2 x ∧ ViewEq x fs ∧ ∀ key, ¬ (stageP p v <+: key) → get x key = get fs key := by
  obtain ⟨hp, hv⟩ := relListed_dirs fs p v hl
  have wx := hx.wf g2.good.wf
  have sfx := hx.stateFiles g2.sf (by
    intro c hc f op hop
    simp only [List.mem_cons, List.not_mem_nil, or_false] at hc; subst hc
    exact writeOps_opSF f p v sid b op hop)
  have frame : ∀ key, ¬ (stageP p v <+: key) → get x key = get fs key := by
    cases hx with
    | here _ _ _ k cut _ hr =>
      simp only [atomsAll_writeOps] at hr
      exact write_frame fs x p v sid b k cut hp hv hr
    | later _ _ _ fs' _ hr hrest =>
      cases hrest
      simp only [atomsAll_writeOps] at hr
      exact write_full_frame fs x p v sid b hp hv hr
  refine ⟨⟨?_, sfx⟩, vis_frame_stage x fs p v frame, frame⟩
  apply good_of_genframe x fs (p, v, 0) _ (by simp [genValid]) (by simp [genValid]) wx g2.good
  intro p' v' g' key hk _
  obtain ⟨r, rfl⟩ := hk
  apply frame
  simp [generationP, stageP]

/-- the footprint and the content of a completed commit of whatever is staged under `sids` -/
theorem close_full (fs x : Fs) (p v ord : Nat) (sids : List Nat) (hl : relListed fs p v = true)
    (h : FullTree fs [closeAt ⟨true, true⟩ p v ord sids] x) :
    (∀ key, ¬ (generationP p v (nextGen fs p v) <+: key) → ¬ (stageP p v <+: key) → get x key = get fs key)
    ∧ get x (generationP p v (nextGen fs p v)) = some .dir
    ∧ get x (tagP p v (nextGen fs p v)) = some (.file (encodeTag ⟨ord, sids⟩))
    ∧ sids.Nodup
    ∧ (∀ s ∈ sids, get x (stateP p v (nextGen fs p v) s) = get fs (stagedStateP p v s))
    ∧ (∀ s ∈ sids, get fs (stagedStateP p v s) ≠ none) := by
  obtain ⟨hp, hv⟩ := relListed_dirs fs p v hl
  cases h with
  | call _ _ _ fs' _ hr hrest =>
    cases hrest
    simp only [closeAt, atomsAll_closeOps] at hr
    obtain ⟨c1, c2, c3, c4⟩ := close_content true fs x p v _ _ hr
    exact ⟨close_frame ⟨true, true⟩ fs x p v _ _ hp hv hr, c1, c2, c3, c4, close_sources true fs x p v _ _ hr⟩

theorem close_left (fs x : Fs) (g2 : Good2 fs) (p v ord : Nat) (sids : List Nat) (hl : relListed fs p v = true)
    (hx : CrashTree fs [closeAt ⟨true, true⟩ p v ord sids] x) :
    Good2 x ∧ (ViewEq x fs ∨ FullTree fs [closeAt ⟨true, true⟩ p v ord sids] x) := by
  obtain ⟨hp, hv⟩ := relListed_dirs fs p v hl
  have wx := hx.wf g2.good.wf
  have sfx := hx.stateFiles g2.sf (by
    intro c hc f op hop
    simp only [List.mem_cons, List.not_mem_nil, or_false] at hc; subst hc
    exact closeOps_opSF _ f p v _ _ op hop)
  have ht0 : get fs (tagP p v (nextGen fs p v)) = none :=
    tag_absent_of_invalid fs p v _ g2.good.wf (genValid_nextGen fs p v) (nextGen_pos fs p v)
  rcases train_tree true fs p v ord sids hp hv g2.good.wf [] fs g2.good.wf (fun _ _ => rfl) x hx with hq | hfull
  · exact ⟨⟨hq.good wx g2.good, sfx⟩, Or.inl (hq.viewEq ht0)⟩
  · have hfull' : FullTree fs [closeAt ⟨true, true⟩ p v ord sids] x := hfull
    obtain ⟨c1, c2, c3, _, c5, c6⟩ := close_full fs x p v ord sids hl hfull'
    refine ⟨⟨good_of_committed x fs p v ⟨ord, sids⟩ (genFrame_of_frame x fs p v _ c1) c2 c3 ?_ wx g2.good, sfx⟩,
      Or.inr hfull'⟩
    intro s hs
    cases hg : get fs (stagedStateP p v s) with
    | none => exact absurd hg (c6 s hs)
    | some n =>
      obtain ⟨b, rfl⟩ := g2.sf _ n hg (by simp [endsState, stagedStateP])
      exact ⟨b, by rw [c5 s hs, hg]⟩

/-- the registry calls a handle operation can amount to: a write / close addresses a listed release -/
def ActOk (fs : Fs) : Act → Prop
  | .write p v _ _ => relListed fs p v = true
  | .close p v _ _ => relListed fs p v = true
  | _ => True

/-- the trees an act can leave: where it ends (or raises), or where the process dies -/
def LeftByAct (fs : Fs) (a : Act) (x : Fs) : Prop :=
  x = (runAct Impl.repaired fs a).fs
    ∨ ∃ k cut, x = (runSome fs (crashOps (atomsAll (runAct Impl.repaired fs a).calls.flatten) k cut)).1

theorem leftByAct_tree (fs : Fs) (cs : List (Fs → List Op)) (x : Fs)
    (hx : x = (runCalls fs cs).fs ∨ ∃ k cut, x = (runSome fs (crashOps (atomsAll (runCalls fs cs).calls.flatten) k cut)).1) :
    CrashTree fs cs x := by
  rcases hx with rfl | ⟨k, cut, rfl⟩
  · exact runCalls_tree _ _
  · exact crash_tree _ _ _ _

theorem act_left (fs : Fs) (g2 : Good2 fs) (a : Act) (ok : ActOk fs a) (x : Fs) (hx : LeftByAct fs a x) :
    Good2 x ∧ (ViewEq x fs ∨ ((runAct Impl.repaired fs a).err = none ∧ x = (runAct Impl.repaired fs a).fs)) := by
  cases a with
  | idle =>
    have : x = fs := by
      rcases hx with rfl | ⟨k, cut, rfl⟩
      · rfl
      · simp [runAct, atomsAll, crashOps, runSome]
    subst this; exact ⟨g2, Or.inl (ViewEq.refl _)⟩
  | publish dp name v pkg =>
    have hl : LeftBy fs (.publish dp name v pkg) x := hx
    obtain ⟨gx, hview⟩ := step_left fs g2.good _ x hl
    refine ⟨⟨gx, ?_⟩, hview⟩
    cases hg : publishGuard Impl.repaired fs dp name v with
    | some e =>
      have hfs : x = fs := by
        rcases hl with rfl | ⟨k, cut, rfl⟩
        · simp [exec, hg]
        · exact crashIn_nil _ _ _ _ _ (by simp [exec, hg])
      subst hfs; exact g2.sf
    | none =>
      have hex : exec Impl.repaired fs (.publish dp name v pkg)
          = runCalls fs [fun f => pushOps Impl.repaired f name v pkg] := by simp [exec, hg]
      have htree : CrashTree fs [fun f => pushOps Impl.repaired f name v pkg] x := by
        apply leftByAct_tree
        rcases hl with rfl | ⟨k, cut, rfl⟩
        · left; rw [hex]
        · right; exact ⟨k, cut, by simp only [crashIn, hex]⟩
      exact htree.stateFiles g2.sf (by
        intro c hc f op hop
        simp only [List.mem_cons, List.not_mem_nil, or_false] at hc; subst hc
        exact pushOps_opSF _ f name v pkg op hop)
  | write p v sid b =>
    have htree := leftByAct_tree fs [fun f => writeOps f p v sid b] x hx
    obtain ⟨gx, hv, _⟩ := write_left fs x g2 p v sid b ok htree
    exact ⟨gx, Or.inl hv⟩
  | close p v ord sids =>
    have htree := leftByAct_tree fs [closeAt Impl.repaired p v ord sids] x hx
    obtain ⟨gx, hv⟩ := close_left fs x g2 p v ord sids ok htree
    refine ⟨gx, ?_⟩
    rcases hv with hv | hfull
    · exact Or.inl hv
    · have := hfull.runCalls
      exact Or.inr ⟨this.1, this.2.symm⟩

/-! ### what a completed commit / dump adds -/

/-- a completed commit through any handle: generation `nextGen` of the tree AT COMMIT TIME appears, listed, with the
given ordinal and exactly the given state ids in order (pairwise distinct), each state holding the bytes that were staged
under its id, and every path outside that generation directory looks to a fresh reader as before -/
theorem close_ok (fs : Fs) (g2 : Good2 fs) (p v ord : Nat) (sids : List Nat) (hl : relListed fs p v = true)
    (h : (runAct Impl.repaired fs (.close p v ord sids)).err = none) :
    let x := (runAct Impl.repaired fs (.close p v ord sids)).fs
    genListed x p v (nextGen fs p v) = true
    ∧ tagOf x p v (nextGen fs p v) = some ⟨ord, sids⟩
    ∧ sids.Nodup
    ∧ (∀ s ∈ sids, ∃ b, get fs (stagedStateP p v s) = some (.file b)
        ∧ vis x (stateP p v (nextGen fs p v) s) = some (.file b))
    ∧ (∀ key, ¬ (generationP p v (nextGen fs p v) <+: key) → vis x key = vis fs key) := by
  intro x
  have hfull : FullTree fs [closeAt Impl.repaired p v ord sids] x := runCalls_full _ fs h
  obtain ⟨c1, c2, c3, c4, c5, c6⟩ := close_full fs x p v ord sids hl hfull
  have hrl' : relListed x p v = true := by
    rw [← hl]
    simp [relListed, isDir, c1 (projectP p) (by simp [generationP, projectP]) (by simp [stageP, projectP]),
      c1 (releaseP p v) (by simp [generationP, releaseP]) (by simp [stageP, releaseP]),
      c1 (packageP p v) (by simp [generationP, packageP]) (by simp [stageP, packageP])]
  have hgl : genListed x p v (nextGen fs p v) = true := by
    simp [genListed, hrl', genValid, isDir, c2, c3, nextGen_pos]
  have htag : tagOf x p v (nextGen fs p v) = some ⟨ord, sids⟩ := by simp [tagOf, c3, decode_encode]
  refine ⟨hgl, htag, c4, ?_, fun key hkey => vis_frame_gen x fs p v _ c1 key hkey⟩
  intro s hs
  cases hg : get fs (stagedStateP p v s) with
  | none => exact absurd hg (c6 s hs)
  | some n =>
    obtain ⟨b, rfl⟩ := g2.sf _ n hg (by simp [endsState, stagedStateP])
    refine ⟨b, rfl, ?_⟩
    have hin : sids.contains s = true := by simp only [List.contains_iff_mem]; exact hs
    simp only [vis, stateP, hgl, htag, hin, Bool.and_self, if_true]
    rw [← hg]; exact c5 s hs

/-- a completed dump: the bytes are staged under the id, nothing else that is staged changes -/
theorem write_ok (fs : Fs) (p v sid : Nat) (b : Bytes)
    (h : (runAct Impl.repaired fs (.write p v sid b)).err = none) :
    let x := (runAct Impl.repaired fs (.write p v sid b)).fs
    get x (stagedStateP p v sid) = some (.file b)
    ∧ ∀ s, s ≠ sid → get x (stagedStateP p v s) = get fs (stagedStateP p v s) := by
  intro x
  have hfull : FullTree fs [fun f => writeOps f p v sid b] x := runCalls_full _ fs h
  cases hfull with
  | call _ _ _ fs' _ hr hrest =>
    cases hrest
    simp only [atomsAll_writeOps] at hr
    exact write_content fs x p v sid b hr

/-- one more act never changes or removes anything a reader could see -/
theorem act_append_only (fs : Fs) (g2 : Good2 fs) (a : Act) (ok : ActOk fs a) (x : Fs) (hx : LeftByAct fs a x)
    (key : Path) (n : Node) (hvis : vis fs key = some n) : vis x key = some n := by
  rcases (act_left fs g2 a ok x hx).2 with hv | ⟨he, hfs⟩
  · rw [hv key]; exact hvis
  · cases a with
    | idle => simp only [runAct] at hfs; subst hfs; exact hvis
    | publish dp name v pkg =>
      rw [hfs]
      exact apply_append_only fs g2.good (.step (.publish dp name v pkg)) key n hvis
    | write p v sid b =>
      have htree := leftByAct_tree fs [fun f => writeOps f p v sid b] x hx
      rw [(write_left fs x g2 p v sid b ok htree).2.1 key]; exact hvis
    | close p v ord sids =>
      rw [hfs]
      obtain ⟨_, _, _, _, hframe⟩ := close_ok fs g2 p v ord sids ok he
      have ht0 : get fs (tagP p v (nextGen fs p v)) = none :=
        tag_absent_of_invalid fs p v _ g2.good.wf (genValid_nextGen fs p v) (nextGen_pos fs p v)
      have hkey : ¬ generationP p v (nextGen fs p v) <+: key := by
        intro hk; rw [vis_hidden_gen fs p v _ ht0 key hk] at hvis; cases hvis
      rw [hframe key hkey]; exact hvis

/-! ### transient I/O faults -/

/-- the tree an act leaves when a transient I/O fault hits its `j`-th atomic micro-operation (it raises) -/
def faultTree (fs : Fs) (a : Act) (j : Nat) : Fs :=
  (runSome fs (faultAtoms (atomsAll (runAct Impl.repaired fs a).calls.flatten) j)).1

/-- the trees an act can leave: at its end, where the process dies, or where a transient fault makes it raise -/
def LeftByActF (fs : Fs) (a : Act) (x : Fs) : Prop := LeftByAct fs a x ∨ ∃ j, x = faultTree fs a j

theorem runSome_stateFiles (L : List Op) (fs : Fs) (sf : StateFiles fs) (ok : ∀ op ∈ L, OpSF op) :
    StateFiles (runSome fs L).1 := by
  obtain ⟨n, hn⟩ := runSome_prefix L fs
  exact run_stateFiles _ fs _ sf (fun op hop => ok op (List.mem_of_mem_take hop)) hn

/-- outside `copytree` (every act but a publish) a fault is a crash at that point seen by a process that lives on -/
theorem faultTree_crash (fs : Fs) (a : Act) (j : Nat) (hne : ∀ dp name v pkg, a ≠ .publish dp name v pkg) :
    faultTree fs a j = (runSome fs (crashOps (atomsAll (runAct Impl.repaired fs a).calls.flatten) j none)).1 := by
  simp only [faultTree, crashOps_none]
  congr 2
  apply faultAtoms_take
  intro op hop
  cases a with
  | idle => simp [runAct, atomsAll] at hop
  | publish dp name v pkg => exact absurd rfl (hne dp name v pkg)
  | write p v sid b =>
    obtain ⟨c, hc, f, hf⟩ := runCalls_atoms_mem _ fs op hop
    simp only [List.mem_cons, List.not_mem_nil, or_false] at hc; subst hc
    exact trainCalls_noMember Impl.repaired p v 0 [(sid, b)] (fun fs => writeOps fs p v sid b)
      (by simp [trainCalls]) f op hf
  | close p v ord sids =>
    obtain ⟨c, hc, f, hf⟩ := runCalls_atoms_mem _ fs op hop
    simp only [List.mem_cons, List.not_mem_nil, or_false] at hc; subst hc
    have key : ∀ a ∈ atomsAll (closeOps Impl.repaired f p v (nextGen f p v) ⟨ord, sids⟩), NoMember a := by
      intro a ha
      simp only [atomsAll_closeOps] at ha
      simp only [closeOps, List.mem_append, List.mem_map] at ha
      rcases ha with (ha | ⟨s, _, rfl⟩) | ha
      · obtain ⟨q, _, rfl, _⟩ := mem_mkdirP _ _ _ ha; trivial
      · trivial
      · simp only [tagWriteOps, Impl.repaired, if_true, List.mem_cons, List.not_mem_nil, or_false] at ha
        rcases ha with rfl | rfl | rfl
        · simp [NoMember, isMemberPath, tagTmpP]
        · simp [NoMember, isMemberPath, tagTmpP]
        · trivial
    exact key op hf

theorem act_left_F (fs : Fs) (g2 : Good2 fs) (a : Act) (ok : ActOk fs a) (x : Fs) (hx : LeftByActF fs a x) :
    Good2 x ∧ (ViewEq x fs ∨ ((runAct Impl.repaired fs a).err = none ∧ x = (runAct Impl.repaired fs a).fs)) := by
  rcases hx with hx | ⟨j, rfl⟩
  · exact act_left fs g2 a ok x hx
  · by_cases hp : ∃ dp name v pkg, a = .publish dp name v pkg
    · obtain ⟨dp, name, v, pkg, rfl⟩ := hp
      have hfl := fault_left fs g2.good (.publish dp name v pkg) j
      refine ⟨⟨hfl.1, ?_⟩, hfl.2⟩
      apply runSome_stateFiles _ fs g2.sf
      intro op hop
      have hmem := faultAtoms_mem _ j op hop
      cases hg : publishGuard Impl.repaired fs dp name v with
      | some e => simp [runAct, exec, hg, atomsAll] at hmem
      | none =>
        simp only [runAct, exec, hg] at hmem
        obtain ⟨c, hc, f, hf⟩ := runCalls_atoms_mem _ fs op hmem
        simp only [List.mem_cons, List.not_mem_nil, or_false] at hc; subst hc
        exact atomsAll_opSF _ (pushOps_opSF _ f name v pkg) op hf
    · have hne : ∀ dp name v pkg, a ≠ .publish dp name v pkg := fun dp name v pkg e => hp ⟨dp, name, v, pkg, e⟩
      rw [faultTree_crash fs a j hne]
      exact act_left fs g2 a ok _ (Or.inr ⟨j, none, rfl⟩)

theorem act_append_only_F (fs : Fs) (g2 : Good2 fs) (a : Act) (ok : ActOk fs a) (x : Fs) (hx : LeftByActF fs a x)
    (key : Path) (n : Node) (hvis : vis fs key = some n) : vis x key = some n := by
  rcases (act_left_F fs g2 a ok x hx).2 with hv | ⟨_, hfs⟩
  · rw [hv key]; exact hvis
  · exact act_append_only fs g2 a ok x (Or.inl hfs) key n hvis

end ForML.Registry
