/-
C03 — helper lemmas, part 4: the operators realise their documented semantics
(`Spec scope S → Spec (compose‹op› scope) (denote‹op› S)`), and `>>` composes.
-/
import ForML.Lemmas.C03Spec

namespace ForML.Compose

/-! ### continuing a trunk: what a body adds after the scope has been expanded -/

theorem TrunkOk.step {g g1 g2 : Graph} {W W1 W2 : World} {left : Trunk} {xa xt xl : Val} {r : Nat} {s : Sem}
    (h1 : TrunkOk g g1 W W1 left xa xt xl r s)
    (inv2 : Inv g2 W2) (f2 : Frame g1 g2) (a2 : Agree g1.next W1 W2)
    (noOpen : ∀ n, g1.next ≤ n → W2.live n → ¬ g2.isOpen n)
    (t' : Trunk) (hha : t'.apply.head = left.apply.head) (hht : t'.train.head = left.train.head)
    (hhl : t'.label.head = left.label.head) (s' : Sem)
    (ta : W2.live t'.apply.tail ∧ W2.σ ⟨t'.apply.tail, 0⟩ = s'.apply)
    (tt : W2.live t'.train.tail ∧ W2.σ ⟨t'.train.tail, 0⟩ = s'.train)
    (tl : W2.live t'.label.tail ∧ W2.σ ⟨t'.label.tail, 0⟩ = s'.label)
    (trains : ∃ ts, g2.trains = g1.trains ++ ts ∧ (∀ t ∈ ts, W2.live t.train.node ∧ W2.live t.label.node) ∧
      s'.states = s.states ++ ts.map (trainedUnder W2))
    (fresh2 : ∀ n, g1.next ≤ n → W2.live n → ∀ gid a i o, g2.kindOf n = some (.worker gid a i o) → g1.next ≤ gid) :
    TrunkOk g g2 W W2 t' xa xt xl r s' := by
  have hlt1 : ∀ n, W1.live n → n < g1.next := fun n hn => (h1.inv.liveLt n hn).1
  have head : ∀ (h : Nat) (x : Val), HeadOk g g1 W1 h x r → HeadOk g g2 W2 h x r := by
    intro h x hh
    have hlt := hlt1 h hh.live
    obtain ⟨a1, a2', a3⟩ := a2 h hlt
    exact ⟨hh.ge, (f2.isOpen hlt).mpr hh.isOpen, a1.mpr hh.live, by rw [a2']; exact hh.rank,
      fun i => by rw [a3 i]; exact hh.val i⟩
  refine ⟨inv2, h1.frame.trans f2, h1.agree.trans a2 h1.frame.next_le, ?_, ?_, ?_, ?_, ?_, ta, tt, tl, ?_, ?_⟩
  · rw [hha]; exact head _ _ h1.ha
  · rw [hht]; exact head _ _ h1.ht
  · rw [hhl]; exact head _ _ h1.hl
  · rw [hha, hht, hhl]; exact h1.distinct
  · intro n hn hl ho
    rw [hha, hht, hhl]
    by_cases hlt : n < g1.next
    · exact h1.opens n hn (((a2 n hlt).1).mp hl) ((f2.isOpen hlt).mp ho)
    · exact absurd ho (noOpen n (by omega) hl)
  · obtain ⟨ts1, e1, l1, m1⟩ := h1.trains
    obtain ⟨ts2, e2, l2, m2⟩ := trains
    refine ⟨ts1 ++ ts2, by rw [e2, e1, List.append_assoc], ?_, ?_⟩
    · intro t ht
      rcases List.mem_append.mp ht with ht | ht
      · obtain ⟨x1, x2⟩ := l1 t ht
        exact ⟨((a2 _ (hlt1 _ x1)).1).mpr x1, ((a2 _ (hlt1 _ x2)).1).mpr x2⟩
      · exact l2 t ht
    · rw [m2, List.map_append, ← m1]
      congr 1
      apply List.map_congr_left
      intro t ht
      obtain ⟨x1, x2⟩ := l1 t ht
      unfold trainedUnder
      rw [a2.σ _ (hlt1 _ x1), a2.σ _ (hlt1 _ x2)]
  · intro n hn hl gid a i o hk
    by_cases hlt : n < g1.next
    · rw [f2.kind n hlt] at hk
      exact h1.fresh n hn (((a2 n hlt).1).mp hl) gid a i o hk
    · have := fresh2 n (by omega) hl gid a i o hk
      have := h1.frame.next_le
      omega

/-! ### `Trunk.extend` -/

theorem run_extendOpt_none (s : Segment) (g : Graph) : Run (Trunk.extendOpt s none) g s g := rfl

theorem run_extendOpt_some (s : Segment) (u : Nat) (g : Graph) (h : g.inputOf u 0 = none) :
    Run (Trunk.extendOpt s (some (.ofNode u))) g ⟨s.head, u⟩ (g.pushEdge ⟨u, 0, s.publisher⟩) := by
  show Run (s.extend (.ofNode u)) g _ _
  unfold Segment.extend Segment.subscribeTo
  exact Run.bind (run_subscribe _ _ _ g h) (Run.pure _ _)

theorem run_trunk_extend {t : Trunk} {a b c : Option Segment} {g g1 g2 g3 : Graph} {a' b' c' : Segment}
    (h1 : Run (Trunk.extendOpt t.apply a) g a' g1) (h2 : Run (Trunk.extendOpt t.train b) g1 b' g2)
    (h3 : Run (Trunk.extendOpt t.label c) g2 c' g3) : Run (t.extend a b c) g ⟨a', b', c'⟩ g3 := by
  unfold Trunk.extend
  exact Run.bind h1 (Run.bind h2 (Run.bind h3 (Run.pure _ _)))

/-- arithmetic on `next` through the successor operations (local `let`s are unfolded) -/
macro "gnext" : tactic =>
  `(tactic| (first
    | omega
    | (simp +zetaDelta only [bump_next, pushNode_next, pushEdge_next, pushTrain_next] <;> omega)))

/-- lookups through the successor operations; side conditions by `omega` -/
macro "glook" "[" ts:Lean.Parser.Tactic.simpLemma,* "]" : tactic =>
  `(tactic| simp +zetaDelta (disch := omega) [kindOf_pushNode, inputOf_pushEdge, trainerOf_pushTrain, $ts,*])

/-! ### `payload.Dump` / `payload.Sniff` -/

theorem spec_debug {scope : GraphM Trunk} {S : Scope} (hs : Spec scope S) (a t : Actor) (htr : t.stateful = true) :
    Spec (composeDebug a t scope) (denoteDebug a t S) := by
  intro g W xa xt xl r hi hr
  obtain ⟨left, g1, W1, hrun1, h1⟩ := hs g W xa xt xl r hi hr
  let g2 := g1.bump.bump.pushNode ⟨g1.next, .worker (g1.next + 1) a 1 1⟩
  let g3 := g2.bump.bump.pushNode ⟨g1.next + 2, .worker (g1.next + 3) t 1 1⟩
  let g4 := g3.pushTrain ⟨g1.next + 3, g1.next + 2, t, left.train.publisher, left.label.publisher⟩
  let g5 := g4.pushEdge ⟨g1.next, 0, left.apply.publisher⟩
  have hb1 := h1.inv.bounded
  have hk0 : ∀ u, g1.next ≤ u → g1.kindOf u = none := fun u hu => hb1.kindOf_none hu
  have hin0 : ∀ u k, g1.next ≤ u → g1.inputOf u k = none := fun u k hu => hb1.inputOf_none hu k
  have htr0 : ∀ u, g1.next ≤ u → g1.trainerOf u = none := fun u hu => hb1.trainerOf_none hu
  have hb2 : Bounded g2 := hb1.bump.bump.pushNode _ (by gnext) (by intro _ _ _ _ h; cases h; gnext)
  have hb3 : Bounded g3 := hb2.bump.bump.pushNode _ (by gnext) (by intro _ _ _ _ h; cases h; gnext)
  have hb4 : Bounded g4 := hb3.pushTrain _ (by gnext)
  have hf2 : Frame g1 g2 := (Frame.refl g1).bump.bump.pushNode _ (Nat.le_refl _)
  have hf3 : Frame g1 g3 := hf2.bump.bump.pushNode _ (by gnext)
  have hf4 : Frame g1 g4 := hf3.pushTrain _ (by gnext)
  have hf5 : Frame g1 g5 := hf4.pushEdge _ (Nat.le_refl _)
  have hn5 : g5.next = g1.next + 4 := rfl
  -- the run
  have hrun : Run (composeDebug a t scope) g ⟨⟨left.apply.head, g1.next⟩, left.train, left.label⟩ g5 := by
    unfold composeDebug
    refine Run.bind hrun1 (Run.bind (run_newWorker a 1 1 g1) (Run.bind (run_newWorker t 1 1 g2) ?_))
    refine Run.bind (run_train _ _ _ g3 htr ?_) ?_
    · glook [htr0]
    · refine run_trunk_extend (run_extendOpt_some _ _ _ ?_) (run_extendOpt_none _ _) (run_extendOpt_none _ _)
      glook [hin0]
  have hnl : ∀ u, g1.next ≤ u → ¬ W1.live u := fun u hu h => by have := (h1.inv.liveLt u h).1; omega
  have hnlu := hnl
  have hi4 : Inv g4 W1 := h1.inv.ofFrame hf4 hb4
  have hi5 : Inv g5 W1 := hi4.pushEdge_notLive _ (hnl _ (Nat.le_refl _)) (by gnext)
  have hk5 : g5.kindOf g1.next = some (.worker (g1.next + 1) a 1 1) := by
    glook [hk0]
  have hi6 := hi5.liveWorker g1.next (g1.next + 1) a 1 1 (fun _ => left.apply.publisher) g1.next .none hk5
    (hnl _ (Nat.le_refl _)) (by omega)
    (by
      intro k hk
      have : k = 0 := by omega
      subst this
      refine ⟨?_, h1.ta.1, (h1.inv.liveLt _ h1.ta.1).2⟩
      glook [hin0])
    (by
      unfold StateFor
      have : g5.trainerOf (g1.next + 1) = none := by
        glook [htr0]
      simp [this])
  have hne : ∀ q : PubRef, W1.live q.node → q.node ≠ g1.next := fun q hq h => hnl _ (Nat.le_refl _) (h ▸ hq)
  refine ⟨_, g5, _, hrun,
    h1.step hi6 hf5 ((Agree.refl _ W1).set _ _ _ (Nat.le_refl _)) ?_
      ⟨⟨left.apply.head, g1.next⟩, left.train, left.label⟩ rfl rfl rfl _ ?_ ?_ ?_ ?_ ?_⟩
  · intro u hu hl ho
    rcases hl with hl | hl
    · subst hl
      rw [Graph.isOpen, hk5] at ho
      cases ho.1
    · exact hnl u hu hl
  · refine ⟨Or.inl rfl, ?_⟩
    show (W1.set g1.next _ g1.next).σ ⟨g1.next, 0⟩ = _
    rw [set_σ_self]
    simp [portVal, denoteDebug, applied, Segment.publisher, h1.ta.2]
  · refine ⟨Or.inr h1.tt.1, ?_⟩
    rw [set_σ_other _ _ _ _ _ (hne ⟨_, 0⟩ h1.tt.1)]
    exact h1.tt.2
  · refine ⟨Or.inr h1.tl.1, ?_⟩
    rw [set_σ_other _ _ _ _ _ (hne ⟨_, 0⟩ h1.tl.1)]
    exact h1.tl.2
  · refine ⟨[⟨g1.next + 3, g1.next + 2, t, left.train.publisher, left.label.publisher⟩], rfl, ?_, ?_⟩
    · intro x hx
      simp only [List.mem_singleton] at hx
      subst hx
      exact ⟨Or.inr h1.tt.1, Or.inr h1.tl.1⟩
    · simp only [denoteDebug, List.map_cons, List.map_nil, trainedUnder, trainedState, htr, if_true, Segment.publisher]
      rw [set_σ_other _ _ _ _ _ (hne ⟨_, 0⟩ h1.tt.1), set_σ_other _ _ _ _ _ (hne ⟨_, 0⟩ h1.tl.1), h1.tt.2, h1.tl.2]
  · intro u hu hl gid a' i o hk
    rcases hl with hl | hl
    · subst hl
      rw [hk5] at hk
      cases hk
      omega
    · exact absurd hl (hnlu u hu)

/-! ### `left >> right` (`Compound.compose`): the scope, then the right side with the left side as its scope -/

theorem run_extendOpt_seg (s r : Segment) (g : Graph) (h : g.inputOf r.head 0 = none) :
    Run (Trunk.extendOpt s (some r)) g ⟨s.head, r.tail⟩ (g.pushEdge ⟨r.head, 0, s.publisher⟩) := by
  show Run (s.extend r) g _ _
  unfold Segment.extend Segment.subscribeTo
  exact Run.bind (run_subscribe _ _ _ g h) (Run.pure _ _)

/-- semantics of `Compound.compose(scope)` given the semantics `T` of the compound's own expansion -/
def seqSem (S T : Scope) : Scope := fun xa xt xl =>
  let s := S xa xt xl
  let t := T s.apply s.train s.label
  ⟨t.apply, t.train, t.label, s.states ++ t.states⟩

theorem spec_seq {scope m : GraphM Trunk} {S T : Scope} (hs : Spec scope S) (hm : Spec m T) :
    Spec (do let s ← scope; let t ← m; s.extendTrunk t) (seqSem S T) := by
  intro g W xa xt xl r hi hr
  obtain ⟨s, g1, W1, hrun1, h1⟩ := hs g W xa xt xl r hi hr
  obtain ⟨t, g2, W2, hrun2, h2⟩ := hm g1 W1 (S xa xt xl).apply (S xa xt xl).train (S xa xt xl).label g1.next h1.inv
    (Nat.le_refl _)
  let g3 := g2.pushEdge ⟨t.apply.head, 0, s.apply.publisher⟩
  let g4 := g3.pushEdge ⟨t.train.head, 0, s.train.publisher⟩
  let g5 := g4.pushEdge ⟨t.label.head, 0, s.label.publisher⟩
  obtain ⟨d1, d2, d3⟩ := h2.distinct
  have ho3 : g3.inputOf t.train.head 0 = none := by
    have : ¬ (t.apply.head = t.train.head) := d1
    glook [h2.ht.isOpen.2, this]
  have ho4 : g4.inputOf t.label.head 0 = none := by
    have h1' : ¬ (t.apply.head = t.label.head) := d2
    have h2' : ¬ (t.train.head = t.label.head) := d3
    glook [h2.hl.isOpen.2, h1', h2']
  have hrun : Run (do let s ← scope; let t ← m; s.extendTrunk t) g
      ⟨⟨s.apply.head, t.apply.tail⟩, ⟨s.train.head, t.train.tail⟩, ⟨s.label.head, t.label.tail⟩⟩ g5 := by
    refine Run.bind hrun1 (Run.bind hrun2 ?_)
    unfold Trunk.extendTrunk
    exact run_trunk_extend (run_extendOpt_seg _ _ _ h2.ha.isOpen.2) (run_extendOpt_seg _ _ _ ho3)
      (run_extendOpt_seg _ _ _ ho4)
  -- the three tails of `s` seen from `W2`
  have hlt1 : ∀ n, W1.live n → n < g1.next := fun n hn => (h1.inv.liveLt n hn).1
  have tail : ∀ (u : Nat) (v : Val), W1.live u → W1.σ ⟨u, 0⟩ = v →
      RefOk W2 ⟨u, 0⟩ g1.next ∧ W2.σ ⟨u, 0⟩ = v := by
    intro u v hl hv
    obtain ⟨a1, a2, a3⟩ := h2.agree u (hlt1 u hl)
    exact ⟨⟨a1.mpr hl, by rw [a2]; exact (h1.inv.liveLt u hl).2⟩, by rw [a3 0]; exact hv⟩
  obtain ⟨ra, va⟩ := tail _ _ h1.ta.1 h1.ta.2
  obtain ⟨rt, vt⟩ := tail _ _ h1.tt.1 h1.tt.2
  obtain ⟨rl, vl⟩ := tail _ _ h1.tl.1 h1.tl.2
  have hi3 : Inv g3 W2 := h2.inv.bindFuture _ _ h2.ha.live h2.ha.isOpen (by rw [h2.ha.rank]; exact ra)
    (fun i => by rw [h2.ha.val i]; exact va.symm)
  have hi4 : Inv g4 W2 := hi3.bindFuture _ _ h2.ht.live ⟨h2.ht.isOpen.1, ho3⟩ (by rw [h2.ht.rank]; exact rt)
    (fun i => by rw [h2.ht.val i]; exact vt.symm)
  have hi5 : Inv g5 W2 := hi4.bindFuture _ _ h2.hl.live ⟨h2.hl.isOpen.1, ho4⟩ (by rw [h2.hl.rank]; exact rl)
    (fun i => by rw [h2.hl.val i]; exact vl.symm)
  have hf5 : Frame g1 g5 := ((h2.frame.pushEdge _ h2.ha.ge).pushEdge _ h2.ht.ge).pushEdge _ h2.hl.ge
  refine ⟨_, g5, W2, hrun, h1.step hi5 hf5 h2.agree ?_
    ⟨⟨s.apply.head, t.apply.tail⟩, ⟨s.train.head, t.train.tail⟩, ⟨s.label.head, t.label.tail⟩⟩ rfl rfl rfl
    (seqSem S T xa xt xl) h2.ta h2.tt h2.tl ?_ ?_⟩
  · intro n hn hl ho
    -- an open node of `g5` is open in `g2`, hence one of the heads of `t` — which are bound in `g5`
    have hk : g2.kindOf n = some .future := ho.1
    have hin5 : g5.inputOf n 0 = none := ho.2
    have hin2 : g2.inputOf n 0 = none := by
      cases h : g2.inputOf n 0 with
      | none => rfl
      | some q =>
        have : g5.inputOf n 0 = some q := by glook [h]
        rw [this] at hin5; cases hin5
    rcases h2.opens n hn hl ⟨hk, hin2⟩ with h | h | h
    · subst h
      have : g5.inputOf t.apply.head 0 = some s.apply.publisher := by glook [h2.ha.isOpen.2]
      rw [this] at hin5; cases hin5
    · subst h
      have : g5.inputOf t.train.head 0 = some s.train.publisher := by
        have : ¬ (t.apply.head = t.train.head) := d1
        glook [h2.ht.isOpen.2, this]
      rw [this] at hin5; cases hin5
    · subst h
      have : g5.inputOf t.label.head 0 = some s.label.publisher := by
        have h1' : ¬ (t.apply.head = t.label.head) := d2
        have h2' : ¬ (t.train.head = t.label.head) := d3
        glook [h2.hl.isOpen.2, h1', h2']
      rw [this] at hin5; cases hin5
  · obtain ⟨ts, e, l, m'⟩ := h2.trains
    exact ⟨ts, e, l, by simp only [seqSem]; rw [m']⟩
  · intro n hn hl gid a i o hk
    exact h2.fresh n hn hl gid a i o hk

end ForML.Compose
