/-
C03 — helper lemmas, part 4: the operators realise their documented semantics
(`Spec scope S → Spec (compose‹op› scope) (denote‹op› S)`), and `>>` composes.
-/
import ForML.Lemmas.C03Spec

namespace ForML.Compose

/-! ### continuing a trunk: what a body adds after the scope has been expanded -/

/-- the structural obligations of a body for the nodes it adds (those of the scope are inherited) -/
structure StepOk (full : Prop) (g g1 g2 : Graph) (W2 : World) (r : Nat) (head : Nat) (t' : Trunk) : Prop where
  wired : Wired g2
  tge : g.next ≤ t'.apply.tail ∧ g.next ≤ t'.train.tail ∧ g.next ≤ t'.label.tail
  rank : ∀ n, g1.next ≤ n → W2.live n → W2.h n < r + (g2.next - g.next)
  reg : full → ∀ n, g1.next ≤ n → Reach g2 head n → n ≠ head →
    W2.live n ∧ ∀ k q, g2.inputOf n k = some q → Reach g2 head q.node
  regTail : full → Reach g2 head t'.apply.tail
  sep : full → ¬ Reach g2 head t'.train.tail ∧ ¬ Reach g2 head t'.label.tail
  closed : full → ∀ s k q, g1.next ≤ s → g2.inputOf s k = some q → g.next ≤ q.node

/-- a reachable node with a single input has all its inputs reachable -/
theorem reg_unary {g : Graph} {a n : Nat} {p : PubRef} (hin : ∀ k q, g.inputOf n k = some q → q = p)
    (hre : Reach g a n) (hne : n ≠ a) : ∀ k q, g.inputOf n k = some q → Reach g a q.node := by
  intro k q hq
  rcases hre.inv with h | ⟨k0, q0, hq0, hr0⟩
  · exact absurd h hne
  · rw [hin k q hq, ← hin k0 q0 hq0]; exact hr0

/-- a node without inputs is reachable only from itself -/
theorem not_reach_of_no_input {g : Graph} {a n : Nat} (hin : ∀ k, g.inputOf n k = none) (hne : n ≠ a) : ¬ Reach g a n := by
  intro hre
  rcases hre.inv with h | ⟨k, q, hq, _⟩
  · exact hne h
  · rw [hin k] at hq; cases hq

theorem TrunkOk.step {full : Prop} {g g1 g2 : Graph} {W W1 W2 : World} {left : Trunk} {xa xt xl : Val} {r : Nat} {s : Sem}
    (h1 : TrunkOk full g g1 W W1 left xa xt xl r s)
    (inv2 : Inv g2 W2) (f2 : Frame g1 g2) (a2 : Agree g1.next W1 W2)
    (noOpen : ∀ n, g1.next ≤ n → W2.live n → ¬ g2.isOpen n)
    (t' : Trunk) (hha : t'.apply.head = left.apply.head) (hht : t'.train.head = left.train.head)
    (hhl : t'.label.head = left.label.head) (s' : Sem)
    (ta : W2.live t'.apply.tail ∧ W2.σ ⟨t'.apply.tail, 0⟩ = s'.apply)
    (tt : W2.live t'.train.tail ∧ W2.σ ⟨t'.train.tail, 0⟩ = s'.train)
    (tl : W2.live t'.label.tail ∧ W2.σ ⟨t'.label.tail, 0⟩ = s'.label)
    (trains : ∃ ts, g2.trains = g1.trains ++ ts ∧ (∀ t ∈ ts, W2.live t.train.node ∧ W2.live t.label.node) ∧
      s'.states = s.states ++ ts.map (trainedUnder W2))
    (fresh2 : ∀ n, g1.next ≤ n → W2.live n → ∀ gid a i o, g2.kindOf n = some (.worker gid a i o) → g1.next ≤ gid)
    (so : StepOk full g g1 g2 W2 r left.apply.head t') :
    TrunkOk full g g2 W W2 t' xa xt xl r s' := by
  have hlt1 : ∀ n, W1.live n → n < g1.next := fun n hn => (h1.inv.liveLt n hn).1
  have head : ∀ (h : Nat) (x : Val), HeadOk g g1 W1 h x r → HeadOk g g2 W2 h x r := by
    intro h x hh
    have hlt := hlt1 h hh.live
    obtain ⟨a1, a2', a3⟩ := a2 h hlt
    exact ⟨hh.ge, (f2.isOpen hlt).mpr hh.isOpen, fun k => by rw [f2.input h k hlt]; exact hh.free k, a1.mpr hh.live,
      by rw [a2']; exact hh.rank, fun i => by rw [a3 i]; exact hh.val i⟩
  have hgg := h1.frame.next_le
  have hgg2 := f2.next_le
  refine ⟨inv2, h1.frame.trans f2, h1.agree.trans a2 h1.frame.next_le, ?_, ?_, ?_, ?_, ?_, ta, tt, tl, ?_, ?_, so.wired,
    so.tge, ?_, ?_, by rw [hha]; exact so.regTail, by rw [hha]; exact so.sep, ?_⟩
  · rw [hha]; exact head _ _ h1.ha
  · rw [hht]; exact head _ _ h1.ht
  · rw [hhl]; exact head _ _ h1.hl
  · rw [hha, hht, hhl]; exact h1.distinct
  · intro n hn hl ho
    rw [hha, hht, hhl]
    by_cases hlt : n < g1.next
    · exact h1.opens n hn (((a2 n hlt).1).mp hl) ((f2.isOpen hlt).mp ho)
    · exact absurd ho (noOpen n (by omega) hl)
  · obtain ⟨ts1, e1, l1, m1⟩ := h1.trains
    obtain ⟨ts2, e2, l2, m2⟩ := trains
    refine ⟨ts1 ++ ts2, by rw [e2, e1, List.append_assoc], ?_, ?_⟩
    · intro t ht
      rcases List.mem_append.mp ht with ht | ht
      · obtain ⟨x1, x2⟩ := l1 t ht
        exact ⟨((a2 _ (hlt1 _ x1)).1).mpr x1, ((a2 _ (hlt1 _ x2)).1).mpr x2⟩
      · exact l2 t ht
    · rw [m2, List.map_append, ← m1]
      congr 1
      apply List.map_congr_left
      intro t ht
      obtain ⟨x1, x2⟩ := l1 t ht
      unfold trainedUnder
      rw [a2.σ _ (hlt1 _ x1), a2.σ _ (hlt1 _ x2)]
  · intro n hn hl gid a i o hk
    by_cases hlt : n < g1.next
    · rw [f2.kind n hlt] at hk
      exact h1.fresh n hn (((a2 n hlt).1).mp hl) gid a i o hk
    · have := fresh2 n (by omega) hl gid a i o hk
      have := h1.frame.next_le
      omega
  · intro n hn hl
    by_cases hlt : n < g1.next
    · have := h1.rank n hn (((a2 n hlt).1).mp hl)
      rw [(a2 n hlt).2.1]
      omega
    · exact so.rank n (by omega) hl
  · intro hfull n hre hne
    rw [hha] at hre hne ⊢
    by_cases hlt : n < g1.next
    · have hre1 : Reach g1 left.apply.head n := Reach.old f2 h1.wired hlt hre
      obtain ⟨l1, i1⟩ := h1.reg hfull n hre1 hne
      refine ⟨((a2 n hlt).1).mpr l1, ?_⟩
      intro k q hq
      rw [f2.input n k hlt] at hq
      exact (i1 k q hq).mono (f2.input_mono h1.inv.bounded)
    · exact so.reg hfull n (by omega) hre hne
  · intro hfull s k q hs hq
    by_cases hlt : s < g1.next
    · rw [f2.input s k hlt] at hq
      exact h1.closed hfull s k q hs hq
    · exact so.closed hfull s k q (by omega) hq

/-! ### `Trunk.extend` -/

theorem run_extendOpt_none (s : Segment) (g : Graph) : Run (Trunk.extendOpt s none) g s g := rfl

theorem run_extendOpt_some (s : Segment) (u : Nat) (g : Graph) (h : g.inputOf u 0 = none) :
    Run (Trunk.extendOpt s (some (.ofNode u))) g ⟨s.head, u⟩ (g.pushEdge ⟨u, 0, s.publisher⟩) := by
  show Run (s.extend (.ofNode u)) g _ _
  unfold Segment.extend Segment.subscribeTo
  exact Run.bind (run_subscribe _ _ _ g h) (Run.pure _ _)

theorem run_trunk_extend {t : Trunk} {a b c : Option Segment} {g g1 g2 g3 : Graph} {a' b' c' : Segment}
    (h1 : Run (Trunk.extendOpt t.apply a) g a' g1) (h2 : Run (Trunk.extendOpt t.train b) g1 b' g2)
    (h3 : Run (Trunk.extendOpt t.label c) g2 c' g3) : Run (t.extend a b c) g ⟨a', b', c'⟩ g3 := by
  unfold Trunk.extend
  exact Run.bind h1 (Run.bind h2 (Run.bind h3 (Run.pure _ _)))

/-- arithmetic on `next` through the successor operations (local `let`s are unfolded) -/
macro "gnext" : tactic =>
  `(tactic| (first
    | omega
    | (simp +zetaDelta only [bump_next, pushNode_next, pushEdge_next, pushTrain_next] <;> omega)))

/-- lookups through the successor operations; side conditions by `omega` -/
macro "glook" "[" ts:Lean.Parser.Tactic.simpLemma,* "]" : tactic =>
  `(tactic| simp +zetaDelta (disch := omega) [kindOf_pushNode, inputOf_pushEdge, trainerOf_pushTrain, $ts,*])

/-! ### `payload.Dump` / `payload.Sniff` -/

theorem spec_debug {full : Prop} {scope : GraphM Trunk} {S : Scope} (hs : Spec full scope S) (a t : Actor)
    (htr : t.stateful = true) : Spec full (composeDebug a t scope) (denoteDebug a t S) := by
  intro g W xa xt xl r hi hw hr
  obtain ⟨left, g1, W1, hrun1, h1⟩ := hs g W xa xt xl r hi hw hr
  let g2 := g1.bump.bump.pushNode ⟨g1.next, .worker (g1.next + 1) a 1 1⟩
  let g3 := g2.bump.bump.pushNode ⟨g1.next + 2, .worker (g1.next + 3) t 1 1⟩
  let g4 := g3.pushTrain ⟨g1.next + 3, g1.next + 2, t, left.train.publisher, left.label.publisher⟩
  let g5 := g4.pushEdge ⟨g1.next, 0, left.apply.publisher⟩
  have hgg := h1.frame.next_le
  have hb1 := h1.inv.bounded
  have hk0 : ∀ u, g1.next ≤ u → g1.kindOf u = none := fun u hu => hb1.kindOf_none hu
  have hin0 : ∀ u k, g1.next ≤ u → g1.inputOf u k = none := fun u k hu => hb1.inputOf_none hu k
  have htr0 : ∀ u, g1.next ≤ u → g1.trainerOf u = none := fun u hu => hb1.trainerOf_none hu
  have hb2 : Bounded g2 := hb1.bump.bump.pushNode _ (by gnext) (by intro _ _ _ _ h; cases h; gnext)
  have hb3 : Bounded g3 := hb2.bump.bump.pushNode _ (by gnext) (by intro _ _ _ _ h; cases h; gnext)
  have hb4 : Bounded g4 := hb3.pushTrain _ (by gnext)
  have hf2 : Frame g1 g2 := (Frame.refl g1).bump.bump.pushNode _ (Nat.le_refl _)
  have hf3 : Frame g1 g3 := hf2.bump.bump.pushNode _ (by gnext)
  have hf4 : Frame g1 g4 := hf3.pushTrain _ (by gnext)
  have hf5 : Frame g1 g5 := hf4.pushEdge _ (Nat.le_refl _)
  have hn5 : g5.next = g1.next + 4 := rfl
  have hfree : g4.inputOf g1.next 0 = none := by glook [hin0]
  -- the rank above everything the scope built
  obtain ⟨R, hR⟩ : ∃ R, R = r + (g1.next - g.next) := ⟨_, rfl⟩
  have hRle : R ≤ g1.next := by omega
  have rkA : RefOk W1 left.apply.publisher R :=
    ⟨h1.ta.1, by rw [hR]; exact h1.rank _ h1.tails_ge.1 h1.ta.1⟩
  have hw5 : Wired g5 :=
    ((((h1.wired.bump.bump.pushNode _).bump.bump.pushNode _).pushTrain _).pushEdge _
      (by have := (h1.inv.liveLt _ h1.ta.1).1; show left.apply.tail < g1.next + 1 + 1 + 1 + 1; omega) hfree)
  -- the run
  have hrun : Run (composeDebug a t scope) g ⟨⟨left.apply.head, g1.next⟩, left.train, left.label⟩ g5 := by
    unfold composeDebug
    refine Run.bind hrun1 (Run.bind (run_newWorker a 1 1 g1) (Run.bind (run_newWorker t 1 1 g2) ?_))
    refine Run.bind (run_train _ _ _ g3 htr ?_) ?_
    · glook [htr0]
    · refine run_trunk_extend (run_extendOpt_some _ _ _ ?_) (run_extendOpt_none _ _) (run_extendOpt_none _ _)
      glook [hin0]
  have hnl : ∀ u, g1.next ≤ u → ¬ W1.live u := fun u hu h => by have := (h1.inv.liveLt u h).1; omega
  have hi4 : Inv g4 W1 := h1.inv.ofFrame hf4 hb4
  have hi5 : Inv g5 W1 := hi4.pushEdge_notLive _ (hnl _ (Nat.le_refl _)) (by gnext)
  have hk5 : g5.kindOf g1.next = some (.worker (g1.next + 1) a 1 1) := by
    glook [hk0]
  have hin5 : ∀ n k q, g1.next ≤ n → g5.inputOf n k = some q → n = g1.next ∧ q = left.apply.publisher := by
    intro n k q hn hq
    have : g5.inputOf n k = if g1.next = n ∧ 0 = k then some left.apply.publisher else none := by
      glook [hin0 n k hn]
    rw [this] at hq
    split at hq
    · rename_i hc; cases hq; exact ⟨hc.1.symm, rfl⟩
    · cases hq
  have hi6 := hi5.liveWorker g1.next (g1.next + 1) a 1 1 (fun _ => left.apply.publisher) R .none hk5
    (hnl _ (Nat.le_refl _)) (by omega)
    (by
      intro k hk
      have : k = 0 := by omega
      subst this
      refine ⟨?_, rkA⟩
      glook [hin0])
    (by
      unfold StateFor
      have : g5.trainerOf (g1.next + 1) = none := by
        glook [htr0]
      simp [this])
  have hne : ∀ q : PubRef, W1.live q.node → q.node ≠ g1.next := fun q hq h => hnl _ (Nat.le_refl _) (h ▸ hq)
  have reA : full → Reach g5 left.apply.head left.apply.tail := fun hfull => (h1.regTail hfull).mono (hf5.input_mono hb1)
  have newReach : ∀ n, g1.next ≤ n → Reach g5 left.apply.head n → n ≠ left.apply.head → n = g1.next := by
    intro n hn hre hne'
    rcases hre.inv with h | ⟨k, q, hq, _⟩
    · exact absurd h hne'
    · exact (hin5 n k q hn hq).1
  refine ⟨_, g5, _, hrun,
    h1.step hi6 hf5 ((Agree.refl _ W1).set _ _ _ (Nat.le_refl _)) ?_
      ⟨⟨left.apply.head, g1.next⟩, left.train, left.label⟩ rfl rfl rfl _ ?_ ?_ ?_ ?_ ?_ ?_⟩
  · intro u hu hl ho
    rcases hl with hl | hl
    · subst hl
      rw [Graph.isOpen, hk5] at ho
      cases ho.1
    · exact hnl u hu hl
  · refine ⟨Or.inl rfl, ?_⟩
    show (W1.set g1.next _ R).σ ⟨g1.next, 0⟩ = _
    rw [set_σ_self]
    simp [portVal, denoteDebug, applied, Segment.publisher, h1.ta.2]
  · refine ⟨Or.inr h1.tt.1, ?_⟩
    rw [set_σ_other _ _ _ _ _ (hne ⟨_, 0⟩ h1.tt.1)]
    exact h1.tt.2
  · refine ⟨Or.inr h1.tl.1, ?_⟩
    rw [set_σ_other _ _ _ _ _ (hne ⟨_, 0⟩ h1.tl.1)]
    exact h1.tl.2
  · refine ⟨[⟨g1.next + 3, g1.next + 2, t, left.train.publisher, left.label.publisher⟩], rfl, ?_, ?_⟩
    · intro x hx
      simp only [List.mem_singleton] at hx
      subst hx
      exact ⟨Or.inr h1.tt.1, Or.inr h1.tl.1⟩
    · simp only [denoteDebug, List.map_cons, List.map_nil, trainedUnder, trainedState, htr, if_true, Segment.publisher]
      rw [set_σ_other _ _ _ _ _ (hne ⟨_, 0⟩ h1.tt.1), set_σ_other _ _ _ _ _ (hne ⟨_, 0⟩ h1.tl.1), h1.tt.2, h1.tl.2]
  · intro u hu hl gid a' i o hk
    rcases hl with hl | hl
    · subst hl
      rw [hk5] at hk
      cases hk
      omega
    · exact absurd hl (hnl u hu)
  · refine ⟨hw5, ⟨by show g.next ≤ g1.next; omega, h1.tails_ge.2.1, h1.tails_ge.2.2⟩, ?_, ?_, ?_, ?_, ?_⟩
    · intro n hn hl
      rcases hl with hl | hl
      · subst hl
        show (W1.set g1.next _ R).h g1.next < _
        rw [set_h_self, hn5, hR]; omega
      · exact absurd hl (hnl n hn)
    · intro hfull n hn hre hne'
      have := newReach n hn hre hne'
      subst this
      refine ⟨Or.inl rfl, ?_⟩
      intro k q hq
      rw [(hin5 _ k q (Nat.le_refl _) hq).2]
      exact reA hfull
    · exact fun hfull => Reach.one (reA hfull) (show g5.inputOf g1.next 0 = some left.apply.publisher by glook [hin0])
    · intro hfull
      constructor
      · intro hre
        have hlt := (h1.inv.liveLt _ h1.tt.1).1
        exact (h1.sep hfull).1 (Reach.old hf5 h1.wired hlt hre)
      · intro hre
        have hlt := (h1.inv.liveLt _ h1.tl.1).1
        exact (h1.sep hfull).2 (Reach.old hf5 h1.wired hlt hre)
    · intro _ s k q hs hq
      rw [(hin5 s k q hs hq).2]
      exact h1.tails_ge.1

/-! ### `left >> right` (`Compound.compose`): the scope, then the right side with the left side as its scope -/

theorem run_extendOpt_seg (s r : Segment) (g : Graph) (h : g.inputOf r.head 0 = none) :
    Run (Trunk.extendOpt s (some r)) g ⟨s.head, r.tail⟩ (g.pushEdge ⟨r.head, 0, s.publisher⟩) := by
  show Run (s.extend r) g _ _
  unfold Segment.extend Segment.subscribeTo
  exact Run.bind (run_subscribe _ _ _ g h) (Run.pure _ _)

/-- semantics of `Compound.compose(scope)` given the semantics `T` of the compound's own expansion -/
def seqSem (S T : Scope) : Scope := fun xa xt xl =>
  let s := S xa xt xl
  let t := T s.apply s.train s.label
  ⟨t.apply, t.train, t.label, s.states ++ t.states⟩

theorem spec_seq {full : Prop} {scope m : GraphM Trunk} {S T : Scope} (hs : Spec full scope S) (hm : Spec full m T) :
    Spec full (do let s ← scope; let t ← m; s.extendTrunk t) (seqSem S T) := by
  intro g W xa xt xl r hi hw hr
  obtain ⟨s, g1, W1, hrun1, h1⟩ := hs g W xa xt xl r hi hw hr
  have hgg := h1.frame.next_le
  obtain ⟨R, hR⟩ : ∃ R, R = r + (g1.next - g.next) := ⟨_, rfl⟩
  obtain ⟨t, g2, W2, hrun2, h2⟩ := hm g1 W1 (S xa xt xl).apply (S xa xt xl).train (S xa xt xl).label R h1.inv h1.wired
    (by omega)
  have hgg2 := h2.frame.next_le
  let g3 := g2.pushEdge ⟨t.apply.head, 0, s.apply.publisher⟩
  let g4 := g3.pushEdge ⟨t.train.head, 0, s.train.publisher⟩
  let g5 := g4.pushEdge ⟨t.label.head, 0, s.label.publisher⟩
  obtain ⟨d1, d2, d3⟩ := h2.distinct
  have nd1 : ¬ (t.apply.head = t.train.head) := d1
  have nd2 : ¬ (t.apply.head = t.label.head) := d2
  have nd3 : ¬ (t.train.head = t.label.head) := d3
  have nd1' : ¬ (t.train.head = t.apply.head) := fun e => d1 e.symm
  have nd2' : ¬ (t.label.head = t.apply.head) := fun e => d2 e.symm
  have nd3' : ¬ (t.label.head = t.train.head) := fun e => d3 e.symm
  -- inputs in the connected graph
  have in5 : ∀ u k, g5.inputOf u k =
      (((g2.inputOf u k).or (if t.apply.head = u ∧ 0 = k then some s.apply.publisher else none)).or
        (if t.train.head = u ∧ 0 = k then some s.train.publisher else none)).or
        (if t.label.head = u ∧ 0 = k then some s.label.publisher else none) := by
    intro u k
    have e3 : g3.inputOf u k = (g2.inputOf u k).or (if t.apply.head = u ∧ 0 = k then some s.apply.publisher else none) :=
      inputOf_pushEdge _ _ _ _
    have e4 : g4.inputOf u k = (g3.inputOf u k).or (if t.train.head = u ∧ 0 = k then some s.train.publisher else none) :=
      inputOf_pushEdge _ _ _ _
    have e5 : g5.inputOf u k = (g4.inputOf u k).or (if t.label.head = u ∧ 0 = k then some s.label.publisher else none) :=
      inputOf_pushEdge _ _ _ _
    rw [e5, e4, e3]
  have in5_other : ∀ u k, u ≠ t.apply.head → u ≠ t.train.head → u ≠ t.label.head → g5.inputOf u k = g2.inputOf u k := by
    intro u k n1 n2 n3
    have c1 : ¬ (t.apply.head = u ∧ 0 = k) := fun h => n1 h.1.symm
    have c2 : ¬ (t.train.head = u ∧ 0 = k) := fun h => n2 h.1.symm
    have c3 : ¬ (t.label.head = u ∧ 0 = k) := fun h => n3 h.1.symm
    rw [in5]; simp [c1, c2, c3]
  have in5_a : ∀ k q, g5.inputOf t.apply.head k = some q → q = s.apply.publisher := by
    intro k q hq
    rw [in5, h2.ha.free k] at hq
    by_cases hk : 0 = k
    · subst hk; simp [nd1', nd2'] at hq; exact hq.symm
    · simp [hk] at hq
  have in5_t : ∀ k q, g5.inputOf t.train.head k = some q → q = s.train.publisher := by
    intro k q hq
    rw [in5, h2.ht.free k] at hq
    by_cases hk : 0 = k
    · subst hk; simp [nd1, nd3'] at hq; exact hq.symm
    · simp [hk] at hq
  have in5_l : ∀ k q, g5.inputOf t.label.head k = some q → q = s.label.publisher := by
    intro k q hq
    rw [in5, h2.hl.free k] at hq
    by_cases hk : 0 = k
    · subst hk; simp [nd2, nd3] at hq; exact hq.symm
    · simp [hk] at hq
  have in5_a0 : g5.inputOf t.apply.head 0 = some s.apply.publisher := by
    rw [in5, h2.ha.free 0]; simp
  have ho3 : g3.inputOf t.train.head 0 = none := by
    glook [h2.ht.isOpen.2, nd1]
  have ho4 : g4.inputOf t.label.head 0 = none := by
    glook [h2.hl.isOpen.2, nd2, nd3]
  have hrun : Run (do let s ← scope; let t ← m; s.extendTrunk t) g
      ⟨⟨s.apply.head, t.apply.tail⟩, ⟨s.train.head, t.train.tail⟩, ⟨s.label.head, t.label.tail⟩⟩ g5 := by
    refine Run.bind hrun1 (Run.bind hrun2 ?_)
    unfold Trunk.extendTrunk
    exact run_trunk_extend (run_extendOpt_seg _ _ _ h2.ha.isOpen.2) (run_extendOpt_seg _ _ _ ho3)
      (run_extendOpt_seg _ _ _ ho4)
  -- the three tails of `s` seen from `W2`
  have hlt1 : ∀ n, W1.live n → n < g1.next := fun n hn => (h1.inv.liveLt n hn).1
  have tail : ∀ (u : Nat) (v : Val), g.next ≤ u → W1.live u → W1.σ ⟨u, 0⟩ = v →
      RefOk W2 ⟨u, 0⟩ R ∧ W2.σ ⟨u, 0⟩ = v := by
    intro u v hu hl hv
    obtain ⟨a1, a2, a3⟩ := h2.agree u (hlt1 u hl)
    exact ⟨⟨a1.mpr hl, by rw [a2, hR]; exact h1.rank u hu hl⟩, by rw [a3 0]; exact hv⟩
  obtain ⟨ra, va⟩ := tail _ _ h1.tails_ge.1 h1.ta.1 h1.ta.2
  obtain ⟨rt, vt⟩ := tail _ _ h1.tails_ge.2.1 h1.tt.1 h1.tt.2
  obtain ⟨rl, vl⟩ := tail _ _ h1.tails_ge.2.2 h1.tl.1 h1.tl.2
  have hi3 : Inv g3 W2 := h2.inv.bindFuture _ _ h2.ha.live h2.ha.isOpen (by rw [h2.ha.rank]; exact ra)
    (fun i => by rw [h2.ha.val i]; exact va.symm)
  have hi4 : Inv g4 W2 := hi3.bindFuture _ _ h2.ht.live ⟨h2.ht.isOpen.1, ho3⟩ (by rw [h2.ht.rank]; exact rt)
    (fun i => by rw [h2.ht.val i]; exact vt.symm)
  have hi5 : Inv g5 W2 := hi4.bindFuture _ _ h2.hl.live ⟨h2.hl.isOpen.1, ho4⟩ (by rw [h2.hl.rank]; exact rl)
    (fun i => by rw [h2.hl.val i]; exact vl.symm)
  have hf5 : Frame g1 g5 := ((h2.frame.pushEdge _ h2.ha.ge).pushEdge _ h2.ht.ge).pushEdge _ h2.hl.ge
  have hw5 : Wired g5 :=
    ((h2.wired.pushEdge _ (by have := hlt1 _ h1.ta.1; show s.apply.tail < g2.next; omega) h2.ha.isOpen.2).pushEdge _
      (by have := hlt1 _ h1.tt.1; show s.train.tail < g2.next; omega) ho3).pushEdge _
      (by have := hlt1 _ h1.tl.1; show s.label.tail < g2.next; omega) ho4
  -- reachability from the head of `s` in the connected graph: the old part, or the apply region of `t`
  have mono25 : ∀ u k q, g2.inputOf u k = some q → g5.inputOf u k = some q := by
    intro u k q hq; rw [in5, hq]; rfl
  have reS : ∀ n, Reach g1 s.apply.head n → Reach g5 s.apply.head n := fun n h => h.mono (hf5.input_mono h1.inv.bounded)
  have reHead : full → Reach g5 s.apply.head t.apply.head := fun hfull => Reach.one (reS _ (h1.regTail hfull)) in5_a0
  have reT : full → ∀ n, Reach g2 t.apply.head n → Reach g5 s.apply.head n :=
    fun hfull n h => (reHead hfull).trans (h.mono mono25)
  have split : full → ∀ n, Reach g5 s.apply.head n →
      (n < g1.next ∧ Reach g1 s.apply.head n) ∨ (g1.next ≤ n ∧ Reach g2 t.apply.head n) := by
    intro hfull n hre
    induction hre with
    | refl => exact Or.inl ⟨hlt1 _ h1.ha.live, Reach.refl⟩
    | step hp he ih =>
      rename_i p u k i
      by_cases hu : u < g1.next
      · rw [hf5.input u k hu] at he
        have hp' := h1.wired.pub_lt he
        rcases ih with ⟨_, ih⟩ | ⟨ih, _⟩
        · exact Or.inl ⟨hu, Reach.step ih he⟩
        · simp at hp'; omega
      · refine Or.inr ⟨by omega, ?_⟩
        by_cases ha : u = t.apply.head
        · rw [ha]; exact Reach.refl
        · by_cases ht' : u = t.train.head
          · have := in5_t k _ (ht' ▸ he)
            have hpe : p = s.train.tail := by cases this; rfl
            rcases ih with ⟨_, ih⟩ | ⟨ih, _⟩
            · exact absurd (hpe ▸ ih) (h1.sep hfull).1
            · have := hlt1 _ h1.tt.1; omega
          · by_cases hl' : u = t.label.head
            · have := in5_l k _ (hl' ▸ he)
              have hpe : p = s.label.tail := by cases this; rfl
              rcases ih with ⟨_, ih⟩ | ⟨ih, _⟩
              · exact absurd (hpe ▸ ih) (h1.sep hfull).2
              · have := hlt1 _ h1.tl.1; omega
            · rw [in5_other u k ha ht' hl'] at he
              have hpn := h2.closed hfull u k _ (by omega) he
              rcases ih with ⟨ih, _⟩ | ⟨_, ih⟩
              · simp at hpn; omega
              · exact Reach.step ih he
  refine ⟨_, g5, W2, hrun, h1.step hi5 hf5 h2.agree ?_
    ⟨⟨s.apply.head, t.apply.tail⟩, ⟨s.train.head, t.train.tail⟩, ⟨s.label.head, t.label.tail⟩⟩ rfl rfl rfl
    (seqSem S T xa xt xl) h2.ta h2.tt h2.tl ?_ ?_ ?_⟩
  · intro n hn hl ho
    -- an open node of `g5` is open in `g2`, hence one of the heads of `t` — which are bound in `g5`
    have hk : g2.kindOf n = some .future := ho.1
    have hin5 : g5.inputOf n 0 = none := ho.2
    have hin2 : g2.inputOf n 0 = none := by
      cases h : g2.inputOf n 0 with
      | none => rfl
      | some q => rw [mono25 _ _ _ h] at hin5; cases hin5
    rcases h2.opens n hn hl ⟨hk, hin2⟩ with h | h | h
    · subst h; rw [in5_a0] at hin5; cases hin5
    · subst h
      have : g5.inputOf t.train.head 0 = some s.train.publisher := by
        rw [in5, h2.ht.free 0]; simp [nd1]
      rw [this] at hin5; cases hin5
    · subst h
      have : g5.inputOf t.label.head 0 = some s.label.publisher := by
        rw [in5, h2.hl.free 0]; simp [nd2, nd3]
      rw [this] at hin5; cases hin5
  · obtain ⟨ts, e, l, m'⟩ := h2.trains
    exact ⟨ts, e, l, by simp only [seqSem]; rw [m']⟩
  · intro n hn hl gid a i o hk
    exact h2.fresh n hn hl gid a i o hk
  · refine ⟨hw5, ⟨by have := h2.tails_ge.1; show g.next ≤ t.apply.tail; omega,
      by have := h2.tails_ge.2.1; show g.next ≤ t.train.tail; omega,
      by have := h2.tails_ge.2.2; show g.next ≤ t.label.tail; omega⟩,
      ?_, ?_, fun hfull => reT hfull _ (h2.regTail hfull), ?_, ?_⟩
    · intro n hn hl
      have := h2.rank n hn hl
      show W2.h n < r + (g2.next - g.next)
      omega
    · intro hfull n hn hre hne
      have hre2 : Reach g2 t.apply.head n := by
        rcases split hfull n hre with ⟨h, _⟩ | ⟨_, h⟩
        · omega
        · exact h
      by_cases ha : n = t.apply.head
      · subst ha
        refine ⟨h2.ha.live, ?_⟩
        intro k q hq
        rw [in5_a k q hq]
        exact reS _ (h1.regTail hfull)
      · obtain ⟨l2, i2⟩ := h2.reg hfull n hre2 ha
        refine ⟨l2, ?_⟩
        intro k q hq
        have nt : n ≠ t.train.head := fun e => not_reach_of_no_input h2.ht.free (fun e' => d1 e'.symm) (e ▸ hre2)
        have nl : n ≠ t.label.head := fun e => not_reach_of_no_input h2.hl.free (fun e' => d2 e'.symm) (e ▸ hre2)
        rw [in5_other n k ha nt nl] at hq
        exact reT hfull _ (i2 k q hq)
    · intro hfull
      constructor
      · intro hre
        have hre' : Reach g5 s.apply.head t.train.tail := hre
        rcases split hfull _ hre' with ⟨h, _⟩ | ⟨_, h⟩
        · have := h2.tails_ge.2.1; omega
        · exact (h2.sep hfull).1 h
      · intro hre
        have hre' : Reach g5 s.apply.head t.label.tail := hre
        rcases split hfull _ hre' with ⟨h, _⟩ | ⟨_, h⟩
        · have := h2.tails_ge.2.2; omega
        · exact (h2.sep hfull).2 h
    · intro hfull u k q hu hq
      by_cases ha : u = t.apply.head
      · rw [in5_a k q (ha ▸ hq)]; exact h1.tails_ge.1
      · by_cases ht' : u = t.train.head
        · rw [in5_t k q (ht' ▸ hq)]; exact h1.tails_ge.2.1
        · by_cases hl' : u = t.label.head
          · rw [in5_l k q (hl' ▸ hq)]; exact h1.tails_ge.2.2
          · rw [in5_other u k ha ht' hl'] at hq
            have := h2.closed hfull u k q hu hq
            omega

end ForML.Compose
