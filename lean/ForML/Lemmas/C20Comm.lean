/- Commutation of registrations, module executions and import histories up to observational equivalence (C20). -/
import ForML.Lemmas.C20Order

namespace ForML.Bank

/-! ### generic: folding a partial step function over a permuted list of pairwise commuting actions -/

section Generic
variable {S A : Type}

def foldO (f : S → A → Option S) : S → List A → Option S
  | s, [] => some s
  | s, a :: l =>
    match f s a with
    | none => none
    | some t => foldO f t l

theorem foldO_append (f : S → A → Option S) (s : S) (l1 l2 : List A) :
    foldO f s (l1 ++ l2) = (foldO f s l1).bind (fun t => foldO f t l2) := by
  induction l1 generalizing s with
  | nil => simp [foldO]
  | cons a l ih =>
    simp only [List.cons_append, foldO]
    cases f s a with
    | none => simp
    | some t => exact ih t

theorem foldO_cong (E : S → S → Prop) (f : S → A → Option S)
    (cong : ∀ s s' a t, E s s' → f s a = some t → ∃ t', f s' a = some t' ∧ E t t') (l : List A) :
    ∀ s s' t, E s s' → foldO f s l = some t → ∃ t', foldO f s' l = some t' ∧ E t t' := by
  induction l with
  | nil => intro s s' t h ht; simp [foldO] at ht; subst ht; exact ⟨s', rfl, h⟩
  | cons a l ih =>
    intro s s' t h ht
    simp only [foldO] at ht ⊢
    cases hf : f s a with
    | none => simp [hf] at ht
    | some u =>
      simp only [hf] at ht
      obtain ⟨u', hu', hE⟩ := cong s s' a u h hf
      simp only [hu']
      exact ih u u' t hE ht

theorem foldO_perm (E : S → S → Prop) (f : S → A → Option S) (P : A → Prop)
    (Erefl : ∀ a, E a a) (Etrans : ∀ a b c, E a b → E b c → E a c)
    (cong : ∀ s s' a t, E s s' → f s a = some t → ∃ t', f s' a = some t' ∧ E t t')
    (comm : ∀ s a b t u, P a → P b → f s a = some t → f t b = some u →
      ∃ t' u', f s b = some t' ∧ f t' a = some u' ∧ E u u')
    {l1 l2 : List A} (hp : l1.Perm l2) :
    (∀ a ∈ l1, P a) → ∀ s s' t, E s s' → foldO f s l1 = some t → ∃ t', foldO f s' l2 = some t' ∧ E t t' := by
  induction hp with
  | nil => intro _ s s' t h ht; simp [foldO] at ht; subst ht; exact ⟨s', rfl, h⟩
  | cons a _ ih =>
    intro hP s s' t h ht
    simp only [foldO] at ht ⊢
    cases hf : f s a with
    | none => simp [hf] at ht
    | some u =>
      simp only [hf] at ht
      obtain ⟨u', hu', hE⟩ := cong s s' a u h hf
      simp only [hu']
      exact ih (fun x hx => hP x (List.mem_cons_of_mem _ hx)) u u' t hE ht
  | swap a b l =>
    intro hP s s' t h ht
    -- l1 = b :: a :: l, l2 = a :: b :: l
    simp only [foldO] at ht ⊢
    cases hf1 : f s b with
    | none => simp [hf1] at ht
    | some t1 =>
      simp only [hf1] at ht
      cases hf2 : f t1 a with
      | none => simp [hf2] at ht
      | some t2 =>
        simp only [hf2] at ht
        obtain ⟨t1', ht1', hE1⟩ := cong s s' b t1 h hf1
        obtain ⟨t2', ht2', hE2⟩ := cong t1 t1' a t2 hE1 hf2
        obtain ⟨x, y, hx, hy, hE3⟩ := comm s' b a t1' t2' (hP b (by simp)) (hP a (by simp)) ht1' ht2'
        simp only [hx, hy]
        exact foldO_cong E f cong l t2 y t (Etrans _ _ _ hE2 hE3) ht
  | trans h12 _ ih1 ih2 =>
    intro hP s s' t h ht
    obtain ⟨t', ht', hE⟩ := ih1 hP s s t (Erefl s) ht
    obtain ⟨t'', ht'', hE'⟩ := ih2 (fun a ha => hP a (h12.mem_iff.2 ha)) s s' t' h ht'
    exact ⟨t'', ht'', Etrans _ _ _ hE hE'⟩
end Generic

end ForML.Bank

namespace ForML.Bank

/-! ### `set.update` with explicit paths commutes -/

def add1 (ps : List PathE) (q : PathE) : List PathE :=
  if ps.any (fun e => e.mod = q.mod) then ps else ps ++ [q]

theorem addPaths_foldO (ps qs : List PathE) : foldO (fun ps q => some (add1 ps q)) ps qs = some (addPaths ps qs) := by
  induction qs generalizing ps with
  | nil => simp [foldO, addPaths]
  | cons q qs ih => simp only [foldO, addPaths]; exact ih _

theorem add1_perm {ps ps' : List PathE} (h : ps.Perm ps') (q : PathE) : (add1 ps q).Perm (add1 ps' q) := by
  have := addPaths_perm h [q]
  simpa [addPaths, add1] using this

theorem any_mod_append (ps : List PathE) (a : PathE) (m : Mod) :
    (ps ++ [a]).any (fun e => e.mod = m) = (ps.any (fun e => e.mod = m) || decide (a.mod = m)) := by
  simp [List.any_append]

theorem add1_comm (ps : List PathE) (a b : PathE) (ha : a.explicit = true) (hb : b.explicit = true) :
    (add1 (add1 ps a) b).Perm (add1 (add1 ps b) a) := by
  have hab : a.mod = b.mod → a = b := by
    intro h
    obtain ⟨am, ae⟩ := a
    obtain ⟨bm, be⟩ := b
    simp only at h ha hb
    subst h ha hb
    rfl
  by_cases h1 : ps.any (fun e => e.mod = a.mod) = true
  · by_cases h2 : ps.any (fun e => e.mod = b.mod) = true
    · simp [add1, h1, h2]
    · simp [add1, h1, h2]
  · by_cases h2 : ps.any (fun e => e.mod = b.mod) = true
    · simp [add1, h1, h2]
    · by_cases h3 : a.mod = b.mod
      · rw [hab h3]
      · have h4 : ¬ b.mod = a.mod := fun h => h3 h.symm
        simp only [add1, h1, h2, any_mod_append, h3, h4, Bool.false_eq_true, if_false, decide_false, Bool.or_false]
        simp only [List.append_assoc]
        exact List.Perm.append_left _ (List.Perm.swap b a [])

theorem addPaths_append (ps l1 l2 : List PathE) : addPaths ps (l1 ++ l2) = addPaths (addPaths ps l1) l2 := by
  induction l1 generalizing ps with
  | nil => rfl
  | cons q l ih => simp only [List.cons_append, addPaths]; exact ih _

theorem addPaths_comm (ps l1 l2 : List PathE) (h1 : ∀ q ∈ l1, q.explicit = true) (h2 : ∀ q ∈ l2, q.explicit = true) :
    (addPaths (addPaths ps l1) l2).Perm (addPaths (addPaths ps l2) l1) := by
  have hperm : (l1 ++ l2).Perm (l2 ++ l1) := List.perm_append_comm
  have := foldO_perm (S := List PathE) (A := PathE) (fun a b => a.Perm b) (fun ps q => some (add1 ps q))
    (fun q => q.explicit = true) (fun a => List.Perm.refl a) (fun _ _ _ h h' => h.trans h')
    (by intro s s' a t h ht; cases ht; exact ⟨_, rfl, add1_perm h a⟩)
    (by intro s a b t u ha hb ht hu; cases ht; cases hu; exact ⟨_, _, rfl, rfl, add1_comm s a b ha hb⟩)
    hperm (by intro a ha; rcases List.mem_append.1 ha with h | h; exact h1 a h; exact h2 a h)
    ps ps (addPaths ps (l1 ++ l2)) (List.Perm.refl _) (addPaths_foldO ps (l1 ++ l2))
  obtain ⟨t', ht', hE⟩ := this
  rw [addPaths_foldO] at ht'
  cases ht'
  rw [addPaths_append, addPaths_append] at hE
  exact hE

end ForML.Bank

namespace ForML.Bank

/-! ### two registrations in one bank commute -/

/-- what `__init_subclass__` guarantees before it calls `Bank.add`: no alias on an abstract class -/
def NoAbsAlias (c : ClassDef) : Prop := c.abstract = true → c.alias = none

theorem add_ok' {b b1 : Bank} {c : ClassDef} (h : b.add c = .ok b1) :
    collides b c = false ∧
      b1 = ⟨if c.abstract then b.provider else register b.provider c, addPaths b.paths (c.paths.map (fun m => ⟨m, true⟩))⟩ := by
  unfold Bank.add at h
  by_cases hc : collides b c = true
  · simp [hc] at h
  · simp only [hc] at h
    by_cases ha : c.abstract = true
    · simp [ha] at h; subst h; simp [ha, hc]
    · simp [ha] at h; subst h; simp [ha, hc]

theorem lookup_after_add {b b1 : Bank} {c : ClassDef} (h : b.add c = .ok b1) (r : Ref) :
    lookupRef r b1.provider =
      if c.abstract = false ∧ r ∈ refs c then some c.id else lookupRef r b.provider := by
  obtain ⟨_, hb⟩ := add_ok' h
  subst hb
  by_cases ha : c.abstract = true
  · simp [ha]
  · simp [ha, lookupRef_register]

theorem paths_after_add {b b1 : Bank} {c : ClassDef} (h : b.add c = .ok b1) :
    b1.paths = addPaths b.paths (c.paths.map (fun m => ⟨m, true⟩)) := by
  obtain ⟨_, hb⟩ := add_ok' h
  subst hb
  rfl

theorem refs_abstract {c : ClassDef} (hc : NoAbsAlias c) (ha : c.abstract = true) : refs c = [.qual c.id] := by
  simp [refs, hc ha]

theorem qual_mem_refs {c d : ClassDef} (h : Ref.qual c.id ∈ refs d) : c.id = d.id := by
  unfold refs at h
  cases hd : d.alias with
  | none => simp [hd] at h; exact h
  | some a => simp [hd] at h; exact h

theorem add_comm {b b1 b2 : Bank} {c d : ClassDef} (hc : NoAbsAlias c) (_hd : NoAbsAlias d)
    (h1 : b.add c = .ok b1) (h2 : b1.add d = .ok b2) :
    ∃ b1' b2', b.add d = .ok b1' ∧ b1'.add c = .ok b2' ∧ BankEq b2 b2' := by
  have hcb := (collides_false_iff b c).1 (add_ok' h1).1
  have hdb1 := (collides_false_iff b1 d).1 (add_ok' h2).1
  have l1 := lookup_after_add h1
  -- a reference shared by the two classes forces one identity
  have K : ∀ r, r ∈ refs c → r ∈ refs d → c.id = d.id := by
    intro r hrc hrd
    by_cases ha : c.abstract = true
    · rw [refs_abstract hc ha] at hrc
      simp at hrc
      subst hrc
      exact qual_mem_refs hrd
    · have : lookupRef r b1.provider = some c.id := by rw [l1]; simp [ha, hrc]
      exact hdb1 r hrd c.id this
  have hdb : collides b d = false := by
    rw [collides_false_iff]
    intro r hrd e he
    by_cases hx : c.abstract = false ∧ r ∈ refs c
    · rw [← K r hx.2 hrd]; exact hcb r hx.2 e he
    · exact hdb1 r hrd e (by rw [l1]; simp only [hx, if_false]; exact he)
  obtain ⟨b1', hb1'⟩ := add_of_not_collides hdb
  have l1' := lookup_after_add hb1'
  have hcb1' : collides b1' c = false := by
    rw [collides_false_iff]
    intro r hrc e he
    rw [l1'] at he
    by_cases hx : d.abstract = false ∧ r ∈ refs d
    · simp only [hx, and_self, if_true] at he
      cases he
      exact (K r hrc hx.2).symm
    · simp only [hx, if_false] at he
      exact hcb r hrc e he
  obtain ⟨b2', hb2'⟩ := add_of_not_collides hcb1'
  refine ⟨b1', b2', hb1', hb2', ?_, ?_⟩
  · intro r
    rw [lookup_after_add h2, lookup_after_add hb2', l1, l1']
    by_cases hx : d.abstract = false ∧ r ∈ refs d
    · by_cases hy : c.abstract = false ∧ r ∈ refs c
      · simp only [hx, hy, and_self, if_true]
        rw [K r hy.2 hx.2]
      · simp only [hx, hy, and_self, if_true, if_false]
    · simp only [hx, if_false]
  · rw [paths_after_add h2, paths_after_add h1, paths_after_add hb2', paths_after_add hb1']
    apply addPaths_comm <;> · intro q hq; simp only [List.mem_map] at hq; obtain ⟨m, _, hm⟩ := hq; subst hm; rfl

end ForML.Bank

namespace ForML.Bank

/-! ### the process state: single registrations and `sys.modules` entries as commuting actions -/

inductive Act where
  | reg : ClassId → ClassDef → Act   -- `BANK[i].add(c, …)` succeeding
  | mark : Mod → Act                 -- the module enters `sys.modules`

def act (st : St) : Act → Option St
  | .reg i c =>
    match (getBank i st.banks).add c with
    | .ok b => some { st with banks := setBank i b st.banks }
    | .error _ => none
  | .mark m => some { st with loaded := m :: st.loaded }

def ActOk : Act → Prop
  | .reg _ c => NoAbsAlias c
  | .mark _ => True

theorem act_cong (s s' : St) (a : Act) (t : St) (h : StEq s s') (ht : act s a = some t) :
    ∃ t', act s' a = some t' ∧ StEq t t' := by
  cases a with
  | reg i c =>
    simp only [act] at ht ⊢
    cases hadd : (getBank i s.banks).add c with
    | error e => simp [hadd] at ht
    | ok b =>
      simp only [hadd, Option.some.injEq] at ht
      subst ht
      obtain ⟨b', hb', hbe⟩ := (add_congr (h.1 i) c).2 b hadd
      simp only [hb']
      exact ⟨_, rfl, stEq_setBank h i hbe⟩
  | mark m =>
    simp only [act, Option.some.injEq] at ht ⊢
    subst ht
    refine ⟨_, rfl, h.1, ?_⟩
    intro x
    simp only [List.mem_cons, h.2 x]

theorem act_comm (s : St) (a b : Act) (t u : St) (ha : ActOk a) (hb : ActOk b) (ht : act s a = some t)
    (hu : act t b = some u) : ∃ t' u', act s b = some t' ∧ act t' a = some u' ∧ StEq u u' := by
  cases a with
  | reg i c =>
    simp only [act] at ht
    cases hadd : (getBank i s.banks).add c with
    | error e => simp [hadd] at ht
    | ok bc =>
      simp only [hadd, Option.some.injEq] at ht
      subst ht
      cases b with
      | reg j d =>
        simp only [act, getBank_setBank] at hu ⊢
        by_cases hij : i = j
        · subst hij
          simp only [if_true] at hu
          cases hadd2 : bc.add d with
          | error e => simp [hadd2] at hu
          | ok bd =>
            simp only [hadd2, Option.some.injEq] at hu
            subst hu
            obtain ⟨b1', b2', h1', h2', hbe⟩ := add_comm ha hb hadd hadd2
            refine ⟨{ s with banks := setBank i b1' s.banks },
              { s with banks := setBank i b2' (setBank i b1' s.banks) }, by simp [h1'],
              by simp [getBank_setBank, h2'], ?_, fun _ => Iff.rfl⟩
            intro k
            simp only [getBank_setBank]
            by_cases hik : i = k
            · simp only [hik, if_true]; exact hbe
            · simp only [hik, if_false]; exact BankEq.refl _
        · simp only [hij, if_false] at hu
          cases hadd2 : (getBank j s.banks).add d with
          | error e => simp [hadd2] at hu
          | ok bd =>
            simp only [hadd2, Option.some.injEq] at hu
            subst hu
            have hji : ¬ j = i := fun h => hij h.symm
            refine ⟨{ s with banks := setBank j bd s.banks },
              { s with banks := setBank i bc (setBank j bd s.banks) }, by simp,
              by simp [getBank_setBank, hji, hadd], ?_, fun _ => Iff.rfl⟩
            intro k
            simp only [getBank_setBank]
            by_cases hik : i = k
            · subst hik; simp only [hji, if_false, if_true]; exact BankEq.refl _
            · by_cases hjk : j = k
              · simp only [hik, hjk, if_true, if_false]; exact BankEq.refl _
              · simp only [hik, hjk, if_false]; exact BankEq.refl _
      | mark m =>
        simp only [act, Option.some.injEq] at hu
        subst hu
        exact ⟨{ s with loaded := m :: s.loaded }, { banks := setBank i bc s.banks, loaded := m :: s.loaded }, rfl,
          by simp [act, hadd], StEq.refl _⟩
  | mark m =>
    simp only [act, Option.some.injEq] at ht
    subst ht
    cases b with
    | reg j d =>
      simp only [act] at hu ⊢
      cases hadd2 : (getBank j s.banks).add d with
      | error e => simp [hadd2] at hu
      | ok bd =>
        simp only [hadd2, Option.some.injEq] at hu
        subst hu
        exact ⟨{ s with banks := setBank j bd s.banks }, { banks := setBank j bd s.banks, loaded := m :: s.loaded },
          by simp, rfl, StEq.refl _⟩
    | mark m' =>
      simp only [act, Option.some.injEq] at hu
      subst hu
      refine ⟨{ s with loaded := m' :: s.loaded }, { s with loaded := m :: m' :: s.loaded }, rfl, rfl,
        fun _ => BankEq.refl _, ?_⟩
      intro x
      simp only [List.mem_cons]
      constructor <;> (intro h; rcases h with h | h | h <;> simp [h])

/-- permuting a list of admissible actions: success is preserved, the reached states are equivalent -/
theorem acts_perm {l1 l2 : List Act} (hp : l1.Perm l2) (hP : ∀ a ∈ l1, ActOk a) (s s' t : St) (h : StEq s s')
    (ht : foldO act s l1 = some t) : ∃ t', foldO act s' l2 = some t' ∧ StEq t t' :=
  foldO_perm StEq act ActOk StEq.refl (fun _ _ _ => StEq.trans) act_cong act_comm hp hP s s' t h ht

/-- the modules in `sys.modules` after a run of actions -/
theorem loaded_foldO (l : List Act) (s t : St) (h : foldO act s l = some t) (x : Mod) :
    x ∈ t.loaded ↔ x ∈ s.loaded ∨ Act.mark x ∈ l := by
  induction l generalizing s with
  | nil => simp [foldO] at h; subst h; simp
  | cons a l ih =>
    simp only [foldO] at h
    cases ha : act s a with
    | none => simp [ha] at h
    | some s1 =>
      simp only [ha] at h
      rw [ih s1 h]
      cases a with
      | reg i c =>
        simp only [act] at ha
        cases hadd : (getBank i s.banks).add c with
        | error e => simp [hadd] at ha
        | ok b =>
          simp only [hadd, Option.some.injEq] at ha
          subst ha
          simp
      | mark m =>
        simp only [act, Option.some.injEq] at ha
        subst ha
        simp only [List.mem_cons, Act.mark.injEq]
        constructor
        · rintro ((h | h) | h)
          · exact Or.inr (Or.inl h)
          · exact Or.inl h
          · exact Or.inr (Or.inr h)
        · rintro (h | h | h)
          · exact Or.inl (Or.inr h)
          · exact Or.inl (Or.inl h)
          · exact Or.inr h

end ForML.Bank

namespace ForML.Bank

/-! ### a module body as a run of actions -/

def regsOf (c : ClassDef) : List Act := (c.id :: c.parents).map (fun i => Act.reg i c)

/-- no class statement of the list is refused by `__init_subclass__` itself -/
def okClasses (cs : List ClassDef) : Prop := ∀ c ∈ cs, (c.alias.isSome && c.abstract) = false

theorem noAbsAlias_of_ok {c : ClassDef} (h : (c.alias.isSome && c.abstract) = false) : NoAbsAlias c := by
  intro ha
  cases hal : c.alias with
  | none => rfl
  | some a => simp [hal, ha] at h

theorem addToBanks_iff (c : ClassDef) (is : List ClassId) (st st' : St) :
    addToBanks st c is = (st', none) ↔ foldO act st (is.map (fun i => Act.reg i c)) = some st' := by
  induction is generalizing st with
  | nil => simp [addToBanks, foldO, eq_comm]
  | cons i rest ih =>
    simp only [addToBanks, List.map_cons, foldO, act]
    cases hadd : (getBank i st.banks).add c with
    | error e => simp
    | ok b => simp only; exact ih _

theorem initSubclass_iff (c : ClassDef) (st st' : St) :
    initSubclass st c = (st', none) ↔
      (c.alias.isSome && c.abstract) = false ∧ foldO act st (regsOf c) = some st' := by
  unfold initSubclass
  cases h : (c.alias.isSome && c.abstract) with
  | true => simp
  | false =>
    simp only [Bool.false_eq_true, if_false, true_and]
    rw [addToBanks_iff]
    rfl

theorem execClasses_iff (cs : List ClassDef) (st st' : St) :
    execClasses st cs = (st', none) ↔ okClasses cs ∧ foldO act st (cs.flatMap regsOf) = some st' := by
  induction cs generalizing st with
  | nil =>
    simp only [execClasses, List.flatMap_nil, foldO, okClasses, List.not_mem_nil, false_imp_iff, implies_true, true_and]
    constructor
    · intro h; cases h; rfl
    · intro h; cases h; rfl
  | cons c rest ih =>
    simp only [execClasses, List.flatMap_cons, foldO_append]
    cases hi : initSubclass st c with
    | mk s1 e1 =>
      cases e1 with
      | some e =>
        simp only
        constructor
        · intro h; cases h
        · rintro ⟨hok, hf⟩
          have hc := hok c (by simp)
          cases hf1 : foldO act st (regsOf c) with
          | none => simp [hf1] at hf
          | some s2 =>
            have := (initSubclass_iff c st s2).2 ⟨hc, hf1⟩
            rw [hi] at this
            cases this
      | none =>
        simp only
        have h1 := (initSubclass_iff c st s1).1 hi
        rw [ih s1, h1.2]
        simp only [Option.bind_some, okClasses, List.mem_cons, forall_eq_or_imp, h1.1, true_and]

end ForML.Bank

namespace ForML.Bank

/-! ### module executions commute -/

/-- executing a module successfully (`none`: not found, or a class statement raised) -/
def execOk (w : World) (st : St) (m : Mod) : Option St :=
  match execMod w st m with
  | some (st', none) => some st'
  | _ => none

def modActs (d : ModuleDef) (m : Mod) : List Act := d.classes.flatMap regsOf ++ [Act.mark m]

theorem execOk_iff (w : World) (st t : St) (m : Mod) :
    execOk w st m = some t ↔
      ∃ d, findMod m w = some d ∧
        if m ∈ st.loaded then t = st else okClasses d.classes ∧ foldO act st (modActs d m) = some t := by
  unfold execOk execMod
  cases hf : findMod m w with
  | none => simp
  | some d =>
    simp only [Option.some.injEq, exists_eq_left', List.contains_eq_mem, decide_eq_true_eq]
    by_cases hl : m ∈ st.loaded
    · simp only [hl, if_true, Option.some.injEq]
      exact eq_comm
    · simp only [hl, if_false, modActs, foldO_append]
      cases he : execClasses st d.classes with
      | mk s1 e1 =>
        cases e1 with
        | some e =>
          simp only
          constructor
          · intro h; cases h
          · rintro ⟨hok, hfo⟩
            cases hf1 : foldO act st (d.classes.flatMap regsOf) with
            | none => simp [hf1] at hfo
            | some s2 =>
              have := (execClasses_iff d.classes st s2).2 ⟨hok, hf1⟩
              rw [he] at this
              cases this
        | none =>
          have h1 := (execClasses_iff d.classes st s1).1 he
          simp only [h1.1, h1.2, Option.bind_some, foldO, act, true_and, Option.some.injEq]

theorem modActs_ok {d : ModuleDef} (h : okClasses d.classes) (m : Mod) : ∀ a ∈ modActs d m, ActOk a := by
  intro a ha
  simp only [modActs, List.mem_append, List.mem_flatMap, List.mem_singleton] at ha
  rcases ha with ⟨c, hc, hac⟩ | rfl
  · simp only [regsOf, List.mem_map] at hac
    obtain ⟨i, _, rfl⟩ := hac
    exact noAbsAlias_of_ok (h c hc)
  · trivial

theorem mark_mem_modActs (d : ModuleDef) (m x : Mod) : Act.mark x ∈ modActs d m ↔ x = m := by
  simp only [modActs, List.mem_append, List.mem_flatMap, List.mem_singleton, Act.mark.injEq]
  constructor
  · rintro (⟨c, _, hac⟩ | h)
    · simp [regsOf] at hac
    · exact h
  · intro h; exact Or.inr h

theorem execOk_cong (w : World) (s s' : St) (m : Mod) (t : St) (h : StEq s s') (ht : execOk w s m = some t) :
    ∃ t', execOk w s' m = some t' ∧ StEq t t' := by
  have h1 := execMod_congr w m h
  unfold execOk at ht ⊢
  cases he : execMod w s m with
  | none => simp [he] at ht
  | some x =>
    obtain ⟨s1, e1⟩ := x
    cases e1 with
    | some e => simp [he] at ht
    | none =>
      simp only [he, Option.some.injEq] at ht
      subst ht
      cases he' : execMod w s' m with
      | none => rw [he, he'] at h1; exact h1.elim
      | some y =>
        rw [he, he'] at h1
        obtain ⟨s1', e1'⟩ := y
        obtain ⟨hee, hs⟩ := h1
        simp only at hee hs
        subst hee
        exact ⟨s1', rfl, hs⟩

theorem execOk_loaded_mono (w : World) (s t : St) (m x : Mod) (ht : execOk w s m = some t) (hx : x ∈ s.loaded) :
    x ∈ t.loaded := by
  obtain ⟨d, _, hd⟩ := (execOk_iff w s t m).1 ht
  by_cases hl : m ∈ s.loaded
  · simp only [hl, if_true] at hd; subst hd; exact hx
  · simp only [hl, if_false] at hd
    exact (loaded_foldO _ s t hd.2 x).2 (Or.inl hx)

theorem execOk_comm (w : World) (s : St) (x y : Mod) (t u : St) (ht : execOk w s x = some t)
    (hu : execOk w t y = some u) : ∃ t' u', execOk w s y = some t' ∧ execOk w t' x = some u' ∧ StEq u u' := by
  by_cases hxy : x = y
  · subst hxy; exact ⟨t, u, ht, hu, StEq.refl _⟩
  obtain ⟨dx, hfx, hdx⟩ := (execOk_iff w s t x).1 ht
  obtain ⟨dy, hfy, hdy⟩ := (execOk_iff w t u y).1 hu
  by_cases hlx : x ∈ s.loaded
  · -- x was imported already: the first step does nothing
    simp only [hlx, if_true] at hdx
    subst hdx
    refine ⟨u, u, hu, ?_, StEq.refl _⟩
    exact (execOk_iff w u u x).2 ⟨dx, hfx, by simp [execOk_loaded_mono w t u y x hu hlx]⟩
  · simp only [hlx, if_false] at hdx
    have hyt : y ∈ t.loaded ↔ y ∈ s.loaded := by
      rw [loaded_foldO _ s t hdx.2 y, mark_mem_modActs]
      constructor
      · rintro (h | h)
        · exact h
        · exact absurd h.symm hxy
      · intro h; exact Or.inl h
    by_cases hly : y ∈ t.loaded
    · -- y was imported already: the second step does nothing
      simp only [hly, if_true] at hdy
      subst hdy
      refine ⟨s, u, ?_, ht, StEq.refl _⟩
      exact (execOk_iff w s s y).2 ⟨dy, hfy, by simp [hyt.1 hly]⟩
    · simp only [hly, if_false] at hdy
      have hlys : y ∉ s.loaded := fun h => hly (hyt.2 h)
      -- both bodies run: permute the two runs of actions
      have hrun : foldO act s (modActs dx x ++ modActs dy y) = some u := by
        rw [foldO_append, hdx.2]; exact hdy.2
      obtain ⟨u', hu', hE⟩ := acts_perm (List.perm_append_comm (l₁ := modActs dx x) (l₂ := modActs dy y))
        (by
          intro a ha
          rcases List.mem_append.1 ha with h | h
          · exact modActs_ok hdx.1 x a h
          · exact modActs_ok hdy.1 y a h) s s u (StEq.refl s) hrun
      rw [foldO_append] at hu'
      cases hty : foldO act s (modActs dy y) with
      | none => simp [hty] at hu'
      | some t' =>
        simp only [hty, Option.bind_some] at hu'
        refine ⟨t', u', ?_, ?_, hE⟩
        · exact (execOk_iff w s t' y).2 ⟨dy, hfy, by simp only [hlys, if_false]; exact ⟨hdy.1, hty⟩⟩
        · have hxt' : x ∉ t'.loaded := by
            rw [loaded_foldO _ s t' hty x, mark_mem_modActs]
            rintro (h | h)
            · exact hlx h
            · exact hxy h
          exact (execOk_iff w t' u' x).2 ⟨dx, hfx, by simp only [hxt', if_false]; exact ⟨hdx.1, hu'⟩⟩

/-- executing a permuted list of modules: success is preserved and the reached states are equivalent -/
theorem execs_perm (w : World) {l1 l2 : List Mod} (hp : l1.Perm l2) (s s' t : St) (h : StEq s s')
    (ht : foldO (execOk w) s l1 = some t) : ∃ t', foldO (execOk w) s' l2 = some t' ∧ StEq t t' :=
  foldO_perm StEq (execOk w) (fun _ => True) StEq.refl (fun _ _ _ => StEq.trans) (execOk_cong w)
    (fun s a b t u _ _ => execOk_comm w s a b t u) hp (fun _ _ => trivial) s s' t h ht

end ForML.Bank

namespace ForML.Bank

/-! ### import histories -/

/-- `import m` succeeding (`none`: ModuleNotFoundError or an exception out of a module body) -/
def importOk (w : World) (st : St) (m : Mod) : Option St :=
  match importMod w st m with
  | some (st', none) => some st'
  | _ => none

/-- a history of successful `import` statements from a given process state -/
def importAll (w : World) (st : St) (ms : List Mod) : Option St := foldO (importOk w) st ms

/-- the module bodies an `import m` may have to execute: the parent package first -/
def expand (m : Mod) : List Mod :=
  match m.sub with
  | none => [m]
  | some _ => [⟨m.pkg, none⟩, m]

theorem importOk_eq (w : World) (st : St) (m : Mod) : importOk w st m = foldO (execOk w) st (expand m) := by
  unfold importOk importMod expand
  cases hsub : m.sub with
  | none =>
    simp only [foldO, execOk]
    cases execMod w st m with
    | none => rfl
    | some x =>
      obtain ⟨s1, e1⟩ := x
      cases e1 <;> rfl
  | some sname =>
    simp only [foldO, execOk]
    cases execMod w st ⟨m.pkg, none⟩ with
    | none => rfl
    | some x =>
      obtain ⟨s1, e1⟩ := x
      cases e1 with
      | some e => rfl
      | none =>
        simp only
        cases execMod w s1 m with
        | none => rfl
        | some y =>
          obtain ⟨s2, e2⟩ := y
          cases e2 <;> rfl

theorem foldO_flatMap {S A B : Type} (f : S → B → Option S) (g : A → List B) (s : S) (l : List A) :
    foldO f s (l.flatMap g) = foldO (fun s a => foldO f s (g a)) s l := by
  induction l generalizing s with
  | nil => rfl
  | cons a l ih =>
    simp only [List.flatMap_cons, foldO_append, foldO]
    cases foldO f s (g a) with
    | none => rfl
    | some t => exact ih t

theorem importAll_eq (w : World) (st : St) (ms : List Mod) :
    importAll w st ms = foldO (execOk w) st (ms.flatMap expand) := by
  rw [foldO_flatMap]
  unfold importAll
  congr 1
  funext s a
  exact importOk_eq w s a

/-- importing the same modules in another order: succeeds as well and reaches an equivalent process state -/
theorem importAll_perm (w : World) {ms ms' : List Mod} (hp : ms.Perm ms') (st st' s : St) (h : StEq st st')
    (hs : importAll w st ms = some s) : ∃ s', importAll w st' ms' = some s' ∧ StEq s s' := by
  rw [importAll_eq] at hs ⊢
  exact execs_perm w (hp.flatMap_right expand) st st' s h hs

end ForML.Bank
