/-
C03 — helper lemmas, part 6: `build(builder)` of `wrap.Operator.compose`.

`groups` is the local dict `id(builder) ↦ prototype worker`.  A builder seen for the first time gets a new group
(the prototype), the returned worker is a fork of it and — when the actor is stateful — a further fork is trained
on `(left.train, label publisher)`; a builder seen again yields a fork of the existing group, which is `derived`
when stateful, so nothing more is trained.
-/
import ForML.Lemmas.C03Ops

namespace ForML.Compose

/-- what is recorded about a freshly built, not yet subscribed worker -/
structure Built (gL : Graph) (lt : PubRef) (g : Graph) (w : WRef) (lp : PubRef) : Prop where
  uid_ge : gL.next ≤ w.uid
  uid_lt : w.uid < g.next
  gid_lt : w.gid < g.next
  gid_ge : gL.next ≤ w.gid
  kind : g.kindOf w.uid = some (.worker w.gid w.actor 1 1)
  free : ∀ k, g.inputOf w.uid k = none
  trained : w.actor.stateful = true → ∃ t, g.trainerOf w.gid = some t ∧ t.train = lt ∧ t.label = lp

theorem Built.frame {gL lt g g' w lp} (h : Built gL lt g w lp) (hf : Frame g g') : Built gL lt g' w lp := by
  have := hf.next_le
  refine ⟨h.uid_ge, by have := h.uid_lt; omega, by have := h.gid_lt; omega, h.gid_ge, ?_, ?_, ?_⟩
  · rw [hf.kind _ h.uid_lt]; exact h.kind
  · intro k; rw [hf.input _ _ h.uid_lt]; exact h.free k
  · intro hs
    rw [hf.trainer _ h.gid_lt]
    exact h.trained hs

structure GroupOk (gL : Graph) (lt : PubRef) (lpOf : Nat → PubRef) (g : Graph) (e : Nat × WRef) : Prop where
  tag : e.2.actor.tag = e.1
  szin : e.2.szin = 1
  szout : e.2.szout = 1
  gid_ge : gL.next ≤ e.2.gid
  gid_lt : e.2.gid < g.next
  trained : e.2.actor.stateful = true →
    ∃ t, g.trainerOf e.2.gid = some t ∧ t.node < g.next ∧ t.train = lt ∧ t.label = lpOf e.1

def GroupsOk (gL : Graph) (lt : PubRef) (lpOf : Nat → PubRef) (g : Graph) (groups : List (Nat × WRef)) : Prop :=
  ∀ e ∈ groups, GroupOk gL lt lpOf g e

theorem GroupOk.frame {gL lt lpOf g g' e} (h : GroupOk gL lt lpOf g e) (hf : Frame g g') : GroupOk gL lt lpOf g' e := by
  have := hf.next_le
  refine ⟨h.tag, h.szin, h.szout, h.gid_ge, by have := h.gid_lt; omega, ?_⟩
  intro hs
  obtain ⟨t, h1, h2, h3, h4⟩ := h.trained hs
  exact ⟨t, by rw [hf.trainer _ h.gid_lt]; exact h1, by omega, h3, h4⟩

theorem GroupsOk.frame {gL lt lpOf g g' groups} (h : GroupsOk gL lt lpOf g groups) (hf : Frame g g') :
    GroupsOk gL lt lpOf g' groups := fun e he => (h e he).frame hf

theorem GroupsOk.congr {gL lt lpOf lpOf' g groups} (h : GroupsOk gL lt lpOf g groups)
    (hc : ∀ e ∈ groups, lpOf e.1 = lpOf' e.1) : GroupsOk gL lt lpOf' g groups := by
  intro e he
  have := h e he
  refine ⟨this.tag, this.szin, this.szout, this.gid_ge, this.gid_lt, ?_⟩
  intro hs
  obtain ⟨t, h1, h2, h3, h4⟩ := this.trained hs
  exact ⟨t, h1, h2, h3, by rw [← hc e he]; exact h4⟩

theorem lookup_mem {β} : ∀ (l : List (Nat × β)) (k : Nat) (v : β), l.lookup k = some v → (k, v) ∈ l := by
  intro l
  induction l with
  | nil => intro k v h; simp [List.lookup] at h
  | cons x xs ih =>
    intro k v h
    obtain ⟨k', v'⟩ := x
    by_cases hk : k = k'
    · subst hk
      simp [List.lookup] at h
      subst h
      exact List.mem_cons_self
    · have : (k == k') = false := by simpa using hk
      simp only [List.lookup, this] at h
      exact List.mem_cons_of_mem _ (ih k v h)

/-! ### the three results of `build` as pure functions of the dict -/

def buildGroups (groups : List (Nat × WRef)) (a : Actor) (n : Nat) : List (Nat × WRef) :=
  match groups.lookup a.tag with
  | some _ => groups
  | none => groups ++ [(a.tag, ⟨n, n + 1, a, 1, 1⟩)]

def buildActor (groups : List (Nat × WRef)) (a : Actor) : Actor :=
  match groups.lookup a.tag with
  | some p => p.actor
  | none => a

def buildTrains (groups : List (Nat × WRef)) (a : Actor) (n : Nat) (lt lp : PubRef) : List Training :=
  match groups.lookup a.tag with
  | some _ => []
  | none => if a.stateful then [⟨n + 1, n + 3, a, lt, lp⟩] else []

theorem build_spec {gL g : Graph} (hb : Bounded g) (hfL : Frame gL g) (lt lp : PubRef) (lpOf : Nat → PubRef)
    (groups : List (Nat × WRef)) (a : Actor) (hG : GroupsOk gL lt lpOf g groups)
    (hlp : groups.lookup a.tag = none → lp = lpOf a.tag) :
    ∃ w g', Run (build groups a lt lp) g (w, buildGroups groups a g.next) g' ∧ Bounded g' ∧ Frame g g' ∧
      g.next + 3 ≤ g'.next ∧ g'.next ≤ g.next + 4 ∧
      Built gL lt g' w (lpOf a.tag) ∧ g.next ≤ w.uid ∧ w.actor = buildActor groups a ∧
      GroupsOk gL lt lpOf g' (buildGroups groups a g.next) ∧
      g'.trains = g.trains ++ buildTrains groups a g.next lt lp ∧
      (∀ u k, g'.inputOf u k = g.inputOf u k) ∧ (Wired g → Wired g') := by
  have hgL := hfL.next_le
  have hk0 : ∀ u, g.next ≤ u → g.kindOf u = none := fun u hu => hb.kindOf_none hu
  have hin0 : ∀ u k, g.next ≤ u → g.inputOf u k = none := fun u k hu => hb.inputOf_none hu k
  have htr0 : ∀ u, g.next ≤ u → g.trainerOf u = none := fun u hu => hb.trainerOf_none hu
  let g1 := g.bump.bump.pushNode ⟨g.next, .worker (g.next + 1) a 1 1⟩
  have hb1 : Bounded g1 := hb.bump.bump.pushNode _ (by gnext) (by intro _ _ _ _ h; cases h; gnext)
  have hf1 : Frame g g1 := (Frame.refl g).bump.bump.pushNode _ (Nat.le_refl _)
  cases hlk : groups.lookup a.tag with
  | none =>
    let w : WRef := ⟨g.next + 2, g.next + 1, a, 1, 1⟩
    let g2 := g1.bump.pushNode ⟨g.next + 2, .worker (g.next + 1) a 1 1⟩
    have hb2 : Bounded g2 := hb1.bump.pushNode _ (by gnext) (by intro _ _ _ _ h; cases h; gnext)
    have hf2 : Frame g g2 := hf1.bump.pushNode _ (by gnext)
    have hany : g2.trains.any (fun t => t.gid == w.gid && t.node != w.uid) = false := by
      apply List.any_eq_false.mpr
      intro t ht
      have : t.gid < g.next := hb.trainsLt t ht
      have : ¬ t.gid = g.next + 1 := by omega
      simp [w, this]
    let c := w.actor.stateful && !(w.actor.stateful && g2.trains.any (fun t => t.gid == w.gid && t.node != w.uid))
    have hc : c = a.stateful := by simp [c, hany, w]
    let g3 := trainIf c w lt lp g2
    have hn2 : g2.next = g.next + 3 := rfl
    have hn3 : g3.next = g.next + 3 + (if c then 1 else 0) := trainIf_next _ _ _ _ _
    have hb3 : Bounded g3 := trainIf_bounded hb2 (by show g.next + 1 < g2.next; omega)
    have hf3 : Frame g g3 := trainIf_frame hf2 (by show g.next ≤ g.next + 1; omega)
    have hrun : Run (build groups a lt lp) g (w, groups ++ [(a.tag, ⟨g.next, g.next + 1, a, 1, 1⟩)]) g3 := by
      unfold build
      refine Run.bind (run_newWorker a 1 1 g) ?_
      simp only [hlk]
      refine Run.bind (run_fork _ g1) (Run.bind (run_derived w g2) ?_)
      refine run_trainIf c w lt lp g2 _ _ g3 ?_ ?_ (Run.pure _ _)
      · intro h; rw [hc] at h; exact h
      · intro _
        show g2.trainerOf (g.next + 1) = none
        glook [htr0]
    have hT : c = true → g3.trainerOf (g.next + 1) = some ⟨g.next + 1, g.next + 3, a, lt, lp⟩ := by
      intro hct
      show (trainIf c w lt lp g2).trainerOf _ = _
      rw [trainIf_trainerOf]
      have : g2.trainerOf (g.next + 1) = none := by glook [htr0]
      rw [this]
      simp [hct, w]
      rfl
    refine ⟨w, g3, ?_, hb3, hf3, by rw [hn3]; omega, by rw [hn3]; split <;> omega, ?_, by show g.next ≤ g.next + 2; omega,
      by simp [buildActor, hlk, w], ?_, ?_, ?_, ?_⟩
    · simpa [buildGroups, hlk] using hrun
    · refine ⟨by show gL.next ≤ g.next + 2; omega, by rw [hn3]; show g.next + 2 < _; omega,
        by rw [hn3]; show g.next + 1 < _; omega, by show gL.next ≤ g.next + 1; omega, ?_, ?_, ?_⟩
      · show (trainIf c w lt lp g2).kindOf (g.next + 2) = _
        rw [trainIf_kindOf _ (by rw [hn2]; omega)]
        glook [hk0]
      · intro k
        show (trainIf c w lt lp g2).inputOf (g.next + 2) k = none
        rw [trainIf_inputOf]
        glook [hin0]
      · intro hs
        have hct : c = true := by rw [hc]; exact hs
        exact ⟨_, hT hct, rfl, hlp hlk⟩
    · intro e he
      simp only [buildGroups, hlk, List.mem_append, List.mem_singleton] at he
      rcases he with he | he
      · exact (hG e he).frame hf3
      · subst he
        refine ⟨rfl, rfl, rfl, by show gL.next ≤ g.next + 1; omega, by rw [hn3]; show g.next + 1 < _; omega, ?_⟩
        intro hs
        have hct : c = true := by rw [hc]; exact hs
        refine ⟨_, hT hct, ?_, rfl, hlp hlk⟩
        rw [hn3]; simp [hct]
    · show (trainIf c w lt lp g2).trains = _
      rw [trainIf_trains]
      show g.trains ++ _ = _
      simp only [buildTrains, hlk, hc]
      rfl
    · intro u k
      show (trainIf c w lt lp g2).inputOf u k = _
      rw [trainIf_inputOf]
      rfl
    · intro hw
      exact trainIf_wired ((hw.bump.bump.pushNode _).bump.pushNode _)
  | some p =>
    have hp := hG _ (lookup_mem _ _ _ hlk)
    have hpg : p.gid < g.next := hp.gid_lt
    let w : WRef := { p with uid := g.next + 2 }
    let g2 := g1.bump.pushNode ⟨g.next + 2, .worker p.gid p.actor p.szin p.szout⟩
    have hb2 : Bounded g2 := hb1.bump.pushNode _ (by gnext)
      (by intro _ _ _ _ h; cases h; gnext)
    have hf2 : Frame g g2 := hf1.bump.pushNode _ (by gnext)
    let c := w.actor.stateful && !(w.actor.stateful && g2.trains.any (fun t => t.gid == w.gid && t.node != w.uid))
    have hc : c = false := by
      by_cases hs : p.actor.stateful = true
      · obtain ⟨t, h1, h2, _, _⟩ := hp.trained hs
        have h1' : g.trains.find? (fun t => t.gid == p.gid) = some t := h1
        have h2' : t.node < g.next := h2
        have hmem : t ∈ g.trains := List.mem_of_find?_eq_some h1'
        have hgid : (t.gid == p.gid) = true := by
          have := List.find?_some (p := fun t : Training => t.gid == p.gid) h1'
          exact this
        have hany : g2.trains.any (fun t => t.gid == w.gid && t.node != w.uid) = true := by
          apply List.any_eq_true.mpr
          refine ⟨t, hmem, ?_⟩
          have : ¬ t.node = g.next + 2 := by omega
          simp [w, hgid, this]
        simp [c, hany]
      · have : p.actor.stateful = false := by simpa using hs
        simp [c, w, this]
    have hrun : Run (build groups a lt lp) g (w, groups) g2 := by
      unfold build
      refine Run.bind (run_newWorker a 1 1 g) ?_
      simp only [hlk]
      refine Run.bind (run_fork p g1) (Run.bind (run_derived w g2) ?_)
      have := run_trainIf c w lt lp g2 (fun _ => (pure (w, groups) : GraphM (WRef × List (Nat × WRef)))) (w, groups) g2
        (by intro h; rw [hc] at h; cases h) (by intro h; rw [hc] at h; cases h) (by rw [hc]; exact Run.pure _ _)
      exact this
    refine ⟨w, g2, ?_, hb2, hf2, by show g.next + 3 ≤ g.next + 1 + 1 + 1; omega, by show g.next + 1 + 1 + 1 ≤ _; omega, ?_,
      by show g.next ≤ g.next + 2; omega, by simp [buildActor, hlk, w], ?_, ?_, fun u k => rfl,
      fun hw => (hw.bump.bump.pushNode _).bump.pushNode _⟩
    · simpa [buildGroups, hlk] using hrun
    · refine ⟨by show gL.next ≤ g.next + 2; omega, by show g.next + 2 < g.next + 1 + 1 + 1; omega,
        by show p.gid < g.next + 1 + 1 + 1; omega, hp.gid_ge, ?_, ?_, ?_⟩
      · show g2.kindOf (g.next + 2) = some (.worker p.gid p.actor 1 1)
        have e1 := hp.szin
        have e2 := hp.szout
        simp only at e1 e2
        glook [hk0, e1, e2]
      · intro k
        show g2.inputOf (g.next + 2) k = none
        glook [hin0]
      · intro hs
        obtain ⟨t, h1, _, h3, h4⟩ := hp.trained hs
        refine ⟨t, ?_, h3, h4⟩
        rw [hf2.trainer _ hpg]
        exact h1
    · simp only [buildGroups, hlk]
      exact hG.frame hf2
    · simp [buildTrains, hlk, g2, g1]

end ForML.Compose
