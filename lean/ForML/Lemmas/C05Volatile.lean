/-
Helper lemmas for C05, volatile registry: the temporary directory holds generations only; project and release
directories appear with the first write / commit, so the frames of the posix lemmas (which assume them) are replaced by
frames over the generation directories.
-/
import ForML.Lemmas.C05Owed
import ForML.Model.RegistryVolatile

namespace ForML.Registry
open ForML.Fs

/-- nothing below any generation directory differs -/
def GenAll (x fs : Fs) : Prop := ∀ p v g key, generationP p v g <+: key → get x key = get fs key

theorem GenAll.frame {x fs : Fs} (h : GenAll x fs) (ex : Nat × Nat × Nat) : GenFrame x fs ex :=
  fun p v g key hk _ => h p v g key hk

theorem GenFrame.trans {x m fs : Fs} {ex : Nat × Nat × Nat} (h1 : GenFrame x m ex) (h2 : GenFrame m fs ex) :
    GenFrame x fs ex := fun p v g key hk hne => (h1 p v g key hk hne).trans (h2 p v g key hk hne)

/-- a dump — complete, raising or interrupted — changes nothing below any generation directory -/
theorem vwrite_tree (fs x : Fs) (p v sid : Nat) (b : Bytes) (hx : CrashTree fs [fun f => writeOps f p v sid b] x) :
    GenAll x fs := by
  intro p' v' g' key hk
  apply single_tree_frame fs x _ key hx
  intro op hop ht
  obtain ⟨r, rfl⟩ := hk
  rcases writeOps_touches_fine fs p v sid b op hop _ ht with h | h | h | h
  · simp [generationP, projectP] at h
  · simp [generationP, releaseP] at h
  · simp [generationP, stageP] at h
  · simp [generationP, stagedStateP] at h

/-- an interrupted / failing commit of generation `g` without the posix assumption that the release directory exists -/
theorem vclose_prefix (impl : Impl) (fs c : Fs) (p v g : Nat) (t : Tag) (A : List Op) (k : Nat) (cut : Option Nat)
    (hA : ∀ op ∈ A, op ∈ closeOps impl fs p v g t) (hAt : ∀ op ∈ A, ¬ touches op (tagP p v g))
    (ht : get fs (tagP p v g) = none) (hc : run fs (crashOps A k cut) = some c) :
    GenFrame c fs (p, v, g) ∧ get c (tagP p v g) = none := by
  have htouch := crashOps_touches A k cut
  constructor
  · intro p' v' g' key hk hne
    apply run_frame _ _ _ _ hc
    intro op hop htk
    obtain ⟨op', hop', himp⟩ := htouch op hop
    obtain ⟨r, rfl⟩ := hk
    rcases closeOps_touches_fine impl fs p v g t op' (hA op' hop') _ (himp _ htk) with h | h | h | ⟨s, _, h⟩
    · simp [generationP, projectP] at h
    · simp [generationP, releaseP] at h
    · simp only [generationP, List.cons_append, List.nil_append, List.cons_prefix_cons, Seg.proj.injEq,
        Seg.rel.injEq, Seg.gen.injEq] at h
      exact hne (by rw [h.1, h.2.1, h.2.2.1])
    · simp [generationP, stagedStateP] at h
  · rw [← ht]
    apply run_frame _ _ _ _ hc
    intro op hop htk
    obtain ⟨op', hop', himp⟩ := htouch op hop
    exact hAt op' hop' (himp _ htk)

theorem vclose_tree (fs x : Fs) (p v ord : Nat) (sids : List Nat) (w : WF fs)
    (hx : CrashTree fs [closeAt ⟨true, true⟩ p v ord sids] x) :
    (GenFrame x fs (p, v, nextGen fs p v) ∧ get x (tagP p v (nextGen fs p v)) = none)
      ∨ FullTree fs [closeAt ⟨true, true⟩ p v ord sids] x := by
  have ht0 : get fs (tagP p v (nextGen fs p v)) = none :=
    tag_absent_of_invalid fs p v _ w (genValid_nextGen fs p v) (nextGen_pos fs p v)
  cases hx with
  | later _ _ _ fs' _ hr hrest =>
    cases hrest
    exact Or.inr (.call fs _ [] x x hr (.done _))
  | here _ _ _ k cut _ hr =>
    simp only [closeAt, atomsAll_closeOps] at hr
    let g := nextGen fs p v
    let t : Tag := ⟨ord, sids⟩
    let A := mkdirP fs (generationP p v g)
        ++ t.sids.map (fun s => Op.rename (stagedStateP p v s) (stateP p v g s))
        ++ [Op.createEmpty (tagTmpP p v g), Op.append (tagTmpP p v g) (encodeTag t)]
    have hsplit : closeOps ⟨true, true⟩ fs p v g t = A ++ [Op.rename (tagTmpP p v g) (tagP p v g)] := by
      simp [closeOps, tagWriteOps, A]
    rw [hsplit, crashOps_snoc A _ (by intro p b h; cases h)] at hr
    split at hr
    · left
      refine vclose_prefix ⟨true, true⟩ fs x p v g t A k cut ?_ ?_ ht0 hr
      · intro op hop; rw [hsplit]; exact List.mem_append_left _ hop
      · apply closePrefix_not_tag
        intro op hop
        simp only [List.mem_cons, List.not_mem_nil, or_false] at hop
        rcases hop with rfl | rfl <;> simp [touches, tagP, tagTmpP]
    · right
      refine .call fs _ [] x x ?_ (.done _)
      simp only [closeAt, atomsAll_closeOps]
      rw [hsplit]; exact hr

theorem GenAll.refl (fs : Fs) : GenAll fs fs := fun _ _ _ _ _ => rfl

theorem GenAll.trans {x m fs : Fs} (h1 : GenAll x m) (h2 : GenAll m fs) : GenAll x fs :=
  fun p v g key hk => (h1 p v g key hk).trans (h2 p v g key hk)

theorem GenAll.valid {x fs : Fs} (h : GenAll x fs) (p v g : Nat) : genValid x p v g = genValid fs p v g := by
  have e1 := h p v g (generationP p v g) (List.prefix_refl _)
  have e2 := h p v g (tagP p v g) (by simp [generationP, tagP])
  simp [genValid, isDir, e1, e2]

theorem GenAll.next {x fs : Fs} (h : GenAll x fs) (p v : Nat) : nextGen x p v = nextGen fs p v :=
  nextGen_congr _ _ _ _ (fun g => h.valid p v g)

/-- the trees a whole training (dumps, then the commit) can leave on the volatile registry's directory: nothing but the
new — still untagged — generation directory differs below the generation directories, or everything completed -/
theorem vtrain_tree (fs0 : Fs) (w0 : WF fs0) (p v ord : Nat) (tsids : List Nat) :
    ∀ (sts : List (Nat × Bytes)) (fs : Fs), WF fs → GenAll fs fs0 → ∀ x,
      CrashTree fs (writeCalls p v sts ++ [closeCall ⟨true, true⟩ p v ord tsids]) x →
      (GenFrame x fs0 (p, v, nextGen fs0 p v) ∧ get x (tagP p v (nextGen fs0 p v)) = none)
        ∨ FullTree fs (writeCalls p v sts ++ [closeCall ⟨true, true⟩ p v ord tsids]) x := by
  have ht0 : get fs0 (tagP p v (nextGen fs0 p v)) = none :=
    tag_absent_of_invalid fs0 p v _ w0 (genValid_nextGen fs0 p v) (nextGen_pos fs0 p v)
  intro sts
  induction sts with
  | nil =>
    intro fs w hga x hx
    have hx' : CrashTree fs [closeAt ⟨true, true⟩ p v ord tsids] x := hx
    show _ ∨ FullTree fs [closeAt ⟨true, true⟩ p v ord tsids] x
    rcases vclose_tree fs x p v ord tsids w hx' with ⟨hf, ht⟩ | hfull
    · left
      rw [hga.next p v] at hf ht
      exact ⟨hf.trans (hga.frame _), ht⟩
    · exact Or.inr hfull
  | cons s r ih =>
    intro fs w hga x hx
    simp only [writeCalls, List.map_cons, List.cons_append] at hx ⊢
    cases hx with
    | here _ _ _ k cut _ hr =>
      left
      have hgx : GenAll x fs := vwrite_tree fs x p v s.1 s.2 (.here fs _ [] k cut x hr)
      refine ⟨(hgx.trans hga).frame _, ?_⟩
      rw [(hgx.trans hga) p v (nextGen fs0 p v) _ (by simp [generationP, tagP])]; exact ht0
    | later _ _ _ fs' _ hr hrest =>
      have hg' : GenAll fs' fs := vwrite_tree fs fs' p v s.1 s.2 (.later fs _ [] fs' fs' hr (.done _))
      rcases ih fs' (run_wf _ _ _ w hr) (hg'.trans hga) x hrest with hq | hfull
      · exact Or.inl hq
      · exact Or.inr (.call fs _ _ fs' x hr hfull)

theorem vwrites_genAll (p v : Nat) : ∀ (sts : List (Nat × Bytes)) (fs m : Fs),
    FullTree fs (writeCalls p v sts) m → GenAll m fs := by
  intro sts
  induction sts with
  | nil => intro fs m h; cases h; exact GenAll.refl _
  | cons s r ih =>
    intro fs m h
    simp only [writeCalls, List.map_cons] at h
    cases h with
    | call _ _ _ fs' _ hr hrest =>
      have hg' : GenAll fs' fs := vwrite_tree fs fs' p v s.1 s.2 (.later fs _ [] fs' fs' hr (.done _))
      exact (ih fs' m hrest).trans hg'

/-- the footprint and the content of a completed training on the volatile registry's directory -/
theorem vtrain_full (fs0 x : Fs) (p v ord : Nat) (sts : List (Nat × Bytes))
    (h : FullTree fs0 (trainCalls ⟨true, true⟩ p v ord sts) x) :
    GenFrame x fs0 (p, v, nextGen fs0 p v)
    ∧ get x (generationP p v (nextGen fs0 p v)) = some .dir
    ∧ get x (tagP p v (nextGen fs0 p v)) = some (.file (encodeTag ⟨ord, sts.map (·.1)⟩))
    ∧ (sts.map (·.1)).Nodup
    ∧ ∀ sb ∈ sts, get x (stateP p v (nextGen fs0 p v) sb.1) = some (.file sb.2) := by
  rw [trainCalls_eq] at h
  obtain ⟨m, hw, hc⟩ := h.append_inv
  have hga := vwrites_genAll p v sts fs0 m hw
  cases hc with
  | call _ _ _ fs' _ hr hrest =>
    cases hrest
    simp only [closeCall, atomsAll_closeOps, hga.next p v] at hr
    obtain ⟨c1, c2, c3, c4⟩ := close_content true m x p v _ _ hr
    refine ⟨?_, c1, c2, c3, ?_⟩
    · have hf : GenFrame x m (p, v, nextGen fs0 p v) := by
        intro p' v' g' key hk hne
        apply run_frame _ _ _ _ hr
        intro op hop htk
        obtain ⟨r, rfl⟩ := hk
        rcases closeOps_touches_fine _ m p v _ _ op hop _ htk with h | h | h | ⟨s, _, h⟩
        · simp [generationP, projectP] at h
        · simp [generationP, releaseP] at h
        · simp only [generationP, List.cons_append, List.nil_append, List.cons_prefix_cons, Seg.proj.injEq,
            Seg.rel.injEq, Seg.gen.injEq] at h
          obtain ⟨rfl, rfl, rfl, _⟩ := h
          exact hne rfl
        · simp [generationP, stagedStateP] at h
      exact hf.trans (hga.frame _)
    · intro sb hsb
      rw [c4 sb.1 (List.mem_map.mpr ⟨sb, hsb, rfl⟩)]
      exact writes_content p v sts fs0 m hw c3 sb hsb

/-- every tree a training can leave on the volatile registry's directory is good; it is quiet or complete -/
theorem vtrain_left (fs x : Fs) (g2 : Good2 fs) (p v ord : Nat) (sts : List (Nat × Bytes))
    (hx : CrashTree fs (trainCalls ⟨true, true⟩ p v ord sts) x) :
    Good2 x ∧ ((GenFrame x fs (p, v, nextGen fs p v) ∧ get x (tagP p v (nextGen fs p v)) = none)
      ∨ FullTree fs (trainCalls ⟨true, true⟩ p v ord sts) x) := by
  have wx := hx.wf g2.good.wf
  have sfx := hx.stateFiles g2.sf (by
    intro c hc f op hop
    rw [trainCalls_eq] at hc
    rcases List.mem_append.mp hc with hc | hc
    · simp only [writeCalls, List.mem_map] at hc
      obtain ⟨s, _, rfl⟩ := hc
      exact writeOps_opSF f p v s.1 s.2 op hop
    · simp only [List.mem_cons, List.not_mem_nil, or_false] at hc; subst hc
      exact closeOps_opSF _ f p v _ _ op hop)
  rw [trainCalls_eq] at hx
  rcases vtrain_tree fs g2.good.wf p v ord _ sts fs g2.good.wf (GenAll.refl _) x hx with ⟨hf, ht⟩ | hfull
  · refine ⟨⟨?_, sfx⟩, Or.inl ⟨hf, ht⟩⟩
    exact good_of_genframe x fs _ hf (by simp [genValid, ht]) (genValid_nextGen fs p v) wx g2.good
  · rw [← trainCalls_eq] at hfull
    obtain ⟨c1, c2, c3, _, c5⟩ := vtrain_full fs x p v ord sts hfull
    refine ⟨⟨good_of_committed x fs p v _ c1 c2 c3 ?_ wx g2.good, sfx⟩, Or.inr hfull⟩
    intro s hs
    obtain ⟨sb, hsb, rfl⟩ := List.mem_map.mp hs
    exact ⟨sb.2, c5 sb hsb⟩

/-! ### the reader's view of the volatile registry -/

def VViewEq (a b : VReg) : Prop := ∀ k, vVis a k = vVis b k

/-- same listing in memory, same content below every generation directory but `ex`: the views agree outside `ex` -/
theorem vVis_frame (a b : VReg) (ex : Nat × Nat × Nat) (harts : a.arts = b.arts) (hf : GenFrame a.fs b.fs ex) :
    ∀ key, ¬ (generationP ex.1 ex.2.1 ex.2.2 <+: key) → vVis a key = vVis b key := by
  intro key hkey
  unfold vVis
  split
  · rename_i p v g
    have hne : (p, v, g) ≠ ex := by
      intro e; apply hkey; rw [← e]; simp [generationP]
    have e1 := hf p v g (generationP p v g) (List.prefix_refl _) hne
    have e2 := hf p v g (tagP p v g) (by simp [generationP, tagP]) hne
    simp [vGenListed, vRelListed, harts, genValid, isDir, e1, e2]
  · rename_i p v g s
    have hne : (p, v, g) ≠ ex := by
      intro e; apply hkey; rw [← e]; simp [generationP]
    have e1 := hf p v g (generationP p v g) (List.prefix_refl _) hne
    have e2 := hf p v g (tagP p v g) (by simp [generationP, tagP]) hne
    have e3 := hf p v g (stateP p v g s) (by simp [generationP, stateP]) hne
    simp [vGenListed, vRelListed, harts, genValid, isDir, tagOf, e1, e2, e3]
  · rfl

/-- a generation without a tag is not seen at all -/
theorem vVis_hidden (a : VReg) (p v g : Nat) (ht : get a.fs (tagP p v g) = none) :
    ∀ key, generationP p v g <+: key → vVis a key = none := by
  intro key hkey
  unfold vVis
  split
  · rename_i p' v' g'
    simp only [generationP, List.cons_prefix_cons, Seg.proj.injEq, Seg.rel.injEq, Seg.gen.injEq] at hkey
    obtain ⟨rfl, rfl, rfl, _⟩ := hkey
    simp [vGenListed, genValid, ht]
  · rename_i p' v' g' s
    simp only [generationP, List.cons_prefix_cons, Seg.proj.injEq, Seg.rel.injEq, Seg.gen.injEq] at hkey
    obtain ⟨rfl, rfl, rfl, _⟩ := hkey
    simp [vGenListed, genValid, ht]
  · rfl

/-! ### histories on the volatile registry -/

/-- generation directories with a tag exist only under listed releases -/
def GensListed (st : VReg) : Prop := ∀ p v g, genValid st.fs p v g = true → vRelListed st p v = true

structure VGood (st : VReg) : Prop where
  g2 : Good2 st.fs
  listed : GensListed st

theorem vTrainGuard_none (st : VReg) (p v : Nat) (h : vTrainGuard st p v = none) : vRelListed st p v = true := by
  unfold vTrainGuard at h
  split at h
  · rename_i hc; simp only [Bool.and_eq_true] at hc; exact hc.2
  · cases h

theorem mem_vReleasesOf (st : VReg) (p w : Nat) : w ∈ vReleasesOf st p ↔ vRelListed st p w = true := by
  simp only [vReleasesOf, vRelListed, List.mem_filterMap, List.contains_iff_mem]
  constructor
  · rintro ⟨e, he, h⟩
    split at h
    · rename_i hp; cases h; obtain ⟨e1, e2⟩ := e; simp only at hp; subst hp; exact he
    · cases h
  · intro h; exact ⟨(p, w), h, by simp⟩

theorem vPublishGuard_none (st : VReg) (dp name v : Nat) (h : vPublishGuard Impl.repaired st dp name v = none) :
    dp = name ∧ ∀ w ∈ vReleasesOf st name, w < v := by
  simp only [vPublishGuard, Impl.repaired, Bool.true_and] at h
  by_cases hn : name = dp
  · subst hn
    refine ⟨rfl, ?_⟩
    intro w hw
    simp only [bne_self_eq_false, Bool.false_eq_true, if_false] at h
    have hl : vProjListed st name = true := by
      have := (mem_vReleasesOf st name w).mp hw
      simp only [vRelListed, List.contains_iff_mem] at this
      simp only [vProjListed, List.any_eq_true]
      exact ⟨(name, w), this, by simp⟩
    obtain ⟨m, hm, hle⟩ := le_maxOf _ w hw
    simp only [hl, if_true, hm] at h
    split at h
    · cases h
    · split at h
      · omega
      · cases h
  · have : (name != dp) = true := by simp [hn]
    simp [this] at h

/-- one step on a good volatile registry -/
theorem vExec_good (st : VReg) (gd : VGood st) (s : Step) : VGood (vExec Impl.repaired st s).st := by
  cases s with
  | publish dp name v pkg =>
    simp only [vExec]
    split
    · exact gd
    · refine ⟨gd.g2, ?_⟩
      intro p' v' g' hv
      have := gd.listed p' v' g' hv
      simp only [vRelListed, List.contains_iff_mem] at this ⊢
      split
      · exact this
      · exact List.mem_append_left _ this
  | train p v ord sts =>
    simp only [vExec]
    split
    · exact gd
    · rename_i hg
      have hl := vTrainGuard_none st p v hg
      have htree : CrashTree st.fs (trainCalls Impl.repaired p v ord sts) (runCalls st.fs (trainCalls Impl.repaired p v ord sts)).fs :=
        runCalls_tree _ _
      obtain ⟨g2x, hcase⟩ := vtrain_left st.fs _ gd.g2 p v ord sts htree
      refine ⟨g2x, ?_⟩
      intro p' v' g' hv
      show vRelListed st p' v' = true
      have hf : GenFrame (runCalls st.fs (trainCalls Impl.repaired p v ord sts)).fs st.fs (p, v, nextGen st.fs p v) := by
        rcases hcase with ⟨hf, _⟩ | hfull
        · exact hf
        · exact (vtrain_full st.fs _ p v ord sts hfull).1
      by_cases hne : (p', v', g') = (p, v, nextGen st.fs p v)
      · cases hne; exact hl
      · rw [genValid_of_frame _ _ _ hf p' v' g' hne] at hv
        exact gd.listed p' v' g' hv

theorem vEmpty_good : VGood VReg.empty :=
  ⟨empty_good2, by intro p v g h; simp [VReg.empty, genValid, isDir, Fs.empty, Fs.get, generationP] at h⟩

theorem vPlay_good_from (steps : List Step) : ∀ st, VGood st → VGood (vPlay Impl.repaired st steps) := by
  induction steps with
  | nil => intro st g; exact g
  | cons s r ih => intro st g; exact ih _ (vExec_good st g s)

theorem vPlay_good (steps : List Step) : VGood (vPlay Impl.repaired VReg.empty steps) :=
  vPlay_good_from steps _ vEmpty_good

theorem vPlay_append (impl : Impl) (st : VReg) (a b : List Step) :
    vPlay impl st (a ++ b) = vPlay impl (vPlay impl st a) b := by
  induction a generalizing st with
  | nil => rfl
  | cons s r ih => simp only [List.cons_append, vPlay]; exact ih _

/-- what a step on the volatile registry does to the reader's view: nothing (it raised, or was a refused publish), a
new release without generations, or exactly one new generation -/
theorem vExec_view (st : VReg) (gd : VGood st) (s : Step) :
    let o := vExec Impl.repaired st s
    (o.err ≠ none → VViewEq o.st st ∧ o.st.arts = st.arts) ∧
    (o.err = none → match s with
      | .publish dp name v _ =>
        dp = name ∧ (∀ w ∈ vReleasesOf st name, w < v) ∧ vRelListed st name v = false ∧ vRelListed o.st name v = true
          ∧ o.st.fs = st.fs ∧ (∀ p' v', (p', v') ≠ (name, v) → vRelListed o.st p' v' = vRelListed st p' v')
          ∧ (∀ g, vGenListed o.st name v g = false) ∧ VViewEq o.st st
      | .train p v ord sts =>
        vRelListed st p v = true ∧ o.st.arts = st.arts
          ∧ vGenListed o.st p v (nextGen st.fs p v) = true
          ∧ tagOf o.st.fs p v (nextGen st.fs p v) = some ⟨ord, sts.map (·.1)⟩
          ∧ (sts.map (·.1)).Nodup
          ∧ (∀ sb ∈ sts, vVis o.st (stateP p v (nextGen st.fs p v) sb.1) = some (.file sb.2))
          ∧ (∀ key, ¬ (generationP p v (nextGen st.fs p v) <+: key) → vVis o.st key = vVis st key)) := by
  intro o
  cases s with
  | publish dp name v pkg =>
    cases hg : vPublishGuard Impl.repaired st dp name v with
    | some e =>
      have ho : o = ⟨st, [], some e⟩ := by show vExec _ _ _ = _; simp [vExec, hg]
      rw [ho]
      exact ⟨fun _ => ⟨fun _ => rfl, rfl⟩, fun h => by cases h⟩
    | none =>
      have ho : o = ⟨{ st with arts := if st.arts.contains (name, v) then st.arts else st.arts ++ [(name, v)] }, [], none⟩ := by
        show vExec _ _ _ = _; simp [vExec, hg]
      rw [ho]
      refine ⟨fun h => absurd rfl h, fun _ => ?_⟩
      obtain ⟨hdp, hmono⟩ := vPublishGuard_none st dp name v hg
      have hnl : vRelListed st name v = false := by
        cases hl : vRelListed st name v with
        | false => rfl
        | true => have := hmono v ((mem_vReleasesOf st name v).mpr hl); omega
      have hnc : st.arts.contains (name, v) = false := hnl
      simp only [hnc, Bool.false_eq_true, if_false]
      have hnew : vRelListed { st with arts := st.arts ++ [(name, v)] } name v = true := by
        simp [vRelListed]
      have hoth : ∀ p' v', (p', v') ≠ (name, v) →
          vRelListed { st with arts := st.arts ++ [(name, v)] } p' v' = vRelListed st p' v' := by
        intro p' v' hne
        by_cases hin : (p', v') ∈ st.arts
        · simp [vRelListed, hin]
        · simp [vRelListed, hin, hne]
      have hnog : ∀ g, vGenListed { st with arts := st.arts ++ [(name, v)] } name v g = false := by
        intro g
        cases hv : genValid st.fs name v g with
        | false => simp [vGenListed, hv]
        | true => have := gd.listed name v g hv; rw [hnl] at this; cases this
      refine ⟨hdp, hmono, hnl, hnew, by first | rfl | trivial, hoth, hnog, ?_⟩
      intro key
      unfold vVis
      split
      · rename_i p' v' g'
        by_cases hne : (p', v') = (name, v)
        · cases hne
          have h1 := hnog g'
          have h2 : vGenListed st name v g' = false := by simp [vGenListed, hnl]
          simp only [h1, h2, Bool.false_eq_true, if_false]
        · simp [vGenListed, hoth p' v' hne]
      · rename_i p' v' g' s
        by_cases hne : (p', v') = (name, v)
        · cases hne
          have h1 := hnog g'
          have h2 : vGenListed st name v g' = false := by simp [vGenListed, hnl]
          simp only [h1, h2, Bool.false_and, Bool.false_eq_true, if_false]
        · simp [vGenListed, hoth p' v' hne]
      · rfl
  | train p v ord sts =>
    cases hg : vTrainGuard st p v with
    | some e =>
      have ho : o = ⟨st, [], some e⟩ := by show vExec _ _ _ = _; simp [vExec, hg]
      rw [ho]
      exact ⟨fun _ => ⟨fun _ => rfl, rfl⟩, fun h => by cases h⟩
    | none =>
      have hl := vTrainGuard_none st p v hg
      have ho : o = ⟨{ st with fs := (runCalls st.fs (trainCalls Impl.repaired p v ord sts)).fs },
          (runCalls st.fs (trainCalls Impl.repaired p v ord sts)).calls,
          (runCalls st.fs (trainCalls Impl.repaired p v ord sts)).err⟩ := by
        show vExec _ _ _ = _; simp [vExec, hg]
      rw [ho]
      have htree : CrashTree st.fs (trainCalls Impl.repaired p v ord sts) (runCalls st.fs (trainCalls Impl.repaired p v ord sts)).fs :=
        runCalls_tree _ _
      have ht0 : get st.fs (tagP p v (nextGen st.fs p v)) = none :=
        tag_absent_of_invalid st.fs p v _ gd.g2.good.wf (genValid_nextGen st.fs p v) (nextGen_pos st.fs p v)
      constructor
      · intro herr
        refine ⟨?_, rfl⟩
        rcases (vtrain_left st.fs _ gd.g2 p v ord sts htree).2 with ⟨hf, ht⟩ | hfull
        · intro key
          by_cases hkey : generationP p v (nextGen st.fs p v) <+: key
          · rw [vVis_hidden _ p v _ ht key hkey, vVis_hidden st p v _ ht0 key hkey]
          · exact vVis_frame ({ st with fs := (runCalls st.fs (trainCalls Impl.repaired p v ord sts)).fs } : VReg) st
              (p, v, nextGen st.fs p v) rfl hf key hkey
        · exact absurd hfull.runCalls.1 herr
      · intro herr
        have hfull := runCalls_full _ st.fs herr
        obtain ⟨c1, c2, c3, c4, c5⟩ := vtrain_full st.fs _ p v ord sts hfull
        have hgl : vGenListed { st with fs := (runCalls st.fs (trainCalls Impl.repaired p v ord sts)).fs } p v
            (nextGen st.fs p v) = true := by
          have : vRelListed { st with fs := (runCalls st.fs (trainCalls Impl.repaired p v ord sts)).fs } p v = true := hl
          simp [vGenListed, this, genValid, isDir, c2, c3, nextGen_pos]
        have htag : tagOf (runCalls st.fs (trainCalls Impl.repaired p v ord sts)).fs p v (nextGen st.fs p v)
            = some ⟨ord, sts.map (·.1)⟩ := by simp [tagOf, c3, decode_encode]
        refine ⟨hl, rfl, hgl, htag, c4, ?_, fun key hkey => vVis_frame
          ({ st with fs := (runCalls st.fs (trainCalls Impl.repaired p v ord sts)).fs } : VReg) st
          (p, v, nextGen st.fs p v) rfl c1 key hkey⟩
        intro sb hsb
        have hin : (sts.map (·.1)).contains sb.1 = true := by
          simp only [List.contains_iff_mem]; exact List.mem_map.mpr ⟨sb, hsb, rfl⟩
        simp only [vVis, stateP, hgl, htag, hin, Bool.and_self, if_true]
        exact c5 sb hsb

/-- one more step never changes or removes anything a reader of the volatile registry could see -/
theorem vExec_append_only (st : VReg) (gd : VGood st) (s : Step) (key : Path) (n : Node)
    (hvis : vVis st key = some n) : vVis (vExec Impl.repaired st s).st key = some n := by
  have hv := vExec_view st gd s
  cases herr : (vExec Impl.repaired st s).err with
  | some e =>
    rw [(hv.1 (by rw [herr]; simp)).1 key]; exact hvis
  | none =>
    have h2 := hv.2 herr
    cases s with
    | publish dp name v pkg =>
      simp only at h2
      rw [h2.2.2.2.2.2.2.2 key]; exact hvis
    | train p v ord sts =>
      simp only at h2
      have ht0 : get st.fs (tagP p v (nextGen st.fs p v)) = none :=
        tag_absent_of_invalid st.fs p v _ gd.g2.good.wf (genValid_nextGen st.fs p v) (nextGen_pos st.fs p v)
      have hkey : ¬ generationP p v (nextGen st.fs p v) <+: key := by
        intro hk; rw [vVis_hidden st p v _ ht0 key hk] at hvis; cases hvis
      rw [h2.2.2.2.2.2.2 key hkey]; exact hvis

end ForML.Registry
