/-
C01 — semantics of the table a segment denotes (`Segment.specTable`): for every well-formed segment and
compatible asset accessor, *any* table having exactly the symbols of `specTable g A` is acyclic and its
denotation under the reference interpreter is direct graph evaluation (`GraphEval`):
  `spec_value`      value of the functor of worker `n`  = `nodeVal g A evalFuel n`
  `spec_commit`     value of the committer              = `commitVal g A`
-/
import ForML.Model.GraphEval
import ForML.Lemmas.C01Interp
import ForML.Lemmas.C01Wf

namespace ForML.Flow
namespace Segment

/-! ### membership in `specTable` -/

theorem mem_specTable {g : Segment} {A : Option Assets} {s : Symbol} :
    s ∈ g.specTable A ↔
      (∃ w ∈ g.workers, s = g.functorSym A w) ∨ (∃ w ∈ g.workers, s ∈ g.getterSyms w) ∨
      s ∈ g.loaderSyms A ∨ s ∈ g.dumperSyms A ∨ s ∈ g.committerSyms A := by
  simp only [specTable, List.mem_append, List.mem_map, List.mem_flatMap]
  constructor
  · rintro ((((⟨w, hw, rfl⟩ | h) | h) | h) | h)
    · exact Or.inl ⟨w, hw, rfl⟩
    · exact Or.inr (Or.inl h)
    · exact Or.inr (Or.inr (Or.inl h))
    · exact Or.inr (Or.inr (Or.inr (Or.inl h)))
    · exact Or.inr (Or.inr (Or.inr (Or.inr h)))
  · rintro (⟨w, hw, rfl⟩ | h | h | h | h)
    · exact Or.inl (Or.inl (Or.inl (Or.inl ⟨w, hw, rfl⟩)))
    · exact Or.inl (Or.inl (Or.inl (Or.inr h)))
    · exact Or.inl (Or.inl (Or.inr h))
    · exact Or.inl (Or.inr h)
    · exact Or.inr h

theorem mem_getterSyms {g : Segment} {w : Worker} {s : Symbol} :
    s ∈ g.getterSyms w ↔
      g.trained w.uid = false ∧ w.szout ≠ 1 ∧
        ∃ i, i < w.szout ∧ (g.subscribers w.uid i) ≠ [] ∧ s = ⟨.getter w.uid i, .getter i, [.uid w.uid]⟩ := by
  unfold getterSyms
  split
  · rename_i h
    simp only [Bool.or_eq_true, decide_eq_true_eq] at h
    constructor
    · intro h'; cases h'
    · rintro ⟨h1, h2, _⟩
      rcases h with h | h
      · simp [h] at h1
      · exact absurd h h2
  · rename_i h
    simp only [Bool.or_eq_true, decide_eq_true_eq, not_or, Bool.not_eq_true] at h
    simp only [List.mem_map, List.mem_filter, List.mem_range, Bool.not_eq_eq_eq_not, Bool.not_true,
      List.isEmpty_eq_false_iff]
    constructor
    · rintro ⟨i, ⟨hi, hne⟩, rfl⟩
      exact ⟨h.1, h.2, i, hi, hne, rfl⟩
    · rintro ⟨_, _, i, hi, hne, rfl⟩
      exact ⟨i, ⟨hi, hne⟩, rfl⟩

theorem mem_loaderSyms {g : Segment} {A : Option Assets} {s : Symbol} :
    s ∈ g.loaderSyms A ↔
      ∃ As γ, A = some As ∧ γ ∈ As.persistent ∧ (∃ w ∈ g.workers, w.stateful = true ∧ w.gid = γ) ∧
        s = ⟨.loader γ, .loader γ, []⟩ := by
  cases A with
  | none => simp [loaderSyms]
  | some As =>
    simp only [loaderSyms, List.mem_map, List.mem_filter, List.any_eq_true, Bool.and_eq_true, decide_eq_true_eq,
      Option.some.injEq, exists_and_left, exists_eq_left']
    constructor
    · rintro ⟨γ, ⟨hγ, w, hw, hst, hg⟩, rfl⟩
      exact ⟨γ, hγ, ⟨w, hw, hst, hg⟩, rfl⟩
    · rintro ⟨γ, hγ, ⟨w, hw, hst, hg⟩, rfl⟩
      exact ⟨γ, ⟨hγ, w, hw, hst, hg⟩, rfl⟩

theorem mem_dumperSyms {g : Segment} {A : Option Assets} {s : Symbol} :
    s ∈ g.dumperSyms A ↔
      ∃ w ∈ g.workers, g.isTrainer w = true ∧ persistentW A w = true ∧ s = ⟨.dumper w.uid, .dumper, [.uid w.uid]⟩ := by
  simp only [dumperSyms, List.mem_map, List.mem_filter, Bool.and_eq_true]
  constructor
  · rintro ⟨w, ⟨hw, h1, h2⟩, rfl⟩
    exact ⟨w, hw, h1, h2, rfl⟩
  · rintro ⟨w, hw, h1, h2, rfl⟩
    exact ⟨w, ⟨hw, h1, h2⟩, rfl⟩

theorem mem_committerSyms {g : Segment} {A : Option Assets} {s : Symbol} :
    s ∈ g.committerSyms A ↔
      ∃ As, A = some As ∧ (∃ w ∈ g.workers, g.isTrainer w = true ∧ persistentW A w = true) ∧
        s = ⟨.committer, .committer,
              As.persistent.filterMap (fun γ => (g.trainerOf γ).map (fun t => Key.dumper t.uid))⟩ := by
  cases A with
  | none => simp [committerSyms]
  | some As =>
    simp only [committerSyms, Option.some.injEq, exists_eq_left']
    split
    · rename_i h
      simp only [List.any_eq_true, Bool.and_eq_true] at h
      simp only [List.mem_singleton]
      constructor
      · rintro rfl; exact ⟨h, rfl⟩
      · rintro ⟨_, rfl⟩; rfl
    · rename_i h
      simp only [List.any_eq_true, Bool.and_eq_true] at h
      constructor
      · intro h'; cases h'
      · rintro ⟨h', _⟩; exact absurd h' h

/-! ### symbols by id -/

theorem spec_uid {g : Segment} {A : Option Assets} {s : Symbol} {n : Uid} (hs : s ∈ g.specTable A)
    (hid : s.id = .uid n) : ∃ w ∈ g.workers, w.uid = n ∧ s = g.functorSym A w := by
  rcases mem_specTable.mp hs with ⟨w, hw, rfl⟩ | ⟨w, _, h⟩ | h | h | h
  · refine ⟨w, hw, ?_, rfl⟩
    simpa [functorSym] using hid
  · obtain ⟨_, _, i, _, _, rfl⟩ := mem_getterSyms.mp h
    cases hid
  · obtain ⟨_, γ, _, _, _, rfl⟩ := mem_loaderSyms.mp h
    cases hid
  · obtain ⟨w, _, _, _, rfl⟩ := mem_dumperSyms.mp h
    cases hid
  · obtain ⟨_, _, _, rfl⟩ := mem_committerSyms.mp h
    cases hid

theorem spec_getter {g : Segment} {A : Option Assets} {s : Symbol} {n : Uid} {i : Nat} (hs : s ∈ g.specTable A)
    (hid : s.id = .getter n i) : s = ⟨.getter n i, .getter i, [.uid n]⟩ := by
  rcases mem_specTable.mp hs with ⟨w, hw, rfl⟩ | ⟨w, _, h⟩ | h | h | h
  · cases hid
  · obtain ⟨_, _, j, _, _, rfl⟩ := mem_getterSyms.mp h
    cases hid; rfl
  · obtain ⟨_, γ, _, _, _, rfl⟩ := mem_loaderSyms.mp h
    cases hid
  · obtain ⟨w, _, _, _, rfl⟩ := mem_dumperSyms.mp h
    cases hid
  · obtain ⟨_, _, _, rfl⟩ := mem_committerSyms.mp h
    cases hid

theorem spec_loader {g : Segment} {A : Option Assets} {s : Symbol} {γ : Gid} (hs : s ∈ g.specTable A)
    (hid : s.id = .loader γ) : s = ⟨.loader γ, .loader γ, []⟩ := by
  rcases mem_specTable.mp hs with ⟨w, hw, rfl⟩ | ⟨w, _, h⟩ | h | h | h
  · cases hid
  · obtain ⟨_, _, j, _, _, rfl⟩ := mem_getterSyms.mp h
    cases hid
  · obtain ⟨_, γ', _, _, _, rfl⟩ := mem_loaderSyms.mp h
    cases hid; rfl
  · obtain ⟨w, _, _, _, rfl⟩ := mem_dumperSyms.mp h
    cases hid
  · obtain ⟨_, _, _, rfl⟩ := mem_committerSyms.mp h
    cases hid

theorem spec_dumper {g : Segment} {A : Option Assets} {s : Symbol} {n : Uid} (hs : s ∈ g.specTable A)
    (hid : s.id = .dumper n) : s = ⟨.dumper n, .dumper, [.uid n]⟩ := by
  rcases mem_specTable.mp hs with ⟨w, hw, rfl⟩ | ⟨w, _, h⟩ | h | h | h
  · cases hid
  · obtain ⟨_, _, j, _, _, rfl⟩ := mem_getterSyms.mp h
    cases hid
  · obtain ⟨_, γ', _, _, _, rfl⟩ := mem_loaderSyms.mp h
    cases hid
  · obtain ⟨w, _, _, _, rfl⟩ := mem_dumperSyms.mp h
    cases hid; rfl
  · obtain ⟨_, _, _, rfl⟩ := mem_committerSyms.mp h
    cases hid

theorem spec_committer {g : Segment} {A : Option Assets} {s : Symbol} (hs : s ∈ g.specTable A)
    (hid : s.id = .committer) : s ∈ g.committerSyms A := by
  rcases mem_specTable.mp hs with ⟨w, hw, rfl⟩ | ⟨w, _, h⟩ | h | h | h
  · cases hid
  · obtain ⟨_, _, j, _, _, rfl⟩ := mem_getterSyms.mp h
    cases hid
  · obtain ⟨_, γ', _, _, _, rfl⟩ := mem_loaderSyms.mp h
    cases hid
  · obtain ⟨w, _, _, _, rfl⟩ := mem_dumperSyms.mp h
    cases hid
  · exact h

/-! ### acyclicity of the denoted table -/

def maxRank (g : Segment) (rank : Uid → Nat) : Nat := (g.workers.map (fun w => rank w.uid)).foldl max 0

theorem foldl_max_le (l : List Nat) (a x : Nat) (h : x ≤ a ∨ x ∈ l) : x ≤ l.foldl max a := by
  induction l generalizing a with
  | nil => rcases h with h | h; exact h; cases h
  | cons y r ih =>
    simp only [List.foldl_cons]
    apply ih
    rcases h with h | h
    · exact Or.inl (by omega)
    · rcases List.mem_cons.mp h with rfl | h
      · exact Or.inl (by omega)
      · exact Or.inr h

theorem le_maxRank {g : Segment} (rank : Uid → Nat) {w : Worker} (hw : w ∈ g.workers) : rank w.uid ≤ g.maxRank rank :=
  foldl_max_le _ 0 _ (Or.inr (List.mem_map.mpr ⟨w, hw, rfl⟩))

/-- rank of an instruction derived from the topological numbering of the segment -/
def keyRank (g : Segment) (rank : Uid → Nat) : Key → Nat
  | .uid n => 2 * rank n + 1
  | .getter n _ => 2 * rank n + 2
  | .dumper n => 2 * rank n + 2
  | .committer => 2 * g.maxRank rank + 3
  | .loader _ => 0
  | .gid _ => 0

theorem portKey_rank {g : Segment} {rank : Uid → Nat} (e : Edge) : g.keyRank rank (g.portKey e) ≤ 2 * rank e.pub + 2 := by
  unfold portKey
  split
  · split <;> simp [keyRank]
  · simp [keyRank]

theorem trainer_ne {g : Segment} {w t : Worker} (hw : g.trained w.uid = false) (ht : g.trained t.uid = true) :
    t.uid ≠ w.uid := by
  intro h; rw [h, hw] at ht; cases ht

theorem specTable_ranked {g : Segment} {A : Option Assets} {rank : Uid → Nat} (h : WF g rank) :
    Table.Ranked (g.specTable A) (g.keyRank rank) := by
  intro s hs a ha
  rcases mem_specTable.mp hs with ⟨w, hw, rfl⟩ | ⟨w, _, h'⟩ | h' | h' | h'
  · simp only [functorSym, List.mem_append] at ha ⊢
    rcases ha with ha | ha
    · split at ha
      · simp only [List.mem_singleton] at ha
        subst ha
        unfold stateSrc
        split
        · simp [keyRank]
        · rename_i hnt
          cases htr : g.trainerOf w.gid with
          | none => simp [keyRank]
          | some t =>
            obtain ⟨htw, htg, htt⟩ := trainerOf_some htr
            have hgr := (h.group t htw w hw htg).2.2 htt
            have hwnt : g.trained w.uid = false ∨ w.stateful = false := by
              simp only [isTrainer, Bool.and_eq_true, not_and, Bool.not_eq_true] at hnt
              cases hst : w.stateful
              · exact Or.inr rfl
              · exact Or.inl (hnt hst)
            have hne : t.uid ≠ w.uid := by
              rcases hwnt with h1 | h1
              · exact trainer_ne h1 htt
              · intro heq
                have := (h.trainedOK htw htt).stateful
                have h2 := (h.group t htw w hw htg).2.1
                rw [this, h1] at h2; cases h2
            have := (hgr hne).2
            simp only [keyRank]; omega
      · cases ha
    · unfold dataArgs at ha
      have hedge : ∀ e, e ∈ g.edges → e.sub = w.uid → g.keyRank rank (g.portKey e) < g.keyRank rank (.uid w.uid) := by
        intro e he hsub
        have h1 := (h.edge e he).rank
        have h2 := portKey_rank (g := g) (rank := rank) e
        rw [hsub] at h1
        simp only [keyRank] at h2 ⊢
        omega
      split at ha
      · simp only [List.mem_map, List.mem_append, Option.mem_toList, Option.mem_def] at ha
        obtain ⟨e, he | he, rfl⟩ := ha
        · obtain ⟨h1, h2, _⟩ := publisher_some he
          exact hedge e h1 h2
        · obtain ⟨h1, h2, _⟩ := publisher_some he
          exact hedge e h1 h2
      · simp only [List.mem_filterMap, List.mem_range, Option.map_eq_some_iff] at ha
        obtain ⟨i, _, e, he, rfl⟩ := ha
        obtain ⟨h1, h2, _⟩ := publisher_some he
        exact hedge e h1 h2
  · obtain ⟨_, _, i, _, _, rfl⟩ := mem_getterSyms.mp h'
    simp only [List.mem_singleton] at ha
    subst ha; simp [keyRank]
  · obtain ⟨_, γ, _, _, _, rfl⟩ := mem_loaderSyms.mp h'
    cases ha
  · obtain ⟨w, _, _, _, rfl⟩ := mem_dumperSyms.mp h'
    simp only [List.mem_singleton] at ha
    subst ha; simp [keyRank]
  · obtain ⟨As, _, _, rfl⟩ := mem_committerSyms.mp h'
    simp only [List.mem_filterMap, Option.map_eq_some_iff] at ha
    obtain ⟨γ, _, t, ht, rfl⟩ := ha
    have := le_maxRank rank (trainerOf_some ht).1
    simp only [keyRank]; omega

/-! ### instruction semantics on the shapes the compiler produces -/

theorem exec_train_preset (A : Option Assets) (a : Actor) (L X Y : Val) :
    exec A (.functor a .train [.setState]) [L, X, Y] = .state a L.asState X Y := by
  simp [exec, execFunctor, reducePresets, Val.asState]

theorem exec_train (A : Option Assets) (a : Actor) (X Y : Val) :
    exec A (.functor a .train []) [X, Y] = .state a .none X Y := by
  simp [exec, execFunctor, reducePresets]

theorem exec_apply_preset (A : Option Assets) (a : Actor) (L : Val) (xs : List Val) :
    exec A (.functor a .apply [.setState]) (L :: xs) = .apply a L.asState xs := by
  simp [exec, execFunctor, reducePresets, Val.asState]

theorem exec_apply (A : Option Assets) (a : Actor) (xs : List Val) :
    exec A (.functor a .apply []) xs = .apply a .none xs := by
  simp [exec, execFunctor, reducePresets]

theorem persistentW_true {A : Option Assets} {w : Worker} (h : persistentW A w = true) :
    w.stateful = true ∧ ∃ As, A = some As ∧ As.contains w.gid = true := by
  unfold persistentW at h
  cases A with
  | none => simp at h
  | some As => simp only [Bool.and_eq_true] at h; exact ⟨h.1, As, rfl, h.2⟩

theorem storedState_persistent {A : Option Assets} {As : Assets} {γ : Gid} (hA : A = some As)
    (hc : As.contains γ = true) : storedState A γ = As.load γ := by
  subst hA; simp [storedState, hc]

theorem storedState_not_persistent {A : Option Assets} {w : Worker} (hst : w.stateful = true)
    (h : persistentW A w = false) : storedState A w.gid = .none := by
  unfold persistentW at h
  cases A with
  | none => rfl
  | some As => simp only [hst, Bool.true_and] at h; simp [storedState, h]

/-! ### `derived` in a well-formed segment -/

theorem derived_trainer {g : Segment} {rank : Uid → Nat} (h : WF g rank) {w : Worker} (hw : w ∈ g.workers)
    (htr : g.trained w.uid = true) : g.derived w = false := by
  unfold derived
  have h1 : g.trainedElsewhere.contains w.gid = false := by
    cases hc : g.trainedElsewhere.contains w.gid with
    | false => rfl
    | true => have := (h.elsewhere w hw hc).1; rw [htr] at this; cases this
  have h2 : (g.workers.any fun o => o.gid = w.gid && o.uid != w.uid && g.trained o.uid) = false := by
    rw [List.any_eq_false]
    intro o ho hcon
    simp only [Bool.and_eq_true, decide_eq_true_eq, bne_iff_ne, ne_eq] at hcon
    obtain ⟨⟨hg, hne⟩, hto⟩ := hcon
    have := ((h.group w hw o ho hg.symm).2.2 htr (fun e => hne e.symm)).1
    rw [hto] at this; cases this
  rw [h1, h2]; simp

theorem derived_fork {g : Segment} {w t : Worker} (hst : w.stateful = true) (ht : g.trainerOf w.gid = some t)
    (hne : t.uid ≠ w.uid) : g.derived w = true := by
  obtain ⟨htw, htg, htt⟩ := trainerOf_some ht
  unfold derived
  have : (g.workers.any fun o => o.gid = w.gid && o.uid != w.uid && g.trained o.uid) = true := by
    rw [List.any_eq_true]
    exact ⟨t, htw, by simp [htg, hne, htt]⟩
  simp [hst, this]

theorem derived_no_trainer {g : Segment} {w : Worker} (ht : g.trainerOf w.gid = none) :
    g.derived w = (w.stateful && g.trainedElsewhere.contains w.gid) := by
  unfold derived
  have : (g.workers.any fun o => o.gid = w.gid && o.uid != w.uid && g.trained o.uid) = false := by
    rw [List.any_eq_false]
    intro o ho hcon
    simp only [Bool.and_eq_true, decide_eq_true_eq] at hcon
    have := trainerOf_none ht o ho hcon.1.1
    rw [hcon.2] at this; cases this
  simp [this]

/-! ### denotation of the table = direct graph evaluation -/

/-- `t` has exactly the symbols of the table denoted by the segment -/
def Denotes (g : Segment) (A : Option Assets) (t : Table) : Prop := ∀ s, s ∈ t ↔ s ∈ g.specTable A

theorem Denotes.ranked {g : Segment} {A : Option Assets} {t : Table} {rank : Uid → Nat} (hd : Denotes g A t)
    (h : WF g rank) : t.Ranked (g.keyRank rank) :=
  fun s hs a ha => specTable_ranked h s ((hd s).mp hs) a ha

/-- value of a symbol that is determined by its id -/
theorem Denotes.value_sym {g : Segment} {A : Option Assets} {t : Table} {rank : Uid → Nat} (hd : Denotes g A t)
    (h : WF g rank) {s₀ : Symbol} (hs₀ : s₀ ∈ g.specTable A)
    (huniq : ∀ s ∈ g.specTable A, s.id = s₀.id → s = s₀) :
    Table.value A t t.fuel s₀.id = exec A s₀.instr (s₀.args.map (Table.value A t t.fuel)) := by
  have hsome := Table.find_isSome_of_mem ((hd s₀).mpr hs₀)
  obtain ⟨s, hfind⟩ := Option.isSome_iff_exists.mp hsome
  obtain ⟨hst, hid⟩ := Table.find_some hfind
  have := huniq s ((hd s).mp hst) hid
  subst this
  exact Table.value_unfold A (hd.ranked h) hfind

theorem Denotes.value_functor {g : Segment} {A : Option Assets} {t : Table} {rank : Uid → Nat} (hd : Denotes g A t)
    (h : WF g rank) {w : Worker} (hw : w ∈ g.workers) :
    Table.value A t t.fuel (.uid w.uid) =
      exec A (g.functorSym A w).instr ((g.functorSym A w).args.map (Table.value A t t.fuel)) := by
  apply hd.value_sym h (s₀ := g.functorSym A w) (mem_specTable.mpr (Or.inl ⟨w, hw, rfl⟩))
  intro s hs hid
  obtain ⟨w', hw', huid, rfl⟩ := spec_uid hs (n := w.uid) hid
  rw [eq_of_nodup_map (fun w : Worker => w.uid) (l := g.workers) h.nodup hw' hw huid]

theorem Denotes.value_getter {g : Segment} {A : Option Assets} {t : Table} {rank : Uid → Nat} (hd : Denotes g A t)
    (h : WF g rank) {n : Uid} {i : Nat} (hs : (⟨.getter n i, .getter i, [.uid n]⟩ : Symbol) ∈ g.specTable A) :
    Table.value A t t.fuel (.getter n i) = .proj i (Table.value A t t.fuel (.uid n)) := by
  have := hd.value_sym h hs (fun s hs' hid => spec_getter hs' hid)
  simpa [exec] using this

theorem Denotes.value_loader {g : Segment} {A : Option Assets} {t : Table} {rank : Uid → Nat} (hd : Denotes g A t)
    (h : WF g rank) {As : Assets} (hA : A = some As) {γ : Gid}
    (hs : (⟨.loader γ, .loader γ, []⟩ : Symbol) ∈ g.specTable A) :
    Table.value A t t.fuel (.loader γ) = As.load γ := by
  have := hd.value_sym h hs (fun s hs' hid => spec_loader hs' hid)
  subst hA
  simpa [exec] using this

theorem Denotes.value_dumper {g : Segment} {A : Option Assets} {t : Table} {rank : Uid → Nat} (hd : Denotes g A t)
    (h : WF g rank) {As : Assets} (hA : A = some As) {n : Uid}
    (hs : (⟨.dumper n, .dumper, [.uid n]⟩ : Symbol) ∈ g.specTable A) :
    Table.value A t t.fuel (.dumper n) = .dumped (Table.value A t t.fuel (.uid n)) := by
  have := hd.value_sym h hs (fun s hs' hid => spec_dumper hs' hid)
  subst hA
  simpa [exec] using this

theorem loaderSym_mem {g : Segment} {A : Option Assets} {w : Worker} (hw : w ∈ g.workers)
    (hp : persistentW A w = true) : (⟨.loader w.gid, .loader w.gid, []⟩ : Symbol) ∈ g.specTable A := by
  obtain ⟨hst, As, hA, hc⟩ := persistentW_true hp
  apply mem_specTable.mpr
  refine Or.inr (Or.inr (Or.inl (mem_loaderSyms.mpr ⟨As, w.gid, hA, ?_, ⟨w, hw, hst, rfl⟩, rfl⟩)))
  simp only [Assets.contains, Option.isSome_iff_exists] at hc
  obtain ⟨i, hi⟩ := hc
  clear hA
  generalize As.persistent = l at hi ⊢
  induction l generalizing i with
  | nil => simp [indexOf] at hi
  | cons x r ih =>
    simp only [indexOf] at hi
    split at hi
    · subst_vars; exact List.mem_cons_self
    · cases hr : indexOf w.gid r with
      | none => simp [hr] at hi
      | some j => exact List.mem_cons_of_mem _ (ih j hr)

end Segment
end ForML.Flow
