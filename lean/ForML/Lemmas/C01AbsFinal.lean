/-
C01 — the absolute linkage after `segment.accept(table)`: no link collision for any visit order, and every slot holds
exactly the link the graph prescribes.
-/
import ForML.Lemmas.C01Links

namespace ForML.Flow
open CState Segment

theorem indexOf_inj {γ γ' : Gid} {l : List Gid} {i : Nat} (h : indexOf γ l = some i) (h' : indexOf γ' l = some i) :
    γ = γ' := by
  induction l generalizing i with
  | nil => simp [indexOf] at h
  | cons x r ih =>
    simp only [indexOf] at h h'
    split at h <;> split at h'
    · subst_vars; rfl
    · cases h
      cases hr : indexOf γ' r <;> simp [hr] at h'
    · cases h'
      cases hr : indexOf γ r <;> simp [hr] at h
    · cases hr : indexOf γ r with
      | none => simp [hr] at h
      | some a =>
        cases hr' : indexOf γ' r with
        | none => simp [hr'] at h'
        | some b =>
          simp only [hr, hr', Option.map_some, Option.some.injEq] at h h'
          exact ih hr (by rw [hr']; congr 1; omega)

/-- inversion of `LinkSpec` -/
theorem linkSpec_inv {g : Segment} {A : Option Assets} {w : Worker} {k : Key} {j : Nat} {a : Key}
    (h : LinkSpec g A w k j a) :
    (k = .dumper w.uid ∧ j = 0 ∧ a = .uid w.uid ∧ g.isTrainer w = true ∧ persistentW A w = true) ∨
    (k = .committer ∧ a = .dumper w.uid ∧ g.isTrainer w = true ∧ persistentW A w = true ∧
      A.bind (·.offset w.gid) = some j) ∨
    (∃ i, k = .getter w.uid i ∧ j = 0 ∧ a = .uid w.uid ∧ g.trained w.uid = false ∧ w.szout ≠ 1 ∧ i < w.szout) ∨
    (∃ e, k = .uid e.sub ∧ j = e.subPort.index ∧ a = (if w.szout = 1 then .uid w.uid else .getter w.uid e.pubPort) ∧
      g.trained w.uid = false ∧ e ∈ g.edges ∧ e.pub = w.uid ∧ e.pubPort < w.szout) := by
  cases h with
  | dumper hT hP => exact Or.inl ⟨rfl, rfl, rfl, hT, hP⟩
  | committer _ hT hP hoff => exact Or.inr (Or.inl ⟨rfl, rfl, hT, hP, hoff⟩)
  | getter i htr hne hi => exact Or.inr (Or.inr (Or.inl ⟨i, rfl, rfl, rfl, htr, hne, hi⟩))
  | edge e htr he hpub hlt => exact Or.inr (Or.inr (Or.inr ⟨e, rfl, rfl, rfl, htr, he, hpub, hlt⟩))

/-- links established by different workers never share a slot -/
theorem linkSpec_disjoint {g : Segment} {A : Option Assets} {rank : Uid → Nat} (h : WF g rank) {w w' : Worker}
    (hw : w ∈ g.workers) (hw' : w' ∈ g.workers) (hne : w.uid ≠ w'.uid) {k : Key} {j : Nat} {a a' : Key}
    (h1 : LinkSpec g A w k j a) (h2 : LinkSpec g A w' k j a') : False := by
  rcases linkSpec_inv h1 with ⟨hk, _, _, _, _⟩ | ⟨hk, _, hT, _, hoff⟩ | ⟨i, hk, _, _, _, _, _⟩ |
      ⟨e, hk, hj, _, _, he, hpub, _⟩ <;>
    rcases linkSpec_inv h2 with ⟨hk', _, _, _, _⟩ | ⟨hk', _, hT', _, hoff'⟩ | ⟨i', hk', _, _, _, _, _⟩ |
      ⟨e', hk', hj', _, _, he', hpub', _⟩ <;>
    rw [hk] at hk'
  any_goals (cases hk'; done)
  · exact hne (Key.dumper.inj hk')
  · cases A with
    | none => simp at hoff
    | some As =>
      simp only [Option.bind_some, Assets.offset] at hoff hoff'
      have hgid := indexOf_inj hoff hoff'
      simp only [isTrainer, Bool.and_eq_true] at hT hT'
      have := ((h.group w hw w' hw' hgid).2.2 hT.2 hne).1
      rw [hT'.2] at this; cases this
  · exact hne (Key.getter.inj hk').1
  · have : e = e' := edgeTgt_inj h he he' (by simp only [edgeTgt]; rw [hk', ← hj, hj'])
    subst this
    exact hne (hpub.symm.trans hpub')

theorem allProg_pairwise {g : Segment} {A : Option Assets} {rank : Uid → Nat} (h : WF g rank) {order : List Uid}
    (hnd : order.Nodup) (hmem : ∀ n ∈ order, n ∈ g.uids) : (allProg g A order).Pairwise Lk := by
  unfold allProg
  rw [List.pairwise_flatMap]
  have hprog : ∀ n ∈ order, ∃ w, w ∈ g.workers ∧ w.uid = n ∧ nodeProg g A n = prog g A w := by
    intro n hn
    obtain ⟨w, hw, hid⟩ := mem_uids.mp (hmem n hn)
    refine ⟨w, hw, hid, ?_⟩
    have := worker?_of_mem h.nodup hw
    rw [hid] at this
    simp [nodeProg, this]
  constructor
  · intro n hn
    obtain ⟨w, hw, _, hp⟩ := hprog n hn
    rw [hp]
    exact prog_pairwise h hw
  · apply hnd.imp_of_mem
    intro n m hn hm hne a ha b hb x hx y hy hxy
    obtain ⟨w, hw, hid, hp⟩ := hprog n hn
    obtain ⟨w', hw', hid', hp'⟩ := hprog m hm
    rw [hp] at ha
    rw [hp'] at hb
    obtain ⟨k, j⟩ := x
    subst hxy
    exact linkSpec_disjoint h hw hw' (by rw [hid, hid']; exact hne) (prog_links ha hx) (prog_links hb hy)

/-- all link operations of the compilation, with the worker they belong to -/
theorem allProg_links {g : Segment} {A : Option Assets} {rank : Uid → Nat} (h : WF g rank) {order : List Uid}
    (hmem : ∀ n ∈ order, n ∈ g.uids) {op : Op} (hop : op ∈ allProg g A order) {k : Key} {j : Nat}
    (ht : op.tgt = some (k, j)) : ∃ w ∈ g.workers, w.uid ∈ order ∧ LinkSpec g A w k j op.src := by
  simp only [allProg, List.mem_flatMap] at hop
  obtain ⟨n, hn, hop⟩ := hop
  obtain ⟨w, hw, hid⟩ := mem_uids.mp (hmem n hn)
  have := worker?_of_mem h.nodup hw
  rw [hid] at this
  simp only [nodeProg, this] at hop
  exact ⟨w, hw, by rw [hid]; exact hn, prog_links hop ht⟩

theorem allProg_links_complete {g : Segment} {A : Option Assets} {rank : Uid → Nat} (h : WF g rank) {order : List Uid}
    {w : Worker} (hw : w ∈ g.workers) (hv : w.uid ∈ order) {k : Key} {j : Nat} {a : Key} (hl : LinkSpec g A w k j a) :
    ∃ op ∈ allProg g A order, op.tgt = some (k, j) ∧ op.src = a := by
  obtain ⟨op, hop, ht, hs⟩ := links_complete hl
  refine ⟨op, ?_, ht, hs⟩
  simp only [allProg, List.mem_flatMap]
  refine ⟨w.uid, hv, ?_⟩
  simp only [nodeProg, worker?_of_mem h.nodup hw]
  exact hop

/-- `Linkage.insert` is called without an index only for getter and dumper instructions -/
theorem prog_noIdx_key {g : Segment} {A : Option Assets} {w : Worker} {k a : Key} (ho : Op.linsert k a none ∈ prog g A w) :
    (∃ n, k = Key.dumper n) ∨ (∃ n i, k = Key.getter n i) := by
  simp only [prog, progHead, dumpProg, commitOp, List.mem_append] at ho
  rcases ho with ((((ho | ho) | ho) | ho) | ho) | ho
  · simp at ho
  · split at ho <;> simp at ho
  · split at ho
    · simp only [List.mem_cons, List.mem_nil_iff, or_false] at ho
      rcases ho with ho | ho | ho | ho | ho
      · cases ho
      · cases ho
      · cases ho; exact Or.inl ⟨_, rfl⟩
      · cases hoff : A.bind (·.offset w.gid) <;> simp [hoff] at ho
      · cases ho
    · cases ho
  · split at ho <;> simp at ho
  · split at ho <;> simp at ho
  · split at ho
    · cases ho
    · unfold updProg at ho
      split at ho
      · simp at ho
      · simp only [List.mem_flatMap, List.mem_range, List.mem_append, List.mem_cons, List.mem_map] at ho
        obtain ⟨i, _, (ho | ho | ho) | ⟨e, _, ho⟩⟩ := ho
        · cases ho
        · cases ho; exact Or.inr ⟨_, _, rfl⟩
        · cases ho
        · cases ho

/-- **no link collision, whatever the visit order** + the resulting slots -/
theorem abs_final {g : Segment} {A : Option Assets} {rank : Uid → Nat} (h : WF g rank) {order : List Uid}
    (hnd : order.Nodup) (hmem : ∀ n ∈ order, n ∈ g.uids) :
    ∃ B, absRun [] (allProg g A order) = some B ∧ AbsSpec [] B (allProg g A order) := by
  apply absRun_spec
  · intro _ _ k j _; rfl
  · rw [List.Nodup, List.pairwise_filterMap]
    exact allProg_pairwise h hnd hmem
  · intro op hop hn k j ht
    refine ⟨rfl, ?_⟩
    intro op' hop' j' ht'
    obtain ⟨w', _, _, hl'⟩ := allProg_links h hmem hop' ht'
    cases op with
    | linsert k0 a0 i0 =>
      cases i0 with
      | some _ => simp [Op.noIdx] at hn
      | none =>
        simp only [Op.tgt, Option.getD_none, Option.some.injEq, Prod.mk.injEq] at ht
        obtain ⟨rfl, rfl⟩ := ht
        simp only [allProg, List.mem_flatMap] at hop
        obtain ⟨n, hn', hop⟩ := hop
        obtain ⟨w0, hw0, hid0⟩ := mem_uids.mp (hmem n hn')
        have hwk := worker?_of_mem h.nodup hw0
        rw [hid0] at hwk
        simp only [nodeProg, hwk] at hop
        rcases prog_noIdx_key hop with ⟨n', rfl⟩ | ⟨n', i', rfl⟩ <;>
          rcases linkSpec_inv hl' with ⟨hk', hj', _⟩ | ⟨hk', _⟩ | ⟨i'', hk', hj', _⟩ | ⟨e', hk', _⟩ <;>
          first | exact hj' | cases hk'
    | _ => simp [Op.noIdx] at hn

end ForML.Flow
