/-
C06 — the Python operator sugar constructs the expression it is documented to mean: every operator its expression
class with the operands in the written order — up to the mirroring the interpreter itself performs for comparisons
(`5 < x` is dispatched as `x.__gt__(5)`, i.e. `GreaterThan(x, 5)`), which has the same meaning.  Core Lean only.
-/
import ForML.Model.DslSugar
import ForML.Model.DslDenote

namespace ForML.C06
open ForML.Dsl ForML.Rel ForML.Sugar ForML.Denote

/-- the comparison read from the other side -/
def mirrorOp : Op → Op
  | .lt => .gt | .le => .ge | .gt => .lt | .ge => .le
  | op => op

/-- an order / equality comparison -/
def isCmp : Op → Bool
  | .lt | .le | .gt | .ge | .eq | .ne => true
  | _ => false

theorem isCmp_dsl (op : PyOp) (h : op.isComparison = true) : isCmp op.dsl = true := by
  cases op <;> simp [PyOp.isComparison] at h <;> rfl

/-- `self.__op__(other)` builds the operator's class over (self, other) -/
theorem applyMethod_direct (op : PyOp) (x y : Feature) :
    applyMethod op.method x y = some (.expr op.dsl (.cons x (.cons y .nil))) := by
  cases op <;> rfl

/-- what the fall-back method of the right operand `y` builds for `x <op> y`: the operator's class over (x, y); for a
comparison the mirrored class over (y, x) -/
theorem applyMethod_reflected (op : PyOp) (x y : Feature) :
    applyMethod op.reflected y x =
      some (if op.isComparison then .expr (mirrorOp op.dsl) (.cons y (.cons x .nil))
            else .expr op.dsl (.cons x (.cons y .nil))) := by
  cases op <;> rfl

theorem invert_spec (a : Feature) : invert a = some (.expr .not (.cons a .nil)) := rfl

/-- `f` is `g` up to mirrored comparisons -/
inductive SugarEq : Feature → Feature → Prop where
  | refl (f : Feature) : SugarEq f f
  | bin (op : Op) (x x' y y' : Feature) : SugarEq x x' → SugarEq y y' →
      SugarEq (.expr op (.cons x (.cons y .nil))) (.expr op (.cons x' (.cons y' .nil)))
  | mirror (op : Op) (x x' y y' : Feature) : isCmp op = true → SugarEq x x' → SugarEq y y' →
      SugarEq (.expr (mirrorOp op) (.cons y (.cons x .nil))) (.expr op (.cons x' (.cons y' .nil)))
  | un (op : Op) (x x' : Feature) : SugarEq x x' → SugarEq (.expr op (.cons x .nil)) (.expr op (.cons x' .nil))

/-- every binary operator applied to operands of which at least one is a feature constructs a feature: its documented
expression, or (comparisons only) the mirrored one -/
theorem binary_spec (op : PyOp) (a b : Operand) (h : (∃ f, a = .feat f) ∨ (∃ f, b = .feat f)) :
    binary op a b = some (.expr op.dsl (.cons a.lift (.cons b.lift .nil))) ∨
      (op.isComparison = true ∧ binary op a b = some (.expr (mirrorOp op.dsl) (.cons b.lift (.cons a.lift .nil)))) := by
  cases a with
  | plain v =>
    cases b with
    | plain w => rcases h with ⟨f, hf⟩ | ⟨f, hf⟩ <;> cases hf
    | feat y =>
      simp only [binary, applyMethod_reflected, Operand.lift]
      by_cases hc : op.isComparison = true
      · exact Or.inr ⟨hc, by simp [hc]⟩
      · exact Or.inl (by simp [hc])
  | feat x =>
    cases b with
    | plain w => exact Or.inl (by simp only [binary, applyMethod_direct, Operand.lift])
    | feat y =>
      simp only [binary, Operand.lift]
      by_cases hr : (op.isComparison && isPlainElement x && isColumn y) = true
      · have hc : op.isComparison = true := by
          simp only [Bool.and_eq_true] at hr; exact hr.1.1
        refine Or.inr ⟨hc, ?_⟩
        rw [if_pos hr]
        simp only [applyMethod_reflected, hc, if_true]
      · have hr' : (op.isComparison && isPlainElement x && isColumn y) = false := by simpa using hr
        refine Or.inl ?_
        simp only [hr', Bool.false_eq_true, if_false, applyMethod_direct]

/-- only a written value evaluates to a plain value -/
theorem eval_plain : ∀ (e : PyExpr) (v : Lit), e.eval = some (.plain v) → e = .val v
  | .val w, v, h => by simp [PyExpr.eval] at h; rw [h]
  | .feat g, v, h => by simp [PyExpr.eval] at h
  | .bin o p q, v, h => by
    simp only [PyExpr.eval] at h
    cases hp : p.eval <;> cases hq : q.eval <;> simp [hp, hq, Option.map_eq_some_iff] at h
  | .inv p, v, h => by
    simp only [PyExpr.eval] at h
    cases hp : p.eval with
    | none => simp [hp] at h
    | some z => cases z <;> simp [hp, Option.map_eq_some_iff] at h

/-- the feature a Python expression constructs is the documented one up to mirrored comparisons -/
theorem eval_spec : ∀ (e : PyExpr) (f : Feature), e.eval = some (.feat f) → SugarEq f e.spec
  | .val v, f, h => by simp [PyExpr.eval] at h
  | .feat g, f, h => by
    simp only [PyExpr.eval, Option.some.injEq, Operand.feat.injEq] at h
    subst h; exact SugarEq.refl _
  | .bin op a b, f, h => by
    simp only [PyExpr.eval] at h
    cases ha : a.eval with
    | none => simp [ha] at h
    | some x =>
      cases hb : b.eval with
      | none => simp [ha, hb] at h
      | some y =>
        simp only [ha, hb, Option.map_eq_some_iff, Operand.feat.injEq] at h
        obtain ⟨f', hf', rfl⟩ := h
        -- the operands evaluate to what they are documented to mean
        have hx : SugarEq x.lift a.spec := by
          cases x with
          | plain v => rw [eval_plain a v ha]; exact SugarEq.refl _
          | feat g => exact eval_spec a g ha
        have hy : SugarEq y.lift b.spec := by
          cases y with
          | plain v => rw [eval_plain b v hb]; exact SugarEq.refl _
          | feat g => exact eval_spec b g hb
        have hfeat : (∃ g, x = .feat g) ∨ (∃ g, y = .feat g) := by
          cases x with
          | feat g => exact Or.inl ⟨g, rfl⟩
          | plain v =>
            cases y with
            | feat g => exact Or.inr ⟨g, rfl⟩
            | plain w => simp [binary] at hf'
        rcases binary_spec op x y hfeat with h1 | ⟨hc, h1⟩
        · rw [hf'] at h1; injection h1 with h1; subst h1
          exact SugarEq.bin _ _ _ _ _ hx hy
        · rw [hf'] at h1; injection h1 with h1; subst h1
          exact SugarEq.mirror _ _ _ _ _ (isCmp_dsl op hc) hx hy
  | .inv a, f, h => by
    simp only [PyExpr.eval] at h
    cases ha : a.eval with
    | none => simp [ha] at h
    | some x =>
      cases x with
      | plain v => simp [ha] at h
      | feat g =>
        simp only [ha, invert_spec, Option.map_some, Option.some.injEq, Operand.feat.injEq] at h
        subst h
        exact SugarEq.un _ _ _ (eval_spec a g ha)

/-! ### mirrored comparisons mean the same -/

theorem cmpVal_swap (a b : Val) : cmpVal b a = (cmpVal a b).map Ordering.swap := by
  cases a <;> cases b <;> first | rfl | exact congrArg some Std.OrientedOrd.eq_swap

theorem map_swap (t t' : _root_.Ordering → Bool) (h : ∀ o, t' o.swap = t o) (a b : Val) :
    (cmpVal b a).map (fun o => Val.bool (t' o)) = (cmpVal a b).map (fun o => Val.bool (t o)) := by
  rw [cmpVal_swap a b]
  cases cmpVal a b <;> simp [h]

theorem liftCmp_swap (t t' : _root_.Ordering → Bool) (h : ∀ o, t' o.swap = t o) (a b : Val) :
    liftCmp t' b a = liftCmp t a b := by
  cases a <;> cases b <;> simp only [liftCmp] <;> first | rfl | exact map_swap t t' h _ _

/-- a comparison read from the other side has the same value -/
theorem dslScalar_mirror (op : Op) (hc : isCmp op = true) (a b : Val) :
    dslScalar (mirrorOp op) [b, a] = dslScalar op [a, b] := by
  cases op <;> simp [isCmp] at hc <;> simp only [mirrorOp, dslScalar] <;>
    exact liftCmp_swap _ _ (by intro o; cases o <;> rfl) a b

theorem isCmp_not_agg (op : Op) (h : isCmp op = true) : op.isAggregate = false ∧ (mirrorOp op).isAggregate = false := by
  cases op <;> simp [isCmp] at h <;> exact ⟨rfl, rfl⟩

/-- features that are equal up to mirrored comparisons have the same value on every row -/
theorem sugarEq_sem {f f' : Feature} (h : SugarEq f f') :
    ∀ (labels : Labels) (g : List Row) (row : Row), evalF labels f g row = evalF labels f' g row := by
  induction h with
  | refl f => intro _ _ _; rfl
  | bin op x x' y y' _ _ ihx ihy =>
    intro labels g row
    simp only [evalF, evalFs, ihx labels g row, ihy labels g row]
  | mirror op x x' y y' hc _ _ ihx ihy =>
    intro labels g row
    obtain ⟨h1, h2⟩ := isCmp_not_agg op hc
    simp only [evalF, evalFs, h1, h2, Bool.false_eq_true, if_false, ihx labels g row, ihy labels g row]
    cases evalF labels x' g row <;> cases evalF labels y' g row <;> simp [dslScalar_mirror op hc]
  | un op x x' _ ih =>
    intro labels g row
    simp only [evalF, evalFs, ih labels g row]
    have : (fun r => evalF labels x [r] r) = (fun r => evalF labels x' [r] r) := by
      funext r; exact ih labels [r] r
    simp only [this]

end ForML.C06
