/-
C04 helper lemmas, part 3: on a well-formed composition every generation a training commits lists, position by
position, the states of the occurrences behind `Composition.persistent` (registry invariant), and every load through
the positional accessor hands a worker the state of its own occurrence from the selected generation.
-/
import ForML.Lemmas.C04Step

namespace ForML.Persist

/-! ### generic list facts -/

theorem mapE_ok_mem {α β : Type} {f : α → Except Err β} {l : List α} {ys : List β} (h : mapE f l = .ok ys) :
    ∀ y ∈ ys, ∃ x ∈ l, f x = .ok y := by
  induction l generalizing ys with
  | nil =>
    simp only [mapE] at h
    cases h
    intro y hy
    cases hy
  | cons x xs ih =>
    simp only [mapE] at h
    cases hx : f x with
    | error e => rw [hx] at h; cases h
    | ok y0 =>
      rw [hx] at h
      cases hxs : mapE f xs with
      | error e => rw [hxs] at h; cases h
      | ok ys0 =>
        rw [hxs] at h
        cases h
        intro y hy
        cases hy with
        | head => exact ⟨x, List.mem_cons_self, hx⟩
        | tail _ hy' =>
          obtain ⟨x', hx', hfx'⟩ := ih hxs y hy'
          exact ⟨x', List.mem_cons_of_mem _ hx', hfx'⟩

theorem mapE_ok_map {α β γ : Type} {f : α → Except Err β} {l : List α} {ys : List β} (h : mapE f l = .ok ys)
    (p : β → γ) (q : α → γ) (hpq : ∀ x ∈ l, ∀ y, f x = .ok y → p y = q x) : ys.map p = l.map q := by
  induction l generalizing ys with
  | nil =>
    simp only [mapE] at h
    cases h
    rfl
  | cons x xs ih =>
    simp only [mapE] at h
    cases hx : f x with
    | error e => rw [hx] at h; cases h
    | ok y0 =>
      rw [hx] at h
      cases hxs : mapE f xs with
      | error e => rw [hxs] at h; cases h
      | ok ys0 =>
        rw [hxs] at h
        cases h
        simp only [List.map_cons]
        rw [hpq x List.mem_cons_self y0 hx, ih hxs (fun x' hx' => hpq x' (List.mem_cons_of_mem _ hx'))]

theorem getElem?_idxOf_of_contains (l : List Nat) (a : Nat) (h : l.contains a = true) : l[l.idxOf a]? = some a := by
  induction l with
  | nil => simp at h
  | cons x xs ih =>
    simp only [List.idxOf_cons]
    by_cases hxa : x = a
    · subst hxa; simp
    · have hne : (x == a) = false := by simp [hxa]
      simp only [hne, cond_false, List.getElem?_cons_succ]
      apply ih
      simp only [List.contains_cons] at h
      have : (a == x) = false := by simp [Ne.symm hxa]
      simpa [this] using h

/-! ### the composition side -/

namespace Comp

theorem mem_of_node? {c : Comp} {u : Nat} {n : Node} (h : c.node? u = some n) : n ∈ c.nodes :=
  List.mem_of_find?_eq_some h

theorem mem_visitNodes {c : Comp} {h t : Nat} {n : Node} (hn : n ∈ c.visitNodes h t) : n ∈ c.nodes := by
  simp only [visitNodes, List.mem_filterMap] at hn
  obtain ⟨u, _, hu⟩ := hn
  exact mem_of_node? hu

theorem tag_of_same_gid {c : Comp} (htc : c.tagsConsistent = true) {n m : Node} (hn : n ∈ c.nodes)
    (hm : m ∈ c.nodes) (hg : n.gid = m.gid) : n.tag = m.tag := by
  simp only [tagsConsistent, List.all_eq_true] at htc
  have := htc n hn m hm
  simp only [Bool.or_eq_true, bne_iff_ne, ne_eq, beq_iff_eq] at this
  cases this with
  | inl h => exact absurd hg h
  | inr h => exact h

theorem tagOfGid_of_mem {c : Comp} (htc : c.tagsConsistent = true) {n : Node} (hn : n ∈ c.nodes) :
    c.tagOfGid n.gid = some n.tag := by
  simp only [tagOfGid]
  cases hf : c.nodes.find? (fun m => m.gid == n.gid) with
  | none =>
    have := List.find?_eq_none.mp hf n hn
    simp at this
  | some m =>
    have hm := List.mem_of_find?_eq_some hf
    have hp := List.find?_some hf
    simp only [beq_iff_eq] at hp
    simp only [Option.map_some]
    rw [tag_of_same_gid htc hm hn hp]

end Comp

/-! ### the registry invariant -/

/-- generation `g` holds, position by position, a state of the occurrence listed in `T`, all of `g`'s own run -/
def GenOk (T : List (Option Nat)) (g : Generation) : Prop :=
  g.states.map (fun s => some s.tag) = T ∧ ∀ s ∈ g.states, s.run = g.run

def RegInv (T : List (Option Nat)) (reg : Registry) : Prop := ∀ g ∈ reg, GenOk T g

theorem RegInv.nil (T : List (Option Nat)) : RegInv T [] := by
  intro g hg; cases hg

theorem RegInv.append {T : List (Option Nat)} {reg : Registry} {g : Generation} (h : RegInv T reg)
    (hg : GenOk T g) : RegInv T (reg ++ [g]) := by
  intro g' hg'
  simp only [List.mem_append, List.mem_singleton] at hg'
  cases hg' with
  | inl h' => exact h g' h'
  | inr h' => rw [h']; exact hg

theorem select_mem {reg : Registry} {k : Option Nat} {g : Generation} (h : select reg k = .ok (some g)) :
    g ∈ reg := by
  cases k with
  | none =>
    simp only [select] at h
    cases h' : reg.getLast? with
    | none => rw [h'] at h; cases h
    | some g' =>
      rw [h'] at h
      cases h
      obtain ⟨ys, hys⟩ := List.getLast?_eq_some_iff.mp h'
      rw [hys]
      simp
  | some k =>
    simp only [select] at h
    split at h
    · cases h
    · cases h' : reg[k - 1]? with
      | none => rw [h'] at h; cases h
      | some g' =>
        rw [h'] at h
        cases h
        exact List.mem_of_getElem? h'

theorem loaded_of_select {reg : Registry} {a : Action} {x : Option Generation} (h : select reg a.gen = .ok x) :
    loaded reg a = x := by
  simp only [loaded, h]

/-- a load through the positional accessor returns the own state of the selected generation -/
theorem load_own {c : Comp} {T : List (Option Nat)} (hT : c.persistentTags = T) (htc : c.tagsConsistent = true)
    {g : Generation} (hg : GenOk T g) {n : Node} (hn : n ∈ c.nodes) {gen : Except Err (Option Generation)}
    {s : Origin} (h : Assets.load ⟨c.persistent, gen⟩ n.gid = .ok (some s)) (hgen : gen = .ok (some g)) :
    s.tag = n.tag ∧ s.run = g.run := by
  subst hgen
  simp only [Assets.load] at h
  split at h
  · rename_i hc
    cases hs : g.states[List.idxOf n.gid c.persistent]? with
    | none => rw [hs] at h; cases h
    | some s' =>
      rw [hs] at h
      cases h
      refine ⟨?_, hg.2 s (List.mem_of_getElem? hs)⟩
      have h1 : (g.states.map (fun s => some s.tag))[List.idxOf n.gid c.persistent]? = some (some s.tag) := by
        rw [List.getElem?_map, hs]; rfl
      rw [hg.1, ← hT] at h1
      simp only [Comp.persistentTags, List.getElem?_map, getElem?_idxOf_of_contains _ _ hc, Option.map_some,
        Comp.tagOfGid_of_mem htc hn, Option.some.injEq] at h1
      first | exact h1 | exact h1.symm
  · cases h

/-- a load with a selected generation never answers "no state" -/
theorem load_some_of_gen {P : List Nat} {g : Generation} {gid : Nat} {r : Option Origin}
    (h : Assets.load ⟨P, .ok (some g)⟩ gid = .ok r) : r.isSome = true := by
  simp only [Assets.load] at h
  split at h
  · cases hs : g.states[List.idxOf gid P]? with
    | none => rw [hs] at h; cases h
    | some s' => rw [hs] at h; cases h; rfl
  · cases h

theorem load_none_of_nogen {P : List Nat} {gid : Nat} {r : Option Origin}
    (h : Assets.load ⟨P, .ok none⟩ gid = .ok r) : r = none := by
  simp only [Assets.load] at h
  split at h
  · cases h; rfl
  · cases h

/-! ### what a trainer produces -/

theorem newState_tag_run {a : Assets} {run hp : Nat} {n : Node} {s : Origin} (h : newState a run hp n = .ok s) :
    s.tag = n.tag ∧ s.run = run := by
  simp only [newState] at h
  cases hp' : prevOf a n with
  | error e => rw [hp'] at h; cases h
  | ok prev => rw [hp'] at h; cases h; exact ⟨rfl, rfl⟩

theorem trainerOf_spec {order : List Node} {g : Nat} {t : Node} (h : trainerOf order g = some t) :
    t ∈ order ∧ t.trained = true ∧ t.gid = g := by
  have hm := List.mem_of_find?_eq_some h
  have hp := List.find?_some h
  simp only [Bool.and_eq_true, beq_iff_eq] at hp
  exact ⟨hm, hp.1.2, hp.2⟩

theorem trainerOf_none_of_untrained {order : List Node} (h : ∀ n ∈ order, n.trained = false) (g : Nat) :
    trainerOf order g = none := by
  simp only [trainerOf]
  apply List.find?_eq_none.mpr
  intro n hn
  simp [h n hn]

/-- the generation a training commits satisfies the invariant -/
theorem commit_genOk {c : Comp} (htc : c.tagsConsistent = true) {order : List Node}
    (hsub : ∀ n ∈ order, n ∈ c.nodes) {gen : Except Err (Option Generation)} {run hp : Nat} {g : Generation}
    (h : commit order ⟨c.persistent, gen⟩ run hp = .ok (some g)) : GenOk c.persistentTags g := by
  simp only [commit] at h
  split at h
  · cases hm : mapE (committedState order ⟨c.persistent, gen⟩ run hp) c.persistent with
    | error e => simp only [hm] at h; cases h
    | ok states =>
      simp only [hm] at h
      cases h
      constructor
      · show states.map (fun s => some s.tag) = c.persistent.map c.tagOfGid
        apply mapE_ok_map hm
        intro gid _ s hs
        simp only [committedState] at hs
        cases ht : trainerOf order gid with
        | none => rw [ht] at hs; cases hs
        | some t =>
          rw [ht] at hs
          obtain ⟨htm, _, htg⟩ := trainerOf_spec ht
          rw [(newState_tag_run hs).1, ← htg, Comp.tagOfGid_of_mem htc (hsub t htm)]
      · intro s hs
        show s.run = run
        obtain ⟨gid, _, hgs⟩ := mapE_ok_mem hm s hs
        simp only [committedState] at hgs
        cases ht : trainerOf order gid with
        | none => rw [ht] at hgs; cases hgs
        | some t => rw [ht] at hgs; exact (newState_tag_run hgs).2
  · cases h

theorem commit_none_of_untrained {order : List Node} (h : ∀ n ∈ order, n.trained = false) (a : Assets)
    (run hp : Nat) : commit order a run hp = .ok none := by
  simp only [commit]
  have : (order.any fun n => n.stateful && n.trained && a.has n.gid) = false := by
    apply List.any_eq_false.mpr
    intro n hn
    simp [h n hn]
  simp [this]

theorem mem_observeAll {c : Comp} {order : List Node} {a : Assets} {run hp : Nat} {obs : List Obs}
    (h : observeAll c order a run hp = .ok obs) {o : Obs} (ho : o ∈ obs) :
    ∃ n ∈ order, ∃ os, observe c order a run hp n = .ok os ∧ o ∈ os := by
  simp only [observeAll] at h
  cases hm : mapE (observe c order a run hp) order with
  | error e => rw [hm] at h; cases h
  | ok oss =>
    rw [hm] at h
    cases h
    obtain ⟨os, hos, hoos⟩ := List.mem_flatten.mp ho
    obtain ⟨n, hn, hno⟩ := mapE_ok_mem hm os hos
    exact ⟨n, hn, os, hno, hoos⟩

end ForML.Persist
