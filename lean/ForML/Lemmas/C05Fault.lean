/-
Helper lemmas for C05: transient I/O faults (`Ev.fault`): the micro-operations a faulted step still performs
(`faultAtoms`) are a crash prefix — plus, inside `copytree`, copies of other package members below the invisible
temporary name — and never contain the operation that makes the new item visible.
-/
import ForML.Lemmas.C05Hist

namespace ForML.Registry
open ForML.Fs

/-- no write below a package-member name -/
def NoMember : Op → Prop
  | .createEmpty p => isMemberPath p = false
  | .append p _ => isMemberPath p = false
  | _ => True

/-- outside `copytree` a fault simply stops the step: the performed micro-operations are a crash prefix -/
theorem faultAtoms_take (atoms : List Op) (j : Nat) (h : ∀ op ∈ atoms, NoMember op) :
    faultAtoms atoms j = atoms.take j := by
  unfold faultAtoms
  cases hj : atoms[j]? with
  | none => simp
  | some op =>
    have hm := h op (List.mem_of_getElem? hj)
    cases op <;> simp only [NoMember] at hm <;> simp [hm]

theorem memberRest_mem (p : Path) (rest : List Op) (op : Op) (h : op ∈ memberRest p rest) :
    op ∈ rest ∧ ((∃ q, op = .createEmpty q) ∨ ∃ q b, op = .append q b) := by
  simp only [memberRest, List.mem_filter] at h
  refine ⟨h.1, ?_⟩
  cases op with
  | createEmpty q => exact Or.inl ⟨q, rfl⟩
  | append q b => exact Or.inr ⟨q, b, rfl⟩
  | mkdir q => simp at h
  | rename a b => simp at h
  | copyFile q b => simp at h
  | rmtree q => simp at h

/-- whatever a faulted step performs is among its micro-operations … -/
theorem faultAtoms_mem (atoms : List Op) (j : Nat) : ∀ op ∈ faultAtoms atoms j, op ∈ atoms := by
  intro op hop
  unfold faultAtoms at hop
  rcases List.mem_append.mp hop with h | h
  · exact List.mem_of_mem_take h
  · split at h
    · split at h
      · exact List.mem_of_mem_drop (memberRest_mem _ _ _ h).1
      · cases h
    · split at h
      · exact List.mem_of_mem_drop (memberRest_mem _ _ _ h).1
      · cases h
    · cases h

/-- … and, when the fault hits before the end, never the final `rename` -/
theorem faultAtoms_init (A : List Op) (p q : Path) (j : Nat) (hj : j < (A ++ [Op.rename p q]).length) :
    ∀ op ∈ faultAtoms (A ++ [Op.rename p q]) j, op ∈ A := by
  intro op hop
  have hjA : j ≤ A.length := by simp at hj; omega
  unfold faultAtoms at hop
  rcases List.mem_append.mp hop with h | h
  · rw [List.take_append_of_le_length hjA] at h
    exact List.mem_of_mem_take h
  · have fin : ∀ r, op ∈ memberRest r ((A ++ [Op.rename p q]).drop (j + 1)) → op ∈ A := by
      intro r hr
      obtain ⟨hin, hk⟩ := memberRest_mem _ _ _ hr
      have := List.mem_of_mem_drop hin
      rcases List.mem_append.mp this with h1 | h1
      · exact h1
      · simp only [List.mem_cons, List.not_mem_nil, or_false] at h1
        rcases hk with ⟨_, rfl⟩ | ⟨_, _, rfl⟩ <;> cases h1
    split at h
    · split at h
      · exact fin _ h
      · cases h
    · split at h
      · exact fin _ h
      · cases h
    · cases h

/-- a faulted list that reaches the end is the whole list -/
theorem faultAtoms_all (atoms : List Op) (j : Nat) (hj : atoms.length ≤ j) : faultAtoms atoms j = atoms := by
  unfold faultAtoms
  rw [List.take_of_length_le hj, List.getElem?_eq_none hj]
  simp

/-- every recorded micro-operation of a call sequence belongs to one of its calls -/
theorem runCalls_atoms_mem (cs : List (Fs → List Op)) (fs : Fs) :
    ∀ a ∈ atomsAll (runCalls fs cs).calls.flatten, ∃ c ∈ cs, ∃ f, a ∈ atomsAll (c f) := by
  induction cs generalizing fs with
  | nil => intro a ha; simp [runCalls, atomsAll] at ha
  | cons c rest ih =>
    intro a ha
    simp only [runCalls] at ha
    split at ha
    · rename_i fs' _
      simp only [List.flatten_cons, atomsAll_append] at ha
      rcases List.mem_append.mp ha with h | h
      · exact ⟨c, by simp, fs, h⟩
      · obtain ⟨c', hc', f, hf⟩ := ih fs' a h
        exact ⟨c', by simp [hc'], f, hf⟩
    · simp only [List.flatten_cons, List.flatten_nil, List.append_nil, atomsAll_take_atoms] at ha
      exact ⟨c, by simp, fs, List.mem_of_mem_take ha⟩

theorem trainCalls_noMember (impl : Impl) (p v ord : Nat) (sts : List (Nat × Bytes)) :
    ∀ c ∈ trainCalls impl p v ord sts, ∀ f, ∀ a ∈ atomsAll (c f), NoMember a := by
  intro c hc f a ha
  rw [trainCalls_eq] at hc
  rcases List.mem_append.mp hc with hc | hc
  · simp only [writeCalls, List.mem_map] at hc
    obtain ⟨s, _, rfl⟩ := hc
    simp only [atomsAll_writeOps] at ha
    simp only [writeOps, List.mem_append, List.mem_cons, List.not_mem_nil, or_false] at ha
    rcases ha with ha | rfl | rfl
    · obtain ⟨q, _, rfl, _⟩ := mem_mkdirP _ _ _ ha; trivial
    · simp [NoMember, isMemberPath, stagedStateP]
    · simp [NoMember, isMemberPath, stagedStateP]
  · simp only [List.mem_cons, List.not_mem_nil, or_false] at hc; subst hc
    simp only [closeCall, atomsAll_closeOps] at ha
    simp only [closeOps, List.mem_append, List.mem_map] at ha
    rcases ha with (ha | ⟨s, _, rfl⟩) | ha
    · obtain ⟨q, _, rfl, _⟩ := mem_mkdirP _ _ _ ha; trivial
    · trivial
    · unfold tagWriteOps at ha
      split at ha
      · simp only [List.mem_cons, List.not_mem_nil, or_false] at ha
        rcases ha with rfl | rfl | rfl
        · simp [NoMember, isMemberPath, tagTmpP]
        · simp [NoMember, isMemberPath, tagTmpP]
        · trivial
      · simp only [List.mem_cons, List.not_mem_nil, or_false] at ha
        rcases ha with rfl | rfl
        · simp [NoMember, isMemberPath, tagP]
        · simp [NoMember, isMemberPath, tagP]

/-- a fault inside a training is a process death at that point, observed by a process that lives on -/
theorem faultIn_train (impl : Impl) (fs : Fs) (p v ord : Nat) (sts : List (Nat × Bytes)) (j : Nat) :
    faultIn impl fs (.train p v ord sts) j = crashIn impl fs (.train p v ord sts) j none := by
  simp only [faultIn, crashIn, crashOps_none]
  congr 2
  apply faultAtoms_take
  intro a ha
  cases hg : trainGuard fs p v with
  | some e => simp [exec, hg, atomsAll] at ha
  | none =>
    simp only [exec, hg] at ha
    obtain ⟨c, hc, f, hf⟩ := runCalls_atoms_mem _ fs a ha
    exact trainCalls_noMember impl p v ord sts c hc f a hf

/-- the micro-operations of a publish before its final rename leave the tree quiet, in whatever selection and order
they are performed -/
theorem push_quiet_ops (kf : Bool) (fs c : Fs) (p v : Nat) (pkg : Pkg) (L : List Op)
    (hL : ∀ op ∈ L, ∃ tmpOps, (∀ o ∈ tmpOps, ∀ key, touches o key → packageTmpP p v <+: key)
      ∧ op ∈ atomsAll (mkdirP fs (releaseP p v) ++ tmpOps))
    (hc : run fs L = some c) : QuietPub c fs p v := by
  have htouch : ∀ op ∈ L, ∀ key, touches op key →
      (key = projectP p ∧ get fs key = none) ∨ (key = releaseP p v ∧ get fs key = none)
        ∨ packageTmpP p v <+: key := by
    intro op hop key hk
    obtain ⟨tmpOps, htmp, hin⟩ := hL op hop
    obtain ⟨o, ho, h2⟩ := atomsAll_touches _ op hin
    exact pushPrefix_touches fs p v tmpOps htmp o ho key (h2 key hk)
  constructor
  · intro key k1 k2 k3
    apply run_frame _ _ _ _ hc
    intro op hop htk
    rcases htouch op hop key htk with h | h | h
    · exact k1 h.1
    · exact k2 h.1
    · exact k3 h
  · intro hne
    apply run_frame _ _ _ _ hc
    intro op hop htk
    rcases htouch op hop _ htk with h | h | h
    · exact hne h.2
    · simp [projectP, releaseP] at h
    · simp [projectP, packageTmpP] at h

end ForML.Registry
