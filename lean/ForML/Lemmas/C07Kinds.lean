/-
C07 helper lemmas: inside the region where schemas are defined (`plain` sources, `tame` scripts) the implementation's
`kind` / `schema` computation (`kindOf`, `entries` + `collapse`) and the documented one (`kindS`, `sig`) agree.
-/
import ForML.Model.Grammar
import ForML.Lemmas.C07Collapse

namespace ForML.Dsl

/-! ### the error monad -/

theorem bind_eq_ok {α β : Type} (x : R α) (f : α → R β) (b : β) :
    (x >>= f) = Except.ok b ↔ ∃ a, x = Except.ok a ∧ f a = Except.ok b := by
  cases x <;> simp [bind, Except.bind]

theorem guardG_eq_ok (b : Bool) (u : Unit) : guardG b = Except.ok u ↔ b = true := by
  unfold guardG
  cases b <;> simp

theorem map_eq_ok {α β : Type} (g : α → β) (x : R α) (b : β) :
    (g <$> x) = Except.ok b ↔ ∃ a, x = Except.ok a ∧ g a = b := by
  cases x <;> simp [Functor.map, Except.map]

/-! ### documented signatures with every name and kind present -/

def liftSig (fs : Fields) : List (Option String × Option Kind) := fs.map (fun p => (some p.1, some p.2))

theorem liftSig_nil : liftSig [] = [] := rfl

theorem liftSig_cons (p : String × Kind) (fs : Fields) : liftSig (p :: fs) = (some p.1, some p.2) :: liftSig fs := rfl

theorem liftSig_append (a b : Fields) : liftSig (a ++ b) = liftSig a ++ liftSig b := by simp [liftSig]

theorem liftSig_inj : (a b : Fields) → liftSig a = liftSig b → a = b
  | [], [], _ => rfl
  | [], _ :: _, h => by simp [liftSig] at h
  | _ :: _, [], h => by simp [liftSig] at h
  | (n, k) :: a, (m, j) :: b, h => by
    simp only [liftSig_cons, List.cons.injEq, Prod.mk.injEq, Option.some.injEq] at h
    obtain ⟨⟨h1, h2⟩, h3⟩ := h
    rw [h1, h2, liftSig_inj a b h3]

theorem sigLookup_lift (n : String) : (fs : Fields) → sigLookup n (liftSig fs) = fs.lookup n
  | [] => rfl
  | (m, k) :: fs => by
    rw [liftSig_cons]
    unfold sigLookup
    by_cases h : m = n
    · subst h
      simp [List.lookup]
    · have h' : (n == m) = false := by simpa using fun e => h e.symm
      simp [List.lookup, h, h', sigLookup_lift n fs]

theorem mem_liftSig_names (n : String) (fs : Fields) : some n ∈ (liftSig fs).map (·.1) ↔ n ∈ fs.map (·.1) := by
  simp [liftSig]

theorem liftSig_names_nodup (fs : Fields) (h : ((liftSig fs).map (·.1)).Nodup) : (fs.map (·.1)).Nodup := by
  have : (liftSig fs).map (·.1) = (fs.map (·.1)).map some := by simp [liftSig]
  rw [this] at h
  unfold List.Nodup at *
  rw [List.pairwise_map] at h
  exact h.imp (fun hab e => hab (by rw [e]))

theorem exists_liftSig : (sg : List (Option String × Option Kind)) →
    (∀ p ∈ sg, p.1.isSome = true ∧ p.2.isSome = true) → ∃ S, sg = liftSig S
  | [], _ => ⟨[], rfl⟩
  | (a, b) :: sg, h => by
    obtain ⟨S, hS⟩ := exists_liftSig sg (fun p hp => h p (by simp [hp]))
    have := h (a, b) (by simp)
    cases a with
    | none => simp at this
    | some n =>
      cases b with
      | none => simp at this
      | some k => exact ⟨(n, k) :: S, by rw [liftSig_cons, hS]⟩

theorem mapM_id_map_some : (ks : List Kind) → (ks.map some).mapM id = some ks
  | [] => rfl
  | k :: ks => by simp [List.mapM_cons, mapM_id_map_some ks]

theorem mapM_id_eq_some : (os : List (Option Kind)) → (ks : List Kind) → os.mapM id = some ks → os = ks.map some
  | [], ks, h => by
    simp at h
    subst h
    rfl
  | o :: os, ks, h => by
    cases o with
    | none => simp [List.mapM_cons] at h
    | some k =>
      cases hm : os.mapM id with
      | none => simp [List.mapM_cons, hm] at h
      | some ks' =>
        simp [List.mapM_cons, hm] at h
        subst h
        simp [mapM_id_eq_some os ks' hm]

/-! ### the operand kind of the largest rank -/

theorem largest_maxRank (b j : Kind) (rest : List Kind) : largest (maxRank b j :: rest) = largest (b :: j :: rest) := by
  simp only [largest, maxRank]
  cases largest rest with
  | none =>
    by_cases h1 : b.rank < j.rank <;> simp [h1]
  | some c =>
    by_cases h1 : b.rank < j.rank <;> by_cases h2 : j.rank < c.rank <;> by_cases h3 : b.rank < c.rank <;>
      simp [h1, h2, h3] <;> omega

theorem largest_foldl : (rest : List Kind) → (b : Kind) → largest (b :: rest) = some (rest.foldl maxRank b)
  | [], b => by simp [largest]
  | j :: rest, b => by
    rw [List.foldl_cons, ← largest_foldl rest (maxRank b j), largest_maxRank]

/-! ### `plain` unfolded -/

theorem Source.plain_iff (s : Source) : s.plain = true ↔
    (∀ f ∈ s.outs, (nameOf f).isSome = true) ∧ (∀ p ∈ s.sig, p.1.isSome = true ∧ p.2.isSome = true) ∧
      (s.sig.map (·.1)).Nodup := by
  simp [Source.plain, and_assoc]

/-! ### kinds and schemas: implementation = documentation -/

mutual
theorem Feature.kind_iff : (f : Feature) → f.wf = true → f.tame = true →
    ∀ k, f.kindOf = Except.ok k ↔ f.kindS = some k
  | .lit v, _, _, k => by simp [Feature.kindOf, Feature.kindS]
  | .elem o n, hw, ht, k => by
    simp only [Feature.wf] at hw
    simp only [Feature.tame, Bool.and_eq_true] at ht
    obtain ⟨es, he, hs⟩ := Source.entries_spec o hw ht.1 ht.2
    simp only [Feature.kindOf, he, Feature.kindS, ← hs, sigLookup_lift, bind, Except.bind]
    cases (collapse es).lookup n <;> simp
  | .alias f n, hw, ht, k => by
    simp only [Feature.wf] at hw
    simp only [Feature.tame] at ht
    simp only [Feature.kindOf, Feature.kindS]
    exact Feature.kind_iff f hw ht k
  | .cast f j, _, _, k => by simp [Feature.kindOf, Feature.kindS]
  | .window fn ps os, hw, ht, k => by
    simp only [Feature.wf, Bool.and_eq_true, Bool.or_eq_true, beq_iff_eq] at hw
    simp only [Feature.tame, Bool.and_eq_true] at ht
    simp only [Feature.kindOf, Feature.kindS]
    rcases hw.1.1 with h | h
    · subst h
      simp [Feature.kindOf, Feature.kindS, Op.group]
    · exact Feature.kind_iff fn h ht.1.1 k
  | .expr op args, hw, ht, k => by
    simp only [Feature.wf, Bool.and_eq_true] at hw
    simp only [Feature.tame] at ht
    have hargs := Features.kinds_iff args hw.1.1.1 ht
    cases hg : op.group <;> simp only [Feature.kindOf, Feature.kindS, hg] <;> try simp
    -- the arithmetic family: the reduced operand kind
    cases hk : args.kindsOf with
    | error e =>
      simp only [bind, Except.bind]
      have hn : args.kindsS.mapM id = none := by
        cases hm : args.kindsS.mapM id with
        | none => rfl
        | some ks =>
          have := (hargs ks).mpr (mapM_id_eq_some _ _ hm)
          rw [hk] at this
          cases this
      simp [hn]
    | ok ks =>
      have := (hargs ks).mp hk
      simp only [bind, Except.bind, this, mapM_id_map_some, Option.bind_some]
      cases ks with
      | nil => simp [largest]
      | cons k0 rest => simp [largest_foldl]
theorem Features.kinds_iff : (fs : Features) → fs.wf = true → fs.tame = true →
    ∀ ks, fs.kindsOf = Except.ok ks ↔ fs.kindsS = ks.map some
  | .nil, _, _, ks => by
    cases ks <;> simp [Features.kindsOf, Features.kindsS]
  | .cons f fs, hw, ht, ks => by
    simp only [Features.wf, Bool.and_eq_true] at hw
    simp only [Features.tame, Bool.and_eq_true] at ht
    have h1 := Feature.kind_iff f hw.1 ht.1
    have h2 := Features.kinds_iff fs hw.2 ht.2
    simp only [Features.kindsOf, Features.kindsS, bind_eq_ok]
    cases ks with
    | nil => simp
    | cons k0 ks0 =>
      simp only [List.map_cons, List.cons.injEq, ← h1, ← h2]
      constructor
      · rintro ⟨a, ha, b, hb, hab⟩
        simp only [Except.ok.injEq, List.cons.injEq] at hab
        rw [← hab.1, ← hab.2]
        exact ⟨ha, hb⟩
      · rintro ⟨ha, hb⟩
        exact ⟨k0, ha, ks0, hb, rfl⟩
theorem Features.entriesOf_iff : (fs : Features) → fs.wf = true → fs.tame = true →
    ∀ es, fs.entriesOf = Except.ok es ↔ fs.sigOf = liftSig es
  | .nil, _, _, es => by
    cases es <;> simp [Features.entriesOf, Features.sigOf, liftSig]
  | .cons f fs, hw, ht, es => by
    simp only [Features.wf, Bool.and_eq_true] at hw
    simp only [Features.tame, Bool.and_eq_true] at ht
    have h1 := Feature.kind_iff f hw.1 ht.1
    have h2 := Features.entriesOf_iff fs hw.2 ht.2
    simp only [Features.entriesOf, Features.sigOf, bind_eq_ok, nameOrRecursion]
    cases es with
    | nil =>
      simp [liftSig]
    | cons e0 es0 =>
      simp only [liftSig_cons, List.cons.injEq, Prod.mk.injEq, ← h1, ← h2]
      constructor
      · rintro ⟨n, hn, k, hk, rest, hr, hab⟩
        simp only [Except.ok.injEq, List.cons.injEq] at hab
        cases hnm : nameOf f with
        | none => simp [hnm] at hn
        | some x =>
          simp only [hnm, Except.ok.injEq] at hn
          rw [← hab.1] at *
          rw [← hab.2]
          exact ⟨⟨by simp [hn], hk⟩, hr⟩
      · rintro ⟨⟨hn, hk⟩, hr⟩
        exact ⟨e0.1, by simp [hn], e0.2, hk, es0, hr, rfl⟩
/-- where the schema is consulted (a `plain` source of a `tame` script) its computation succeeds and yields the
documented names and kinds -/
theorem Source.entries_spec : (s : Source) → s.wf = true → s.tame = true → s.plain = true →
    ∃ es, s.entries = Except.ok es ∧ liftSig (collapse es) = s.sig
  | .table n fs, _, ht, _ => by
    simp only [Source.tame, decide_eq_true_eq] at ht
    exact ⟨fs, rfl, by rw [collapse_nodup fs ht]; rfl⟩
  | .ref i n, hw, ht, _ => by
    simp only [Source.wf] at hw
    simp only [Source.tame, Bool.and_eq_true] at ht
    obtain ⟨es, he, hs⟩ := Source.entries_spec i hw ht.1 ht.2
    refine ⟨_, by simp only [Source.entries, he, bind, Except.bind]; rfl, ?_⟩
    rw [collapse_ref, hs]
    rfl
  | .join l r k c, hw, ht, hp => by
    simp only [Source.wf, Bool.and_eq_true] at hw
    simp only [Source.tame, Bool.and_eq_true] at ht
    rw [Source.plain_iff] at hp
    simp only [Source.outs, Source.sig, List.mem_append, List.map_append] at hp
    obtain ⟨hp1, hp2, hp3⟩ := hp
    rw [List.nodup_append] at hp3
    have hpl : l.plain = true := (Source.plain_iff l).mpr
      ⟨fun f hf => hp1 f (Or.inl hf), fun p h => hp2 p (Or.inl h), hp3.1⟩
    have hpr : r.plain = true := (Source.plain_iff r).mpr
      ⟨fun f hf => hp1 f (Or.inr hf), fun p h => hp2 p (Or.inr h), hp3.2.1⟩
    obtain ⟨le, hle, hls⟩ := Source.entries_spec l hw.1.1.1 ht.1.1 hpl
    obtain ⟨re, hre, hrs⟩ := Source.entries_spec r hw.1.1.2 ht.1.2 hpr
    refine ⟨le ++ re, by simp only [Source.entries, hle, hre, bind, Except.bind], ?_⟩
    rw [collapse_append_disjoint, liftSig_append, hls, hrs]
    · rfl
    · intro e he hmem
      have h1 : some e.1 ∈ l.sig.map (·.1) := by rw [← hls]; exact (mem_liftSig_names _ _).mpr hmem
      have h2 : some e.1 ∈ r.sig.map (·.1) := by
        rw [← hrs]
        exact (mem_liftSig_names _ _).mpr ((mem_collapse_keys _ _).mpr (List.mem_map_of_mem (f := (·.1)) he))
      exact hp3.2.2 _ h1 _ h2 rfl
  | .set l r k, hw, ht, _ => by
    simp only [Source.wf, Bool.and_eq_true, beq_iff_eq] at hw
    simp only [Source.tame, Bool.and_eq_true] at ht
    obtain ⟨le, hle, hls⟩ := Source.entries_spec l hw.1.1 ht.1.1.1 ht.1.2
    obtain ⟨re, hre, hrs⟩ := Source.entries_spec r hw.1.2 ht.1.1.2 ht.2
    refine ⟨le ++ re, by simp only [Source.entries, hle, hre, bind, Except.bind], ?_⟩
    have : collapse re = collapse le := liftSig_inj _ _ (by rw [hls, hrs, hw.2])
    rw [collapse_append_same _ _ this, hls]
    rfl
  | .query s sel pre grp post ord rows, hw, ht, hp => by
    simp only [Source.wf, Bool.and_eq_true] at hw
    simp only [Source.tame, Bool.and_eq_true] at ht
    cases hsel : sel.isEmpty with
    | true =>
      have hps : s.plain = true := by
        simpa [Source.plain, Source.outs, Source.sig, hsel] using hp
      obtain ⟨es, he, hs⟩ := Source.entries_spec s hw.1.1.1.1.1.1 ht.1.1.1.1.1 hps
      exact ⟨es, by simp only [Source.entries, hsel, he, if_true], by simp only [Source.sig, hsel, if_true, hs]⟩
    | false =>
      rw [Source.plain_iff] at hp
      simp only [Source.outs, Source.sig, hsel, Bool.false_eq_true, if_false] at hp
      obtain ⟨S, hS⟩ := exists_liftSig _ hp.2.1
      have he := (Features.entriesOf_iff sel hw.1.1.1.1.1.2 ht.1.1.1.1.2 S).mpr hS
      refine ⟨S, by simp only [Source.entries, hsel, Bool.false_eq_true, if_false, he], ?_⟩
      have hn : (S.map (·.1)).Nodup := liftSig_names_nodup S (hS ▸ hp.2.2)
      simp only [Source.sig, hsel, Bool.false_eq_true, if_false]
      rw [collapse_nodup S hn, hS]
end

theorem schemaS_lift (S : Fields) (sg : List (Option String × Option Kind)) (h : liftSig S = sg) :
    sg.mapM (fun p => match p with
      | (some n, some k) => some (n, k)
      | _ => none) = some S := by
  subst h
  induction S with
  | nil => rfl
  | cons p S ih => simp [liftSig_cons, List.mapM_cons, ih]

end ForML.Dsl
