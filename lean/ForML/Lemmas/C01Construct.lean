/-
C01 — `flow.Segment(head, tail)` accepts every well-formed connected segment (`Segment.construct = .ok ()`): the head is
simple, the tail search of `Traversal.tail(expected)` (`existsE`: no global `seen` set, `Cyclic` when a subscriber is on
the current path, `any` stopping at the first hit) neither raises `Cyclic` nor misses the tail, and the tail is simple.
-/
import ForML.Lemmas.C01Traversal
import ForML.Lemmas.C01Sem

set_option linter.unusedSimpArgs false

namespace ForML.Flow
namespace Segment

theorem mem_mappers {g : Segment} {n m : Uid} :
    m ∈ g.mappers n ↔ ∃ w e, g.worker? n = some w ∧ e ∈ g.edges ∧ e.pub = w.uid ∧ e.pubPort < w.szout ∧ e.sub = m ∧
      g.trained m = false := by
  unfold mappers
  cases hw : g.worker? n with
  | none => simp
  | some w =>
    simp only [List.mem_filter, List.mem_map, mem_outEdges, Bool.not_eq_true']
    constructor
    · rintro ⟨⟨e, ⟨he, hp, hi⟩, rfl⟩, ht⟩
      exact ⟨w, e, rfl, he, hp, hi, rfl, ht⟩
    · rintro ⟨w', e, hw', he, hp, hi, rfl, ht⟩
      cases hw'
      exact ⟨⟨e, ⟨he, hp, hi⟩, rfl⟩, ht⟩

/-- a path along mapper subscriptions from `n` to `t` -/
inductive MPath (g : Segment) (t : Uid) : Uid → Prop where
  | here : MPath g t t
  | step {n m : Uid} : m ∈ g.mappers n → MPath g t m → MPath g t n

theorem anyE_ok {l : List Uid} {k : Uid → Except SErr Bool} (h : ∀ m ∈ l, ∃ b, k m = .ok b) :
    ∃ b, anyE l k = .ok b ∧ ((∃ m ∈ l, k m = .ok true) → b = true) := by
  induction l with
  | nil => exact ⟨false, rfl, fun ⟨_, hm, _⟩ => by cases hm⟩
  | cons x r ih =>
    obtain ⟨bx, hbx⟩ := h x (by simp)
    obtain ⟨br, hr, hrt⟩ := ih (fun m hm => h m (List.mem_cons_of_mem _ hm))
    cases bx with
    | true => exact ⟨true, by simp [anyE, hbx], fun _ => rfl⟩
    | false =>
      refine ⟨br, by simp [anyE, hbx, hr], ?_⟩
      rintro ⟨m, hm, hkm⟩
      rcases List.mem_cons.mp hm with rfl | hm
      · rw [hbx] at hkm; cases hkm
      · exact hrt ⟨m, hm, hkm⟩

/-- in a well-formed segment the tail search never raises, and finds the tail whenever a mapper path leads to it -/
theorem existsE_ok {g : Segment} {rank : Uid → Nat} (hw : WF g rank) (t : Uid) :
    ∀ (f : Nat) (path : List Uid) (n : Uid), n ∈ g.uids → (∀ x ∈ path, rank x < rank n) →
      g.workers.length < f + g.cntW rank n →
      ∃ b, g.existsE t f path n = .ok b ∧ (MPath g t n → b = true) := by
  intro f
  induction f with
  | zero =>
    intro path n _ _ hf
    have := cntW_le g rank n
    omega
  | succ f ih =>
    intro path n hn hpath hf
    simp only [existsE]
    by_cases hnt : n = t
    · rw [if_pos hnt]
      exact ⟨true, rfl, fun _ => rfl⟩
    · rw [if_neg hnt]
      have hk : ∀ m ∈ g.mappers n, ∃ b,
          (if (n :: path).contains m then Except.error SErr.cyclic else g.existsE t f (n :: path) m) = .ok b ∧
            (MPath g t m → b = true) := by
        intro m hm
        obtain ⟨w, e, hwn, he, hpub, _, hsub, _⟩ := mem_mappers.mp hm
        have hok := hw.edge e he
        have hnid : w.uid = n := (worker?_some hwn).2
        have hrk : rank n < rank m := by have := hok.rank; rw [hpub, hnid, hsub] at this; exact this
        obtain ⟨s, hs, _⟩ := hok.sub
        obtain ⟨hsm, hsid⟩ := worker?_some hs
        rw [hsub] at hsid
        have hmu : m ∈ g.uids := mem_uids.mpr ⟨s, hsm, hsid⟩
        have hnc : (n :: path).contains m = false := by
          cases hc : (n :: path).contains m with
          | false => rfl
          | true =>
            rcases List.mem_cons.mp (List.contains_iff_mem.mp hc) with h | h
            · rw [h] at hrk; omega
            · have := hpath m h; omega
        simp only [hnc]
        apply ih (n :: path) m hmu
        · intro x hx
          rcases List.mem_cons.mp hx with rfl | hx
          · exact hrk
          · exact Nat.lt_trans (hpath x hx) hrk
        · have := cntW_lt (g := g) (rank := rank) hsm (p := n) (by rw [hsid]; exact hrk)
          rw [hsid] at this
          omega
      obtain ⟨b, hb, hbt⟩ := anyE_ok (l := g.mappers n)
        (k := fun m => if (n :: path).contains m then Except.error SErr.cyclic else g.existsE t f (n :: path) m)
        (fun m hm => let ⟨b, h1, _⟩ := hk m hm; ⟨b, h1⟩)
      refine ⟨b, hb, fun hp => ?_⟩
      cases hp with
      | here => exact absurd rfl hnt
      | @step _ m hm hp' =>
        obtain ⟨bm, h1, h2⟩ := hk m hm
        exact hbt ⟨m, hm, by rw [h1, h2 hp']⟩

theorem wf_tail {g : Segment} {rank : Uid → Nat} (h : g.wf rank = true) :
    ∃ t, g.worker? g.tail = some t ∧ t.szout ≤ 1 ∧ g.trained g.tail = false := by
  simp only [wf, Bool.and_eq_true] at h
  have h7 := h.1.1.2
  cases ht : g.worker? g.tail with
  | none => simp [ht] at h7
  | some t =>
    simp only [ht, Bool.and_eq_true, decide_eq_true_eq, Bool.not_eq_true'] at h7
    have := (worker?_some ht).2
    exact ⟨t, rfl, h7.1, by rw [← this]; exact h7.2⟩

/-- nothing but itself is reachable from a node without followed subscribers -/
theorem reach_of_no_followed {g : Segment} {a x : Uid} (h : g.followed a = []) (hr : Reach g.followed a x) : x = a := by
  induction hr with
  | refl => rfl
  | step _ hc ih => rw [ih, h] at hc; cases hc

/-- the head of a well-formed connected segment is not trained -/
theorem head_not_trained {g : Segment} {rank : Uid → Nat} (hw : WF g rank) (hc : g.connected = true) :
    g.trained g.head = false := by
  cases htr : g.trained g.head with
  | false => rfl
  | true =>
    exfalso
    obtain ⟨w, hwm, hid⟩ := mem_uids.mp hw.head
    have hok := hw.trainedOK hwm (by rw [hid]; exact htr)
    obtain ⟨x, hx⟩ := hok.train
    obtain ⟨hxe, hxs, _⟩ := publisher_some hx
    have hex := hw.edge x hxe
    obtain ⟨p, hp, _⟩ := hex.pub
    obtain ⟨hpm, hpid⟩ := worker?_some hp
    have hreach := reach_of_connected hw hc x.pub (mem_uids.mpr ⟨p, hpm, hpid⟩)
    have hnof : g.followed g.head = [] := by
      cases hf : g.followed g.head with
      | nil => rfl
      | cons m r =>
        have hm : m ∈ g.followed g.head := by rw [hf]; exact List.mem_cons_self
        obtain ⟨w', e, hw', he, hpub, _, _, _⟩ := mem_followed.mp hm
        have : w'.uid = g.head := (worker?_some hw').2
        exact absurd (by rw [hpub, this, hid]) (hok.noOut e he)
    have := reach_of_no_followed hnof hreach
    have hr := hex.rank
    rw [this, hxs, hid] at hr
    omega

theorem mpath_of_reach {g : Segment} {rank : Uid → Nat} (hw : WF g rank) (htt : g.trained g.tail = false) {a c : Uid}
    (hr : Reach g.followed a c) (hp : MPath g g.tail c) : MPath g g.tail a := by
  induction hr with
  | refl => exact hp
  | @step b c _ hc ih =>
    apply ih
    obtain ⟨w, e, hwb, he, hpub, hport, hsub, _⟩ := mem_followed.mp hc
    have hnt : g.trained c = false := by
      cases htr : g.trained c with
      | false => rfl
      | true =>
        exfalso
        cases hp with
        | here => rw [htt] at htr; cases htr
        | step hm _ =>
          obtain ⟨w', e', hw', he', hpub', _, _, _⟩ := mem_mappers.mp hm
          obtain ⟨hwm', hid'⟩ := worker?_some hw'
          exact (hw.trainedOK hwm' (by rw [hid']; exact htr)).noOut e' he' hpub'
    exact .step (mem_mappers.mpr ⟨w, e, hwb, he, hpub, hport, hsub, hnt⟩) hp

/-- **`flow.Segment(head, tail)` accepts every well-formed connected segment** -/
theorem construct_ok {g : Segment} {rank : Uid → Nat} (h : g.wf rank = true) (hc : g.connected = true) :
    g.construct = .ok () := by
  have hw := wf_WF h
  obtain ⟨t, ht, hszout, htt⟩ := wf_tail h
  obtain ⟨hd, hdm, hdid⟩ := mem_uids.mp hw.head
  have hhd : g.worker? g.head = some hd := by rw [← hdid]; exact worker?_of_mem hw.nodup hdm
  have hszin : hd.szin ≤ 1 := by
    have hp := hw.portsOK hd hdm
    have hnt := head_not_trained hw hc
    simp [Segment.portsOK, hdid, hnt] at hp
    exact hp.2
  have hmp : MPath g g.tail g.head :=
    mpath_of_reach hw htt (reach_of_connected hw hc g.tail hw.tail) .here
  obtain ⟨b, hb, hbt⟩ := existsE_ok hw g.tail (g.workers.length + 1) [] g.head hw.head (by simp) (by omega)
  have hbtrue := hbt hmp
  subst hbtrue
  simp only [construct, hhd, ht, hb]
  simp [Nat.not_lt.mpr hszin, Nat.not_lt.mpr hszout]

end Segment
end ForML.Flow
