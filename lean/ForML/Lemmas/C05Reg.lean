/-
Helper lemmas for C05 at the level of the registry model: what a registry call touches, which changes a fresh reader
cannot see (frame lemmas for `vis`), listings, numbering.
-/
import ForML.Lemmas.C05WF

namespace ForML.Registry
open ForML.Fs

/-- indistinguishable for a fresh reader -/
def ViewEq (a b : Fs) : Prop := ∀ k, vis a k = vis b k

/-! ### helper lemmas (private) -/

theorem mem_mkdirP (fs : Fs) (path : Path) (op : Op) (h : op ∈ mkdirP fs path) :
    ∃ q ∈ prefixes path, op = .mkdir q ∧ get fs q = none := by
  simp only [mkdirP, List.mem_filterMap] at h
  obtain ⟨q, hq, hop⟩ := h
  by_cases hn : get fs q = none
  · simp [hn] at hop; exact ⟨q, hq, hop.symm, hn⟩
  · simp [hn] at hop

/-- everything a commit touches lies below the new generation directory or below the stage directory -/
theorem closeOps_touches (impl : Impl) (fs : Fs) (p v g : Nat) (t : Tag)
    (hp : get fs (projectP p) ≠ none) (hv : get fs (releaseP p v) ≠ none) :
    ∀ op ∈ closeOps impl fs p v g t, ∀ key, touches op key →
      (generationP p v g <+: key ∨ stageP p v <+: key) := by
  intro op hop key hk
  simp only [closeOps, List.mem_append, List.mem_map] at hop
  rcases hop with (hop | ⟨s, _, rfl⟩) | hop
  · obtain ⟨q, hq, rfl, hn⟩ := mem_mkdirP _ _ _ hop
    simp only [generationP, prefixes, List.map_cons, List.map_nil, List.mem_cons, List.not_mem_nil, or_false] at hq
    simp only [touches] at hk; subst hk
    rcases hq with rfl | rfl | rfl
    · exact absurd hn hp
    · exact absurd hn hv
    · exact Or.inl (List.prefix_refl _)
  · simp only [touches] at hk
    rcases hk with hk | hk
    · right
      exact List.IsPrefix.trans (by simp [stageP, stagedStateP]) hk
    · left
      exact List.IsPrefix.trans (by simp [generationP, stateP]) hk
  · left
    unfold tagWriteOps at hop
    split at hop
    · simp only [List.mem_cons, List.not_mem_nil, or_false] at hop
      rcases hop with rfl | rfl | rfl
      · simp only [touches] at hk; subst hk; simp [generationP, tagTmpP]
      · simp only [touches] at hk; subst hk; simp [generationP, tagTmpP]
      · simp only [touches] at hk
        rcases hk with hk | hk
        · exact List.IsPrefix.trans (by simp [generationP, tagTmpP]) hk
        · exact List.IsPrefix.trans (by simp [generationP, tagP]) hk
    · simp only [List.mem_cons, List.not_mem_nil, or_false] at hop
      rcases hop with rfl | rfl
      · simp only [touches] at hk; subst hk; simp [generationP, tagP]
      · simp only [touches] at hk; subst hk; simp [generationP, tagP]

/-- the part of a commit before the tag becomes visible never touches the tag path -/
theorem closePrefix_not_tag (fs : Fs) (p v g : Nat) (sids : List Nat) (extra : List Op)
    (hx : ∀ op ∈ extra, ¬ touches op (tagP p v g)) :
    ∀ op ∈ mkdirP fs (generationP p v g)
        ++ sids.map (fun s => Op.rename (stagedStateP p v s) (stateP p v g s)) ++ extra,
      ¬ touches op (tagP p v g) := by
  intro op hop
  simp only [List.mem_append, List.mem_map] at hop
  rcases hop with (hop | ⟨s, _, rfl⟩) | hop
  · obtain ⟨q, hq, rfl, _⟩ := mem_mkdirP _ _ _ hop
    simp only [generationP, prefixes, List.map_cons, List.map_nil, List.mem_cons, List.not_mem_nil, or_false] at hq
    rcases hq with rfl | rfl | rfl <;> simp [touches, tagP]
  · simp [touches, tagP, stagedStateP, stateP]
  · exact hx op hop

/-- a reader never looks below the stage directory, and below a generation directory only through its tag -/
theorem vis_frame_gen (a b : Fs) (p v g : Nat)
    (hf : ∀ key, ¬ (generationP p v g <+: key) → ¬ (stageP p v <+: key) → get a key = get b key) :
    ∀ key, ¬ (generationP p v g <+: key) → vis a key = vis b key := by
  have rl : ∀ p' v', relListed a p' v' = relListed b p' v' := by
    intro p' v'
    simp only [relListed, isDir]
    rw [hf (projectP p') (by simp [generationP, projectP]) (by simp [stageP, projectP]),
        hf (releaseP p' v') (by simp [generationP, releaseP]) (by simp [stageP, releaseP]),
        hf (packageP p' v') (by simp [generationP, packageP]) (by simp [stageP, packageP])]
  intro key hkey
  unfold vis
  split
  · rename_i p' v'
    rw [rl, hf (packageP p' v') (by simp [generationP, packageP]) (by simp [stageP, packageP])]
  · rename_i p' v' i
    have e := hf (packageP p' v' ++ [Seg.member i]) (by simp [generationP, packageP]) (by simp [stageP, packageP])
    rw [rl, e]
  · rename_i p' v' g'
    have hne : ¬ (p = p' ∧ v = v' ∧ g = g') := by
      intro ⟨h1, h2, h3⟩; subst h1 h2 h3; exact hkey (by simp [generationP])
    have e1 := hf (generationP p' v' g') (by simpa [generationP] using hne) (by simp [stageP, generationP])
    have e2 := hf (tagP p' v' g') (by simpa [generationP, tagP] using hne) (by simp [stageP, tagP])
    simp [genListed, genValid, isDir, rl, e1, e2]
  · rename_i p' v' g' s
    have hne : ¬ (p = p' ∧ v = v' ∧ g = g') := by
      intro ⟨h1, h2, h3⟩; subst h1 h2 h3; exact hkey (by simp [generationP])
    have e1 := hf (generationP p' v' g') (by simpa [generationP] using hne) (by simp [stageP, generationP])
    have e2 := hf (tagP p' v' g') (by simpa [generationP, tagP] using hne) (by simp [stageP, tagP])
    have e3 := hf (stateP p' v' g' s) (by simpa [generationP, stateP] using hne) (by simp [stageP, stateP])
    simp [genListed, genValid, isDir, tagOf, rl, e1, e2, e3]
  · rfl

/-- a generation directory without `tag.toml` is invisible, whatever else it holds -/
theorem vis_hidden_gen (a : Fs) (p v g : Nat) (ht : get a (tagP p v g) = none) :
    ∀ key, generationP p v g <+: key → vis a key = none := by
  intro key hkey
  unfold vis
  split
  · simp [generationP] at hkey
  · simp [generationP] at hkey
  · rename_i p' v' g'
    simp [generationP] at hkey
    obtain ⟨rfl, rfl, rfl⟩ := hkey
    simp [genListed, genValid, ht]
  · rename_i p' v' g' s
    simp [generationP] at hkey
    obtain ⟨rfl, rfl, rfl⟩ := hkey
    simp [genListed, genValid, ht]
  · rfl

theorem crashOps_append_le (A B : List Op) (k : Nat) (cut : Option Nat) (hk : k ≤ A.length)
    (hB : ∀ p b, B.head? ≠ some (.append p b)) : crashOps (A ++ B) k cut = crashOps A k cut := by
  unfold crashOps
  rw [List.take_append_of_le_length hk]
  by_cases h1 : k < A.length
  · rw [List.getElem?_append_left h1]
  · have h2 : k = A.length := by omega
    subst h2
    have e2 : A[A.length]? = none := by simp
    rw [e2]
    cases cut with
    | none => rfl
    | some c =>
      cases B with
      | nil => simp
      | cons o r =>
        have e1 : (A ++ o :: r)[A.length]? = some o := by simp
        rw [e1]
        cases o with
        | append p b => exact absurd rfl (hB p b)
        | mkdir p => rfl
        | createEmpty p => rfl
        | rename p q => rfl
        | copyFile p b => rfl
        | rmtree p => rfl

/-- core of the commit theorems: a crash inside the part `A` of a commit that does not touch the tag path leaves a
tree that a fresh reader cannot tell from the one before -/
theorem commit_prefix_invisible (impl : Impl) (fs c : Fs) (p v g : Nat) (t : Tag) (A : List Op)
    (k : Nat) (cut : Option Nat)
    (hA : ∀ op ∈ A, op ∈ closeOps impl fs p v g t) (hAt : ∀ op ∈ A, ¬ touches op (tagP p v g))
    (hp : get fs (projectP p) ≠ none) (hv : get fs (releaseP p v) ≠ none)
    (ht : get fs (tagP p v g) = none) (hc : run fs (crashOps A k cut) = some c) : ViewEq c fs := by
  have htouch := crashOps_touches A k cut
  have hframe : ∀ key, ¬ (generationP p v g <+: key) → ¬ (stageP p v <+: key) → get c key = get fs key := by
    intro key h1 h2
    apply run_frame _ _ _ _ hc
    intro op hop htk
    obtain ⟨op', hop', himp⟩ := htouch op hop
    rcases closeOps_touches impl fs p v g t hp hv op' (hA op' hop') key (himp key htk) with h | h
    · exact h1 h
    · exact h2 h
  have htc : get c (tagP p v g) = none := by
    rw [← ht]
    apply run_frame _ _ _ _ hc
    intro op hop htk
    obtain ⟨op', hop', himp⟩ := htouch op hop
    exact hAt op' hop' (himp _ htk)
  intro key
  by_cases hkey : generationP p v g <+: key
  · rw [vis_hidden_gen c p v g htc key hkey, vis_hidden_gen fs p v g ht key hkey]
  · exact vis_frame_gen c fs p v g hframe key hkey

theorem le_maxOf (l : List Nat) (x : Nat) (hx : x ∈ l) : ∃ m, maxOf l = some m ∧ x ≤ m := by
  induction l with
  | nil => cases hx
  | cons y r ih =>
    simp only [maxOf]
    rcases List.mem_cons.mp hx with rfl | hx
    · cases maxOf r with
      | none => exact ⟨x, rfl, Nat.le_refl _⟩
      | some m => exact ⟨max x m, rfl, Nat.le_max_left _ _⟩
    · obtain ⟨m, hm, hle⟩ := ih hx
      rw [hm]
      exact ⟨max y m, rfl, Nat.le_trans hle (Nat.le_max_right _ _)⟩

theorem atomsAll_append (X Y : List Op) : atomsAll (X ++ Y) = atomsAll X ++ atomsAll Y := by
  simp [atomsAll]

theorem atoms_touches (op a : Op) (ha : a ∈ op.atoms) : ∀ key, touches a key → touches op key := by
  cases op <;> simp only [Op.atoms, List.mem_cons, List.not_mem_nil, or_false] at ha
  all_goals first
    | (subst ha; exact fun _ h => h)
    | (rcases ha with rfl | rfl <;> exact fun _ h => h)

theorem atomsAll_touches (ops : List Op) (a : Op) (ha : a ∈ atomsAll ops) :
    ∃ op ∈ ops, ∀ key, touches a key → touches op key := by
  simp only [atomsAll, List.mem_flatMap] at ha
  obtain ⟨op, hop, hin⟩ := ha
  exact ⟨op, hop, atoms_touches op a hin⟩

/-- what the repaired `push` touches before its final rename -/
theorem pushPrefix_touches (fs : Fs) (p v : Nat) (tmpOps : List Op)
    (htmp : ∀ op ∈ tmpOps, ∀ key, touches op key → packageTmpP p v <+: key) :
    ∀ op ∈ mkdirP fs (releaseP p v) ++ tmpOps, ∀ key, touches op key →
      (key = projectP p ∧ get fs key = none) ∨ (key = releaseP p v ∧ get fs key = none)
        ∨ packageTmpP p v <+: key := by
  intro op hop key hk
  rcases List.mem_append.mp hop with hop | hop
  · obtain ⟨q, hq, rfl, hn⟩ := mem_mkdirP _ _ _ hop
    simp only [releaseP, prefixes, List.map_cons, List.map_nil, List.mem_cons, List.not_mem_nil, or_false] at hq
    simp only [touches] at hk; subst hk
    rcases hq with rfl | rfl
    · exact Or.inl ⟨rfl, hn⟩
    · exact Or.inr (Or.inl ⟨rfl, hn⟩)
  · exact Or.inr (Or.inr (htmp op hop key hk))

/-- creating the (missing) project / release directories and anything below the temporary package name is
invisible as long as the release has no `package.4ml` -/
theorem vis_frame_rel (a b : Fs) (p v : Nat) (w : WF b)
    (hf : ∀ key, key ≠ projectP p → key ≠ releaseP p v → ¬ (packageTmpP p v <+: key) → get a key = get b key)
    (h1 : get b (projectP p) ≠ none → get a (projectP p) = get b (projectP p))
    (hb : get b (packageP p v) = none) : ViewEq a b := by
  have ha : get a (packageP p v) = none := by
    rw [hf (packageP p v) (by simp [packageP, projectP]) (by simp [packageP, releaseP])
      (by simp [packageP, packageTmpP])]; exact hb
  have rl : ∀ p' v', relListed a p' v' = relListed b p' v' := by
    intro p' v'
    by_cases hpp : p' = p
    · subst hpp
      by_cases hvv : v' = v
      · subst hvv; simp [relListed, ha, hb]
      · have e2 := hf (releaseP p' v') (by simp [releaseP, projectP]) (by simp [releaseP, hvv])
          (by simp [releaseP, packageTmpP])
        have e3 := hf (packageP p' v') (by simp [packageP, projectP]) (by simp [packageP, releaseP])
          (by simp [packageP, packageTmpP])
        by_cases hn : get b (projectP p') = none
        · have hbn : get b (releaseP p' v') = none := by
            cases hr : get b (releaseP p' v') with
            | none => rfl
            | some n =>
              have := w.parent_dir (releaseP p' v') n hr (by simp [releaseP])
              simp [parent, releaseP, projectP] at this hn
              rw [hn] at this; cases this
          simp [relListed, isDir, e2, hbn]
        · simp [relListed, isDir, e2, e3, h1 hn]
    · have e1 := hf (projectP p') (by simp [projectP, hpp]) (by simp [releaseP, projectP])
        (by simp [projectP, packageTmpP])
      have e2 := hf (releaseP p' v') (by simp [releaseP, projectP]) (by simp [releaseP, hpp])
        (by simp [releaseP, packageTmpP])
      have e3 := hf (packageP p' v') (by simp [packageP, projectP]) (by simp [packageP, releaseP])
        (by simp [packageP, packageTmpP])
      simp [relListed, isDir, e1, e2, e3]
  intro key
  unfold vis
  split
  · rename_i p' v'
    by_cases hpv : p' = p ∧ v' = v
    · obtain ⟨rfl, rfl⟩ := hpv; rw [rl]; simp [ha, hb]
    · have e := hf (packageP p' v') (by simp [packageP, projectP]) (by simp [packageP, releaseP])
        (by simp [packageP, packageTmpP])
      rw [rl, e]
  · rename_i p' v' i
    have e := hf (packageP p' v' ++ [Seg.member i]) (by simp [packageP, projectP]) (by simp [packageP, releaseP])
      (by simp [packageP, packageTmpP])
    rw [rl, e]
  · rename_i p' v' g'
    have e1 := hf (generationP p' v' g') (by simp [generationP, projectP]) (by simp [generationP, releaseP])
      (by simp [generationP, packageTmpP])
    have e2 := hf (tagP p' v' g') (by simp [tagP, projectP]) (by simp [tagP, releaseP]) (by simp [tagP, packageTmpP])
    simp [genListed, genValid, isDir, rl, e1, e2]
  · rename_i p' v' g' s
    have e1 := hf (generationP p' v' g') (by simp [generationP, projectP]) (by simp [generationP, releaseP])
      (by simp [generationP, packageTmpP])
    have e2 := hf (tagP p' v' g') (by simp [tagP, projectP]) (by simp [tagP, releaseP]) (by simp [tagP, packageTmpP])
    have e3 := hf (stateP p' v' g' s) (by simp [stateP, projectP]) (by simp [stateP, releaseP])
      (by simp [stateP, packageTmpP])
    simp [genListed, genValid, isDir, tagOf, rl, e1, e2, e3]
  · rfl


/-! ### views -/

theorem ViewEq.refl (a : Fs) : ViewEq a a := fun _ => rfl
theorem ViewEq.symm {a b : Fs} (h : ViewEq a b) : ViewEq b a := fun k => (h k).symm
theorem ViewEq.trans {a b c : Fs} (h1 : ViewEq a b) (h2 : ViewEq b c) : ViewEq a c := fun k => (h1 k).trans (h2 k)

/-- generation 0 is never listed (`Generation.Key` must be natural) -/
theorem vis_gen0 (fs : Fs) (p v : Nat) : ∀ key, generationP p v 0 <+: key → vis fs key = none := by
  intro key hkey
  unfold vis
  split
  · simp [generationP] at hkey
  · simp [generationP] at hkey
  · rename_i p' v' g'
    simp [generationP] at hkey
    obtain ⟨rfl, rfl, rfl⟩ := hkey
    simp [genListed, genValid]
  · rename_i p' v' g' s
    simp [generationP] at hkey
    obtain ⟨rfl, rfl, rfl⟩ := hkey
    simp [genListed, genValid]
  · rfl

/-- a reader never looks below the stage directory -/
theorem vis_frame_stage (a b : Fs) (p v : Nat)
    (hf : ∀ key, ¬ (stageP p v <+: key) → get a key = get b key) : ViewEq a b := by
  intro key
  by_cases hkey : generationP p v 0 <+: key
  · rw [vis_gen0 a p v key hkey, vis_gen0 b p v key hkey]
  · exact vis_frame_gen a b p v 0 (fun k _ h2 => hf k h2) key hkey

/-! ### listings as sets -/

theorem mem_keys (fs : Fs) (k : Path) : k ∈ keys fs ↔ ∃ n, get fs k = some n := by
  simp only [keys, List.mem_eraseDups, List.mem_map]
  constructor
  · rintro ⟨e, he, rfl⟩
    exact get_of_mem fs e.1 e.2 he
  · rintro ⟨n, hn⟩
    exact ⟨(k, n), mem_of_get fs k n hn, rfl⟩

theorem mem_generationsOf (fs : Fs) (p v g : Nat) : g ∈ generationsOf fs p v ↔ genValid fs p v g = true := by
  simp only [generationsOf, List.mem_filterMap]
  constructor
  · rintro ⟨k, _, hk⟩
    split at hk
    · rename_i p' v' g'
      split at hk
      · rename_i hc
        obtain ⟨rfl, rfl, hval⟩ := hc
        cases hk; exact hval
      · cases hk
    · cases hk
  · intro hval
    refine ⟨generationP p v g, ?_, by simp [generationP, hval]⟩
    rw [mem_keys]
    simp only [genValid, Bool.and_eq_true, isDir, beq_iff_eq] at hval
    exact ⟨.dir, hval.1.2⟩

theorem mem_releasesOf (fs : Fs) (p w : Nat) : w ∈ releasesOf fs p ↔ relListed fs p w = true := by
  simp only [releasesOf, List.mem_filterMap]
  constructor
  · rintro ⟨k, _, hk⟩
    split at hk
    · rename_i p' v'
      split at hk
      · rename_i hc
        obtain ⟨rfl, hval⟩ := hc
        cases hk; exact hval
      · cases hk
    · cases hk
  · intro hval
    refine ⟨releaseP p w, ?_, by simp [releaseP, hval]⟩
    rw [mem_keys]
    simp only [relListed, Bool.and_eq_true, isDir, beq_iff_eq] at hval
    exact ⟨.dir, hval.1.2⟩

/-! ### numbering -/

theorem nextGen_pos (fs : Fs) (p v : Nat) : 1 ≤ nextGen fs p v := by
  unfold nextGen; split <;> omega

theorem mem_maxOf (l : List Nat) (hne : l ≠ []) : ∃ m, maxOf l = some m ∧ m ∈ l := by
  induction l with
  | nil => exact absurd rfl hne
  | cons y r ih =>
    simp only [maxOf]
    cases hr : maxOf r with
    | none => exact ⟨y, rfl, by simp⟩
    | some m =>
      have : r ≠ [] := by intro h; simp [h, maxOf] at hr
      obtain ⟨m', hm', hin⟩ := ih this
      rw [hr] at hm'; cases hm'
      refine ⟨max y m, rfl, ?_⟩
      rcases Nat.le_total y m with h | h
      · rw [Nat.max_eq_right h]; exact List.mem_cons_of_mem _ hin
      · rw [Nat.max_eq_left h]; simp

/-- `Release.put` numbers the new generation 1 for an empty listing and otherwise one above *every* listed
generation, the number below being listed -/
theorem nextGen_spec (fs : Fs) (p v : Nat) :
    (generationsOf fs p v = [] → nextGen fs p v = 1) ∧
    (∀ g ∈ generationsOf fs p v, g < nextGen fs p v) ∧
    (generationsOf fs p v ≠ [] → nextGen fs p v - 1 ∈ generationsOf fs p v) := by
  refine ⟨?_, ?_, ?_⟩
  · intro h; simp [nextGen, h, maxOf]
  · intro g hg
    obtain ⟨m, hm, hle⟩ := le_maxOf _ g hg
    simp [nextGen, hm]; omega
  · intro hne
    obtain ⟨m, hm, hin⟩ := mem_maxOf _ hne
    simp [nextGen, hm]; exact hin

theorem genValid_nextGen (fs : Fs) (p v : Nat) : genValid fs p v (nextGen fs p v) = false := by
  cases h : genValid fs p v (nextGen fs p v) with
  | false => rfl
  | true =>
    have := (nextGen_spec fs p v).2.1 _ ((mem_generationsOf fs p v _).mpr h)
    omega

/-- the number depends on the set of listed generations only -/
theorem nextGen_congr (a b : Fs) (p v : Nat) (h : ∀ g, genValid a p v g = genValid b p v g) :
    nextGen a p v = nextGen b p v := by
  have mem : ∀ g, g ∈ generationsOf a p v ↔ g ∈ generationsOf b p v := by
    intro g; rw [mem_generationsOf, mem_generationsOf, h]
  have sa := nextGen_spec a p v
  have sb := nextGen_spec b p v
  by_cases ha : generationsOf a p v = []
  · have hb : generationsOf b p v = [] := by
      cases hl : generationsOf b p v with
      | nil => rfl
      | cons x r =>
        have : x ∈ generationsOf a p v := (mem x).mpr (by rw [hl]; simp)
        rw [ha] at this; cases this
    rw [sa.1 ha, sb.1 hb]
  · have hb : generationsOf b p v ≠ [] := by
      intro hb
      obtain ⟨m, _, hin⟩ := mem_maxOf _ ha
      have := (mem m).mp hin
      rw [hb] at this; cases this
    have h1 := sb.2.1 _ ((mem _).mp (sa.2.2 ha))
    have h2 := sa.2.1 _ ((mem _).mpr (sb.2.2 hb))
    have := nextGen_pos a p v
    have := nextGen_pos b p v
    omega

theorem decode_encode (t : Tag) : decodeTag (encodeTag t) = some t := by
  simp [encodeTag, decodeTag]

/-! ### operation lists without `copyFile` are their own atoms -/

theorem atomsAll_eq_self (l : List Op) (h : ∀ op ∈ l, ∀ p b, op ≠ .copyFile p b) : atomsAll l = l := by
  induction l with
  | nil => rfl
  | cons a r ih =>
    have hr := ih (fun op hop => h op (List.mem_cons_of_mem _ hop))
    have ha := h a (by simp)
    simp only [atomsAll, List.flatMap_cons] at hr ⊢
    rw [hr]
    cases a <;> first | rfl | exact absurd rfl (ha _ _)

theorem atomsAll_no_copy (l : List Op) : ∀ a ∈ atomsAll l, ∀ p b, a ≠ .copyFile p b := by
  intro a ha p b
  simp only [atomsAll, List.mem_flatMap] at ha
  obtain ⟨op, _, hin⟩ := ha
  cases op <;> simp only [Op.atoms, List.mem_cons, List.not_mem_nil, or_false] at hin
  all_goals first
    | (subst hin; intro h; cases h)
    | (rcases hin with rfl | rfl <;> (intro h; cases h))

theorem atomsAll_take_atoms (l : List Op) (j : Nat) : atomsAll ((atomsAll l).take j) = (atomsAll l).take j :=
  atomsAll_eq_self _ (fun op hop => atomsAll_no_copy l op (List.mem_of_mem_take hop))

theorem mkdirP_no_copy (fs : Fs) (path : Path) : ∀ op ∈ mkdirP fs path, ∀ p b, op ≠ .copyFile p b := by
  intro op hop p b
  obtain ⟨q, _, rfl, _⟩ := mem_mkdirP _ _ _ hop
  intro h; cases h

theorem atomsAll_closeOps (impl : Impl) (fs : Fs) (p v g : Nat) (t : Tag) :
    atomsAll (closeOps impl fs p v g t) = closeOps impl fs p v g t := by
  apply atomsAll_eq_self
  intro op hop p' b
  simp only [closeOps, List.mem_append, List.mem_map] at hop
  rcases hop with (hop | ⟨s, _, rfl⟩) | hop
  · exact mkdirP_no_copy _ _ op hop p' b
  · intro h; cases h
  · unfold tagWriteOps at hop
    split at hop <;> simp only [List.mem_cons, List.not_mem_nil, or_false] at hop
    · rcases hop with rfl | rfl | rfl <;> (intro h; cases h)
    · rcases hop with rfl | rfl <;> (intro h; cases h)

theorem atomsAll_writeOps (fs : Fs) (p v sid : Nat) (b : Bytes) :
    atomsAll (writeOps fs p v sid b) = writeOps fs p v sid b := by
  apply atomsAll_eq_self
  intro op hop p' b'
  simp only [writeOps, List.mem_append, List.mem_cons, List.not_mem_nil, or_false] at hop
  rcases hop with hop | rfl | rfl
  · exact mkdirP_no_copy _ _ op hop p' b'
  · intro h; cases h
  · intro h; cases h

/-- staging a state touches only the stage directory of its release -/
theorem writeOps_touches (fs : Fs) (p v sid : Nat) (b : Bytes)
    (hp : get fs (projectP p) ≠ none) (hv : get fs (releaseP p v) ≠ none) :
    ∀ op ∈ writeOps fs p v sid b, ∀ key, touches op key → stageP p v <+: key := by
  intro op hop key hk
  simp only [writeOps, List.mem_append, List.mem_cons, List.not_mem_nil, or_false] at hop
  rcases hop with hop | rfl | rfl
  · obtain ⟨q, hq, rfl, hn⟩ := mem_mkdirP _ _ _ hop
    simp only [stageP, prefixes, List.map_cons, List.map_nil, List.mem_cons, List.not_mem_nil, or_false] at hq
    simp only [touches] at hk; subst hk
    rcases hq with rfl | rfl | rfl
    · exact absurd hn hp
    · exact absurd hn hv
    · exact List.prefix_refl _
  · simp only [touches] at hk; subst hk; simp [stageP, stagedStateP]
  · simp only [touches] at hk; subst hk; simp [stageP, stagedStateP]

end ForML.Registry
