/-
C06 — reader level, lazy (file / inline backed) feeds: the process-global backend holds copies of the storage's tables.
As long as the storage does not change and a statement uses a column of each of its tables (so that every table gets
registered), evaluating the emitted SQL over the backend is evaluating it over the storage.  Core Lean only.
-/
import ForML.Lemmas.C06Parse
import ForML.Lemmas.C06Render
import ForML.Model.FeedCache

namespace ForML.C06
open ForML.Dsl ForML.Rel ForML.Parser ForML.Denote
open ForML.FeedCache (Feed State FeedKind storageOf registerTables usedTables tablesOf)

/-! ### the emitted SQL only looks at the tables it names -/

/-- the physical tables a selectable reads -/
def sqlTables : SqlSel → List String
  | .table n => [n]
  | .alias i _ => sqlTables i
  | .join l r _ _ _ => sqlTables l ++ sqlTables r
  | .select _ frm _ _ _ _ _ _ => sqlTables frm
  | .compound _ l r => sqlTables l ++ sqlTables r

theorem eval_agree (db db' : Db) : ∀ (q : SqlSel), (∀ n ∈ sqlTables q, db.lookup n = db'.lookup n) →
    evalFrom q db = evalFrom q db' ∧ evalOut q db = evalOut q db' := by
  intro q
  induction q with
  | table n =>
    intro h
    have := h n (by simp [sqlTables])
    simp [evalFrom, evalOut, this]
  | «alias» i name ih =>
    intro h
    have hi := ih (by simpa [sqlTables] using h)
    refine ⟨?_, by simp [evalOut]⟩
    cases i with
    | table n =>
      have := h n (by simp [sqlTables])
      simp [evalFrom, this]
    | «alias» a b => simp [evalFrom, hi.2]
    | join a b c d e => simp [evalFrom, hi.2]
    | select a b c d e f g i => simp [evalFrom, hi.2]
    | compound a b c => simp [evalFrom, hi.2]
  | join l r on full isouter ihl ihr =>
    intro h
    have hl := ihl (fun n hn => h n (by simp [sqlTables, hn]))
    have hr := ihr (fun n hn => h n (by simp [sqlTables, hn]))
    simp [evalFrom, evalOut, hl.1, hr.1]
  | select items frm whr grp hav ord lim off ih =>
    intro h
    have hf := ih (by simpa [sqlTables] using h)
    simp [evalFrom, evalOut, hf.1]
  | compound o l r ihl ihr =>
    intro h
    have hl := ihl (fun n hn => h n (by simp [sqlTables, hn]))
    have hr := ihr (fun n hn => h n (by simp [sqlTables, hn]))
    simp [evalFrom, evalOut, hl.2, hr.2]

/-- every physical table the translation reads is the provisioned name of a table of the statement -/
theorem compile_tables (srcs : Sources) : ∀ (s : Source) (q : SqlSel), compile srcs s = some q →
    ∀ n ∈ sqlTables q, ∃ t ∈ tablesOf s, srcs.lookup t = some n
  | .table nm fields, q, h, n, hn => by
    simp only [compile, Option.map_eq_some_iff] at h
    obtain ⟨pn, hpn, rfl⟩ := h
    simp only [sqlTables, List.mem_singleton] at hn
    subst hn
    exact ⟨.table nm fields, by simp [tablesOf], hpn⟩
  | .ref inst name, q, h, n, hn => by
    simp only [compile, Option.map_eq_some_iff] at h
    obtain ⟨qi, hqi, rfl⟩ := h
    obtain ⟨t, ht, hl⟩ := compile_tables srcs inst qi hqi n (by simpa [sqlTables] using hn)
    exact ⟨t, by simpa [tablesOf] using ht, hl⟩
  | .join l r k c, q, h, n, hn => by
    simp only [compile, bind, Option.bind] at h
    cases hL : compile srcs l with
    | none => simp [hL] at h
    | some L =>
      cases hR : compile srcs r with
      | none => simp [hL, hR] at h
      | some R =>
        have hmem : ∀ m, (m ∈ sqlTables L ∨ m ∈ sqlTables R) → ∃ t ∈ tablesOf (.join l r k c), srcs.lookup t = some m := by
          intro m hm
          rcases hm with hm | hm
          · obtain ⟨t, ht, hl⟩ := compile_tables srcs l L hL m hm
            exact ⟨t, by simp [tablesOf, ht], hl⟩
          · obtain ⟨t, ht, hl⟩ := compile_tables srcs r R hR m hm
            exact ⟨t, by simp [tablesOf, ht], hl⟩
        simp only [hL, hR] at h
        have hfin : ∀ (on : SqlExpr) (o : Bool × Bool × Bool),
            q = (if o.2.2 then SqlSel.join R L on o.1 o.2.1 else SqlSel.join L R on o.1 o.2.1) →
            ∃ t ∈ tablesOf (.join l r k c), srcs.lookup t = some n := by
          intro on o hq
          subst hq
          apply hmem n
          by_cases hsw : o.2.2 = true
          · simp only [hsw, if_true, sqlTables, List.mem_append] at hn
            exact hn.symm
          · have hsw' : o.2.2 = false := by simpa using hsw
            simp only [hsw', Bool.false_eq_true, if_false, sqlTables, List.mem_append] at hn
            exact hn
        cases c with
        | none =>
          simp only [] at h
          cases ho : joinOpt k with
          | none => simp [ho] at h
          | some o =>
            simp only [ho, pure, Option.some.injEq] at h
            exact hfin _ o h.symm
        | some f =>
          simp only [] at h
          cases hon : compileF srcs f with
          | none => simp [hon] at h
          | some on =>
            simp only [hon] at h
            cases ho : joinOpt k with
            | none => simp [ho] at h
            | some o =>
              simp only [ho, pure, Option.some.injEq] at h
              exact hfin on o h.symm
  | .set l r k, q, h, n, hn => by
    simp only [compile, bind, Option.bind] at h
    cases hL : compile srcs l with
    | none => simp [hL] at h
    | some L =>
      cases hR : compile srcs r with
      | none => simp [hL, hR] at h
      | some R =>
        simp only [hL, hR] at h
        cases ho : setOpOf k with
        | none => simp [ho] at h
        | some o =>
          simp only [ho, pure, Option.some.injEq] at h
          subst h
          simp only [sqlTables, List.mem_append] at hn
          rcases hn with hn | hn
          · obtain ⟨t, ht, hl⟩ := compile_tables srcs l L hL n hn
            exact ⟨t, by simp [tablesOf, ht], hl⟩
          · obtain ⟨t, ht, hl⟩ := compile_tables srcs r R hR n hn
            exact ⟨t, by simp [tablesOf, ht], hl⟩
  | .query src sel pre grp post ord rows, q, h, n, hn => by
    simp only [compile, bind, Option.bind] at h
    cases hF : compile srcs src with
    | none => simp [hF] at h
    | some frm =>
      have hsel : ∃ items whr g hav o lim off, q = .select items frm whr g hav o lim off := by
        simp only [hF] at h
        by_cases hs : sel.isEmpty = true
        · simp only [hs, if_true] at h
          cases hi : compileElems srcs src with
          | none => simp [hi] at h
          | some items =>
            simp only [hi] at h
            cases h4 : compileFO srcs pre <;> cases h5 : compileFs srcs grp <;> cases h6 : compileFO srcs post <;>
              cases h7 : compileOrd srcs ord <;> by_cases hie : items.isEmpty = true <;>
              simp [h4, h5, h6, h7, hie, pure] at h
            exact ⟨_, _, _, _, _, _, _, h.symm⟩
        · simp only [hs] at h
          cases hi : compileFs srcs sel with
          | none => simp [hi] at h
          | some items =>
            simp only [hi] at h
            cases h4 : compileFO srcs pre <;> cases h5 : compileFs srcs grp <;> cases h6 : compileFO srcs post <;>
              cases h7 : compileOrd srcs ord <;> by_cases hie : items.isEmpty = true <;>
              simp [h4, h5, h6, h7, hie, pure] at h
            exact ⟨_, _, _, _, _, _, _, h.symm⟩
      obtain ⟨items, whr, g, hav, o, lim, off, rfl⟩ := hsel
      obtain ⟨t, ht, hl⟩ := compile_tables srcs src frm hF n (by simpa [sqlTables] using hn)
      exact ⟨t, by simpa [tablesOf] using ht, hl⟩

/-! ### `registerTables` -/

/-- the backend holds copies of tables of the storage `db` -/
def BackendOk (db : Db) (backend : Db) : Prop := ∀ key c, backend.lookup key = some c → db.lookup key = some c

theorem lookup_filter_ne (key key' : String) : ∀ (l : Db), key' ≠ key →
    (l.filter (·.1 != key)).lookup key' = l.lookup key'
  | [], _ => rfl
  | (k, v) :: l, hne => by
    by_cases hk : k = key
    · subst hk
      have h1 : (key' == k) = false := by simpa using hne
      simp [List.filter, List.lookup, h1, lookup_filter_ne k key' l hne]
    · have h1 : (k != key) = true := by simpa using hk
      simp only [List.filter, h1, List.lookup]
      cases key' == k <;> simp [lookup_filter_ne key key' l hne]

theorem lookup_register (key key' : String) (c : PhysTable) (l : Db) :
    ((key, c) :: l.filter (·.1 != key)).lookup key' = if key' = key then some c else l.lookup key' := by
  by_cases h : key' = key
  · subst h; simp [List.lookup]
  · have h1 : (key' == key) = false := by simpa using h
    simp [List.lookup, h1, h, lookup_filter_ne key key' l h]

/-- one round of the registration loop of `lazy.Feed.Reader.__call__` -/
def registerOne (st : State) (f : Feed) (t : Source) : State :=
  if st.partitions.contains (f.classOf t, t) then st else
    match f.srcs.lookup t with
    | none => st
    | some key =>
      match (storageOf st f).lookup key with
      | none => st
      | some content =>
        { st with backend := (key, content) :: st.backend.filter (·.1 != key),
                  partitions := (f.classOf t, t) :: st.partitions }

theorem registerTables_cons (st : State) (f : Feed) (t : Source) (ts : List Source) :
    registerTables st f (t :: ts) = registerTables (registerOne st f t) f ts := rfl

/-- the origins recorded in `PARTITIONS` are in the backend -/
def PartsOk (f : Feed) (st : State) : Prop :=
  ∀ p ∈ st.partitions, ∀ key, f.srcs.lookup p.2 = some key → (st.backend.lookup key).isSome = true

/-- `st'` comes from `st` by registrations: storage and caches untouched, nothing leaves the backend -/
structure Registers (st st' : State) : Prop where
  storages : st'.storages = st.storages
  mem : st'.mem = st.mem
  disk : st'.disk = st.disk
  parsed : st'.parsed = st.parsed
  mono : ∀ key, (st.backend.lookup key).isSome = true → (st'.backend.lookup key).isSome = true

theorem Registers.refl (st : State) : Registers st st := ⟨rfl, rfl, rfl, rfl, fun _ h => h⟩

theorem Registers.trans {a b c : State} (h1 : Registers a b) (h2 : Registers b c) : Registers a c :=
  ⟨h2.storages.trans h1.storages, h2.mem.trans h1.mem, h2.disk.trans h1.disk, h2.parsed.trans h1.parsed,
   fun key h => h2.mono key (h1.mono key h)⟩

theorem registerOne_spec (f : Feed) (st : State) (t : Source) (hb : BackendOk (storageOf st f) st.backend)
    (hp : PartsOk f st) :
    Registers st (registerOne st f t) ∧ BackendOk (storageOf st f) (registerOne st f t).backend ∧
      PartsOk f (registerOne st f t) ∧
      (∀ key, f.srcs.lookup t = some key → ((storageOf st f).lookup key).isSome = true →
        ((registerOne st f t).backend.lookup key).isSome = true) := by
  unfold registerOne
  by_cases hpt : st.partitions.contains (f.classOf t, t) = true
  · simp only [hpt, if_true]
    exact ⟨Registers.refl st, hb, hp, fun key hk _ => hp (f.classOf t, t) (by simpa using hpt) key hk⟩
  · have hpt' : st.partitions.contains (f.classOf t, t) = false := by simpa using hpt
    simp only [hpt', Bool.false_eq_true, if_false]
    cases hk : f.srcs.lookup t with
    | none => exact ⟨Registers.refl st, hb, hp, fun key hk' _ => by cases hk'⟩
    | some key0 =>
      simp only []
      cases hc : (storageOf st f).lookup key0 with
      | none =>
        simp only []
        refine ⟨Registers.refl st, hb, hp, ?_⟩
        intro key hk' hs
        injection hk' with hk'
        subst hk'
        simp [hc] at hs
      | some content =>
        simp only []
        refine ⟨⟨rfl, rfl, rfl, rfl, ?_⟩, ?_, ?_, ?_⟩
        · intro key hs
          simp only [lookup_register]
          by_cases he : key = key0
          · simp [he]
          · simpa [he] using hs
        · intro key c hl
          simp only [lookup_register] at hl
          by_cases he : key = key0
          · subst he; simp at hl; subst hl; exact hc
          · simp only [he, if_false] at hl; exact hb key c hl
        · intro t' ht' key hk'
          simp only [lookup_register]
          by_cases he : key = key0
          · simp [he]
          · simp only [he, if_false]
            rcases List.mem_cons.mp ht' with rfl | ht'
            · rw [hk] at hk'; injection hk' with hk'; exact absurd hk'.symm he
            · exact hp t' ht' key hk'
        · intro key hk' _
          injection hk' with hk'
          subst hk'
          simp [lookup_register]

/-- after the loop: storage and caches untouched, the backend is a copy of tables of the storage, and every listed
table that is provisioned and present in the storage is in the backend -/
theorem registerTables_spec (f : Feed) : ∀ (ts : List Source) (st : State),
    BackendOk (storageOf st f) st.backend → PartsOk f st →
      Registers st (registerTables st f ts) ∧ BackendOk (storageOf st f) (registerTables st f ts).backend ∧
      PartsOk f (registerTables st f ts) ∧
      (∀ t ∈ ts, ∀ key, f.srcs.lookup t = some key → ((storageOf st f).lookup key).isSome = true →
        ((registerTables st f ts).backend.lookup key).isSome = true)
  | [], st, hb, hp => ⟨Registers.refl st, hb, hp, by intro t ht; cases ht⟩
  | t :: ts, st, hb, hp => by
    rw [registerTables_cons]
    obtain ⟨r1, b1, p1, h1⟩ := registerOne_spec f st t hb hp
    have hso : storageOf (registerOne st f t) f = storageOf st f := by simp [storageOf, r1.storages]
    obtain ⟨r2, b2, p2, h2⟩ := registerTables_spec f ts (registerOne st f t) (by rw [hso]; exact b1) p1
    refine ⟨r1.trans r2, by rw [← hso]; exact b2, p2, ?_⟩
    intro t' ht' key hk hs
    rcases List.mem_cons.mp ht' with rfl | ht'
    · exact r2.mono key (h1 key hk hs)
    · exact h2 t' ht' key hk (by rw [hso]; exact hs)

/-! ### one read through a lazy feed -/

open ForML.FeedCache (keyOf)

/-- the statement uses a column of each of its tables (so `lazy._Columns.extract` lists every table: outside is the
known finding C06-F5), every table is provisioned and its file / frame exists in the storage -/
def lazyCovered (srcs : Sources) (db : Db) (s : Source) : Bool :=
  (tablesOf s).all (fun t => (usedTables s).contains t &&
    match srcs.lookup t with
    | some key => (db.lookup key).isSome
    | none => false)

/-- state invariant of a process whose lazy feeds all read the storage `db` with the sources `srcs` -/
structure LazyOk (srcs : Sources) (k : Nat) (dbs : List Db) (st : State) : Prop where
  stor : st.storages = dbs
  mem : ∀ q v, st.mem.lookup (keyOf q) = some v → evalSql q (dbs.getD k []) = some v
  disk : ∀ q v, st.disk.lookup (keyOf q) = some v → evalSql q (dbs.getD k []) = some v
  back : BackendOk (dbs.getD k []) st.backend
  parts : ∀ p ∈ st.partitions, ∀ key, srcs.lookup p.2 = some key → (st.backend.lookup key).isSome = true
  parsed : ∀ i s q, st.parsed.lookup (i, s) = some q → parse srcs s = .ok q

theorem lookup_cons_key' (q q' : SqlSel) (v : ORel) (l : List (FeedCache.Key × ORel)) :
    ((keyOf q, v) :: l).lookup (keyOf q') = if q' = q then some v else l.lookup (keyOf q') := by
  by_cases h : q' = q
  · subst h; simp [List.lookup]
  · have hk : keyOf q' ≠ keyOf q := fun hk => h (Render.sel_injective q' q hk)
    have : (keyOf q' == keyOf q) = false := by simpa using hk
    simp [List.lookup, this, h]

theorem exec_lazy (srcs : Sources) (k : Nat) (dbs : List Db) (st : State) (hst : LazyOk srcs k dbs st) (f : Feed)
    (hk : f.kind = .lazy) (hsr : f.srcs = srcs) (hs : f.storage = k) (s : Source) (q : SqlSel)
    (hq : compile srcs s = some q) (hcov : lazyCovered srcs (dbs.getD k []) s = true) :
    (FeedCache.exec st f s q).2 = evalSql q (dbs.getD k []) ∧ LazyOk srcs k dbs (FeedCache.exec st f s q).1 := by
  have hsto : storageOf st f = dbs.getD k [] := by simp [storageOf, hst.stor, hs]
  unfold FeedCache.exec
  simp only [hk, decide_true, Bool.true_and]
  by_cases hc : FeedCache.cached st q = true
  · -- the result is known: no registration
    simp only [hc, Bool.not_true, Bool.false_eq_true, if_false]
    cases hm : st.mem.lookup (keyOf q) with
    | some v => exact ⟨(hst.mem q v hm).symm, hst⟩
    | none =>
      cases hd : st.disk.lookup (keyOf q) with
      | some v =>
        refine ⟨(hst.disk q v hd).symm, ⟨hst.stor, ?_, hst.disk, hst.back, hst.parts, hst.parsed⟩⟩
        intro q' v' h'
        rw [lookup_cons_key'] at h'
        by_cases hqq : q' = q
        · subst hqq; simp at h'; subst h'; exact hst.disk _ _ hd
        · simp [hqq] at h'; exact hst.mem q' v' h'
      | none => simp [FeedCache.cached, hm, hd] at hc
  · have hc' : FeedCache.cached st q = false := by simpa using hc
    simp only [hc', Bool.not_false, if_true]
    have hb0 : BackendOk (storageOf st f) st.backend := by rw [hsto]; exact hst.back
    have hp0 : PartsOk f st := by intro t ht key hkk; exact hst.parts t ht key (by rw [← hsr]; exact hkk)
    obtain ⟨reg, hb1, hp1, hhas⟩ := registerTables_spec f (usedTables s) st hb0 hp0
    rw [hsto] at hb1 hhas
    -- the caches are as before: both miss
    have hm : (registerTables st f (usedTables s)).mem.lookup (keyOf q) = none := by
      rw [reg.mem]
      cases hm' : st.mem.lookup (keyOf q) with
      | none => rfl
      | some v => simp [FeedCache.cached, hm'] at hc'
    have hd : (registerTables st f (usedTables s)).disk.lookup (keyOf q) = none := by
      rw [reg.disk]
      cases hd' : st.disk.lookup (keyOf q) with
      | none => rfl
      | some v => simp [FeedCache.cached, hd'] at hc'
    simp only [hm, hd]
    -- over the backend = over the storage
    have hagree : evalSql q (registerTables st f (usedTables s)).backend = evalSql q (dbs.getD k []) := by
      refine (eval_agree _ _ q ?_).2
      intro n hn
      obtain ⟨t, ht, hl⟩ := compile_tables srcs s q hq n hn
      have hcv := List.all_eq_true.mp hcov t ht
      simp only [hl, Bool.and_eq_true] at hcv
      have hin : ((registerTables st f (usedTables s)).backend.lookup n).isSome = true :=
        hhas t (by simpa using hcv.1) n (by rw [hsr]; exact hl) hcv.2
      obtain ⟨c, hcq⟩ := Option.isSome_iff_exists.mp hin
      rw [hcq, hb1 n c hcq]
    rw [hagree]
    have hstor' : (registerTables st f (usedTables s)).storages = dbs := by rw [reg.storages, hst.stor]
    have hparts' : ∀ t ∈ (registerTables st f (usedTables s)).partitions, ∀ key, srcs.lookup t.2 = some key →
        ((registerTables st f (usedTables s)).backend.lookup key).isSome = true := by
      intro t ht key hkk; exact hp1 t ht key (by rw [hsr]; exact hkk)
    have hparsed' : ∀ i s' q', (registerTables st f (usedTables s)).parsed.lookup (i, s') = some q' → parse srcs s' = .ok q' := by
      intro i s' q' h'; rw [reg.parsed] at h'; exact hst.parsed i s' q' h'
    have hmem' : ∀ q' v, (registerTables st f (usedTables s)).mem.lookup (keyOf q') = some v → evalSql q' (dbs.getD k []) = some v := by
      intro q' v h'; rw [reg.mem] at h'; exact hst.mem q' v h'
    have hdisk' : ∀ q' v, (registerTables st f (usedTables s)).disk.lookup (keyOf q') = some v → evalSql q' (dbs.getD k []) = some v := by
      intro q' v h'; rw [reg.disk] at h'; exact hst.disk q' v h'
    cases he : evalSql q (dbs.getD k []) with
    | none => exact ⟨rfl, ⟨hstor', hmem', hdisk', hb1, hparts', hparsed'⟩⟩
    | some v =>
      refine ⟨rfl, ⟨hstor', ?_, ?_, hb1, hparts', hparsed'⟩⟩
      · intro q' v' h'
        rw [lookup_cons_key'] at h'
        by_cases hqq : q' = q
        · subst hqq; simp at h'; subst h'; exact he
        · simp [hqq] at h'; exact hmem' q' v' h'
      · intro q' v' h'
        rw [lookup_cons_key'] at h'
        by_cases hqq : q' = q
        · subst hqq; simp at h'; subst h'; exact he
        · simp [hqq] at h'; exact hdisk' q' v' h'

end ForML.C06
