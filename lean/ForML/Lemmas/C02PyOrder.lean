/-
C02 helper lemmas: `Expression._order` (model `order`): on a valid table the ordered instruction list has no
duplicates and ends with the table's only sink.
-/
import ForML.Lemmas.C02Table
import ForML.Model.PyFunc

namespace ForML.Flow.PyFunc
open ForML.Flow

/-! ### `bump` -/

theorem mem_bump {k : Key} {lvl : Nat} : ∀ {ix : Index} {e : Key × Nat}, e ∈ bump k lvl ix →
    e ∈ ix ∨ (e.1 = k ∧ lvl ≤ e.2)
  | [], e, h => by simp [bump] at h; subst h; exact Or.inr ⟨rfl, Nat.le_refl _⟩
  | (k', l) :: r, e, h => by
    simp only [bump] at h
    split at h
    · rename_i he
      rcases List.mem_cons.1 h with rfl | h
      · exact Or.inr ⟨he, Nat.le_max_right ..⟩
      · exact Or.inl (List.mem_cons_of_mem _ h)
    · rcases List.mem_cons.1 h with rfl | h
      · exact Or.inl (List.mem_cons_self ..)
      · rcases mem_bump h with h1 | h1
        · exact Or.inl (List.mem_cons_of_mem _ h1)
        · exact Or.inr h1

theorem mem_bump_of_ne {k : Key} {lvl : Nat} : ∀ {ix : Index} {e : Key × Nat}, e ∈ ix → e.1 ≠ k → e ∈ bump k lvl ix
  | (k', l) :: r, e, h, hne => by
    simp only [bump]
    split
    · rename_i he
      rcases List.mem_cons.1 h with rfl | h
      · exact absurd he hne
      · exact List.mem_cons_of_mem _ h
    · rcases List.mem_cons.1 h with rfl | h
      · exact List.mem_cons_self ..
      · exact List.mem_cons_of_mem _ (mem_bump_of_ne h hne)

theorem bump_keys {k : Key} {lvl : Nat} : ∀ (ix : Index),
    (bump k lvl ix).map (·.1) = if k ∈ ix.map (·.1) then ix.map (·.1) else ix.map (·.1) ++ [k]
  | [] => by simp [bump]
  | (k', l) :: r => by
    simp only [bump]
    split
    · rename_i he; subst he; simp
    · rename_i he
      have hne : ¬ k = k' := fun e => he e.symm
      simp only [List.map_cons, List.mem_cons, hne, false_or, bump_keys r]
      split <;> simp

theorem bump_nodup {k : Key} {lvl : Nat} {ix : Index} (h : (ix.map (·.1)).Nodup) :
    ((bump k lvl ix).map (·.1)).Nodup := by
  rw [bump_keys]
  split
  · exact h
  · rename_i hk
    rw [List.nodup_append]
    refine ⟨h, by simp, ?_⟩
    intro a ha b hb
    simp at hb; subst hb
    intro he; subst he; exact hk ha

/-! ### `walk` -/

/-- invariant of the level index: unique keys, the tail at level 0, everything else at a level ≥ 1 -/
structure WInv (tail : Key) (ix : Index) : Prop where
  nodup : (ix.map (·.1)).Nodup
  hasTail : (tail, 0) ∈ ix
  pos : ∀ e ∈ ix, e.1 ≠ tail → 1 ≤ e.2

theorem WInv.bump {tail k : Key} {lvl : Nat} {ix : Index} (h : WInv tail ix) (hk : k ≠ tail) (hl : 1 ≤ lvl) :
    WInv tail (bump k lvl ix) :=
  ⟨bump_nodup h.nodup, mem_bump_of_ne h.hasTail (fun e => hk e.symm), by
    intro e he hne
    rcases mem_bump he with h1 | h1
    · exact h.pos e h1 hne
    · omega⟩

theorem walk_inv {t : Table} {r : Key → Nat} (hr : Ranked t r) (tail : Key) :
    ∀ (f lvl : Nat) (parents : List Key) (ix ix' : Index), walk t f lvl parents ix = .ok ix' → 1 ≤ lvl →
      (∀ p ∈ parents, r p < r tail) → WInv tail ix → WInv tail ix' := by
  intro f
  induction f with
  | zero => intro lvl parents ix ix' h; simp [walk] at h
  | succ f ih =>
    intro lvl parents
    simp only [walk]
    induction parents with
    | nil => intro ix ix' h _ _ hw; simp only [List.foldlM_nil, pure, Except.pure] at h; cases h; exact hw
    | cons p ps ihp =>
      intro ix ix' h hl hlt hw
      simp only [List.foldlM_cons, bind, Except.bind] at h
      split at h
      · cases h
      · rename_i ix1 h1
        split at h1
        · cases h1
        · rename_i s hfind
          have hp := hlt p (List.mem_cons_self ..)
          have hw1 := ih (lvl + 1) s.args _ ix1 h1 (by omega)
            (fun a ha => by have := (hr.find_args hfind a ha).2; omega)
            (hw.bump (fun e => by subst e; omega) hl)
          exact ihp ix1 ix' h hl (fun q hq => hlt q (List.mem_cons_of_mem _ hq)) hw1

/-! ### `sortDesc` -/

theorem mem_insertDesc {e x : Key × Nat} : ∀ {l : Index}, x ∈ insertDesc e l ↔ x = e ∨ x ∈ l
  | [] => by simp [insertDesc]
  | y :: r => by
    simp only [insertDesc]
    split
    · simp
    · simp only [List.mem_cons, mem_insertDesc (l := r)]
      constructor
      · rintro (h | h | h)
        · exact Or.inr (Or.inl h)
        · exact Or.inl h
        · exact Or.inr (Or.inr h)
      · rintro (h | h | h)
        · exact Or.inr (Or.inl h)
        · exact Or.inl h
        · exact Or.inr (Or.inr h)

theorem insertDesc_nodup {e : Key × Nat} : ∀ {l : Index}, (l.map (·.1)).Nodup → e.1 ∉ l.map (·.1) →
    ((insertDesc e l).map (·.1)).Nodup
  | [], _, _ => by simp [insertDesc]
  | y :: r, h, hne => by
    simp only [insertDesc]
    split
    · simp only [List.map_cons, List.nodup_cons]
      exact ⟨hne, List.nodup_cons.1 h⟩
    · simp only [List.map_cons, List.nodup_cons, List.mem_cons, not_or] at h hne ⊢
      refine ⟨?_, insertDesc_nodup h.2 hne.2⟩
      intro hin
      obtain ⟨x, hx, hxe⟩ := List.mem_map.1 hin
      rcases mem_insertDesc.1 hx with rfl | hx'
      · exact hne.1 hxe
      · exact h.1 (hxe ▸ List.mem_map_of_mem hx')

/-- an element at level 0 is inserted at the very end -/
theorem insertDesc_zero {k : Key} : ∀ (l : Index), insertDesc (k, 0) l = l ++ [(k, 0)]
  | [] => rfl
  | y :: r => by simp [insertDesc, insertDesc_zero r]

/-- inserting above a last element of strictly smaller level keeps it last -/
theorem insertDesc_last {e z : Key × Nat} (hz : z.2 < e.2) : ∀ (l : Index), ∃ l', insertDesc e (l ++ [z]) = l' ++ [z]
  | [] => ⟨[e], by simp [insertDesc, hz]⟩
  | y :: r => by
    simp only [List.cons_append, insertDesc]
    split
    · exact ⟨e :: y :: r, rfl⟩
    · obtain ⟨l', hl'⟩ := insertDesc_last hz r
      exact ⟨y :: l', by rw [hl']; rfl⟩

theorem sortDesc_spec {tail : Key} {ix : Index} (hw : WInv tail ix) :
    ((sortDesc ix).map (·.1)).Nodup ∧ (∃ l, sortDesc ix = l ++ [(tail, 0)]) ∧
      (∀ k, k ∈ (sortDesc ix).map (·.1) ↔ k ∈ ix.map (·.1)) := by
  -- generalised over the accumulator of the fold
  have key : ∀ (todo acc : Index), ((acc ++ todo).map (·.1)).Nodup →
      (∀ e ∈ acc ++ todo, e.1 ≠ tail → 1 ≤ e.2) → (∀ e ∈ acc ++ todo, e.1 = tail → e = (tail, 0)) →
      ((tail, 0) ∈ acc → ∃ l, acc = l ++ [(tail, 0)]) →
      let res := todo.foldl (fun acc e => insertDesc e acc) acc
      (res.map (·.1)).Nodup ∧ ((tail, 0) ∈ acc ++ todo → ∃ l, res = l ++ [(tail, 0)]) ∧
        (∀ x, x ∈ res ↔ x ∈ acc ++ todo) := by
    intro todo
    induction todo with
    | nil =>
      intro acc hn _ _ hlast
      simp only [List.append_nil] at hn ⊢
      exact ⟨hn, hlast, fun _ => Iff.rfl⟩
    | cons e todo ih =>
      intro acc hn hpos huniq hlast
      simp only [List.foldl_cons]
      have hperm : ∀ x, x ∈ insertDesc e acc ++ todo ↔ x ∈ acc ++ e :: todo := by
        intro x
        simp only [List.mem_append, mem_insertDesc, List.mem_cons]
        constructor
        · rintro ((h | h) | h)
          · exact Or.inr (Or.inl h)
          · exact Or.inl h
          · exact Or.inr (Or.inr h)
        · rintro (h | h | h)
          · exact Or.inl (Or.inr h)
          · exact Or.inl (Or.inl h)
          · exact Or.inr h
      have hn' : ((insertDesc e acc ++ todo).map (·.1)).Nodup := by
        simp only [List.map_append, List.map_cons, List.nodup_append, List.nodup_cons, List.mem_cons,
          List.mem_map] at hn ⊢
        obtain ⟨hacc, ⟨hetodo, htodo⟩, hdisj⟩ := hn
        refine ⟨insertDesc_nodup hacc ?_, htodo, ?_⟩
        · intro hin
          obtain ⟨y, hy, hye⟩ := List.mem_map.1 hin
          exact hdisj _ ⟨y, hy, hye⟩ _ (Or.inl rfl) rfl
        · rintro a ⟨y, hy, rfl⟩ b ⟨z, hz, rfl⟩ heq
          rcases mem_insertDesc.1 hy with rfl | hy'
          · exact hetodo ⟨z, hz, heq.symm⟩
          · exact hdisj _ ⟨y, hy', rfl⟩ _ (Or.inr ⟨z, hz, rfl⟩) heq
      have := ih (insertDesc e acc) hn'
        (fun x hx => hpos x ((hperm x).1 hx)) (fun x hx => huniq x ((hperm x).1 hx))
        (by
          intro hin
          rcases mem_insertDesc.1 hin with h | h
          · rw [← h]; exact ⟨acc, insertDesc_zero acc⟩
          · obtain ⟨l, hl⟩ := hlast h
            have he : e.1 ≠ tail := by
              intro het
              have h1 := huniq e (by simp) het
              -- then (tail,0) would occur twice among the keys
              rw [h1] at hn
              simp only [List.map_append, List.map_cons, List.nodup_append, List.mem_map, List.mem_cons] at hn
              exact hn.2.2 _ ⟨_, h, rfl⟩ _ (Or.inl rfl) rfl
            have hz : ((tail, 0) : Key × Nat).2 < e.2 := by
              have := hpos e (by simp) he
              show 0 < e.2
              omega
            rw [hl]
            exact insertDesc_last hz l)
      refine ⟨this.1, fun h => this.2.1 ((hperm _).2 h), fun x => (this.2.2 x).trans (hperm x)⟩
  have huniq : ∀ e ∈ ix, e.1 = tail → e = (tail, 0) := by
    intro e he het
    -- two entries with the same key in a list with unique keys are equal
    have : ∀ (l : Index), (l.map (·.1)).Nodup → ∀ a ∈ l, ∀ b ∈ l, a.1 = b.1 → a = b := by
      intro l
      induction l with
      | nil => intro _ a ha; cases ha
      | cons y r ihl =>
        intro hn a ha b hb hab
        simp only [List.map_cons, List.nodup_cons] at hn
        rcases List.mem_cons.1 ha with rfl | ha' <;> rcases List.mem_cons.1 hb with rfl | hb'
        · rfl
        · exact absurd (hab ▸ List.mem_map_of_mem hb') hn.1
        · exact absurd (hab ▸ List.mem_map_of_mem ha') hn.1
        · exact ihl hn.2 a ha' b hb' hab
    exact this ix hw.nodup e he _ hw.hasTail het
  have := key ix [] (by simpa using hw.nodup) (by simpa using hw.pos) (by simpa using huniq) (by simp)
  simp only [List.nil_append] at this
  refine ⟨this.1, this.2.1 hw.hasTail, ?_⟩
  intro k
  simp only [List.mem_map]
  constructor
  · rintro ⟨x, hx, rfl⟩; exact ⟨x, (this.2.2 x).1 hx, rfl⟩
  · rintro ⟨x, hx, rfl⟩; exact ⟨x, (this.2.2 x).2 hx, rfl⟩

/-- `_order` on a valid table: no duplicates, ends with the only sink, every listed key is bound -/
theorem order_spec {t : Table} {r : Key → Nat} (hr : Ranked t r) {ks : List Key} (h : order t = .ok ks) :
    ks.Nodup ∧ ∃ tail l, t.sinks = [tail] ∧ ks = l ++ [tail] := by
  unfold order at h
  split at h
  · rename_i tail hs
    split at h
    · cases h
    · rename_i s hfind
      split at h
      · cases h
      · rename_i ix hwalk
        cases h
        have hw0 : WInv tail [(tail, 0)] := ⟨by simp, by simp, by simp⟩
        have hw := walk_inv hr tail t.fuel 1 s.args _ ix hwalk (Nat.le_refl _)
          (fun a ha => (hr.find_args hfind a ha).2) hw0
        obtain ⟨hn, ⟨l, hl⟩, _⟩ := sortDesc_spec hw
        exact ⟨hn, tail, l.map (·.1), hs, by rw [hl]; simp⟩
  · cases h

end ForML.Flow.PyFunc
