/-
C11 helper lemmas, part 8: `Segment.copy`.  A successful copy appends the forks of the region (same kind, shape
and group), the images of the subscriptions between members of one path, and their `_PORTS` entries; nothing of the
existing graph changes and no subscription / registration links an old node with a new one.
-/
import ForML.Lemmas.C11Ops

namespace ForML.Graph

/-- what makes `copied g region es` a copy: distinct existing nodes, edges of the graph between them, and no two
replayed subscriptions on one input port -/
structure CopyOK (g : G) (region : List Nat) (es : List Edge) : Prop where
  nodup : region.Nodup
  bound : ∀ n ∈ region, n < g.nodes.length
  mem : ∀ e ∈ es, e ∈ g.edges ∧ e.pub ∈ region ∧ e.sub.node ∈ region
  fresh : (es.map (fun e => (copyEdge g region e).sub)).Nodup

theorem idxOf_inj {l : List Nat} {a b : Nat} (ha : a ∈ l) (hb : b ∈ l) (h : l.idxOf a = l.idxOf b) : a = b := by
  have h1 : l.idxOf a < l.length := List.idxOf_lt_length_iff.mpr ha
  have h2 : l.idxOf b < l.length := List.idxOf_lt_length_iff.mpr hb
  have e1 : l[l.idxOf a] = a := List.getElem_idxOf h1
  have e2 : l[l.idxOf b] = b := List.getElem_idxOf h2
  rw [← e1, ← e2]
  simp only [h]

theorem copyIdx_inj (g : G) {region : List Nat} {a b : Nat} (ha : a ∈ region) (hb : b ∈ region)
    (h : copyIdx g region a = copyIdx g region b) : a = b := by
  unfold copyIdx at h
  exact idxOf_inj ha hb (by omega)

theorem copyIdx_ge (g : G) (region : List Nat) (n : Nat) : g.nodes.length ≤ copyIdx g region n := by
  unfold copyIdx; omega

theorem copyIdx_lt (g : G) (region : List Nat) (es : List Edge) {n : Nat} (hn : n ∈ region) :
    copyIdx g region n < (copied g region es).nodes.length := by
  have := List.idxOf_lt_length_iff.mpr hn
  simp only [copied, copyIdx, List.length_append, List.length_map]
  omega

theorem copied_old_get (g : G) (region : List Nat) (es : List Edge) (n : Nat) (h : n < g.nodes.length) :
    (copied g region es).nodes[n]? = g.nodes[n]? := by
  simp [copied, List.getElem?_append_left h]

theorem copied_new_get (g : G) (region : List Nat) (es : List Edge) {n : Nat} (hn : n ∈ region)
    (hb : n < g.nodes.length) : (copied g region es).nodes[copyIdx g region n]? = g.nodes[n]? := by
  have hi : region.idxOf n < region.length := List.idxOf_lt_length_iff.mpr hn
  have hget : region[region.idxOf n] = n := List.getElem_idxOf hi
  simp only [copied, copyIdx]
  rw [List.getElem?_append_right (by omega)]
  simp only [Nat.add_sub_cancel_left, List.getElem?_map, List.getElem?_eq_getElem hi, hget, Option.map_some]
  simp [List.getD_eq_getElem?_getD, List.getElem?_eq_getElem hb]

theorem copied_isWorker_old (g : G) (region : List Nat) (es : List Edge) (n : Nat) (h : n < g.nodes.length) :
    isWorker (copied g region es) n = isWorker g n := by
  unfold isWorker; rw [copied_old_get g region es n h]

theorem copied_isFuture_old (g : G) (region : List Nat) (es : List Edge) (n : Nat) (h : n < g.nodes.length) :
    isFuture (copied g region es) n = isFuture g n := by
  unfold isFuture; rw [copied_old_get g region es n h]

theorem copied_gid_old (g : G) (region : List Nat) (es : List Edge) (n : Nat) (h : n < g.nodes.length) :
    gid? (copied g region es) n = gid? g n := by
  unfold gid?; rw [copied_old_get g region es n h]

theorem copied_isWorker_new (g : G) (region : List Nat) (es : List Edge) {n : Nat} (hn : n ∈ region)
    (hb : n < g.nodes.length) : isWorker (copied g region es) (copyIdx g region n) = isWorker g n := by
  unfold isWorker; rw [copied_new_get g region es hn hb]

/-- a new edge is the image of a replayed one -/
theorem mem_copied_edges (g : G) (region : List Nat) (es : List Edge) (e : Edge)
    (h : e ∈ (copied g region es).edges) : e ∈ g.edges ∨ ∃ a ∈ es, e = copyEdge g region a := by
  simp only [copied, List.mem_append, List.mem_map] at h
  rcases h with h | ⟨a, ha, rfl⟩
  · exact .inl h
  · exact .inr ⟨a, ha, rfl⟩

theorem copyEdge_apply (g : G) (region : List Nat) (a : Edge) : (copyEdge g region a).sub.port.isApply = true := rfl

/-- a successful copy keeps `Wf` -/
theorem copied_wf (g : G) (region : List Nat) (es : List Edge) (hw : Wf g) (ok : CopyOK g region es) :
    Wf (copied g region es) := by
  obtain ⟨i2, i3, i4, i5, i6, i7, i8⟩ := hw
  have oldlt : ∀ e ∈ g.edges, e.sub.node < g.nodes.length := fun e he => isWorker_lt _ _ (i7 e he).2
  refine ⟨?_, ?_, ?_, ?_, ?_, ?_, ?_⟩
  · -- I2
    intro e he
    rcases mem_copied_edges g region es e he with h | ⟨a, ha, rfl⟩
    · exact i2 e h
    · obtain ⟨hg, hp, hs⟩ := ok.mem a ha
      intro heq
      exact i2 a hg (copyIdx_inj g hp hs heq)
  · -- I3
    intro e he e' he' hn
    rcases mem_copied_edges g region es e he with h | ⟨a, ha, rfl⟩ <;>
      rcases mem_copied_edges g region es e' he' with h' | ⟨b, hb, rfl⟩
    · exact i3 e h e' h' hn
    · have := oldlt e h
      have := copyIdx_ge g region b.sub.node
      simp only [copyEdge] at hn
      omega
    · have := oldlt e' h'
      have := copyIdx_ge g region a.sub.node
      simp only [copyEdge] at hn
      omega
    · rfl
  · -- I4
    intro e he e' he' ha ha' hgid
    rcases mem_copied_edges g region es e he with h | ⟨a, _, rfl⟩
    · rcases mem_copied_edges g region es e' he' with h' | ⟨b, _, rfl⟩
      · rw [copied_gid_old g region es _ (oldlt e h), copied_gid_old g region es _ (oldlt e' h')] at hgid
        exact i4 e h e' h' ha ha' hgid
      · rw [copyEdge_apply] at ha'; cases ha'
    · rw [copyEdge_apply] at ha; cases ha
  · -- I5
    intro e he e' he' ha
    rcases mem_copied_edges g region es e he with h | ⟨a, _, rfl⟩
    · rcases mem_copied_edges g region es e' he' with h' | ⟨b, _, rfl⟩
      · exact i5 e h e' h' ha
      · have := oldlt e h
        have := copyIdx_ge g region b.pub
        simp only [copyEdge]
        omega
    · rw [copyEdge_apply] at ha; cases ha
  · -- I6
    constructor
    · intro s hs
      simp only [copied, List.mem_append, List.mem_map] at hs
      rcases hs with hs | ⟨a, ha, rfl⟩
      · obtain ⟨e, he, hes⟩ := i6.1 s hs
        exact ⟨e, by simp only [copied]; exact List.mem_append_left _ he, hes⟩
      · exact ⟨copyEdge g region a, by simp only [copied]; exact List.mem_append_right _ (List.mem_map.mpr ⟨a, ha, rfl⟩), rfl⟩
    · intro e he
      rcases mem_copied_edges g region es e he with h | ⟨a, ha, rfl⟩
      · simp only [copied]; exact List.mem_append_left _ (i6.2 e h)
      · simp only [copied]; exact List.mem_append_right _ (List.mem_map.mpr ⟨a, ha, rfl⟩)
  · -- I7
    intro e he
    rcases mem_copied_edges g region es e he with h | ⟨a, ha, rfl⟩
    · refine ⟨?_, ?_⟩
      · have := (i7 e h).1
        simp only [copied, List.length_append, List.length_map]; omega
      · rw [copied_isWorker_old g region es _ (oldlt e h)]; exact (i7 e h).2
    · obtain ⟨hg, hp, hs⟩ := ok.mem a ha
      refine ⟨copyIdx_lt g region es hp, ?_⟩
      simp only [copyEdge]
      rw [copied_isWorker_new g region es hs (ok.bound _ hs)]
      exact (i7 a hg).2
  · -- I8
    intro r hr
    have h := i8 r hr
    refine ⟨?_, ?_⟩
    · rw [copied_isFuture_old g region es _ (isFuture_lt _ _ h.1)]; exact h.1
    · have := h.2
      simp only [copied, List.length_append, List.length_map]; omega

/-- a successful copy keeps the chain property (the registrations do not change) -/
theorem copied_chain (g : G) (region : List Nat) (es : List Edge) (hw : Wf g) (ok : CopyOK g region es)
    (hc : Chain g) : Chain (copied g region es) := by
  have oldlt : ∀ e ∈ g.edges, e.sub.node < g.nodes.length :=
    fun e he => isWorker_lt _ _ (hw.2.2.2.2.2.1 e he).2
  have mono : ∀ {a b : Nat × Nat}, Up g a b → Up (copied g region es) a b :=
    fun h => Up.mono (g := g) (g' := copied g region es) (fun r hr => hr) h
  intro e he e' he' hsub
  rcases mem_copied_edges g region es e he with h | ⟨a, ha, rfl⟩ <;>
    rcases mem_copied_edges g region es e' he' with h' | ⟨b, hb, rfl⟩
  · rcases hc e h e' h' hsub with hu | hu
    · exact .inl (mono hu)
    · exact .inr (mono hu)
  · have := oldlt e h
    have := copyIdx_ge g region b.sub.node
    have hn := congrArg Sub.node hsub
    simp only [copyEdge] at hn
    omega
  · have := oldlt e' h'
    have := copyIdx_ge g region a.sub.node
    have hn := congrArg Sub.node hsub
    simp only [copyEdge] at hn
    omega
  · have : a = b := nodup_map_inj (fun e => (copyEdge g region e).sub) es ok.fresh a ha b hb hsub
    subst this
    exact .inl (.refl _)

/-- a successful copy keeps "what a port holds is held by everything registered upstream of it" -/
theorem copied_closed (g : G) (region : List Nat) (es : List Edge) (hw : Wf g) (hc : Closed g) :
    Closed (copied g region es) := by
  obtain ⟨_, _, _, _, _, i7, i8⟩ := hw
  intro e he
  rcases mem_copied_edges g region es e he with h | ⟨a, ha, rfl⟩
  · refine holdsUp_lift g (copied g region es) rfl (fun x hx => by simp only [copied]; exact List.mem_append_left _ hx)
      ?_ (hc e h)
    intro x hx
    exact copied_isFuture_old g region es _ (i7 x hx).1
  · refine .mk _ _ he ?_
    intro _ t ht
    exfalso
    unfold pubsAt at ht
    simp only [List.mem_map, List.mem_filter, decide_eq_true_eq] at ht
    obtain ⟨r, ⟨hr, h1, _⟩, _⟩ := ht
    have hr' : r ∈ g.regs := hr
    have := isFuture_lt _ _ (i8 r hr').1
    have := copyIdx_ge g region a.pub
    simp only [copyEdge] at h1
    omega

/-! ### the outcome of `copy` -/

theorem mem_regionOf (g : G) (h : Nat) (ps : List (List Nat)) (n : Nat) :
    n ∈ regionOf g h ps ↔ n < g.nodes.length ∧ (n = h ∨ ∃ m ∈ ps, n ∈ m) := by
  unfold regionOf
  simp only [List.mem_filter, List.mem_range, Bool.or_eq_true, beq_iff_eq, List.any_eq_true,
    List.contains_iff_mem]

theorem mem_copyEdges (g : G) (ps : List (List Nat)) (e : Edge) :
    e ∈ copyEdges g ps ↔ e ∈ g.edges ∧ ∃ m ∈ ps, e.pub ∈ m ∧ e.sub.node ∈ m := by
  unfold copyEdges
  simp only [List.mem_eraseDups, List.mem_flatMap, List.mem_filter, Bool.and_eq_true, List.contains_iff_mem]
  constructor
  · rintro ⟨m, hm, he, h1, h2⟩; exact ⟨he, m, hm, h1, h2⟩
  · rintro ⟨he, m, hm, h1, h2⟩; exact ⟨m, hm, he, h1, h2⟩

theorem segment_head_lt (g : G) (h : Nat) (t : Option Nat) (tl : Nat) (hs : segment g h t = .node tl) :
    h < g.nodes.length := by
  unfold segment at hs
  split at hs
  · cases hs
  · rename_i hn heq
    exact (List.getElem?_eq_some_iff.mp heq).1

/-- `Segment(h, t)` answers the tail or an error -/
theorem segment_res (g : G) (h : Nat) (t : Option Nat) :
    (∃ tl, segment g h t = .node tl) ∨ ∃ e, segment g h t = .err e := by
  unfold segment
  split
  · exact .inr ⟨_, rfl⟩
  · split
    · exact .inr ⟨_, rfl⟩
    · simp only
      repeat' split
      all_goals first | exact .inr ⟨_, rfl⟩ | exact .inl ⟨_, rfl⟩

/-- `copy` on a well-formed state: refused with the state untouched, or the region is forked and the
subscriptions between members of one path are replayed -/
theorem copy_cases (g : G) (h : Nat) (t : Option Nat) (hw : Wf g) :
    (∃ e, copy g h t = (g, .err e)) ∨
    (∃ tl ps, paths (fuelOf g) g tl h [h] = .ok ps ∧
      copy g h t = (copied g (regionOf g h ps) (copyEdges g ps),
        .segs [(copyIdx g (regionOf g h ps) h, copyIdx g (regionOf g h ps) tl)]) ∧
      CopyOK g (regionOf g h ps) (copyEdges g ps) ∧ tl ∈ regionOf g h ps ∧ h ∈ regionOf g h ps) := by
  unfold copy
  rcases segment_res g h t with ⟨tl0, hseg⟩ | ⟨e, hseg⟩
  · rw [hseg]
    simp only
    rcases hun : unwrapTail (fuelOf g) g h tl0 with e | tl
    · exact .inl ⟨e, rfl⟩
    · simp only
      rcases hps : paths (fuelOf g) g tl h [h] with e | ps
      · exact .inl ⟨e, rfl⟩
      · simp only
        split
        · exact .inl ⟨_, rfl⟩
        · split
          · exact .inl ⟨_, rfl⟩
          · rename_i hfresh
            split
            · exact .inl ⟨_, rfl⟩
            · rename_i htl
              split
              · exact .inl ⟨_, rfl⟩
              · right
                refine ⟨tl, ps, hps, rfl, ?_, ?_, ?_⟩
                · refine ⟨?_, ?_, ?_, ?_⟩
                  · unfold regionOf
                    exact List.Pairwise.sublist List.filter_sublist List.nodup_range
                  · intro n hn; exact ((mem_regionOf g h ps n).mp hn).1
                  · intro e he
                    obtain ⟨hg, m, hm, h1, h2⟩ := (mem_copyEdges g ps e).mp he
                    have i7 := hw.2.2.2.2.2.1 e hg
                    exact ⟨hg, (mem_regionOf g h ps _).mpr ⟨i7.1, .inr ⟨m, hm, h1⟩⟩,
                      (mem_regionOf g h ps _).mpr ⟨isWorker_lt _ _ i7.2, .inr ⟨m, hm, h2⟩⟩⟩
                  · simpa using hfresh
                · simpa using htl
                · exact (mem_regionOf g h ps h).mpr ⟨segment_head_lt g h t tl0 hseg, .inl rfl⟩
  · rw [hseg]; exact .inl ⟨e, rfl⟩

end ForML.Graph
