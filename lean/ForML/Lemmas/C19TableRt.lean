/-
Helper lemmas for the codec tables of C19, part 4 (core Lean only): the whole table through `text/csv` — writer, tokeniser,
transposition, type inference — under the verdict `same`.
-/
import ForML.Lemmas.C19TableCol

namespace ForML.Codec

/-! ### the whole table through `text/csv` -/

theorem getD'_mem (l : List α) (i : Nat) (d : α) (h : i < l.length) : getD' l i d ∈ l := by
  simp [getD', h]

/-- the decoded frame as a table, column by column -/
theorem frame_table_cols (cols : List Column) (g : Column → List Val) :
    (Frame.table ((cols.map (·.name)).zip (cols.map g)) (cols.map (·.kind))).cols = cols.map (fun c => ⟨c.name, c.kind, g c⟩) := by
  unfold Frame.table
  simp only
  induction cols with
  | nil => rfl
  | cons c r ih => simp only [List.map_cons, List.zip_cons_cons, ih]

theorem table_same_of_cols (cols : List Column) (g : Column → List Val) (h : ∀ c ∈ cols, sameCells (g c) c.cells = true) :
    (Table.mk (cols.map (fun c => ⟨c.name, c.kind, g c⟩))).same ⟨cols⟩ = true := by
  unfold Table.same
  simp only [List.map_map, List.length_map, Bool.and_eq_true, beq_iff_eq, BEq.rfl, and_true]
  refine ⟨by simp [Function.comp_def], ?_⟩
  rw [List.all_eq_true]
  intro xy hxy
  induction cols with
  | nil => simp at hxy
  | cons c r ih =>
    simp only [List.map_cons, List.zip_cons_cons, List.mem_cons] at hxy
    rcases hxy with rfl | hm
    · exact h c (by simp)
    · exact ih (fun x hx => h x (List.mem_cons_of_mem _ hx)) hm

structure CsvFacts (t : Table) : Prop where
  ne : t.cols ≠ []
  rows : t.nrows ≠ 0
  cr : ∀ c ∈ t.cols, ∀ f ∈ c.name :: c.csvTexts, fieldOK f = true
  blank : t.cols.length = 1 → ∀ c ∈ t.cols, ∀ f ∈ c.name :: c.csvTexts, f.isEmpty = true ∨ f.all blank = false
  kept : ∀ c ∈ t.cols, c.kind = .str → c.csvTextKept = true

theorem csvFacts_of_verdict (t : Table) (hv : t.csvVerdict = .same) : CsvFacts t := by
  unfold Table.csvVerdict at hv
  split at hv
  · cases hv
  · rename_i h1
    split at hv
    · cases hv
    · rename_i h2
      split at hv
      · cases hv
      · rename_i h3
        split at hv
        · cases hv
        · rename_i h4
          simp only [Bool.or_eq_true, beq_iff_eq, not_or] at h1
          simp only [Bool.not_eq_true', Bool.not_eq_false] at h2 h4
          refine ⟨?_, h1.2, ?_, ?_, ?_⟩
          · intro e; rw [e] at h1; simp at h1
          · intro c hc f hf
            have := List.all_eq_true.mp h2 c hc
            unfold Column.csvCRfree at this
            exact List.all_eq_true.mp this f hf
          · intro hlen c hc f hf
            simp only [hlen, BEq.rfl, Bool.true_and] at h3
            have h3' := Bool.eq_false_iff.mpr h3
            have h4' := List.any_eq_false.mp h3' c hc
            have h5 := List.any_eq_false.mp (Bool.eq_false_iff.mpr h4') f hf
            cases he : f.isEmpty
            · cases hb : f.all blank
              · right; rfl
              · simp [he, hb] at h5
            · left; rfl
          · intro c hc hk
            have := List.all_eq_true.mp h4 c hc
            simpa [hk] using this

structure WfFacts (t : Table) : Prop where
  len : ∀ c ∈ t.cols, c.cells.length = t.nrows
  kinds : ∀ c ∈ t.cols, c.cells.all (Val.ofKind c.kind) = true
  nonnull : t.nrows ≠ 0 → ∀ c ∈ t.cols, c.cells.any (· != .null) = true
  names : (t.cols.map (·.name)).Nodup

theorem wfFacts (t : Table) (h : t.wf = true) : WfFacts t := by
  unfold Table.wf at h
  simp only [Bool.and_eq_true, decide_eq_true_eq, List.all_eq_true, beq_iff_eq, Bool.or_eq_true] at h
  obtain ⟨⟨hn, _⟩, hc⟩ := h
  refine ⟨fun c hc' => (hc c hc').1.2, fun c hc' => List.all_eq_true.mpr (hc c hc').1.1, ?_, hn⟩
  intro hr c hc'
  rcases (hc c hc').2 with h0 | h1
  · exact absurd h0 hr
  · exact h1

/-- **`text/csv` round trip**: a well-formed table whose verdict is `same` is decoded from its own encoding as the same table -/
theorem table_csv_roundtrip (t : Table) (hwf : t.wf = true) (hv : t.csvVerdict = .same) :
    ∃ f, csvDecode t.csv = some f ∧ (Frame.table f (t.cols.map (·.kind))).same t = true := by
  have F := csvFacts_of_verdict t hv
  have W := wfFacts t hwf
  have htlen : ∀ col ∈ t.cols.map Column.csvTexts, col.length = t.nrows := by
    intro col hcol
    obtain ⟨c, hc, rfl⟩ := List.mem_map.mp hcol
    simp [Column.csvTexts, W.len c hc]
  -- every written record is one the reader takes apart
  have hrec : ∀ r ∈ t.csvRecords, recordOK r = true := by
    intro r hr
    unfold Table.csvRecords at hr
    rcases List.mem_cons.mp hr with rfl | hrow
    · -- the header
      unfold recordOK
      simp only [Bool.and_eq_true, Bool.not_eq_true', List.all_eq_true]
      refine ⟨⟨by cases hc : t.cols with | nil => exact absurd hc F.ne | cons _ _ => simp, ?_⟩, ?_⟩
      · intro f hf
        obtain ⟨c, hc, rfl⟩ := List.mem_map.mp hf
        exact F.cr c hc c.name (by simp)
      · cases hc : t.cols with
        | nil => exact absurd hc F.ne
        | cons c r =>
          cases r with
          | nil =>
            simp only [List.map_cons, List.map_nil]
            have := F.blank (by rw [hc]; rfl) c (by rw [hc]; simp) c.name (by simp)
            rcases this with h | h <;> simp [h]
          | cons c2 r2 => simp
    · -- a data row
      simp only [toRows, List.mem_map, List.mem_range] at hrow
      obtain ⟨i, hi, rfl⟩ := hrow
      unfold recordOK rowAt
      simp only [Bool.and_eq_true, Bool.not_eq_true', List.all_eq_true, List.map_map]
      have hfield : ∀ c ∈ t.cols, getD' c.csvTexts i [] ∈ c.csvTexts := by
        intro c hc
        apply getD'_mem
        rw [htlen _ (List.mem_map.mpr ⟨c, hc, rfl⟩)]; exact hi
      refine ⟨⟨by cases hc : t.cols with | nil => exact absurd hc F.ne | cons _ _ => simp, ?_⟩, ?_⟩
      · intro f hf
        obtain ⟨c, hc, rfl⟩ := List.mem_map.mp hf
        exact F.cr c hc _ (List.mem_cons_of_mem _ (hfield c hc))
      · cases hc : t.cols with
        | nil => exact absurd hc F.ne
        | cons c r =>
          cases r with
          | nil =>
            simp only [List.map_cons, List.map_nil, Function.comp]
            have hcm : c ∈ t.cols := by rw [hc]; simp
            have := F.blank (by rw [hc]; rfl) c hcm _ (List.mem_cons_of_mem _ (hfield c hcm))
            rcases this with h | h <;> simp [h]
          | cons c2 r2 => simp
  have hread : csvRead t.csv = t.csvRecords := csvRead_csvText _ hrec
  -- the frame
  have hlens : (toRows (t.cols.map Column.csvTexts) [] t.nrows).all (fun r => r.length == (t.cols.map (·.name)).length) = true := by
    rw [List.all_eq_true]
    intro r hr
    have := toRows_row_length _ _ _ r hr
    simp [this]
  have hcols : toCols (toRows (t.cols.map Column.csvTexts) [] t.nrows) [] (t.cols.map (·.name)).length = t.cols.map Column.csvTexts := by
    have := toCols_toRows (t.cols.map Column.csvTexts) [] t.nrows htlen
    simpa using this
  refine ⟨(t.cols.map (·.name)).zip ((t.cols.map Column.csvTexts).map readColumn), ?_, ?_⟩
  · unfold csvDecode
    rw [hread]
    unfold Table.csvRecords
    simp only [hlens, if_true, hcols]
  · have hg : (t.cols.map Column.csvTexts).map readColumn = t.cols.map (fun c => readColumn c.csvTexts) := by
      simp [List.map_map, Function.comp_def]
    rw [hg]
    have hcolsEq := frame_table_cols t.cols (fun c => readColumn c.csvTexts)
    have hsame := table_same_of_cols t.cols (fun c => readColumn c.csvTexts) (fun c hc =>
      column_csv c (W.kinds c hc) (W.nonnull F.rows c hc) (F.kept c hc))
    have : Frame.table ((t.cols.map (·.name)).zip (t.cols.map fun c => readColumn c.csvTexts)) (t.cols.map (·.kind))
        = ⟨t.cols.map (fun c => ⟨c.name, c.kind, readColumn c.csvTexts⟩)⟩ := by
      cases hft : Frame.table ((t.cols.map (·.name)).zip (t.cols.map fun c => readColumn c.csvTexts)) (t.cols.map (·.kind))
      rw [hft] at hcolsEq
      simp only at hcolsEq
      rw [hcolsEq]
    rw [this]
    exact hsame

end ForML.Codec
