/-
C02 helper lemmas: the level walk of `Expression._order` on a valid table terminates without error and leaves
an index in which every argument of a listed instruction is listed at a strictly higher level.
-/
import ForML.Lemmas.C02PyOrder

namespace ForML.Flow.PyFunc
open ForML.Flow

/-! ### more on `bump` -/

theorem bump_mono {k : Key} {lvl : Nat} : ∀ {ix : Index} {e : Key × Nat}, e ∈ ix →
    ∃ l', e.2 ≤ l' ∧ (e.1, l') ∈ bump k lvl ix
  | (k', l) :: r, e, h => by
    simp only [bump]
    split
    · rename_i he
      rcases List.mem_cons.1 h with rfl | h
      · exact ⟨max l lvl, Nat.le_max_left .., List.mem_cons_self ..⟩
      · exact ⟨e.2, Nat.le_refl _, List.mem_cons_of_mem _ h⟩
    · rcases List.mem_cons.1 h with rfl | h
      · exact ⟨l, Nat.le_refl _, List.mem_cons_self ..⟩
      · obtain ⟨l', h1, h2⟩ := bump_mono (k := k) (lvl := lvl) h
        exact ⟨l', h1, List.mem_cons_of_mem _ h2⟩

theorem bump_has {k : Key} {lvl : Nat} : ∀ (ix : Index), ∃ l, lvl ≤ l ∧ (k, l) ∈ bump k lvl ix
  | [] => ⟨lvl, Nat.le_refl _, by simp [bump]⟩
  | (k', l) :: r => by
    simp only [bump]
    split
    · rename_i he; subst he
      exact ⟨max l lvl, Nat.le_max_right .., List.mem_cons_self ..⟩
    · obtain ⟨l', h1, h2⟩ := bump_has (k := k) (lvl := lvl) r
      exact ⟨l', h1, List.mem_cons_of_mem _ h2⟩

/-- in an index with unique keys a key has one level -/
theorem level_unique : ∀ {ix : Index}, (ix.map (·.1)).Nodup → ∀ {k : Key} {l l' : Nat}, (k, l) ∈ ix → (k, l') ∈ ix → l = l'
  | [], _, _, _, _, h, _ => by cases h
  | y :: r, hn, k, l, l', h, h' => by
    simp only [List.map_cons, List.nodup_cons] at hn
    rcases List.mem_cons.1 h with rfl | h1 <;> rcases List.mem_cons.1 h' with h2 | h2
    · cases h2; rfl
    · exact absurd (List.mem_map_of_mem (f := (·.1)) h2) hn.1
    · subst h2; exact absurd (List.mem_map_of_mem (f := (·.1)) h1) hn.1
    · exact level_unique hn.2 h1 h2

/-! ### unfolding `walk` -/

theorem walk_nil (t : Table) (f lvl : Nat) (ix : Index) : walk t (f + 1) lvl [] ix = .ok ix := by
  simp [walk, pure, Except.pure]

theorem walk_cons (t : Table) (f lvl : Nat) (p : Key) (ps : List Key) (ix : Index) :
    walk t (f + 1) lvl (p :: ps) ix =
      match t.find p with
      | none => .error .keyError
      | some s =>
        match walk t f (lvl + 1) s.args (bump p lvl ix) with
        | .error e => .error e
        | .ok ix1 => walk t (f + 1) lvl ps ix1 := by
  conv => lhs; unfold walk
  simp only [List.foldlM_cons, bind, Except.bind]
  cases t.find p with
  | none => rfl
  | some s =>
    simp only
    cases walk t f (lvl + 1) s.args (bump p lvl ix) with
    | error e => rfl
    | ok ix1 => simp only; conv => rhs; unfold walk

/-! ### termination without error -/

theorem walk_ok {t : Table} {r : Key → Nat} (hr : Ranked t r) :
    ∀ (f lvl : Nat) (parents : List Key) (ix : Index), (∀ p ∈ parents, (t.find p).isSome ∧ r p < f) →
      ∃ ix', walk t (f + 1) lvl parents ix = .ok ix' := by
  intro f
  induction f with
  | zero =>
    intro lvl parents ix h
    cases parents with
    | nil => exact ⟨ix, walk_nil ..⟩
    | cons p ps => have := (h p (List.mem_cons_self ..)).2; omega
  | succ f ih =>
    intro lvl parents
    induction parents with
    | nil => intro ix _; exact ⟨ix, walk_nil ..⟩
    | cons p ps ihp =>
      intro ix h
      have hp := h p (List.mem_cons_self ..)
      cases hfind : t.find p with
      | none => simp [hfind] at hp
      | some s =>
        obtain ⟨ix1, h1⟩ := ih (lvl + 1) s.args (bump p lvl ix)
          (fun a ha => by have := hr.find_args hfind a ha; exact ⟨this.1, by omega⟩)
        obtain ⟨ix2, h2⟩ := ihp ix1 (fun q hq => h q (List.mem_cons_of_mem _ hq))
        refine ⟨ix2, ?_⟩
        rw [walk_cons, hfind]
        simp only [h1]
        exact h2

/-! ### the level invariant -/

theorem mem_bump_self {k : Key} {lvl : Nat} : ∀ {ix : Index} {l : Nat}, (k, l) ∈ bump k lvl ix → l = lvl ∨ (k, l) ∈ ix
  | [], l, h => by simp [bump] at h; exact Or.inl h
  | (k', l0) :: r, l, h => by
    simp only [bump] at h
    split at h
    · rename_i he
      subst he
      rcases List.mem_cons.1 h with h1 | h1
      · cases h1
        by_cases hle : l0 ≤ lvl
        · exact Or.inl (Nat.max_eq_right hle)
        · right; rw [Nat.max_eq_left (by omega)]; exact List.mem_cons_self ..
      · exact Or.inr (List.mem_cons_of_mem _ h1)
    · rcases List.mem_cons.1 h with h1 | h1
      · rename_i hne; cases h1; exact absurd rfl hne
      · rcases mem_bump_self h1 with h2 | h2
        · exact Or.inl h2
        · exact Or.inr (List.mem_cons_of_mem _ h2)

/-- the arguments of `k` are listed at levels strictly above `l` -/
def ArgsAbove (t : Table) (ix : Index) (k : Key) (l : Nat) : Prop :=
  ∀ s, t.find k = some s → ∀ a ∈ s.args, ∃ l', (a, l') ∈ ix ∧ l < l'

/-- state invariant of the walk below rank `R` -/
structure WState (t : Table) (r : Key → Nat) (R : Nat) (ix : Index) : Prop where
  nodup : (ix.map (·.1)).Nodup
  closed : ∀ k l, (k, l) ∈ ix → r k < R → ArgsAbove t ix k l
  bound : ∀ e ∈ ix, (t.find e.1).isSome

/-- what one `walk` call achieves -/
structure WStep (t : Table) (r : Key → Nat) (R lvl : Nat) (parents : List Key) (ix ix' : Index) : Prop where
  st : WState t r R ix'
  reach : ∀ p ∈ parents, ∃ l, lvl ≤ l ∧ (p, l) ∈ ix'
  mono : ∀ k l, (k, l) ∈ ix → ∃ l', l ≤ l' ∧ (k, l') ∈ ix'
  frozen : ∀ e ∈ ix, R ≤ r e.1 → e ∈ ix'
  fresh : ∀ e ∈ ix', e ∈ ix ∨ r e.1 < R

theorem walk_closed {t : Table} {r : Key → Nat} (hr : Ranked t r) :
    ∀ (f lvl : Nat) (parents : List Key) (ix ix' : Index) (R : Nat), walk t f lvl parents ix = .ok ix' →
      (∀ p ∈ parents, r p < R) → WState t r R ix → WStep t r R lvl parents ix ix' := by
  intro f
  induction f with
  | zero => intro lvl parents ix ix' R h; simp [walk] at h
  | succ f ih =>
    intro lvl parents
    induction parents with
    | nil =>
      intro ix ix' R h _ hst
      rw [walk_nil] at h
      cases h
      exact ⟨hst, by simp, fun k l h => ⟨l, Nat.le_refl _, h⟩, fun e h _ => h, fun e h => Or.inl h⟩
    | cons p ps ihp =>
      intro ix ix' R h hlt hst
      rw [walk_cons] at h
      cases hfind : t.find p with
      | none => simp [hfind] at h
      | some s =>
        simp only [hfind] at h
        cases hw : walk t f (lvl + 1) s.args (bump p lvl ix) with
        | error e => simp [hw] at h
        | ok ix1 =>
          simp only [hw] at h
          have hpR : r p < R := hlt p (List.mem_cons_self ..)
          -- Step A
          have hA : WState t r (r p) (bump p lvl ix) := by
            refine ⟨bump_nodup hst.nodup, ?_, ?_⟩
            rotate_left
            · intro e he
              rcases mem_bump he with h1 | h1
              · exact hst.bound e h1
              · rw [h1.1, hfind]; rfl
            intro k l hk hkr s' hs' a ha
            have hne : k ≠ p := fun e => by subst e; omega
            have hk' : (k, l) ∈ ix := by
              rcases mem_bump hk with h1 | h1
              · exact h1
              · exact absurd h1.1 hne
            obtain ⟨l0, h0, hl0⟩ := hst.closed k l hk' (by omega) s' hs' a ha
            obtain ⟨l1, h1, h2⟩ := bump_mono (k := p) (lvl := lvl) h0
            exact ⟨l1, h2, by simp at h1; omega⟩
          -- Step B
          have hB := ih (lvl + 1) s.args _ ix1 (r p) hw (fun a ha => (hr.find_args hfind a ha).2) hA
          -- Step C
          have hC : WState t r R ix1 := by
            refine ⟨hB.st.nodup, ?_, hB.st.bound⟩
            intro k l hk hkR
            by_cases hkp : r k < r p
            · exact hB.st.closed k l hk hkp
            · have hkb : (k, l) ∈ bump p lvl ix := by
                rcases hB.fresh _ hk with h1 | h1
                · exact h1
                · exact absurd h1 hkp
              intro s' hs' a ha
              by_cases hk_eq : k = p
              · subst hk_eq
                rw [hfind] at hs'; cases hs'
                rcases mem_bump_self hkb with h1 | h1
                · obtain ⟨la, h2, h3⟩ := hB.reach a ha
                  exact ⟨la, h3, by omega⟩
                · obtain ⟨l0, h0, hl0⟩ := hst.closed k l h1 hkR s hfind a ha
                  obtain ⟨l1, h2, h3⟩ := bump_mono (k := k) (lvl := lvl) h0
                  obtain ⟨l2, h4, h5⟩ := hB.mono a l1 h3
                  exact ⟨l2, h5, by simp at h2; omega⟩
              · have hk' : (k, l) ∈ ix := by
                  rcases mem_bump hkb with h1 | h1
                  · exact h1
                  · exact absurd h1.1 hk_eq
                obtain ⟨l0, h0, hl0⟩ := hst.closed k l hk' hkR s' hs' a ha
                obtain ⟨l1, h2, h3⟩ := bump_mono (k := p) (lvl := lvl) h0
                obtain ⟨l2, h4, h5⟩ := hB.mono a l1 h3
                exact ⟨l2, h5, by simp at h2; omega⟩
          -- Step D
          have hD := ihp ix1 ix' R h (fun q hq => hlt q (List.mem_cons_of_mem _ hq)) hC
          -- Step E
          refine ⟨hD.st, ?_, ?_, ?_, ?_⟩
          · intro q hq
            rcases List.mem_cons.1 hq with rfl | hq'
            · obtain ⟨l, h1, h2⟩ := bump_has (k := q) (lvl := lvl) ix
              have h3 := hB.frozen _ h2 (Nat.le_refl _)
              obtain ⟨l', h4, h5⟩ := hD.mono q l h3
              exact ⟨l', by omega, h5⟩
            · exact hD.reach q hq'
          · intro k l hk
            obtain ⟨l1, h1, h2⟩ := bump_mono (k := p) (lvl := lvl) hk
            obtain ⟨l2, h3, h4⟩ := hB.mono k l1 h2
            obtain ⟨l3, h5, h6⟩ := hD.mono k l2 h4
            exact ⟨l3, by simp at h1; omega, h6⟩
          · intro e he hR
            have hne : e.1 ≠ p := fun e' => by rw [e'] at hR; omega
            have h1 := mem_bump_of_ne (k := p) (lvl := lvl) he hne
            have h2 := hB.frozen e h1 (by omega)
            exact hD.frozen e h2 hR
          · intro e he
            rcases hD.fresh e he with h1 | h1
            · rcases hB.fresh e h1 with h2 | h2
              · rcases mem_bump h2 with h3 | h3
                · exact Or.inl h3
                · right; rw [h3.1]; exact hpR
              · right; omega
            · exact Or.inr h1

end ForML.Flow.PyFunc
