/-
C04 helper lemmas, part 9: the copy as `Traversal.copy` produces it (`Comp.copiedMech`, Model/PersistTraverse.lean).
If every worker visited on the apply segment is forked and its fork publishes to the forks of its subscribers in the
original order (`Comp.copyFaithful`, decidable), the evaluation's composition has the persistent list of the plain
composition, `eval_perftrack` hands every worker what batch apply hands it, and the composition is well-formed
(`Case.wfPerf`).  The lemmas are stated for `Comp.withCopy` (any set of forks, any subscriptions among them).
-/
import ForML.Model.PersistTraverse
import ForML.Lemmas.C04PerfWf
import ForML.Lemmas.C04Reach

namespace ForML.Persist

theorem find?_filter_of_imp {α : Type} (l : List α) (p q : α → Bool) (h : ∀ a, q a = true → p a = true) :
    (l.filter p).find? q = l.find? q := by
  induction l with
  | nil => rfl
  | cons x xs ih =>
    by_cases hq : q x = true
    · have hp := h x hq
      simp [hp, hq]
    · have hq' : q x = false := by simpa using hq
      by_cases hp : p x = true
      · simp [hp, hq', ih]
      · have hp' : p x = false := by simpa using hp
        simp [hp', hq', ih]

namespace Comp

variable {ρ : Nat → Nat} {c : Comp} {keep : Nat → Bool} {es : List (Nat × Nat)}

theorem next_of_ne (c : Comp) {t u : Nat} (h : u ≠ t) : c.next t u = c.subs u := by
  have : (u == t) = false := by simpa using h
  simp [next, this]

theorem next_tail (c : Comp) (t : Nat) : c.next t t = (c.subs t).filter c.isTrained := by
  simp [next]

theorem next_tail_clean (htail : c.tailClean = true) : c.next c.applyTail c.applyTail = [] := by
  rw [next_tail]
  apply List.filter_eq_nil_iff.mpr
  intro v hv
  simp only [tailClean, List.all_eq_true] at htail
  simpa using htail v hv

theorem isTrained_withCopy (ρ : Nat → Nat) (keep : Nat → Bool) (es : List (Nat × Nat)) (c : Comp) (u : Nat) :
    (c.withCopy ρ keep es).isTrained u = c.isTrained u := by
  simp only [isTrained, withCopy, List.any_append, List.any_map]
  have : ((c.nodes.filter (fun n => keep n.uid)).any ((fun n : Node => n.uid == u && n.trained) ∘ Node.fork ρ)) = false := by
    apply List.any_eq_false.mpr
    intro n _
    simp [Function.comp, Node.fork]
  rw [this, Bool.or_false]

theorem subs_withCopy_fork (hf : FreshFor ρ c) (u : Nat) :
    (c.withCopy ρ keep es).subs (ρ u) = ((es.filter (fun e => e.1 == u)).map (·.2)).map ρ := by
  simp only [subs, withCopy, List.filter_append, List.map_append]
  have h1 : c.edges.filter (fun e => e.1 == ρ u) = [] := by
    apply List.filter_eq_nil_iff.mpr
    intro e he
    have := hf.disj u e.1 (src_mem_uids he)
    simp only [beq_iff_eq]
    exact fun h => this h.symm
  rw [h1, List.map_nil, List.nil_append, List.filter_map, List.map_map, List.map_map]
  congr 1
  apply List.filter_congr
  intro e _
  simp [Function.comp, hf.inj.beq]

theorem subs_withCopy_orig (hf : FreshFor ρ c) {u : Nat} (hu : u ∈ c.uids) :
    (c.withCopy ρ keep es).subs u = c.subs u := by
  simp only [subs, withCopy, List.filter_append, List.map_append]
  have h2 : (es.map (fun e => (ρ e.1, ρ e.2))).filter (fun e => e.1 == u) = [] := by
    apply List.filter_eq_nil_iff.mpr
    intro e he
    simp only [List.mem_map] at he
    obtain ⟨e0, _, rfl⟩ := he
    simp only [beq_iff_eq]
    exact hf.disj e0.1 u hu
  rw [h2, List.map_nil, List.append_nil]

/-- a fork whose subscriptions were re-created in the original order steps like its original -/
theorem next_withCopy_fork (hf : FreshFor ρ c) (htail : c.tailClean = true) {u : Nat}
    (hE : (es.filter (fun e => e.1 == u)).map (·.2) = c.next c.applyTail u) :
    (c.withCopy ρ keep es).next (ρ c.applyTail) (ρ u) = (c.next c.applyTail u).map ρ := by
  by_cases hut : u = c.applyTail
  · subst hut
    rw [next_tail, subs_withCopy_fork hf, hE, next_tail_clean htail]
    rfl
  · have hne : ρ u ≠ ρ c.applyTail := fun e => hut (hf.inj _ _ e)
    rw [next_of_ne _ hne, subs_withCopy_fork hf, hE]

theorem next_withCopy_orig (hf : FreshFor ρ c) (t : Nat) {u : Nat} (hu : u ∈ c.uids) :
    (c.withCopy ρ keep es).next t u = c.next t u := by
  simp only [next, subs_withCopy_orig hf hu]
  split
  · apply List.filter_congr
    intro v _
    exact isTrained_withCopy ρ keep es c v
  · rfl

/-- traversals that step alike *on the visited nodes* visit alike -/
theorem dfs_map_of_next_on (hρ : Inj ρ) (c c' : Comp) (t t' : Nat) :
    ∀ (f : Nat) (stack seen : List Nat),
      (∀ u ∈ c.dfs t f stack seen, c'.next t' (ρ u) = (c.next t u).map ρ) →
      c'.dfs t' f (stack.map ρ) (seen.map ρ) = (c.dfs t f stack seen).map ρ := by
  intro f
  induction f with
  | zero => intro stack seen _; simp [dfs]
  | succ f ih =>
    intro stack seen h
    cases stack with
    | nil => simp [dfs]
    | cons u rest =>
      by_cases hc : seen.contains u = true
      · have hm : u ∈ seen := by simpa using hc
        have hres : c.dfs t (f + 1) (u :: rest) seen = c.dfs t f rest seen := by simp [dfs, hm]
        rw [hres] at h ⊢
        have := ih rest seen h
        simp only [List.map_cons, dfs, hρ.contains_map, hc, if_true]
        exact this
      · have hc' : seen.contains u = false := by simpa using hc
        have hm : u ∉ seen := by simpa using hc'
        have hres : c.dfs t (f + 1) (u :: rest) seen = c.dfs t f (c.next t u ++ rest) (seen ++ [u]) := by
          simp [dfs, hm]
        rw [hres] at h ⊢
        have hu : u ∈ c.dfs t f (c.next t u ++ rest) (seen ++ [u]) :=
          dfs_seen_sub c t f _ _ u (by simp)
        have := ih (c.next t u ++ rest) (seen ++ [u]) h
        simp only [List.map_append, List.map_cons, List.map_nil] at this
        simp only [List.map_cons, dfs, hρ.contains_map, hc', Bool.false_eq_true, if_false, h u hu]
        exact this

theorem fuel_withCopy (ρ : Nat → Nat) (keep : Nat → Bool) (es : List (Nat × Nat)) (c : Comp) :
    (c.withCopy ρ keep es).fuel = c.fuel + es.length := by
  simp only [fuel, withCopy, List.length_append, List.length_map]
  omega

/-- what the hypotheses of this file say about the subscriptions among the forks -/
def EdgesFaithful (c : Comp) (keep : Nat → Bool) (es : List (Nat × Nat)) : Prop :=
  ∀ u ∈ c.visit c.applyHead c.applyTail,
    keep u = true ∧ (es.filter (fun e => e.1 == u)).map (·.2) = c.next c.applyTail u

theorem visit_withCopy_fork (hf : FreshFor ρ c) (htail : c.tailClean = true) (hE : EdgesFaithful c keep es) :
    (c.withCopy ρ keep es).visit (ρ c.applyHead) (ρ c.applyTail) = (c.visit c.applyHead c.applyTail).map ρ := by
  have h := dfs_map_of_next_on hf.inj c (c.withCopy ρ keep es) c.applyTail (ρ c.applyTail)
    (c.fuel + es.length) [c.applyHead] []
    (by
      rw [visit_fuel]
      intro u hu
      exact next_withCopy_fork hf htail (hE u hu).2)
  simp only [List.map_cons, List.map_nil] at h
  show (c.withCopy ρ keep es).dfs (ρ c.applyTail) (c.withCopy ρ keep es).fuel [ρ c.applyHead] [] = _
  rw [fuel_withCopy, h, visit_fuel]

theorem visit_withCopy_orig (hf : FreshFor ρ c) :
    (c.withCopy ρ keep es).visit c.applyHead c.applyTail = c.visit c.applyHead c.applyTail := by
  have h := dfs_congr_on c (c.withCopy ρ keep es) c.applyTail (fun u => u ∈ c.uids)
    (fun u hu => next_withCopy_orig hf c.applyTail hu) (fun u v _ hv => next_mem_uids hv)
    (c.fuel + es.length) [c.applyHead] []
    (fun u hu => by
      simp only [List.mem_singleton] at hu
      rw [hu]
      exact applyHead_mem_uids c)
  show (c.withCopy ρ keep es).dfs c.applyTail (c.withCopy ρ keep es).fuel [c.applyHead] [] = _
  rw [fuel_withCopy, h, visit_fuel]

theorem node?_withCopy_fork (hf : FreshFor ρ c) {u : Nat} (hk : keep u = true) :
    (c.withCopy ρ keep es).node? (ρ u) = (c.node? u).map (Node.fork ρ) := by
  simp only [node?, withCopy, List.find?_append, List.find?_map]
  have h1 : c.nodes.find? (fun n => n.uid == ρ u) = none := by
    apply List.find?_eq_none.mpr
    intro n hn
    have := hf.disj u n.uid (uid_mem_uids hn)
    simp only [beq_iff_eq]
    exact fun e => this e.symm
  rw [h1, Option.none_or]
  have hpred : ((fun n : Node => n.uid == ρ u) ∘ Node.fork ρ) = (fun n : Node => n.uid == u) := by
    funext n
    simp [Function.comp, Node.fork, hf.inj.beq]
  rw [hpred, find?_filter_of_imp]
  intro a ha
  have : a.uid = u := by simpa using ha
  rw [this]
  exact hk

theorem node?_withCopy_orig (hf : FreshFor ρ c) {u : Nat} (hu : u ∈ c.uids) :
    (c.withCopy ρ keep es).node? u = c.node? u := by
  simp only [node?, withCopy, List.find?_append, List.find?_map]
  have h2 : (c.nodes.filter (fun n => keep n.uid)).find? ((fun n : Node => n.uid == u) ∘ Node.fork ρ) = none := by
    apply List.find?_eq_none.mpr
    intro n _
    simp only [Function.comp, Node.fork, beq_iff_eq]
    exact hf.disj n.uid u hu
  rw [h2, Option.map_none, Option.or_none]

theorem visitNodes_withCopy_fork (hf : FreshFor ρ c) (htail : c.tailClean = true) (hE : EdgesFaithful c keep es) :
    (c.withCopy ρ keep es).visitNodes (ρ c.applyHead) (ρ c.applyTail)
      = (c.visitNodes c.applyHead c.applyTail).map (Node.fork ρ) := by
  simp only [visitNodes, visit_withCopy_fork hf htail hE, List.filterMap_map, List.map_filterMap]
  apply filterMap_congr_mem
  intro u hu
  simp [Function.comp, node?_withCopy_fork hf (hE u hu).1]

theorem visitNodes_withCopy_orig (hf : FreshFor ρ c) :
    (c.withCopy ρ keep es).visitNodes c.applyHead c.applyTail = c.visitNodes c.applyHead c.applyTail := by
  simp only [visitNodes, visit_withCopy_orig hf]
  apply filterMap_congr_mem
  intro u hu
  exact node?_withCopy_orig hf (visit_mem_uids (applyHead_mem_uids c) u hu)

theorem derived_withCopy_orig (ρ : Nat → Nat) (keep : Nat → Bool) (es : List (Nat × Nat)) (c : Comp) (n : Node) :
    (c.withCopy ρ keep es).derived n = c.derived n := by
  simp only [derived, withCopy, List.any_append, List.any_map]
  have : (c.nodes.filter (fun n => keep n.uid)).any
      ((fun m : Node => m.gid == n.gid && m.uid != n.uid && m.trained) ∘ Node.fork ρ) = false := by
    apply List.any_eq_false.mpr
    intro m _
    simp [Function.comp, Node.fork]
  rw [this, Bool.or_false]

theorem derived_withCopy_fork (hf : FreshFor ρ c) (hdist : c.uidsDistinct = true) {n : Node} (hn : n ∈ c.nodes)
    (hnt : n.trained = false) : (c.withCopy ρ keep es).derived (n.fork ρ) = c.derived n := by
  rw [derived_withCopy_orig]
  have h := derived_copied_fork hf hdist hn hnt
  rw [derived_copied_orig] at h
  exact h

theorem tagOfGid_withCopy (ρ : Nat → Nat) (keep : Nat → Bool) (es : List (Nat × Nat)) (c : Comp) (g : Nat) :
    (c.withCopy ρ keep es).tagOfGid g = c.tagOfGid g := by
  simp only [tagOfGid, withCopy, List.find?_append]
  cases h : c.nodes.find? (fun n => n.gid == g) with
  | some n => rfl
  | none =>
    have hall := List.find?_eq_none.mp h
    have h2 : ((c.nodes.filter (fun n => keep n.uid)).map (Node.fork ρ)).find? (fun n => n.gid == g) = none := by
      apply List.find?_eq_none.mpr
      intro m hm
      simp only [List.mem_map, List.mem_filter] at hm
      obtain ⟨n, ⟨hn, _⟩, rfl⟩ := hm
      exact hall n hn
    rw [h2]
    rfl

theorem persistent_withCopy (hf : FreshFor ρ c) (htail : c.tailClean = true) (hdist : c.uidsDistinct = true)
    (hnt : c.noTrainer c.applyHead c.applyTail = true) (hE : EdgesFaithful c keep es) :
    (c.withCopy ρ keep es).persistent = c.persistent := by
  show (c.withCopy ρ keep es).persistentOf ((c.withCopy ρ keep es).visitNodes (ρ c.applyHead) (ρ c.applyTail)) = _
  rw [visitNodes_withCopy_fork hf htail hE]
  simp only [persistent, persistentOf, List.filter_map, List.map_map]
  congr 2
  apply List.filter_congr
  intro n hn
  simp only [Function.comp]
  have hun := untrained_of_noTrainer hnt n hn
  exact derived_withCopy_fork hf hdist (mem_visitNodes hn) hun

theorem persistentTags_withCopy (hf : FreshFor ρ c) (htail : c.tailClean = true) (hdist : c.uidsDistinct = true)
    (hnt : c.noTrainer c.applyHead c.applyTail = true) (hE : EdgesFaithful c keep es) :
    (c.withCopy ρ keep es).persistentTags = c.persistentTags := by
  simp only [persistentTags, persistent_withCopy hf htail hdist hnt hE]
  congr 1
  funext g
  exact tagOfGid_withCopy ρ keep es c g

theorem mem_withCopy_nodes {m : Node} (h : m ∈ (c.withCopy ρ keep es).nodes) : m ∈ (c.copied ρ).nodes := by
  simp only [withCopy, copied, List.mem_append, List.mem_map, List.mem_filter] at h ⊢
  cases h with
  | inl h => exact Or.inl h
  | inr h =>
    obtain ⟨n, ⟨hn, _⟩, rfl⟩ := h
    exact Or.inr ⟨n, hn, rfl⟩

theorem tagsConsistent_withCopy (htc : c.tagsConsistent = true) : (c.withCopy ρ keep es).tagsConsistent = true := by
  have h := tagsConsistent_copied (ρ := ρ) htc
  simp only [tagsConsistent, List.all_eq_true] at h ⊢
  intro n hn m hm
  exact h n (mem_withCopy_nodes hn) m (mem_withCopy_nodes hm)

theorem uidsDistinct_withCopy (hf : FreshFor ρ c) (hd : c.uidsDistinct = true) :
    (c.withCopy ρ keep es).uidsDistinct = true := by
  have h := uidsDistinct_copied hf hd
  simp only [uidsDistinct, List.all_eq_true] at h ⊢
  intro n hn m hm
  exact h n (mem_withCopy_nodes hn) m (mem_withCopy_nodes hm)

theorem trainedStateful_withCopy (hts : c.trainedStateful = true) :
    (c.withCopy ρ keep es).trainedStateful = true := by
  have h := trainedStateful_copied (ρ := ρ) hts
  simp only [trainedStateful, List.all_eq_true] at h ⊢
  intro n hn
  exact h n (mem_withCopy_nodes hn)

theorem appliedDerived_withCopy (hf : FreshFor ρ c) (had : c.appliedDerived c.applyHead c.applyTail = true) :
    (c.withCopy ρ keep es).appliedDerived c.applyHead c.applyTail = true := by
  simp only [appliedDerived, visitNodes_withCopy_orig hf, derived_withCopy_orig] at had ⊢
  exact had

theorem noTrainer_withCopy (hf : FreshFor ρ c) (hnt : c.noTrainer c.applyHead c.applyTail = true) :
    (c.withCopy ρ keep es).noTrainer c.applyHead c.applyTail = true := by
  simp only [noTrainer, visitNodes_withCopy_orig hf] at hnt ⊢
  exact hnt

end Comp

/-- what `eval_perftrack` compiles and runs on a composition with a faithful copy is what batch apply runs -/
theorem runSegment_withCopy {ρ : Nat → Nat} {c : Comp} {keep : Nat → Bool} {es : List (Nat × Nat)}
    (hf : FreshFor ρ c) (htail : c.tailClean = true) (hdist : c.uidsDistinct = true)
    (hnt : c.noTrainer c.applyHead c.applyTail = true) (hE : Comp.EdgesFaithful c keep es) (reg : Registry)
    (a : Action) :
    runSegment (c.withCopy ρ keep es) c.applyHead c.applyTail reg a = runSegment c c.applyHead c.applyTail reg a := by
  simp only [runSegment, Comp.persistent_withCopy hf htail hdist hnt hE, Comp.visitNodes_withCopy_orig hf]
  have hobs : observeAll (c.withCopy ρ keep es) (c.visitNodes c.applyHead c.applyTail)
        ⟨c.persistent, select reg a.gen⟩ a.run a.hp
      = observeAll c (c.visitNodes c.applyHead c.applyTail) ⟨c.persistent, select reg a.gen⟩ a.run a.hp := by
    simp only [observeAll]
    rw [mapE_congr _ (observe c (c.visitNodes c.applyHead c.applyTail) ⟨c.persistent, select reg a.gen⟩ a.run a.hp)]
    intro n _
    simp only [observe, receive, Comp.derived_withCopy_orig]
  rw [hobs]

namespace Comp

variable {ρ : Nat → Nat} {c : Comp}

/-- `copiedMech` is `withCopy` of the region and the re-created subscriptions -/
theorem copiedMech_ok {pe : List PEdge} {m : Comp} (h : c.copiedMech ρ pe = .ok m) :
    ∃ paths, c.mpaths = .ok paths ∧
      m = c.withCopy ρ (c.region paths).contains (mechEdges (c.region paths) (copySubscriptions pe paths)) := by
  simp only [copiedMech] at h
  cases hp : c.mpaths with
  | error e => rw [hp] at h; cases h
  | ok paths =>
    rw [hp] at h
    simp only at h
    split at h
    · cases h
      exact ⟨paths, rfl, rfl⟩
    · cases h

theorem copyFaithful_spec {pe : List PEdge} {paths : List (List Nat)} (hp : c.mpaths = .ok paths)
    (h : c.copyFaithful pe = true) :
    EdgesFaithful c (c.region paths).contains (mechEdges (c.region paths) (copySubscriptions pe paths)) := by
  simp only [copyFaithful, hp, List.all_eq_true, Bool.and_eq_true, beq_iff_eq] at h
  intro u hu
  exact h u hu

end Comp

/-- the evaluation's composition with the mechanical copy is well-formed when the plain one is and the copy is
faithful -/
theorem wfPerf_perfMech {ρ : Nat → Nat} {c : Comp} (closed : Bool) (pe : List PEdge) (hf : FreshFor ρ c)
    (hwf : c.wfPlain = true) (htail : c.tailClean = true) (hcf : c.copyFaithful pe = true) :
    (⟨c, c.perfMech ρ closed pe⟩ : Case).wfPerf = true := by
  have hwf' := hwf
  simp only [Comp.wfPlain, Bool.and_eq_true] at hwf'
  obtain ⟨⟨⟨⟨⟨⟨htc, hd⟩, hts⟩, _⟩, hada⟩, _⟩, hnta⟩ := hwf'
  simp only [Case.wfPerf, Comp.perfMech]
  cases hch : (closed || c.isChain) with
  | false => simp
  | true =>
    simp only [if_true]
    cases hm : c.copiedMech ρ pe with
    | error e => rfl
    | ok m =>
      obtain ⟨paths, hp, rfl⟩ := Comp.copiedMech_ok hm
      have hE := Comp.copyFaithful_spec hp hcf
      simp only [Bool.and_eq_true, beq_iff_eq]
      exact ⟨⟨⟨⟨⟨Comp.tagsConsistent_withCopy htc, Comp.uidsDistinct_withCopy hf hd⟩,
        Comp.trainedStateful_withCopy hts⟩, Comp.appliedDerived_withCopy hf hada⟩, Comp.noTrainer_withCopy hf hnta⟩,
        Comp.persistentTags_withCopy hf htail hd hnta hE⟩

end ForML.Persist
