/- C17: `Latest` / `Explicit` over registry histories (lemmas about Model/StrategyLatest.lean). -/
import ForML.Model.StrategyLatest

namespace ForML.Strategy

/-! ### listings -/

/-- listings as `Level.Listing` yields them: release keys strictly ascending, generation keys strictly ascending -/
def WF (rels : Rels) : Prop :=
  rels.Pairwise (fun a b => a.1 < b.1) ∧ ∀ x ∈ rels, x.2.Pairwise (· < ·)

/-- `g` is the newest generation of release `r` -/
def NewestOf (rels : Rels) (r g : Nat) : Prop :=
  ∃ gs, (r, gs) ∈ rels ∧ g ∈ gs ∧ ∀ x ∈ gs, x ≤ g

/-- the property text: the newest generation of the highest release that has any generation -/
def Newest (rels : Rels) (r g : Nat) : Prop :=
  NewestOf rels r g ∧ ∀ x ∈ rels, x.2 ≠ [] → x.1 ≤ r

/-- what the latest-strategy has to resolve to: "(or of the configured release)" -/
def Spec (cfg : Option Nat) (rels : Rels) (r g : Nat) : Prop :=
  match cfg with
  | none => Newest rels r g
  | some c => c = r ∧ NewestOf rels r g

theorem WF.tail {x : Nat × List Nat} {rels : Rels} (h : WF (x :: rels)) : WF rels :=
  ⟨(List.pairwise_cons.mp h.1).2, fun y hy => h.2 y (List.mem_cons_of_mem _ hy)⟩

theorem gensOf_mem {rels : Rels} {r : Nat} {gs : List Nat} (h : gensOf rels r = some gs) : (r, gs) ∈ rels := by
  induction rels with
  | nil => simp [gensOf] at h
  | cons x rest ih =>
    obtain ⟨k, ks⟩ := x
    simp only [gensOf] at h
    split at h
    · rename_i hk; cases h; subst hk; simp
    · exact List.mem_cons_of_mem _ (ih h)

theorem gensOf_of_mem {rels : Rels} (hwf : WF rels) {r : Nat} {gs : List Nat} (h : (r, gs) ∈ rels) :
    gensOf rels r = some gs := by
  induction rels with
  | nil => simp at h
  | cons x rest ih =>
    obtain ⟨k, ks⟩ := x
    simp only [gensOf]
    rcases List.mem_cons.mp h with h | h
    · cases h; simp
    · have hlt := (List.pairwise_cons.mp hwf.1).1 (r, gs) h
      simp only at hlt
      have : ¬ k = r := by omega
      simp [this, ih hwf.tail h]

theorem getLast?_mem {gs : List Nat} {g : Nat} (h : gs.getLast? = some g) : g ∈ gs :=
  List.mem_of_getLast? h

theorem sorted_le_last {gs : List Nat} (hs : gs.Pairwise (· < ·)) {g : Nat} (h : gs.getLast? = some g) :
    ∀ x ∈ gs, x ≤ g := by
  induction gs with
  | nil => simp at h
  | cons a rest ih =>
    intro x hx
    cases rest with
    | nil => simp at h hx; omega
    | cons b rest' =>
      have hl : (b :: rest').getLast? = some g := by simpa [List.getLast?_cons_cons] using h
      have hp := List.pairwise_cons.mp hs
      rcases List.mem_cons.mp hx with rfl | hx
      · have := hp.1 g (getLast?_mem hl); omega
      · exact ih hp.2 hl x hx

theorem newestOf_last {rels : Rels} (hwf : WF rels) {r : Nat} {gs : List Nat} {g : Nat}
    (hm : (r, gs) ∈ rels) (hl : gs.getLast? = some g) : NewestOf rels r g :=
  ⟨gs, hm, getLast?_mem hl, sorted_le_last (hwf.2 _ hm) hl⟩

theorem mem_unique {rels : Rels} (hwf : WF rels) {r : Nat} {gs gs' : List Nat}
    (h : (r, gs) ∈ rels) (h' : (r, gs') ∈ rels) : gs = gs' := by
  have := gensOf_of_mem hwf h
  rw [gensOf_of_mem hwf h'] at this
  cases this; rfl

theorem newestOf_unique {rels : Rels} (hwf : WF rels) {r g g' : Nat}
    (h : NewestOf rels r g) (h' : NewestOf rels r g') : g = g' := by
  obtain ⟨gs, hm, hg, hmax⟩ := h
  obtain ⟨gs', hm', hg', hmax'⟩ := h'
  have := mem_unique hwf hm hm'; subst this
  have := hmax g' hg'; have := hmax' g hg; omega

theorem newest_unique {rels : Rels} (hwf : WF rels) {r g r' g' : Nat}
    (h : Newest rels r g) (h' : Newest rels r' g') : r = r' ∧ g = g' := by
  obtain ⟨gs, hm, hg, _⟩ := h.1
  obtain ⟨gs', hm', hg', _⟩ := h'.1
  have h1 := h.2 (r', gs') hm' (by intro e; have e' : gs' = [] := e; subst e'; simp at hg')
  have h2 := h'.2 (r, gs) hm (by intro e; have e' : gs = [] := e; subst e'; simp at hg)
  have : r = r' := by simp only at h1 h2; omega
  subst this
  exact ⟨rfl, newestOf_unique hwf h.1 h'.1⟩

theorem spec_unique {cfg : Option Nat} {rels : Rels} (hwf : WF rels) {r g r' g' : Nat}
    (h : Spec cfg rels r g) (h' : Spec cfg rels r' g') : r = r' ∧ g = g' := by
  cases cfg with
  | none => exact newest_unique hwf h h'
  | some c =>
    obtain ⟨rfl, h⟩ := h
    obtain ⟨rfl, h'⟩ := h'
    exact ⟨rfl, newestOf_unique hwf h h'⟩

/-! ### `Latest._pick` without a configured release -/

theorem pickLatest_none_iff (rels : Rels) : pickLatest rels = none ↔ ∀ x ∈ rels, x.2 = [] := by
  induction rels with
  | nil => simp [pickLatest]
  | cons x rest ih =>
    obtain ⟨k, gs⟩ := x
    simp only [pickLatest]
    cases hp : pickLatest rest with
    | some y =>
      simp only [List.mem_cons, forall_eq_or_imp]
      constructor
      · intro h; cases h
      · intro h; have := ih.mpr h.2; rw [hp] at this; cases this
    | none =>
      have hall := ih.mp hp
      cases hg : gs.getLast? with
      | none =>
        have : gs = [] := List.getLast?_eq_none_iff.mp hg
        simp [this]; exact fun a b h => hall (a, b) h
      | some g =>
        have : gs ≠ [] := by intro h; simp [h] at hg
        simp; intro h; exact absurd h this

theorem pickLatest_newest {rels : Rels} (hwf : WF rels) {r g : Nat} (h : pickLatest rels = some (r, g)) :
    Newest rels r g := by
  induction rels with
  | nil => simp [pickLatest] at h
  | cons x rest ih =>
    obtain ⟨k, gs⟩ := x
    simp only [pickLatest] at h
    cases hp : pickLatest rest with
    | some y =>
      rw [hp] at h; cases h
      obtain ⟨⟨gs', hm, hg, hmax⟩, hhi⟩ := ih hwf.tail hp
      refine ⟨⟨gs', List.mem_cons_of_mem _ hm, hg, hmax⟩, ?_⟩
      intro y hy hne
      rcases List.mem_cons.mp hy with rfl | hy
      · have := (List.pairwise_cons.mp hwf.1).1 (r, gs') hm
        simp only at this ⊢; omega
      · exact hhi y hy hne
    | none =>
      rw [hp] at h
      cases hg : gs.getLast? with
      | none => simp [hg] at h
      | some g' =>
        simp [hg] at h
        obtain ⟨rfl, rfl⟩ := h
        refine ⟨newestOf_last hwf (by simp) hg, ?_⟩
        intro y hy hne
        rcases List.mem_cons.mp hy with rfl | hy
        · simp
        · exact absurd ((pickLatest_none_iff rest).mp hp y hy) hne

theorem pickLatest_of_newest {rels : Rels} (hwf : WF rels) {r g : Nat} (h : Newest rels r g) :
    pickLatest rels = some (r, g) := by
  cases hp : pickLatest rels with
  | none =>
    obtain ⟨gs, hm, hg, _⟩ := h.1
    have := (pickLatest_none_iff rels).mp hp (r, gs) hm
    simp only at this; subst this; simp at hg
  | some y =>
    obtain ⟨r', g'⟩ := y
    obtain ⟨rfl, rfl⟩ := newest_unique hwf (pickLatest_newest hwf hp) h
    rfl

/-! ### registry operations keep the listings well-formed and only add -/

theorem publishRel_keys (r : Nat) (rels : Rels) : ∀ y ∈ publishRel r rels, y ∈ rels ∨ y = (r, []) := by
  induction rels with
  | nil => intro y hy; simp [publishRel] at hy; exact Or.inr hy
  | cons x rest ih =>
    obtain ⟨k, gs⟩ := x
    intro y hy
    simp only [publishRel] at hy
    split at hy
    · rcases List.mem_cons.mp hy with h | h
      · exact Or.inr h
      · exact Or.inl h
    · split at hy
      · exact Or.inl hy
      · rcases List.mem_cons.mp hy with h | h
        · exact Or.inl (h ▸ List.mem_cons_self)
        · rcases ih y h with h | h
          · exact Or.inl (List.mem_cons_of_mem _ h)
          · exact Or.inr h

theorem publishRel_wf (r : Nat) {rels : Rels} (hwf : WF rels) : WF (publishRel r rels) := by
  induction rels with
  | nil => simp [publishRel, WF]
  | cons x rest ih =>
    obtain ⟨k, gs⟩ := x
    simp only [publishRel]
    split
    · rename_i hlt
      refine ⟨List.pairwise_cons.mpr ⟨?_, hwf.1⟩, ?_⟩
      · intro y hy
        rcases List.mem_cons.mp hy with rfl | hy
        · exact hlt
        · have := (List.pairwise_cons.mp hwf.1).1 y hy; simp only at this ⊢; omega
      · intro y hy
        rcases List.mem_cons.mp hy with rfl | hy
        · simp
        · exact hwf.2 y hy
    · split
      · exact hwf
      · rename_i h1 h2
        have ih' := ih hwf.tail
        refine ⟨List.pairwise_cons.mpr ⟨?_, ih'.1⟩, ?_⟩
        · intro y hy
          rcases publishRel_keys r rest y hy with h | rfl
          · exact (List.pairwise_cons.mp hwf.1).1 y h
          · simp only; omega
        · intro y hy
          rcases List.mem_cons.mp hy with rfl | hy
          · exact hwf.2 _ List.mem_cons_self
          · exact ih'.2 y hy

theorem gensOf_key_ge {k : Nat} {ks : List Nat} {rest : Rels} (hwf : WF ((k, ks) :: rest)) {c : Nat} {gs : List Nat}
    (h : gensOf ((k, ks) :: rest) c = some gs) : k ≤ c := by
  have hm := gensOf_mem h
  rcases List.mem_cons.mp hm with h | h
  · cases h; omega
  · have := (List.pairwise_cons.mp hwf.1).1 _ h; simp only at this; omega

theorem gensOf_publishRel {rels : Rels} (hwf : WF rels) (r : Nat) {c : Nat} {gs : List Nat}
    (h : gensOf rels c = some gs) : gensOf (publishRel r rels) c = some gs := by
  induction rels with
  | nil => simp [gensOf] at h
  | cons x rest ih =>
    obtain ⟨k, ks⟩ := x
    have hge := gensOf_key_ge hwf h
    simp only [publishRel]
    split
    · rename_i hlt
      have : ¬ r = c := by omega
      simp only [gensOf, this, if_false]
      simpa [gensOf] using h
    · split
      · exact h
      · simp only [gensOf] at h ⊢
        split
        · rename_i hk; simpa [hk] using h
        · rename_i hk; simp only [hk, if_false] at h; exact ih hwf.tail h

theorem lt_nextGen {gs : List Nat} (hs : gs.Pairwise (· < ·)) : ∀ x ∈ gs, x < nextGen gs := by
  intro x hx
  unfold nextGen
  cases hg : gs.getLast? with
  | none => have : gs = [] := List.getLast?_eq_none_iff.mp hg; subst this; simp at hx
  | some g => have := sorted_le_last hs hg x hx; simp only; omega

theorem commitRel_keys (r : Nat) (rels : Rels) : ∀ y ∈ commitRel r rels, y ∈ rels ∨ y.1 = r := by
  induction rels with
  | nil => intro y hy; simp [commitRel] at hy; exact Or.inr (by simp [hy])
  | cons x rest ih =>
    obtain ⟨k, gs⟩ := x
    intro y hy
    simp only [commitRel] at hy
    split at hy
    · rcases List.mem_cons.mp hy with h | h
      · exact Or.inr (by simp [h])
      · exact Or.inl h
    · split at hy
      · rename_i hk
        rcases List.mem_cons.mp hy with h | h
        · exact Or.inr (by simp [h, hk])
        · exact Or.inl (List.mem_cons_of_mem _ h)
      · rcases List.mem_cons.mp hy with h | h
        · exact Or.inl (h ▸ List.mem_cons_self)
        · rcases ih y h with h | h
          · exact Or.inl (List.mem_cons_of_mem _ h)
          · exact Or.inr h

theorem commitRel_wf (r : Nat) {rels : Rels} (hwf : WF rels) : WF (commitRel r rels) := by
  induction rels with
  | nil => simp [commitRel, WF]
  | cons x rest ih =>
    obtain ⟨k, gs⟩ := x
    simp only [commitRel]
    split
    · rename_i hlt
      refine ⟨List.pairwise_cons.mpr ⟨?_, hwf.1⟩, ?_⟩
      · intro y hy
        rcases List.mem_cons.mp hy with rfl | hy
        · exact hlt
        · have := (List.pairwise_cons.mp hwf.1).1 y hy; simp only at this ⊢; omega
      · intro y hy
        rcases List.mem_cons.mp hy with rfl | hy
        · simp
        · exact hwf.2 y hy
    · split
      · rename_i h1 hk
        refine ⟨List.pairwise_cons.mpr ⟨?_, (List.pairwise_cons.mp hwf.1).2⟩, ?_⟩
        · intro y hy; exact (List.pairwise_cons.mp hwf.1).1 y hy
        · intro y hy
          rcases List.mem_cons.mp hy with rfl | hy
          · have hs := hwf.2 (k, gs) List.mem_cons_self
            simp only at hs ⊢
            refine List.pairwise_append.mpr ⟨hs, by simp, ?_⟩
            intro a ha b hb
            simp at hb; subst hb
            exact lt_nextGen hs a ha
          · exact hwf.2 y (List.mem_cons_of_mem _ hy)
      · rename_i h1 h2
        have ih' := ih hwf.tail
        refine ⟨List.pairwise_cons.mpr ⟨?_, ih'.1⟩, ?_⟩
        · intro y hy
          rcases commitRel_keys r rest y hy with h | h
          · exact (List.pairwise_cons.mp hwf.1).1 y h
          · simp only; omega
        · intro y hy
          rcases List.mem_cons.mp hy with rfl | hy
          · exact hwf.2 _ List.mem_cons_self
          · exact ih'.2 y hy

/-- committing only adds: every listed generation stays listed -/
theorem gensOf_commitRel {rels : Rels} (hwf : WF rels) (r : Nat) {c : Nat} {gs : List Nat}
    (h : gensOf rels c = some gs) : ∃ gs', gensOf (commitRel r rels) c = some gs' ∧ ∀ g ∈ gs, g ∈ gs' := by
  induction rels with
  | nil => simp [gensOf] at h
  | cons x rest ih =>
    obtain ⟨k, ks⟩ := x
    have hge := gensOf_key_ge hwf h
    simp only [commitRel]
    split
    · rename_i hlt
      have : ¬ r = c := by omega
      refine ⟨gs, ?_, fun g hg => hg⟩
      simp only [gensOf, this, if_false]
      simpa [gensOf] using h
    · split
      · rename_i h1 hk
        simp only [gensOf] at h ⊢
        split
        · rename_i hkc
          simp only [hkc, if_true] at h; cases h
          exact ⟨_, rfl, fun g hg => List.mem_append_left _ hg⟩
        · rename_i hkc
          simp only [hkc, if_false] at h
          exact ⟨gs, h, fun g hg => hg⟩
      · simp only [gensOf] at h ⊢
        split
        · rename_i hk; simp only [hk, if_true] at h; exact ⟨gs, h, fun g hg => hg⟩
        · rename_i hk; simp only [hk, if_false] at h; exact ih hwf.tail h

/-- the release a commit goes to has a generation afterwards -/
theorem gensOf_commitRel_self (r : Nat) (rels : Rels) :
    ∃ gs g, gensOf (commitRel r rels) r = some gs ∧ g ∈ gs := by
  induction rels with
  | nil => exact ⟨[1], 1, by simp [commitRel, gensOf], by simp⟩
  | cons x rest ih =>
    obtain ⟨k, ks⟩ := x
    simp only [commitRel]
    split
    · exact ⟨[1], 1, by simp [gensOf], by simp⟩
    · split
      · rename_i h1 hk
        exact ⟨ks ++ [nextGen ks], nextGen ks, by simp [gensOf, hk], by simp⟩
      · rename_i h1 h2
        obtain ⟨gs, g, h, hg⟩ := ih
        have : ¬ k = r := by omega
        exact ⟨gs, g, by simp [gensOf, this, h], hg⟩

end ForML.Strategy
