/-
Helper lemmas for C05: from single registry calls to history steps (a guard + a sequence of calls, each computed on
the tree it starts from) and to the trees a process death can leave inside a step.
-/
import ForML.Lemmas.C05Calls

namespace ForML.Registry
open ForML.Fs

/-- the trees a process death can leave while the call sequence `cs` runs from `fs` (all calls before the
interrupted one complete) — or the tree on which the sequence ends -/
inductive CrashTree : Fs → List (Fs → List Op) → Fs → Prop
  | done (fs : Fs) : CrashTree fs [] fs
  | here (fs : Fs) (c : Fs → List Op) (rest : List (Fs → List Op)) (k : Nat) (cut : Option Nat) (x : Fs) :
      run fs (crashOps (atomsAll (c fs)) k cut) = some x → CrashTree fs (c :: rest) x
  | later (fs : Fs) (c : Fs → List Op) (rest : List (Fs → List Op)) (fs' x : Fs) :
      run fs (atomsAll (c fs)) = some fs' → CrashTree fs' rest x → CrashTree fs (c :: rest) x

/-- the tree after all calls of `cs` have completed -/
inductive FullTree : Fs → List (Fs → List Op) → Fs → Prop
  | done (fs : Fs) : FullTree fs [] fs
  | call (fs : Fs) (c : Fs → List Op) (rest : List (Fs → List Op)) (fs' x : Fs) :
      run fs (atomsAll (c fs)) = some fs' → FullTree fs' rest x → FullTree fs (c :: rest) x

theorem CrashTree.wf {fs x : Fs} {cs : List (Fs → List Op)} (h : CrashTree fs cs x) (w : WF fs) : WF x := by
  induction h with
  | done => exact w
  | here fs c rest k cut x hr => exact run_wf _ _ _ w hr
  | later fs c rest fs' x hr _ ih => exact ih (run_wf _ _ _ w hr)

theorem FullTree.crashTree {fs x : Fs} {cs : List (Fs → List Op)} (h : FullTree fs cs x) : CrashTree fs cs x := by
  induction h with
  | done => exact .done _
  | call fs c rest fs' x hr _ ih => exact .later fs c rest fs' x hr ih

theorem FullTree.runCalls {fs x : Fs} {cs : List (Fs → List Op)} (h : FullTree fs cs x) :
    (runCalls fs cs).err = none ∧ (runCalls fs cs).fs = x := by
  induction h with
  | done => exact ⟨rfl, rfl⟩
  | call fs c rest fs' x hr _ ih =>
    simp only [Registry.runCalls, run_runSome _ _ _ hr]
    exact ih

theorem runCalls_full (cs : List (Fs → List Op)) (fs : Fs) (h : (runCalls fs cs).err = none) :
    FullTree fs cs (runCalls fs cs).fs := by
  induction cs generalizing fs with
  | nil => exact .done _
  | cons c rest ih =>
    simp only [runCalls] at h ⊢
    split at h
    · rename_i fs' heq
      have hr : run fs (atomsAll (c fs)) = some fs' := by
        have := runSome_run (atomsAll (c fs)) fs (by rw [heq])
        rw [heq] at this; exact this
      exact .call fs c rest fs' _ hr (ih fs' h)
    · cases h

/-- where a sequence of calls stops (at its end, or where a system call fails) is one of its crash trees -/
theorem runCalls_tree (cs : List (Fs → List Op)) (fs : Fs) : CrashTree fs cs (runCalls fs cs).fs := by
  induction cs generalizing fs with
  | nil => exact .done _
  | cons c rest ih =>
    simp only [runCalls]
    split
    · rename_i fs' heq
      have hr : run fs (atomsAll (c fs)) = some fs' := by
        have := runSome_run (atomsAll (c fs)) fs (by rw [heq])
        rw [heq] at this; exact this
      exact .later fs c rest fs' _ hr (ih fs')
    · rename_i fs' heq
      obtain ⟨j, hj⟩ := runSome_prefix (atomsAll (c fs)) fs
      rw [heq] at hj
      exact .here fs c rest j none fs' (by rw [crashOps_none]; exact hj)

/-- the tree left by a process death after `k` micro-operations of the recorded calls (`crashIn`) is a crash tree -/
theorem crash_tree (cs : List (Fs → List Op)) (fs : Fs) (k : Nat) (cut : Option Nat) :
    CrashTree fs cs (runSome fs (crashOps (atomsAll (runCalls fs cs).calls.flatten) k cut)).1 := by
  induction cs generalizing fs k with
  | nil => simp [runCalls, atomsAll, crashOps, runSome]; exact .done _
  | cons c rest ih =>
    simp only [runCalls]
    split
    · rename_i fs' heq
      have hr : run fs (atomsAll (c fs)) = some fs' := by
        have := runSome_run (atomsAll (c fs)) fs (by rw [heq])
        rw [heq] at this; exact this
      simp only [List.flatten_cons, atomsAll_append, crashOps_append]
      split
      · obtain ⟨k', cut', h⟩ := runSome_crashOps_exists (atomsAll (c fs)) fs k cut
        exact .here fs c rest k' cut' _ h
      · rw [runSome_append_of_run _ _ fs fs' hr]
        exact .later fs c rest fs' _ hr (ih fs' _)
    · rename_i fs' heq
      simp only [List.flatten_cons, List.flatten_nil, List.append_nil, atomsAll_take_atoms, crashOps_take]
      obtain ⟨k', cut', h⟩ := runSome_crashOps_exists (atomsAll (c fs)) fs
        (min k (okCount fs (atomsAll (c fs)))) (if k < okCount fs (atomsAll (c fs)) then cut else none)
      exact .here fs c rest k' cut' _ h

theorem FullTree.append_inv {fs x : Fs} {A B : List (Fs → List Op)} (h : FullTree fs (A ++ B) x) :
    ∃ m, FullTree fs A m ∧ FullTree m B x := by
  induction A generalizing fs with
  | nil => exact ⟨fs, .done _, h⟩
  | cons c r ih =>
    cases h with
    | call _ _ _ fs' _ hr hrest =>
      obtain ⟨m, h1, h2⟩ := ih hrest
      exact ⟨m, .call fs c r fs' m hr h1, h2⟩

theorem FullTree.unique {fs x y : Fs} {cs : List (Fs → List Op)} (h1 : FullTree fs cs x) (h2 : FullTree fs cs y) :
    x = y := by
  rw [← h1.runCalls.2, ← h2.runCalls.2]

/-! ### a training: `write` per state, then `close` -/

/-- nothing outside the stage directory of release `p/v` differs -/
def StageEq (p v : Nat) (fs0 fs : Fs) : Prop := ∀ key, ¬ (stageP p v <+: key) → get fs key = get fs0 key

def writeCalls (p v : Nat) (sts : List (Nat × Bytes)) : List (Fs → List Op) :=
  sts.map (fun s fs => writeOps fs p v s.1 s.2)

def closeCall (impl : Impl) (p v ord : Nat) (sids : List Nat) : Fs → List Op :=
  fun fs => closeOps impl fs p v (nextGen fs p v) ⟨ord, sids⟩

theorem trainCalls_eq (impl : Impl) (p v ord : Nat) (sts : List (Nat × Bytes)) :
    trainCalls impl p v ord sts = writeCalls p v sts ++ [closeCall impl p v ord (sts.map (·.1))] := rfl

theorem tag_absent_of_invalid (fs : Fs) (p v g : Nat) (w : WF fs) (h : genValid fs p v g = false) (hg : 1 ≤ g) :
    get fs (tagP p v g) = none := by
  cases ht : get fs (tagP p v g) with
  | none => rfl
  | some n =>
    have := w.parent_dir (tagP p v g) n ht (by simp [tagP])
    simp [parent, tagP] at this
    simp [genValid, isDir, generationP, tagP, this, hg] at h
    simp [tagP, h] at ht

theorem StageEq.nextGen {p v : Nat} {fs0 fs : Fs} (h : StageEq p v fs0 fs) : nextGen fs p v = nextGen fs0 p v := by
  apply nextGen_congr
  intro g
  simp [genValid, isDir, h (generationP p v g) (by simp [stageP, generationP]), h (tagP p v g) (by simp [stageP, tagP])]

theorem train_tree (kf : Bool) (fs0 : Fs) (p v ord : Nat) (tsids : List Nat)
    (hp : get fs0 (projectP p) ≠ none) (hv : get fs0 (releaseP p v) ≠ none) (w0 : WF fs0) :
    ∀ (sts : List (Nat × Bytes)) (fs : Fs), WF fs → StageEq p v fs0 fs → ∀ x,
      CrashTree fs (writeCalls p v sts ++ [closeCall ⟨true, kf⟩ p v ord tsids]) x →
      QuietAt x fs0 p v (nextGen fs0 p v)
        ∨ FullTree fs (writeCalls p v sts ++ [closeCall ⟨true, kf⟩ p v ord tsids]) x := by
  have ht0 : get fs0 (tagP p v (nextGen fs0 p v)) = none :=
    tag_absent_of_invalid fs0 p v _ w0 (genValid_nextGen fs0 p v) (nextGen_pos fs0 p v)
  intro sts
  induction sts with
  | nil =>
    intro fs w hse x hx
    have hp' : get fs (projectP p) ≠ none := by rw [hse _ (by simp [stageP, projectP])]; exact hp
    have hv' : get fs (releaseP p v) ≠ none := by rw [hse _ (by simp [stageP, releaseP])]; exact hv
    have ht' : get fs (tagP p v (nextGen fs0 p v)) = none := by rw [hse _ (by simp [stageP, tagP])]; exact ht0
    simp only [writeCalls, List.map_nil, List.nil_append] at hx ⊢
    cases hx with
    | here _ _ _ k cut _ hr =>
      simp only [closeCall, atomsAll_closeOps, hse.nextGen] at hr
      rcases commit_crash_raw kf fs x p v _ _ k cut hp' hv' ht' hr with hq | hfull
      · left
        exact ⟨fun key h1 h2 => by rw [hq.1 key h1 h2, hse key h2], hq.2⟩
      · right
        refine .call fs _ [] x x ?_ (.done _)
        simp only [closeCall, atomsAll_closeOps, hse.nextGen]; exact hfull
    | later _ _ _ fs' _ hr hrest =>
      cases hrest
      right
      exact .call fs _ [] x x hr (.done _)
  | cons s r ih =>
    intro fs w hse x hx
    have hp' : get fs (projectP p) ≠ none := by rw [hse _ (by simp [stageP, projectP])]; exact hp
    have hv' : get fs (releaseP p v) ≠ none := by rw [hse _ (by simp [stageP, releaseP])]; exact hv
    simp only [writeCalls, List.map_cons, List.cons_append] at hx ⊢
    cases hx with
    | here _ _ _ k cut _ hr =>
      left
      simp only [atomsAll_writeOps] at hr
      have hf := write_frame fs x p v s.1 s.2 k cut hp' hv' hr
      refine ⟨fun key _ h2 => by rw [hf key h2, hse key h2], ?_⟩
      rw [hf _ (by simp [stageP, tagP]), hse _ (by simp [stageP, tagP])]; exact ht0
    | later _ _ _ fs' _ hr hrest =>
      have hr' := hr
      simp only [atomsAll_writeOps] at hr'
      have hf := write_full_frame fs fs' p v s.1 s.2 hp' hv' hr'
      have hse' : StageEq p v fs0 fs' := fun key hk => by rw [hf key hk, hse key hk]
      rcases ih fs' (run_wf _ _ _ w hr) hse' x hrest with hq | hfull
      · exact Or.inl hq
      · exact Or.inr (.call fs _ _ fs' x hr hfull)

/-- writes of other state ids leave a staged file alone -/
theorem writes_other (p v s0 : Nat) : ∀ (sts : List (Nat × Bytes)) (fs m : Fs),
    FullTree fs (writeCalls p v sts) m → s0 ∉ sts.map (·.1) →
    get m (stagedStateP p v s0) = get fs (stagedStateP p v s0) := by
  intro sts
  induction sts with
  | nil => intro fs m h _; cases h; rfl
  | cons s r ih =>
    intro fs m h hnin
    simp only [writeCalls, List.map_cons] at h
    cases h with
    | call _ _ _ fs' _ hr hrest =>
      simp only [atomsAll_writeOps] at hr
      simp only [List.map_cons, List.mem_cons, not_or] at hnin
      rw [ih fs' m hrest hnin.2]
      exact (write_content fs fs' p v s.1 s.2 hr).2 s0 hnin.1

/-- after all the writes every staged file holds its state (distinct ids) -/
theorem writes_content (p v : Nat) : ∀ (sts : List (Nat × Bytes)) (fs m : Fs),
    FullTree fs (writeCalls p v sts) m → (sts.map (·.1)).Nodup →
    ∀ sb ∈ sts, get m (stagedStateP p v sb.1) = some (.file sb.2) := by
  intro sts
  induction sts with
  | nil => intro _ _ _ _ sb h; cases h
  | cons s r ih =>
    intro fs m h hnd sb hsb
    simp only [List.map_cons, List.nodup_cons] at hnd
    have h' := h
    simp only [writeCalls, List.map_cons] at h'
    cases h' with
    | call _ _ _ fs' _ hr hrest =>
      simp only [atomsAll_writeOps] at hr
      rcases List.mem_cons.mp hsb with rfl | hin
      · rw [writes_other p v sb.1 r fs' m hrest hnd.1]
        exact (write_content fs fs' p v sb.1 sb.2 hr).1
      · exact ih fs' m hrest hnd.2 sb hin

theorem writes_stageEq (p v : Nat) (fs0 : Fs) (hp : get fs0 (projectP p) ≠ none) (hv : get fs0 (releaseP p v) ≠ none) :
    ∀ (sts : List (Nat × Bytes)) (fs m : Fs), StageEq p v fs0 fs → FullTree fs (writeCalls p v sts) m →
    StageEq p v fs0 m := by
  intro sts
  induction sts with
  | nil => intro fs m h hm; cases hm; exact h
  | cons s r ih =>
    intro fs m hse hm
    simp only [writeCalls, List.map_cons] at hm
    cases hm with
    | call _ _ _ fs' _ hr hrest =>
      simp only [atomsAll_writeOps] at hr
      have hp' : get fs (projectP p) ≠ none := by rw [hse _ (by simp [stageP, projectP])]; exact hp
      have hv' : get fs (releaseP p v) ≠ none := by rw [hse _ (by simp [stageP, releaseP])]; exact hv
      have hf := write_full_frame fs fs' p v s.1 s.2 hp' hv' hr
      exact ih fs' m (fun key hk => by rw [hf key hk, hse key hk]) hrest

/-- the footprint and the content of a completed training (repaired code) -/
theorem train_full (kf : Bool) (fs0 x : Fs) (p v ord : Nat) (sts : List (Nat × Bytes))
    (hp : get fs0 (projectP p) ≠ none) (hv : get fs0 (releaseP p v) ≠ none)
    (h : FullTree fs0 (trainCalls ⟨true, kf⟩ p v ord sts) x) :
    (∀ key, ¬ (generationP p v (nextGen fs0 p v) <+: key) → ¬ (stageP p v <+: key) → get x key = get fs0 key)
    ∧ get x (generationP p v (nextGen fs0 p v)) = some .dir
    ∧ get x (tagP p v (nextGen fs0 p v)) = some (.file (encodeTag ⟨ord, sts.map (·.1)⟩))
    ∧ (sts.map (·.1)).Nodup
    ∧ ∀ sb ∈ sts, get x (stateP p v (nextGen fs0 p v) sb.1) = some (.file sb.2) := by
  rw [trainCalls_eq] at h
  obtain ⟨m, hw, hc⟩ := h.append_inv
  have hse := writes_stageEq p v fs0 hp hv sts fs0 m (fun _ _ => rfl) hw
  have hp' : get m (projectP p) ≠ none := by rw [hse _ (by simp [stageP, projectP])]; exact hp
  have hv' : get m (releaseP p v) ≠ none := by rw [hse _ (by simp [stageP, releaseP])]; exact hv
  cases hc with
  | call _ _ _ fs' _ hr hrest =>
    cases hrest
    simp only [closeCall, atomsAll_closeOps, hse.nextGen] at hr
    obtain ⟨c1, c2, c3, c4⟩ := close_content kf m x p v _ _ hr
    have cf := close_frame ⟨true, kf⟩ m x p v _ _ hp' hv' hr
    refine ⟨fun key h1 h2 => by rw [cf key h1 h2, hse key h2], c1, c2, c3, ?_⟩
    intro sb hsb
    rw [c4 sb.1 (List.mem_map.mpr ⟨sb, hsb, rfl⟩)]
    exact writes_content p v sts fs0 m hw c3 sb hsb

/-! ### a publish: one `push` -/

theorem publish_tree (kf : Bool) (fs x : Fs) (p v : Nat) (pkg : Pkg)
    (h : CrashTree fs [fun f => pushOps ⟨true, kf⟩ f p v pkg] x) :
    QuietPub x fs p v ∨ FullTree fs [fun f => pushOps ⟨true, kf⟩ f p v pkg] x := by
  cases h with
  | here _ _ _ k cut _ hr =>
    rcases push_crash_raw kf fs x p v pkg k cut hr with hq | hfull
    · exact Or.inl hq
    · exact Or.inr (.call fs _ [] x x hfull (.done _))
  | later _ _ _ fs' _ hr hrest =>
    cases hrest
    exact Or.inr (.call fs _ [] x x hr (.done _))

end ForML.Registry
