/-
C01 — the argument lists of the final linkage: for every worker the absolute arguments are its data arguments in port
order; the committer takes the dumpers in persistent-list order.
-/
import ForML.Lemmas.C01Final
import ForML.Lemmas.C01Sem

namespace ForML.Flow
open CState Segment

/-! ### a list is determined by its slots -/

theorem filterMap_range_all_some {f : Nat → Option Key} (k : Nat) (h : ∀ j, j < k → (f j).isSome) :
    ((List.range k).filterMap f).map some = (List.range k).map f := by
  induction k with
  | zero => rfl
  | succ k ih =>
    rw [List.range_succ, List.filterMap_append, List.map_append, List.map_append, ih (fun j hj => h j (by omega))]
    obtain ⟨a, ha⟩ := Option.isSome_iff_exists.mp (h k (by omega))
    simp [ha]

theorem filterMap_range_cut {f : Nat → Option Key} (n : Nat) (hnone : ∀ j, n ≤ j → f j = none) :
    ∀ m, n ≤ m → (List.range m).filterMap f = (List.range n).filterMap f := by
  intro m hm
  induction m with
  | zero => have : n = 0 := by omega
            subst this; rfl
  | succ m ih =>
    by_cases hnm : n ≤ m
    · rw [List.range_succ, List.filterMap_append, ih hnm]
      simp [hnone m hnm]
    · have : n = m + 1 := by omega
      subst this; rfl

theorem list_of_slots {l : List (Option Key)} {f : Nat → Option Key} (hl : LastSome l)
    (hpt : ∀ j, l.getD j none = f j) {n m : Nat} (hnm : n ≤ m) (hsome : ∀ j, j < n → (f j).isSome)
    (hnone : ∀ j, n ≤ j → f j = none) : l = ((List.range m).filterMap f).map some := by
  rw [filterMap_range_cut n hnone m hnm, filterMap_range_all_some n hsome]
  have hlen : l.length = n := by
    apply Nat.le_antisymm
    · apply hl.length_le
      intro j a hja
      rw [hpt] at hja
      apply Classical.byContradiction
      intro hge
      rw [hnone j (by omega)] at hja; cases hja
    · apply Classical.byContradiction
      intro hlt
      have hn : 0 < n := by omega
      have h1 := hsome (n - 1) (by omega)
      rw [← hpt] at h1
      have : l.getD (n - 1) none = none := by
        simp only [List.getD_eq_getElem?_getD]
        rw [List.getElem?_eq_none (by omega)]; rfl
      rw [this] at h1; cases h1
  apply List.ext_getElem
  · simp [hlen]
  · intro j h1 h2
    simp only [List.getElem_map, List.getElem_range]
    rw [← hpt j]
    simp [List.getD_eq_getElem?_getD, List.getElem?_eq_getElem h1]

section
variable {g : Segment} {A : Option Assets} {rank : Uid → Nat} {order : List Uid} {s : CState}

/-- links into a functor: one per subscription of the node -/
theorem Final.slot_uid (hf : Final g A order s) (h : WF g rank) (ho : OrderOK g order) (m : Uid) (j : Nat) (a : Key) :
    slot s.absolute (.uid m) j = some a ↔ ∃ e ∈ g.edges, e.sub = m ∧ e.subPort.index = j ∧ a = g.portKey e := by
  rw [hf.slot_iff h ho]
  constructor
  · rintro ⟨w, hw, hl⟩
    rcases linkSpec_inv hl with ⟨hk, _⟩ | ⟨hk, _⟩ | ⟨i, hk, _⟩ | ⟨e, hk, hj, ha, _, he, hpub, _⟩
    · cases hk
    · cases hk
    · cases hk
    · refine ⟨e, he, (Key.uid.inj hk).symm, hj.symm, ?_⟩
      rw [ha]
      unfold portKey
      rw [hpub, worker?_of_mem h.nodup hw]
  · rintro ⟨e, he, rfl, rfl, rfl⟩
    obtain ⟨p, hp, hlt⟩ := (h.edge e he).pub
    obtain ⟨hpm, hpu⟩ := worker?_some hp
    have htr : g.trained p.uid = false := by
      cases htr : g.trained p.uid with
      | false => rfl
      | true => exact absurd hpu.symm ((h.trainedOK hpm htr).noOut e he)
    refine ⟨p, hpm, ?_⟩
    have := LinkSpec.edge (A := A) e htr he hpu.symm hlt
    unfold portKey
    rw [hp, ← hpu]
    exact this

/-- a port has one publisher: `publisher` finds the subscription -/
theorem publisher_eq (h : WF g rank) {e : Edge} (he : e ∈ g.edges) : g.publisher e.sub e.subPort = some e := by
  obtain ⟨e', he'⟩ := Option.isSome_iff_exists.mp (publisher_isSome_of_mem he)
  obtain ⟨h1, h2, h3⟩ := publisher_some he'
  have : e' = e := eq_of_nodup_map (fun e : Edge => (e.sub, e.subPort)) (l := g.edges) h.ports h1 he
    (by simp [h2, h3])
  rw [he', this]

/-- **absolute arguments of a functor = its data arguments in port order** -/
theorem Final.ab_uid (hf : Final g A order s) (h : WF g rank) (ho : OrderOK g order) {w : Worker} (hw : w ∈ g.workers) :
    s.ab (.uid w.uid) = (g.dataArgs w).map some := by
  have hls := hf.ab_lastSome (.uid w.uid)
  cases htr : g.trained w.uid with
  | true =>
    have hT := h.trainedOK hw htr
    obtain ⟨x, hx⟩ := hT.train
    obtain ⟨y, hy⟩ := hT.label
    obtain ⟨hx1, hx2, hx3⟩ := publisher_some hx
    obtain ⟨hy1, hy2, hy3⟩ := publisher_some hy
    have hdata : g.dataArgs w = [g.portKey x, g.portKey y] := by simp [dataArgs, htr, hx, hy]
    rw [hdata]
    have h0 : (s.ab (.uid w.uid)).getD 0 none = some (g.portKey x) := by
      rw [hf.ab_slot, hf.slot_uid h ho]
      exact ⟨x, hx1, hx2, by rw [hx3]; rfl, rfl⟩
    have h1 : (s.ab (.uid w.uid)).getD 1 none = some (g.portKey y) := by
      rw [hf.ab_slot, hf.slot_uid h ho]
      exact ⟨y, hy1, hy2, by rw [hy3]; rfl, rfl⟩
    have hlen : (s.ab (.uid w.uid)).length ≤ 2 := by
      apply hls.length_le
      intro j a hja
      rw [hf.ab_slot, hf.slot_uid h ho] at hja
      obtain ⟨e, he, hes, hej, _⟩ := hja
      have := hT.noApply e he hes
      cases hp : e.subPort with
      | apply i => rw [hp] at this; cases this
      | train => rw [hp] at hej; simp [InPort.index] at hej; omega
      | label => rw [hp] at hej; simp [InPort.index] at hej; omega
    generalize s.ab (.uid w.uid) = l at h0 h1 hlen
    match l, h0, h1, hlen with
    | [a, b], h0, h1, _ =>
      simp only [List.getD_eq_getElem?_getD] at h0 h1
      simp_all
    | [], h0, _, _ => simp at h0
    | [a], _, h1, _ => simp at h1
    | _ :: _ :: _ :: _, _, _, hlen => simp at hlen
  | false =>
    have hdata : g.dataArgs w = (List.range w.szin).filterMap (fun i => (g.publisher w.uid (.apply i)).map g.portKey) := by
      simp [dataArgs, htr]
    rw [hdata]
    -- edges into a mapper are apply subscriptions below `szin`
    have hin : ∀ e ∈ g.edges, e.sub = w.uid → ∃ i, e.subPort = .apply i ∧ i < w.szin := by
      intro e he hes
      obtain ⟨s', hs', hport⟩ := (h.edge e he).sub
      rw [hes, worker?_of_mem h.nodup hw] at hs'
      cases hs'
      cases hp : e.subPort with
      | apply i => rw [hp] at hport; exact ⟨i, rfl, hport⟩
      | train =>
        have : g.trained w.uid = true := trained_iff.mpr ⟨e, he, hes, by rw [hp]; rfl⟩
        rw [htr] at this; cases this
      | label =>
        have : g.trained w.uid = true := trained_iff.mpr ⟨e, he, hes, by rw [hp]; rfl⟩
        rw [htr] at this; cases this
    have hpt : ∀ j, (s.ab (.uid w.uid)).getD j none = (g.publisher w.uid (.apply j)).map g.portKey := by
      intro j
      cases hpub : g.publisher w.uid (.apply j) with
      | some e =>
        obtain ⟨he1, he2, he3⟩ := publisher_some hpub
        rw [hf.ab_slot]
        simp only [Option.map_some]
        rw [hf.slot_uid h ho]
        exact ⟨e, he1, he2, by rw [he3]; rfl, rfl⟩
      | none =>
        simp only [Option.map_none]
        cases hs : (s.ab (.uid w.uid)).getD j none with
        | none => rfl
        | some a =>
          rw [hf.ab_slot, hf.slot_uid h ho] at hs
          obtain ⟨e, he, hes, hej, _⟩ := hs
          obtain ⟨i, hi, _⟩ := hin e he hes
          have := publisher_eq h he
          rw [hes, hi] at this
          rw [hi] at hej
          simp only [InPort.index] at hej
          rw [hej, hpub] at this; cases this
    have hnone : ∀ n, (∀ e ∈ g.edges, e.sub = w.uid → ∃ i, e.subPort = .apply i ∧ i < n) →
        ∀ j, n ≤ j → (g.publisher w.uid (.apply j)).map g.portKey = none := by
      intro n hn j hj
      cases hpub : g.publisher w.uid (.apply j) with
      | none => rfl
      | some e =>
        obtain ⟨he1, he2, he3⟩ := publisher_some hpub
        obtain ⟨i, hi, hlt⟩ := hn e he1 he2
        rw [hi] at he3; cases he3; omega
    by_cases hhead : w.uid = g.head
    · -- the head is fed from outside: no subscription at all
      have hp := h.portsOK w hw
      have htr' : g.trained g.head = false := hhead ▸ htr
      simp only [Segment.portsOK, hhead, htr', Bool.false_eq_true, if_false, if_true, Bool.and_eq_true, List.isEmpty_iff,
        List.map_eq_nil_iff, List.filter_eq_nil_iff, decide_eq_true_eq] at hp
      have hno : ∀ e ∈ g.edges, e.sub = w.uid → ∃ i, e.subPort = .apply i ∧ i < 0 := by
        intro e he hes
        exact absurd (by rw [hes, hhead]) (hp.1 e he)
      exact list_of_slots hls hpt (Nat.zero_le _) (fun j hj => by omega) (hnone 0 hno)
    · have hp := h.portsOK w hw
      simp only [Segment.portsOK, htr, Bool.false_eq_true, if_false, hhead, List.all_eq_true, List.mem_range] at hp
      refine list_of_slots hls hpt (Nat.le_refl _) ?_ (hnone w.szin hin)
      intro j hj
      obtain ⟨e, he⟩ := publisher_of_contains (hp j hj)
      rw [he]; rfl

theorem list_single {l : List (Option Key)} {a : Key} (hl : LastSome l) (h0 : l.getD 0 none = some a)
    (hj : ∀ j a', l.getD j none = some a' → j = 0) : l = [some a] := by
  have := list_of_slots (f := fun j => l.getD j none) hl (fun _ => rfl) (Nat.le_refl 1)
    (fun j hj' => by have : j = 0 := by omega
                     subst this; rw [h0]; rfl)
    (fun j hj' => by
      cases hg : l.getD j none with
      | none => rfl
      | some a' => have := hj j a' hg; omega)
  refine this.trans ?_
  simp only [List.getD_eq_getElem?_getD] at h0
  simp [List.range_succ, h0]

/-- a getter takes the functor of its node -/
theorem Final.ab_getter (hf : Final g A order s) (h : WF g rank) (ho : OrderOK g order) {w : Worker} (hw : w ∈ g.workers)
    (htr : g.trained w.uid = false) (hne : w.szout ≠ 1) {i : Nat} (hi : i < w.szout) :
    s.ab (.getter w.uid i) = [some (.uid w.uid)] := by
  apply list_single (hf.ab_lastSome _)
  · rw [hf.ab_slot, hf.slot_iff h ho]
    exact ⟨w, hw, LinkSpec.getter i htr hne hi⟩
  · intro j a' hja
    rw [hf.ab_slot, hf.slot_iff h ho] at hja
    obtain ⟨w', _, hl⟩ := hja
    rcases linkSpec_inv hl with ⟨hk, _⟩ | ⟨hk, _⟩ | ⟨i', _, hj, _⟩ | ⟨e, hk, _⟩
    · cases hk
    · cases hk
    · exact hj
    · cases hk

/-- a dumper takes the train functor of its node -/
theorem Final.ab_dumper (hf : Final g A order s) (h : WF g rank) (ho : OrderOK g order) {w : Worker} (hw : w ∈ g.workers)
    (hT : g.isTrainer w = true) (hP : persistentW A w = true) :
    s.ab (.dumper w.uid) = [some (.uid w.uid)] := by
  apply list_single (hf.ab_lastSome _)
  · rw [hf.ab_slot, hf.slot_iff h ho]
    exact ⟨w, hw, LinkSpec.dumper hT hP⟩
  · intro j a' hja
    rw [hf.ab_slot, hf.slot_iff h ho] at hja
    obtain ⟨w', _, hl⟩ := hja
    rcases linkSpec_inv hl with ⟨_, hj, _⟩ | ⟨hk, _⟩ | ⟨i', hk, _⟩ | ⟨e, hk, _⟩
    · exact hj
    · cases hk
    · cases hk
    · cases hk

theorem indexOf_get {γ : Gid} {l : List Gid} {j : Nat} (h : indexOf γ l = some j) : l[j]? = some γ := by
  induction l generalizing j with
  | nil => simp [indexOf] at h
  | cons x r ih =>
    simp only [indexOf] at h
    split at h
    · cases h; subst_vars; rfl
    · cases hr : indexOf γ r with
      | none => simp [hr] at h
      | some j' =>
        simp only [hr, Option.map_some, Option.some.injEq] at h
        subst h
        simpa using ih hr

theorem indexOf_of_get {γ : Gid} {l : List Gid} (hnd : l.Nodup) {j : Nat} (h : l[j]? = some γ) : indexOf γ l = some j := by
  induction l generalizing j with
  | nil => simp at h
  | cons x r ih =>
    simp only [List.nodup_cons] at hnd
    cases j with
    | zero => simp at h; subst h; simp [indexOf]
    | succ j =>
      simp only [List.getElem?_cons_succ] at h
      have hne : x ≠ γ := by
        rintro rfl
        exact hnd.1 (List.mem_of_getElem? h)
      simp only [indexOf, hne, if_false, ih hnd.2 h, Option.map_some]

theorem range_filterMap_get {α β : Type} (l : List α) (f : α → Option β) :
    (List.range l.length).filterMap (fun j => (l[j]?).bind f) = l.filterMap f := by
  induction l with
  | nil => rfl
  | cons x r ih =>
    rw [List.length_cons, List.range_succ_eq_map, List.filterMap_cons]
    simp only [List.getElem?_cons_zero, Option.bind_some, List.filterMap_cons, List.filterMap_map]
    have : ((fun j => ((x :: r)[j]?).bind f) ∘ Nat.succ) = fun j => (r[j]?).bind f := by
      funext j; simp
    rw [this, ih]

/-- **the committer takes the dumpers at the list positions of their groups** -/
theorem Final.ab_committer (hf : Final g A order s) (h : WF g rank) (hA : AssetsOK g A) (ho : OrderOK g order)
    {As : Assets} (hAs : A = some As) {t₀ : Worker} (ht₀ : t₀ ∈ g.workers) (hT₀ : g.isTrainer t₀ = true)
    (hP₀ : persistentW A t₀ = true) :
    s.ab .committer =
      (As.persistent.filterMap (fun γ => (g.trainerOf γ).map (fun t => Key.dumper t.uid))).map some := by
  have hall : ∀ γ ∈ As.persistent, (g.trainerOf γ).isSome := by
    rcases hA.allOrNone As hAs with h1 | h1
    · exact h1
    · exfalso
      obtain ⟨_, As', hAs', hc⟩ := persistentW_true hP₀
      rw [hAs] at hAs'; cases hAs'
      have hmem : t₀.gid ∈ As.persistent := (indexOf_isSome_iff _ _).mp hc
      have := trainerOf_none (h1 _ hmem) t₀ ht₀ rfl
      simp only [isTrainer, Bool.and_eq_true] at hT₀
      rw [hT₀.2] at this; cases this
  have hslot : ∀ j a, slot s.absolute .committer j = some a ↔
      ((As.persistent[j]?).bind (fun γ => (g.trainerOf γ).map (fun t => Key.dumper t.uid))) = some a := by
    intro j a
    rw [hf.slot_iff h ho]
    constructor
    · rintro ⟨w, hw, hl⟩
      rcases linkSpec_inv hl with ⟨hk, _⟩ | ⟨_, ha, hT, hP, hoff⟩ | ⟨i', hk, _⟩ | ⟨e, hk, _⟩
      · cases hk
      · subst hAs
        simp only [Option.bind_some, Assets.offset] at hoff
        rw [indexOf_get hoff]
        simp only [Option.bind_some]
        have : g.trainerOf w.gid = some w := by
          cases htO : g.trainerOf w.gid with
          | none =>
            have := trainerOf_none htO w hw rfl
            simp only [isTrainer, Bool.and_eq_true] at hT
            rw [hT.2] at this; cases this
          | some t =>
            obtain ⟨ht1, ht2, ht3⟩ := trainerOf_some htO
            have hTt : g.isTrainer t = true := by simp [isTrainer, (h.trainedOK ht1 ht3).stateful, ht3]
            rw [trainer_unique h ht1 hw ht2 hTt hT]
        rw [this, ha]; rfl
      · cases hk
      · cases hk
    · intro hb
      cases hg : As.persistent[j]? with
      | none => simp [hg] at hb
      | some γ =>
        simp only [hg, Option.bind_some, Option.map_eq_some_iff] at hb
        obtain ⟨t, htO, rfl⟩ := hb
        have hγ : γ ∈ As.persistent := List.mem_of_getElem? hg
        obtain ⟨htm, hTt, hPt⟩ := persistent_trainer h hAs hγ htO
        refine ⟨t, htm, ?_⟩
        apply LinkSpec.committer j hTt hPt
        subst hAs
        simp only [Option.bind_some, Assets.offset]
        rw [(trainerOf_some htO).2.1]
        exact indexOf_of_get (hA.nodup As rfl) hg
  have := list_of_slots (l := s.ab .committer)
    (f := fun j => (As.persistent[j]?).bind (fun γ => (g.trainerOf γ).map (fun t => Key.dumper t.uid)))
    (hf.ab_lastSome _)
    (fun j => by
      rw [hf.ab_slot]
      cases hs : slot s.absolute .committer j with
      | some a => exact ((hslot j a).mp hs).symm
      | none =>
        cases hb : (As.persistent[j]?).bind (fun γ => (g.trainerOf γ).map (fun t => Key.dumper t.uid)) with
        | none => rfl
        | some a => rw [(hslot j a).mpr hb] at hs; cases hs)
    (Nat.le_refl As.persistent.length)
    (fun j hj => by
      have hg : As.persistent[j]? = some As.persistent[j] := List.getElem?_eq_getElem hj
      simp only [hg, Option.bind_some, Option.isSome_map]
      exact hall _ (List.getElem_mem hj))
    (fun j hj => by
      have : As.persistent[j]? = none := List.getElem?_eq_none hj
      simp [this])
  rw [this, range_filterMap_get]

end

end ForML.Flow
