/-
C01 — `Table.__iter__` on the final state: the emitted symbols are exactly those of `specTable g A`, every
instruction once. Together with C01Final this is `compile_denotes`.
-/
import ForML.Lemmas.C01Leaves

namespace ForML.Flow
open CState Segment

/-! ### Except.mapM -/

theorem mapM_ok {α β ε : Type} (f : α → Except ε β) (h : α → β) (l : List α) (hf : ∀ x ∈ l, f x = .ok (h x)) :
    l.mapM f = .ok (l.map h) := by
  induction l with
  | nil => rfl
  | cons x r ih =>
    rw [List.mapM_cons, hf x List.mem_cons_self, ih (fun y hy => hf y (List.mem_cons_of_mem _ hy))]
    rfl

theorem option_mapM_some {α β : Type} (f : α → Option β) (h : α → β) (l : List α) (hf : ∀ x ∈ l, f x = some (h x)) :
    l.mapM f = some (l.map h) := by
  induction l with
  | nil => rfl
  | cons x r ih =>
    rw [List.mapM_cons, hf x List.mem_cons_self, ih (fun y hy => hf y (List.mem_cons_of_mem _ hy))]
    rfl

/-! ### objects in the final index -/

def Obj.isGetter (o : Obj) : Bool := match o.instr with | .getter _ => true | _ => false

section
variable {g : Segment} {A : Option Assets} {rank : Uid → Nat} {order : List Uid} {s : CState}

/-- shapes of the objects of the final index -/
inductive ObjForm (g : Segment) (A : Option Assets) : Obj → Prop where
  | functor (w : Worker) : w ∈ g.workers → ObjForm g A (functorObj g A w)
  | loader (γ : Gid) (w : Worker) : w ∈ g.workers → w.gid = γ → persistentW A w = true → ObjForm g A (loaderObj γ)
  | getter (w : Worker) (i : Nat) : w ∈ g.workers → g.trained w.uid = false → w.szout ≠ 1 → i < w.szout →
      ObjForm g A (getterObj w.uid i)
  | dumper (w : Worker) : w ∈ g.workers → g.isTrainer w = true → persistentW A w = true → ObjForm g A (dumperObj w.uid)
  | committer (w : Worker) : w ∈ g.workers → g.isTrainer w = true → persistentW A w = true → ObjForm g A committerObj

theorem Final.obj_form (hf : Final g A order s) {k : Key} {o : Obj} (hko : aget k s.index = some o) : ObjForm g A o := by
  have hl := hf.idx.sound k o hko
  cases k with
  | uid n => obtain ⟨w, hw, _, rfl⟩ := hl; exact .functor w (worker?_some hw).1
  | gid γ =>
    rcases hl with ⟨t, ht, _, _, _, rfl⟩ | ⟨rfl, ⟨w, hw, _, hg, hP⟩, _⟩
    · exact .functor t ht
    · exact .loader γ w hw hg hP
  | loader γ => obtain ⟨rfl, t, ht, hg, _, _, hP⟩ := hl; exact .loader γ t ht hg hP
  | getter n i =>
    obtain ⟨rfl, w, hw, _, htr, hne, hi⟩ := hl
    obtain ⟨hwm, rfl⟩ := worker?_some hw
    exact .getter w i hwm htr hne hi
  | dumper n =>
    obtain ⟨rfl, w, hw, _, hT, hP⟩ := hl
    obtain ⟨hwm, rfl⟩ := worker?_some hw
    exact .dumper w hwm hT hP
  | committer => obtain ⟨rfl, t, ht, _, hT, hP⟩ := hl; exact .committer t ht hT hP

/-- a getter object is registered under its own key only -/
theorem Final.getter_key (hf : Final g A order s) {k : Key} {o : Obj} (hko : aget k s.index = some o)
    (hg : o.isGetter = true) : ∃ n i, k = .getter n i ∧ o = getterObj n i := by
  have hl := hf.idx.sound k o hko
  cases k with
  | uid n => obtain ⟨w, _, _, rfl⟩ := hl; simp [Obj.isGetter, functorObj, functorSym] at hg
  | gid γ =>
    rcases hl with ⟨t, _, _, _, _, rfl⟩ | ⟨rfl, _, _⟩
    · simp [Obj.isGetter, functorObj, functorSym] at hg
    · simp [Obj.isGetter] at hg
  | loader γ => obtain ⟨rfl, _⟩ := hl; simp [Obj.isGetter] at hg
  | getter n i => obtain ⟨rfl, _⟩ := hl; exact ⟨n, i, rfl, rfl⟩
  | dumper n => obtain ⟨rfl, _⟩ := hl; simp [Obj.isGetter] at hg
  | committer => obtain ⟨rfl, _⟩ := hl; simp [Obj.isGetter] at hg

/-- the getter of port `i` of `w` is a leaf iff the port has no subscriber -/
theorem Final.getter_leaf (hf : Final g A order s) (h : WF g rank) (ho : OrderOK g order) {w : Worker} (hw : w ∈ g.workers)
    (htr : g.trained w.uid = false) (hne : w.szout ≠ 1) {i : Nat} (hi : i < w.szout) :
    Key.getter w.uid i ∈ s.leaves ↔ g.subscribers w.uid i = [] := by
  unfold CState.leaves
  simp only [List.mem_filter, Bool.not_eq_eq_eq_not, Bool.not_true, List.contains_eq_mem, decide_eq_false_iff_not]
  have hkey : Key.getter w.uid i ∈ s.absolute.map (·.1) ++ s.prefixed.map (·.1) := by
    apply List.mem_append_left
    have hs := (hf.slot_iff h ho _ 0 _).mpr ⟨w, hw, LinkSpec.getter i htr hne hi⟩
    apply Classical.byContradiction
    intro hnot
    rw [← aget_none_iff] at hnot
    simp [slot, hnot] at hs
  constructor
  · rintro ⟨_, hnp⟩
    cases hsub : g.subscribers w.uid i with
    | nil => rfl
    | cons e r =>
      exfalso
      apply hnp
      have he : e ∈ g.subscribers w.uid i := by rw [hsub]; exact List.mem_cons_self
      obtain ⟨he1, he2, he3⟩ := mem_subscribers.mp he
      apply (hf.parent_iff h ho _).mpr
      left
      have := LinkSpec.edge (A := A) e htr he1 he2 (by omega)
      simp only [hne, if_false, he3] at this
      exact ⟨w, hw, _, _, this⟩
  · intro hnil
    refine ⟨hkey, ?_⟩
    intro hpar
    rcases (hf.parent_iff h ho _).mp hpar with ⟨w', hw', k', j, hl⟩ | ⟨w', _, _, hk⟩
    · rcases linkSpec_inv hl with ⟨_, _, ha, _⟩ | ⟨_, ha, _⟩ | ⟨i', _, _, ha, _⟩ | ⟨e, _, _, ha, _, he, hpub, _⟩
      · cases ha
      · cases ha
      · cases ha
      · split at ha
        · cases ha
        · simp only [Key.getter.injEq] at ha
          have : e ∈ g.subscribers w.uid i := mem_subscribers.mpr ⟨he, by rw [hpub, ← ha.1], ha.2.symm⟩
          rw [hnil] at this; cases this
    · unfold stateKey at hk
      split at hk <;> cases hk

/-! ### resolving argument keys to instruction identities -/

/-- `self._index[a]` for an argument slot (a gap or an unknown key fails) -/
def resolve (s : CState) (a : Option Key) : Option Key := a.bind (fun k => (aget k s.index).map (·.id))

theorem Final.resolve_port (hf : Final g A order s) (h : WF g rank) (ho : OrderOK g order) {e : Edge} (he : e ∈ g.edges) :
    resolve s (some (g.portKey e)) = some (g.portKey e) := by
  obtain ⟨p, hp, hlt⟩ := (h.edge e he).pub
  obtain ⟨hpm, hpu⟩ := worker?_some hp
  unfold portKey resolve
  rw [hp]
  simp only [Option.bind_some]
  split
  · rw [← hpu, hf.idx.c_uid p hpm (ho.all p hpm)]; rfl
  · rename_i hne
    have htr : g.trained p.uid = false := by
      cases htr : g.trained p.uid with
      | false => rfl
      | true => exact absurd hpu.symm ((h.trainedOK hpm htr).noOut e he)
    rw [← hpu, hf.idx.c_getter p hpm (ho.all p hpm) htr hne _ hlt]; rfl

theorem Final.resolve_data (hf : Final g A order s) (h : WF g rank) (ho : OrderOK g order) {w : Worker} {k : Key}
    (hk : k ∈ g.dataArgs w) : resolve s (some k) = some k := by
  unfold dataArgs at hk
  split at hk
  · simp only [List.mem_map, List.mem_append, Option.mem_toList, Option.mem_def] at hk
    obtain ⟨e, he | he, rfl⟩ := hk
    · exact hf.resolve_port h ho (publisher_some he).1
    · exact hf.resolve_port h ho (publisher_some he).1
  · simp only [List.mem_filterMap, List.mem_range, Option.map_eq_some_iff] at hk
    obtain ⟨i, _, e, he, rfl⟩ := hk
    exact hf.resolve_port h ho (publisher_some he).1

theorem Final.resolve_state (hf : Final g A order s) (h : WF g rank) (hA : AssetsOK g A) (ho : OrderOK g order)
    {w : Worker} (hw : w ∈ g.workers) (hp : g.hasPreset A w = true) :
    resolve s (some (stateKey g A w)) = some (g.stateSrc w) := by
  unfold resolve
  simp only [Option.bind_some]
  cases hT : g.isTrainer w with
  | true =>
    have htr : g.trained w.uid = true := by simp only [isTrainer, Bool.and_eq_true] at hT; exact hT.2
    have hP : persistentW A w = true := by
      simp only [hasPreset, derived_trainer h hw htr, Bool.or_false, Bool.and_eq_true] at hp
      exact hp.2
    simp only [stateKey, stateSrc, hT, hP, Bool.and_self, if_true]
    rw [(hf.idx.c_pt w hw (ho.all w hw) hT hP).1]; rfl
  | false =>
    have hst : w.stateful = true := by simp only [hasPreset, Bool.and_eq_true] at hp; exact hp.1
    have htr : g.trained w.uid = false := by simp only [isTrainer, hst, Bool.true_and] at hT; exact hT
    simp only [stateKey, stateSrc, hT, Bool.false_and, Bool.false_eq_true, if_false]
    cases htO : g.trainerOf w.gid with
    | some t =>
      obtain ⟨htm, htg, htt⟩ := trainerOf_some htO
      have hTt : g.isTrainer t = true := by simp [isTrainer, (h.trainedOK htm htt).stateful, htt]
      simp only
      rw [← htg, hf.idx.c_gidT t htm (ho.all t htm) hTt]; rfl
    | none =>
      have hP : persistentW A w = true := by
        cases hP : persistentW A w with
        | true => rfl
        | false =>
          simp only [hasPreset, hst, hP, Bool.false_or, Bool.true_and, derived_no_trainer htO] at hp
          have := hA.elsewhere w hw hst hp
          rw [hP] at this; cases this
      have hno : ∀ t ∈ g.workers, t.gid = w.gid → g.isTrainer t = true → t.uid ∉ order := by
        intro t ht hg hTt _
        have := trainerOf_none htO t ht hg
        simp only [isTrainer, Bool.and_eq_true] at hTt
        rw [hTt.2] at this; cases this
      simp only
      rw [hf.idx.c_gidL w hw (ho.all w hw) hP hno]; rfl

/-- the arguments the functor of `w` is emitted with -/
theorem Final.functor_args (hf : Final g A order s) (h : WF g rank) (hA : AssetsOK g A) (ho : OrderOK g order)
    {w : Worker} (hw : w ∈ g.workers) :
    (s.link (.uid w.uid)).mapM (resolve s) = some (g.functorSym A w).args := by
  rw [CState.link_eq, hf.pf_uid h ho hw, hf.ab_uid h ho hw]
  simp only [functorSym]
  split
  · rename_i hp
    simp only [List.reverse_cons, List.reverse_nil, List.nil_append, List.map_cons, List.map_nil, List.singleton_append,
      List.mapM_cons, hf.resolve_state h hA ho hw hp]
    rw [option_mapM_some (resolve s) (fun a => a.getD .committer) _ (by
      intro a ha
      simp only [List.mem_map] at ha
      obtain ⟨k, hk, rfl⟩ := ha
      rw [hf.resolve_data h ho hk]; rfl)]
    have hid : ((fun a : Option Key => a.getD Key.committer) ∘ some) = id := by funext k; rfl
    simp [List.map_map, hid]
  · simp only [List.reverse_nil, List.map_nil, List.nil_append]
    rw [option_mapM_some (resolve s) (fun a => a.getD .committer) _ (by
      intro a ha
      simp only [List.mem_map] at ha
      obtain ⟨k, hk, rfl⟩ := ha
      rw [hf.resolve_data h ho hk]; rfl)]
    have hid : ((fun a : Option Key => a.getD Key.committer) ∘ some) = id := by funext k; rfl
    simp [List.map_map, hid]

theorem Final.link_nolink (hf : Final g A order s) (h : WF g rank) (ho : OrderOK g order) {k : Key}
    (hk : (∃ γ, k = Key.gid γ) ∨ (∃ γ, k = Key.loader γ)) : s.link k = [] := by
  rw [CState.link_eq, hf.ab_nolink h ho hk, hf.pf_other (by rcases hk with ⟨γ, rfl⟩ | ⟨γ, rfl⟩ <;> simp)]
  rfl

theorem Final.link_nouid (hf : Final g A order s) {k : Key} (hk : ∀ n, k ≠ Key.uid n) : s.link k = s.ab k := by
  rw [CState.link_eq, hf.pf_other hk]; rfl

/-- objects of the final index are determined by their identity -/
theorem objForm_inj (h : WF g rank) {o o' : Obj} (ho : ObjForm g A o) (ho' : ObjForm g A o') (hid : o.id = o'.id) :
    o = o' := by
  cases ho with
  | functor w hw =>
    cases ho' with
    | functor w' hw' =>
      have : w = w' := eq_of_nodup_map (fun w : Worker => w.uid) (l := g.workers) h.nodup hw hw'
        (by simpa [functorObj] using hid)
      rw [this]
    | _ => simp [functorObj] at hid
  | loader γ w hw hg hP =>
    cases ho' with
    | loader γ' _ _ _ _ => simp only [loaderObj, Key.loader.injEq] at hid; rw [hid]
    | _ => simp [functorObj] at hid
  | getter w i hw htr hne hi =>
    cases ho' with
    | getter w' i' _ _ _ _ => simp only [getterObj, Key.getter.injEq] at hid; rw [hid.1, hid.2]
    | _ => simp [functorObj] at hid
  | dumper w hw hT hP =>
    cases ho' with
    | dumper w' _ _ _ => simp only [dumperObj, Key.dumper.injEq] at hid; rw [hid]
    | _ => simp [functorObj] at hid
  | committer w hw hT hP =>
    cases ho' with
    | committer _ _ _ _ => rfl
    | _ => simp [functorObj] at hid

theorem Final.functionalIds (hf : Final g A order s) (h : WF g rank) : FunctionalIds s.index := by
  intro x hx y hy hid
  exact objForm_inj h (hf.obj_form (aget_of_mem_nodup hf.idx.keys hx)) (hf.obj_form (aget_of_mem_nodup hf.idx.keys hy)) hid

/-- the symbol the object `o` of the final index is emitted as -/
def symOf (g : Segment) (A : Option Assets) (o : Obj) : Symbol :=
  match o.id with
  | .uid n => match g.worker? n with
    | some w => g.functorSym A w
    | none => ⟨o.id, o.instr, []⟩
  | .getter n _ => ⟨o.id, o.instr, [.uid n]⟩
  | .dumper n => ⟨o.id, o.instr, [.uid n]⟩
  | .committer => ⟨o.id, o.instr, match A with
    | some As => As.persistent.filterMap (fun γ => (g.trainerOf γ).map (fun t => Key.dumper t.uid))
    | none => []⟩
  | _ => ⟨o.id, o.instr, []⟩

/-- resolved arguments of every object of the final index -/
theorem Final.obj_args (hf : Final g A order s) (h : WF g rank) (hA : AssetsOK g A) (ho : OrderOK g order) {o : Obj}
    (hform : ObjForm g A o) :
    (s.link o.id).mapM (resolve s) = some (symOf g A o).args ∧ (symOf g A o).id = o.id ∧ (symOf g A o).instr = o.instr := by
  cases hform with
  | functor w hw =>
    have hwk := worker?_of_mem h.nodup hw
    refine ⟨?_, ?_, ?_⟩
    · simp only [symOf, functorObj, hwk]
      exact hf.functor_args h hA ho hw
    · simp [symOf, functorObj, hwk, functorSym]
    · simp [symOf, functorObj, hwk]
  | loader γ w hw hg hP =>
    refine ⟨?_, rfl, rfl⟩
    simp only [loaderObj, symOf]
    rw [hf.link_nolink h ho (Or.inr ⟨γ, rfl⟩)]; rfl
  | getter w i hw htr hne hi =>
    refine ⟨?_, rfl, rfl⟩
    simp only [getterObj, symOf]
    rw [hf.link_nouid (by simp), hf.ab_getter h ho hw htr hne hi]
    simp only [List.mapM_cons, List.mapM_nil, resolve, Option.bind_some]
    rw [hf.idx.c_uid w hw (ho.all w hw)]; rfl
  | dumper w hw hT hP =>
    refine ⟨?_, rfl, rfl⟩
    simp only [dumperObj, symOf]
    rw [hf.link_nouid (by simp), hf.ab_dumper h ho hw hT hP]
    simp only [List.mapM_cons, List.mapM_nil, resolve, Option.bind_some]
    rw [hf.idx.c_uid w hw (ho.all w hw)]; rfl
  | committer w hw hT hP =>
    refine ⟨?_, rfl, rfl⟩
    obtain ⟨_, As, hAs, _⟩ := persistentW_true hP
    simp only [committerObj, symOf, hAs]
    rw [hf.link_nouid (by simp), hf.ab_committer h hA ho hAs hw hT hP]
    rw [option_mapM_some (resolve s) (fun a => a.getD .committer) _ (by
      intro a ha
      simp only [List.mem_map, List.mem_filterMap, Option.map_eq_some_iff] at ha
      obtain ⟨k, ⟨γ, hγ, t, htO, rfl⟩, rfl⟩ := ha
      obtain ⟨htm, hTt, hPt⟩ := persistent_trainer h hAs hγ htO
      simp only [resolve, Option.bind_some]
      rw [(hf.idx.c_pt t htm (ho.all t htm) hTt hPt).2.1]; rfl)]
    have hid : ((fun a : Option Key => a.getD Key.committer) ∘ some) = id := by funext k; rfl
    simp [List.map_map, hid]

/-- one iteration of the loop of `__iter__` on a group of the final index -/
theorem Final.emitGroup_eq (hf : Final g A order s) (h : WF g rank) (hA : AssetsOK g A) (ho : OrderOK g order)
    (stubs : List Key) {o : Obj} {ks : List Key} (hg : (o, ks) ∈ groupRuns s.index) :
    emitGroup s stubs (o, ks) = .ok (if stubs.contains o.id then none else some (symOf g A o)) := by
  have hfun := hf.functionalIds h
  obtain ⟨hne, hmem⟩ := groupRuns_sound s.index hfun (o, ks) hg
  have hnd := groupRuns_keys_nodup s.index hfun hf.idx.keys (o, ks) hg
  simp only at hne hmem hnd
  obtain ⟨k0, ks', rfl⟩ : ∃ k0 ks', ks = k0 :: ks' := by
    cases ks with
    | nil => exact absurd rfl hne
    | cons a b => exact ⟨a, b, rfl⟩
  have hget : ∀ k ∈ k0 :: ks', aget k s.index = some o := fun k hk => aget_of_mem_nodup hf.idx.keys (hmem k hk)
  have hform : ObjForm g A o := hf.obj_form (hget k0 List.mem_cons_self)
  -- aliases carry no arguments
  have hempty : ∀ k ∈ k0 :: ks', k ≠ o.id → s.link k = [] := by
    intro k hk hkne
    rcases (hf.idx.sound k o (hget k hk)).id_cases with ⟨h1, _⟩ | ⟨γ, rfl, _⟩ | ⟨γ, t, rfl, _⟩
    · exact absurd h1.symm hkne
    · exact hf.link_nolink h ho (Or.inl ⟨γ, rfl⟩)
    · exact hf.link_nolink h ho (Or.inl ⟨γ, rfl⟩)
  have hnotin : o.id ∉ k0 :: ks' → s.link o.id = [] := by
    intro hni
    rcases (hf.idx.sound k0 o (hget k0 List.mem_cons_self)).id_cases with ⟨h1, _⟩ | ⟨γ, _, rfl⟩ | ⟨γ, t, _, ht, _, rfl⟩
    · exact absurd (h1 ▸ List.mem_cons_self) hni
    · exact hf.link_nolink h ho (Or.inr ⟨γ, rfl⟩)
    · exfalso
      apply hni
      have := mem_of_aget (hf.idx.c_uid t ht (ho.all t ht))
      exact groupRuns_all_keys s.index hfun hf.idx.contig hg this
  have hmerged : ks'.foldl (fun acc k' => acc.bind (fun a => mergeArgs a (s.link k'))) (some (s.link k0))
      = some (s.link o.id) := by
    have := merge_fold s.link o.id (k0 :: ks') [] hempty hnd (Or.inl rfl)
    simp only [List.foldl_cons, Option.bind_some, mergeArgs_nil_left] at this
    rw [this]
    split
    · rfl
    · rename_i hni; rw [hnotin hni]
  obtain ⟨hargs, hid, hinstr⟩ := hf.obj_args h hA ho hform
  unfold emitGroup
  simp only
  split
  · rfl
  · simp only [hmerged]
    have : (s.link o.id).mapM (fun a => a.bind (fun k => (aget k s.index).map (·.id))) = some (symOf g A o).args := hargs
    rw [this]
    simp only
    congr 2
    rw [← hid, ← hinstr]

/-- `emit` when its three fallible steps succeed -/
theorem emit_eq_of (s : CState) (hl : s.leaves ≠ [] ∨ s.parents = []) (objs : List Obj)
    (hobjs : s.leaves.mapM (fun n => match aget n s.index with
      | some o => (pure o : Except CErr Obj) | none => throw CErr.keyError) = .ok objs)
    (syms : List (Option Symbol))
    (hsyms : (groupRuns s.index).mapM (emitGroup s ((objs.filter Obj.isGetter).map (·.id))) = .ok syms) :
    emit s = .ok (syms.filterMap id) := by
  unfold emit
  have : (s.leaves.isEmpty && !s.parents.isEmpty) = false := by
    rcases hl with hl | hl
    · cases hs : s.leaves with
      | nil => exact absurd hs hl
      | cons _ _ => rfl
    · rw [hl]; simp
  simp only [this, Bool.false_eq_true, if_false]
  erw [hobjs]
  simp only [bind, Except.bind]
  erw [hsyms]
  rfl

/-- object registered under a leaf key -/
def objOf (s : CState) (k : Key) : Obj := (aget k s.index).getD default

/-- `stubs` of `__iter__`: identities of the getter instructions among the leaves -/
def stubsOf (s : CState) : List Key := ((s.leaves.map (objOf s)).filter Obj.isGetter).map (·.id)

/-- the stub getters are exactly the getters of output ports nobody subscribed to -/
theorem Final.stub_iff (hf : Final g A order s) (h : WF g rank) (ho : OrderOK g order) {o : Obj} (hform : ObjForm g A o) :
    (stubsOf s).contains o.id = true ↔
      ∃ w i, w ∈ g.workers ∧ g.trained w.uid = false ∧ w.szout ≠ 1 ∧ i < w.szout ∧ o = getterObj w.uid i ∧
        g.subscribers w.uid i = [] := by
  simp only [stubsOf, List.contains_iff_mem, List.mem_map, List.mem_filter]
  constructor
  · rintro ⟨o', ⟨⟨k, hk, rfl⟩, hg⟩, hid⟩
    obtain ⟨o'', hko⟩ := hf.leaf_registered h ho hk
    have hobj : objOf s k = o'' := by simp [objOf, hko]
    rw [hobj] at hg hid
    obtain ⟨n, i, rfl, rfl⟩ := hf.getter_key hko hg
    obtain ⟨_, w, hw, _, htr, hne, hi⟩ := hf.idx.sound _ _ hko
    obtain ⟨hwm, rfl⟩ := worker?_some hw
    have ho2 : o = getterObj w.uid i := objForm_inj h hform (hf.obj_form hko) hid.symm
    exact ⟨w, i, hwm, htr, hne, hi, ho2, (hf.getter_leaf h ho hwm htr hne hi).mp hk⟩
  · rintro ⟨w, i, hw, htr, hne, hi, rfl, hnil⟩
    have hk := (hf.getter_leaf h ho hw htr hne hi).mpr hnil
    have hko := hf.idx.c_getter w hw (ho.all w hw) htr hne i hi
    refine ⟨getterObj w.uid i, ⟨⟨_, hk, by simp [objOf, hko]⟩, rfl⟩, rfl⟩

/-- **`Table.__iter__` on the final state** -/
theorem Final.emit_ok (hf : Final g A order s) (h : WF g rank) (hA : AssetsOK g A) (ho : OrderOK g order) :
    emit s = .ok ((groupRuns s.index).filterMap
      (fun grp => if (stubsOf s).contains grp.1.id then none else some (symOf g A grp.1))) := by
  have h1 := emit_eq_of s (hf.leaves_ok h ho) (s.leaves.map (objOf s))
    (mapM_ok _ (objOf s) _ (by
      intro k hk
      obtain ⟨o, hko⟩ := hf.leaf_registered h ho hk
      simp [objOf, hko]; rfl))
    ((groupRuns s.index).map (fun grp => if (stubsOf s).contains grp.1.id then none else some (symOf g A grp.1)))
    (mapM_ok _ _ _ (by
      intro grp hgrp
      obtain ⟨o, ks⟩ := grp
      exact hf.emitGroup_eq h hA ho _ hgrp))
  rw [h1, List.filterMap_map]
  rfl

end

end ForML.Flow
