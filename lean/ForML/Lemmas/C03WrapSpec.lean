/-
C03 — helper lemmas, part 9: `wrap.Operator.compose` realises `denoteWrap`.
-/
import ForML.Lemmas.C03WrapGraph

namespace ForML.Compose

theorem buildTrainsOpt_mem {groups : List (Nat × WRef)} {slot : Option Actor} {n : Nat} {lt lp : PubRef} {t : Training}
    (h : t ∈ buildTrainsOpt groups slot n lt lp) : t.train = lt ∧ t.label = lp ∧ t.actor.stateful = true := by
  cases slot with
  | none => simp [buildTrainsOpt] at h
  | some a =>
    unfold buildTrainsOpt buildTrains at h
    cases hl : groups.lookup a.tag with
    | some p => simp [hl] at h
    | none =>
      by_cases hs : a.stateful = true
      · simp [hl, hs] at h
        subst h
        exact ⟨rfl, rfl, hs⟩
      · simp [hl, hs] at h

/-- one optional `build` is one `slotStep` -/
theorem slotStep_knownOf_opt (vt lbl : Val) (lblv : Nat → Val) (groups : List (Nat × WRef)) (slot : Option Actor)
    (n : Nat) (lt lp : PubRef) (htag : ∀ e ∈ groups, e.2.actor.tag = e.1)
    (hl : ∀ a, slot = some a → groups.lookup a.tag = none → lbl = lblv a.tag) :
    slotStep (knownOf vt lblv groups) slot vt lbl =
      (slot.map (fun a => (buildActor groups a, trainedState (buildActor groups a) vt (lblv a.tag))),
        knownOf vt lblv (buildGroupsOpt groups slot n),
        (buildTrainsOpt groups slot n lt lp).map (fun t => (t.actor.tag, trainedState t.actor vt lbl))) := by
  cases slot with
  | none => simp [slotStep, buildGroupsOpt, buildTrainsOpt]
  | some a => exact slotStep_knownOf vt lbl lblv groups a n lt lp htag (hl a rfl)

theorem buildGroupsOpt_tags {groups : List (Nat × WRef)} (slot : Option Actor) (n : Nat)
    (h : ∀ e ∈ groups, e.2.actor.tag = e.1) : ∀ e ∈ buildGroupsOpt groups slot n, e.2.actor.tag = e.1 := by
  cases slot with
  | none => exact h
  | some a =>
    intro e he
    cases hl : groups.lookup a.tag with
    | some p =>
      simp only [buildGroupsOpt, buildGroups, hl] at he
      exact h e he
    | none =>
      simp only [buildGroupsOpt, buildGroups, hl, List.mem_append, List.mem_singleton] at he
      rcases he with he | he
      · exact h e he
      · subst he; rfl

theorem lblvFn_of_lookup_none (lab : Option Actor) (vl label' : Val) (n τ : Nat)
    (h : (buildGroupsOpt [] lab n).lookup τ = none) : label' = lblvFn lab vl label' τ := by
  cases lab with
  | none => rfl
  | some l =>
    have : ¬ l.tag = τ := by
      intro e
      subst e
      simp [buildGroupsOpt, buildGroups, List.lookup] at h
    simp [lblvFn, this]

/-- `denoteWrapSeq` in closed form over the dicts the three `build`s produce -/
theorem denoteWrapSeq_closed (lab app trn : Option Actor) (S : Scope) (xa xt xl : Val) (n1 n2 n3 : Nat)
    (lt ll lp : PubRef) :
    denoteWrapSeq lab app trn S xa xt xl =
      { apply := slotVal (S xa xt xl).train
          (lblvFn lab (S xa xt xl).label (labelVal lab (S xa xt xl).train (S xa xt xl).label))
          (buildGroupsOpt [] lab n1) app (S xa xt xl).apply
        train := slotVal (S xa xt xl).train
          (lblvFn lab (S xa xt xl).label (labelVal lab (S xa xt xl).train (S xa xt xl).label))
          (buildGroupsOpt (buildGroupsOpt [] lab n1) app n2) trn (S xa xt xl).train
        label := labelVal lab (S xa xt xl).train (S xa xt xl).label
        states := (S xa xt xl).states ++
          ((buildTrainsOpt [] lab n1 lt ll).map
              (fun t => (t.actor.tag, trainedState t.actor (S xa xt xl).train (S xa xt xl).label)) ++
            (buildTrainsOpt (buildGroupsOpt [] lab n1) app n2 lt lp).map
              (fun t => (t.actor.tag, trainedState t.actor (S xa xt xl).train
                (labelVal lab (S xa xt xl).train (S xa xt xl).label))) ++
            (buildTrainsOpt (buildGroupsOpt (buildGroupsOpt [] lab n1) app n2) trn n3 lt lp).map
              (fun t => (t.actor.tag, trainedState t.actor (S xa xt xl).train
                (labelVal lab (S xa xt xl).train (S xa xt xl).label)))) } := by
  obtain ⟨s, hs⟩ : ∃ s, s = S xa xt xl := ⟨_, rfl⟩
  rw [← hs]
  unfold denoteWrapSeq
  simp only [← hs]
  have htag1 : ∀ e ∈ buildGroupsOpt [] lab n1, e.2.actor.tag = e.1 :=
    buildGroupsOpt_tags lab n1 (by intro e he; cases he)
  have htag2 := buildGroupsOpt_tags app n2 htag1
  -- the label slot
  have hL : slotStep [] lab s.train s.label =
      (lab.map (fun l => (l, trainedState l s.train s.label)),
        knownOf s.train (lblvFn lab s.label (labelVal lab s.train s.label)) (buildGroupsOpt [] lab n1),
        (buildTrainsOpt [] lab n1 lt ll).map (fun t => (t.actor.tag, trainedState t.actor s.train s.label))) := by
    cases lab with
    | none => simp [slotStep, buildGroupsOpt, buildTrainsOpt, knownOf]
    | some l =>
      by_cases hsf : l.stateful = true <;>
        simp [slotStep, buildGroupsOpt, buildGroups, buildTrainsOpt, buildTrains, knownOf, lblvFn, hsf]
  rw [hL]
  have e2 := slotStep_knownOf_opt s.train (labelVal lab s.train s.label) _ (buildGroupsOpt [] lab n1) app n2 lt lp htag1
    (fun a _ h => lblvFn_of_lookup_none lab s.label _ n1 a.tag h)
  have e3 := slotStep_knownOf_opt s.train (labelVal lab s.train s.label) _
    (buildGroupsOpt (buildGroupsOpt [] lab n1) app n2) trn n3 lt lp htag2
    (fun a _ h => lblvFn_of_lookup_none lab s.label _ n1 a.tag (lookup_buildGroupsOpt_none h))
  cases lab with
  | none =>
    simp only [Option.map_none, labelVal] at e2 e3 ⊢
    rw [e2]
    simp only
    rw [e3]
    simp only
    congr 1
    · cases app <;> rfl
    · cases trn <;> rfl
  | some l =>
    simp only [Option.map_some, labelVal] at e2 e3 ⊢
    rw [e2]
    simp only
    rw [e3]
    simp only
    congr 1
    · cases app <;> rfl
    · cases trn <;> rfl

theorem spec_wrap {full : Prop} {scope : GraphM Trunk} {S : Scope} (hs : Spec full scope S) (lab app trn : Option Actor) :
    Spec full (composeWrap lab app trn scope) (denoteWrap lab app trn S) := by
  rw [denoteWrap_eq, composeWrap_eq]
  intro g W xa xt xl r hi hw hr
  obtain ⟨left, gL, WL, hrun1, h1⟩ := hs g W xa xt xl r hi hw hr
  have hgg := h1.frame.next_le
  obtain ⟨R, hR⟩ : ∃ R, R = r + (gL.next - g.next) := ⟨_, rfl⟩
  have hRle : R ≤ gL.next := by omega
  have hbL := h1.inv.bounded
  have hltL : ∀ n, WL.live n → n < gL.next ∧ WL.h n < gL.next := h1.inv.liveLt
  -- phase A: the three builds
  obtain ⟨wl?, gA, hrA, hbA, hfA, hgeA, hleA, hsA, hGA, htA, hinA, hwrA⟩ :=
    buildOpt_spec hbL (Frame.refl gL) left.train.publisher left.label.publisher (fun _ => left.label.publisher) [] lab
      (by intro e he; cases he) (by intros; rfl)
  have hG1eq : buildGroupsOpt [] lab gL.next = lab.toList.map (fun l => (l.tag, ⟨gL.next, gL.next + 1, l, 1, 1⟩)) := by
    cases lab <;> simp [buildGroupsOpt, buildGroups]
  have hlp1 : ∀ τ, (buildGroupsOpt [] lab gL.next).lookup τ = none →
      labelPubOf wl? left.label.publisher = lpOfFn lab left.label.publisher (labelPubOf wl? left.label.publisher) τ := by
    intro τ h
    cases lab with
    | none => simp [lpOfFn]
    | some l =>
      rw [hG1eq] at h
      have : ¬ l.tag = τ := by
        intro e
        subst e
        simp [List.lookup] at h
      simp [lpOfFn, this]
  have hsA' : SlotBuilt gL left.train.publisher gA gL.next gA.next lab wl? []
      (lpOfFn lab left.label.publisher (labelPubOf wl? left.label.publisher)) := by
    refine ⟨?_, hsA.none_⟩
    intro a ha
    obtain ⟨w, e1, e2, e3, e4, e5⟩ := hsA.some_ a ha
    refine ⟨w, e1, ?_, e3, e4, e5⟩
    have : lpOfFn lab left.label.publisher (labelPubOf wl? left.label.publisher) a.tag = left.label.publisher := by
      simp [lpOfFn, ha]
    rw [this]; exact e2
  have hGA' : GroupsOk gL left.train.publisher (lpOfFn lab left.label.publisher (labelPubOf wl? left.label.publisher)) gA
      (buildGroupsOpt [] lab gL.next) := by
    apply hGA.congr
    intro e he
    rw [hG1eq] at he
    cases lab with
    | none => cases he
    | some l =>
      simp only [Option.toList, List.map_cons, List.map_nil, List.mem_singleton] at he
      subst he
      simp [lpOfFn]
  obtain ⟨wa?, gB, hrB, hbB, hfB, hgeB, hleB, hsB, hGB, htB, hinB, hwrB⟩ :=
    buildOpt_spec hbA hfA left.train.publisher (labelPubOf wl? left.label.publisher) _ _ app hGA'
      (fun a _ h => hlp1 a.tag h)
  have hfLB : Frame gL gB := hfA.trans hfB
  obtain ⟨wt?, gC, hrC, hbC, hfC, hgeC, hleC, hsC, hGC, htC, hinC, hwrC⟩ :=
    buildOpt_spec hbB hfLB left.train.publisher (labelPubOf wl? left.label.publisher) _ _ trn hGB
      (fun a _ h => hlp1 a.tag (lookup_buildGroupsOpt_none h))
  have hfLC : Frame gL gC := hfLB.trans hfC
  have hnAB := hfB.next_le
  have hnBC := hfC.next_le
  have hnLA := hfA.next_le
  -- the slot workers in the final build graph
  have hsL := (hsA'.frame hfB).frame hfC
  have hsAp := hsB.frame hfC
  -- phase B: subscriptions
  have fa : ∀ w, wa? = some w → gA.next ≤ w.uid ∧ w.uid < gB.next ∧ gC.inputOf w.uid 0 = none ∧
      gC.kindOf w.uid = some (.worker w.gid w.actor 1 1) := by
    intro w hw
    obtain ⟨a, _, b, lo, hi', _⟩ := hsAp.of_some hw
    exact ⟨lo, hi', b.free 0, b.kind⟩
  have ft : ∀ w, wt? = some w → gB.next ≤ w.uid ∧ w.uid < gC.next ∧ gC.inputOf w.uid 0 = none ∧
      gC.kindOf w.uid = some (.worker w.gid w.actor 1 1) := by
    intro w hw
    obtain ⟨a, _, b, lo, hi', _⟩ := hsC.of_some hw
    exact ⟨lo, hi', b.free 0, b.kind⟩
  have fl : ∀ w, wl? = some w → gL.next ≤ w.uid ∧ w.uid < gA.next ∧ gC.inputOf w.uid 0 = none ∧
      gC.kindOf w.uid = some (.worker w.gid w.actor 1 1) := by
    intro w hw
    obtain ⟨a, _, b, lo, hi', _⟩ := hsL.of_some hw
    exact ⟨lo, hi', b.free 0, b.kind⟩
  -- uids of different slots differ
  have nat : ∀ w w', wa? = some w → wt? = some w' → w.uid ≠ w'.uid := fun w w' h h' => by
    have := (fa w h).2.1; have := (ft w' h').1; omega
  have nal : ∀ w w', wa? = some w → wl? = some w' → w.uid ≠ w'.uid := fun w w' h h' => by
    have := (fa w h).1; have := (fl w' h').2.1; omega
  have ntl : ∀ w w', wt? = some w → wl? = some w' → w.uid ≠ w'.uid := fun w w' h h' => by
    have := (ft w h).1; have := (fl w' h').2.1; omega
  have hit_a : ∀ u k, (∀ w, wa? = some w → w.uid ≠ u) → edgeHit wa? left.apply.publisher u k = none := by
    intro u k h
    cases hwa : wa? with
    | none => rfl
    | some w => exact edgeHit_ne _ _ _ _ (h w hwa)
  have hit_t : ∀ u k, (∀ w, wt? = some w → w.uid ≠ u) → edgeHit wt? left.train.publisher u k = none := by
    intro u k h
    cases hwt : wt? with
    | none => rfl
    | some w => exact edgeHit_ne _ _ _ _ (h w hwt)
  have hit_l : ∀ u k, (∀ w, wl? = some w → w.uid ≠ u) → edgeHit wl? left.label.publisher u k = none := by
    intro u k h
    cases hwl : wl? with
    | none => rfl
    | some w => exact edgeHit_ne _ _ _ _ (h w hwl)
  obtain ⟨g4, hg4⟩ : ∃ x, x = gC.pushEdgeOpt (edgeOf wa? left.apply.publisher) := ⟨_, rfl⟩
  obtain ⟨g5, hg5⟩ : ∃ x, x = g4.pushEdgeOpt (edgeOf wt? left.train.publisher) := ⟨_, rfl⟩
  obtain ⟨g6, hg6⟩ : ∃ x, x = g5.pushEdgeOpt (edgeOf wl? left.label.publisher) := ⟨_, rfl⟩
  have in4 : ∀ u k, g4.inputOf u k = (gC.inputOf u k).or (edgeHit wa? left.apply.publisher u k) := by
    intro u k; rw [hg4, inputOf_pushEdgeOpt]
  have in5 : ∀ u k, g5.inputOf u k = (g4.inputOf u k).or (edgeHit wt? left.train.publisher u k) := by
    intro u k; rw [hg5, inputOf_pushEdgeOpt]
  have in6 : ∀ u k, g6.inputOf u k = (g5.inputOf u k).or (edgeHit wl? left.label.publisher u k) := by
    intro u k; rw [hg6, inputOf_pushEdgeOpt]
  have ina : ∀ w, wa? = some w → g6.inputOf w.uid 0 = some left.apply.publisher := by
    intro w hw
    rw [in6, in5, in4, (fa w hw).2.2.1, hw, edgeHit_self]
    simp
  have int : ∀ w, wt? = some w → g6.inputOf w.uid 0 = some left.train.publisher := by
    intro w hw
    rw [in6, in5, in4, (ft w hw).2.2.1, hit_a _ _ (fun w' h' => nat w' w h' hw), hw, edgeHit_self]
    simp
  have inl : ∀ w, wl? = some w → g6.inputOf w.uid 0 = some left.label.publisher := by
    intro w hw
    rw [in6, in5, in4, (fl w hw).2.2.1, hit_a _ _ (fun w' h' => nal w' w h' hw),
      hit_t _ _ (fun w' h' => ntl w' w h' hw), hw, edgeHit_self]
    simp
  have k6 : ∀ u, g6.kindOf u = gC.kindOf u := by intro u; rw [hg6, hg5, hg4]; simp
  have t6 : ∀ u, g6.trainerOf u = gC.trainerOf u := by intro u; rw [hg6, hg5, hg4]; simp
  have n6 : g6.next = gC.next := by rw [hg6, hg5, hg4]; simp
  have tr6 : g6.trains = gC.trains := by rw [hg6, hg5, hg4]; simp
  have fr4 : ∀ w, wt? = some w → g4.inputOf w.uid 0 = none := by
    intro w hw
    rw [in4, (ft w hw).2.2.1, hit_a _ _ (fun w' h' => nat w' w h' hw)]
    rfl
  have fr5 : ∀ w, wl? = some w → g5.inputOf w.uid 0 = none := by
    intro w hw
    rw [in5, in4, (fl w hw).2.2.1, hit_a _ _ (fun w' h' => nal w' w h' hw), hit_t _ _ (fun w' h' => ntl w' w h' hw)]
    rfl
  have hrunB : Run (left.extend (wa?.map (fun w => Segment.ofNode w.uid)) (wt?.map (fun w => Segment.ofNode w.uid))
      (wl?.map (fun w => Segment.ofNode w.uid))) gC
      ⟨⟨left.apply.head, (wa?.map (·.uid)).getD left.apply.tail⟩, ⟨left.train.head, (wt?.map (·.uid)).getD left.train.tail⟩,
        ⟨left.label.head, (wl?.map (·.uid)).getD left.label.tail⟩⟩ g6 := by
    rw [hg6, hg5, hg4]
    refine run_trunk_extend (run_extendOpt_worker _ wa? gC (fun w hw => (fa w hw).2.2.1))
      (run_extendOpt_worker _ wt? _ ?_) (run_extendOpt_worker _ wl? _ ?_)
    · intro w hw
      rw [inputOf_pushEdgeOpt, (ft w hw).2.2.1, hit_a _ _ (fun w' h' => nat w' w h' hw)]
      rfl
    · intro w hw
      rw [inputOf_pushEdgeOpt, inputOf_pushEdgeOpt, (fl w hw).2.2.1, hit_a _ _ (fun w' h' => nal w' w h' hw),
        hit_t _ _ (fun w' h' => ntl w' w h' hw)]
      rfl
  have hrun : Run (do
      let left ← scope
      let r1 ← buildOpt [] lab left.train.publisher left.label.publisher
      let r2 ← buildOpt r1.2 app left.train.publisher (labelPubOf r1.1 left.label.publisher)
      let r3 ← buildOpt r2.2 trn left.train.publisher (labelPubOf r1.1 left.label.publisher)
      left.extend (r2.1.map (fun w => Segment.ofNode w.uid)) (r3.1.map (fun w => Segment.ofNode w.uid))
        (r1.1.map (fun w => Segment.ofNode w.uid))) g
      ⟨⟨left.apply.head, (wa?.map (·.uid)).getD left.apply.tail⟩, ⟨left.train.head, (wt?.map (·.uid)).getD left.train.tail⟩,
        ⟨left.label.head, (wl?.map (·.uid)).getD left.label.tail⟩⟩ g6 :=
    Run.bind hrun1 (Run.bind hrA (Run.bind hrB (Run.bind hrC hrunB)))
  -- certified valuation of the subscribed graph (nothing new is live yet)
  have hnlW : ∀ u, gL.next ≤ u → ¬ WL.live u := fun u hu h => by have := (hltL u h).1; omega
  have hiC : Inv gC WL := h1.inv.ofFrame hfLC hbC
  have hi4 : Inv g4 WL := by
    rw [hg4]
    exact hiC.pushEdgeOpt wa? _ (fun w hw => ⟨hnlW _ (by have := (fa w hw).1; omega), by have := (fa w hw).2.1; omega⟩)
  have hi5 : Inv g5 WL := by
    rw [hg5]
    refine hi4.pushEdgeOpt wt? _ (fun w hw => ⟨hnlW _ (by have := (ft w hw).1; omega), ?_⟩)
    rw [hg4, pushEdgeOpt_next]; exact (ft w hw).2.1
  have hi6 : Inv g6 WL := by
    rw [hg6]
    refine hi5.pushEdgeOpt wl? _ (fun w hw => ⟨hnlW _ (fl w hw).1, ?_⟩)
    rw [hg5, hg4, pushEdgeOpt_next, pushEdgeOpt_next]; have := (fl w hw).2.1; omega
  have hf6 : Frame gL g6 := by
    rw [hg6, hg5, hg4]
    exact ((hfLC.pushEdgeOpt wa? _ (fun w hw => by have := (fa w hw).1; omega)).pushEdgeOpt wt? _
      (fun w hw => by have := (ft w hw).1; omega)).pushEdgeOpt wl? _ (fun w hw => (fl w hw).1)
  have hltT : ∀ n, WL.live n → n < gC.next := fun n hn => by have := (hltL n hn).1; omega
  have hw6 : Wired g6 := by
    have hwC : Wired gC := hwrC (hwrB (hwrA h1.wired))
    have hw4 : Wired g4 := by
      rw [hg4]; exact hwC.pushEdgeOpt wa? _ (hltT _ h1.ta.1) (fun w hw => (fa w hw).2.2.1)
    have hw5 : Wired g5 := by
      rw [hg5]
      refine hw4.pushEdgeOpt wt? _ ?_ fr4
      rw [hg4, pushEdgeOpt_next]; exact hltT _ h1.tt.1
    rw [hg6]
    refine hw5.pushEdgeOpt wl? _ ?_ fr5
    rw [hg5, hg4, pushEdgeOpt_next, pushEdgeOpt_next]; exact hltT _ h1.tl.1
  -- every subscription of a node created by this operator
  have cls6 : ∀ n k q, gL.next ≤ n → g6.inputOf n k = some q →
      (∃ w, wa? = some w ∧ n = w.uid ∧ q = left.apply.publisher) ∨
      (∃ w, wt? = some w ∧ n = w.uid ∧ q = left.train.publisher) ∨
      (∃ w, wl? = some w ∧ n = w.uid ∧ q = left.label.publisher) := by
    intro n k q hn hq
    have e0 : gC.inputOf n k = none := by rw [hinC, hinB, hinA]; exact hbL.inputOf_none hn k
    rw [in6, in5, in4, e0] at hq
    rcases or_some hq with hq | hq
    · rcases or_some hq with hq | hq
      · rcases or_some hq with hq | hq
        · cases hq
        · obtain ⟨w, h1', h2', h3'⟩ := edgeHit_some hq
          exact Or.inl ⟨w, h1', h2'.symm, h3'⟩
      · obtain ⟨w, h1', h2', h3'⟩ := edgeHit_some hq
        exact Or.inr (Or.inl ⟨w, h1', h2'.symm, h3'⟩)
    · obtain ⟨w, h1', h2', h3'⟩ := edgeHit_some hq
      exact Or.inr (Or.inr ⟨w, h1', h2'.symm, h3'⟩)
  have mono6 : ∀ s k q, gL.inputOf s k = some q → g6.inputOf s k = some q := hf6.input_mono hbL
  have reA : full → Reach g6 left.apply.head left.apply.tail := fun hfull => (h1.regTail hfull).mono mono6
  have noT : full → ¬ Reach g6 left.apply.head left.train.tail := fun hfull hre =>
    (h1.sep hfull).1 (Reach.old hf6 h1.wired (hltL _ h1.tt.1).1 hre)
  have noL : full → ¬ Reach g6 left.apply.head left.label.tail := fun hfull hre =>
    (h1.sep hfull).2 (Reach.old hf6 h1.wired (hltL _ h1.tl.1).1 hre)
  have noWT : full → ∀ w, wt? = some w → ¬ Reach g6 left.apply.head w.uid := by
    intro hfull w hw hre
    have hne : w.uid ≠ left.apply.head := by have := (hltL _ h1.ha.live).1; have := (ft w hw).1; omega
    rcases hre.inv with e | ⟨k0, q0, hq0, hr0⟩
    · exact hne e
    · rcases cls6 _ k0 q0 (by have := (ft w hw).1; omega) hq0 with ⟨w', hw', e, _⟩ | ⟨_, _, _, e⟩ | ⟨w', hw', e, _⟩
      · exact nat w' w hw' hw e.symm
      · rw [e] at hr0; exact noT hfull hr0
      · exact ntl w w' hw hw' e
  have noWL : full → ∀ w, wl? = some w → ¬ Reach g6 left.apply.head w.uid := by
    intro hfull w hw hre
    have hne : w.uid ≠ left.apply.head := by have := (hltL _ h1.ha.live).1; have := (fl w hw).1; omega
    rcases hre.inv with e | ⟨k0, q0, hq0, hr0⟩
    · exact hne e
    · rcases cls6 _ k0 q0 (fl w hw).1 hq0 with ⟨w', hw', e, _⟩ | ⟨w', hw', e, _⟩ | ⟨_, _, _, e⟩
      · exact nal w' w hw' hw e.symm
      · exact ntl w' w hw' hw e.symm
      · rw [e] at hr0; exact noL hfull hr0
  -- the values
  rw [denoteWrapSeq_closed lab app trn S xa xt xl gL.next gA.next gB.next left.train.publisher left.label.publisher
    (labelPubOf wl? left.label.publisher)]
  obtain ⟨s, hsS⟩ : ∃ s, s = S xa xt xl := ⟨_, rfl⟩
  rw [← hsS] at h1 ⊢
  obtain ⟨label', hlabel'⟩ : ∃ x, x = labelVal lab s.train s.label := ⟨_, rfl⟩
  obtain ⟨lblv, hlblv⟩ : ∃ x, x = lblvFn lab s.label label' := ⟨_, rfl⟩
  obtain ⟨labelPub, hlabelPub⟩ : ∃ x, x = labelPubOf wl? left.label.publisher := ⟨_, rfl⟩
  obtain ⟨lpOf, hlpOf⟩ : ∃ x, x = lpOfFn lab left.label.publisher labelPub := ⟨_, rfl⟩
  rw [← hlabel', ← hlblv]
  rw [← hlabelPub, ← hlpOf] at hsL hsAp hsC
  have vlt : WL.σ left.train.publisher = s.train := h1.tt.2
  have vll : WL.σ left.label.publisher = s.label := h1.tl.2
  have vla : WL.σ left.apply.publisher = s.apply := h1.ta.2
  have rlt : ∀ r', R ≤ r' → RefOk WL left.train.publisher r' := fun r' hr' =>
    ⟨h1.tt.1, by have := h1.rank _ h1.tails_ge.2.1 h1.tt.1; show WL.h left.train.tail < r'; omega⟩
  have rll : ∀ r', R ≤ r' → RefOk WL left.label.publisher r' := fun r' hr' =>
    ⟨h1.tl.1, by have := h1.rank _ h1.tails_ge.2.2 h1.tl.1; show WL.h left.label.tail < r'; omega⟩
  have rla : ∀ r', R ≤ r' → RefOk WL left.apply.publisher r' := fun r' hr' =>
    ⟨h1.ta.1, by have := h1.rank _ h1.tails_ge.1 h1.ta.1; show WL.h left.apply.tail < r'; omega⟩
  -- no label operator: no label worker
  have wl_none : wl? = none → lab = none := by
    intro h
    cases hlab : lab with
    | none => rfl
    | some l =>
      obtain ⟨w, e, _⟩ := hsL.some_ l hlab
      rw [h] at e; cases e
  have wa_none : wa? = none → app = none := by
    intro h
    cases happ : app with
    | none => rfl
    | some a =>
      obtain ⟨w, e, _⟩ := hsAp.some_ a happ
      rw [h] at e; cases e
  have wt_none : wt? = none → trn = none := by
    intro h
    cases htrn : trn with
    | none => rfl
    | some a =>
      obtain ⟨w, e, _⟩ := hsC.some_ a htrn
      rw [h] at e; cases e
  -- C1: the label worker
  obtain ⟨W1, hiW1, L1a, L1b, L1c⟩ := liveSlot hi6 wl? left.label.publisher R (slotState s.train lblv [] lab)
    (fun w hw => by rw [n6]; have := fl w hw; omega) (rll _ (Nat.le_refl _))
    (by
      intro w hw
      obtain ⟨l, hlab, built, _, _, hact⟩ := hsL.of_some hw
      refine ⟨by rw [k6]; exact (fl w hw).2.2.2, inl w hw, hnlW _ (fl w hw).1, ?_⟩
      subst hlab
      have e1 : lpOf l.tag = left.label.publisher := by rw [hlpOf]; simp [lpOfFn]
      have e2 : lblv l.tag = s.label := by rw [hlblv]; simp [lblvFn]
      rw [e1] at built
      have := slot_stateFor built t6 R (rlt _ (Nat.le_refl _)) (rll _ (Nat.le_refl _)) s.train s.label vlt vll
      simp only [slotState, ← hact, e2]
      exact this)
  have hnl1 : ∀ w, wl? = some w → ¬ WL.live w.uid := fun w hw => hnlW _ (fl w hw).1
  obtain ⟨lt1, vlt1⟩ := liveSlot_keepRef L1a L1b hnl1 _ _ (rlt (R + 1) (by omega))
  obtain ⟨ll1, vll1⟩ := liveSlot_keepRef L1a L1b hnl1 _ _ (rll (R + 1) (by omega))
  obtain ⟨la1, vla1⟩ := liveSlot_keepRef L1a L1b hnl1 _ _ (rla (R + 1) (by omega))
  rw [vlt] at vlt1; rw [vll] at vll1; rw [vla] at vla1
  have lab1 : RefOk W1 labelPub (R + 1) ∧ W1.σ labelPub = label' := by
    cases hwl : wl? with
    | none =>
      have hlab := wl_none hwl
      have e1 : labelPub = left.label.publisher := by rw [hlabelPub, hwl]; rfl
      have e2 : label' = s.label := by rw [hlabel', hlab]; rfl
      rw [e1, e2]; exact ⟨ll1, vll1⟩
    | some w =>
      obtain ⟨l, hlab, _, _, _, hact⟩ := hsL.of_some hwl
      have e1 : labelPub = ⟨w.uid, 0⟩ := by rw [hlabelPub, hwl]; rfl
      obtain ⟨c1, c2⟩ := L1c w hwl
      rw [e1]
      refine ⟨⟨(L1a _).mpr (Or.inr ⟨w, hwl, rfl⟩), by show W1.h w.uid < _; rw [c1]; omega⟩, ?_⟩
      rw [c2, vll, hlabel', hlab, hact]
      have e2 : lblv l.tag = s.label := by rw [hlblv, hlab]; simp [lblvFn]
      simp [labelVal, slotState, buildActor, applied, hlab, e2]
  have lp1 : ∀ τ, RefOk W1 (lpOf τ) (R + 1) ∧ W1.σ (lpOf τ) = lblv τ := by
    intro τ
    rw [hlpOf, hlblv]
    cases lab with
    | none => exact lab1
    | some l =>
      by_cases e : l.tag = τ
      · simp only [lpOfFn, lblvFn, e, if_true]; exact ⟨ll1, vll1⟩
      · simp only [lpOfFn, lblvFn, e, if_false]; exact lab1
  -- C2: the apply worker
  have hnl2 : ∀ w, wa? = some w → ¬ W1.live w.uid := by
    intro w hw h
    rcases (L1a _).mp h with h | ⟨w', hw', e⟩
    · exact hnlW _ (by have := (fa w hw).1; omega) h
    · exact nal w w' hw hw' e
  obtain ⟨W2, hiW2, L2a, L2b, L2c⟩ := liveSlot hiW1 wa? left.apply.publisher (R + 1)
    (slotState s.train lblv (buildGroupsOpt [] lab gL.next) app)
    (by
      intro w hw
      obtain ⟨a, happ, _⟩ := hsAp.of_some hw
      have := hgeB (by rw [happ]; rfl)
      rw [n6]; omega)
    la1
    (by
      intro w hw
      obtain ⟨a, happ, built, _, _, hact⟩ := hsAp.of_some hw
      refine ⟨by rw [k6]; exact (fa w hw).2.2.2, ina w hw, hnl2 w hw, ?_⟩
      subst happ
      have := slot_stateFor built t6 (R + 1) lt1 (lp1 a.tag).1 s.train (lblv a.tag) vlt1 (lp1 a.tag).2
      simp only [slotState, ← hact]
      exact this)
  obtain ⟨lt2, vlt2⟩ := liveSlot_keepRef L2a L2b hnl2 _ _ lt1
  rw [vlt1] at vlt2
  have lp2 : ∀ τ, RefOk W2 (lpOf τ) (R + 1) ∧ W2.σ (lpOf τ) = lblv τ := by
    intro τ
    obtain ⟨c1, c2⟩ := liveSlot_keepRef L2a L2b hnl2 _ _ (lp1 τ).1
    exact ⟨c1, by rw [c2]; exact (lp1 τ).2⟩
  -- C3: the train worker
  have hnl3 : ∀ w, wt? = some w → ¬ W2.live w.uid := by
    intro w hw h
    rcases (L2a _).mp h with h | ⟨w', hw', e⟩
    · rcases (L1a _).mp h with h | ⟨w', hw', e⟩
      · exact hnlW _ (by have := (ft w hw).1; omega) h
      · exact ntl w w' hw hw' e
    · exact nat w' w hw' hw e.symm
  obtain ⟨W3, hiW3, L3a, L3b, L3c⟩ := liveSlot hiW2 wt? left.train.publisher (R + 1)
    (slotState s.train lblv (buildGroupsOpt (buildGroupsOpt [] lab gL.next) app gA.next) trn)
    (by
      intro w hw
      obtain ⟨a, htrn, _⟩ := hsC.of_some hw
      have := hgeC (by rw [htrn]; rfl)
      rw [n6]; omega)
    lt2
    (by
      intro w hw
      obtain ⟨a, htrn, built, _, _, hact⟩ := hsC.of_some hw
      refine ⟨by rw [k6]; exact (ft w hw).2.2.2, int w hw, hnl3 w hw, ?_⟩
      subst htrn
      have := slot_stateFor built t6 (R + 1) lt2 (lp2 a.tag).1 s.train (lblv a.tag) vlt2 (lp2 a.tag).2
      simp only [slotState, ← hact]
      exact this)
  -- what is live in the end
  have keep3 : ∀ q : PubRef, W1.live q.node → W3.live q.node ∧ W3.σ q = W1.σ q := by
    intro q hq
    obtain ⟨a1, _, a3⟩ := liveSlot_keep L2a L2b hnl2 q hq
    obtain ⟨b1, _, b3⟩ := liveSlot_keep L3a L3b hnl3 q a1
    exact ⟨b1, by rw [b3, a3]⟩
  have old3 : ∀ q : PubRef, WL.live q.node → W3.live q.node ∧ W3.σ q = WL.σ q := by
    intro q hq
    obtain ⟨a1, _, a3⟩ := liveSlot_keep L1a L1b hnl1 q hq
    obtain ⟨b1, b3⟩ := keep3 q a1
    exact ⟨b1, by rw [b3, a3]⟩
  have live3 : ∀ n, W3.live n → WL.live n ∨ (∃ w, wl? = some w ∧ n = w.uid) ∨ (∃ w, wa? = some w ∧ n = w.uid) ∨
      (∃ w, wt? = some w ∧ n = w.uid) := by
    intro n h
    rcases (L3a _).mp h with h | h
    · rcases (L2a _).mp h with h | h
      · rcases (L1a _).mp h with h | h
        · exact Or.inl h
        · exact Or.inr (Or.inl h)
      · exact Or.inr (Or.inr (Or.inl h))
    · exact Or.inr (Or.inr (Or.inr h))
  have hag : Agree gL.next WL W3 := by
    intro n hn
    have c1 := L1b n (fun w hw => by have := (fl w hw).1; omega)
    have c2 := L2b n (fun w hw => by have := (fa w hw).1; omega)
    have c3 := L3b n (fun w hw => by have := (ft w hw).1; omega)
    refine ⟨⟨?_, fun h => (old3 ⟨n, 0⟩ h).1⟩, by rw [c3.1, c2.1, c1.1], fun i => by rw [c3.2 i, c2.2 i, c1.2 i]⟩
    intro h
    rcases live3 n h with h | ⟨w, hw, e⟩ | ⟨w, hw, e⟩ | ⟨w, hw, e⟩
    · exact h
    · have := (fl w hw).1; omega
    · have := (fa w hw).1; omega
    · have := (ft w hw).1; omega
  have vlab3 : W3.live labelPub.node ∧ W3.σ labelPub = label' := by
    obtain ⟨c1, c2⟩ := keep3 labelPub lab1.1.1
    exact ⟨c1, by rw [c2]; exact lab1.2⟩
  have vlt3 : W3.σ left.train.publisher = s.train := by rw [(old3 _ h1.tt.1).2]; exact vlt
  have vll3 : W3.σ left.label.publisher = s.label := by rw [(old3 _ h1.tl.1).2]; exact vll
  refine ⟨_, g6, W3, hrun, h1.step hiW3 hf6 hag ?_
    ⟨⟨left.apply.head, (wa?.map (·.uid)).getD left.apply.tail⟩, ⟨left.train.head, (wt?.map (·.uid)).getD left.train.tail⟩,
      ⟨left.label.head, (wl?.map (·.uid)).getD left.label.tail⟩⟩ rfl rfl rfl _ ?_ ?_ ?_ ?_ ?_ ?_⟩
  · intro n hn hl ho
    have hw : ∀ w : WRef, gC.kindOf w.uid = some (.worker w.gid w.actor 1 1) → n = w.uid → False := by
      intro w hk e
      subst e
      rw [Graph.isOpen, k6, hk] at ho
      cases ho.1
    rcases live3 n hl with h | ⟨w, hw', e⟩ | ⟨w, hw', e⟩ | ⟨w, hw', e⟩
    · exact hnlW n hn h
    · exact hw w (fl w hw').2.2.2 e
    · exact hw w (fa w hw').2.2.2 e
    · exact hw w (ft w hw').2.2.2 e
  · -- apply tail
    cases hwa : wa? with
    | none =>
      have happ := wa_none hwa
      obtain ⟨c1, c2⟩ := old3 ⟨left.apply.tail, 0⟩ h1.ta.1
      refine ⟨c1, ?_⟩
      rw [happ]
      show W3.σ ⟨left.apply.tail, 0⟩ = s.apply
      rw [c2]; exact h1.ta.2
    | some w =>
      obtain ⟨a, happ, _, _, _, hact⟩ := hsAp.of_some hwa
      obtain ⟨_, c2⟩ := L2c w hwa
      have hl2 : W2.live w.uid := (L2a _).mpr (Or.inr ⟨w, hwa, rfl⟩)
      obtain ⟨b1, _, b3⟩ := liveSlot_keep L3a L3b hnl3 ⟨w.uid, 0⟩ hl2
      refine ⟨b1, ?_⟩
      show W3.σ ⟨w.uid, 0⟩ = _
      rw [b3, c2, vla1, happ, hact]
      simp [slotVal, slotState, applied]
  · -- train tail
    cases hwt : wt? with
    | none =>
      have htrn := wt_none hwt
      obtain ⟨c1, c2⟩ := old3 ⟨left.train.tail, 0⟩ h1.tt.1
      refine ⟨c1, ?_⟩
      rw [htrn]
      show W3.σ ⟨left.train.tail, 0⟩ = s.train
      rw [c2]; exact h1.tt.2
    | some w =>
      obtain ⟨a, htrn, _, _, _, hact⟩ := hsC.of_some hwt
      obtain ⟨_, c2⟩ := L3c w hwt
      refine ⟨(L3a _).mpr (Or.inr ⟨w, hwt, rfl⟩), ?_⟩
      show W3.σ ⟨w.uid, 0⟩ = _
      rw [c2, vlt2, htrn, hact]
      simp [slotVal, slotState, applied]
  · -- label tail
    cases hwl : wl? with
    | none =>
      have hlab := wl_none hwl
      obtain ⟨c1, c2⟩ := old3 ⟨left.label.tail, 0⟩ h1.tl.1
      refine ⟨c1, ?_⟩
      show W3.σ ⟨left.label.tail, 0⟩ = label'
      rw [c2, hlabel', hlab]; exact h1.tl.2
    | some w =>
      have e1 : labelPub = ⟨w.uid, 0⟩ := by rw [hlabelPub, hwl]; rfl
      rw [e1] at vlab3
      exact vlab3
  · -- the trainings
    refine ⟨buildTrainsOpt [] lab gL.next left.train.publisher left.label.publisher ++
      buildTrainsOpt (buildGroupsOpt [] lab gL.next) app gA.next left.train.publisher labelPub ++
      buildTrainsOpt (buildGroupsOpt (buildGroupsOpt [] lab gL.next) app gA.next) trn gB.next left.train.publisher labelPub,
      ?_, ?_, ?_⟩
    · rw [tr6, htC, htB, htA, ← hlabelPub]
      simp [List.append_assoc]
    · intro t ht
      have hltl : W3.live left.train.publisher.node := (old3 _ h1.tt.1).1
      have hlll : W3.live left.label.publisher.node := (old3 _ h1.tl.1).1
      rcases List.mem_append.mp ht with ht | ht
      · rcases List.mem_append.mp ht with ht | ht
        · obtain ⟨x1, x2, _⟩ := buildTrainsOpt_mem ht
          rw [x1, x2]; exact ⟨hltl, hlll⟩
        · obtain ⟨x1, x2, _⟩ := buildTrainsOpt_mem ht
          rw [x1, x2]; exact ⟨hltl, vlab3.1⟩
      · obtain ⟨x1, x2, _⟩ := buildTrainsOpt_mem ht
        rw [x1, x2]; exact ⟨hltl, vlab3.1⟩
    · simp only [List.map_append, ← hlabelPub]
      have part : ∀ (ts : List Training) (lp : PubRef) (lv : Val), W3.σ lp = lv →
          (∀ t ∈ ts, t.train = left.train.publisher ∧ t.label = lp ∧ t.actor.stateful = true) →
          ts.map (fun t => (t.actor.tag, trainedState t.actor s.train lv)) = ts.map (trainedUnder W3) := by
        intro ts lp lv hv hts
        apply List.map_congr_left
        intro t ht
        obtain ⟨x1, x2, x3⟩ := hts t ht
        simp only [trainedUnder, trainedState, x3, if_true, x1, x2, vlt3, hv]
      rw [part _ _ _ vll3 (fun t ht => buildTrainsOpt_mem ht), part _ _ _ vlab3.2 (fun t ht => buildTrainsOpt_mem ht),
        part _ _ _ vlab3.2 (fun t ht => buildTrainsOpt_mem ht)]

  · -- every new live node is a slot worker, whose group was created by this operator
    intro n hn hl gid a i o hk
    have hw : ∀ w : WRef, gL.next ≤ w.gid → gC.kindOf w.uid = some (.worker w.gid w.actor 1 1) → n = w.uid →
        gL.next ≤ gid := by
      intro w hg hkw e
      subst e
      rw [k6, hkw] at hk
      cases hk
      exact hg
    rcases live3 n hl with h | ⟨w, hw', e⟩ | ⟨w, hw', e⟩ | ⟨w, hw', e⟩
    · exact absurd h (hnlW n hn)
    · obtain ⟨_, _, b, _⟩ := hsL.of_some hw'
      exact hw w b.gid_ge b.kind e
    · obtain ⟨_, _, b, _⟩ := hsAp.of_some hw'
      exact hw w b.gid_ge b.kind e
    · obtain ⟨_, _, b, _⟩ := hsC.of_some hw'
      exact hw w b.gid_ge b.kind e

  · -- structure: wiring, ranks, apply region
    have hA : ∀ w, wa? = some w → W3.live w.uid ∧ W3.h w.uid = R + 1 := by
      intro w hw
      have hl2 : W2.live w.uid := (L2a _).mpr (Or.inr ⟨w, hw, rfl⟩)
      obtain ⟨b1, b2, _⟩ := liveSlot_keep L3a L3b hnl3 ⟨w.uid, 0⟩ hl2
      exact ⟨b1, by rw [b2]; exact (L2c w hw).1⟩
    have hT : ∀ w, wt? = some w → W3.live w.uid ∧ W3.h w.uid = R + 1 := fun w hw =>
      ⟨(L3a _).mpr (Or.inr ⟨w, hw, rfl⟩), (L3c w hw).1⟩
    have hLb : ∀ w, wl? = some w → W3.live w.uid ∧ W3.h w.uid = R := by
      intro w hw
      have hl1 : W1.live w.uid := (L1a _).mpr (Or.inr ⟨w, hw, rfl⟩)
      obtain ⟨a1, a2, _⟩ := liveSlot_keep L2a L2b hnl2 ⟨w.uid, 0⟩ hl1
      obtain ⟨b1, b2, _⟩ := liveSlot_keep L3a L3b hnl3 ⟨w.uid, 0⟩ a1
      exact ⟨b1, by rw [b2, a2]; exact (L1c w hw).1⟩
    refine ⟨hw6, ⟨?_, ?_, ?_⟩, ?_, ?_, ?_, fun hfull => ⟨?_, ?_⟩, ?_⟩
    · cases hwa : wa? with
      | none => exact h1.tails_ge.1
      | some w => have := (fa w hwa).1; show g.next ≤ w.uid; omega
    · cases hwt : wt? with
      | none => exact h1.tails_ge.2.1
      | some w => have := (ft w hwt).1; show g.next ≤ w.uid; omega
    · cases hwl : wl? with
      | none => exact h1.tails_ge.2.2
      | some w => have := (fl w hwl).1; show g.next ≤ w.uid; omega
    · intro n hn hl
      rw [n6]
      rcases live3 n hl with h | ⟨w, hw', e⟩ | ⟨w, hw', e⟩ | ⟨w, hw', e⟩
      · exact absurd h (hnlW n hn)
      · subst e
        rw [(hLb w hw').2, hR]
        have := (fl w hw').2.1; omega
      · subst e
        obtain ⟨a, happ, _⟩ := hsAp.of_some hw'
        have := hgeB (by rw [happ]; rfl)
        rw [(hA w hw').2, hR]; omega
      · subst e
        obtain ⟨a, htrn, _⟩ := hsC.of_some hw'
        have := hgeC (by rw [htrn]; rfl)
        rw [(hT w hw').2, hR]; omega
    · intro hfull n hn hre hne
      rcases hre.inv with e | ⟨k0, q0, hq0, hr0⟩
      · exact absurd e hne
      · rcases cls6 n k0 q0 hn hq0 with ⟨w, hw', e, _⟩ | ⟨w, hw', e, _⟩ | ⟨w, hw', e, _⟩
        · subst e
          refine ⟨(hA w hw').1, ?_⟩
          intro k q hq
          rcases cls6 _ k q hn hq with ⟨_, _, _, e'⟩ | ⟨w', hw'', e', _⟩ | ⟨w', hw'', e', _⟩
          · rw [e']; exact reA hfull
          · exact absurd e' (nat w w' hw' hw'')
          · exact absurd e' (nal w w' hw' hw'')
        · subst e; exact absurd hre (noWT hfull w hw')
        · subst e; exact absurd hre (noWL hfull w hw')
    · intro hfull
      cases hwa : wa? with
      | none => exact reA hfull
      | some w => exact Reach.one (reA hfull) (ina w hwa)
    · cases hwt : wt? with
      | none => exact noT hfull
      | some w => exact noWT hfull w hwt
    · cases hwl : wl? with
      | none => exact noL hfull
      | some w => exact noWL hfull w hwl
    · intro _ s' k q hs' hq
      rcases cls6 s' k q hs' hq with ⟨_, _, _, e⟩ | ⟨_, _, _, e⟩ | ⟨_, _, _, e⟩
      · rw [e]; exact h1.tails_ge.1
      · rw [e]; exact h1.tails_ge.2.1
      · rw [e]; exact h1.tails_ge.2.2

end ForML.Compose
