/-
C06 — the rendered text of a statement (`ForML.Render.sel`, the key of the result cache before hashing) determines the
SQL tree: rendering is injective.  Proved as unique readability of a prefix: if `sel q ++ t = sel q' ++ t'` then
`q = q'` and `t = t'` (so the token sequence can be read back unambiguously, whatever follows it).
Core Lean only.
-/
import ForML.Model.SqlRender

namespace ForML.Render
open ForML.Dsl ForML.Rel ForML.Parser

theorem expr_prefix : ∀ (e e' : SqlExpr) (t t' : Text), expr e ++ t = expr e' ++ t' → e = e' ∧ t = t' := by
  intro e
  induction e with
  | lit v =>
    intro e' t t' h
    cases e' <;> simp [expr] at h
    exact ⟨by rw [h.1], h.2⟩
  | col q n =>
    intro e' t t' h
    cases e' <;> simp [expr] at h
    obtain ⟨h1, h2, h3⟩ := h
    exact ⟨by rw [h1, h2], h3⟩
  | label e n ih =>
    intro e' t t' h
    cases e' with
    | label e2 n2 =>
      simp [expr] at h
      obtain ⟨h1, h2⟩ := h
      obtain ⟨h3, h4⟩ := ih e2 t t' h2
      exact ⟨by rw [h1, h3], h4⟩
    | _ => simp [expr] at h
  | un o a ih =>
    intro e' t t' h
    cases e' with
    | un o2 a2 =>
      simp [expr] at h
      obtain ⟨h1, h2⟩ := h
      obtain ⟨h3, h4⟩ := ih a2 t t' h2
      exact ⟨by rw [h1, h3], h4⟩
    | _ => simp [expr] at h
  | bin o a b iha ihb =>
    intro e' t t' h
    cases e' with
    | bin o2 a2 b2 =>
      simp [expr] at h
      obtain ⟨h1, h2⟩ := h
      obtain ⟨h3, h4⟩ := iha a2 (expr b ++ t) (expr b2 ++ t') h2
      obtain ⟨h5, h6⟩ := ihb b2 t t' h4
      exact ⟨by rw [h1, h3, h5], h6⟩
    | _ => simp [expr] at h

theorem exprsBody_prefix : ∀ (es es' : List SqlExpr) (t t' : Text), es.length = es'.length →
    exprsBody es ++ t = exprsBody es' ++ t' → es = es' ∧ t = t'
  | [], [], t, t', _, h => by simpa [exprsBody] using h
  | [], _ :: _, _, _, hl, _ => by simp at hl
  | _ :: _, [], _, _, hl, _ => by simp at hl
  | e :: es, e' :: es', t, t', hl, h => by
    simp only [exprsBody, List.append_assoc] at h
    obtain ⟨h1, h2⟩ := expr_prefix e e' _ _ h
    obtain ⟨h3, h4⟩ := exprsBody_prefix es es' t t' (by simpa using hl) h2
    exact ⟨by rw [h1, h3], h4⟩

theorem exprs_prefix (es es' : List SqlExpr) (t t' : Text) (h : exprs es ++ t = exprs es' ++ t') :
    es = es' ∧ t = t' := by
  simp only [exprs, List.cons_append, List.cons.injEq, Tok.count.injEq] at h
  exact exprsBody_prefix es es' t t' h.1 h.2

theorem optExpr_prefix (a a' : Option SqlExpr) (t t' : Text) (h : optExpr a ++ t = optExpr a' ++ t') :
    a = a' ∧ t = t' := by
  cases a <;> cases a' <;> simp [optExpr] at h
  · exact ⟨rfl, h⟩
  · obtain ⟨h1, h2⟩ := expr_prefix _ _ _ _ h
    exact ⟨by rw [h1], h2⟩

theorem ordsBody_prefix : ∀ (os os' : List (SqlExpr × SortDir)) (t t' : Text), os.length = os'.length →
    ordsBody os ++ t = ordsBody os' ++ t' → os = os' ∧ t = t'
  | [], [], t, t', _, h => by simpa [ordsBody] using h
  | [], _ :: _, _, _, hl, _ => by simp at hl
  | _ :: _, [], _, _, hl, _ => by simp at hl
  | (e, d) :: os, (e', d') :: os', t, t', hl, h => by
    simp only [ordsBody, List.append_assoc, List.cons_append] at h
    obtain ⟨h1, h2⟩ := expr_prefix e e' _ _ h
    simp only [List.cons.injEq, Tok.dir.injEq] at h2
    obtain ⟨h3, h4⟩ := ordsBody_prefix os os' t t' (by simpa using hl) h2.2
    exact ⟨by rw [h1, h2.1, h3], h4⟩

theorem ords_prefix (os os' : List (SqlExpr × SortDir)) (t t' : Text) (h : ords os ++ t = ords os' ++ t') :
    os = os' ∧ t = t' := by
  simp only [ords, List.cons_append, List.cons.injEq, Tok.count.injEq] at h
  exact ordsBody_prefix os os' t t' h.1 h.2

theorem optNum_prefix (a a' : Option Int) (t t' : Text) (h : optNum a ++ t = optNum a' ++ t') :
    a = a' ∧ t = t' := by
  cases a <;> cases a' <;> simp [optNum] at h
  · exact ⟨rfl, h⟩
  · exact ⟨by rw [h.1], h.2⟩

theorem sel_prefix : ∀ (q q' : SqlSel) (t t' : Text), sel q ++ t = sel q' ++ t' → q = q' ∧ t = t' := by
  intro q
  induction q with
  | table n =>
    intro q' t t' h
    cases q' <;> simp [sel] at h
    exact ⟨by rw [h.1], h.2⟩
  | «alias» i n ih =>
    intro q' t t' h
    cases q' with
    | «alias» i2 n2 =>
      simp [sel] at h
      obtain ⟨h1, h2⟩ := h
      obtain ⟨h3, h4⟩ := ih i2 t t' h2
      exact ⟨by rw [h1, h3], h4⟩
    | _ => simp [sel] at h
  | join l r on full isouter ihl ihr =>
    intro q' t t' h
    cases q' with
    | join l2 r2 on2 full2 isouter2 =>
      simp only [sel, List.cons_append, List.append_assoc, List.cons.injEq, Tok.present.injEq, true_and] at h
      obtain ⟨hf, ho, h⟩ := h
      obtain ⟨h1, h⟩ := ihl l2 _ _ h
      obtain ⟨h2, h⟩ := ihr r2 _ _ h
      simp only [List.cons.injEq, true_and] at h
      obtain ⟨h3, h4⟩ := expr_prefix _ _ _ _ h
      exact ⟨by rw [hf, ho, h1, h2, h3], h4⟩
    | _ => simp [sel] at h
  | select items frm whr grp hav ord lim off ih =>
    intro q' t t' h
    cases q' with
    | select items2 frm2 whr2 grp2 hav2 ord2 lim2 off2 =>
      simp only [sel, List.cons_append, List.append_assoc, List.cons.injEq, true_and] at h
      obtain ⟨h1, h⟩ := exprs_prefix _ _ _ _ h
      simp only [List.cons.injEq, true_and] at h
      obtain ⟨h2, h⟩ := ih frm2 _ _ h
      simp only [List.cons.injEq, true_and] at h
      obtain ⟨h3, h⟩ := optExpr_prefix _ _ _ _ h
      simp only [List.cons.injEq, true_and] at h
      obtain ⟨h4, h⟩ := exprs_prefix _ _ _ _ h
      simp only [List.cons.injEq, true_and] at h
      obtain ⟨h5, h⟩ := optExpr_prefix _ _ _ _ h
      simp only [List.cons.injEq, true_and] at h
      obtain ⟨h6, h⟩ := ords_prefix _ _ _ _ h
      simp only [List.cons.injEq, true_and] at h
      obtain ⟨h7, h⟩ := optNum_prefix _ _ _ _ h
      simp only [List.cons.injEq, true_and] at h
      obtain ⟨h8, h9⟩ := optNum_prefix _ _ _ _ h
      exact ⟨by rw [h1, h2, h3, h4, h5, h6, h7, h8], h9⟩
    | _ => simp [sel] at h
  | compound o l r ihl ihr =>
    intro q' t t' h
    cases q' with
    | compound o2 l2 r2 =>
      simp only [sel, List.cons_append, List.append_assoc, List.cons.injEq, Tok.setop.injEq, true_and] at h
      obtain ⟨ho, h⟩ := h
      obtain ⟨h1, h⟩ := ihl l2 _ _ h
      obtain ⟨h2, h3⟩ := ihr r2 _ _ h
      exact ⟨by rw [ho, h1, h2], h3⟩
    | _ => simp [sel] at h

/-- the rendered text determines the statement -/
theorem sel_injective (q q' : SqlSel) (h : sel q = sel q') : q = q' :=
  (sel_prefix q q' [] [] (by simpa using h)).1

/-- in particular two statements that differ in a literal value render differently -/
example : sel (.select [.col "t" "x"] (.table "t") (some (.bin .gt (.col "t" "x") (.lit (.int 25)))) [] none [] none none) ≠
    sel (.select [.col "t" "x"] (.table "t") (some (.bin .gt (.col "t" "x") (.lit (.int 45)))) [] none [] none none) := by
  decide

end ForML.Render
