/-
C11 helper lemmas, part 9: what `Traversal.each` (the walk `Segment.accept` hands to the validator) visits.

`Reach g tail h` is the spec-shaped reachability: from the head over the subscribers of every output port (and the
tail when it is a placeholder registered with the node), not going on below the tail except to trained subscribers.
`visit` is sound for it in every state, and complete when no two different nodes compare equal (`NoAlias`: with
`Node.__eq__` aliasing the `seen` set skips a node that merely looks like a visited one - finding C11-F2).
-/
import ForML.Lemmas.C11Ops

namespace ForML.Graph

/-- the nodes `each` looks at below `p` -/
def succs (g : G) (tail p : Nat) : List Nat :=
  (outputs g p).flatten.map (·.node) ++ (if subscribed (fuelOf g) g tail p then [tail] else [])

/-- the mask of `each`: below the tail only trained subscribers are followed -/
def follow (g : G) (tail p n : Nat) : Bool := !(eqNode g p tail && !(isWorker g n && trained g n))

/-- one step of the fold of `visit` -/
def vstep (fuel : Nat) (g : G) (tail pivot : Nat) (seen : List Nat) (n : Nat) : List Nat :=
  if memNode g n seen then seen
  else if eqNode g pivot tail && !(isWorker g n && trained g n) then seen
  else visit fuel g tail n seen

theorem visit_succ (fuel : Nat) (g : G) (tail pivot : Nat) (seen : List Nat) :
    visit (fuel + 1) g tail pivot seen = (succs g tail pivot).foldl (vstep fuel g tail pivot) (seen ++ [pivot]) := rfl

/-- reachable from the head `h` in the sense of `Traversal.each` -/
inductive Reach (g : G) (tail h : Nat) : Nat → Prop
  | head : Reach g tail h h
  | step {p n : Nat} : Reach g tail h p → n ∈ succs g tail p → follow g tail p n = true → Reach g tail h n

/-! ### soundness: everything visited is reachable -/

theorem visit_sound (g : G) (tail h : Nat) : ∀ (fuel pivot : Nat) (seen : List Nat),
    Reach g tail h pivot → (∀ x ∈ seen, Reach g tail h x) → ∀ x ∈ visit fuel g tail pivot seen, Reach g tail h x := by
  intro fuel
  induction fuel with
  | zero => intro pivot seen _ hs x hx; exact hs x hx
  | succ k ih =>
    intro pivot seen hp hs
    rw [visit_succ]
    have key : ∀ (ns : List Nat) (acc : List Nat), (∀ n ∈ ns, n ∈ succs g tail pivot) →
        (∀ x ∈ acc, Reach g tail h x) → ∀ x ∈ ns.foldl (vstep k g tail pivot) acc, Reach g tail h x := by
      intro ns
      induction ns with
      | nil => intro acc _ ha x hx; exact ha x hx
      | cons n ns ihn =>
        intro acc hn ha
        simp only [List.foldl_cons]
        apply ihn _ (fun m hm => hn m (List.mem_cons_of_mem _ hm))
        unfold vstep
        split
        · exact ha
        · split
          · exact ha
          · rename_i hf
            apply ih n acc _ ha
            refine .step hp (hn n List.mem_cons_self) ?_
            have hfalse : (eqNode g pivot tail && !(isWorker g n && trained g n)) = false := Bool.eq_false_iff.mpr hf
            unfold follow
            rw [hfalse]; rfl
    apply key _ _ (fun n hn => hn)
    intro x hx
    rcases List.mem_append.mp hx with hx | hx
    · exact hs x hx
    · simp only [List.mem_singleton] at hx; subst hx; exact hp

/-! ### completeness without aliasing -/

/-- no two different nodes compare equal (`Node.__eq__`) -/
def noAlias (g : G) : Bool :=
  (List.range g.nodes.length).all (fun a => (List.range g.nodes.length).all (fun b => a == b || !eqNode g a b))

theorem eqNode_of_noAlias {g : G} (na : noAlias g = true) {a b : Nat} (h : eqNode g a b = true) : a = b := by
  by_cases ha : a < g.nodes.length
  · by_cases hb : b < g.nodes.length
    · unfold noAlias at na
      have := List.all_eq_true.mp (List.all_eq_true.mp na a (List.mem_range.mpr ha)) b (List.mem_range.mpr hb)
      simp only [Bool.or_eq_true, beq_iff_eq, Bool.not_eq_true'] at this
      rcases this with h1 | h1
      · exact h1
      · rw [h] at h1; cases h1
    · -- `b` is no node: it is neither a worker nor a placeholder
      have w : isWorker g b = false := by
        cases hw : isWorker g b with
        | false => rfl
        | true => exact absurd (isWorker_lt g b hw) hb
      have f : isFuture g b = false := by
        cases hf : isFuture g b with
        | false => rfl
        | true => exact absurd (isFuture_lt g b hf) hb
      unfold eqNode at h
      simpa [w, f] using h
  · have w : isWorker g a = false := by
      cases hw : isWorker g a with
      | false => rfl
      | true => exact absurd (isWorker_lt g a hw) ha
    have f : isFuture g a = false := by
      cases hf : isFuture g a with
      | false => rfl
      | true => exact absurd (isFuture_lt g a hf) ha
    unfold eqNode at h
    simpa [w, f] using h

theorem memNode_iff {g : G} (na : noAlias g = true) (n : Nat) (ms : List Nat) : memNode g n ms = true ↔ n ∈ ms := by
  unfold memNode
  simp only [List.any_eq_true, Bool.or_eq_true, beq_iff_eq, Bool.and_eq_true]
  constructor
  · rintro ⟨m, hm, h | ⟨_, h⟩⟩
    · exact h ▸ hm
    · exact (eqNode_of_noAlias na h) ▸ hm
  · intro h; exact ⟨n, h, .inl rfl⟩

/-- every followed successor of `x` is in `acc` -/
def ClosedIn (g : G) (tail : Nat) (acc : List Nat) (x : Nat) : Prop :=
  ∀ n ∈ succs g tail x, follow g tail x n = true → n ∈ acc

theorem ClosedIn.mono {g : G} {tail : Nat} {acc acc' : List Nat} {x : Nat} (h : ∀ y ∈ acc, y ∈ acc')
    (hc : ClosedIn g tail acc x) : ClosedIn g tail acc' x := fun n hn hf => h n (hc n hn hf)

/-- a duplicate-free list of numbers below `N` that misses one of them is shorter than `N` -/
theorem length_lt_of_missing {N : Nat} {l : List Nat} {p : Nat} (hn : l.Nodup) (hb : ∀ x ∈ l, x < N) (hp : p < N)
    (hm : p ∉ l) : l.length + 1 ≤ N := by
  have hnd : (p :: l).Nodup := List.nodup_cons.mpr ⟨hm, hn⟩
  have hsub : (p :: l) ⊆ List.range N := by
    intro x hx
    rcases List.mem_cons.mp hx with rfl | hx
    · exact List.mem_range.mpr hp
    · exact List.mem_range.mpr (hb x hx)
  have := List.Nodup.length_le_of_subset hnd hsub
  simpa using this

/-- the walk with enough fuel: everything seen before stays, the pivot is visited, and every node visited for the
first time has all its followed successors visited -/
theorem visit_complete (g : G) (tail N : Nat) (na : noAlias g = true)
    (hsucc : ∀ p n, n ∈ succs g tail p → n < N) : ∀ (fuel pivot : Nat) (seen : List Nat),
    pivot ∉ seen → pivot < N → seen.Nodup → (∀ x ∈ seen, x < N) → N + 1 ≤ fuel + seen.length →
    (∀ x ∈ seen, x ∈ visit fuel g tail pivot seen) ∧ pivot ∈ visit fuel g tail pivot seen ∧
    (visit fuel g tail pivot seen).Nodup ∧ (∀ x ∈ visit fuel g tail pivot seen, x < N) ∧
    (∀ x ∈ visit fuel g tail pivot seen, x ∉ seen → ClosedIn g tail (visit fuel g tail pivot seen) x) := by
  intro fuel
  induction fuel with
  | zero =>
    intro pivot seen hp hpN hn hb hfuel
    have := length_lt_of_missing hn hb hpN hp
    omega
  | succ k ih =>
    intro pivot seen hp hpN hn hb hfuel
    rw [visit_succ]
    have hn0 : (seen ++ [pivot]).Nodup := by
      rw [List.nodup_append]
      refine ⟨hn, by simp, ?_⟩
      intro a ha b hb' hab
      simp only [List.mem_singleton] at hb'
      subst hb'; subst hab
      exact hp ha
    have hb0 : ∀ x ∈ seen ++ [pivot], x < N := by
      intro x hx
      rcases List.mem_append.mp hx with hx | hx
      · exact hb x hx
      · simp only [List.mem_singleton] at hx; subst hx; exact hpN
    -- the fold: `acc` grows, stays duplicate-free and bounded, every node added since `seen ++ [pivot]` is closed,
    -- and every followed successor processed so far is in it
    have key : ∀ (ns : List Nat) (acc : List Nat), (∀ n ∈ ns, n < N) →
        acc.Nodup → (∀ x ∈ acc, x < N) → (∀ x ∈ seen ++ [pivot], x ∈ acc) →
        (∀ x ∈ acc, x ∉ seen ++ [pivot] → ClosedIn g tail acc x) →
        (∀ x ∈ acc, x ∈ ns.foldl (vstep k g tail pivot) acc) ∧
        (ns.foldl (vstep k g tail pivot) acc).Nodup ∧ (∀ x ∈ ns.foldl (vstep k g tail pivot) acc, x < N) ∧
        (∀ x ∈ ns.foldl (vstep k g tail pivot) acc, x ∉ seen ++ [pivot] →
          ClosedIn g tail (ns.foldl (vstep k g tail pivot) acc) x) ∧
        (∀ n ∈ ns, follow g tail pivot n = true → n ∈ ns.foldl (vstep k g tail pivot) acc) := by
      intro ns
      induction ns with
      | nil => intro acc _ h1 h2 _ h4; exact ⟨fun _ h => h, h1, h2, h4, by simp⟩
      | cons n ns ihn =>
        intro acc hns h1 h2 h3 h4
        simp only [List.foldl_cons]
        have hnN : n < N := hns n List.mem_cons_self
        have hns' : ∀ m ∈ ns, m < N := fun m hm => hns m (List.mem_cons_of_mem _ hm)
        -- one step
        have stepfacts : (vstep k g tail pivot acc n).Nodup ∧ (∀ x ∈ vstep k g tail pivot acc n, x < N) ∧
            (∀ x ∈ acc, x ∈ vstep k g tail pivot acc n) ∧
            (∀ x ∈ vstep k g tail pivot acc n, x ∉ seen ++ [pivot] → ClosedIn g tail (vstep k g tail pivot acc n) x) ∧
            (follow g tail pivot n = true → n ∈ vstep k g tail pivot acc n) := by
          unfold vstep
          by_cases hmem : memNode g n acc = true
          · simp only [hmem, ↓reduceIte]
            exact ⟨h1, h2, fun _ h => h, h4, fun _ => (memNode_iff na n acc).mp hmem⟩
          · simp only [hmem, Bool.false_eq_true, ↓reduceIte]
            by_cases hfol : (eqNode g pivot tail && !(isWorker g n && trained g n)) = true
            · simp only [hfol, ↓reduceIte]
              refine ⟨h1, h2, fun _ h => h, h4, ?_⟩
              intro hf
              unfold follow at hf
              rw [hfol] at hf; cases hf
            · simp only [hfol, Bool.false_eq_true, ↓reduceIte]
              have hnot : n ∉ acc := fun h => hmem ((memNode_iff na n acc).mpr h)
              have hlen : (seen ++ [pivot]).length ≤ acc.length := List.Nodup.length_le_of_subset hn0 h3
              have hfuel' : N + 1 ≤ k + acc.length := by
                simp only [List.length_append, List.length_singleton] at hlen
                omega
              obtain ⟨r1, r2, r3, r4, r5⟩ := ih n acc hnot hnN h1 h2 hfuel'
              refine ⟨r3, r4, r1, ?_, fun _ => r2⟩
              intro x hx hx0
              by_cases hxa : x ∈ acc
              · exact (h4 x hxa hx0).mono r1
              · exact r5 x hx hxa
        obtain ⟨s1, s2, s3, s4, s5⟩ := stepfacts
        obtain ⟨t1, t2, t3, t4, t5⟩ := ihn _ hns' s1 s2 (fun x hx => s3 x (h3 x hx)) s4
        refine ⟨fun x hx => t1 x (s3 x hx), t2, t3, t4, ?_⟩
        intro m hm hf
        rcases List.mem_cons.mp hm with rfl | hm
        · exact t1 _ (s5 hf)
        · exact t5 m hm hf
    obtain ⟨k1, k2, k3, k4, k5⟩ := key (succs g tail pivot) (seen ++ [pivot])
      (fun n hn' => hsucc pivot n hn') hn0 hb0 (fun _ h => h) (fun x hx hx0 => absurd hx hx0)
    refine ⟨fun x hx => k1 x (List.mem_append_left _ hx), k1 pivot (by simp), k2, k3, ?_⟩
    intro x hx hxs
    by_cases hxp : x = pivot
    · subst hxp
      intro n hn' hf
      exact k5 n hn' hf
    · apply k4 x hx
      intro hx0
      rcases List.mem_append.mp hx0 with h | h
      · exact hxs h
      · simp only [List.mem_singleton] at h; exact hxp h

/-- the subscribers of a node are nodes -/
theorem succs_lt (g : G) (hw : Wf g) (tail : Nat) (ht : tail < g.nodes.length) (p n : Nat)
    (hn : n ∈ succs g tail p) : n < g.nodes.length := by
  unfold succs at hn
  rcases List.mem_append.mp hn with h | h
  · simp only [List.mem_map, List.mem_flatten] at h
    obtain ⟨s, ⟨l, hl, hs⟩, rfl⟩ := h
    unfold outputs at hl
    simp only [List.mem_map, List.mem_range] at hl
    obtain ⟨i, _, rfl⟩ := hl
    exact isWorker_lt _ _ (hw.2.2.2.2.2.1 _ (mem_out g p i s hs)).2
  · split at h
    · simp only [List.mem_singleton] at h; subst h; exact ht
    · cases h

/-- **completeness**: without aliasing the walk visits everything reachable -/
theorem visit_reach (g : G) (hw : Wf g) (na : noAlias g = true) (h tl : Nat) (hh : h < g.nodes.length)
    (ht : tl < g.nodes.length) (x : Nat) (hx : Reach g tl h x) :
    x ∈ visit (g.nodes.length * g.nodes.length + 1) g tl h [] := by
  have hfuel : g.nodes.length + 1 ≤ g.nodes.length * g.nodes.length + 1 + ([] : List Nat).length := by
    have := Nat.le_mul_self g.nodes.length
    simp only [List.length_nil]; omega
  obtain ⟨_, c2, _, _, c5⟩ := visit_complete g tl g.nodes.length na (succs_lt g hw tl ht)
    (g.nodes.length * g.nodes.length + 1) h [] (by simp) hh List.nodup_nil (by simp) hfuel
  induction hx with
  | head => exact c2
  | step _ hn hf ih => exact c5 _ ih (by simp) _ hn hf

/-- the validator refuses only when a placeholder (other than the tail) is reachable -/
theorem accept_sound (g : G) (h tl : Nat) (hr : accept g h tl = some .futures) :
    ∃ n, Reach g tl h n ∧ isFuture g n = true ∧ eqNode g n tl = false := by
  unfold accept at hr
  split at hr
  · rename_i hany
    obtain ⟨n, hn, hp⟩ := List.any_eq_true.mp hany
    simp only [Bool.and_eq_true, Bool.not_eq_true'] at hp
    exact ⟨n, visit_sound g tl h _ h [] .head (by simp) n hn, hp.1, hp.2⟩
  · cases hr

/-- without aliasing: the validator refuses **iff** a placeholder other than the tail is reachable -/
theorem accept_iff (g : G) (hw : Wf g) (na : noAlias g = true) (h tl : Nat) (hh : h < g.nodes.length)
    (ht : tl < g.nodes.length) :
    accept g h tl = some .futures ↔ ∃ n, Reach g tl h n ∧ isFuture g n = true ∧ n ≠ tl := by
  constructor
  · intro hr
    obtain ⟨n, h1, h2, h3⟩ := accept_sound g h tl hr
    refine ⟨n, h1, h2, ?_⟩
    intro heq
    subst heq
    simp [eqNode] at h3
  · rintro ⟨n, h1, h2, h3⟩
    unfold accept
    have hv := visit_reach g hw na h tl hh ht n h1
    have : (visit (g.nodes.length * g.nodes.length + 1) g tl h []).any
        (fun n => isFuture g n && !eqNode g n tl) = true := by
      apply List.any_eq_true.mpr
      refine ⟨n, hv, ?_⟩
      simp only [Bool.and_eq_true, Bool.not_eq_true', h2, true_and]
      cases he : eqNode g n tl with
      | false => rfl
      | true => exact absurd (eqNode_of_noAlias na he) h3
    rw [if_pos this]

theorem accept_none_or (g : G) (h tl : Nat) : accept g h tl = none ∨ accept g h tl = some .futures := by
  unfold accept; split
  · exact .inr rfl
  · exact .inl rfl

end ForML.Graph
