/-
Helper lemmas for C05, several writers: from one registry call to interleaved histories of handles in processes
(`playH`): every operation of every handle amounts to one `Act` on the shared tree whose addressed release is listed
at that moment; the invariants of the shared tree and of the process-wide tag caches along any history.
-/
import ForML.Lemmas.C05Handles

namespace ForML.Registry
open ForML.Fs

/-! ### key resolution -/

theorem latestRel_listed (fs : Fs) (p v : Nat) (h : latestRel fs p = some v) : relListed fs p v = true := by
  have hne : releasesOf fs p ≠ [] := by intro e; simp [latestRel, e, maxOf] at h
  obtain ⟨m, hm, hin⟩ := mem_maxOf _ hne
  simp only [latestRel] at h
  rw [h] at hm; cases hm
  exact (mem_releasesOf fs p v).mp hin

theorem latestGen_valid (fs : Fs) (p v g : Nat) (h : latestGen fs p v = some g) : genValid fs p v g = true := by
  have hne : generationsOf fs p v ≠ [] := by intro e; simp [latestGen, e, maxOf] at h
  obtain ⟨m, hm, hin⟩ := mem_maxOf _ hne
  simp only [latestGen] at h
  rw [h] at hm; cases hm
  exact (mem_generationsOf fs p v g).mp hin

/-- a resolved release key is listed — whether it was given, remembered or just looked up -/
theorem resolveRel_ok (fs : Fs) (x : Handle) (v : Nat) (h : (resolveRel fs x).2 = .ok v) :
    relListed fs x.proj v = true ∧ (resolveRel fs x).1.rel = some v ∧ (resolveRel fs x).1.proj = x.proj
      ∧ (resolveRel fs x).1.proc = x.proc := by
  cases hpl : projListed fs x.proj with
  | false => simp [resolveRel, hpl] at h
  | true =>
    cases hr : x.rel with
    | some w =>
      cases hl : relListed fs x.proj w with
      | false => simp [resolveRel, hpl, hr, hl] at h
      | true =>
        have e : resolveRel fs x = (x, .ok w) := by simp [resolveRel, hpl, hr, hl]
        rw [e] at h ⊢
        cases h
        exact ⟨hl, hr, rfl, rfl⟩
    | none =>
      cases hm : latestRel fs x.proj with
      | none => simp [resolveRel, hpl, hr, hm] at h
      | some w =>
        have e : resolveRel fs x = ({ x with rel := some w }, .ok w) := by simp [resolveRel, hpl, hr, hm]
        rw [e] at h ⊢
        cases h
        exact ⟨latestRel_listed fs x.proj _ hm, rfl, rfl, rfl⟩

theorem resolveRel_fields (fs : Fs) (x : Handle) :
    (resolveRel fs x).1.proj = x.proj ∧ (resolveRel fs x).1.proc = x.proc ∧ (resolveRel fs x).1.gen = x.gen
      ∧ (resolveRel fs x).1.acc = x.acc ∧ (resolveRel fs x).1.dumped = x.dumped ∧ (resolveRel fs x).1.done = x.done := by
  cases hpl : projListed fs x.proj with
  | false => simp [resolveRel, hpl]
  | true =>
    cases hr : x.rel with
    | some w => simp [resolveRel, hpl, hr]
    | none =>
      cases hm : latestRel fs x.proj with
      | none => simp [resolveRel, hpl, hr, hm]
      | some w => simp [resolveRel, hpl, hr, hm]

theorem resolveGen_ok (fs : Fs) (p v : Nat) (x : Handle) (g : Nat) (h : (resolveGen fs p v x).2 = .ok (some g)) :
    genValid fs p v g = true := by
  cases hg : x.gen with
  | some g' =>
    cases hv : genValid fs p v g' with
    | false => simp [resolveGen, hg, hv] at h
    | true => simp only [resolveGen, hg, hv, if_true] at h; cases h; exact hv
  | none =>
    cases hm : latestGen fs p v with
    | none => simp [resolveGen, hg, hm] at h
    | some g' => simp only [resolveGen, hg, hm] at h; cases h; exact latestGen_valid fs p v _ hm

/-! ### the call an operation amounts to -/


/-- the registry call `perform` makes for the operation `op` of handle `h` -/
def actOf (w : World) (h : Nat) (op : HOp) : Act :=
  match op with
  | .open _ _ _ _ => .idle
  | .look => .idle
  | op =>
    match lookupH w.hs h with
    | none => .idle
    | some x =>
      match (plan w.fs x op).err with
      | some _ => .idle
      | none => (plan w.fs x op).act

theorem plan_ok (fs : Fs) (x : Handle) (op : HOp) (h : (plan fs x op).err = none) : ActOk fs (plan fs x op).act := by
  cases op with
  | «open» proc p v g => simp [plan, ActOk]
  | publish name v pkg => simp [plan, ActOk]
  | begin ord n => simp [plan, ActOk]
  | look => simp [plan, ActOk]
  | dump sid b =>
    cases ha : x.acc with
    | none => simp [plan, ha] at h
    | some a =>
      cases hr : resolveRel fs x with
      | mk x' r =>
        cases r with
        | error e => simp [plan, ha, hr] at h
        | ok v =>
          simp only [plan, ha, hr, ActOk]
          exact (resolveRel_ok fs x v (by rw [hr])).1
  | commit =>
    cases ha : x.acc with
    | none => simp [plan, ha] at h
    | some a =>
      obtain ⟨ord, n⟩ := a
      by_cases hn : x.sids.length ≠ n
      · simp [plan, ha, hn] at h
      · cases hr : resolveRel fs x with
        | mk x' r =>
          cases r with
          | error e => simp [plan, ha, hn, hr] at h
          | ok v =>
            simp only [plan, ha, hn, hr, if_false, ActOk]
            exact (resolveRel_ok fs x v (by rw [hr])).1

theorem actOf_general (w : World) (h : Nat) (op : HOp) (hop : ∀ proc p v g, op ≠ .open proc p v g) (hlook : op ≠ .look) :
    actOf w h op =
      match lookupH w.hs h with
      | none => Act.idle
      | some x => match (plan w.fs x op).err with
        | some _ => Act.idle
        | none => (plan w.fs x op).act := by
  cases op with
  | «open» proc p v g => exact absurd rfl (hop proc p v g)
  | look => exact absurd rfl hlook
  | publish name v pkg => rfl
  | begin ord n => rfl
  | dump sid b => rfl
  | commit => rfl

theorem actOf_ok (w : World) (h : Nat) (op : HOp) : ActOk w.fs (actOf w h op) := by
  by_cases hop : ∃ proc p v g, op = .open proc p v g
  · obtain ⟨proc, p, v, g, rfl⟩ := hop; trivial
  · by_cases hlook : op = .look
    · subst hlook; trivial
    · have hop' : ∀ proc p v g, op ≠ .open proc p v g := fun proc p v g e => hop ⟨proc, p, v, g, e⟩
      rw [actOf_general w h op hop' hlook]
      cases hl : lookupH w.hs h with
      | none => trivial
      | some x =>
        dsimp only
        cases he : (plan w.fs x op).err with
        | some e => trivial
        | none => dsimp only; exact plan_ok w.fs x op he

/-- reading the states after the tag only extends the STATES cache -/
theorem lookOn_eq (w : World) (h : Nat) (x : Handle) :
    (lookOn w h x).w.fs = (lookTag w h x).w.fs ∧ (lookOn w h x).w.hs = (lookTag w h x).w.hs
      ∧ (lookOn w h x).w.tags = (lookTag w h x).w.tags ∧ (lookOn w h x).calls = (lookTag w h x).calls
      ∧ (lookOn w h x).err = (lookTag w h x).err ∧ (lookOn w h x).look = (lookTag w h x).look := by
  simp only [lookOn]
  cases hl : (lookTag w h x).look with
  | none => simp [hl]
  | some ot =>
    cases ot with
    | none => simp [hl]
    | some t =>
      cases boundGen w.fs x with
      | none => simp [hl]
      | some vg => simp

theorem lookTag_fs (w : World) (h : Nat) (x : Handle) : (lookTag w h x).w.fs = w.fs ∧ (lookTag w h x).calls = [] := by
  unfold lookTag
  split
  · simp
  · split
    · simp
    · simp
    · split
      · simp
      · split <;> simp

theorem lookOn_fs (w : World) (h : Nat) (x : Handle) : (lookOn w h x).w.fs = w.fs ∧ (lookOn w h x).calls = [] := by
  rw [(lookOn_eq w h x).1, (lookOn_eq w h x).2.2.2.1]; exact lookTag_fs w h x

theorem perform_general (w : World) (h : Nat) (op : HOp) (hop : ∀ proc p v g, op ≠ .open proc p v g) (hlook : op ≠ .look) :
    perform Impl.repaired w h op =
      match lookupH w.hs h with
      | none => ⟨w, [], some .dead, none⟩
      | some x =>
        match (plan w.fs x op).err with
        | some e => ⟨{ w with hs := setH w.hs h (plan w.fs x op).x }, [], some e, none⟩
        | none =>
          let o := runAct Impl.repaired w.fs (plan w.fs x op).act
          ⟨{ w with fs := o.fs, hs := setH w.hs h (if o.err.isNone then afterOk (plan w.fs x op).x op else (plan w.fs x op).x) },
            o.calls, actErr Impl.repaired w.fs (plan w.fs x op).act, none⟩ := by
  cases op with
  | «open» proc p v g => exact absurd rfl (hop proc p v g)
  | look => exact absurd rfl hlook
  | publish name v pkg => simp only [perform]; cases lookupH w.hs h <;> rfl
  | begin ord n => simp only [perform]; cases lookupH w.hs h <;> rfl
  | dump sid b => simp only [perform]; cases lookupH w.hs h <;> rfl
  | commit => simp only [perform]; cases lookupH w.hs h <;> rfl

/-- the shared tree after an operation = the tree after its registry call; so are the recorded micro-operations -/
theorem perform_act (w : World) (h : Nat) (op : HOp) :
    (perform Impl.repaired w h op).w.fs = (runAct Impl.repaired w.fs (actOf w h op)).fs
      ∧ (perform Impl.repaired w h op).calls = (runAct Impl.repaired w.fs (actOf w h op)).calls := by
  by_cases hop : ∃ proc p v g, op = .open proc p v g
  · obtain ⟨proc, p, v, g, rfl⟩ := hop
    simp only [perform, actOf, runAct]
    split <;> simp
  · by_cases hlook : op = .look
    · subst hlook
      simp only [perform, actOf, runAct]
      cases lookupH w.hs h with
      | none => simp
      | some x => exact lookOn_fs w h x
    · have hop' : ∀ proc p v g, op ≠ .open proc p v g := fun proc p v g e => hop ⟨proc, p, v, g, e⟩
      rw [perform_general w h op hop' hlook, actOf_general w h op hop' hlook]
      cases lookupH w.hs h with
      | none => simp [runAct]
      | some x =>
        dsimp only
        cases he : (plan w.fs x op).err with
        | some e => simp [runAct]
        | none => simp

theorem actErr_none (impl : Impl) (fs : Fs) (a : Act) : actErr impl fs a = none ↔ (runAct impl fs a).err = none := by
  unfold actErr
  split
  · rename_i h; simp [h]
  · rename_i e h
    simp only [h]
    cases a <;> simp

/-- an operation that reports success has completed its registry call -/
theorem perform_ok (w : World) (h : Nat) (op : HOp) (hok : (perform Impl.repaired w h op).err = none) :
    (runAct Impl.repaired w.fs (actOf w h op)).err = none := by
  by_cases hop : ∃ proc p v g, op = .open proc p v g
  · obtain ⟨proc, p, v, g, rfl⟩ := hop; simp [actOf, runAct]
  · by_cases hlook : op = .look
    · subst hlook; simp [actOf, runAct]
    · have hop' : ∀ proc p v g, op ≠ .open proc p v g := fun proc p v g e => hop ⟨proc, p, v, g, e⟩
      rw [perform_general w h op hop' hlook] at hok
      rw [actOf_general w h op hop' hlook]
      cases hl : lookupH w.hs h with
      | none => simp [runAct]
      | some x =>
        rw [hl] at hok
        dsimp only at hok ⊢
        cases he : (plan w.fs x op).err with
        | some e => simp [runAct]
        | none =>
          simp only [he] at hok ⊢
          exact (actErr_none _ _ _).mp hok

/-- an operation that raises either made no registry call or its registry call failed -/
theorem perform_fail (w : World) (h : Nat) (op : HOp) (hne : (perform Impl.repaired w h op).err ≠ none) :
    (runAct Impl.repaired w.fs (actOf w h op)).err ≠ none ∨ actOf w h op = .idle := by
  by_cases hop : ∃ proc p v g, op = .open proc p v g
  · obtain ⟨proc, p, v, g, rfl⟩ := hop; exact Or.inr rfl
  · by_cases hlook : op = .look
    · subst hlook; exact Or.inr rfl
    · have hop' : ∀ proc p v g, op ≠ .open proc p v g := fun proc p v g e => hop ⟨proc, p, v, g, e⟩
      rw [perform_general w h op hop' hlook] at hne
      rw [actOf_general w h op hop' hlook]
      cases hl : lookupH w.hs h with
      | none => exact Or.inr rfl
      | some x =>
        rw [hl] at hne
        dsimp only at hne ⊢
        cases he : (plan w.fs x op).err with
        | some e => exact Or.inr rfl
        | none =>
          simp only [he] at hne ⊢
          exact Or.inl (fun hn => hne ((actErr_none _ _ _).mpr hn))

/-- what a successful operation other than `open` / `look` went through: the handle exists, nothing was refused before
the registry call, and the call completed -/
theorem perform_ok_plan (w : World) (h : Nat) (op : HOp) (hop : ∀ proc p v g, op ≠ .open proc p v g) (hlook : op ≠ .look)
    (hok : (perform Impl.repaired w h op).err = none) :
    ∃ x, lookupH w.hs h = some x ∧ (plan w.fs x op).err = none
      ∧ (runAct Impl.repaired w.fs (plan w.fs x op).act).err = none
      ∧ (perform Impl.repaired w h op).w.fs = (runAct Impl.repaired w.fs (plan w.fs x op).act).fs := by
  rw [perform_general w h op hop hlook] at hok ⊢
  cases hl : lookupH w.hs h with
  | none => rw [hl] at hok; simp at hok
  | some x =>
    rw [hl] at hok
    dsimp only at hok ⊢
    cases he : (plan w.fs x op).err with
    | some e => simp [he] at hok
    | none =>
      simp only [he] at hok ⊢
      exact ⟨x, rfl, he, (actErr_none _ _ _).mp hok, rfl⟩

theorem plan_commit_ok (fs : Fs) (x : Handle) (h : (plan fs x .commit).err = none) :
    ∃ ord v, x.acc = some (ord, x.sids.length) ∧ (resolveRel fs x).2 = .ok v
      ∧ (plan fs x .commit).act = .close x.proj v ord x.sids := by
  cases ha : x.acc with
  | none => simp [plan, ha] at h
  | some a =>
    obtain ⟨ord, n⟩ := a
    by_cases hn : x.sids.length ≠ n
    · simp [plan, ha, hn] at h
    · have hn' : x.sids.length = n := by omega
      cases hr : resolveRel fs x with
      | mk x' r =>
        cases r with
        | error e => simp [plan, ha, hn, hr] at h
        | ok v =>
          refine ⟨ord, v, by rw [hn'], rfl, ?_⟩
          simp [plan, ha, hn, hr]

theorem plan_dump_ok (fs : Fs) (x : Handle) (sid : Nat) (b : Bytes) (h : (plan fs x (.dump sid b)).err = none) :
    ∃ v, (resolveRel fs x).2 = .ok v ∧ (plan fs x (.dump sid b)).act = .write x.proj v sid b := by
  cases ha : x.acc with
  | none => simp [plan, ha] at h
  | some a =>
    cases hr : resolveRel fs x with
    | mk x' r =>
      cases r with
      | error e => simp [plan, ha, hr] at h
      | ok v => exact ⟨v, rfl, by simp [plan, ha, hr]⟩

theorem killProc_fs (w : World) (proc : Nat) : (killProc w proc).fs = w.fs := rfl

/-- whatever an event does to the shared tree is what one registry call — on a listed release — leaves behind, at its
end, at some crash point, or where a transient fault makes it raise -/
theorem applyH_left (w : World) (e : HEv) :
    ∃ a, ActOk w.fs a ∧ LeftByActF w.fs a (applyH Impl.repaired w e).fs := by
  cases e with
  | run h op =>
    exact ⟨actOf w h op, actOf_ok w h op, Or.inl (Or.inl (perform_act w h op).1)⟩
  | die h op k cut =>
    simp only [applyH]
    split
    · exact ⟨.idle, trivial, Or.inl (Or.inl rfl)⟩
    · refine ⟨actOf w h op, actOf_ok w h op, Or.inl (Or.inr ⟨k, cut, ?_⟩)⟩
      simp only [killProc_fs, (perform_act w h op).2]
  | fault h op j =>
    simp only [applyH]
    split
    · exact ⟨.idle, trivial, Or.inl (Or.inl rfl)⟩
    · refine ⟨actOf w h op, actOf_ok w h op, Or.inr ⟨j, ?_⟩⟩
      simp only [faultTree, (perform_act w h op).2]

/-! ### invariants along a history -/

theorem playH_append (impl : Impl) (w : World) (evs evs' : List HEv) :
    playH impl w (evs ++ evs') = playH impl (playH impl w evs) evs' := by
  induction evs generalizing w with
  | nil => rfl
  | cons e r ih => simp only [List.cons_append, playH]; exact ih _

theorem applyH_good2 (w : World) (g2 : Good2 w.fs) (e : HEv) : Good2 (applyH Impl.repaired w e).fs := by
  obtain ⟨a, ok, hl⟩ := applyH_left w e
  exact (act_left_F w.fs g2 a ok _ hl).1

theorem playH_good2_from (evs : List HEv) : ∀ w, Good2 w.fs → Good2 (playH Impl.repaired w evs).fs := by
  induction evs with
  | nil => intro w g; exact g
  | cons e r ih => intro w g; exact ih _ (applyH_good2 w g e)

/-- the shared tree after any interleaved history is well formed, healthy, gap-free and holds only plain state files -/
theorem playH_good2 (evs : List HEv) : Good2 (playH Impl.repaired World.empty evs).fs :=
  playH_good2_from evs _ empty_good2

theorem applyH_append_only (w : World) (g2 : Good2 w.fs) (e : HEv) (key : Path) (n : Node)
    (hvis : vis w.fs key = some n) : vis (applyH Impl.repaired w e).fs key = some n := by
  obtain ⟨a, ok, hl⟩ := applyH_left w e
  exact act_append_only_F w.fs g2 a ok _ hl key n hvis

/-- **cache coherence**: every tag a process has cached is the tag a fresh reader reads for that generation -/
def TagsOk (w : World) : Prop :=
  ∀ e ∈ w.tags, ∃ b, vis w.fs (tagP e.2.1.1 e.2.1.2.1 e.2.1.2.2) = some (.file b) ∧ decodeTag b = some e.2.2

theorem lookupTag_mem (tags : List (Nat × (Nat × Nat × Nat) × Tag)) (proc : Nat) (key : Nat × Nat × Nat) (t : Tag)
    (h : lookupTag tags proc key = some t) : (proc, key, t) ∈ tags := by
  induction tags with
  | nil => simp [lookupTag] at h
  | cons e r ih =>
    simp only [lookupTag] at h
    split at h
    · rename_i hc; cases h
      have : e = (proc, key, e.2.2) := by
        obtain ⟨e1, e2, e3⟩ := e
        simp only at hc; simp [hc.1, hc.2]
      rw [this]; simp
    · exact List.mem_cons_of_mem _ (ih h)

theorem vis_tag_of (fs : Fs) (p v g : Nat) (t : Tag) (hl : relListed fs p v = true) (hg : genValid fs p v g = true)
    (ht : tagOf fs p v g = some t) : ∃ b, vis fs (tagP p v g) = some (.file b) ∧ decodeTag b = some t := by
  unfold tagOf at ht
  split at ht
  · rename_i b hb
    exact ⟨b, by simp only [vis, tagP, genListed, hl, hg, Bool.and_self, if_true]; exact hb, ht⟩
  · cases ht

theorem tagOf_of_vis (fs : Fs) (p v g : Nat) (b : Bytes) (t : Tag) (hv : vis fs (tagP p v g) = some (.file b))
    (hd : decodeTag b = some t) : genListed fs p v g = true ∧ tagOf fs p v g = some t := by
  simp only [vis, tagP] at hv
  split at hv
  · rename_i hl
    refine ⟨hl, ?_⟩
    simp only [tagOf, tagP, hv]; exact hd
  · cases hv

/-- the tag caches after an operation: the old entries, and possibly the tag just read from the tree -/
theorem perform_tags (w : World) (h : Nat) (op : HOp) (e : Nat × (Nat × Nat × Nat) × Tag)
    (he : e ∈ (perform Impl.repaired w h op).w.tags) :
    e ∈ w.tags ∨ ((perform Impl.repaired w h op).w.fs = w.fs
      ∧ relListed w.fs e.2.1.1 e.2.1.2.1 = true ∧ genValid w.fs e.2.1.1 e.2.1.2.1 e.2.1.2.2 = true
      ∧ tagOf w.fs e.2.1.1 e.2.1.2.1 e.2.1.2.2 = some e.2.2) := by
  by_cases hop : ∃ proc p v g, op = .open proc p v g
  · obtain ⟨proc, p, v, g, rfl⟩ := hop
    simp only [perform] at he
    split at he <;> exact Or.inl he
  · by_cases hlook : op = .look
    · subst hlook
      simp only [perform] at he ⊢
      cases hl : lookupH w.hs h with
      | none => rw [hl] at he; exact Or.inl he
      | some x =>
        rw [hl] at he
        simp only at he ⊢
        have hfs := (lookOn_fs w h x).1
        rw [(lookOn_eq w h x).2.2.1] at he
        unfold lookTag at he
        cases hr : resolveRel w.fs x with
        | mk x1 r =>
          rw [hr] at he
          cases r with
          | error e' => exact Or.inl he
          | ok v =>
            have hlst := (resolveRel_ok w.fs x v (by rw [hr])).1
            simp only at he
            cases hg : resolveGen w.fs x.proj v x1 with
            | mk x2 rg =>
              rw [hg] at he
              cases rg with
              | error e' => exact Or.inl he
              | ok og =>
                cases og with
                | none => exact Or.inl he
                | some g =>
                  have hgv : genValid w.fs x.proj v g = true := resolveGen_ok w.fs x.proj v x1 g (by rw [hg])
                  simp only at he
                  cases hc : lookupTag w.tags x.proc (x.proj, v, g) with
                  | some t => rw [hc] at he; exact Or.inl he
                  | none =>
                    rw [hc] at he
                    simp only at he
                    cases ht : tagOf w.fs x.proj v g with
                    | none => rw [ht] at he; exact Or.inl he
                    | some t =>
                      rw [ht] at he
                      simp only [List.mem_cons] at he
                      rcases he with rfl | he
                      · exact Or.inr ⟨hfs, hlst, hgv, ht⟩
                      · exact Or.inl he
    · have hop' : ∀ proc p v g, op ≠ .open proc p v g := fun proc p v g e => hop ⟨proc, p, v, g, e⟩
      rw [perform_general w h op hop' hlook] at he
      cases hl : lookupH w.hs h with
      | none => rw [hl] at he; exact Or.inl he
      | some x =>
        rw [hl] at he
        cases hpe : (plan w.fs x op).err with
        | some e' => simp only [hpe] at he; exact Or.inl he
        | none => simp only [hpe] at he; exact Or.inl he

theorem applyH_tagsOk (w : World) (g2 : Good2 w.fs) (tk : TagsOk w) (e : HEv) : TagsOk (applyH Impl.repaired w e) := by
  intro en hen
  have keep : ∀ en ∈ w.tags, ∃ b, vis (applyH Impl.repaired w e).fs (tagP en.2.1.1 en.2.1.2.1 en.2.1.2.2) = some (.file b)
      ∧ decodeTag b = some en.2.2 := by
    intro en hin
    obtain ⟨b, hb, hd⟩ := tk en hin
    exact ⟨b, applyH_append_only w g2 e _ _ hb, hd⟩
  cases e with
  | run h op =>
    simp only [applyH] at hen ⊢
    rcases perform_tags w h op en hen with hin | ⟨hfs, hl, hg, ht⟩
    · exact keep en hin
    · rw [hfs]; exact vis_tag_of w.fs _ _ _ _ hl hg ht
  | die h op k cut =>
    simp only [applyH] at hen
    split at hen
    · exact keep en hen
    · simp only [killProc, List.mem_filter] at hen
      exact keep en hen.1
  | fault h op j =>
    simp only [applyH] at hen
    split at hen
    · exact keep en hen
    · exact keep en hen

theorem playH_tagsOk_from (evs : List HEv) :
    ∀ w, Good2 w.fs → TagsOk w → TagsOk (playH Impl.repaired w evs) := by
  induction evs with
  | nil => intro w _ tk; exact tk
  | cons e r ih => intro w g tk; exact ih _ (applyH_good2 w g e) (applyH_tagsOk w g tk e)

theorem playH_tagsOk (evs : List HEv) : TagsOk (playH Impl.repaired World.empty evs) :=
  playH_tagsOk_from evs _ empty_good2 (by intro e he; cases he)

end ForML.Registry
