/-
Helper lemmas for the codec tables of C19, part 3 (core Lean only): whole columns through the `text/csv` writer and the reader's
type inference.
-/
import ForML.Lemmas.C19TableCsv

namespace ForML.Codec

/-! ### whole columns and the whole table through `text/csv` -/

theorem column_num_cells (c : Column) (hk : c.kind = .int ∨ c.kind = .float) (hcells : c.cells.all (Val.ofKind c.kind) = true) :
    ∀ v ∈ c.cells, NumCell v (csvCell (c.kind == .int && c.hasNull) v) := by
  intro v hv
  have hof := List.all_eq_true.mp hcells v hv
  cases v with
  | null => left; exact ⟨rfl, rfl⟩
  | int i =>
    rcases hk with hk | hk
    · rw [hk]
      cases hn : c.hasNull
      · exact numCell_int i
      · exact numCell_int_float i
    · rw [hk] at hof; simp [Val.ofKind] at hof
  | float neg d =>
    rcases hk with hk | hk
    · rw [hk] at hof; simp [Val.ofKind] at hof
    · rw [hk]; exact numCell_float neg d
  | text s => rcases hk with hk | hk <;> (rw [hk] at hof; simp [Val.ofKind] at hof)
  | bool b => rcases hk with hk | hk <;> (rw [hk] at hof; simp [Val.ofKind] at hof)
  | inf n => rcases hk with hk | hk <;> (rw [hk] at hof; simp [Val.ofKind] at hof)

theorem readColumn_numbers (texts : List Str) (h : inferKind texts = .numbers) :
    readColumn texts = texts.map fun f => if isNA f then .null else readNumber f := by
  unfold readColumn; rw [h]

theorem boolText_facts (b : Bool) :
    isNA (csvCell false (.bool b)) = false ∧ looksNumber (csvCell false (.bool b)) = false ∧
    looksBool (csvCell false (.bool b)) = true ∧ (lower (csvCell false (.bool b)) == "true".toList) = b := by
  cases b <;> decide +kernel

theorem column_bool (c : Column) (hk : c.kind = .bool) (hcells : c.cells.all (Val.ofKind c.kind) = true)
    (hnn : c.cells.any (· != .null) = true) : sameCells (readColumn c.csvTexts) c.cells = true := by
  have htexts : c.csvTexts = c.cells.map (csvCell false) := by
    unfold Column.csvTexts; rw [hk]; rfl
  -- every cell is a boolean or missing
  have hshape : ∀ v ∈ c.cells, v = .null ∨ ∃ b, v = .bool b := by
    intro v hv
    have := List.all_eq_true.mp hcells v hv
    rw [hk] at this
    cases v <;> simp [Val.ofKind] at this ⊢
  have hnull : csvCell false .null = [] := rfl
  have hpresent : ∀ f ∈ (c.cells.map (csvCell false)).filter (fun f => !isNA f), ∃ b, f = csvCell false (.bool b) := by
    intro f hf
    rw [List.mem_filter, List.mem_map] at hf
    obtain ⟨⟨v, hv, rfl⟩, hna⟩ := hf
    rcases hshape v hv with rfl | ⟨b, rfl⟩
    · rw [hnull, isNA_nil] at hna; simp at hna
    · exact ⟨b, rfl⟩
  have hkind : inferKind (c.cells.map (csvCell false)) = .bools := by
    unfold inferKind
    obtain ⟨v, hv, hvn⟩ := List.any_eq_true.mp hnn
    have hvn' : v ≠ .null := by simpa using hvn
    obtain ⟨b, rfl⟩ : ∃ b, v = .bool b := by
      rcases hshape v hv with h | h
      · exact absurd h hvn'
      · exact h
    have hmem : csvCell false (.bool b) ∈ (c.cells.map (csvCell false)).filter (fun f => !isNA f) := by
      rw [List.mem_filter]
      refine ⟨List.mem_map.mpr ⟨_, hv, rfl⟩, ?_⟩
      rw [(boolText_facts b).1]; rfl
    have hnum : ((c.cells.map (csvCell false)).filter (fun f => !isNA f)).all looksNumber = false := by
      rw [List.all_eq_false]
      exact ⟨_, hmem, by rw [(boolText_facts b).2.1]; simp⟩
    have hbool : ((c.cells.map (csvCell false)).filter (fun f => !isNA f)).all looksBool = true := by
      rw [List.all_eq_true]
      intro f hf
      obtain ⟨b', rfl⟩ := hpresent f hf
      exact (boolText_facts b').2.2.1
    simp only [hnum, hbool, Bool.false_eq_true, if_false, if_true]
  rw [htexts]
  unfold readColumn
  rw [hkind]
  simp only
  suffices h : ∀ cells : List Val, (∀ v ∈ cells, v = .null ∨ ∃ b, v = .bool b) →
      sameCells ((cells.map (csvCell false)).map fun f => if isNA f then .null else .bool (lower f == "true".toList)) cells = true from
    h c.cells hshape
  intro cells hsh
  induction cells with
  | nil => rfl
  | cons v r ih =>
    simp only [List.map_cons, sameCells, Bool.and_eq_true]
    refine ⟨?_, ih (fun x hx => hsh x (List.mem_cons_of_mem _ hx))⟩
    rcases hsh v (by simp) with rfl | ⟨b, rfl⟩
    · rw [hnull, isNA_nil]; rfl
    · rw [(boolText_facts b).1, (boolText_facts b).2.2.2]
      simp [Val.same]

theorem column_str (c : Column) (hk : c.kind = .str) (hcells : c.cells.all (Val.ofKind c.kind) = true)
    (hkept : c.csvTextKept = true) : sameCells (readColumn c.csvTexts) c.cells = true := by
  have htexts : c.csvTexts = c.cells.map (csvCell false) := by
    unfold Column.csvTexts; rw [hk]; rfl
  unfold Column.csvTextKept at hkept
  simp only [Bool.and_eq_true, Bool.not_eq_true', beq_iff_eq] at hkept
  obtain ⟨hna, hkind⟩ := hkept
  have hshape : ∀ v ∈ c.cells, v = .null ∨ ∃ s, v = .text s ∧ isNA s = false := by
    intro v hv
    have := List.all_eq_true.mp hcells v hv
    rw [hk] at this
    cases v with
    | text s =>
      right
      refine ⟨s, rfl, ?_⟩
      have := List.any_eq_false.mp hna s (List.mem_filterMap.mpr ⟨.text s, hv, rfl⟩)
      simpa using this
    | null => left; rfl
    | _ => simp [Val.ofKind] at this
  rw [htexts]
  unfold readColumn
  rw [hkind]
  simp only
  suffices h : ∀ cells : List Val, (∀ v ∈ cells, v = .null ∨ ∃ s, v = .text s ∧ isNA s = false) →
      sameCells ((cells.map (csvCell false)).map fun f => if isNA f then .null else .text f) cells = true from
    h c.cells hshape
  intro cells hsh
  induction cells with
  | nil => rfl
  | cons v r ih =>
    simp only [List.map_cons, sameCells, Bool.and_eq_true]
    refine ⟨?_, ih (fun x hx => hsh x (List.mem_cons_of_mem _ hx))⟩
    rcases hsh v (by simp) with rfl | ⟨s, rfl, hs⟩
    · have : csvCell false .null = [] := rfl
      rw [this, isNA_nil]; rfl
    · have : csvCell false (.text s) = s := rfl
      rw [this, hs]; simp [Val.same]

/-- one column: what the reader's inference makes of the written fields is the column, cell by cell the same value -/
theorem column_csv (c : Column) (hcells : c.cells.all (Val.ofKind c.kind) = true) (hnn : c.cells.any (· != .null) = true)
    (hs : c.kind = .str → c.csvTextKept = true) : sameCells (readColumn c.csvTexts) c.cells = true := by
  cases hk : c.kind with
  | int =>
    have h := numColumn_read c.cells _ (column_num_cells c (Or.inl hk) hcells)
    unfold Column.csvTexts
    rw [readColumn_numbers _ h.1]; exact h.2
  | float =>
    have h := numColumn_read c.cells _ (column_num_cells c (Or.inr hk) hcells)
    unfold Column.csvTexts
    rw [readColumn_numbers _ h.1]; exact h.2
  | bool => exact column_bool c hk hcells hnn
  | str => exact column_str c hk hcells (hs hk)

end ForML.Codec
