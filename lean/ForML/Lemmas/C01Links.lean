/-
C01 — which link operations `segment.accept(table)` performs (characterisation by membership) and why no two of
them hit the same slot (`Link collision` never fires in a well-formed segment).
-/
import ForML.Lemmas.C01Abs
import ForML.Lemmas.C01Spec

namespace ForML.Flow
open CState Segment

/-- the links (target key, slot, argument) established when visiting worker `w` -/
inductive LinkSpec (g : Segment) (A : Option Assets) (w : Worker) : Key → Nat → Key → Prop where
  | dumper : g.isTrainer w = true → persistentW A w = true → LinkSpec g A w (.dumper w.uid) 0 (.uid w.uid)
  | committer (off : Nat) : g.isTrainer w = true → persistentW A w = true → A.bind (·.offset w.gid) = some off →
      LinkSpec g A w .committer off (.dumper w.uid)
  | getter (i : Nat) : g.trained w.uid = false → w.szout ≠ 1 → i < w.szout →
      LinkSpec g A w (.getter w.uid i) 0 (.uid w.uid)
  | edge (e : Edge) : g.trained w.uid = false → e ∈ g.edges → e.pub = w.uid → e.pubPort < w.szout →
      LinkSpec g A w (.uid e.sub) e.subPort.index (if w.szout = 1 then .uid w.uid else .getter w.uid e.pubPort)

theorem mem_subscribers {g : Segment} {n : Uid} {i : Nat} {e : Edge} :
    e ∈ g.subscribers n i ↔ e ∈ g.edges ∧ e.pub = n ∧ e.pubPort = i := by
  simp [subscribers]

theorem updProg_links {g : Segment} {A : Option Assets} {w : Worker} (htr : g.trained w.uid = false) {op : Op}
    (hop : op ∈ updProg g w) {k : Key} {j : Nat} (ht : op.tgt = some (k, j)) : LinkSpec g A w k j op.src := by
  unfold updProg at hop
  split at hop
  · rename_i h1
    simp only [List.mem_map] at hop
    obtain ⟨e, he, rfl⟩ := hop
    obtain ⟨he1, he2, he3⟩ := mem_subscribers.mp he
    simp only [Op.tgt, Option.getD_some, Option.some.injEq, Prod.mk.injEq] at ht
    obtain ⟨rfl, rfl⟩ := ht
    have := LinkSpec.edge (A := A) e htr he1 he2 (by omega)
    simpa [h1, Op.src] using this
  · rename_i h1
    simp only [List.mem_flatMap, List.mem_range, List.mem_append, List.mem_cons, List.mem_map] at hop
    obtain ⟨i, hi, (rfl | rfl | h) | ⟨e, he, rfl⟩⟩ := hop
    · simp [Op.tgt] at ht
    · simp only [Op.tgt, Option.getD_none, Option.some.injEq, Prod.mk.injEq] at ht
      obtain ⟨rfl, rfl⟩ := ht
      exact LinkSpec.getter i htr h1 hi
    · cases h
    · obtain ⟨he1, he2, he3⟩ := mem_subscribers.mp he
      simp only [Op.tgt, Option.getD_some, Option.some.injEq, Prod.mk.injEq] at ht
      obtain ⟨rfl, rfl⟩ := ht
      have := LinkSpec.edge (A := A) e htr he1 he2 (by omega)
      simpa [h1, Op.src, he3] using this

theorem prog_links {g : Segment} {A : Option Assets} {w : Worker} {op : Op} (hop : op ∈ prog g A w) {k : Key} {j : Nat}
    (ht : op.tgt = some (k, j)) : LinkSpec g A w k j op.src := by
  unfold prog progHead at hop
  simp only [List.mem_append] at hop
  rcases hop with ((((hop | hop) | hop) | hop) | hop) | hop
  · simp only [List.mem_singleton] at hop; subst hop; simp [Op.tgt] at ht
  · split at hop
    · simp only [List.mem_singleton] at hop; subst hop; simp [Op.tgt] at ht
    · cases hop
  · unfold dumpProg at hop
    split at hop
    · rename_i hc
      simp only [Bool.and_eq_true] at hc
      simp only [List.mem_cons, List.mem_nil_iff, or_false] at hop
      rcases hop with rfl | rfl | rfl | rfl | rfl
      · simp [Op.tgt] at ht
      · simp [Op.tgt] at ht
      · simp only [Op.tgt, Option.getD_none, Option.some.injEq, Prod.mk.injEq] at ht
        obtain ⟨rfl, rfl⟩ := ht
        exact LinkSpec.dumper hc.1 hc.2
      · unfold commitOp at ht ⊢
        cases hoff : A.bind (·.offset w.gid) with
        | none => simp [hoff, Op.tgt] at ht
        | some off =>
          simp only [hoff, Op.tgt, Option.some.injEq, Prod.mk.injEq] at ht ⊢
          obtain ⟨rfl, rfl⟩ := ht
          exact LinkSpec.committer _ hc.1 hc.2 hoff
      · simp [Op.tgt] at ht
    · cases hop
  · split at hop
    · simp only [List.mem_singleton] at hop; subst hop; simp [Op.tgt] at ht
    · cases hop
  · split at hop
    · simp only [List.mem_cons, List.mem_nil_iff, or_false] at hop
      rcases hop with rfl | rfl <;> simp [Op.tgt] at ht
    · simp only [List.mem_singleton] at hop; subst hop; simp [Op.tgt] at ht
  · split at hop
    · cases hop
    · rename_i htr
      exact updProg_links (by simpa using htr) hop ht

/-- every specified link is performed -/
theorem links_complete {g : Segment} {A : Option Assets} {w : Worker} {k : Key} {j : Nat} {a : Key}
    (h : LinkSpec g A w k j a) : ∃ op ∈ prog g A w, op.tgt = some (k, j) ∧ op.src = a := by
  cases h with
  | dumper hT hP =>
    refine ⟨Op.linsert (.dumper w.uid) (.uid w.uid) none, ?_, rfl, rfl⟩
    simp [prog, progHead, dumpProg, hT, hP]
  | committer _ hT hP hoff =>
    refine ⟨Op.linsertC (.dumper w.uid) j, ?_, rfl, rfl⟩
    simp [prog, progHead, dumpProg, commitOp, hT, hP, hoff]
  | getter i htr hne hi =>
    refine ⟨Op.linsert (.getter w.uid i) (.uid w.uid) none, ?_, rfl, rfl⟩
    simp only [prog, List.mem_append, htr, Bool.false_eq_true, if_false]
    right
    simp only [updProg, hne, if_false, List.mem_flatMap, List.mem_range]
    exact ⟨i, hi, by simp⟩
  | edge e htr he hpub hlt =>
    by_cases h1 : w.szout = 1
    · refine ⟨Op.linsert (.uid e.sub) (.uid w.uid) (some e.subPort.index), ?_, rfl, by simp [Op.src, h1]⟩
      simp only [prog, List.mem_append, htr, Bool.false_eq_true, if_false]
      right
      simp only [updProg, h1, if_true, List.mem_map]
      exact ⟨e, mem_subscribers.mpr ⟨he, hpub, by omega⟩, rfl⟩
    · refine ⟨Op.linsert (.uid e.sub) (.getter w.uid e.pubPort) (some e.subPort.index), ?_, rfl, by simp [Op.src, h1]⟩
      simp only [prog, List.mem_append, htr, Bool.false_eq_true, if_false]
      right
      simp only [updProg, h1, if_false, List.mem_flatMap, List.mem_range]
      refine ⟨e.pubPort, hlt, ?_⟩
      simp only [List.mem_append, List.mem_cons, List.mem_map]
      exact Or.inr ⟨e, mem_subscribers.mpr ⟨he, hpub, rfl⟩, rfl⟩

/-! ### distinct targets -/

/-- target of the link an edge gives rise to -/
def edgeTgt (e : Edge) : Key × Nat := (.uid e.sub, e.subPort.index)

theorem nodup_map_of_imp {α β γ : Type} {l : List α} {f1 : α → β} {f2 : α → γ} (h : (l.map f1).Nodup)
    (himp : ∀ a ∈ l, ∀ b ∈ l, f2 a = f2 b → f1 a = f1 b) : (l.map f2).Nodup := by
  rw [List.Nodup, List.pairwise_map] at h ⊢
  exact h.imp_of_mem (fun ha hb hne heq => hne (himp _ ha _ hb heq))

/-- no two subscriptions hit the same argument slot: a port has one publisher, and a node is subscribed either on
its apply ports or on train/label -/
theorem edgeTgt_nodup {g : Segment} {rank : Uid → Nat} (h : WF g rank) : (g.edges.map edgeTgt).Nodup := by
  apply nodup_map_of_imp h.ports
  intro e he e' he' heq
  simp only [edgeTgt, Prod.mk.injEq, Key.uid.injEq] at heq
  obtain ⟨hsub, hidx⟩ := heq
  simp only [Prod.mk.injEq]
  refine ⟨hsub, ?_⟩
  -- a trained subscriber has no apply subscription
  have hkind : ∀ a ∈ g.edges, ∀ b ∈ g.edges, a.sub = b.sub → a.subPort.isApply = true → b.subPort.isApply = true := by
    intro a ha b hb hab hA
    cases hB : b.subPort.isApply with
    | true => rfl
    | false =>
      obtain ⟨s, hs, _⟩ := (h.edge b hb).sub
      obtain ⟨hsm, hsu⟩ := worker?_some hs
      have htr : g.trained s.uid = true := trained_iff.mpr ⟨b, hb, hsu.symm, hB⟩
      have := (h.trainedOK hsm htr).noApply a ha (by rw [hab, hsu])
      rw [hA] at this; cases this
  cases hp : e.subPort with
  | apply i =>
    cases hp' : e'.subPort with
    | apply i' => simp only [hp, hp', InPort.index] at hidx; rw [hidx]
    | train => exfalso; have := hkind e he e' he' hsub (by rw [hp]; rfl); rw [hp'] at this; cases this
    | label => exfalso; have := hkind e he e' he' hsub (by rw [hp]; rfl); rw [hp'] at this; cases this
  | train =>
    cases hp' : e'.subPort with
    | apply i' => exfalso; have := hkind e' he' e he hsub.symm (by rw [hp']; rfl); rw [hp] at this; cases this
    | train => rfl
    | label => simp [hp, hp', InPort.index] at hidx
  | label =>
    cases hp' : e'.subPort with
    | apply i' => exfalso; have := hkind e' he' e he hsub.symm (by rw [hp']; rfl); rw [hp] at this; cases this
    | train => simp [hp, hp', InPort.index] at hidx
    | label => rfl

theorem edgeTgt_inj {g : Segment} {rank : Uid → Nat} (h : WF g rank) {e e' : Edge} (he : e ∈ g.edges) (he' : e' ∈ g.edges)
    (heq : edgeTgt e = edgeTgt e') : e = e' :=
  eq_of_nodup_map edgeTgt (edgeTgt_nodup h) he he' heq

/-- two operations do not link into the same slot -/
def Lk (a b : Op) : Prop := ∀ x, a.tgt = some x → ∀ y, b.tgt = some y → x ≠ y

theorem Lk_of_none_left {a b : Op} (h : a.tgt = none) : Lk a b := fun x hx => by rw [h] at hx; cases hx
theorem Lk_of_none_right {a b : Op} (h : b.tgt = none) : Lk a b := fun x _ y hy => by rw [h] at hy; cases hy

theorem pairwise_Lk_nolink {l : List Op} (h : ∀ op ∈ l, op.tgt = none) : l.Pairwise Lk := by
  apply List.pairwise_of_forall_mem_list
  intro a ha b _
  exact Lk_of_none_left (h a ha)

theorem pairwise_Lk_append {l1 l2 : List Op} (h1 : l1.Pairwise Lk) (h2 : l2.Pairwise Lk)
    (hx : ∀ a ∈ l1, ∀ b ∈ l2, Lk a b) : (l1 ++ l2).Pairwise Lk :=
  List.pairwise_append.mpr ⟨h1, h2, hx⟩

theorem subscribers_links_pairwise {g : Segment} {rank : Uid → Nat} (h : WF g rank) (n : Uid) (i : Nat) (src : Key) :
    ((g.subscribers n i).map (fun e => Op.linsert (.uid e.sub) src (some e.subPort.index))).Pairwise Lk := by
  rw [List.pairwise_map]
  have hnd : ((g.subscribers n i).map edgeTgt).Nodup := by
    apply List.Nodup.sublist _ (edgeTgt_nodup h)
    exact List.Sublist.map _ List.filter_sublist
  rw [List.Nodup, List.pairwise_map] at hnd
  apply hnd.imp
  intro e e' hne x hx y hy
  simp only [Op.tgt, Option.getD_some, Option.some.injEq] at hx hy
  subst hx hy
  exact hne

theorem updProg_pairwise {g : Segment} {rank : Uid → Nat} (h : WF g rank) (w : Worker) :
    (updProg g w).Pairwise Lk := by
  unfold updProg
  split
  · exact subscribers_links_pairwise h _ _ _
  · rw [List.pairwise_flatMap]
    constructor
    · intro i _
      simp only [List.cons_append, List.nil_append]
      refine List.pairwise_cons.mpr ⟨fun b _ => Lk_of_none_left rfl, List.pairwise_cons.mpr ⟨?_, ?_⟩⟩
      · intro b hb
        simp only [List.mem_map] at hb
        obtain ⟨e, _, rfl⟩ := hb
        intro x hx y hy
        simp only [Op.tgt, Option.getD_none, Option.getD_some, Option.some.injEq] at hx hy
        subst hx hy
        simp
      · exact subscribers_links_pairwise h _ _ _
    · apply List.nodup_range.imp_of_mem
      intro i i' _ _ hne a ha b hb x hx y hy
      simp only [List.cons_append, List.nil_append, List.mem_cons, List.mem_map] at ha hb
      rcases ha with rfl | rfl | ⟨e, he, rfl⟩
      · cases hx
      · rcases hb with rfl | rfl | ⟨e', he', rfl⟩
        · cases hy
        · simp only [Op.tgt, Option.getD_none, Option.some.injEq] at hx hy
          subst hx hy
          simp only [ne_eq, Prod.mk.injEq, Key.getter.injEq, true_and, and_true]
          exact hne
        · simp only [Op.tgt, Option.getD_none, Option.getD_some, Option.some.injEq] at hx hy
          subst hx hy; simp
      · rcases hb with rfl | rfl | ⟨e', he', rfl⟩
        · cases hy
        · simp only [Op.tgt, Option.getD_none, Option.getD_some, Option.some.injEq] at hx hy
          subst hx hy; simp
        · simp only [Op.tgt, Option.getD_some, Option.some.injEq] at hx hy
          subst hx hy
          obtain ⟨he1, _, he3⟩ := mem_subscribers.mp he
          obtain ⟨he1', _, he3'⟩ := mem_subscribers.mp he'
          intro heq
          have := edgeTgt_inj h he1 he1' heq
          subst this
          exact hne (he3.symm.trans he3')

theorem prog_pairwise {g : Segment} {A : Option Assets} {rank : Uid → Nat} (h : WF g rank) {w : Worker} (hw : w ∈ g.workers) :
    (prog g A w).Pairwise Lk := by
  unfold prog
  by_cases htr : g.trained w.uid = true
  · -- trained: no `Linkage.update`
    simp only [htr, if_true, List.append_nil]
    unfold progHead
    have hd : (dumpProg g A w).Pairwise Lk := by
      unfold dumpProg
      split
      · refine List.pairwise_cons.mpr ⟨fun b _ => Lk_of_none_left rfl, List.pairwise_cons.mpr
          ⟨fun b _ => Lk_of_none_left rfl, List.pairwise_cons.mpr ⟨?_, List.pairwise_cons.mpr
            ⟨fun b _ => Lk_of_none_right (by simp only [List.mem_singleton] at *; subst_vars; rfl), by simp⟩⟩⟩⟩
        intro b hb
        simp only [List.mem_cons, List.mem_nil_iff, or_false] at hb
        rcases hb with rfl | rfl
        · intro x hx y hy
          unfold commitOp at hy
          cases hoff : A.bind (·.offset w.gid) with
          | none => simp [hoff, Op.tgt] at hy
          | some off =>
            simp only [hoff, Op.tgt, Option.some.injEq] at hy
            simp only [Op.tgt, Option.getD_none, Option.some.injEq] at hx
            subst hx hy; simp
        · exact Lk_of_none_right rfl
      · exact List.Pairwise.nil
    refine pairwise_Lk_append (pairwise_Lk_append (pairwise_Lk_append (pairwise_Lk_append ?_ ?_ ?_) hd ?_) ?_ ?_) ?_ ?_
    · exact pairwise_Lk_nolink (fun op hop => by simp only [List.mem_singleton] at hop; subst hop; rfl)
    · exact pairwise_Lk_nolink (fun op hop => by split at hop <;> simp at hop; subst hop; rfl)
    · exact fun a ha b _ => Lk_of_none_left (by simp only [List.mem_singleton] at ha; subst ha; rfl)
    · intro a ha b _
      apply Lk_of_none_left
      simp only [List.mem_append, List.mem_singleton] at ha
      rcases ha with rfl | ha
      · rfl
      · split at ha <;> simp at ha; subst ha; rfl
    · exact pairwise_Lk_nolink (fun op hop => by split at hop <;> simp at hop; subst hop; rfl)
    · exact fun a _ b hb => Lk_of_none_right (by split at hb <;> simp at hb; subst hb; rfl)
    · exact pairwise_Lk_nolink (fun op hop => by split at hop <;> simp at hop <;> rcases hop with rfl | rfl <;> rfl)
    · exact fun a _ b hb => Lk_of_none_right (by split at hb <;> simp at hb <;> rcases hb with rfl | rfl <;> rfl)
  · -- mapper: no dumper block
    have hT : g.isTrainer w = false := by simp [isTrainer, htr]
    simp only [htr, if_false]
    apply pairwise_Lk_append _ (updProg_pairwise h w)
    · intro a ha b _
      apply Lk_of_none_left
      unfold progHead dumpProg at ha
      simp only [hT, Bool.false_and, Bool.false_eq_true, if_false, List.append_nil, List.mem_append,
        List.mem_singleton] at ha
      rcases ha with ((rfl | ha) | ha) | rfl
      · rfl
      · split at ha <;> simp at ha; subst ha; rfl
      · split at ha <;> simp at ha; subst ha; rfl
      · rfl
    · apply pairwise_Lk_nolink
      intro op hop
      unfold progHead dumpProg at hop
      simp only [hT, Bool.false_and, Bool.false_eq_true, if_false, List.append_nil, List.mem_append,
        List.mem_singleton] at hop
      rcases hop with ((rfl | ha) | ha) | rfl
      · rfl
      · split at ha <;> simp at ha; subst ha; rfl
      · split at ha <;> simp at ha; subst ha; rfl
      · rfl

end ForML.Flow
