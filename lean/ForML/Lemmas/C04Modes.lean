/-
C04 helper lemmas, part 4: one lifecycle action on a well-formed case keeps the registry invariant and every
observation it produces satisfies the property (`obsOk`).
-/
import ForML.Lemmas.C04Binding

namespace ForML.Persist

theorem untrained_of_noTrainer {c : Comp} {h t : Nat} (hnt : c.noTrainer h t = true) :
    ∀ n ∈ c.visitNodes h t, n.trained = false := by
  intro n hn
  simp only [Comp.noTrainer, List.all_eq_true] at hnt
  have := hnt n hn
  simpa using this

theorem derived_of_appliedDerived {c : Comp} {h t : Nat} (had : c.appliedDerived h t = true) {n : Node}
    (hn : n ∈ c.visitNodes h t) (hs : n.stateful = true) (htr : n.trained = false) : c.derived n = true := by
  simp only [Comp.appliedDerived, List.all_eq_true] at had
  have := had n hn
  simpa [hs, htr] using this

/-- an action that only applies (batch apply, serving, perftrack): registry untouched, every stateful worker holds
the own state of the selected generation -/
theorem runSegment_applyLike {c : Comp} {T : List (Option Nat)} (hT : c.persistentTags = T)
    (htc : c.tagsConsistent = true) {h t : Nat} (hnt : c.noTrainer h t = true)
    (had : c.appliedDerived h t = true) {reg : Registry} (hreg : RegInv T reg) {a : Action}
    (hk : a.kind ≠ .train) {reg' : Registry} {obs : List Obs}
    (hrun : runSegment c h t reg a = .ok (reg', obs)) :
    reg' = reg ∧ ∀ o ∈ obs, obsOk reg a o = true := by
  have hun := untrained_of_noTrainer hnt
  simp only [runSegment] at hrun
  rw [commit_none_of_untrained hun] at hrun
  cases hobs : observeAll c (c.visitNodes h t) ⟨c.persistent, select reg a.gen⟩ a.run a.hp with
  | error e => rw [hobs] at hrun; cases hrun
  | ok obs0 =>
    rw [hobs] at hrun
    simp only [Except.ok.injEq, Prod.mk.injEq] at hrun
    obtain ⟨hr, ho⟩ := hrun
    subst hr; subst ho
    refine ⟨rfl, ?_⟩
    intro o hoin
    obtain ⟨n, hn, os, hos, hoos⟩ := mem_observeAll hobs hoin
    have hntr := hun n hn
    simp only [observe] at hos
    cases hst : n.stateful with
    | false => simp [hst] at hos; subst hos; cases hoos
    | true =>
      simp only [hst, hntr, Bool.not_true, Bool.false_eq_true, if_false] at hos
      cases hrc : receive c (c.visitNodes h t) ⟨c.persistent, select reg a.gen⟩ a.run a.hp n with
      | error e => rw [hrc] at hos; cases hos
      | ok s =>
        rw [hrc] at hos
        cases hos
        simp only [List.mem_singleton] at hoos
        subst hoos
        have hder := derived_of_appliedDerived had hn hst hntr
        simp only [receive, hder, Bool.or_true, if_true, trainerOf_none_of_untrained hun] at hrc
        -- the property
        have hload : ∀ g, loaded reg a = some g → boundTo g n.tag s = true := by
          intro g hg
          cases hsel : select reg a.gen with
          | error e => simp [loaded, hsel] at hg
          | ok x =>
            rw [loaded_of_select hsel] at hg
            subst hg
            rw [hsel] at hrc
            split at hrc
            · have hsome := load_some_of_gen hrc
              cases s with
              | none => cases hsome
              | some o =>
                have := load_own hT htc (hreg g (select_mem hsel)) (Comp.mem_visitNodes hn) hrc rfl
                simp [boundTo, this.1, this.2]
            · cases hrc
        have hpost : (match loaded reg a with
            | some g => boundTo g n.tag s
            | none => true) = true := by
          cases hl : loaded reg a with
          | none => rfl
          | some g => exact hload g hl
        cases hkind : a.kind with
        | train => exact absurd hkind hk
        | apply => simp only [obsOk, hkind, beq_self_eq_true, Bool.true_and]; exact hpost
        | serve => simp only [obsOk, hkind, beq_self_eq_true, Bool.true_and]; exact hpost
        | perftrack => simp only [obsOk, hkind, beq_self_eq_true, Bool.true_and]; exact hpost

/-- a training run: the committed generation keeps the invariant; trainers start from their own state of the
selected generation (or from scratch), the members applied on the train path hold their own trainer's new state -/
theorem runSegment_train {c : Comp} (hwf : c.wfPlain = true) {reg : Registry}
    (hreg : RegInv c.persistentTags reg) {a : Action} (hk : a.kind = .train) {reg' : Registry} {obs : List Obs}
    (hrun : runSegment c c.trainHead c.trainTail reg a = .ok (reg', obs)) :
    RegInv c.persistentTags reg' ∧ ∀ o ∈ obs, obsOk reg a o = true := by
  simp only [Comp.wfPlain, Bool.and_eq_true] at hwf
  obtain ⟨⟨⟨⟨⟨⟨htc, _⟩, _⟩, htv⟩, _⟩, hadt⟩, _⟩ := hwf
  simp only [runSegment] at hrun
  cases hobs : observeAll c (c.visitNodes c.trainHead c.trainTail) ⟨c.persistent, select reg a.gen⟩ a.run a.hp with
  | error e => rw [hobs] at hrun; cases hrun
  | ok obs0 =>
    rw [hobs] at hrun
    have hobsok : ∀ o ∈ obs0, obsOk reg a o = true := by
      intro o hoin
      obtain ⟨n, hn, os, hos, hoos⟩ := mem_observeAll hobs hoin
      simp only [observe] at hos
      cases hst : n.stateful with
      | false => simp [hst] at hos; subst hos; cases hoos
      | true =>
        simp only [hst, Bool.not_true, Bool.false_eq_true, if_false] at hos
        cases htr : n.trained with
        | true =>
          simp only [htr, if_true] at hos
          cases hp : prevOf ⟨c.persistent, select reg a.gen⟩ n with
          | error e => rw [hp] at hos; cases hos
          | ok prev =>
            rw [hp] at hos
            cases hos
            simp only [List.mem_singleton] at hoos
            subst hoos
            simp only [obsOk, beq_self_eq_true, Bool.true_and]
            cases prev with
            | none => rfl
            | some o' =>
              simp only [prevOf] at hp
              split at hp
              · cases hsel : select reg a.gen with
                | error e => rw [hsel] at hp; simp [Assets.load] at hp; split at hp <;> cases hp
                | ok x =>
                  rw [hsel] at hp
                  cases x with
                  | none => have := load_none_of_nogen hp; cases this
                  | some g =>
                    have := load_own rfl htc (hreg g (select_mem hsel)) (Comp.mem_visitNodes hn) hp rfl
                    simp [loaded_of_select hsel, this.1, this.2]
              · cases hp
        | false =>
          simp only [htr, Bool.false_eq_true, if_false] at hos
          cases hrc : receive c (c.visitNodes c.trainHead c.trainTail) ⟨c.persistent, select reg a.gen⟩ a.run a.hp n with
          | error e => rw [hrc] at hos; cases hos
          | ok s =>
            rw [hrc] at hos
            cases hos
            simp only [List.mem_singleton] at hoos
            subst hoos
            have hder := derived_of_appliedDerived hadt hn hst htr
            simp only [receive, hder, Bool.or_true, if_true] at hrc
            simp only [obsOk, beq_self_eq_true, Bool.true_and, hk]
            cases htn : trainerOf (c.visitNodes c.trainHead c.trainTail) n.gid with
            | some t =>
              simp only [htn] at hrc
              cases hns : newState ⟨c.persistent, select reg a.gen⟩ a.run a.hp t with
              | error e => rw [hns] at hrc; cases hrc
              | ok s' =>
                rw [hns] at hrc
                cases hrc
                obtain ⟨htm, _, htg⟩ := trainerOf_spec htn
                have h1 := newState_tag_run hns
                have h2 := Comp.tag_of_same_gid htc (Comp.mem_visitNodes htm) (Comp.mem_visitNodes hn) htg
                simp [h1.1, h1.2, h2]
            | none =>
              simp only [htn] at hrc
              split at hrc
              · rename_i hhas
                simp only [Comp.trainersVisited, List.all_eq_true] at htv
                have hmem : n.gid ∈ c.persistent := by
                  simpa [Assets.has] using hhas
                have := htv n.gid hmem
                rw [htn] at this
                cases this
              · cases hrc
    cases hcm : commit (c.visitNodes c.trainHead c.trainTail) ⟨c.persistent, select reg a.gen⟩ a.run a.hp with
    | error e => rw [hcm] at hrun; cases hrun
    | ok og =>
      rw [hcm] at hrun
      cases og with
      | none =>
        simp only [Except.ok.injEq, Prod.mk.injEq] at hrun
        obtain ⟨hr, ho⟩ := hrun
        subst hr; subst ho
        exact ⟨hreg, hobsok⟩
      | some g =>
        simp only [Except.ok.injEq, Prod.mk.injEq] at hrun
        obtain ⟨hr, ho⟩ := hrun
        subst hr; subst ho
        exact ⟨hreg.append (commit_genOk htc (fun n hn => Comp.mem_visitNodes hn) hcm), hobsok⟩

/-- one action on a well-formed case -/
theorem step_ok {cs : Case} (hwf : cs.wf = true) {reg : Registry} (hreg : RegInv cs.plain.persistentTags reg)
    {a : Action} {reg' : Registry} {obs : List Obs} (h : step cs reg a = .ok (reg', obs)) :
    RegInv cs.plain.persistentTags reg' ∧ ∀ o ∈ obs, obsOk reg a o = true := by
  simp only [Case.wf, Bool.and_eq_true] at hwf
  obtain ⟨hplain, hperf⟩ := hwf
  have hplain' := hplain
  simp only [Comp.wfPlain, Bool.and_eq_true] at hplain'
  obtain ⟨⟨⟨⟨⟨⟨htc, _⟩, _⟩, _⟩, hada⟩, _⟩, hnta⟩ := hplain'
  cases hk : a.kind with
  | train =>
    simp only [step, hk] at h
    cases hsel : select reg a.gen with
    | error e => rw [hsel] at h; cases h
    | ok x =>
      rw [hsel] at h
      exact runSegment_train hplain hreg hk h
  | apply =>
    simp only [step, hk] at h
    have := runSegment_applyLike rfl htc hnta hada hreg (by rw [hk]; exact fun e => by cases e) h
    exact ⟨this.1 ▸ hreg, this.2⟩
  | serve =>
    simp only [step, hk] at h
    have := runSegment_applyLike rfl htc hnta hada hreg (by rw [hk]; exact fun e => by cases e) h
    exact ⟨this.1 ▸ hreg, this.2⟩
  | perftrack =>
    simp only [step, hk] at h
    cases hp : cs.perf with
    | error e => rw [hp] at h; cases h
    | ok p =>
      rw [hp] at h
      simp only [Case.wfPerf, hp, Bool.and_eq_true, beq_iff_eq] at hperf
      obtain ⟨⟨⟨⟨⟨hptc, _⟩, _⟩, hpad⟩, hpnt⟩, hpT⟩ := hperf
      have := runSegment_applyLike hpT hptc hpnt hpad hreg (by rw [hk]; exact fun e => by cases e) h
      exact ⟨this.1 ▸ hreg, this.2⟩

end ForML.Persist
