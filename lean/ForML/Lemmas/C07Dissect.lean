/-
C07 helper lemmas: the `Dissect` visitor with its accumulator computes exactly the filtered list of the nodes a
feature is composed of; membership with structural equality is list membership.
-/
import ForML.Model.Grammar

namespace ForML.Dsl

theorem visitFeature_eq (p : Feature → Bool) (f : Feature) (acc : List Feature) :
    visitFeature p f acc = ([f].filter p).reverse ++ acc := by
  unfold visitFeature
  by_cases h : p f <;> simp [h]

mutual
theorem Feature.dissect_eq (p : Feature → Bool) :
    (f : Feature) → (acc : List Feature) → f.dissect p acc = (f.nodes.filter p).reverse ++ acc
  | .lit v, acc => by simp [Feature.dissect, Feature.nodes, visitFeature_eq]
  | .elem o n, acc => by simp [Feature.dissect, Feature.nodes, visitFeature_eq]
  | .alias f n, acc => by
    simp [Feature.dissect, Feature.nodes, visitFeature_eq, Feature.dissect_eq p f acc, List.filter_append]
  | .expr op args, acc => by
    simp [Feature.dissect, Feature.nodes, visitFeature_eq, Features.dissect_eq p args acc, List.filter_append]
  | .cast f k, acc => by
    simp [Feature.dissect, Feature.nodes, visitFeature_eq, Feature.dissect_eq p f acc, List.filter_append]
  | .window fn ps os, acc => by simp [Feature.dissect, Feature.nodes, visitFeature_eq]
theorem Features.dissect_eq (p : Feature → Bool) :
    (fs : Features) → (acc : List Feature) → fs.dissect p acc = (fs.nodes.filter p).reverse ++ acc
  | .nil, acc => by simp [Features.dissect, Features.nodes]
  | .cons f fs, acc => by
    simp [Features.dissect, Features.nodes, Features.dissect_eq p fs, Feature.dissect_eq p f acc, List.filter_append]
end

theorem mem_dissect (p : Feature → Bool) (f e : Feature) : e ∈ f.dissect p [] ↔ e ∈ f.nodes ∧ p e = true := by
  simp [Feature.dissect_eq]

theorem dissect_isEmpty (p : Feature → Bool) (f : Feature) : (f.dissect p []).isEmpty = !f.nodes.any p := by
  rw [Feature.dissect_eq]
  cases h : f.nodes.any p
  · simp only [Bool.not_false, List.append_nil, List.isEmpty_reverse, List.isEmpty_iff]
    rw [List.filter_eq_nil_iff]
    intro a ha
    have := List.any_eq_false.mp h a ha
    simpa using this
  · simp only [Bool.not_true, List.append_nil, List.isEmpty_reverse]
    obtain ⟨a, ha, hp⟩ := List.any_eq_true.mp h
    cases hf : f.nodes.filter p with
    | nil =>
      have : a ∈ f.nodes.filter p := List.mem_filter.mpr ⟨ha, hp⟩
      rw [hf] at this
      cases this
    | cons _ _ => rfl

theorem mem_dissectAll_acc (p : Feature → Bool) (e : Feature) :
    (fs : List Feature) → (acc : List Feature) →
      (e ∈ fs.foldl (fun acc f => f.dissect p acc) acc ↔ e ∈ acc ∨ ∃ f ∈ fs, e ∈ f.nodes ∧ p e = true)
  | [], acc => by simp
  | f :: fs, acc => by
    rw [List.foldl_cons, mem_dissectAll_acc p e fs, Feature.dissect_eq]
    simp only [List.mem_append, List.mem_reverse, List.mem_filter, List.mem_cons, exists_eq_or_imp]
    constructor
    · rintro ((h | h) | h)
      · exact Or.inr (Or.inl h)
      · exact Or.inl h
      · exact Or.inr (Or.inr h)
    · rintro (h | h | h)
      · exact Or.inl (Or.inr h)
      · exact Or.inl (Or.inl h)
      · exact Or.inr h

theorem mem_dissectAll (p : Feature → Bool) (fs : List Feature) (e : Feature) :
    e ∈ dissectAll p fs ↔ ∃ f ∈ fs, e ∈ f.nodes ∧ p e = true := by
  unfold dissectAll
  rw [mem_dissectAll_acc]
  simp

/-! ### structural membership -/

theorem memBy_struct (x : Feature) (ys : List Feature) : memBy structEqv x ys = true ↔ x ∈ ys := by
  unfold memBy structEqv
  simp only [List.any_eq_true, decide_eq_true_eq]
  constructor
  · rintro ⟨y, hy, rfl⟩
    exact hy
  · intro h
    exact ⟨x, h, rfl⟩

theorem subsetBy_struct (xs ys : List Feature) : subsetBy structEqv xs ys = true ↔ ∀ x ∈ xs, x ∈ ys := by
  unfold subsetBy
  simp only [List.all_eq_true, memBy_struct]

theorem mem_elements (f e : Feature) : e ∈ f.elements ↔ e ∈ f.nodes ∧ e.isElem = true := by
  simp [Feature.elements]

/-- the elements a list of features is composed of, as `Element.dissect(*features)` collects them -/
theorem mem_dissectAll_elem (fs : List Feature) (e : Feature) :
    e ∈ dissectAll Feature.isElem fs ↔ e ∈ fs.flatMap Feature.elements := by
  rw [mem_dissectAll]
  simp only [List.mem_flatMap, mem_elements]

theorem subset_dissect_within (f : Feature) (sup avail : List Feature) (h : ∀ e, e ∈ sup ↔ e ∈ avail) :
    subsetBy structEqv (f.dissect Feature.isElem []) sup = true ↔ f.within avail = true := by
  rw [subsetBy_struct]
  unfold Feature.within
  simp only [List.all_eq_true, List.contains_iff_mem, mem_dissect, ← mem_elements, h]

theorem subset_dissectAll_within (fs : List Feature) (sup avail : List Feature) (h : ∀ e, e ∈ sup ↔ e ∈ avail) :
    subsetBy structEqv (dissectAll Feature.isElem fs) sup = true ↔ ∀ f ∈ fs, f.within avail = true := by
  rw [subsetBy_struct]
  unfold Feature.within
  simp only [List.all_eq_true, List.contains_iff_mem, mem_dissectAll_elem, List.mem_flatMap, h]
  constructor
  · intro H f hf e he
    exact H e ⟨f, hf, he⟩
  · rintro H e ⟨f, hf, he⟩
    exact H f hf e he

end ForML.Dsl
