/-
C11 helper lemmas, part 6: a successful auto-trace (`Traversal.tail()` = `scan`) means that no walk over mapper
subscriptions starting at the head ever comes back to a node it has already passed.
-/
import ForML.Model.Graph

namespace ForML.Graph

/-- every mapper walk from `p` avoids `ms` and everything it has passed, and is finite -/
inductive Simple (g : G) : Nat → List Nat → Prop
  | mk (p : Nat) (ms : List Nat) :
      (∀ n ∈ mappers g p none, memNode g n ms = false) →
      (∀ n ∈ mappers g p none, Simple g n (n :: ms)) → Simple g p ms

/-- the step function of `scan`'s fold -/
def scanStep (fuel : Nat) (g : G) (members : List Nat) (acc : Except Err (List (List Nat))) (n : Nat) :
    Except Err (List (List Nat)) :=
  match acc with
  | .ok ls =>
    if memNode g n members then .error .cyclic
    else match scan fuel g n (n :: members) with
      | .ok ls' => .ok (ls ++ ls')
      | .error e => .error e
  | e => e

theorem scan_succ (fuel : Nat) (g : G) (pivot : Nat) (members : List Nat) :
    scan (fuel + 1) g pivot members =
      match (mappers g pivot none).foldl (scanStep fuel g members) (.ok []) with
      | .ok [] => .ok [members]
      | r => r := by
  rfl

theorem scanStep_ok (fuel : Nat) (g : G) (ms : List Nat) (acc : Except Err (List (List Nat))) (n : Nat)
    (l1 : List (List Nat)) (h : scanStep fuel g ms acc n = .ok l1) :
    (∃ l0, acc = .ok l0) ∧ memNode g n ms = false ∧ ∃ ls', scan fuel g n (n :: ms) = .ok ls' := by
  unfold scanStep at h
  cases acc with
  | error e => simp at h
  | ok l0 =>
    simp only at h
    by_cases hm : memNode g n ms = true
    · simp [hm] at h
    · simp only [hm, Bool.false_eq_true, ↓reduceIte] at h
      cases hs : scan fuel g n (n :: ms) with
      | error e => simp [hs] at h
      | ok ls' => exact ⟨⟨l0, rfl⟩, by simpa using hm, ls', rfl⟩

theorem scanFold_ok (fuel : Nat) (g : G) (ms : List Nat) : ∀ (ns : List Nat) (acc : Except Err (List (List Nat)))
    (ls : List (List Nat)), ns.foldl (scanStep fuel g ms) acc = .ok ls →
    (∃ l0, acc = .ok l0) ∧ ∀ n ∈ ns, memNode g n ms = false ∧ ∃ ls', scan fuel g n (n :: ms) = .ok ls' := by
  intro ns
  induction ns with
  | nil => intro acc ls h; exact ⟨⟨ls, h⟩, by simp⟩
  | cons n ns ih =>
    intro acc ls h
    simp only [List.foldl_cons] at h
    obtain ⟨⟨l1, h1⟩, h2⟩ := ih _ ls h
    obtain ⟨a, b, c⟩ := scanStep_ok fuel g ms acc n l1 h1
    refine ⟨a, ?_⟩
    intro x hx
    rcases List.mem_cons.mp hx with rfl | hx
    · exact ⟨b, c⟩
    · exact h2 x hx

theorem scan_simple : ∀ (fuel : Nat) (g : G) (p : Nat) (ms : List Nat) (ls : List (List Nat)),
    scan fuel g p ms = .ok ls → Simple g p ms := by
  intro fuel
  induction fuel with
  | zero => intro g p ms ls h; simp [scan] at h
  | succ k ih =>
    intro g p ms ls h
    rw [scan_succ] at h
    have hfold : ∃ l, (mappers g p none).foldl (scanStep k g ms) (.ok []) = .ok l := by
      cases hf : (mappers g p none).foldl (scanStep k g ms) (.ok []) with
      | error e => rw [hf] at h; simp at h
      | ok l => exact ⟨l, rfl⟩
    obtain ⟨l, hl⟩ := hfold
    obtain ⟨_, hall⟩ := scanFold_ok k g ms _ _ l hl
    refine .mk p ms (fun n hn => (hall n hn).1) ?_
    intro n hn
    obtain ⟨_, ls', h2⟩ := hall n hn
    exact ih g n (n :: ms) ls' h2

/-- `[y1, …, yk]` is a walk over mapper subscriptions starting at `p` -/
def Trail (g : G) : Nat → List Nat → Prop
  | _, [] => True
  | p, y :: ys => y ∈ mappers g p none ∧ Trail g y ys

instance : (g : G) → (p : Nat) → (ys : List Nat) → Decidable (Trail g p ys)
  | _, _, [] => isTrue trivial
  | g, _, y :: ys =>
    have := instDecidableTrail g y ys
    by unfold Trail; infer_instance

theorem not_mem_of_memNode {g : G} {n : Nat} {ms : List Nat} (h : memNode g n ms = false) : n ∉ ms := by
  intro hm
  unfold memNode at h
  have := List.any_eq_false.mp h n hm
  simp at this

theorem simple_trail {g : G} : ∀ (ys : List Nat) (p : Nat) (ms : List Nat), Simple g p ms → Trail g p ys →
    (∀ y ∈ ys, y ∉ ms) ∧ ys.Nodup := by
  intro ys
  induction ys with
  | nil => intro p ms _ _; exact ⟨by simp, List.nodup_nil⟩
  | cons y ys ih =>
    intro p ms hs ht
    cases hs with
    | mk _ _ hall1 hall2 =>
      have h1 := hall1 y ht.1
      have h2 := hall2 y ht.1
      obtain ⟨a, b⟩ := ih y (y :: ms) h2 ht.2
      refine ⟨?_, List.nodup_cons.mpr ⟨fun hy => (a y hy) List.mem_cons_self, b⟩⟩
      intro x hx
      rcases List.mem_cons.mp hx with rfl | hx
      · exact not_mem_of_memNode h1
      · exact fun hm => a x hx (List.mem_cons_of_mem _ hm)

end ForML.Graph
