/-
C03 — helper lemmas: `Segment.copy` (`copyNodes`, `copyEdges`) as explicit graph successors.

`copyNodes ns` appends one fork per node of `ns` (same kind: same group, actor and shape; a `Future` for a `Future`)
and returns the map `uid ↦ copy`; `copyEdges` re-creates, between the copies, every subscription whose two ends
have been copied.  With functional subscriptions (`Wired`) the inputs of a copy are exactly the copies of the
inputs of its original that have been copied.
-/
import ForML.Lemmas.C03Closure
import ForML.Lemmas.C03Spec

namespace ForML.Compose

/-! ### copying nodes -/

theorem run_forkNode (n : Node) (g : Graph) : Run (forkNode n) g g.next (g.bump.pushNode ⟨g.next, n.kind⟩) := by
  obtain ⟨uid, kind⟩ := n
  cases kind with
  | future => rfl
  | worker gid a szin szout => rfl

/-- the graph after `copyNodes ns` -/
def addCopies : Graph → List Node → Graph
  | g, [] => g
  | g, n :: rest => addCopies (g.bump.pushNode ⟨g.next, n.kind⟩) rest

/-- the map `copyNodes ns` returns when started with `next = base` -/
def copyMap : Nat → List Node → List (Nat × Nat)
  | _, [] => []
  | base, n :: rest => (n.uid, base) :: copyMap (base + 1) rest

theorem run_copyNodes : ∀ (ns : List Node) (g : Graph), Run (copyNodes ns) g (copyMap g.next ns) (addCopies g ns) := by
  intro ns
  induction ns with
  | nil => intro g; rfl
  | cons n rest ih =>
    intro g
    unfold copyNodes
    refine Run.bind (run_forkNode n g) (Run.bind (ih _) ?_)
    exact Run.pure _ _

theorem addCopies_next : ∀ (ns : List Node) (g : Graph), (addCopies g ns).next = g.next + ns.length := by
  intro ns
  induction ns with
  | nil => intro g; rfl
  | cons n rest ih => intro g; simp only [addCopies, ih, List.length_cons]; simp; omega

theorem addCopies_edges : ∀ (ns : List Node) (g : Graph), (addCopies g ns).edges = g.edges := by
  intro ns
  induction ns with
  | nil => intro g; rfl
  | cons n rest ih => intro g; simp only [addCopies, ih]; rfl

theorem addCopies_trains : ∀ (ns : List Node) (g : Graph), (addCopies g ns).trains = g.trains := by
  intro ns
  induction ns with
  | nil => intro g; rfl
  | cons n rest ih => intro g; simp only [addCopies, ih]; rfl

theorem addCopies_inputOf (ns : List Node) (g : Graph) (u k : Nat) : (addCopies g ns).inputOf u k = g.inputOf u k := by
  unfold Graph.inputOf; rw [addCopies_edges]

theorem addCopies_trainerOf (ns : List Node) (g : Graph) (gid : Nat) : (addCopies g ns).trainerOf gid = g.trainerOf gid := by
  unfold Graph.trainerOf; rw [addCopies_trains]

theorem addCopies_kindOf_old : ∀ (ns : List Node) (g : Graph) (u : Nat), u < g.next →
    (addCopies g ns).kindOf u = g.kindOf u := by
  intro ns
  induction ns with
  | nil => intro g u _; rfl
  | cons n rest ih =>
    intro g u hu
    simp only [addCopies]
    rw [ih _ u (by simp; omega), kindOf_pushNode, kindOf_bump]
    have : ¬ g.next = u := by omega
    simp [this]

theorem addCopies_frame (ns : List Node) (g : Graph) : Frame g (addCopies g ns) :=
  ⟨by rw [addCopies_next]; omega, fun u hu => addCopies_kindOf_old ns g u hu, fun u k _ => addCopies_inputOf ns g u k,
    fun gid _ => addCopies_trainerOf ns g gid⟩

theorem addCopies_wired : ∀ (ns : List Node) (g : Graph), Wired g → Wired (addCopies g ns) := by
  intro ns
  induction ns with
  | nil => intro g h; exact h
  | cons n rest ih => intro g h; exact ih _ (h.bump.pushNode _)

theorem addCopies_bounded : ∀ (ns : List Node) (g : Graph), Bounded g →
    (∀ n ∈ ns, ∀ gid a i o, n.kind = .worker gid a i o → gid < g.next) → Bounded (addCopies g ns) := by
  intro ns
  induction ns with
  | nil => intro g h _; exact h
  | cons n rest ih =>
    intro g h hg
    refine ih _ (h.bump.pushNode _ (by simp) ?_) ?_
    · intro gid a i o hk
      have := hg n List.mem_cons_self gid a i o hk
      simp; omega
    · intro m hm gid a i o hk
      have := hg m (List.mem_cons_of_mem _ hm) gid a i o hk
      simp; omega

theorem copyMap_range : ∀ (ns : List Node) (base u c : Nat), (copyMap base ns).lookup u = some c →
    base ≤ c ∧ c < base + ns.length := by
  intro ns
  induction ns with
  | nil => intro base u c h; simp [copyMap, List.lookup] at h
  | cons n rest ih =>
    intro base u c h
    simp only [copyMap, List.lookup] at h
    cases hu : (u == n.uid) with
    | true => rw [hu] at h; simp at h; subst h; simp
    | false =>
      rw [hu] at h
      have := ih _ _ _ h
      simp only [List.length_cons]; omega

theorem copyMap_inj : ∀ (ns : List Node) (base u1 u2 c : Nat), (copyMap base ns).lookup u1 = some c →
    (copyMap base ns).lookup u2 = some c → u1 = u2 := by
  intro ns
  induction ns with
  | nil => intro base u1 u2 c h; simp [copyMap, List.lookup] at h
  | cons n rest ih =>
    intro base u1 u2 c h1 h2
    simp only [copyMap, List.lookup] at h1 h2
    cases hu1 : (u1 == n.uid) <;> cases hu2 : (u2 == n.uid) <;> rw [hu1] at h1 <;> rw [hu2] at h2
    · exact ih _ _ _ _ h1 h2
    · simp at h2; subst h2
      have := (copyMap_range _ _ _ _ h1).1; omega
    · simp at h1; subst h1
      have := (copyMap_range _ _ _ _ h2).1; omega
    · have e1 : u1 = n.uid := by simpa using hu1
      have e2 : u2 = n.uid := by simpa using hu2
      rw [e1, e2]

theorem copyMap_some : ∀ (ns : List Node) (base u : Nat), (∃ n ∈ ns, n.uid = u) → ∃ c, (copyMap base ns).lookup u = some c := by
  intro ns
  induction ns with
  | nil => intro base u h; obtain ⟨n, hn, _⟩ := h; cases hn
  | cons n rest ih =>
    intro base u h
    simp only [copyMap, List.lookup]
    cases hu : (u == n.uid) with
    | true => exact ⟨base, rfl⟩
    | false =>
      obtain ⟨m, hm, hmu⟩ := h
      rcases List.mem_cons.mp hm with e | hm'
      · subst e; subst hmu; simp at hu
      · exact ih _ _ ⟨m, hm', hmu⟩

/-- lookups in the copy map: the copy of `u` is the fork of the first node of `ns` with uid `u` -/
theorem copyMap_kind : ∀ (ns : List Node) (g : Graph) (u c : Nat), (∀ m ∈ g.nodes, m.uid < g.next) →
    (copyMap g.next ns).lookup u = some c →
    (addCopies g ns).kindOf c = (ns.find? (fun n => n.uid == u)).map (·.kind) := by
  intro ns
  induction ns with
  | nil => intro g u c _ h; simp [copyMap, List.lookup] at h
  | cons n rest ih =>
    intro g u c hnl h
    simp only [copyMap, List.lookup] at h
    have hnl1 : ∀ m ∈ (g.bump.pushNode ⟨g.next, n.kind⟩).nodes, m.uid < (g.bump.pushNode ⟨g.next, n.kind⟩).next := by
      intro m hm
      simp only [Graph.pushNode, Graph.bump, List.mem_append, List.mem_singleton] at hm ⊢
      rcases hm with hm | hm
      · have := hnl m hm; omega
      · subst hm; simp
    cases hu : (u == n.uid) with
    | true =>
      rw [hu] at h
      simp at h; subst h
      have e : u = n.uid := by simpa using hu
      simp only [addCopies]
      rw [addCopies_kindOf_old _ _ _ (by simp), kindOf_pushNode, kindOf_bump]
      have hk : g.kindOf g.next = none := by
        unfold Graph.kindOf
        have : g.nodes.find? (fun m => m.uid == g.next) = none := by
          apply List.find?_eq_none.mpr
          intro m hm; have := hnl m hm; simp; omega
        simp [this]
      rw [hk]
      simp [e]
    | false =>
      rw [hu] at h
      have hne : ¬ n.uid = u := by
        intro e; rw [← e] at hu; simp at hu
      simp only [addCopies]
      have := ih (g.bump.pushNode ⟨g.next, n.kind⟩) u c hnl1 h
      rw [this, List.find?_cons_of_neg (by simpa using hne)]

/-! ### copying subscriptions -/

/-- image of one subscription under the copy map (both ends must have a copy) -/
def edgeImage (copies : List (Nat × Nat)) (e : Edge) : Option Edge :=
  match copies.lookup e.sub, copies.lookup e.pub.node with
  | some s, some p => some ⟨s, e.port, ⟨p, e.pub.idx⟩⟩
  | _, _ => none

def Graph.pushImg (g : Graph) : Option Edge → Graph
  | none => g
  | some e => g.pushEdge e

/-- the graph after `copyEdges copies es` -/
def addEdges (copies : List (Nat × Nat)) : Graph → List Edge → Graph
  | g, [] => g
  | g, e :: rest => addEdges copies (g.pushImg (edgeImage copies e)) rest

theorem inputOf_pushImg (g : Graph) (o : Option Edge) (u k : Nat) :
    (g.pushImg o).inputOf u k = (g.inputOf u k).or (match o with
      | some e => if e.sub = u ∧ e.port = k then some e.pub else none
      | none => none) := by
  cases o with
  | none => simp [Graph.pushImg]
  | some e => simp [Graph.pushImg, inputOf_pushEdge]

/-- the publisher the image of `e` provides for input port `k` of `c` -/
def imgHit (copies : List (Nat × Nat)) (c k : Nat) (e : Edge) : Option PubRef :=
  match edgeImage copies e with
  | some e' => if e'.sub = c ∧ e'.port = k then some e'.pub else none
  | none => none

theorem run_copyEdges (copies : List (Nat × Nat)) : ∀ (es : List Edge) (ga : Graph),
    (∀ e ∈ es, ∀ e', edgeImage copies e = some e' → ga.inputOf e'.sub e'.port = none) →
    es.Pairwise (fun a b => ∀ a' b', edgeImage copies a = some a' → edgeImage copies b = some b' →
      ¬ (a'.sub = b'.sub ∧ a'.port = b'.port)) →
    Run (copyEdges copies es) ga () (addEdges copies ga es) := by
  intro es
  induction es with
  | nil => intro ga _ _; rfl
  | cons e rest ih =>
    intro ga hfree hpw
    rw [List.pairwise_cons] at hpw
    unfold copyEdges
    have hrest : ∀ ga', (∀ e1 ∈ rest, ∀ e1', edgeImage copies e1 = some e1' → ga'.inputOf e1'.sub e1'.port = none) →
        Run (copyEdges copies rest) ga' () (addEdges copies ga' rest) := fun ga' h => ih ga' h hpw.2
    cases hs : copies.lookup e.sub with
    | none =>
      have himg : edgeImage copies e = none := by simp [edgeImage, hs]
      simp only [addEdges, himg, Graph.pushImg]
      exact Run.bind (Run.pure _ _) (hrest ga (fun e1 h1 => hfree e1 (List.mem_cons_of_mem _ h1)))
    | some s =>
      cases hp : copies.lookup e.pub.node with
      | none =>
        have himg : edgeImage copies e = none := by simp [edgeImage, hs, hp]
        simp only [addEdges, himg, Graph.pushImg]
        exact Run.bind (Run.pure _ _) (hrest ga (fun e1 h1 => hfree e1 (List.mem_cons_of_mem _ h1)))
      | some p =>
        have himg : edgeImage copies e = some ⟨s, e.port, ⟨p, e.pub.idx⟩⟩ := by simp [edgeImage, hs, hp]
        simp only [addEdges, himg, Graph.pushImg]
        refine Run.bind (run_subscribe _ _ _ ga (hfree e List.mem_cons_self _ himg)) (hrest _ ?_)
        intro e1 h1 e1' himg1
        rw [inputOf_pushEdge, hfree e1 (List.mem_cons_of_mem _ h1) e1' himg1]
        have := hpw.1 e1 h1 _ _ himg himg1
        simp [this]

theorem inputOf_addEdges (copies : List (Nat × Nat)) : ∀ (es : List Edge) (ga : Graph) (c k : Nat),
    (addEdges copies ga es).inputOf c k = (ga.inputOf c k).or (es.findSome? (imgHit copies c k)) := by
  intro es
  induction es with
  | nil => intro ga c k; simp [addEdges]
  | cons e rest ih =>
    intro ga c k
    simp only [addEdges]
    rw [ih, inputOf_pushImg, List.findSome?_cons]
    unfold imgHit
    cases himg : edgeImage copies e with
    | none => simp
    | some e' =>
      simp only
      by_cases hc : e'.sub = c ∧ e'.port = k
      · simp [hc]
      · simp [hc]

theorem addEdges_next (copies : List (Nat × Nat)) : ∀ (es : List Edge) (ga : Graph), (addEdges copies ga es).next = ga.next := by
  intro es
  induction es with
  | nil => intro ga; rfl
  | cons e rest ih =>
    intro ga
    simp only [addEdges, ih]
    cases edgeImage copies e <;> rfl

theorem addEdges_trains (copies : List (Nat × Nat)) : ∀ (es : List Edge) (ga : Graph), (addEdges copies ga es).trains = ga.trains := by
  intro es
  induction es with
  | nil => intro ga; rfl
  | cons e rest ih =>
    intro ga
    simp only [addEdges, ih]
    cases edgeImage copies e <;> rfl

theorem addEdges_kindOf (copies : List (Nat × Nat)) : ∀ (es : List Edge) (ga : Graph) (u : Nat),
    (addEdges copies ga es).kindOf u = ga.kindOf u := by
  intro es
  induction es with
  | nil => intro ga u; rfl
  | cons e rest ih =>
    intro ga u
    simp only [addEdges, ih]
    cases edgeImage copies e <;> rfl

theorem addEdges_trainerOf (copies : List (Nat × Nat)) (es : List Edge) (ga : Graph) (gid : Nat) :
    (addEdges copies ga es).trainerOf gid = ga.trainerOf gid := by
  unfold Graph.trainerOf; rw [addEdges_trains]

theorem addEdges_bounded (copies : List (Nat × Nat)) : ∀ (es : List Edge) (ga : Graph), Bounded ga →
    (∀ e ∈ es, ∀ e', edgeImage copies e = some e' → e'.sub < ga.next) → Bounded (addEdges copies ga es) := by
  intro es
  induction es with
  | nil => intro ga h _; exact h
  | cons e rest ih =>
    intro ga h hs
    simp only [addEdges]
    cases himg : edgeImage copies e with
    | none =>
      exact ih _ h (fun e1 h1 => hs e1 (List.mem_cons_of_mem _ h1))
    | some e' =>
      refine ih _ (h.pushEdge e' (hs e List.mem_cons_self e' himg)) ?_
      intro e1 h1 e1' himg1
      exact hs e1 (List.mem_cons_of_mem _ h1) e1' himg1

theorem addEdges_wired (copies : List (Nat × Nat)) : ∀ (es : List Edge) (ga : Graph), Wired ga →
    (∀ e ∈ es, ∀ e', edgeImage copies e = some e' → ga.inputOf e'.sub e'.port = none ∧ e'.pub.node < ga.next) →
    es.Pairwise (fun a b => ∀ a' b', edgeImage copies a = some a' → edgeImage copies b = some b' →
      ¬ (a'.sub = b'.sub ∧ a'.port = b'.port)) →
    Wired (addEdges copies ga es) := by
  intro es
  induction es with
  | nil => intro ga h _ _; exact h
  | cons e rest ih =>
    intro ga h hs hpw
    rw [List.pairwise_cons] at hpw
    simp only [addEdges]
    cases himg : edgeImage copies e with
    | none =>
      exact ih _ h (fun e1 h1 => hs e1 (List.mem_cons_of_mem _ h1)) hpw.2
    | some e' =>
      obtain ⟨hf, hp⟩ := hs e List.mem_cons_self e' himg
      refine ih _ (h.pushEdge e' hp hf) ?_ hpw.2
      intro e1 h1 e1' himg1
      obtain ⟨hf1, hp1⟩ := hs e1 (List.mem_cons_of_mem _ h1) e1' himg1
      refine ⟨?_, hp1⟩
      show (ga.pushEdge e').inputOf e1'.sub e1'.port = none
      rw [inputOf_pushEdge, hf1]
      have := hpw.1 e1 h1 _ _ himg himg1
      simp [this]

/-- the image of the subscription of `(s, k)` is the first hit for `(copy s, k)` -/
theorem findSome_imgHit (copies : List (Nat × Nat)) (hinj : ∀ u1 u2 c, copies.lookup u1 = some c → copies.lookup u2 = some c → u1 = u2)
    (s c k : Nat) (hs : copies.lookup s = some c) : ∀ (es : List Edge),
    es.Pairwise (fun e e' => ¬ (e.sub = e'.sub ∧ e.port = e'.port)) →
    es.findSome? (imgHit copies c k) =
      (es.find? (fun e => e.sub == s && e.port == k)).bind
        (fun e => (copies.lookup e.pub.node).map (fun p => (⟨p, e.pub.idx⟩ : PubRef))) := by
  intro es
  induction es with
  | nil => intro _; rfl
  | cons e rest ih =>
    intro hpw
    rw [List.pairwise_cons] at hpw
    rw [List.findSome?_cons]
    by_cases hkey : e.sub = s ∧ e.port = k
    · have hfind : (e :: rest).find? (fun e => e.sub == s && e.port == k) = some e := by
        simp [hkey.1, hkey.2]
      rw [hfind]
      simp only [Option.bind]
      have hse : copies.lookup e.sub = some c := by rw [hkey.1]; exact hs
      cases hp : copies.lookup e.pub.node with
      | none =>
        have h0 : imgHit copies c k e = none := by simp [imgHit, edgeImage, hse, hp]
        rw [h0]
        simp only [Option.map_none]
        -- no other subscription of the same port
        apply List.findSome?_eq_none_iff.mpr
        intro e1 h1
        have hne := hpw.1 e1 h1
        unfold imgHit edgeImage
        cases hs1 : copies.lookup e1.sub with
        | none => simp
        | some s1 =>
          cases hp1 : copies.lookup e1.pub.node with
          | none => simp
          | some p1 =>
            simp only
            by_cases hc : s1 = c ∧ e1.port = k
            · have : e1.sub = s := hinj _ _ _ (by rw [hs1, hc.1]) hs
              exact absurd ⟨by rw [hkey.1, this], by rw [hkey.2, hc.2]⟩ hne
            · simp [hc]
      | some p =>
        have h0 : imgHit copies c k e = some ⟨p, e.pub.idx⟩ := by simp [imgHit, edgeImage, hse, hp, hkey.2]
        rw [h0]
        simp
    · have hfind : (e :: rest).find? (fun e => e.sub == s && e.port == k) = rest.find? (fun e => e.sub == s && e.port == k) := by
        apply List.find?_cons_of_neg
        simp only [Bool.and_eq_true, beq_iff_eq]
        exact hkey
      rw [hfind]
      have h0 : imgHit copies c k e = none := by
        unfold imgHit edgeImage
        cases hs1 : copies.lookup e.sub with
        | none => simp
        | some s1 =>
          cases hp1 : copies.lookup e.pub.node with
          | none => simp
          | some p1 =>
            simp only
            by_cases hc : s1 = c ∧ e.port = k
            · have : e.sub = s := hinj _ _ _ (by rw [hs1, hc.1]) hs
              exact absurd ⟨this, hc.2⟩ hkey
            · simp [hc]
      rw [h0]
      exact ih hpw.2

/-! ### the original of a copy -/

def origOf (copies : List (Nat × Nat)) (c : Nat) : Option Nat := (copies.find? (fun e => e.2 == c)).map (·.1)

theorem copyMap_orig : ∀ (ns : List Node) (base u c : Nat), (copyMap base ns).lookup u = some c →
    origOf (copyMap base ns) c = some u := by
  intro ns
  induction ns with
  | nil => intro base u c h; simp [copyMap, List.lookup] at h
  | cons n rest ih =>
    intro base u c h
    simp only [copyMap, List.lookup] at h
    cases hu : (u == n.uid) with
    | true =>
      rw [hu] at h; simp at h; subst h
      have e : u = n.uid := by simpa using hu
      simp [origOf, copyMap, e]
    | false =>
      rw [hu] at h
      have hr := (copyMap_range _ _ _ _ h).1
      have := ih _ _ _ h
      unfold origOf at this ⊢
      simp only [copyMap]
      rw [List.find?_cons_of_neg (by simp; omega)]
      exact this

theorem origOf_none_of_lt : ∀ (ns : List Node) (base c : Nat), c < base → origOf (copyMap base ns) c = none := by
  intro ns
  induction ns with
  | nil => intro base c _; rfl
  | cons n rest ih =>
    intro base c hc
    unfold origOf
    simp only [copyMap]
    rw [List.find?_cons_of_neg (by simp; omega)]
    exact ih (base + 1) c (by omega)

theorem copyMap_key : ∀ (ns : List Node) (base u c : Nat), (copyMap base ns).lookup u = some c → ∃ n ∈ ns, n.uid = u := by
  intro ns
  induction ns with
  | nil => intro base u c h; simp [copyMap, List.lookup] at h
  | cons n rest ih =>
    intro base u c h
    simp only [copyMap, List.lookup] at h
    cases hu : (u == n.uid) with
    | true => exact ⟨n, List.mem_cons_self, by simpa using (beq_iff_eq.mp hu).symm⟩
    | false =>
      rw [hu] at h
      obtain ⟨m, hm, e⟩ := ih _ _ _ h
      exact ⟨m, List.mem_cons_of_mem _ hm, e⟩

/-- transport of a group state along a frame and an agreeing world -/
theorem StateFor.transport {g g' : Graph} {W W' : World} {gid : Nat} {a : Actor} {r : Nat} {st : Val}
    (h : StateFor g W gid a r st) (ht : g'.trainerOf gid = g.trainerOf gid)
    (hr : ∀ q : PubRef, RefOk W q r → RefOk W' q r ∧ W'.σ q = W.σ q) : StateFor g' W' gid a r st := by
  unfold StateFor at h ⊢
  rw [ht]
  by_cases hsf : a.stateful = true
  · simp only [hsf, if_true] at h ⊢
    cases htr : g.trainerOf gid with
    | none => simp only [htr] at h ⊢; exact h
    | some t =>
      simp only [htr] at h ⊢
      obtain ⟨h1, h2, h3⟩ := h
      obtain ⟨a1, a2⟩ := hr _ h1
      obtain ⟨b1, b2⟩ := hr _ h2
      exact ⟨a1, b1, by rw [a2, b2]; exact h3⟩
  · simp only [hsf] at h ⊢
    exact h

end ForML.Compose
