/-
C07: a script and its denotation (`Source.norm`, Model/GrammarNorm) are constructed alike.

  `Source.norm_of_normal`   a `normal` script is its own denotation
  `Source.normal_norm`      every denotation is `normal`
  `Source.construct_norm`   `construct r = construct r.norm` wherever the denotation is `tame`
-/
import ForML.Model.GrammarNorm
import ForML.Lemmas.C07Main

namespace ForML.Dsl

/-! ### `normal` scripts denote themselves -/

mutual
theorem Feature.norm_of_normal : (f : Feature) → f.normal = true → f.norm = f
  | .lit _, _ => rfl
  | .elem o n, h => by
    simp only [Feature.normal] at h
    simp only [Feature.norm, Source.norm_of_normal o h]
  | .alias f n, h => by
    simp only [Feature.normal, Bool.and_eq_true, Bool.not_eq_true'] at h
    simp only [Feature.norm, Feature.norm_of_normal f h.2, Feature.operable_of_not_alias f h.1]
  | .expr op args, h => by
    simp only [Feature.normal] at h
    simp only [Feature.norm, Features.norm_of_normal args h]
  | .cast f k, h => by
    simp only [Feature.normal] at h
    simp only [Feature.norm, Feature.norm_of_normal f h]
  | .window fn ps os, h => by
    simp only [Feature.normal, Bool.and_eq_true] at h
    simp only [Feature.norm, Feature.norm_of_normal fn h.1.1, Features.norm_of_normal ps h.1.2,
      Orderings.norm_of_normal os h.2]
theorem Features.norm_of_normal : (fs : Features) → fs.normal = true → fs.norm = fs
  | .nil, _ => rfl
  | .cons f fs, h => by
    simp only [Features.normal, Bool.and_eq_true] at h
    simp only [Features.norm, Feature.norm_of_normal f h.1, Features.norm_of_normal fs h.2]
theorem FeatureOpt.norm_of_normal : (c : FeatureOpt) → c.normal = true → c.norm = c
  | .none, _ => rfl
  | .some f, h => by
    simp only [FeatureOpt.normal] at h
    simp only [FeatureOpt.norm, Feature.norm_of_normal f h]
theorem Ordering.norm_of_normal : (o : Ordering) → o.normal = true → o.norm = o
  | .mk f d, h => by
    simp only [Ordering.normal] at h
    simp only [Ordering.norm, Feature.norm_of_normal f h]
theorem Orderings.norm_of_normal : (os : Orderings) → os.normal = true → os.norm = os
  | .nil, _ => rfl
  | .cons o os, h => by
    simp only [Orderings.normal, Bool.and_eq_true] at h
    simp only [Orderings.norm, Ordering.norm_of_normal o h.1, Orderings.norm_of_normal os h.2]
theorem Source.norm_of_normal : (s : Source) → s.normal = true → s.norm = s
  | .table _ _, _ => rfl
  | .ref i n, h => by
    simp only [Source.normal, Bool.and_eq_true, Bool.not_eq_true'] at h
    simp only [Source.norm, Source.norm_of_normal i h.2, Source.inst_of_not_ref i h.1]
  | .join l r k c, h => by
    simp only [Source.normal, Bool.and_eq_true] at h
    simp only [Source.norm, Source.norm_of_normal l h.1.1, Source.norm_of_normal r h.1.2, FeatureOpt.norm_of_normal c h.2]
  | .set l r k, h => by
    simp only [Source.normal, Bool.and_eq_true] at h
    simp only [Source.norm, Source.norm_of_normal l h.1.2, Source.norm_of_normal r h.2,
      Source.statement_of_isStatement l h.1.1.1, Source.statement_of_isStatement r h.1.1.2]
  | .query s sel pre grp post ord rows, h => by
    simp only [Source.normal, Bool.and_eq_true] at h
    obtain ⟨⟨⟨⟨⟨hs, hsel⟩, hpre⟩, hgrp⟩, hpost⟩, hord⟩ := h
    simp only [Source.norm, Source.norm_of_normal s hs, Features.norm_of_normal sel hsel,
      FeatureOpt.norm_of_normal pre hpre, Features.norm_of_normal grp hgrp, FeatureOpt.norm_of_normal post hpost,
      Orderings.norm_of_normal ord hord]
end

/-! ### every denotation is `normal` -/

theorem Feature.operable_not_alias_of_normal (f : Feature) (h : f.normal = true) : f.operable.isAlias = false := by
  cases f <;> simp_all [Feature.operable, Feature.isAlias, Feature.normal]

theorem Feature.operable_normal (f : Feature) (h : f.normal = true) : f.operable.normal = true := by
  cases f <;> simp_all [Feature.operable, Feature.normal]

theorem Source.inst_not_ref_of_normal (s : Source) (h : s.normal = true) : s.inst.isRef = false := by
  cases s <;> simp_all [Source.inst, Source.isRef, Source.normal]

theorem Source.inst_normal (s : Source) (h : s.normal = true) : s.inst.normal = true := by
  cases s <;> simp_all [Source.inst, Source.normal]

theorem Source.statement_isStatement (s : Source) : s.statement.isStatement = true := by
  unfold Source.statement
  split
  · assumption
  · rfl

theorem Source.statement_normal (s : Source) (h : s.normal = true) : s.statement.normal = true := by
  unfold Source.statement
  split
  · exact h
  · simp [Source.normal, h, Features.normal, FeatureOpt.normal, Orderings.normal]

mutual
theorem Feature.normal_norm : (f : Feature) → f.norm.normal = true
  | .lit _ => rfl
  | .elem o n => by simp only [Feature.norm, Feature.normal, Source.normal_norm o]
  | .alias f n => by
    simp only [Feature.norm, Feature.normal, Bool.and_eq_true, Bool.not_eq_true']
    exact ⟨Feature.operable_not_alias_of_normal _ (Feature.normal_norm f), Feature.operable_normal _ (Feature.normal_norm f)⟩
  | .expr op args => by simp only [Feature.norm, Feature.normal, Features.normal_norm args]
  | .cast f k => by simp only [Feature.norm, Feature.normal, Feature.normal_norm f]
  | .window fn ps os => by
    simp only [Feature.norm, Feature.normal, Feature.normal_norm fn, Features.normal_norm ps, Orderings.normal_norm os,
      Bool.and_self]
theorem Features.normal_norm : (fs : Features) → fs.norm.normal = true
  | .nil => rfl
  | .cons f fs => by simp only [Features.norm, Features.normal, Feature.normal_norm f, Features.normal_norm fs, Bool.and_self]
theorem FeatureOpt.normal_norm : (c : FeatureOpt) → c.norm.normal = true
  | .none => rfl
  | .some f => by simp only [FeatureOpt.norm, FeatureOpt.normal, Feature.normal_norm f]
theorem Ordering.normal_norm : (o : Ordering) → o.norm.normal = true
  | .mk f d => by simp only [Ordering.norm, Ordering.normal, Feature.normal_norm f]
theorem Orderings.normal_norm : (os : Orderings) → os.norm.normal = true
  | .nil => rfl
  | .cons o os => by
    simp only [Orderings.norm, Orderings.normal, Ordering.normal_norm o, Orderings.normal_norm os, Bool.and_self]
theorem Source.normal_norm : (s : Source) → s.norm.normal = true
  | .table _ _ => rfl
  | .ref i n => by
    simp only [Source.norm, Source.normal, Bool.and_eq_true, Bool.not_eq_true']
    exact ⟨Source.inst_not_ref_of_normal _ (Source.normal_norm i), Source.inst_normal _ (Source.normal_norm i)⟩
  | .join l r k c => by
    simp only [Source.norm, Source.normal, Source.normal_norm l, Source.normal_norm r, FeatureOpt.normal_norm c, Bool.and_self]
  | .set l r k => by
    simp only [Source.norm, Source.normal, Source.statement_isStatement,
      Source.statement_normal _ (Source.normal_norm l), Source.statement_normal _ (Source.normal_norm r), Bool.and_self]
  | .query s sel pre grp post ord rows => by
    simp only [Source.norm, Source.normal, Source.normal_norm s, Features.normal_norm sel, FeatureOpt.normal_norm pre,
      Features.normal_norm grp, FeatureOpt.normal_norm post, Orderings.normal_norm ord, Bool.and_self]
end

/-! ### `construct r = construct r.norm` -/

theorem Feature.tame_operable (f : Feature) : f.operable.tame = f.tame := by
  cases f <;> simp [Feature.operable, Feature.tame]

theorem Source.tame_of_inst (s : Source) (ht : s.inst.tame = true) (hp : s.inst.plain = true) : s.tame = true := by
  cases s <;> simp_all [Source.inst, Source.tame]

theorem Source.tame_of_statement (s : Source) (ht : s.statement.tame = true) : s.tame = true := by
  unfold Source.statement at ht
  split at ht
  · exact ht
  · simpa [Source.tame, Features.tame, FeatureOpt.tame, Orderings.tame] using ht

/-- `Aliased.__new__` takes `.operable`: an alias of an alias is an alias of the inner feature -/
theorem construct_alias_operable (eqv : Feature → Feature → Bool) (h : Feature) (n : String) :
    (do let f' ← Feature.construct eqv h; (Except.ok (.alias f'.operable n) : R Feature)) =
    (do let g ← Feature.construct eqv h.operable; (Except.ok (.alias g.operable n) : R Feature)) := by
  cases h with
  | alias g m =>
    simp only [Feature.construct, Feature.operable]
    cases Feature.construct eqv g <;> simp [bind, Except.bind]
  | lit _ | elem _ _ | expr _ _ | cast _ _ | window _ _ _ => rfl

/-- `Reference.__new__` takes `.instance`: a reference of a reference is a reference of the inner source -/
theorem construct_ref_inst (eqv : Feature → Feature → Bool) (h : Source) (n : String) :
    (do let i' ← Source.construct eqv h; (Except.ok (.ref i'.inst n) : R Source)) =
    (do let j ← Source.construct eqv h.inst; (Except.ok (.ref j.inst n) : R Source)) := by
  cases h with
  | ref j m =>
    simp only [Source.construct, Source.inst]
    cases Source.construct eqv j <;> simp [bind, Except.bind]
  | table _ _ | join _ _ _ _ | set _ _ _ | query _ _ _ _ _ _ _ => rfl

theorem Feature.norm_eq_rownumber (fn : Feature) : (fn.norm == .expr .rownumber .nil) = (fn == .expr .rownumber .nil) := by
  rw [Bool.eq_iff_iff]
  simp only [beq_iff_eq]
  cases fn with
  | expr op args =>
    cases args with
    | nil => simp [Feature.norm, Features.norm]
    | cons a as => simp [Feature.norm, Features.norm]
  | lit _ | elem _ _ | alias _ _ | cast _ _ | window _ _ _ => simp [Feature.norm]

theorem Source.schemaOf_statement (s : Source) : s.statement.schemaOf = s.schemaOf := by
  unfold Source.statement
  split
  · rfl
  · simp [Source.schemaOf, Source.entries, Features.isEmpty]

theorem Source.statement_statement (s : Source) : s.statement.statement = s.statement :=
  Source.statement_of_isStatement _ (Source.statement_isStatement s)

/-- `Set.__new__` stores `.statement`: a bare origin stands for the query selecting everything from it -/
theorem construct_statement (x : Source) (hn : x.normal = true) (ht : x.tame = true) :
    Source.construct structEqv x.statement = (do let x' ← Source.construct structEqv x; Except.ok x'.statement) := by
  by_cases hs : x.isStatement = true
  · rw [Source.statement_of_isStatement x hs]
    cases h : Source.construct structEqv x with
    | error e => rfl
    | ok x' =>
      obtain ⟨rfl, _⟩ := (Source.construct_iff x hn ht x').mp h
      simp [bind, Except.bind, Source.statement_of_isStatement _ hs]
  · have hq : x.statement = .query x .nil .none .nil .none .nil none := by simp [Source.statement, hs]
    rw [hq]
    simp only [Source.construct, Features.construct, FeatureOpt.construct, Orderings.construct]
    cases h : Source.construct structEqv x with
    | error e => rfl
    | ok x' =>
      obtain ⟨rfl, _⟩ := (Source.construct_iff x hn ht x').mp h
      simp [bind, Except.bind, checkQuery, Source.featuresOf_outs x' ht, Features.toList, FeatureOpt.toOption,
        Orderings.toList, subsetBy, dissectAll, checkFilter, checkGrouping, guardG, hq]

mutual
theorem Feature.construct_norm : (f : Feature) → f.norm.tame = true →
    Feature.construct structEqv f = Feature.construct structEqv f.norm
  | .lit _, _ => rfl
  | .elem o n, ht => by
    simp only [Feature.norm, Feature.tame, Bool.and_eq_true] at ht
    simp only [Feature.norm, Feature.construct, Source.construct_norm o ht.1]
  | .alias f n, ht => by
    simp only [Feature.norm, Feature.tame, Feature.tame_operable] at ht
    simp only [Feature.norm, Feature.construct, Feature.construct_norm f ht]
    exact construct_alias_operable structEqv f.norm n
  | .expr op args, ht => by
    simp only [Feature.norm, Feature.tame] at ht
    simp only [Feature.norm, Feature.construct, Features.construct_norm args ht]
  | .cast f k, ht => by
    simp only [Feature.norm, Feature.tame] at ht
    simp only [Feature.norm, Feature.construct, Feature.construct_norm f ht]
  | .window fn ps os, ht => by
    simp only [Feature.norm, Feature.tame, Bool.and_eq_true] at ht
    simp only [Feature.norm, Feature.construct, Features.construct_norm ps ht.1.2, Orderings.construct_norm os ht.2,
      Feature.norm_eq_rownumber]
    by_cases hr : fn = .expr .rownumber .nil
    · subst hr
      simp [Feature.norm, Features.norm]
    · have hb : (fn == Feature.expr Op.rownumber Features.nil) = false := by simpa using hr
      simp only [hb, Bool.false_eq_true, if_false, Feature.construct_norm fn ht.1.1]
theorem Features.construct_norm : (fs : Features) → fs.norm.tame = true →
    Features.construct structEqv fs = Features.construct structEqv fs.norm
  | .nil, _ => rfl
  | .cons f fs, ht => by
    simp only [Features.norm, Features.tame, Bool.and_eq_true] at ht
    simp only [Features.norm, Features.construct, Feature.construct_norm f ht.1, Features.construct_norm fs ht.2]
theorem FeatureOpt.construct_norm : (c : FeatureOpt) → c.norm.tame = true →
    FeatureOpt.construct structEqv c = FeatureOpt.construct structEqv c.norm
  | .none, _ => rfl
  | .some f, ht => by
    simp only [FeatureOpt.norm, FeatureOpt.tame] at ht
    simp only [FeatureOpt.norm, FeatureOpt.construct, Feature.construct_norm f ht]
theorem Ordering.construct_norm : (o : Ordering) → o.norm.tame = true →
    Ordering.construct structEqv o = Ordering.construct structEqv o.norm
  | .mk f d, ht => by
    simp only [Ordering.norm, Ordering.tame] at ht
    simp only [Ordering.norm, Ordering.construct, Feature.construct_norm f ht]
theorem Orderings.construct_norm : (os : Orderings) → os.norm.tame = true →
    Orderings.construct structEqv os = Orderings.construct structEqv os.norm
  | .nil, _ => rfl
  | .cons o os, ht => by
    simp only [Orderings.norm, Orderings.tame, Bool.and_eq_true] at ht
    simp only [Orderings.norm, Orderings.construct, Ordering.construct_norm o ht.1, Orderings.construct_norm os ht.2]
theorem Source.construct_norm : (s : Source) → s.norm.tame = true →
    Source.construct structEqv s = Source.construct structEqv s.norm
  | .table _ _, _ => rfl
  | .ref i n, ht => by
    simp only [Source.norm, Source.tame, Bool.and_eq_true] at ht
    have hti : i.norm.tame = true := Source.tame_of_inst _ ht.1 ht.2
    simp only [Source.norm, Source.construct, Source.construct_norm i hti]
    exact construct_ref_inst structEqv i.norm n
  | .join l r k c, ht => by
    simp only [Source.norm, Source.tame, Bool.and_eq_true] at ht
    simp only [Source.norm, Source.construct, Source.construct_norm l ht.1.1, Source.construct_norm r ht.1.2,
      FeatureOpt.construct_norm c ht.2]
  | .set l r k, ht => by
    simp only [Source.norm, Source.tame, Bool.and_eq_true] at ht
    have htl : l.norm.tame = true := Source.tame_of_statement _ ht.1.1.1
    have htr : r.norm.tame = true := Source.tame_of_statement _ ht.1.1.2
    simp only [Source.norm, Source.construct, Source.construct_norm l htl, Source.construct_norm r htr,
      construct_statement _ (Source.normal_norm l) htl, construct_statement _ (Source.normal_norm r) htr]
    cases Source.construct structEqv l.norm with
    | error e => rfl
    | ok l' =>
      cases Source.construct structEqv r.norm with
      | error e => rfl
      | ok r' =>
        simp [bind, Except.bind, checkSet, Source.schemaOf_statement, Source.statement_statement]
  | .query s sel pre grp post ord rows, ht => by
    simp only [Source.norm, Source.tame, Bool.and_eq_true] at ht
    obtain ⟨⟨⟨⟨⟨hs, hsel⟩, hpre⟩, hgrp⟩, hpost⟩, hord⟩ := ht
    simp only [Source.norm, Source.construct, Source.construct_norm s hs, Features.construct_norm sel hsel,
      FeatureOpt.construct_norm pre hpre, Features.construct_norm grp hgrp, FeatureOpt.construct_norm post hpost,
      Orderings.construct_norm ord hord]
end

end ForML.Dsl
