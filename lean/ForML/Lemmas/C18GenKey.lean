/-
C18 helper lemmas: the decimal text of a natural number is read back by `int()` as that number
(`Generation.Key(str(k)) = k`), and `parseInt` on plain digit strings is the positional value.
-/
import ForML.Model.Keys

namespace ForML.Keys

/-- positional value of a digit string, left to right from `acc` -/
def valOf (acc : Nat) (ds : List Nat) : Nat := ds.foldl (fun a c => a * 10 + (c - 48)) acc

theorem digitsVal_digits (ds : List Nat) (acc : Nat) (pd : Bool) (hd : ∀ c ∈ ds, isDigit c = true)
    (hne : ds ≠ [] ∨ pd = true) : digitsVal acc pd ds = some (valOf acc ds) := by
  induction ds generalizing acc pd with
  | nil =>
    rcases hne with h | h
    · exact absurd rfl h
    · simp [digitsVal, valOf, h]
  | cons c r ih =>
    have hc := hd c (by simp)
    rw [digitsVal, if_pos hc, ih _ _ (fun d hd' => hd d (by simp [hd'])) (Or.inr rfl)]
    rfl

theorem lstrip_head (c : Nat) (r : List Nat) (h : isSpace c = false) : lstrip (c :: r) = c :: r := by
  simp [lstrip, h]

/-- nothing is stripped from a non-empty text that neither starts nor ends with white space -/
theorem strip_id (s : List Nat) (hne : s ≠ []) (hh : ∀ c, s.head? = some c → isSpace c = false)
    (hl : ∀ c, s.getLast? = some c → isSpace c = false) : strip s = s := by
  unfold strip
  cases s with
  | nil => exact absurd rfl hne
  | cons a r =>
    rw [lstrip_head a r (hh a rfl)]
    cases hrev : (a :: r).reverse with
    | nil => simp at hrev
    | cons b t =>
      have hb : (a :: r).getLast? = some b := by
        rw [List.getLast?_eq_head?_reverse, hrev]; rfl
      rw [lstrip_head b t (hl b hb), ← hrev, List.reverse_reverse]

theorem isDigit_not_space (c : Nat) (h : isDigit c = true) : isSpace c = false := by
  simp only [isDigit, Bool.and_eq_true, decide_eq_true_eq] at h
  simp only [isSpace, Bool.or_eq_false_iff, Bool.and_eq_false_iff, beq_eq_false_iff_ne, decide_eq_false_iff_not]
  omega

/-- **`int()` on a plain non-empty digit string is its positional value** -/
theorem parseInt_digits (ds : List Nat) (hne : ds ≠ []) (hd : ∀ c ∈ ds, isDigit c = true) :
    parseInt ds = some (Int.ofNat (valOf 0 ds)) := by
  have hs : strip ds = ds := by
    apply strip_id ds hne
    · intro c hc; exact isDigit_not_space c (hd c (List.mem_of_head? hc))
    · intro c hc; exact isDigit_not_space c (hd c (List.mem_of_getLast? hc))
  unfold parseInt
  rw [hs]
  cases ds with
  | nil => exact absurd rfl hne
  | cons c r =>
    have hc := hd c (by simp)
    simp only [isDigit, Bool.and_eq_true, decide_eq_true_eq] at hc
    have h43 : (c == 43) = false := by simp; omega
    have h45 : (c == 45) = false := by simp; omega
    simp only [h43, h45, Bool.false_eq_true, if_false]
    rw [digitsVal_digits (c :: r) 0 false hd (Or.inl (by simp))]
    rfl

/-! ### `str(n)` -/

theorem digitsLE_digits (f n : Nat) : ∀ c ∈ digitsLE f n, isDigit c = true := by
  induction f generalizing n with
  | zero => simp [digitsLE]
  | succ f ih =>
    intro c hc
    rw [digitsLE] at hc
    split at hc
    · simp at hc; subst hc; simp [isDigit]; omega
    · rcases List.mem_cons.mp hc with e | hc
      · subst e; simp [isDigit]; omega
      · exact ih _ c hc

theorem digitsLE_ne_nil (f n : Nat) : digitsLE (f + 1) n ≠ [] := by
  rw [digitsLE]; split <;> simp

/-- value of little-endian digits -/
def valLE : List Nat → Nat
  | [] => 0
  | c :: r => valLE r * 10 + (c - 48)

theorem valOf_append_single (acc : Nat) (ds : List Nat) (c : Nat) :
    valOf acc (ds ++ [c]) = valOf acc ds * 10 + (c - 48) := by
  simp [valOf, List.foldl_append]

theorem valOf_reverse (l : List Nat) : valOf 0 l.reverse = valLE l := by
  induction l with
  | nil => rfl
  | cons c r ih => rw [List.reverse_cons, valOf_append_single, ih]; rfl

theorem valLE_digitsLE (f n : Nat) (h : n < f) : valLE (digitsLE f n) = n := by
  induction f generalizing n with
  | zero => omega
  | succ f ih =>
    rw [digitsLE]
    split
    · simp [valLE]
    · rename_i hge
      have := ih (n / 10) (by omega)
      simp only [valLE, this]
      omega

/-- `str(n)` consists of digits only, is not empty, and denotes `n` -/
theorem natStr_spec (n : Nat) :
    natStr n ≠ [] ∧ (∀ c ∈ natStr n, isDigit c = true) ∧ valOf 0 (natStr n) = n := by
  unfold natStr
  refine ⟨?_, ?_, ?_⟩
  · intro h
    exact digitsLE_ne_nil n n (List.reverse_eq_nil_iff.mp h)
  · intro c hc
    exact digitsLE_digits _ _ c (List.mem_reverse.mp hc)
  · rw [valOf_reverse, valLE_digitsLE _ _ (by omega)]

theorem parseInt_natStr (n : Nat) : parseInt (natStr n) = some (Int.ofNat n) := by
  obtain ⟨h1, h2, h3⟩ := natStr_spec n
  rw [parseInt_digits _ h1 h2, h3]

/-- **`Generation.Key(str(k)) = k`** for every natural `k ≥ 1`; `str(0)` is rejected as not natural -/
theorem genKey_natStr (n : Nat) : genKey (natStr n) = if 1 ≤ n then .ok n else .error .notNatural := by
  unfold genKey genMin
  rw [parseInt_natStr]
  by_cases h : 1 ≤ n
  · simp [h]; omega
  · have : n = 0 := by omega
    subst this
    simp

end ForML.Keys
