/-
Helper lemmas for C15: memoised functions over histories (Model/EntryMemo.lean).
-/
import ForML.Model.EntryMemo
set_option linter.unusedSectionVars false
set_option linter.unusedSimpArgs false
namespace ForML.Entry

section memo
variable {α κ β : Type} [DecidableEq κ]

/-- every stored answer is the function's answer for every (good) argument filed under that key -/
def MemoInv (key : α → κ) (f : α → β) (Good : α → Prop) (m : Cache κ β) : Prop :=
  ∀ k r, (k, r) ∈ m → ∀ x, Good x → key x = k → f x = r

/-- the key determines the answer (among the good arguments) -/
def KeySound (key : α → κ) (f : α → β) (Good : α → Prop) : Prop :=
  ∀ x y, Good x → Good y → key x = key y → f x = f y

theorem lookup_mem (m : Cache κ β) (k : κ) (r : β) (h : m.lookup k = some r) : (k, r) ∈ m := by
  induction m with
  | nil => simp [List.lookup] at h
  | cons p m ih =>
    obtain ⟨k', r'⟩ := p
    simp only [List.lookup] at h
    split at h
    · rename_i heq
      have : k = k' := by simpa using heq
      cases h; subst this; exact List.mem_cons_self
    · exact List.mem_cons_of_mem _ (ih h)

theorem lookup_none_of_nil (k : κ) : ([] : Cache κ β).lookup k = none := rfl

theorem MemoInv.nil (key : α → κ) (f : α → β) (Good : α → Prop) : MemoInv key f Good [] := by
  intro k r h; cases h

theorem MemoInv.sub (key : α → κ) (f : α → β) (Good : α → Prop) (m m' : Cache κ β)
    (h : MemoInv key f Good m) (hs : ∀ p ∈ m', p ∈ m) : MemoInv key f Good m' :=
  fun k r hm => h k r (hs _ hm)

theorem trim_sub {γ : Type} (cap : Option Nat) (l : List γ) : ∀ p ∈ trim cap l, p ∈ l := by
  intro p hp
  cases cap with
  | none => exact hp
  | some n => exact List.mem_of_mem_take hp

/-- one call: the answer is the function's answer, and the cache stays right -/
theorem memoCall_spec (cap : Option Nat) (key : α → κ) (f : α → β) (store : β → Bool) (Good : α → Prop)
    (hs : KeySound key f Good) (m : Cache κ β) (hinv : MemoInv key f Good m) (x : α) (hx : Good x) :
    (memoCall cap key f store m x).1 = f x ∧ MemoInv key f Good (memoCall cap key f store m x).2 := by
  unfold memoCall
  cases hl : m.lookup (key x) with
  | some r =>
    have hm := lookup_mem m (key x) r hl
    have hr : f x = r := hinv _ _ hm x hx rfl
    refine ⟨hr.symm, ?_⟩
    intro k r' hmem y hy hk
    rcases List.mem_cons.mp hmem with heq | hin
    · cases heq; exact (hs y x hy hx hk).trans hr
    · exact hinv k r' (List.mem_filter.mp hin).1 y hy hk
  | none =>
    simp only
    split
    · refine ⟨rfl, ?_⟩
      intro k r' hmem y hy hk
      rcases List.mem_cons.mp (trim_sub cap _ _ hmem) with heq | hin
      · cases heq; exact hs y x hy hx hk
      · exact hinv k r' hin y hy hk
    · exact ⟨rfl, hinv⟩

/-- **a history through a memo whose key determines the answer**: every call is answered as if nothing had been
asked before — whatever the capacity, the eviction and the (correct) initial content of the cache -/
theorem memoRun_eq (cap : Option Nat) (key : α → κ) (f : α → β) (store : β → Bool) (Good : α → Prop)
    (hs : KeySound key f Good) (xs : List α) (hx : ∀ x ∈ xs, Good x) (m : Cache κ β)
    (hinv : MemoInv key f Good m) : (memoRun cap key f store m xs).1 = xs.map f := by
  induction xs generalizing m with
  | nil => rfl
  | cons x xs ih =>
    obtain ⟨h1, h2⟩ := memoCall_spec cap key f store Good hs m hinv x (hx x List.mem_cons_self)
    simp only [memoRun, List.map_cons]
    rw [h1, ih (fun y hy => hx y (List.mem_cons_of_mem _ hy)) _ h2]

/-- **a key that files two arguments with different answers together makes the answer depend on the history**: after
`x`, the call for `y` is answered with `x`'s answer -/
theorem memoRun_collision (cap : Option Nat) (hcap : cap ≠ some 0) (key : α → κ) (f : α → β) (store : β → Bool)
    (x y : α) (hk : key x = key y) (hst : store (f x) = true) :
    (memoRun cap key f store [] [x, y]).1 = [f x, f x] := by
  have htrim : trim cap [(key x, f x)] = [(key x, f x)] := by
    cases cap with
    | none => rfl
    | some n =>
      cases n with
      | zero => exact absurd rfl hcap
      | succ n => simp [trim]
  rw [hk] at htrim
  simp [memoRun, memoCall, List.lookup, hst, htrim, hk]

end memo

/-! ### the reader over a history -/

theorem readerRun_eq {α : Type} (km : Kind → Kind → Bool) (cast : Kind → α → Option α) (legacy : Bool)
    (cap : Option Nat) (reqs : List (Req α)) (m : Cache (List Field × List Field) (Bool × Option (List Nat)))
    (hinv : MemoInv exactKey matchSchemas (fun _ => True) m) :
    readerRun km cast legacy cap exactKey m reqs = reqs.map (fun r => readerCall km cast legacy r.q r.e r.data) := by
  induction reqs generalizing m with
  | nil => rfl
  | cons r rs ih =>
    have hs : KeySound exactKey matchSchemas (fun _ => True) := by
      intro x y _ _ h; simp only [exactKey] at h; rw [h]
    obtain ⟨h1, h2⟩ := memoCall_spec cap exactKey matchSchemas (fun _ => true) (fun _ => True) hs m hinv (r.q, r.e) trivial
    simp only [readerRun, List.map_cons]
    rw [h1, ih _ h2]
    rfl

/-! ### `Schema.from_frame` over a history -/

private theorem dtypeOf_inj (v v' : VClass) (h : dtypeOf v = dtypeOf v') (ho : dtypeOf v ≠ .object)
    (h1 : v ≠ .npbool ∧ v ≠ .npint ∧ v ≠ .npfloat) (h2 : v' ≠ .npbool ∧ v' ≠ .npint ∧ v' ≠ .npfloat) : v = v' := by
  cases v <;> cases v' <;> simp_all [dtypeOf]

private theorem cols_eq (cs cs' : List FCol)
    (hk : cs.map (fun c => (c.name, c.dtype)) = cs'.map (fun c => (c.name, c.dtype)))
    (h : ∀ c ∈ cs, c.dtype ≠ .object ∧ ∃ v, c.cls = some v ∧ dtypeOf v = c.dtype ∧ v ≠ .npbool ∧ v ≠ .npint ∧ v ≠ .npfloat)
    (h' : ∀ c ∈ cs', c.dtype ≠ .object ∧ ∃ v, c.cls = some v ∧ dtypeOf v = c.dtype ∧ v ≠ .npbool ∧ v ≠ .npint ∧ v ≠ .npfloat) :
    cs = cs' := by
  induction cs generalizing cs' with
  | nil => cases cs' with
    | nil => rfl
    | cons c' cs' => simp at hk
  | cons c cs ih =>
    cases cs' with
    | nil => simp at hk
    | cons c' cs' =>
      simp only [List.map_cons, List.cons.injEq, Prod.mk.injEq] at hk
      obtain ⟨⟨hn, hd⟩, hrest⟩ := hk
      obtain ⟨ho, v, hv, hdv, hnp⟩ := h c List.mem_cons_self
      obtain ⟨_, v', hv', hdv', hnp'⟩ := h' c' List.mem_cons_self
      have hvv : v = v' := dtypeOf_inj v v' (by rw [hdv, hdv', hd]) (by rw [hdv]; exact ho) hnp hnp'
      have hc : c = c' := by
        cases c; cases c'; simp_all
      rw [hc, ih cs' hrest (fun c hc => h c (List.mem_cons_of_mem _ hc)) (fun c hc => h' c (List.mem_cons_of_mem _ hc))]

/-- for frames whose dtypes determine the value classes the cache key determines the inferred schema -/
theorem frameKey_sound (isinst : Kind → VClass → Bool) (rank : Kind → Nat) :
    KeySound frameKey (inferSchema isinst rank) Determined := by
  intro x y hx hy hk
  have hc : x.cols = y.cols := cols_eq x.cols y.cols hk hx.2 hy.2
  unfold inferSchema
  rw [hc]
  have h1 : x.nrows ≠ 0 := by have := hx.1; omega
  have h2 : y.nrows ≠ 0 := by have := hy.1; omega
  simp [h1, h2]

end ForML.Entry
