/-
C03 ↔ C01 bridge, lemmas part 4: the decidable side conditions as propositions, fuel independence of C01's direct
evaluation, and the two instances of the simulation: the train segment (no asset accessor) and the apply segment (the
accessor holding, at the list positions of `Composition.persistent`, the states the train run computed).
-/
import ForML.Lemmas.C03BridgeEval
import ForML.Lemmas.C03BridgeComp
import ForML.Props.C01

namespace ForML.Compose
open ForML

/-! ### the bookkeeping check as propositions -/

structure TrainsOK (g : Graph) (M : List Nat) : Prop where
  gidNodup : g.trains.Pairwise (fun a b => a.gid ≠ b.gid)
  trainKind : ∀ T ∈ g.trains, ∃ o, g.kindOf T.node = some (.worker T.gid T.actor 1 o)
  trainNoIn : ∀ T ∈ g.trains, ∀ k, g.inputOf T.node k = none
  trainIn : ∀ T ∈ g.trains, T.node ∈ M →
    (∀ x, g.resolve g.resolveFuel T.train = some x → x.node ∈ M) ∧ (∀ y, g.resolve g.resolveFuel T.label = some y → y.node ∈ M)
  groupActor : ∀ n gid a i o T, n < g.next → g.kindOf n = some (.worker gid a i o) → g.trainerOf gid = some T → T.actor = a
  tags : ∀ w ∈ g.allWorkers, w.uid ∈ M → w.actor < 1000

theorem trainsOK_spec {g : Graph} {M : List Nat} (h : g.trainsOK M = true) : TrainsOK g M := by
  simp only [Graph.trainsOK, Bool.and_eq_true, List.all_eq_true] at h
  obtain ⟨⟨⟨h1, h2⟩, h3⟩, h4⟩ := h
  have hT : ∀ T ∈ g.trains, (∃ o, g.kindOf T.node = some (.worker T.gid T.actor 1 o)) ∧ (∀ e ∈ g.edges, e.sub ≠ T.node) ∧
      (T.node ∈ M → (∀ x, g.resolve g.resolveFuel T.train = some x → x.node ∈ M) ∧
        (∀ y, g.resolve g.resolveFuel T.label = some y → y.node ∈ M)) := by
    intro T hTm
    obtain ⟨⟨hk, he⟩, hm⟩ := h2 T hTm
    refine ⟨?_, ?_, ?_⟩
    · cases hkk : g.kindOf T.node with
      | none => simp [hkk] at hk
      | some kd =>
        cases kd with
        | future => simp [hkk] at hk
        | worker gid a i o =>
          simp only [hkk, Bool.and_eq_true, beq_iff_eq, decide_eq_true_eq] at hk
          obtain ⟨⟨e1, e2⟩, e3⟩ := hk
          subst e1; subst e2; subst e3
          exact ⟨o, rfl⟩
    · intro e hem
      have := he e hem
      simpa using this
    · intro hM
      have hc : M.contains T.node = true := by simpa using hM
      simp only [hc, Bool.not_true, Bool.false_or, Bool.and_eq_true] at hm
      obtain ⟨m1, m2⟩ := hm
      constructor
      · intro x hx; rw [hx] at m1; simpa using m1
      · intro y hy; rw [hy] at m2; simpa using m2
  refine ⟨?_, fun T hTm => (hT T hTm).1, ?_, fun T hTm => (hT T hTm).2.2, ?_, ?_⟩
  · have := (Flow.Segment.allDistinct_iff_nodup _).mp h1
    exact List.pairwise_map.mp this
  · intro T hTm k
    unfold Graph.inputOf
    have : g.edges.find? (fun e => e.sub == T.node && e.port == k) = none := by
      apply List.find?_eq_none.mpr
      intro e he
      have := (hT T hTm).2.1 e he
      simp [this]
    rw [this]; rfl
  · intro n gid a i o T hn hk hT'
    have hw : (⟨n, gid, a.tag, a.stateful, i, o⟩ : Flow.Worker) ∈ g.allWorkers := mem_allWorkers.mpr ⟨hn, by rw [hk]⟩
    have := h3 _ hw
    simp only [hT', Bool.and_eq_true, beq_iff_eq] at this
    have ext : ∀ (x y : Actor), x.tag = y.tag → x.stateful = y.stateful → x = y := by
      intro x y h1 h2; cases x; cases y; simp_all
    exact ext _ _ this.1 this.2
  · intro w hw hM
    have := h4 w hw
    have hc : M.contains w.uid = true := by simpa using hM
    simp only [hc, Bool.not_true, Bool.false_or, decide_eq_true_eq] at this
    exact this

/-! ### fuel independence of `nodeVal` (through any denoting table) -/

theorem nodeVal_fuel {s : Flow.Segment} {A : Option Flow.Assets} {rank : Nat → Nat} (hwf : s.wf rank = true)
    (hA : s.assetsOK A = true) (hc : s.connected = true) {n : Nat} {w : Flow.Worker} (hw : s.worker? n = some w) {F : Nat}
    (hF : s.evalFuel ≤ F) : s.nodeVal A F n = s.nodeVal A s.evalFuel n := by
  obtain ⟨t, _, hd, _⟩ := Flow.compile_denotes hwf hA (Flow.Segment.visitOrder_perm hwf hc)
  have h1 := hd.nodeVal (Flow.Segment.wf_WF hwf) (Flow.Segment.assetsOK_AssetsOK hA) F n w hw
    (by have := Flow.Segment.cntW_le s rank n; unfold Flow.Segment.evalFuel at hF; omega)
  have h2 := hd.nodeVal (Flow.Segment.wf_WF hwf) (Flow.Segment.assetsOK_AssetsOK hA) s.evalFuel n w hw
    (by have := Flow.Segment.cntW_le s rank n; unfold Flow.Segment.evalFuel; omega)
  rw [h1, h2]

/-! ### the tail and the trained forks of a translated segment -/

section
variable {g : Graph} {W : World} {M : List Nat} {head tl : Nat} {A : Option Flow.Assets} {rank : Nat → Nat}
variable (H : BridgeHyp g W M head tl A rank)
include H

theorem BridgeHyp.tail_value (tail : PubRef) (hl : W.live tail.node) (htl : tl = tailNode g tail)
    (hs : tailSimple (segmentOn g M head tl) = true) :
    ∀ F, 2 * g.next + 2 < F → (segmentOn g M head tl).nodeVal A F tl = conv (W.σ tail) := by
  intro F hF
  obtain ⟨q, hr, ⟨gid, a, i, o, hk⟩, hlq, hσq, _⟩ := resolve_live' H.inv H.noOpen tail hl
  have hq : tl = q.node := by rw [htl]; unfold tailNode; rw [hr]; rfl
  have hM : q.node ∈ M := by
    obtain ⟨w, hw, hu⟩ := Flow.Segment.mem_uids.mp H.wf.tail
    have := (mem_seg_workers.mp hw).2
    rw [hu] at this
    show q.node ∈ M
    rw [← hq]; exact this
  obtain ⟨_, hw⟩ := H.worker hM hk
  have ho : o = 1 := by
    unfold tailSimple at hs
    have e : (segmentOn g M head tl).tail = q.node := hq
    rw [e, hw] at hs
    simpa using hs
  obtain ⟨out, hout, hv⟩ := H.node (W.h q.node + 1) q.node (by omega) hlq hM gid a i o hk
  have hlt := (H.inv.liveLt _ hlq).2
  have e : (segmentOn g M head tl).nodeVal A F tl = (segmentOn g M head tl).nodeVal A F q.node := congrArg _ hq
  rw [e, hv F (by omega), ← hσq]
  have := hout q.idx
  rw [show W.σ q = W.σ ⟨q.node, q.idx⟩ from rfl, this, ho]
  simp [portVal]

theorem BridgeHyp.trainer_value {T : Training} (hT : T ∈ g.trains) (hM : T.node ∈ M) :
    ∀ F, 2 * g.next + 1 < F → (segmentOn g M head tl).nodeVal A F T.node = conv (trainedUnder W T).2 := by
  intro F hF
  obtain ⟨lx, ly⟩ := H.trainLive T hT
  have hx := (H.inv.liveLt _ lx).2
  have hy := (H.inv.liveLt _ ly).2
  exact H.trainer g.next (fun n hl hMn hlt => H.node g.next n hlt hl hMn) hT hM hx hy F hF

end

/-! ### lists -/

theorem mem_dedup : ∀ (l : List Nat) (x : Nat), x ∈ dedup l ↔ x ∈ l
  | [], x => by simp [dedup]
  | y :: r, x => by
    unfold dedup
    by_cases h : (dedup r).contains y = true
    · simp only [h, if_true, List.mem_cons]
      rw [mem_dedup r x]
      constructor
      · exact Or.inr
      · rintro (e | e)
        · rw [e]; exact (mem_dedup r y).mp (by simpa using h)
        · exact e
    · simp only [h, Bool.false_eq_true, if_false, List.mem_cons, mem_dedup r x]

/-- the stored state of a group in a store whose previous generation is given by a function of the group -/
theorem storedState_map (P : List Nat) (f : Nat → Flow.Val) (gid : Nat) :
    Flow.Segment.storedState (some ⟨P, P.map f⟩) gid = if (Flow.indexOf gid P).isSome then f gid else .none := by
  have idx : ∀ (P : List Nat) (i : Nat), Flow.indexOf gid P = some i → (P.map f).getD i .none = f gid := by
    intro P
    induction P with
    | nil => intro i h; simp [Flow.indexOf] at h
    | cons x r ih =>
      intro i h
      unfold Flow.indexOf at h
      by_cases hx : x = gid
      · simp only [hx, if_true, Option.some.injEq] at h
        subst h
        simp [hx]
      · simp only [hx, if_false, Option.map_eq_some_iff] at h
        obtain ⟨j, hj, rfl⟩ := h
        simp only [List.map_cons, List.getD_cons_succ]
        exact ih j hj
  unfold Flow.Segment.storedState
  simp only [Flow.Assets.contains]
  by_cases hc : (Flow.indexOf gid P).isSome = true
  · obtain ⟨i, hi⟩ := Option.isSome_iff_exists.mp hc
    simp only [hc, if_true, Flow.Assets.load, Flow.Assets.offset, hi]
    exact idx P i hi
  · simp only [hc, Bool.false_eq_true, if_false]

end ForML.Compose
