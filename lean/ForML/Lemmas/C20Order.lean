/- Observational equivalence of process states and congruence of the whole import / lookup machinery (C20). -/
import ForML.Lemmas.C20Bank

namespace ForML.Bank

/-- two banks that cannot be told apart: same binding of every reference, same set of search paths -/
def BankEq (b b' : Bank) : Prop :=
  (∀ r, lookupRef r b.provider = lookupRef r b'.provider) ∧ b.paths.Perm b'.paths

/-- two process states that cannot be told apart: every interface's bank, and the set of imported modules -/
def StEq (s s' : St) : Prop :=
  (∀ i, BankEq (getBank i s.banks) (getBank i s'.banks)) ∧ (∀ m, m ∈ s.loaded ↔ m ∈ s'.loaded)

theorem BankEq.refl (b : Bank) : BankEq b b := ⟨fun _ => rfl, List.Perm.refl _⟩
theorem BankEq.symm {b b' : Bank} (h : BankEq b b') : BankEq b' b := ⟨fun r => (h.1 r).symm, h.2.symm⟩
theorem BankEq.trans {a b c : Bank} (h1 : BankEq a b) (h2 : BankEq b c) : BankEq a c :=
  ⟨fun r => (h1.1 r).trans (h2.1 r), h1.2.trans h2.2⟩

theorem StEq.refl (s : St) : StEq s s := ⟨fun _ => BankEq.refl _, fun _ => Iff.rfl⟩
theorem StEq.symm {s s' : St} (h : StEq s s') : StEq s' s := ⟨fun i => (h.1 i).symm, fun m => (h.2 m).symm⟩
theorem StEq.trans {a b c : St} (h1 : StEq a b) (h2 : StEq b c) : StEq a c :=
  ⟨fun i => (h1.1 i).trans (h2.1 i), fun m => (h1.2 m).trans (h2.2 m)⟩

theorem collides_congr {b b' : Bank} (h : BankEq b b') (c : ClassDef) : collides b c = collides b' c := by
  simp only [collides, h.1]

theorem addPaths_perm {ps ps' : List PathE} (h : ps.Perm ps') (qs : List PathE) :
    (addPaths ps qs).Perm (addPaths ps' qs) := by
  induction qs generalizing ps ps' with
  | nil => simpa [addPaths] using h
  | cons q qs ih =>
    simp only [addPaths]
    apply ih
    have hany : ps.any (fun e => e.mod = q.mod) = ps'.any (fun e => e.mod = q.mod) := by
      rw [Bool.eq_iff_iff]
      simp only [List.any_eq_true]
      constructor
      · rintro ⟨x, hx, hq⟩; exact ⟨x, h.mem_iff.1 hx, hq⟩
      · rintro ⟨x, hx, hq⟩; exact ⟨x, h.mem_iff.2 hx, hq⟩
    rw [hany]
    split
    · exact h
    · exact List.Perm.append_right _ h

theorem add_congr {b b' : Bank} (h : BankEq b b') (c : ClassDef) :
    (∀ e, b.add c = .error e → b'.add c = .error e) ∧
      (∀ b1, b.add c = .ok b1 → ∃ b1', b'.add c = .ok b1' ∧ BankEq b1 b1') := by
  unfold Bank.add
  rw [collides_congr h c]
  by_cases hc : collides b' c = true
  · simp [hc]
  · simp only [hc]
    by_cases ha : c.abstract = true
    · simp only [ha, if_true]
      refine ⟨(by intro e he; cases he), ?_⟩
      intro b1 hb1
      cases hb1
      exact ⟨_, rfl, h.1, addPaths_perm h.2 _⟩
    · simp only [ha]
      refine ⟨(by intro e he; cases he), ?_⟩
      intro b1 hb1
      cases hb1
      refine ⟨_, rfl, ?_, addPaths_perm h.2 _⟩
      intro r
      simp only [lookupRef_register, h.1]

theorem getBank_setBank (i j : ClassId) (b : Bank) (l : List (ClassId × Bank)) :
    getBank j (setBank i b l) = if i = j then b else getBank j l := by
  induction l with
  | nil => simp [setBank, getBank]
  | cons e rest ih =>
    obtain ⟨k, b'⟩ := e
    by_cases h1 : k = i
    · subst h1
      by_cases h2 : k = j <;> simp [setBank, getBank, h2]
    · by_cases h2 : k = j
      · subst h2
        have : ¬ i = k := fun h => h1 h.symm
        simp [setBank, getBank, h1, this]
      · simp [setBank, getBank, h1, h2, ih]

/-- outcome pairs (state, raised error) that cannot be told apart -/
def ResEq (x y : St × Option Err) : Prop := x.2 = y.2 ∧ StEq x.1 y.1

theorem stEq_setBank {st st' : St} (h : StEq st st') (i : ClassId) {b b' : Bank} (hb : BankEq b b') :
    StEq { st with banks := setBank i b st.banks } { st' with banks := setBank i b' st'.banks } := by
  refine ⟨?_, h.2⟩
  intro j
  simp only [getBank_setBank]
  split
  · exact hb
  · exact h.1 j

theorem addToBanks_congr (c : ClassDef) (is : List ClassId) {st st' : St} (h : StEq st st') :
    ResEq (addToBanks st c is) (addToBanks st' c is) := by
  induction is generalizing st st' with
  | nil => exact ⟨rfl, h⟩
  | cons i rest ih =>
    simp only [addToBanks]
    have hc := add_congr (h.1 i) c
    cases hadd : (getBank i st.banks).add c with
    | error e => rw [hc.1 e hadd]; exact ⟨rfl, h⟩
    | ok b1 =>
      obtain ⟨b1', hb1', hbe⟩ := hc.2 b1 hadd
      rw [hb1']
      exact ih (stEq_setBank h i hbe)

theorem initSubclass_congr (c : ClassDef) {st st' : St} (h : StEq st st') :
    ResEq (initSubclass st c) (initSubclass st' c) := by
  unfold initSubclass
  split
  · exact ⟨rfl, h⟩
  · exact addToBanks_congr c _ h

theorem execClasses_congr (cs : List ClassDef) {st st' : St} (h : StEq st st') :
    ResEq (execClasses st cs) (execClasses st' cs) := by
  induction cs generalizing st st' with
  | nil => exact ⟨rfl, h⟩
  | cons c rest ih =>
    simp only [execClasses]
    have h1 := initSubclass_congr c h
    cases hi : initSubclass st c with
    | mk s1 e1 =>
      cases hi' : initSubclass st' c with
      | mk s1' e1' =>
        rw [hi, hi'] at h1
        obtain ⟨he, hs⟩ := h1
        simp only at he hs
        subst he
        cases e1 with
        | some e => exact ⟨rfl, hs⟩
        | none => exact ih hs

/-- option-valued outcomes (`none` = module not found) -/
def ResEqO : Option (St × Option Err) → Option (St × Option Err) → Prop
  | none, none => True
  | some x, some y => ResEq x y
  | _, _ => False

theorem execMod_congr (w : World) (m : Mod) {st st' : St} (h : StEq st st') :
    ResEqO (execMod w st m) (execMod w st' m) := by
  unfold execMod
  cases hf : findMod m w with
  | none => trivial
  | some d =>
    simp only
    have hl : st.loaded.contains m = st'.loaded.contains m := by
      rw [Bool.eq_iff_iff]; simpa using h.2 m
    rw [hl]
    split
    · exact ⟨rfl, h⟩
    · have h1 := execClasses_congr d.classes h
      cases he : execClasses st d.classes with
      | mk s1 e1 =>
        cases he' : execClasses st' d.classes with
        | mk s1' e1' =>
          rw [he, he'] at h1
          obtain ⟨hee, hs⟩ := h1
          simp only at hee hs
          subst hee
          cases e1 with
          | some e => exact ⟨rfl, hs⟩
          | none =>
            refine ⟨rfl, hs.1, ?_⟩
            intro x
            simp only [List.mem_cons, hs.2 x]

theorem importSubs_congr (w : World) (pkg : Nat) (subs : List Nat) {st st' : St} (h : StEq st st') :
    ResEq (importSubs w st pkg subs) (importSubs w st' pkg subs) := by
  induction subs generalizing st st' with
  | nil => exact ⟨rfl, h⟩
  | cons s rest ih =>
    simp only [importSubs]
    have h1 := execMod_congr w ⟨pkg, some s⟩ h
    cases he : execMod w st ⟨pkg, some s⟩ with
    | none =>
      cases he' : execMod w st' ⟨pkg, some s⟩ with
      | none => exact ih h
      | some y => rw [he, he'] at h1; exact h1.elim
    | some x =>
      cases he' : execMod w st' ⟨pkg, some s⟩ with
      | none => rw [he, he'] at h1; exact h1.elim
      | some y =>
        rw [he, he'] at h1
        obtain ⟨s1, e1⟩ := x
        obtain ⟨s1', e1'⟩ := y
        obtain ⟨hee, hs⟩ := h1
        simp only at hee hs
        subst hee
        cases e1 with
        | some e => exact ⟨rfl, hs⟩
        | none => exact ih hs

theorem importMod_congr (w : World) (m : Mod) {st st' : St} (h : StEq st st') :
    ResEqO (importMod w st m) (importMod w st' m) := by
  unfold importMod
  cases hsub : m.sub with
  | none => exact execMod_congr w m h
  | some s =>
    simp only
    have h1 := execMod_congr w ⟨m.pkg, none⟩ h
    cases he : execMod w st ⟨m.pkg, none⟩ with
    | none =>
      cases he' : execMod w st' ⟨m.pkg, none⟩ with
      | none => trivial
      | some y => rw [he, he'] at h1; exact h1.elim
    | some x =>
      cases he' : execMod w st' ⟨m.pkg, none⟩ with
      | none => rw [he, he'] at h1; exact h1.elim
      | some y =>
        rw [he, he'] at h1
        obtain ⟨s1, e1⟩ := x
        obtain ⟨s1', e1'⟩ := y
        obtain ⟨hee, hs⟩ := h1
        simp only at hee hs
        subst hee
        cases e1 with
        | some e => exact ⟨rfl, hs⟩
        | none => exact execMod_congr w m hs

theorem afterNotFound_congr (w : World) (m : Mod) {st st' : St} (h : StEq st st') :
    StEq (afterNotFound w st m) (afterNotFound w st' m) := by
  unfold afterNotFound
  cases m.sub with
  | none => exact h
  | some s =>
    simp only
    have h1 := execMod_congr w ⟨m.pkg, none⟩ h
    cases he : execMod w st ⟨m.pkg, none⟩ with
    | none =>
      cases he' : execMod w st' ⟨m.pkg, none⟩ with
      | none => exact h
      | some y => rw [he, he'] at h1; exact h1.elim
    | some x =>
      cases he' : execMod w st' ⟨m.pkg, none⟩ with
      | none => rw [he, he'] at h1; exact h1.elim
      | some y =>
        rw [he, he'] at h1
        obtain ⟨s1, e1⟩ := x
        obtain ⟨s1', e1'⟩ := y
        obtain ⟨hee, hs⟩ := h1
        simp only at hee hs
        subst hee
        cases e1 with
        | some e => exact h
        | none => exact hs

theorem loadPath_congr (w : World) (p : PathE) {st st' : St} (h : StEq st st') :
    ResEq (loadPath w st p) (loadPath w st' p) := by
  unfold loadPath
  have h1 := importMod_congr w p.mod h
  cases hi : importMod w st p.mod with
  | none =>
    cases hi' : importMod w st' p.mod with
    | none => exact ⟨rfl, afterNotFound_congr w p.mod h⟩
    | some y => rw [hi, hi'] at h1; exact h1.elim
  | some x =>
    cases hi' : importMod w st' p.mod with
    | none => rw [hi, hi'] at h1; exact h1.elim
    | some y =>
      rw [hi, hi'] at h1
      obtain ⟨s1, e1⟩ := x
      obtain ⟨s1', e1'⟩ := y
      obtain ⟨hee, hs⟩ := h1
      simp only at hee hs
      subst hee
      cases e1 with
      | some e => exact ⟨rfl, hs⟩
      | none =>
        simp only
        split
        · exact importSubs_congr w _ _ hs
        · exact ⟨rfl, hs⟩

theorem searchList_congr {b b' : Bank} (h : BankEq b b') (r : Ref) : searchList b r = searchList b' r := by
  simp only [searchList, sortPaths_perm h.2]

theorem getLoop_congr (w : World) (iface : ClassId) (r : Ref) (n : Nat) (searched : List Mod) {st st' : St}
    (h : StEq st st') : ResEq (getLoop w iface r n st searched) (getLoop w iface r n st' searched) := by
  induction n generalizing st st' searched with
  | zero => exact ⟨rfl, h⟩
  | succ n ih =>
    simp only [getLoop, (h.1 iface).1 r, nextPath, searchList_congr (h.1 iface) r]
    split
    · exact ⟨rfl, h⟩
    · cases hn : List.find? (fun p => !searched.contains p.mod) (searchList (getBank iface st'.banks) r) with
      | none => exact ⟨rfl, h⟩
      | some p =>
        simp only
        have h1 := loadPath_congr w p h
        cases hl : loadPath w st p with
        | mk s1 e1 =>
          cases hl' : loadPath w st' p with
          | mk s1' e1' =>
            rw [hl, hl'] at h1
            obtain ⟨hee, hs⟩ := h1
            simp only at hee hs
            subst hee
            cases e1 with
            | some e => exact ⟨rfl, hs⟩
            | none => exact ih _ hs

/-- (legacy search list) -/
theorem todoPaths_congr {b b' : Bank} (h : BankEq b b') (r : Ref) {o o' : List Mod}
    (ho : validOrder b.paths o = true) (ho' : validOrder b'.paths o' = true) : todoPaths b r o = todoPaths b' r o' := by
  have := sortPaths_perm (((validOrder_perm ho).trans h.2).trans (validOrder_perm ho').symm)
  simp only [todoPaths, this]

/-- `Service[reference]` cannot tell equivalent states apart: same outcome, equivalent resulting states -/
theorem get_congr (w : World) (iface : ClassId) (r : Ref) {st st' : St} (h : StEq st st') :
    (get w st iface r).2 = (get w st' iface r).2 ∧ StEq (get w st iface r).1 (get w st' iface r).1 := by
  unfold get
  have h1 := getLoop_congr w iface r (searchFuel w) [] h
  cases hg : getLoop w iface r (searchFuel w) st [] with
  | mk s1 e1 =>
    cases hg' : getLoop w iface r (searchFuel w) st' [] with
    | mk s1' e1' =>
      rw [hg, hg'] at h1
      obtain ⟨hee, hs⟩ := h1
      simp only at hee hs
      subst hee
      cases e1 with
      | some e => exact ⟨rfl, hs⟩
      | none =>
        simp only [finish, (hs.1 iface).1 r]
        cases lookupRef r (getBank iface s1'.banks).provider with
        | some c => exact ⟨rfl, hs⟩
        | none => exact ⟨rfl, hs⟩

end ForML.Bank
