/-
C12 — helper lemmas: provenance predicates (`KeysIn`, `DepsIn`, `AtomsIn`), how the symbolic actors and the
fold splitter transport them, and *locality* of scopes (`Local`): what a pipeline can make its outputs depend
on.  `Local` is closed under every constructor of the operator library (`denoteC_local`).
-/
import ForML.Model.CrossVal

namespace ForML.CrossVal

/-! ### membership in the duplicate-free unions -/

theorem mem_union {x : Atom} {a b : List Atom} : x ∈ union a b ↔ x ∈ a ∨ x ∈ b := by
  simp [union, List.mem_eraseDups]

theorem mem_atoms {d : Data} {x : Atom} : x ∈ d.atoms ↔ ∃ r ∈ d, x = r.key ∨ x ∈ r.deps := by
  simp [Data.atoms, List.mem_eraseDups, List.mem_flatMap]

theorem mem_deps {d : Data} {x : Atom} : x ∈ d.deps ↔ ∃ r ∈ d, x ∈ r.deps := by
  simp [Data.deps, List.mem_flatMap]

theorem mem_keys {d : Data} {x : Atom} : x ∈ d.keys ↔ ∃ r ∈ d, r.key = x := by
  simp [Data.keys]

/-! ### provenance predicates -/

/-- every row describes a record satisfying `P` -/
def KeysIn (d : Data) (P : Atom → Prop) : Prop := ∀ r ∈ d, P r.key

/-- everything any row depends on satisfies `P` -/
def DepsIn (d : Data) (P : Atom → Prop) : Prop := ∀ r ∈ d, ∀ x ∈ r.deps, P x

/-- records and dependencies alike -/
def AtomsIn (d : Data) (P : Atom → Prop) : Prop := KeysIn d P ∧ DepsIn d P

theorem atomsIn_iff {d : Data} {P : Atom → Prop} : AtomsIn d P ↔ ∀ x ∈ d.atoms, P x := by
  constructor
  · rintro ⟨hk, hd⟩ x hx
    obtain ⟨r, hr, h | h⟩ := mem_atoms.mp hx
    · exact h ▸ hk r hr
    · exact hd r hr x h
  · intro h
    exact ⟨fun r hr => h _ (mem_atoms.mpr ⟨r, hr, .inl rfl⟩), fun r hr x hx => h _ (mem_atoms.mpr ⟨r, hr, .inr hx⟩)⟩

theorem KeysIn.nil {P : Atom → Prop} : KeysIn [] P := by intro r hr; cases hr
theorem DepsIn.nil {P : Atom → Prop} : DepsIn [] P := by intro r hr; cases hr
theorem AtomsIn.nil {P : Atom → Prop} : AtomsIn [] P := ⟨KeysIn.nil, DepsIn.nil⟩

theorem KeysIn.mono {d : Data} {P Q : Atom → Prop} (h : KeysIn d P) (hpq : ∀ x, P x → Q x) : KeysIn d Q :=
  fun r hr => hpq _ (h r hr)
theorem DepsIn.mono {d : Data} {P Q : Atom → Prop} (h : DepsIn d P) (hpq : ∀ x, P x → Q x) : DepsIn d Q :=
  fun r hr x hx => hpq _ (h r hr x hx)
theorem AtomsIn.mono {d : Data} {P Q : Atom → Prop} (h : AtomsIn d P) (hpq : ∀ x, P x → Q x) : AtomsIn d Q :=
  ⟨h.1.mono hpq, h.2.mono hpq⟩

theorem KeysIn.sub {d e : Data} {P : Atom → Prop} (h : KeysIn d P) (hs : ∀ r ∈ e, r ∈ d) : KeysIn e P :=
  fun r hr => h r (hs r hr)
theorem DepsIn.sub {d e : Data} {P : Atom → Prop} (h : DepsIn d P) (hs : ∀ r ∈ e, r ∈ d) : DepsIn e P :=
  fun r hr => h r (hs r hr)
theorem AtomsIn.sub {d e : Data} {P : Atom → Prop} (h : AtomsIn d P) (hs : ∀ r ∈ e, r ∈ d) : AtomsIn e P :=
  ⟨h.1.sub hs, h.2.sub hs⟩

theorem keysIn_self (d : Data) : KeysIn d (· ∈ d.keys) := fun r hr => mem_keys.mpr ⟨r, hr, rfl⟩
theorem depsIn_self (d : Data) : DepsIn d (· ∈ d.deps) := fun r hr _ hx => mem_deps.mpr ⟨r, hr, hx⟩
theorem atomsIn_self (d : Data) : AtomsIn d (· ∈ d.atoms) := atomsIn_iff.mpr fun _ h => h

/-! ### the fold splitter -/

theorem mem_select {ps : List Nat} {d : Data} {r : Row} (h : r ∈ select ps d) : r ∈ d := by
  simp only [select, List.mem_filterMap] at h
  obtain ⟨p, _, hp⟩ := h
  exact List.mem_of_getElem? hp

theorem mem_select_iff {ps : List Nat} {d : Data} {r : Row} : r ∈ select ps d ↔ ∃ p ∈ ps, d[p]? = some r := by
  simp [select, List.mem_filterMap]

theorem cvSplit_even (x : Data) (idx : Indices) (i : Nat) :
    (cvSplit x idx)[2 * i]? = idx[i]?.map fun ab => select ab.1 x := by
  induction idx generalizing i with
  | nil => simp [cvSplit]
  | cons ab rest ih =>
    cases i with
    | zero => simp [cvSplit]
    | succ i =>
      have : 2 * (i + 1) = (2 * i) + 1 + 1 := by omega
      rw [this]
      simpa [cvSplit] using ih i

theorem cvSplit_odd (x : Data) (idx : Indices) (i : Nat) :
    (cvSplit x idx)[2 * i + 1]? = idx[i]?.map fun ab => select ab.2 x := by
  induction idx generalizing i with
  | nil => simp [cvSplit]
  | cons ab rest ih =>
    cases i with
    | zero => simp [cvSplit]
    | succ i =>
      have : 2 * (i + 1) + 1 = (2 * i + 1) + 1 + 1 := by omega
      rw [this]
      simpa [cvSplit] using ih i

theorem port_cvApply (idx : Indices) (x : Data) (k : Nat) :
    port (cvApply (some idx) x) k = (cvSplit x idx)[k]?.getD [] := by
  cases idx with
  | nil => simp [cvApply, port, cvSplit]
  | cons a r => simp [cvApply, port]

theorem mem_cvSplit {x : Data} {idx : Indices} {d : Data} (h : d ∈ cvSplit x idx) : ∃ ps, d = select ps x := by
  simp only [cvSplit, List.mem_flatMap] at h
  obtain ⟨ab, _, hd⟩ := h
  simp at hd
  rcases hd with hd | hd
  · exact ⟨_, hd⟩
  · exact ⟨_, hd⟩

theorem mem_port_cvApply {o : Option Indices} {x : Data} {k : Nat} {r : Row}
    (h : r ∈ port (cvApply o x) k) : r ∈ x := by
  cases o with
  | none => simp [cvApply, port] at h
  | some idx =>
    rw [port_cvApply] at h
    cases hk : (cvSplit x idx)[k]? with
    | none => simp [hk] at h
    | some d =>
      simp [hk] at h
      obtain ⟨ps, hps⟩ := mem_cvSplit (List.mem_of_getElem? hk)
      exact mem_select (hps ▸ h)

/-! ### interpretation of terms -/

theorem rowsL_eq_map (E : Env) (vs : List Val) : rowsL E vs = vs.map (rows E) := by
  induction vs with
  | nil => simp [rowsL]
  | cons v vs ih => simp [rowsL, ih]

@[simp] theorem rows_none (E : Env) : rows E .none = [] := by simp [rows]
@[simp] theorem rows_input (E : Env) (n : Nat) : rows E (.input n) = E.inp n := by simp [rows]
@[simp] theorem seen_none (E : Env) : seen E .none = [] := by simp [seen]

theorem rows_apply (E : Env) (tag : Nat) (st : Val) (args : List Val) :
    rows E (.apply tag st args) = hzip (seen E st) (args.map (rows E)) := by
  simp [rows, rowsL_eq_map]

theorem rows_concat (E : Env) (tag : Nat) (args : List Val) :
    rows E (.concat tag args) = (args.map (rows E)).flatten := by
  simp [rows, rowsL_eq_map]

theorem rows_part (E : Env) (tag : Nat) (st : Val) (k : Nat) (x : Val) :
    rows E (.part tag st k x) = port (cvApply (indices E st) (rows E x)) k := by
  simp [rows]

theorem seen_state (E : Env) (tag : Nat) (prev x y : Val) :
    seen E (.state tag prev x y) = union (seen E prev) (union (rows E x).atoms (rows E y).atoms) := by
  simp [seen]

theorem indices_state (E : Env) (tag : Nat) (prev x y : Val) :
    indices E (.state tag prev x y) = some (E.dec tag (rows E x) (rows E y)) := by
  simp [indices, cvTrain]

/-- a fold part holds rows of what was split -/
theorem mem_rows_part {E : Env} {tag : Nat} {st : Val} {k : Nat} {x : Val} {r : Row}
    (h : r ∈ rows E (.part tag st k x)) : r ∈ rows E x := by
  rw [rows_part] at h
  exact mem_port_cvApply h

/-- the train part of fold `i`: the rows at the train positions the trained splitter decided -/
theorem rows_part_train (E : Env) (sp : Nat) (prev fx fy x : Val) (i : Nat) (tr te : List Nat)
    (h : (E.dec sp (rows E fx) (rows E fy))[i]? = some (tr, te)) :
    rows E (.part sp (.state sp prev fx fy) (2 * i) x) = select tr (rows E x) := by
  rw [rows_part, indices_state, port_cvApply, cvSplit_even, h]
  simp

/-- the test part of fold `i` -/
theorem rows_part_test (E : Env) (sp : Nat) (prev fx fy x : Val) (i : Nat) (tr te : List Nat)
    (h : (E.dec sp (rows E fx) (rows E fy))[i]? = some (tr, te)) :
    rows E (.part sp (.state sp prev fx fy) (2 * i + 1) x) = select te (rows E x) := by
  rw [rows_part, indices_state, port_cvApply, cvSplit_odd, h]
  simp

/-! ### the row-aligned actors -/

theorem keys_hzip2 (d e : Data) : (hzip2 d e).keys = d.keys := by
  induction d generalizing e with
  | nil => simp [hzip2]
  | cons r d ih =>
    cases e with
    | nil => simp [hzip2]
    | cons s e => simp [hzip2, Data.keys] at ih ⊢; exact ih e

theorem KeysIn.hzip2 {d e : Data} {P : Atom → Prop} (h : KeysIn d P) : KeysIn (hzip2 d e) P := by
  intro r hr
  have : r.key ∈ (CrossVal.hzip2 d e).keys := mem_keys.mpr ⟨r, hr, rfl⟩
  rw [keys_hzip2] at this
  obtain ⟨r', hr', hk⟩ := mem_keys.mp this
  exact hk ▸ h r' hr'

theorem DepsIn.hzip2 {d e : Data} {P : Atom → Prop} (hd : DepsIn d P) (he : DepsIn e P) :
    DepsIn (hzip2 d e) P := by
  induction d generalizing e with
  | nil => simpa [CrossVal.hzip2] using hd
  | cons r d ih =>
    cases e with
    | nil => simpa [CrossVal.hzip2] using hd
    | cons s e =>
      intro q hq x hx
      simp only [CrossVal.hzip2, List.mem_cons] at hq
      rcases hq with rfl | hq
      · simp only [mem_union] at hx
        rcases hx with hx | hx
        · exact hd r (List.mem_cons_self ..) x hx
        · exact he s (List.mem_cons_self ..) x hx
      · exact ih (e := e) (fun a ha => hd a (List.mem_cons_of_mem _ ha)) (fun a ha => he a (List.mem_cons_of_mem _ ha)) q hq x hx

theorem keys_foldl_hzip2 (d : Data) (ds : List Data) : (ds.foldl hzip2 d).keys = d.keys := by
  induction ds generalizing d with
  | nil => rfl
  | cons e ds ih => simp [List.foldl, ih, keys_hzip2]

theorem KeysIn.foldl_hzip2 {d : Data} {ds : List Data} {P : Atom → Prop} (h : KeysIn d P) :
    KeysIn (ds.foldl CrossVal.hzip2 d) P := by
  induction ds generalizing d with
  | nil => exact h
  | cons e ds ih => exact ih h.hzip2

theorem DepsIn.foldl_hzip2 {d : Data} {ds : List Data} {P : Atom → Prop} (hd : DepsIn d P)
    (hds : ∀ e ∈ ds, DepsIn e P) : DepsIn (ds.foldl CrossVal.hzip2 d) P := by
  induction ds generalizing d with
  | nil => exact hd
  | cons e ds ih =>
    exact ih (hd.hzip2 (hds e (List.mem_cons_self ..))) (fun a ha => hds a (List.mem_cons_of_mem _ ha))

/-- a row-aligned actor describes the records of its first argument -/
theorem keys_hzip (sn : List Atom) (d : Data) (ds : List Data) : (hzip sn (d :: ds)).keys = d.keys := by
  have := keys_foldl_hzip2 d ds
  simp only [Data.keys] at this
  simp only [hzip, Data.keys, List.map_map, ← this]
  rfl

theorem KeysIn.hzip {sn : List Atom} {ds : List Data} {P : Atom → Prop} (h : ∀ d ∈ ds, KeysIn d P) :
    KeysIn (hzip sn ds) P := by
  cases ds with
  | nil => simpa [CrossVal.hzip] using KeysIn.nil
  | cons d ds =>
    intro r hr
    have : r.key ∈ (CrossVal.hzip sn (d :: ds)).keys := mem_keys.mpr ⟨r, hr, rfl⟩
    rw [keys_hzip] at this
    obtain ⟨r', hr', hk⟩ := mem_keys.mp this
    exact hk ▸ h d (List.mem_cons_self ..) r' hr'

theorem DepsIn.hzip {sn : List Atom} {ds : List Data} {P : Atom → Prop} (hsn : ∀ x ∈ sn, P x)
    (h : ∀ d ∈ ds, DepsIn d P) : DepsIn (hzip sn ds) P := by
  cases ds with
  | nil => simpa [CrossVal.hzip] using DepsIn.nil
  | cons d ds =>
    intro r hr x hx
    simp only [CrossVal.hzip, List.mem_map] at hr
    obtain ⟨q, hq, rfl⟩ := hr
    simp only [mem_union] at hx
    rcases hx with hx | hx
    · exact DepsIn.foldl_hzip2 (h d (List.mem_cons_self ..)) (fun a ha => h a (List.mem_cons_of_mem _ ha)) q hq x hx
    · exact hsn x hx

theorem KeysIn.flatten {ds : List Data} {P : Atom → Prop} (h : ∀ d ∈ ds, KeysIn d P) : KeysIn ds.flatten P := by
  intro r hr
  obtain ⟨d, hd, hrd⟩ := List.mem_flatten.mp hr
  exact h d hd r hrd

theorem DepsIn.flatten {ds : List Data} {P : Atom → Prop} (h : ∀ d ∈ ds, DepsIn d P) : DepsIn ds.flatten P := by
  intro r hr
  obtain ⟨d, hd, hrd⟩ := List.mem_flatten.mp hr
  exact h d hd r hrd

/-! ### states -/

/-- a freshly trained state has seen exactly what its training features and labels mention -/
theorem seen_trainedState {E : Env} {a : Actor} {x y : Val} {P : Atom → Prop}
    (hx : AtomsIn (rows E x) P) (hy : AtomsIn (rows E y) P) : ∀ z ∈ seen E (trainedState a x y), P z := by
  intro z hz
  unfold trainedState at hz
  split at hz
  · rw [seen_state] at hz
    simp only [mem_union, seen_none] at hz
    rcases hz with hz | hz | hz
    · cases hz
    · exact atomsIn_iff.mp hx z hz
    · exact atomsIn_iff.mp hy z hz
  · simp at hz

/-! ### locality -/

/-- What the outputs of an expanded pipeline can be made of, for *every* predicate `P` on records:
* apply output: describes only records the apply input describes; depends only on what the apply input rows
  depended on already and on what the train inputs mention (through the trained states);
* train and label outputs mention only what the train inputs mention. -/
structure Local (E : Env) (S : Scope) : Prop where
  applyKeys : ∀ a t l (P : Atom → Prop), KeysIn (rows E a) P → KeysIn (rows E (S a t l).apply) P
  applyDeps : ∀ a t l (P : Atom → Prop), DepsIn (rows E a) P → AtomsIn (rows E t) P → AtomsIn (rows E l) P →
    DepsIn (rows E (S a t l).apply) P
  train : ∀ a t l (P : Atom → Prop), AtomsIn (rows E t) P → AtomsIn (rows E l) P → AtomsIn (rows E (S a t l).train) P
  label : ∀ a t l (P : Atom → Prop), AtomsIn (rows E t) P → AtomsIn (rows E l) P → AtomsIn (rows E (S a t l).label) P

theorem origin_local (E : Env) : Local E Scope.origin :=
  ⟨fun _ _ _ _ h => h, fun _ _ _ _ h _ _ => h, fun _ _ _ _ h _ => h, fun _ _ _ _ _ h => h⟩

/-- `applied a st x` -/
theorem keysIn_applied {E : Env} {a : Actor} {st x : Val} {P : Atom → Prop} (h : KeysIn (rows E x) P) :
    KeysIn (rows E (applied a st x)) P := by
  unfold applied
  rw [rows_apply]
  exact KeysIn.hzip (by simpa using h)

theorem depsIn_applied {E : Env} {a : Actor} {st x : Val} {P : Atom → Prop} (hst : ∀ z ∈ seen E st, P z)
    (h : DepsIn (rows E x) P) : DepsIn (rows E (applied a st x)) P := by
  unfold applied
  rw [rows_apply]
  exact DepsIn.hzip hst (by simpa using h)

theorem atomsIn_applied {E : Env} {a : Actor} {st x : Val} {P : Atom → Prop} (hst : ∀ z ∈ seen E st, P z)
    (h : AtomsIn (rows E x) P) : AtomsIn (rows E (applied a st x)) P :=
  ⟨keysIn_applied h.1, depsIn_applied hst h.2⟩

/-- the part of a fold mentions only what the split data mentions -/
theorem atomsIn_part {E : Env} {tag : Nat} {st : Val} {k : Nat} {x : Val} {P : Atom → Prop}
    (h : AtomsIn (rows E x) P) : AtomsIn (rows E (.part tag st k x)) P :=
  h.sub fun _ hr => mem_rows_part hr

theorem keysIn_part {E : Env} {tag : Nat} {st : Val} {k : Nat} {x : Val} {P : Atom → Prop}
    (h : KeysIn (rows E x) P) : KeysIn (rows E (.part tag st k x)) P :=
  h.sub fun _ hr => mem_rows_part hr

theorem depsIn_part {E : Env} {tag : Nat} {st : Val} {k : Nat} {x : Val} {P : Atom → Prop}
    (h : DepsIn (rows E x) P) : DepsIn (rows E (.part tag st k x)) P :=
  h.sub fun _ hr => mem_rows_part hr

theorem wrap_local {E : Env} {S : Scope} (lab app trn : Option Actor) (hS : Local E S) :
    Local E (denoteWrap lab app trn S) := by
  have hlabel : ∀ a t l (P : Atom → Prop), AtomsIn (rows E t) P → AtomsIn (rows E l) P →
      AtomsIn (rows E (denoteWrap lab app trn S a t l).label) P := by
    intro a t l P ht hl
    have st := hS.train a t l P ht hl
    have sl := hS.label a t l P ht hl
    cases lab with
    | none => exact sl
    | some la => exact atomsIn_applied (seen_trainedState st sl) sl
  refine ⟨?_, ?_, ?_, hlabel⟩
  · intro a t l P ha
    have := hS.applyKeys a t l P ha
    cases app with
    | none => exact this
    | some aa => exact keysIn_applied this
  · intro a t l P ha ht hl
    have sa := hS.applyDeps a t l P ha ht hl
    have st := hS.train a t l P ht hl
    have sl' := hlabel a t l P ht hl
    cases app with
    | none => exact sa
    | some aa => exact depsIn_applied (seen_trainedState st sl') sa
  · intro a t l P ht hl
    have st := hS.train a t l P ht hl
    have sl' := hlabel a t l P ht hl
    cases trn with
    | none => exact st
    | some ta => exact atomsIn_applied (seen_trainedState st sl') st

theorem mapreduce_local {E : Env} {S : Scope} (ms : List Actor) (reducer : Nat) (hS : Local E S) :
    Local E (denoteMapReduce ms reducer S) := by
  refine ⟨?_, ?_, ?_, fun a t l P ht hl => hS.label a t l P ht hl⟩
  · intro a t l P ha
    have sa := hS.applyKeys a t l P ha
    show KeysIn (rows E (Val.apply reducer .none _)) P
    rw [rows_apply]
    refine KeysIn.hzip ?_
    intro d hd
    simp only [List.mem_map] at hd
    obtain ⟨v, ⟨m, _, rfl⟩, rfl⟩ := hd
    exact keysIn_applied sa
  · intro a t l P ha ht hl
    have sa := hS.applyDeps a t l P ha ht hl
    have st := hS.train a t l P ht hl
    have sl := hS.label a t l P ht hl
    show DepsIn (rows E (Val.apply reducer .none _)) P
    rw [rows_apply]
    refine DepsIn.hzip (by simp) ?_
    intro d hd
    simp only [List.mem_map] at hd
    obtain ⟨v, ⟨m, _, rfl⟩, rfl⟩ := hd
    exact depsIn_applied (seen_trainedState st sl) sa
  · intro a t l P ht hl
    have st := hS.train a t l P ht hl
    have sl := hS.label a t l P ht hl
    show AtomsIn (rows E (Val.apply reducer .none _)) P
    rw [rows_apply]
    constructor
    · refine KeysIn.hzip ?_
      intro d hd
      simp only [List.mem_map] at hd
      obtain ⟨v, ⟨m, _, rfl⟩, rfl⟩ := hd
      exact keysIn_applied st.1
    · refine DepsIn.hzip (by simp) ?_
      intro d hd
      simp only [List.mem_map] at hd
      obtain ⟨v, ⟨m, _, rfl⟩, rfl⟩ := hd
      exact depsIn_applied (seen_trainedState st sl) st.2

/-- sequencing two local scopes -/
theorem seq_local {E : Env} {S Q : Scope} (hS : Local E S) (hQ : Local E Q) :
    Local E (fun xa xt xl => Q (S xa xt xl).apply (S xa xt xl).train (S xa xt xl).label) :=
  ⟨fun a t l P ha => hQ.applyKeys _ _ _ P (hS.applyKeys a t l P ha),
   fun a t l P ha ht hl => hQ.applyDeps _ _ _ P (hS.applyDeps a t l P ha ht hl) (hS.train a t l P ht hl) (hS.label a t l P ht hl),
   fun a t l P ht hl => hQ.train _ _ _ P (hS.train a t l P ht hl) (hS.label a t l P ht hl),
   fun a t l P ht hl => hQ.label _ _ _ P (hS.train a t l P ht hl) (hS.label a t l P ht hl)⟩

/-! ### CrossVal.produce / Function.score / TrainTestScore -/

theorem produce_length (S : Scope) (n sp : Nat) (X L : Val) : (produce S n sp X L).length = n := by
  simp [produce]

theorem produce_eq (S : Scope) (n sp : Nat) (X L : Val) :
    produce S n sp X L = (List.range n).map (foldOutcome S sp X L) := by
  simp [produce, foldOutcome]

theorem produce_getElem? (S : Scope) (n sp : Nat) (X L : Val) {fid : Nat} (h : fid < n) :
    (produce S n sp X L)[fid]? = some (foldOutcome S sp X L fid) := by
  simp [produce_eq, List.getElem?_map, List.getElem?_range h]

theorem mem_produce {S : Scope} {n sp : Nat} {X L : Val} {o : Outcome} (h : o ∈ produce S n sp X L) :
    ∃ fid, fid < n ∧ o = foldOutcome S sp X L fid := by
  simp only [produce_eq, List.mem_map, List.mem_range] at h
  obtain ⟨fid, hf, rfl⟩ := h
  exact ⟨fid, hf, rfl⟩

theorem score_cases {metric reducer : Nat} {os : List Outcome} {v : Val} (h : score metric reducer os = some v) :
    (∃ o, os = [o] ∧ v = metricOf metric o) ∨
    (2 ≤ os.length ∧ v = .apply reducer .none (os.map (metricOf metric))) := by
  match os, h with
  | [], h => simp [score] at h
  | [o], h => simp [score] at h; exact .inl ⟨o, rfl, h.symm⟩
  | o₁ :: o₂ :: rest, h => simp [score] at h; exact .inr ⟨by simp, h.symm⟩

theorem atomsIn_foldOutcome {E : Env} {S : Scope} (hS : Local E S) (sp metric : Nat) (X L : Val) (fid : Nat)
    {P : Atom → Prop} (ht : AtomsIn (rows E X) P) (hl : AtomsIn (rows E L) P) :
    AtomsIn (rows E (metricOf metric (foldOutcome S sp X L fid))) P := by
  have htrue : AtomsIn (rows E (foldOutcome S sp X L fid).true_) P := atomsIn_part hl
  have hpred : AtomsIn (rows E (foldOutcome S sp X L fid).pred) P :=
    ⟨hS.applyKeys _ _ _ P (keysIn_part ht.1),
     hS.applyDeps _ _ _ P (depsIn_part ht.2) (atomsIn_part ht) (atomsIn_part hl)⟩
  unfold metricOf
  rw [rows_apply]
  constructor
  · refine KeysIn.hzip ?_
    intro d hd
    simp at hd
    rcases hd with rfl | rfl
    · exact htrue.1
    · exact hpred.1
  · refine DepsIn.hzip (by simp) ?_
    intro d hd
    simp at hd
    rcases hd with rfl | rfl
    · exact htrue.2
    · exact hpred.2

theorem score_local {E : Env} {S : Scope} (n sp metric reducer : Nat) (hS : Local E S) :
    Local E (trainTestScore n sp metric reducer S) := by
  refine ⟨fun _ _ _ _ h => h, fun _ _ _ _ h _ _ => h, ?_, fun _ _ _ _ _ h => h⟩
  intro a t l P ht hl
  show AtomsIn (rows E ((score metric reducer (produce S n sp t l)).getD .none)) P
  cases hsc : score metric reducer (produce S n sp t l) with
  | none => simpa using AtomsIn.nil
  | some v =>
    simp only [Option.getD_some]
    rcases score_cases hsc with ⟨o, ho, rfl⟩ | ⟨_, rfl⟩
    · have : o ∈ produce S n sp t l := by rw [ho]; simp
      obtain ⟨fid, _, rfl⟩ := mem_produce this
      exact atomsIn_foldOutcome hS sp metric t l fid ht hl
    · rw [rows_apply]
      have hall : ∀ d ∈ List.map (rows E) (List.map (metricOf metric) (produce S n sp t l)), AtomsIn d P := by
        intro d hd
        simp only [List.mem_map] at hd
        obtain ⟨v, ⟨o, ho, rfl⟩, rfl⟩ := hd
        obtain ⟨fid, _, rfl⟩ := mem_produce ho
        exact atomsIn_foldOutcome hS sp metric t l fid ht hl
      exact ⟨KeysIn.hzip fun d hd => (hall d hd).1, DepsIn.hzip (by simp) fun d hd => (hall d hd).2⟩

/-! ### Ensembler.compose / FullStack.Builder.build -/

theorem folds_eq (S : Scope) (n sp : Nat) (xa xt xl : Val) :
    folds S n sp xa xt xl = (List.range n).map (foldOf S sp xa xt xl) := by
  simp [folds, foldOf]

theorem folds_length (S : Scope) (n sp : Nat) (xa xt xl : Val) : (folds S n sp xa xt xl).length = n := by
  simp [folds_eq]

theorem folds_getElem? (S : Scope) (n sp : Nat) (xa xt xl : Val) {fid : Nat} (h : fid < n) :
    (folds S n sp xa xt xl)[fid]? = some (foldOf S sp xa xt xl fid) := by
  simp [folds_eq, List.getElem?_map, List.getElem?_range h]

theorem mem_folds {S : Scope} {n sp : Nat} {xa xt xl : Val} {f : Fold} (h : f ∈ folds S n sp xa xt xl) :
    ∃ fid, fid < n ∧ f = foldOf S sp xa xt xl fid := by
  simp only [folds_eq, List.mem_map, List.mem_range] at h
  obtain ⟨fid, hf, rfl⟩ := h
  exact ⟨fid, hf, rfl⟩

/-- what the five publishers of a fold can be made of -/
theorem foldOf_local {E : Env} {S : Scope} (hS : Local E S) (sp : Nat) (xa xt xl : Val) (fid : Nat)
    {P : Atom → Prop} (ht : AtomsIn (rows E xt) P) (hl : AtomsIn (rows E xl) P) :
    let f := foldOf S sp xa xt xl fid
    (KeysIn (rows E xa) P → KeysIn (rows E f.trainApply) P) ∧
    (DepsIn (rows E xa) P → DepsIn (rows E f.trainApply) P) ∧
    AtomsIn (rows E f.trainTrain) P ∧ AtomsIn (rows E f.trainLabel) P ∧
    AtomsIn (rows E f.testTrain) P ∧ AtomsIn (rows E f.testLabel) P := by
  intro f
  have hT := atomsIn_part (tag := sp) (st := Val.state sp .none xt xl) (k := 2 * fid) ht
  have hTL := atomsIn_part (tag := sp) (st := Val.state sp .none xt xl) (k := 2 * fid) hl
  have hH := atomsIn_part (tag := sp) (st := Val.state sp .none xt xl) (k := 2 * fid + 1) ht
  exact ⟨fun ha => hS.applyKeys _ _ _ P ha, fun ha => hS.applyDeps _ _ _ P ha hT hTL,
    hS.train _ _ _ P hT hTL, hS.label _ _ _ P hT hTL,
    ⟨hS.applyKeys _ _ _ P hH.1, hS.applyDeps _ _ _ P hH.2 hT hTL⟩, atomsIn_part hl⟩

theorem stack_local {E : Env} {S : Scope} (bases : List Scope) (n sp appender stacker reducer : Nat)
    (hB : ∀ b ∈ bases, Local E b) (hS : Local E S) : Local E (fullStack bases n sp appender stacker reducer S) := by
  refine ⟨?_, ?_, ?_, ?_⟩
  · -- apply path: describes the records of the apply input
    intro a t l P ha
    show KeysIn (rows E (Val.apply appender .none _)) P
    rw [rows_apply]
    refine KeysIn.hzip ?_
    intro d hd
    simp only [List.mem_map] at hd
    obtain ⟨v, ⟨b, hb, rfl⟩, rfl⟩ := hd
    rw [rows_apply]
    refine KeysIn.hzip ?_
    intro d hd
    simp only [List.mem_map] at hd
    obtain ⟨v, ⟨f, hf, rfl⟩, rfl⟩ := hd
    obtain ⟨fid, _, rfl⟩ := mem_folds hf
    exact (hB b hb).applyKeys _ _ _ P ((hS.applyKeys _ _ _ P ha))
  · intro a t l P ha ht hl
    show DepsIn (rows E (Val.apply appender .none _)) P
    rw [rows_apply]
    refine DepsIn.hzip (by simp) ?_
    intro d hd
    simp only [List.mem_map] at hd
    obtain ⟨v, ⟨b, hb, rfl⟩, rfl⟩ := hd
    rw [rows_apply]
    refine DepsIn.hzip (by simp) ?_
    intro d hd
    simp only [List.mem_map] at hd
    obtain ⟨v, ⟨f, hf, rfl⟩, rfl⟩ := hd
    obtain ⟨fid, _, rfl⟩ := mem_folds hf
    obtain ⟨_, h2, h3, h4, _, _⟩ := foldOf_local hS sp a t l fid ht hl
    exact (hB b hb).applyDeps _ _ _ P (h2 ha) h3 h4
  · intro a t l P ht hl
    show AtomsIn (rows E (Val.apply appender .none _)) P
    rw [rows_apply]
    have hall : ∀ d ∈ List.map (rows E) (List.map (fun b => Val.concat stacker
        (List.map (fun f => (baseFold b f).1) (folds S n sp a t l))) bases), AtomsIn d P := by
      intro d hd
      simp only [List.mem_map] at hd
      obtain ⟨v, ⟨b, hb, rfl⟩, rfl⟩ := hd
      rw [rows_concat]
      have hblk : ∀ d ∈ List.map (rows E) (List.map (fun f => (baseFold b f).1) (folds S n sp a t l)), AtomsIn d P := by
        intro d hd
        simp only [List.mem_map] at hd
        obtain ⟨v, ⟨f, hf, rfl⟩, rfl⟩ := hd
        obtain ⟨fid, _, rfl⟩ := mem_folds hf
        obtain ⟨_, _, h3, h4, h5, _⟩ := foldOf_local hS sp a t l fid ht hl
        exact ⟨(hB b hb).applyKeys _ _ _ P h5.1, (hB b hb).applyDeps _ _ _ P h5.2 h3 h4⟩
      exact ⟨KeysIn.flatten fun d hd => (hblk d hd).1, DepsIn.flatten fun d hd => (hblk d hd).2⟩
    exact ⟨KeysIn.hzip fun d hd => (hall d hd).1, DepsIn.hzip (by simp) fun d hd => (hall d hd).2⟩
  · intro a t l P ht hl
    show AtomsIn (rows E (Val.concat stacker _)) P
    rw [rows_concat]
    have hblk : ∀ d ∈ List.map (rows E) (List.map (·.testLabel) (folds S n sp a t l)), AtomsIn d P := by
      intro d hd
      simp only [List.mem_map] at hd
      obtain ⟨v, ⟨f, hf, rfl⟩, rfl⟩ := hd
      obtain ⟨fid, _, rfl⟩ := mem_folds hf
      exact (foldOf_local hS sp a t l fid ht hl).2.2.2.2.2
    exact ⟨KeysIn.flatten fun d hd => (hblk d hd).1, DepsIn.flatten fun d hd => (hblk d hd).2⟩

/-! ### every expression of the operator library -/

mutual
  theorem denoteC_local (E : Env) : ∀ (p : Pipe) (S : Scope), Local E S → Local E (denoteC p S)
    | .seq l r, S, hS => by
      have hQ := denoteC_local E r _ (denoteC_local E l _ (origin_local E))
      simpa [denoteC] using seq_local hS hQ
    | .wrap lab app trn, S, hS => by simpa [denoteC] using wrap_local lab app trn hS
    | .mapreduce ms r, S, hS => by simpa [denoteC] using mapreduce_local ms r hS
    | .stack bases n sp a k r, S, hS => by
      simpa [denoteC] using stack_local (denoteAll bases) n sp a k r (denoteAll_local E bases) hS
    | .score n sp m r, S, hS => by simpa [denoteC] using score_local n sp m r hS

  theorem denoteAll_local (E : Env) : ∀ (ps : List Pipe), ∀ b ∈ denoteAll ps, Local E b
    | [], b, hb => by simp [denoteAll] at hb
    | p :: ps, b, hb => by
      simp only [denoteAll, List.mem_cons] at hb
      rcases hb with rfl | hb
      · exact denoteC_local E p _ (origin_local E)
      · exact denoteAll_local E ps b hb
end

theorem denoteAll_eq_map (ps : List Pipe) : denoteAll ps = ps.map denote := by
  induction ps with
  | nil => simp [denoteAll]
  | cons p ps ih => simp [denoteAll, denote, ih]

/-! ### row preservation: the apply path of a pipeline describes exactly the records it is given, in order -/

def RowPreserving (E : Env) (S : Scope) : Prop :=
  ∀ a t l, (rows E (S a t l).apply).keys = (rows E a).keys

theorem origin_rowPreserving (E : Env) : RowPreserving E Scope.origin := fun _ _ _ => rfl

theorem keys_applied (E : Env) (a : Actor) (st x : Val) : (rows E (applied a st x)).keys = (rows E x).keys := by
  unfold applied
  rw [rows_apply]
  simp [keys_hzip]

theorem wrap_rowPreserving {E : Env} {S : Scope} (lab app trn : Option Actor) (hS : RowPreserving E S) :
    RowPreserving E (denoteWrap lab app trn S) := by
  intro a t l
  cases app with
  | none => exact hS a t l
  | some aa =>
    show (rows E (applied aa _ _)).keys = _
    rw [keys_applied]
    exact hS a t l

theorem mapreduce_rowPreserving {E : Env} {S : Scope} (ms : List Actor) (reducer : Nat) (hms : ms ≠ [])
    (hS : RowPreserving E S) : RowPreserving E (denoteMapReduce ms reducer S) := by
  intro a t l
  cases ms with
  | nil => exact absurd rfl hms
  | cons m ms =>
    show (rows E (Val.apply reducer .none _)).keys = _
    rw [rows_apply]
    simp only [List.map_cons, keys_hzip, keys_applied]
    exact hS a t l

theorem seq_rowPreserving {E : Env} {S Q : Scope} (hS : RowPreserving E S) (hQ : RowPreserving E Q) :
    RowPreserving E (fun xa xt xl => Q (S xa xt xl).apply (S xa xt xl).train (S xa xt xl).label) :=
  fun a t l => (hQ _ _ _).trans (hS a t l)

theorem score_rowPreserving {E : Env} {S : Scope} (n sp metric reducer : Nat) :
    RowPreserving E (trainTestScore n sp metric reducer S) := fun _ _ _ => rfl

theorem folds_succ (S : Scope) (n sp : Nat) (xa xt xl : Val) :
    folds S (n + 1) sp xa xt xl = foldOf S sp xa xt xl 0 :: (List.range n).map (fun i => foldOf S sp xa xt xl (i + 1)) := by
  simp [folds_eq, List.range_succ_eq_map]

theorem stack_rowPreserving {E : Env} {S : Scope} (b : Scope) (bases : List Scope) (n sp appender stacker reducer : Nat)
    (hn : 1 ≤ n) (hb : RowPreserving E b) (hS : RowPreserving E S) :
    RowPreserving E (fullStack (b :: bases) n sp appender stacker reducer S) := by
  intro a t l
  obtain ⟨n, rfl⟩ : ∃ k, n = k + 1 := ⟨n - 1, by omega⟩
  show (rows E (Val.apply appender .none _)).keys = _
  rw [rows_apply]
  simp only [List.map_cons, keys_hzip, rows_apply, folds_succ, baseFold]
  exact (hb _ _ _).trans (hS _ _ _)

mutual
  theorem denoteC_rowPreserving (E : Env) : ∀ (p : Pipe) (S : Scope), p.wf = true → RowPreserving E S →
      RowPreserving E (denoteC p S)
    | .seq l r, S, hwf, hS => by
      simp only [Pipe.wf, Bool.and_eq_true] at hwf
      have hQ := denoteC_rowPreserving E r _ hwf.2 (denoteC_rowPreserving E l _ hwf.1 (origin_rowPreserving E))
      simpa [denoteC] using seq_rowPreserving hS hQ
    | .wrap lab app trn, S, _, hS => by simpa [denoteC] using wrap_rowPreserving lab app trn hS
    | .mapreduce ms r, S, hwf, hS => by
      have : ms ≠ [] := by
        intro h; subst h; simp [Pipe.wf] at hwf
      simpa [denoteC] using mapreduce_rowPreserving ms r this hS
    | .stack [] n sp a k r, S, hwf, hS => by simp [Pipe.wf] at hwf
    | .stack (b :: bases) n sp a k r, S, hwf, hS => by
      simp only [Pipe.wf, Pipe.wfAll, Bool.and_eq_true, decide_eq_true_eq] at hwf
      have hb := denoteC_rowPreserving E b _ hwf.2.1 (origin_rowPreserving E)
      simpa [denoteC, denoteAll] using stack_rowPreserving _ (denoteAll bases) n sp a k r hwf.1.2 hb hS
    | .score n sp m r, S, _, hS => by simpa [denoteC] using score_rowPreserving (S := S) n sp m r
end

end ForML.CrossVal
