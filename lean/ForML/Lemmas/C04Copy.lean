/-
C04 helper lemmas, part 6: the composition `eval_perftrack` works on (`Comp.copied`: the plain composition plus the
forked copy of its apply segment, persistent list computed on the copy, compiled segment = the original apply
workers) has the same persistent list as the plain composition and hands every worker what batch apply hands it —
provided trained-ness does not depend on the liveness of publishers (the forks' groups keep their trainers).
-/
import ForML.Model.PersistCopy
import ForML.Lemmas.C04Fuel
import ForML.Lemmas.C04Modes

namespace ForML.Persist

/-- fresh uuids: injective and different from every uid of the composition -/
structure FreshFor (ρ : Nat → Nat) (c : Comp) : Prop where
  inj : Inj ρ
  disj : ∀ u v, v ∈ c.uids → ρ u ≠ v

theorem any_congr_mem {α : Type} (l : List α) (p q : α → Bool) (h : ∀ x ∈ l, p x = q x) : l.any p = l.any q := by
  induction l with
  | nil => rfl
  | cons x xs ih =>
    simp only [List.any_cons]
    rw [h x List.mem_cons_self, ih (fun y hy => h y (List.mem_cons_of_mem _ hy))]

theorem filterMap_congr_mem {α β : Type} (l : List α) (f g : α → Option β) (h : ∀ x ∈ l, f x = g x) :
    l.filterMap f = l.filterMap g := by
  induction l with
  | nil => rfl
  | cons x xs ih =>
    simp only [List.filterMap_cons]
    rw [h x List.mem_cons_self, ih (fun y hy => h y (List.mem_cons_of_mem _ hy))]

namespace Comp

theorem uid_mem_uids {c : Comp} {n : Node} (h : n ∈ c.nodes) : n.uid ∈ c.uids := by
  simp only [uids, List.mem_append, List.mem_map]
  exact Or.inl (Or.inl (Or.inl ⟨n, h, rfl⟩))

theorem src_mem_uids {c : Comp} {e : Nat × Nat} (h : e ∈ c.edges) : e.1 ∈ c.uids := by
  simp only [uids, List.mem_append, List.mem_map]
  exact Or.inl (Or.inl (Or.inr ⟨e, h, rfl⟩))

theorem dst_mem_uids {c : Comp} {e : Nat × Nat} (h : e ∈ c.edges) : e.2 ∈ c.uids := by
  simp only [uids, List.mem_append, List.mem_map]
  exact Or.inl (Or.inr ⟨e, h, rfl⟩)

theorem applyHead_mem_uids (c : Comp) : c.applyHead ∈ c.uids := by
  simp [uids]

theorem subs_mem_uids {c : Comp} {u v : Nat} (h : v ∈ c.subs u) : v ∈ c.uids := by
  simp only [subs, List.mem_map, List.mem_filter] at h
  obtain ⟨e, ⟨he, _⟩, hv⟩ := h
  rw [← hv]
  exact dst_mem_uids he

theorem next_mem_uids {c : Comp} {t u v : Nat} (h : v ∈ c.next t u) : v ∈ c.uids := by
  simp only [next] at h
  split at h
  · exact subs_mem_uids (List.mem_filter.mp h).1
  · exact subs_mem_uids h

variable {ρ : Nat → Nat} {c : Comp}

/-- forks are never trained: trained-ness is that of the original nodes -/
theorem isTrained_copied (ρ : Nat → Nat) (c : Comp) (u : Nat) : (c.copied ρ).isTrained u = c.isTrained u := by
  simp only [isTrained, copied, List.any_append, List.any_map]
  have : (c.nodes.any ((fun n : Node => n.uid == u && n.trained) ∘ Node.fork ρ)) = false := by
    apply List.any_eq_false.mpr
    intro n _
    simp [Function.comp, Node.fork]
  rw [this, Bool.or_false]

theorem isTrained_fresh (hf : FreshFor ρ c) (x : Nat) : c.isTrained (ρ x) = false := by
  simp only [isTrained]
  apply List.any_eq_false.mpr
  intro n hn
  have := hf.disj x n.uid (uid_mem_uids hn)
  have hne : (n.uid == ρ x) = false := by
    simp only [beq_eq_false_iff_ne, ne_eq]
    exact fun e => this e.symm
  simp [hne]

theorem subs_copied_fork (hf : FreshFor ρ c) (u : Nat) : (c.copied ρ).subs (ρ u) = (c.subs u).map ρ := by
  simp only [subs, copied, List.filter_append, List.map_append]
  have h1 : c.edges.filter (fun e => e.1 == ρ u) = [] := by
    apply List.filter_eq_nil_iff.mpr
    intro e he
    have := hf.disj u e.1 (src_mem_uids he)
    simp only [beq_iff_eq]
    exact fun h => this h.symm
  rw [h1, List.map_nil, List.nil_append, List.filter_map, List.map_map, List.map_map]
  congr 1
  apply List.filter_congr
  intro e _
  simp [Function.comp, hf.inj.beq]

theorem subs_copied_orig (hf : FreshFor ρ c) {u : Nat} (hu : u ∈ c.uids) : (c.copied ρ).subs u = c.subs u := by
  simp only [subs, copied, List.filter_append, List.map_append]
  have h2 : (c.edges.map (fun e => (ρ e.1, ρ e.2))).filter (fun e => e.1 == u) = [] := by
    apply List.filter_eq_nil_iff.mpr
    intro e he
    simp only [List.mem_map] at he
    obtain ⟨e0, _, rfl⟩ := he
    simp only [beq_iff_eq]
    exact hf.disj e0.1 u hu
  rw [h2, List.map_nil, List.append_nil]

theorem next_copied_fork (hf : FreshFor ρ c) (htail : c.tailClean = true) (u : Nat) :
    (c.copied ρ).next (ρ c.applyTail) (ρ u) = (c.next c.applyTail u).map ρ := by
  simp only [next, hf.inj.beq, subs_copied_fork hf]
  split
  · rename_i hut
    have hut' : u = c.applyTail := by simpa using hut
    have h1 : ((c.subs u).map ρ).filter (c.copied ρ).isTrained = [] := by
      apply List.filter_eq_nil_iff.mpr
      intro v hv
      simp only [List.mem_map] at hv
      obtain ⟨x, _, rfl⟩ := hv
      simp [isTrained_copied, isTrained_fresh hf]
    have h2 : (c.subs u).filter c.isTrained = [] := by
      apply List.filter_eq_nil_iff.mpr
      intro v hv
      simp only [tailClean, List.all_eq_true] at htail
      rw [hut'] at hv
      simpa using htail v hv
    rw [h1, h2]
    rfl
  · rfl

theorem next_copied_orig (hf : FreshFor ρ c) (t : Nat) {u : Nat} (hu : u ∈ c.uids) :
    (c.copied ρ).next t u = c.next t u := by
  simp only [next, subs_copied_orig hf hu]
  split
  · apply List.filter_congr
    intro v _
    exact isTrained_copied ρ c v
  · rfl

/-- traversals that step alike visit alike -/
theorem dfs_map_of_next (hρ : Inj ρ) (c c' : Comp) (t t' : Nat)
    (hnext : ∀ u, c'.next t' (ρ u) = (c.next t u).map ρ) :
    ∀ (f : Nat) (stack seen : List Nat),
      c'.dfs t' f (stack.map ρ) (seen.map ρ) = (c.dfs t f stack seen).map ρ := by
  intro f
  induction f with
  | zero => intro stack seen; simp [dfs]
  | succ f ih =>
    intro stack seen
    cases stack with
    | nil => simp [dfs]
    | cons u rest =>
      simp only [List.map_cons, dfs, hρ.contains_map]
      split
      · exact ih rest seen
      · have := ih (c.next t u ++ rest) (seen ++ [u])
        simp only [List.map_append, List.map_cons, List.map_nil] at this
        rw [hnext]
        exact this

theorem dfs_congr_on (c c' : Comp) (t : Nat) (S : Nat → Prop)
    (hnext : ∀ u, S u → c'.next t u = c.next t u) (hclosed : ∀ u v, S u → v ∈ c.next t u → S v) :
    ∀ (f : Nat) (stack seen : List Nat), (∀ u ∈ stack, S u) → c'.dfs t f stack seen = c.dfs t f stack seen := by
  intro f
  induction f with
  | zero => intro stack seen _; simp [dfs]
  | succ f ih =>
    intro stack seen hS
    cases stack with
    | nil => simp [dfs]
    | cons u rest =>
      have hu := hS u List.mem_cons_self
      have hrest : ∀ v ∈ rest, S v := fun v hv => hS v (List.mem_cons_of_mem _ hv)
      simp only [dfs]
      split
      · exact ih rest seen hrest
      · rw [hnext u hu]
        apply ih
        intro v hv
        simp only [List.mem_append] at hv
        cases hv with
        | inl h => exact hclosed u v hu h
        | inr h => exact hrest v h

theorem fuel_copied (ρ : Nat → Nat) (c : Comp) : (c.copied ρ).fuel = c.fuel + c.edges.length := by
  simp only [fuel, copied, List.length_append, List.length_map]
  omega

/-- the copy is visited like the original apply segment -/
theorem visit_copied_fork (hf : FreshFor ρ c) (htail : c.tailClean = true) :
    (c.copied ρ).visit (ρ c.applyHead) (ρ c.applyTail) = (c.visit c.applyHead c.applyTail).map ρ := by
  have h := dfs_map_of_next hf.inj c (c.copied ρ) c.applyTail (ρ c.applyTail) (next_copied_fork hf htail)
    (c.fuel + c.edges.length) [c.applyHead] []
  simp only [List.map_cons, List.map_nil] at h
  rw [visit, fuel_copied, h, visit_fuel]

/-- the original apply segment is visited as before -/
theorem visit_copied_orig (hf : FreshFor ρ c) :
    (c.copied ρ).visit c.applyHead c.applyTail = c.visit c.applyHead c.applyTail := by
  have h := dfs_congr_on c (c.copied ρ) c.applyTail (fun u => u ∈ c.uids)
    (fun u hu => next_copied_orig hf c.applyTail hu) (fun u v _ hv => next_mem_uids hv)
    (c.fuel + c.edges.length) [c.applyHead] []
    (fun u hu => by
      simp only [List.mem_singleton] at hu
      rw [hu]
      exact applyHead_mem_uids c)
  rw [visit, fuel_copied, h, visit_fuel]

theorem node?_copied_fork (hf : FreshFor ρ c) (u : Nat) :
    (c.copied ρ).node? (ρ u) = (c.node? u).map (Node.fork ρ) := by
  simp only [node?, copied, List.find?_append, List.find?_map]
  have h1 : c.nodes.find? (fun n => n.uid == ρ u) = none := by
    apply List.find?_eq_none.mpr
    intro n hn
    have := hf.disj u n.uid (uid_mem_uids hn)
    simp only [beq_iff_eq]
    exact fun e => this e.symm
  rw [h1, Option.none_or]
  congr 2
  funext n
  simp [Function.comp, Node.fork, hf.inj.beq]

theorem node?_copied_orig (hf : FreshFor ρ c) {u : Nat} (hu : u ∈ c.uids) :
    (c.copied ρ).node? u = c.node? u := by
  simp only [node?, copied, List.find?_append, List.find?_map]
  have h2 : c.nodes.find? ((fun n : Node => n.uid == u) ∘ Node.fork ρ) = none := by
    apply List.find?_eq_none.mpr
    intro n _
    simp only [Function.comp, Node.fork, beq_iff_eq]
    exact hf.disj n.uid u hu
  rw [h2, Option.map_none, Option.or_none]

theorem visit_mem_uids {c : Comp} {h t : Nat} (hh : h ∈ c.uids) : ∀ u ∈ c.visit h t, u ∈ c.uids := by
  -- every visited uid was on the stack: the head or a subscriber
  have key : ∀ (f : Nat) (stack seen : List Nat), (∀ u ∈ stack, u ∈ c.uids) → (∀ u ∈ seen, u ∈ c.uids) →
      ∀ u ∈ c.dfs t f stack seen, u ∈ c.uids := by
    intro f
    induction f with
    | zero => intro stack seen _ hseen u hu; simp only [dfs] at hu; exact hseen u hu
    | succ f ih =>
      intro stack seen hst hseen u hu
      cases stack with
      | nil => simp only [dfs] at hu; exact hseen u hu
      | cons x rest =>
        simp only [dfs] at hu
        have hx := hst x List.mem_cons_self
        have hrest : ∀ v ∈ rest, v ∈ c.uids := fun v hv => hst v (List.mem_cons_of_mem _ hv)
        split at hu
        · exact ih rest seen hrest hseen u hu
        · apply ih (c.next t x ++ rest) (seen ++ [x]) _ _ u hu
          · intro v hv
            simp only [List.mem_append] at hv
            cases hv with
            | inl h' => exact next_mem_uids h'
            | inr h' => exact hrest v h'
          · intro v hv
            simp only [List.mem_append, List.mem_singleton] at hv
            cases hv with
            | inl h' => exact hseen v h'
            | inr h' => rw [h']; exact hx
  exact key c.fuel [h] [] (fun u hu => by simp only [List.mem_singleton] at hu; rw [hu]; exact hh)
    (fun u hu => by cases hu)

theorem visitNodes_copied_fork (hf : FreshFor ρ c) (htail : c.tailClean = true) :
    (c.copied ρ).visitNodes (ρ c.applyHead) (ρ c.applyTail)
      = (c.visitNodes c.applyHead c.applyTail).map (Node.fork ρ) := by
  simp only [visitNodes, visit_copied_fork hf htail, List.filterMap_map, List.map_filterMap]
  congr 1
  funext u
  simp [Function.comp, node?_copied_fork hf]

theorem visitNodes_copied_orig (hf : FreshFor ρ c) :
    (c.copied ρ).visitNodes c.applyHead c.applyTail = c.visitNodes c.applyHead c.applyTail := by
  simp only [visitNodes, visit_copied_orig hf]
  apply filterMap_congr_mem
  intro u hu
  exact node?_copied_orig hf (visit_mem_uids (applyHead_mem_uids c) u hu)

/-- an original worker is derived in the evaluation's composition iff it is in the plain one -/
theorem derived_copied_orig (ρ : Nat → Nat) (c : Comp) (n : Node) : (c.copied ρ).derived n = c.derived n := by
  simp only [derived, copied, List.any_append, List.any_map]
  have : c.nodes.any ((fun m : Node => m.gid == n.gid && m.uid != n.uid && m.trained) ∘ Node.fork ρ) = false := by
    apply List.any_eq_false.mpr
    intro m _
    simp [Function.comp, Node.fork]
  rw [this, Bool.or_false]

/-- the fork of an untrained worker is derived iff the worker is: its group keeps its trainer -/
theorem derived_copied_fork (hf : FreshFor ρ c) (hdist : c.uidsDistinct = true) {n : Node} (hn : n ∈ c.nodes)
    (hnt : n.trained = false) : (c.copied ρ).derived (n.fork ρ) = c.derived n := by
  simp only [derived, copied, List.any_append, List.any_map]
  have h2 : c.nodes.any ((fun m : Node => m.gid == (n.fork ρ).gid && m.uid != (n.fork ρ).uid && m.trained)
      ∘ Node.fork ρ) = false := by
    apply List.any_eq_false.mpr
    intro m _
    simp [Function.comp, Node.fork]
  rw [h2, Bool.or_false]
  show (n.stateful && c.nodes.any fun m => m.gid == n.gid && m.uid != ρ n.uid && m.trained) = _
  congr 1
  apply any_congr_mem
  intro m hm
  have h1 : (m.uid != ρ n.uid) = true := by
    simp only [bne_iff_ne, ne_eq]
    exact fun e => hf.disj n.uid m.uid (uid_mem_uids hm) e.symm
  by_cases hmn : m.uid = n.uid
  · -- the worker itself: untrained
    simp only [uidsDistinct, List.all_eq_true] at hdist
    have := hdist m hm n hn
    simp only [Bool.or_eq_true, bne_iff_ne, ne_eq, beq_iff_eq] at this
    cases this with
    | inl h => exact absurd hmn h
    | inr h => rw [h]; simp [hnt]
  · have h3 : (m.uid != n.uid) = true := by simpa using hmn
    rw [h1, h3]

theorem tagOfGid_copied (ρ : Nat → Nat) (c : Comp) (g : Nat) : (c.copied ρ).tagOfGid g = c.tagOfGid g := by
  simp only [tagOfGid, copied, List.find?_append, List.find?_map]
  have hcomp : ((fun n : Node => n.gid == g) ∘ Node.fork ρ) = (fun n : Node => n.gid == g) := by
    funext n
    simp [Function.comp, Node.fork]
  rw [hcomp]
  cases c.nodes.find? (fun n => n.gid == g) with
  | none => rfl
  | some n => rfl

/-- `Composition.persistent` of the evaluation's composition (computed on the copy) is the plain one -/
theorem persistent_copied (hf : FreshFor ρ c) (htail : c.tailClean = true) (hdist : c.uidsDistinct = true)
    (hnt : c.noTrainer c.applyHead c.applyTail = true) : (c.copied ρ).persistent = c.persistent := by
  show (c.copied ρ).persistentOf ((c.copied ρ).visitNodes (ρ c.applyHead) (ρ c.applyTail)) = _
  rw [visitNodes_copied_fork hf htail]
  simp only [persistent, persistentOf, List.filter_map, List.map_map]
  congr 2
  apply List.filter_congr
  intro n hn
  simp only [Function.comp]
  have hun := untrained_of_noTrainer hnt n hn
  exact derived_copied_fork hf hdist (mem_visitNodes hn) hun

end Comp

/-- what `eval_perftrack` compiles and runs (the original apply workers, with the persistent list of the copy) is
what batch apply compiles and runs -/
theorem runSegment_copied {ρ : Nat → Nat} {c : Comp} (hf : FreshFor ρ c) (htail : c.tailClean = true)
    (hdist : c.uidsDistinct = true) (hnt : c.noTrainer c.applyHead c.applyTail = true) (reg : Registry)
    (a : Action) :
    runSegment (c.copied ρ) c.applyHead c.applyTail reg a = runSegment c c.applyHead c.applyTail reg a := by
  simp only [runSegment, Comp.persistent_copied hf htail hdist hnt, Comp.visitNodes_copied_orig hf]
  have hobs : observeAll (c.copied ρ) (c.visitNodes c.applyHead c.applyTail) ⟨c.persistent, select reg a.gen⟩ a.run a.hp
      = observeAll c (c.visitNodes c.applyHead c.applyTail) ⟨c.persistent, select reg a.gen⟩ a.run a.hp := by
    simp only [observeAll]
    rw [mapE_congr _ (observe c (c.visitNodes c.applyHead c.applyTail) ⟨c.persistent, select reg a.gen⟩ a.run a.hp)]
    intro n _
    simp only [observe, receive, Comp.derived_copied_orig]
  rw [hobs]

end ForML.Persist
