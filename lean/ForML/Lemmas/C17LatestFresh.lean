/- C17: a refresh round brings `Latest` to the newest generation; when the refresher stays alive (lemmas). -/
import ForML.Lemmas.C17LatestInv

namespace ForML.Strategy

theorem served_of {s : LState} {i : Inst} {g : Nat} (hc : s.cache = some i) (hk : genKey s.rels i = .ok g) :
    served s = .ok (i.release, g) := by
  simp [served, useCached, hc, hk]

/-- what `_pick` returns when there is something to resolve to: an instance that resolves to just that -/
theorem spec_pick {cfg : Option Nat} {rels : Rels} {r g : Nat} (hwf : WF rels) (h : Spec cfg rels r g) :
    ∃ new, pick cfg rels = .ok new ∧ new.release = r ∧ genKey rels new = .ok g ∧ CacheOK cfg rels new := by
  cases cfg with
  | none =>
    have hp := pickLatest_of_newest hwf h
    obtain ⟨gs, hr, hm, _⟩ := newestOf_listing hwf h.1
    have hpk : pick none rels = .ok ⟨0, r, some g⟩ := by simp [pick, hp]
    exact ⟨⟨0, r, some g⟩, hpk, rfl, genKey_explicit (i := ⟨0, r, some g⟩) hr rfl hm, cacheOK_pick hwf hpk⟩
  | some c =>
    obtain ⟨rfl, h⟩ := h
    obtain ⟨gs, hr, _, hl⟩ := newestOf_listing hwf h
    have hpk : pick (some c) rels = .ok ⟨0, c, none⟩ := rfl
    exact ⟨⟨0, c, none⟩, hpk, rfl, genKey_lazy (i := ⟨0, c, none⟩) hr rfl hl, cacheOK_pick hwf hpk⟩

theorem spec_hasgen {cfg : Option Nat} {rels : Rels} {r g : Nat} (hwf : WF rels) (h : Spec cfg rels r g) :
    ∀ c, cfg = some c → ∃ gs, gensOf rels c = some gs ∧ gs ≠ [] := by
  intro c hc; subst hc
  obtain ⟨rfl, h⟩ := h
  obtain ⟨gs, hr, hm, _⟩ := newestOf_listing hwf h
  exact ⟨gs, hr, by intro e; subst e; simp at hm⟩

/-- **one refresh round**: with the refresher alive and anything cached, after the round a request is served by
exactly what the property names, and the refresher is still alive. -/
theorem tick_fresh {sv : Bool} {cfg : Option Nat} {s : LState} {r g : Nat} (h : InvL cfg s) (ha : s.alive = true)
    (hpd : s.pending = false) (hc : s.cache ≠ none) (hs : Spec cfg s.rels r g) :
    served (tick sv cfg s) = .ok (r, g) ∧ (tick sv cfg s).alive = true ∧ (tick sv cfg s).cache ≠ none := by
  cases hco : s.cache with
  | none => exact absurd hco hc
  | some old =>
    obtain ⟨new, hp, hnr, hnk, _⟩ := spec_pick h.wf hs
    obtain ⟨go, hok⟩ := cacheOK_genKey (h.cache old hco) (spec_hasgen h.wf hs)
    obtain ⟨gso, hro, _⟩ := genKey_ok_mem hok
    obtain ⟨gsn, hrn, _⟩ := genKey_ok_mem hnk
    obtain ⟨⟨v, a', b'⟩, he⟩ := instEq_ok hrn hro hnk (fun _ => ⟨go, hok⟩)
    rcases instEq_cases he with ⟨hv, ha', hb', _⟩ | ⟨ga, gb, hga, hgb, _, hrel, hv, ha', hb'⟩
    · rw [hv, ha', hb'] at he
      have ht : tick sv cfg s = { s with cache := some new } := by
        simp [tick, ha, hpd, hco, hp, he]
      rw [ht]
      exact ⟨by rw [served_of (s := { s with cache := some new }) rfl hnk, hnr], ha, by simp⟩
    · rw [hnk] at hga; cases hga
      rw [hok] at hgb; cases hgb
      rw [hv, ha', hb'] at he
      by_cases hv : g = go
      · subst hv
        have ht : tick sv cfg s = { s with cache := some (old.pin g) } := by
          simp [tick, ha, hpd, hco, hp, he]
        rw [ht]
        refine ⟨?_, ha, by simp⟩
        rw [served_of (s := { s with cache := some (old.pin g) }) rfl (genKey_pin hok)]
        simp [← hrel, hnr]
      · have hb : (g == go) = false := by simp [hv]
        have ht : tick sv cfg s = { s with cache := some (new.pin g) } := by
          rw [hb] at he
          simp [tick, ha, hpd, hco, hp, he]
        rw [ht]
        refine ⟨?_, ha, by simp⟩
        rw [served_of (s := { s with cache := some (new.pin g) }) rfl (genKey_pin hnk)]
        simp [hnr]

/-! ### when the refresher stays alive -/

/-- whenever something is cached the refresher runs -/
def AliveInv (s : LState) : Prop := s.cache ≠ none → s.alive = true

theorem tick_cache_none {sv : Bool} {cfg : Option Nat} {s : LState} (h : s.cache = none) : tick sv cfg s = s := by
  unfold tick
  split
  · simp [h]
  · rfl

theorem die_alive_true (s : LState) : (s.die true) = s := by simp [LState.die]

theorem tick_survive_alive (cfg : Option Nat) (s : LState) : (tick true cfg s).alive = s.alive := by
  unfold tick
  split
  · split
    · rfl
    · split
      · rw [die_alive_true]
      split
      · rw [die_alive_true]
      · split
        · rw [die_alive_true]
        · rfl
        · rfl
  · rfl

/-- a refresh round never touches the registry -/
theorem tick_rels (sv : Bool) (cfg : Option Nat) (s : LState) : (tick sv cfg s).rels = s.rels := by
  simp only [tick]
  split
  · split
    · rfl
    · split
      · simp only [LState.die]; split <;> rfl
      split
      · simp only [LState.die]; split <;> rfl
      · split
        · simp only [LState.die]; split <;> rfl
        · rfl
        · rfl
  · rfl

/-- no fault appears out of nothing -/
theorem tick_pending_false (sv : Bool) (cfg : Option Nat) (s : LState) (h : s.pending = false) :
    (tick sv cfg s).pending = false := by
  simp only [tick]
  split
  · split
    · exact h
    · split
      · simp only [LState.die]; split <;> rfl
      split
      · simp only [LState.die]; split <;> exact h
      · split
        · simp only [LState.die]; split <;> exact h
        · exact h
        · exact h
  · exact h

/-- a pending fault strikes the round: nothing but the fault changes when the refresher survives -/
theorem tick_faulted {cfg : Option Nat} {s : LState} (ha : s.alive = true) (hc : s.cache ≠ none)
    (hpd : s.pending = true) : tick true cfg s = { s with pending := false } := by
  cases hco : s.cache with
  | none => exact absurd hco hc
  | some old => simp [tick, ha, hco, hpd, LState.die]

theorem alive_tick {sv : Bool} {cfg : Option Nat} {s : LState} (h : InvL cfg s) (ha : AliveInv s)
    (hok : sv = true ∨ (s.pending = false ∧ (s.cache ≠ none → ∃ r g, Spec cfg s.rels r g))) :
    AliveInv (tick sv cfg s) := by
  intro hc
  have hc0 : s.cache ≠ none := by
    intro h0; rw [tick_cache_none h0] at hc; exact hc h0
  rcases hok with rfl | hok
  · rw [tick_survive_alive]; exact ha hc0
  · obtain ⟨r, g, hs⟩ := hok.2 hc0
    exact (tick_fresh h (ha hc0) hok.1 hc0 hs).2.1

theorem alive_select {cfg : Option Nat} {s : LState} (ha : AliveInv s) : AliveInv (select cfg s).2 := by
  unfold select
  split
  · exact ha
  · split
    · exact ha
    · intro _; rfl

theorem alive_useCached {s : LState} (ha : AliveInv s) : AliveInv (useCached s).2 := by
  unfold useCached
  split
  · exact ha
  · rename_i i hc
    split
    · exact ha
    · intro _; exact ha (by simp [hc])

theorem alive_step {sv : Bool} {cfg : Option Nat} {s : LState} (op : LOp) (h : InvL cfg s) (ha : AliveInv s)
    (hok : sv = true ∨ (s.pending = false ∧ (s.cache ≠ none → ∃ r g, Spec cfg s.rels r g))) :
    AliveInv (stepL sv cfg s op).1 := by
  rw [stepL_state]
  cases op with
  | publish r => exact ha
  | commit r => exact ha
  | fault e => exact ha
  | tick => exact alive_tick h ha hok
  | select u =>
    cases u with
    | false => exact alive_select ha
    | true =>
      simp only
      split
      · exact alive_select ha
      · exact alive_useCached (alive_select ha)

/-- the configured release has a generation -/
def HasGen (rels : Rels) (c : Nat) : Prop := ∃ gs, gensOf rels c = some gs ∧ gs ≠ []

theorem hasGen_grows {rels rels' : Rels} {c : Nat} (hg : Grows rels rels') (h : HasGen rels c) : HasGen rels' c := by
  obtain ⟨gs, hr, hne⟩ := h
  obtain ⟨gs', hr', hsub⟩ := hg _ _ hr
  refine ⟨gs', hr', ?_⟩
  intro e; subst e
  cases gs with
  | nil => exact hne rfl
  | cons a _ => exact absurd (hsub a (by simp)) (by simp)

theorem hasGen_spec {rels : Rels} {c : Nat} (hwf : WF rels) (h : HasGen rels c) : ∃ g, Spec (some c) rels c g := by
  obtain ⟨gs, hr, hne⟩ := h
  cases hl : gs.getLast? with
  | none => exact absurd (List.getLast?_eq_none_iff.mp hl) hne
  | some g => exact ⟨g, rfl, newestOf_last hwf (gensOf_mem hr) hl⟩

theorem hasGen_step {sv : Bool} {cfg : Option Nat} {s : LState} {c : Nat} (op : LOp) (hwf : WF s.rels)
    (h : HasGen s.rels c) : HasGen (stepL sv cfg s op).1.rels c := by
  have hrels : (stepL sv cfg s op).1.rels = s.rels ∨ Grows s.rels (stepL sv cfg s op).1.rels := by
    rw [stepL_state]
    cases op with
    | publish r => exact Or.inr (grows_publish hwf r)
    | commit r => exact Or.inr (grows_commit hwf r)
    | tick => exact Or.inl (tick_rels sv cfg s)
    | fault e => exact Or.inl rfl
    | select u =>
      left
      have hsel : (select cfg s).2.rels = s.rels := by
        unfold select; split
        · rfl
        · split <;> rfl
      have huse : ∀ t : LState, (useCached t).2.rels = t.rels := by
        intro t; unfold useCached; split
        · rfl
        · split <;> rfl
      cases u with
      | false => exact hsel
      | true =>
        simp only
        split
        · exact hsel
        · rw [huse, hsel]
  rcases hrels with e | hg
  · rw [e]; exact h
  · exact hasGen_grows hg h

/-- unconfigured: whatever is cached is listed, hence there is something to resolve to -/
theorem cached_spec_none {s : LState} (h : InvL none s) (hc : s.cache ≠ none) : ∃ r g, Spec none s.rels r g := by
  cases hco : s.cache with
  | none => exact absurd hco hc
  | some old =>
    obtain ⟨_, g, gs, _, hr, hm⟩ := h.cache old hco
    cases hp : pickLatest s.rels with
    | none =>
      have := (pickLatest_none_iff s.rels).mp hp _ (gensOf_mem hr)
      simp only at this; subst this; simp at hm
    | some y => exact ⟨y.1, y.2, pickLatest_newest h.wf hp⟩

/-! ### the settings in which every reachable state keeps its refresher -/

/-- a history without registry faults -/
def NoFault (ops : List LOp) : Prop := ∀ op ∈ ops, ∀ e, op ≠ .fault e

theorem pending_step {sv : Bool} {cfg : Option Nat} {s : LState} (op : LOp) (hop : ∀ e, op ≠ .fault e)
    (h : s.pending = false) : (stepL sv cfg s op).1.pending = false := by
  rw [stepL_state]
  cases op with
  | publish r => exact h
  | commit r => exact h
  | fault e => exact absurd rfl (hop e)
  | tick => exact tick_pending_false sv cfg s h
  | select u =>
    have hsel : (select cfg s).2.pending = s.pending := by
      unfold select; split
      · rfl
      · split <;> rfl
    have huse : ∀ t : LState, (useCached t).2.pending = t.pending := by
      intro t; unfold useCached; split
      · rfl
      · split <;> rfl
    cases u with
    | false => rw [hsel]; exact h
    | true =>
      simp only
      split
      · rw [hsel]; exact h
      · rw [huse, hsel]; exact h

theorem reach_unconfigured {rels0 : Rels} (hwf : WF rels0) (ops : List LOp) (hnf : NoFault ops) :
    InvL none (execL false none (LState.init rels0) ops) ∧ AliveInv (execL false none (LState.init rels0) ops) ∧
      (execL false none (LState.init rels0) ops).pending = false := by
  suffices ∀ s, InvL none s → AliveInv s → s.pending = false →
      InvL none (execL false none s ops) ∧ AliveInv (execL false none s ops) ∧ (execL false none s ops).pending = false from
    this _ (invL_init hwf) (by intro h; exact absurd rfl h) rfl
  induction ops with
  | nil => intro s h ha hp; exact ⟨h, ha, hp⟩
  | cons op ops ih =>
    intro s h ha hp
    exact ih (fun o ho => hnf o (List.mem_cons_of_mem _ ho)) _ (invL_step op h)
      (alive_step op h ha (Or.inr ⟨hp, cached_spec_none h⟩)) (pending_step op (hnf op List.mem_cons_self) hp)

theorem reach_configured {rels0 : Rels} {c : Nat} (hwf : WF rels0) (hgen : HasGen rels0 c) (ops : List LOp)
    (hnf : NoFault ops) :
    InvL (some c) (execL false (some c) (LState.init rels0) ops) ∧
      AliveInv (execL false (some c) (LState.init rels0) ops) ∧
      HasGen (execL false (some c) (LState.init rels0) ops).rels c ∧
      (execL false (some c) (LState.init rels0) ops).pending = false := by
  suffices ∀ s, InvL (some c) s → AliveInv s → HasGen s.rels c → s.pending = false →
      InvL (some c) (execL false (some c) s ops) ∧ AliveInv (execL false (some c) s ops) ∧
        HasGen (execL false (some c) s ops).rels c ∧ (execL false (some c) s ops).pending = false from
    this _ (invL_init hwf) (by intro h; exact absurd rfl h) hgen rfl
  induction ops with
  | nil => intro s h ha hg hp; exact ⟨h, ha, hg, hp⟩
  | cons op ops ih =>
    intro s h ha hg hp
    refine ih (fun o ho => hnf o (List.mem_cons_of_mem _ ho)) _ (invL_step op h)
      (alive_step op h ha (Or.inr ⟨hp, ?_⟩)) (hasGen_step op h.wf hg) (pending_step op (hnf op List.mem_cons_self) hp)
    intro _
    obtain ⟨g, hs⟩ := hasGen_spec h.wf hg
    exact ⟨c, g, hs⟩

/-- **liveness under transient faults**: with the refresher surviving its rounds, two rounds after anything –
one to take a pending fault, one to refresh – a request is served by what the property names. -/
theorem tick_twice_fresh {cfg : Option Nat} {s : LState} {r g : Nat} (h : InvL cfg s) (ha : s.alive = true)
    (hc : s.cache ≠ none) (hs : Spec cfg s.rels r g) :
    served (tick true cfg (tick true cfg s)) = .ok (r, g) ∧ (tick true cfg (tick true cfg s)).cache ≠ none := by
  cases hpd : s.pending with
  | false =>
    obtain ⟨_, h2, h3⟩ := tick_fresh (sv := true) h ha hpd hc hs
    have := tick_fresh (sv := true) (invL_tick h) h2 (tick_pending_false true cfg s hpd) h3
      (by rw [tick_rels]; exact hs)
    exact ⟨this.1, this.2.2⟩
  | true =>
    rw [tick_faulted ha hc hpd]
    have := tick_fresh (sv := true) (cfg := cfg) (s := { s with pending := false }) ⟨h.wf, h.cache⟩ ha rfl hc hs
    exact ⟨this.1, this.2.2⟩

theorem reach_repaired {cfg : Option Nat} {rels0 : Rels} (hwf : WF rels0) (ops : List LOp) :
    InvL cfg (execL true cfg (LState.init rels0) ops) ∧ AliveInv (execL true cfg (LState.init rels0) ops) := by
  suffices ∀ s, InvL cfg s → AliveInv s → InvL cfg (execL true cfg s ops) ∧ AliveInv (execL true cfg s ops) from
    this _ (invL_init hwf) (by intro h; exact absurd rfl h)
  induction ops with
  | nil => intro s h ha; exact ⟨h, ha⟩
  | cons op ops ih =>
    intro s h ha
    exact ih _ (invL_step op h) (alive_step op h ha (Or.inl rfl))

/-! ### what a request observes -/

theorem obs_select_served {sv : Bool} {cfg : Option Nat} {s : LState} {r g : Nat} (hc : s.cache ≠ none)
    (h : served s = .ok (r, g)) : (stepL sv cfg s (.select true)).2 = .served r g := by
  cases hco : s.cache with
  | none => exact absurd hco hc
  | some i =>
    have hsel : select cfg s = (.ok i, s) := by simp [select, hco]
    simp only [served] at h
    simp only [stepL, hsel]
    cases hu : useCached s with
    | mk res s' =>
      rw [hu] at h
      simp only at h
      subst h
      rfl

/-- first use of the registry: the selector resolves to what the property names -/
theorem first_select {sv : Bool} {cfg : Option Nat} {s : LState} {r g : Nat} (hwf : WF s.rels) (hc : s.cache = none)
    (hs : Spec cfg s.rels r g) : (stepL sv cfg s (.select true)).2 = .served r g := by
  obtain ⟨new, hp, hnr, hnk, _⟩ := spec_pick hwf hs
  have hsel : select cfg s = (.ok new, { s with cache := some new, alive := true }) := by
    simp [select, hc, hp]
  simp only [stepL, hsel]
  have hu : useCached { s with cache := some new, alive := true } =
      (.ok (new.release, g), { s with cache := some (new.pin g), alive := true }) := by
    simp [useCached, hnk]
  rw [hu, hnr]

/-- … and raises when there is nothing to resolve to -/
theorem first_select_none {sv : Bool} {cfg : Option Nat} {s : LState} (hwf : WF s.rels) (hc : s.cache = none)
    (hs : ∀ r g, ¬ Spec cfg s.rels r g) : ∃ e, (stepL sv cfg s (.select true)).2 = .err e := by
  cases cfg with
  | none =>
    have hp : pickLatest s.rels = none := by
      cases hp : pickLatest s.rels with
      | none => rfl
      | some y => exact absurd (pickLatest_newest hwf hp) (hs y.1 y.2)
    have hsel : select none s = (.error .empty, s) := by simp [select, hc, pick, hp]
    exact ⟨.empty, by simp only [stepL, hsel]⟩
  | some c =>
    have hsel : select (some c) s = (.ok ⟨0, c, none⟩, { s with cache := some ⟨0, c, none⟩, alive := true }) := by
      simp [select, hc, pick]
    simp only [stepL, hsel]
    cases hg : gensOf s.rels c with
    | none => exact ⟨.invalid, by simp [useCached, genKey, hg]⟩
    | some gs =>
      cases hl : gs.getLast? with
      | none => exact ⟨.empty, by simp [useCached, genKey, hg, hl]⟩
      | some g => exact absurd ⟨rfl, newestOf_last hwf (gensOf_mem hg) hl⟩ (hs c g)

end ForML.Strategy
