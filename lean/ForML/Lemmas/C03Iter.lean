/-
C03 — helper lemmas: one round of the stacking ensemble — expand a scope (or a base model), copy its apply segment,
bind the three heads to three publishers and the head of the copy to a fourth one.

`iterV2` is the order of `FullStack.Builder.build` (copy first, then `Fold.publish`), `iterV1` the order of
`Ensembler.compose` (train, label, apply heads first, then the copy).  Afterwards the three tails carry `T` of the
three bound values, the tail of the copy carries `(T x' xt xl).apply` for the value `x'` bound to the copy's head —
the same actors with the very states trained on `(xt, xl)`: the groups are shared.
-/
import ForML.Lemmas.C03Areg

namespace ForML.Compose

structure PubOk (W : World) (q : PubRef) (r : Nat) (v : Val) : Prop where
  live : W.live q.node
  rank : W.h q.node < r
  val : W.σ q = v

theorem PubOk.agree {b : Nat} {W W' : World} {q : PubRef} {r : Nat} {v : Val} (h : PubOk W q r v) (ha : Agree b W W')
    (hq : q.node < b) : PubOk W' q r v := by
  obtain ⟨a1, a2, _⟩ := ha q.node hq
  exact ⟨a1.mpr h.live, by rw [a2]; exact h.rank, by rw [ha.σ q hq]; exact h.val⟩

structure IterOk (g g' : Graph) (W W' : World) (t : Trunk) (c : Segment) (rr : Nat) (s : Sem) (vc : Val) : Prop where
  inv : Inv g' W'
  wired : Wired g'
  frame : Frame g g'
  agree : Agree g.next W W'
  ta : W'.live t.apply.tail ∧ W'.σ ⟨t.apply.tail, 0⟩ = s.apply
  tt : W'.live t.train.tail ∧ W'.σ ⟨t.train.tail, 0⟩ = s.train
  tl : W'.live t.label.tail ∧ W'.σ ⟨t.label.tail, 0⟩ = s.label
  tc : W'.live c.tail ∧ W'.σ ⟨c.tail, 0⟩ = vc
  tails_ge : g.next ≤ t.apply.tail ∧ g.next ≤ t.train.tail ∧ g.next ≤ t.label.tail ∧ g.next ≤ c.tail
  trains : ∃ ts, g'.trains = g.trains ++ ts ∧ (∀ x ∈ ts, W'.live x.train.node ∧ W'.live x.label.node) ∧
    ts.map (trainedUnder W') = s.states
  rank : ∀ n, g.next ≤ n → W'.live n → W'.h n < rr + (g'.next - g.next)
  fresh : ∀ n, g.next ≤ n → W'.live n → ∀ gid a i o, g'.kindOf n = some (.worker gid a i o) → g.next ≤ gid
  noOpen : ∀ n, g.next ≤ n → W'.live n → ¬ g'.isOpen n

/-- the construction does not depend on the values: two runs from the same graph give the same trunk and graph -/
theorem run_det {α} {m : GraphM α} {g : Graph} {a a' : α} {g1 g1' : Graph} (h : Run m g a g1) (h' : Run m g a' g1') :
    a = a' ∧ g1 = g1' := by
  unfold Run at h h'
  rw [h] at h'
  injection h' with h'
  injection h' with h1 h2
  exact ⟨h1, h2⟩

theorem iterV2 {m : GraphM Trunk} {T : Scope} (hm : Spec True m T) (hT : T.Indep) {g : Graph} {W : World}
    (hi : Inv g W) (hw : Wired g) (rr : Nat) (hrr : rr ≤ g.next) {pa pt pl px : PubRef} {va vt vl vx : Val}
    (ha : PubOk W pa rr va) (ht : PubOk W pt rr vt) (hl : PubOk W pl rr vl) (hx : PubOk W px rr vx) :
    ∃ t c g1 g2 g3 g4 g5 g6 W', Run m g t g1 ∧ Run (copySegment t.apply) g1 c g2 ∧
      Run (t.apply.subscribeTo pa) g2 () g3 ∧ Run (t.train.subscribeTo pt) g3 () g4 ∧
      Run (t.label.subscribeTo pl) g4 () g5 ∧ Run (c.subscribeTo px) g5 () g6 ∧
      IterOk g g6 W W' t c rr (T va vt vl) (T vx vt vl).apply ∧ IterExt g g6 W' t c pa pt pl px := by
  obtain ⟨t, g1, W1, hr1, ok⟩ := hm g W va vt vl rr hi hw hrr
  obtain ⟨t', g1', Wx, hr1', okx'⟩ := hm g W vx vt vl rr hi hw hrr
  obtain ⟨et, eg⟩ := run_det hr1 hr1'
  subst et; subst eg
  have okx := okx'
  have hreg : Region g1 W1 Wx t.apply g.next := Region.ofSpec hi hw ok okx (hT va vx vt vl).2.2
  obtain ⟨c, g2, W2, hr2, cok⟩ := hreg.copy ok.inv ok.wired
  have hgg1 := ok.frame.next_le
  have hg12 := cok.frame.next_le
  have hlt : ∀ n, W.live n → n < g.next := fun n hn => (hi.liveLt n hn).1
  have hlt1 : ∀ n, W1.live n → n < g1.next := fun n hn => (ok.inv.liveLt n hn).1
  -- the publishers seen from `W2`
  have pub2 : ∀ (q : PubRef) (v : Val), PubOk W q rr v → PubOk W2 q rr v := by
    intro q v h
    have := hlt _ h.live
    exact (h.agree ok.agree this).agree cok.agree (by omega)
  have ha2 := pub2 _ _ ha
  have ht2 := pub2 _ _ ht
  have hl2 := pub2 _ _ hl
  have hx2 := pub2 _ _ hx
  -- the heads of the trunk seen from `(g2, W2)`
  have head2 : ∀ (h : Nat) (x : Val), HeadOk g g1 W1 h x rr →
      g2.isOpen h ∧ (∀ k, g2.inputOf h k = none) ∧ W2.live h ∧ W2.h h = rr ∧ ∀ i, W2.σ ⟨h, i⟩ = x := by
    intro h x hh
    have hlth := hlt1 _ hh.live
    obtain ⟨a1, a2, a3⟩ := cok.agree h hlth
    exact ⟨(cok.frame.isOpen hlth).mpr hh.isOpen, fun k => by rw [cok.frame.input h k hlth]; exact hh.free k, a1.mpr hh.live,
      by rw [a2]; exact hh.rank, fun i => by rw [a3 i]; exact hh.val i⟩
  obtain ⟨oa, fa, la, ra, sa⟩ := head2 _ _ ok.ha
  obtain ⟨ot, ft, lt', rt, st⟩ := head2 _ _ ok.ht
  obtain ⟨ol, fl, ll, rl, sl⟩ := head2 _ _ ok.hl
  obtain ⟨d1, d2, d3⟩ := ok.distinct
  -- bind the apply head
  obtain ⟨hr3, hi3, hw3⟩ := bindHead cok.inv cok.wired t.apply.head pa la oa (by rw [ra]; exact ⟨ha2.live, ha2.rank⟩)
    (fun i => by rw [sa i, ha2.val])
  -- bind the train head
  have ot3 : (g2.pushEdge ⟨t.apply.head, 0, pa⟩).isOpen t.train.head := by
    refine ⟨by simpa using ot.1, ?_⟩
    rw [inputOf_pushEdge, ft 0]
    simp [d1]
  obtain ⟨hr4, hi4, hw4⟩ := bindHead hi3 hw3 t.train.head pt lt' ot3 (by rw [rt]; exact ⟨ht2.live, ht2.rank⟩)
    (fun i => by rw [st i, ht2.val])
  -- bind the label head
  have ol4 : ((g2.pushEdge ⟨t.apply.head, 0, pa⟩).pushEdge ⟨t.train.head, 0, pt⟩).isOpen t.label.head := by
    refine ⟨by simpa using ol.1, ?_⟩
    rw [inputOf_pushEdge, inputOf_pushEdge, fl 0]
    simp [d2, d3]
  obtain ⟨hr5, hi5, hw5⟩ := bindHead hi4 hw4 t.label.head pl ll ol4 (by rw [rl]; exact ⟨hl2.live, hl2.rank⟩)
    (fun i => by rw [sl i, hl2.val])
  -- bind the head of the copy
  have hch := cok.head_ge
  have hha := hlt1 _ ok.ha.live
  have hht := hlt1 _ ok.ht.live
  have hhl := hlt1 _ ok.hl.live
  have oc5 : (((g2.pushEdge ⟨t.apply.head, 0, pa⟩).pushEdge ⟨t.train.head, 0, pt⟩).pushEdge ⟨t.label.head, 0, pl⟩).isOpen c.head := by
    refine ⟨by simpa using cok.head_open.1, ?_⟩
    rw [inputOf_pushEdge, inputOf_pushEdge, inputOf_pushEdge, cok.head_free 0]
    have c1 : ¬ t.apply.head = c.head := by omega
    have c2 : ¬ t.train.head = c.head := by omega
    have c3 : ¬ t.label.head = c.head := by omega
    simp [c1, c2, c3]
  have rch : W2.h c.head = rr := by rw [cok.head_rank]; exact ok.ha.rank
  obtain ⟨hr6, hi6, hw6⟩ := bindHead hi5 hw5 c.head px cok.head_live oc5 (by rw [rch]; exact ⟨hx2.live, hx2.rank⟩)
    (fun i => by rw [cok.head_val i, okx.ha.val i, hx2.val])
  -- the final graph
  obtain ⟨g6, hg6⟩ : ∃ x, x = (((g2.pushEdge ⟨t.apply.head, 0, pa⟩).pushEdge ⟨t.train.head, 0, pt⟩).pushEdge
    ⟨t.label.head, 0, pl⟩).pushEdge ⟨c.head, 0, px⟩ := ⟨_, rfl⟩
  have k6 : ∀ u, g6.kindOf u = g2.kindOf u := by intro u; rw [hg6]; simp
  have n6 : g6.next = g2.next := by rw [hg6]; simp
  have tr6 : g6.trains = g2.trains := by rw [hg6]; simp
  have in6 : ∀ u k q, g2.inputOf u k = some q → g6.inputOf u k = some q := by
    intro u k q hq
    rw [hg6, inputOf_pushEdge, inputOf_pushEdge, inputOf_pushEdge, inputOf_pushEdge, hq]
    rfl
  have f6 : Frame g g6 := by
    rw [hg6]
    exact ((((ok.frame.trans cok.frame).pushEdge _ ok.ha.ge).pushEdge _ ok.ht.ge).pushEdge _ ok.hl.ge).pushEdge _
      (by show g.next ≤ c.head; omega)
  have bound6 : ∀ h q, g6.inputOf h 0 = some q → ¬ g6.isOpen h := by
    intro h q hq ho; rw [ho.2] at hq; cases hq
  have ia6 : g6.inputOf t.apply.head 0 = some pa := by
    rw [hg6, inputOf_pushEdge, inputOf_pushEdge, inputOf_pushEdge, inputOf_pushEdge, fa 0]; simp
  have it6 : g6.inputOf t.train.head 0 = some pt := by
    rw [hg6, inputOf_pushEdge, inputOf_pushEdge, inputOf_pushEdge, inputOf_pushEdge, ft 0]
    simp [d1]
  have il6 : g6.inputOf t.label.head 0 = some pl := by
    rw [hg6, inputOf_pushEdge, inputOf_pushEdge, inputOf_pushEdge, inputOf_pushEdge, fl 0]
    simp [d2, d3]
  have ic6 : g6.inputOf c.head 0 = some px := by
    rw [hg6, inputOf_pushEdge, inputOf_pushEdge, inputOf_pushEdge, inputOf_pushEdge, cok.head_free 0]
    have c1 : ¬ t.apply.head = c.head := by omega
    have c2 : ¬ t.train.head = c.head := by omega
    have c3 : ¬ t.label.head = c.head := by omega
    simp [c1, c2, c3]
  have old2 : ∀ q : PubRef, W1.live q.node → W2.live q.node ∧ W2.σ q = W1.σ q ∧ W2.h q.node = W1.h q.node := by
    intro q hq
    have := hlt1 _ hq
    obtain ⟨a1, a2, _⟩ := cok.agree q.node this
    exact ⟨a1.mpr hq, cok.agree.σ q this, a2⟩
  -- the structural side: where the subscriptions go, what is reachable from an apply head
  have hin6 : ∀ s k q, g6.inputOf s k = some q →
      (s < g1.next ∧ g1.inputOf s k = some q) ∨ (g1.next ≤ s ∧ g1.next ≤ q.node) ∨ (s = t.apply.head ∧ q = pa) ∨
      (s = t.train.head ∧ q = pt) ∨ (s = t.label.head ∧ q = pl) ∨ (g1.next ≤ s ∧ q = px) := by
    intro s k q hq
    rw [hg6] at hq
    rcases inputOf_pushEdge_some hq with hq | ⟨e1, _, e3⟩
    · rcases inputOf_pushEdge_some hq with hq | ⟨e1, _, e3⟩
      · rcases inputOf_pushEdge_some hq with hq | ⟨e1, _, e3⟩
        · rcases inputOf_pushEdge_some hq with hq | ⟨e1, _, e3⟩
          · by_cases hs : s < g1.next
            · rw [cok.frame.input s k hs] at hq; exact Or.inl ⟨hs, hq⟩
            · exact Or.inr (Or.inl ⟨by omega, cok.closed s k q (by omega) hq⟩)
          · exact Or.inr (Or.inr (Or.inl ⟨e1.symm, e3.symm⟩))
        · exact Or.inr (Or.inr (Or.inr (Or.inl ⟨e1.symm, e3.symm⟩)))
      · exact Or.inr (Or.inr (Or.inr (Or.inr (Or.inl ⟨e1.symm, e3.symm⟩))))
    · exact Or.inr (Or.inr (Or.inr (Or.inr (Or.inr ⟨by rw [← e1]; exact hch, e3.symm⟩))))
  have hext : IterExt g g6 W2 t c pa pt pl px := by
    refine iter_reach hw f6 hi.bounded ⟨ok.ha.ge, hha⟩ (ok.closed trivial) hin6
      (fun s k q hq => in6 s k q (cok.frame.input_mono ok.inv.bounded s k q hq)) ia6 ok.ha.free
      (not_reach_of_no_input ok.ht.free (fun e => d1 e.symm)) (not_reach_of_no_input ok.hl.free (fun e => d2 e.symm))
      (fun n hre hne => (ok.reg trivial n hre hne).2) ?_ (ok.regTail trivial) (ok.sep trivial)
      ⟨ok.tails_ge.2.1, ok.tails_ge.2.2, cok.tail_ge⟩ (hlt _ ht.live) (hlt _ hl.live) (hlt _ hx.live)
    intro n hre
    by_cases hh : n = t.apply.head
    · rw [hh]; exact la
    · exact (old2 ⟨n, 0⟩ (ok.reg trivial n hre hh).1).1
  refine ⟨t, c, g1, g2, _, _, _, g6, W2, hr1, hr2, hr3, hr4, hr5, by rw [hg6]; exact hr6, ?_, hext⟩
  refine ⟨by rw [hg6]; exact hi6, by rw [hg6]; exact hw6, f6, ok.agree.trans cok.agree hgg1, ?_, ?_, ?_,
    ⟨cok.tail_live, by rw [cok.tail_val]; exact okx.ta.2⟩,
    ⟨ok.tails_ge.1, ok.tails_ge.2.1, ok.tails_ge.2.2, by have := cok.tail_ge; omega⟩, ?_, ?_, ?_, ?_⟩
  · obtain ⟨b1, b2, _⟩ := old2 ⟨_, 0⟩ ok.ta.1
    exact ⟨b1, by rw [b2]; exact ok.ta.2⟩
  · obtain ⟨b1, b2, _⟩ := old2 ⟨_, 0⟩ ok.tt.1
    exact ⟨b1, by rw [b2]; exact ok.tt.2⟩
  · obtain ⟨b1, b2, _⟩ := old2 ⟨_, 0⟩ ok.tl.1
    exact ⟨b1, by rw [b2]; exact ok.tl.2⟩
  · obtain ⟨ts, e1, l1, m1⟩ := ok.trains
    refine ⟨ts, by rw [tr6, cok.trains, e1], fun x hx => ⟨(old2 _ (l1 x hx).1).1, (old2 _ (l1 x hx).2).1⟩, ?_⟩
    rw [← m1]
    apply List.map_congr_left
    intro x hx
    unfold trainedUnder
    rw [(old2 _ (l1 x hx).1).2.1, (old2 _ (l1 x hx).2).2.1]
  · intro n hn hl'
    rw [n6]
    by_cases hn1 : n < g1.next
    · have hl1 : W1.live n := ((cok.agree n hn1).1).mp hl'
      have := ok.rank n hn hl1
      rw [(cok.agree n hn1).2.1]; omega
    · obtain ⟨u, hlu, hru, _, hhu, _⟩ := cok.copies n (by omega) hl'
      have hu : g.next ≤ u := hreg.reachLo u hru
      have := ok.rank u hu hlu
      rw [hhu]; omega
  · intro n hn hl' gid a i o hk
    rw [k6] at hk
    by_cases hn1 : n < g1.next
    · have hl1 : W1.live n := ((cok.agree n hn1).1).mp hl'
      rw [cok.frame.kind n hn1] at hk
      exact ok.fresh n hn hl1 gid a i o hk
    · obtain ⟨u, hlu, hru, hku, _, _⟩ := cok.copies n (by omega) hl'
      have hu : g.next ≤ u := hreg.reachLo u hru
      rw [hku] at hk
      exact ok.fresh u hu hlu gid a i o hk
  · intro n hn hl' ho
    have ho2 : g2.isOpen n := by
      refine ⟨by rw [← k6]; exact ho.1, ?_⟩
      cases h : g2.inputOf n 0 with
      | none => rfl
      | some q => have := in6 _ _ _ h; rw [ho.2] at this; cases this
    by_cases hn1 : n < g1.next
    · have hl1 : W1.live n := ((cok.agree n hn1).1).mp hl'
      have ho1 : g1.isOpen n := (cok.frame.isOpen hn1).mp ho2
      rcases ok.opens n hn hl1 ho1 with h | h | h
      · subst h; exact bound6 _ _ ia6 ho
      · subst h; exact bound6 _ _ it6 ho
      · subst h; exact bound6 _ _ il6 ho
    · by_cases hc : n = c.head
      · subst hc; exact bound6 _ _ ic6 ho
      · exact cok.notOpen n (by omega) hl' hc ho2

/-- the order of `Ensembler.compose`: train, label and apply heads are bound first, then the apply segment is copied -/
theorem iterV1 {m : GraphM Trunk} {T : Scope} (hm : Spec True m T) (hT : T.Indep) {g : Graph} {W : World}
    (hi : Inv g W) (hw : Wired g) (rr : Nat) (hrr : rr ≤ g.next) {pa pt pl px : PubRef} {va vt vl vx : Val}
    (ha : PubOk W pa rr va) (ht : PubOk W pt rr vt) (hl : PubOk W pl rr vl) (hx : PubOk W px rr vx) :
    ∃ t c g1 g2 g3 g4 g5 g6 W', Run m g t g1 ∧ Run (t.train.subscribeTo pt) g1 () g2 ∧
      Run (t.label.subscribeTo pl) g2 () g3 ∧ Run (t.apply.subscribeTo pa) g3 () g4 ∧
      Run (copySegment t.apply) g4 c g5 ∧ Run (c.subscribeTo px) g5 () g6 ∧
      IterOk g g6 W W' t c rr (T va vt vl) (T vx vt vl).apply ∧ IterExt g g6 W' t c pa pt pl px := by
  obtain ⟨t, g1, W1, hr1, ok⟩ := hm g W va vt vl rr hi hw hrr
  obtain ⟨t', g1', Wx, hr1', okx⟩ := hm g W vx vt vl rr hi hw hrr
  obtain ⟨et, eg⟩ := run_det hr1 hr1'
  subst et; subst eg
  have hreg1 : Region g1 W1 Wx t.apply g.next := Region.ofSpec hi hw ok okx (hT va vx vt vl).2.2
  have hgg1 := ok.frame.next_le
  have hlt : ∀ n, W.live n → n < g.next := fun n hn => (hi.liveLt n hn).1
  have hlt1 : ∀ n, W1.live n → n < g1.next := fun n hn => (ok.inv.liveLt n hn).1
  have pub1 : ∀ (q : PubRef) (v : Val), PubOk W q rr v → PubOk W1 q rr v :=
    fun q v h => h.agree ok.agree (hlt _ h.live)
  have ha1 := pub1 _ _ ha
  have ht1 := pub1 _ _ ht
  have hl1 := pub1 _ _ hl
  have hx1 := pub1 _ _ hx
  obtain ⟨d1, d2, d3⟩ := ok.distinct
  -- bind the train head
  obtain ⟨hr2, hi2, hw2⟩ := bindHead ok.inv ok.wired t.train.head pt ok.ht.live ok.ht.isOpen
    (by rw [ok.ht.rank]; exact ⟨ht1.live, ht1.rank⟩) (fun i => by rw [ok.ht.val i, ht1.val])
  have hreg2 := hreg1.pushEdge ⟨t.train.head, 0, pt⟩ (ok.ht.free 0) (hlt _ ht.live)
    (Or.inr (not_reach_of_no_input ok.ht.free (fun e => d1 e.symm)))
  -- bind the label head
  have fl2 : ∀ k, (g1.pushEdge ⟨t.train.head, 0, pt⟩).inputOf t.label.head k = none := by
    intro k
    rw [inputOf_pushEdge, ok.hl.free k]
    have : ¬ (t.train.head = t.label.head ∧ 0 = k) := fun e => d3 e.1
    simp [this]
  obtain ⟨hr3, hi3, hw3⟩ := bindHead hi2 hw2 t.label.head pl ok.hl.live ⟨by simpa using ok.hl.isOpen.1, fl2 0⟩
    (by rw [ok.hl.rank]; exact ⟨hl1.live, hl1.rank⟩) (fun i => by rw [ok.hl.val i, hl1.val])
  have hreg3 := hreg2.pushEdge ⟨t.label.head, 0, pl⟩ (fl2 0) (hlt _ hl.live)
    (Or.inr (not_reach_of_no_input fl2 (fun e => d2 e.symm)))
  -- bind the apply head
  have fa3 : ((g1.pushEdge ⟨t.train.head, 0, pt⟩).pushEdge ⟨t.label.head, 0, pl⟩).inputOf t.apply.head 0 = none := by
    rw [inputOf_pushEdge, inputOf_pushEdge, ok.ha.free 0]
    have c1 : ¬ t.train.head = t.apply.head := fun e => d1 e.symm
    have c2 : ¬ t.label.head = t.apply.head := fun e => d2 e.symm
    simp [c1, c2]
  obtain ⟨hr4, hi4, hw4⟩ := bindHead hi3 hw3 t.apply.head pa ok.ha.live ⟨by simpa using ok.ha.isOpen.1, fa3⟩
    (by rw [ok.ha.rank]; exact ⟨ha1.live, ha1.rank⟩) (fun i => by rw [ok.ha.val i, ha1.val])
  have hreg4 := hreg3.pushEdge ⟨t.apply.head, 0, pa⟩ fa3 (hlt _ ha.live) (Or.inl rfl)
  obtain ⟨g4, hg4⟩ : ∃ x, x = ((g1.pushEdge ⟨t.train.head, 0, pt⟩).pushEdge ⟨t.label.head, 0, pl⟩).pushEdge
    ⟨t.apply.head, 0, pa⟩ := ⟨_, rfl⟩
  rw [← hg4] at hi4 hw4 hreg4 hr4
  have f14 : Frame g g4 := by
    rw [hg4]
    exact ((ok.frame.pushEdge _ ok.ht.ge).pushEdge _ ok.hl.ge).pushEdge _ ok.ha.ge
  have k4 : ∀ u, g4.kindOf u = g1.kindOf u := by intro u; rw [hg4]; simp
  have n4 : g4.next = g1.next := by rw [hg4]; simp
  have tr4 : g4.trains = g1.trains := by rw [hg4]; simp
  have in4 : ∀ u k q, g1.inputOf u k = some q → g4.inputOf u k = some q := by
    intro u k q hq
    rw [hg4, inputOf_pushEdge, inputOf_pushEdge, inputOf_pushEdge, hq]; rfl
  have ia4 : g4.inputOf t.apply.head 0 = some pa := by
    rw [hg4, inputOf_pushEdge, fa3]; simp
  have it4 : g4.inputOf t.train.head 0 = some pt := by
    rw [hg4, inputOf_pushEdge, inputOf_pushEdge, inputOf_pushEdge, ok.ht.free 0]; simp
  have il4 : g4.inputOf t.label.head 0 = some pl := by
    rw [hg4, inputOf_pushEdge, inputOf_pushEdge, inputOf_pushEdge, ok.hl.free 0]
    simp [d3]
  -- copy
  obtain ⟨c, g5, W2, hr5, cok⟩ := hreg4.copy hi4 hw4
  have hg45 := cok.frame.next_le
  have hx2 : PubOk W2 px rr vx := hx1.agree cok.agree (by have := hlt1 _ hx1.live; omega)
  have rch : W2.h c.head = rr := by rw [cok.head_rank]; exact ok.ha.rank
  obtain ⟨hr6, hi6, hw6⟩ := bindHead cok.inv cok.wired c.head px cok.head_live cok.head_open
    (by rw [rch]; exact ⟨hx2.live, hx2.rank⟩) (fun i => by rw [cok.head_val i, okx.ha.val i, hx2.val])
  obtain ⟨g6, hg6⟩ : ∃ x, x = g5.pushEdge ⟨c.head, 0, px⟩ := ⟨_, rfl⟩
  have k6 : ∀ u, g6.kindOf u = g5.kindOf u := by intro u; rw [hg6]; simp
  have n6 : g6.next = g5.next := by rw [hg6]; simp
  have tr6 : g6.trains = g5.trains := by rw [hg6]; simp
  have in6 : ∀ u k q, g5.inputOf u k = some q → g6.inputOf u k = some q := by
    intro u k q hq; rw [hg6, inputOf_pushEdge, hq]; rfl
  have f6 : Frame g g6 := by
    rw [hg6]
    exact (f14.trans cok.frame).pushEdge _ (by have := cok.head_ge; show g.next ≤ c.head; omega)
  have bound6 : ∀ h q, g6.inputOf h 0 = some q → ¬ g6.isOpen h := by
    intro h q hq ho; rw [ho.2] at hq; cases hq
  have ic6 : g6.inputOf c.head 0 = some px := by
    rw [hg6, inputOf_pushEdge, cok.head_free 0]; simp
  have old2 : ∀ q : PubRef, W1.live q.node → W2.live q.node ∧ W2.σ q = W1.σ q ∧ W2.h q.node = W1.h q.node := by
    intro q hq
    have : q.node < g4.next := by rw [n4]; exact hlt1 _ hq
    obtain ⟨a1, a2, _⟩ := cok.agree q.node this
    exact ⟨a1.mpr hq, cok.agree.σ q this, a2⟩
  have hha := hlt1 _ ok.ha.live
  have hht := hlt1 _ ok.ht.live
  have hhl := hlt1 _ ok.hl.live
  -- the structural side: where the subscriptions go, what is reachable from an apply head
  have hch : g1.next ≤ c.head := by have := cok.head_ge; rw [n4] at this; exact this
  have hin6 : ∀ s k q, g6.inputOf s k = some q →
      (s < g1.next ∧ g1.inputOf s k = some q) ∨ (g1.next ≤ s ∧ g1.next ≤ q.node) ∨ (s = t.apply.head ∧ q = pa) ∨
      (s = t.train.head ∧ q = pt) ∨ (s = t.label.head ∧ q = pl) ∨ (g1.next ≤ s ∧ q = px) := by
    intro s k q hq
    rw [hg6] at hq
    rcases inputOf_pushEdge_some hq with hq | ⟨e1, _, e3⟩
    · by_cases hs : s < g1.next
      · rw [cok.frame.input s k (by rw [n4]; exact hs), hg4] at hq
        rcases inputOf_pushEdge_some hq with hq | ⟨e1, _, e3⟩
        · rcases inputOf_pushEdge_some hq with hq | ⟨e1, _, e3⟩
          · rcases inputOf_pushEdge_some hq with hq | ⟨e1, _, e3⟩
            · exact Or.inl ⟨hs, hq⟩
            · exact Or.inr (Or.inr (Or.inr (Or.inl ⟨e1.symm, e3.symm⟩)))
          · exact Or.inr (Or.inr (Or.inr (Or.inr (Or.inl ⟨e1.symm, e3.symm⟩))))
        · exact Or.inr (Or.inr (Or.inl ⟨e1.symm, e3.symm⟩))
      · have := cok.closed s k q (by rw [n4]; omega) hq
        rw [n4] at this
        exact Or.inr (Or.inl ⟨by omega, this⟩)
    · exact Or.inr (Or.inr (Or.inr (Or.inr (Or.inr ⟨by rw [← e1]; exact hch, e3.symm⟩))))
  have hext : IterExt g g6 W2 t c pa pt pl px := by
    refine iter_reach hw f6 hi.bounded ⟨ok.ha.ge, hha⟩ (ok.closed trivial) hin6
      (fun s k q hq => in6 s k q (cok.frame.input_mono hi4.bounded s k q (in4 s k q hq)))
      (in6 _ _ _ (cok.frame.input_mono hi4.bounded _ _ _ ia4)) ok.ha.free
      (not_reach_of_no_input ok.ht.free (fun e => d1 e.symm)) (not_reach_of_no_input ok.hl.free (fun e => d2 e.symm))
      (fun n hre hne => (ok.reg trivial n hre hne).2) ?_ (ok.regTail trivial) (ok.sep trivial)
      ⟨ok.tails_ge.2.1, ok.tails_ge.2.2, by have := cok.tail_ge; rw [n4] at this; exact this⟩
      (hlt _ ht.live) (hlt _ hl.live) (hlt _ hx.live)
    intro n hre
    by_cases hh : n = t.apply.head
    · rw [hh]; exact (old2 ⟨_, 0⟩ ok.ha.live).1
    · exact (old2 ⟨n, 0⟩ (ok.reg trivial n hre hh).1).1
  refine ⟨t, c, g1, _, _, g4, g5, g6, W2, hr1, hr2, hr3, hr4, hr5, by rw [hg6]; exact hr6, ?_, hext⟩
  refine ⟨by rw [hg6]; exact hi6, by rw [hg6]; exact hw6, f6, ok.agree.trans cok.agree (by rw [n4]; exact hgg1), ?_, ?_, ?_,
    ⟨cok.tail_live, by rw [cok.tail_val]; exact okx.ta.2⟩,
    ⟨ok.tails_ge.1, ok.tails_ge.2.1, ok.tails_ge.2.2, by have := cok.tail_ge; omega⟩, ?_, ?_, ?_, ?_⟩
  · obtain ⟨b1, b2, _⟩ := old2 ⟨_, 0⟩ ok.ta.1
    exact ⟨b1, by rw [b2]; exact ok.ta.2⟩
  · obtain ⟨b1, b2, _⟩ := old2 ⟨_, 0⟩ ok.tt.1
    exact ⟨b1, by rw [b2]; exact ok.tt.2⟩
  · obtain ⟨b1, b2, _⟩ := old2 ⟨_, 0⟩ ok.tl.1
    exact ⟨b1, by rw [b2]; exact ok.tl.2⟩
  · obtain ⟨ts, e1, l1, m1⟩ := ok.trains
    refine ⟨ts, by rw [tr6, cok.trains, tr4, e1], fun x hx' => ⟨(old2 _ (l1 x hx').1).1, (old2 _ (l1 x hx').2).1⟩, ?_⟩
    rw [← m1]
    apply List.map_congr_left
    intro x hx'
    unfold trainedUnder
    rw [(old2 _ (l1 x hx').1).2.1, (old2 _ (l1 x hx').2).2.1]
  · intro n hn hl'
    rw [n6]
    by_cases hn1 : n < g1.next
    · have hn4 : n < g4.next := by rw [n4]; exact hn1
      have hl1' : W1.live n := ((cok.agree n hn4).1).mp hl'
      have := ok.rank n hn hl1'
      rw [(cok.agree n hn4).2.1]; omega
    · obtain ⟨u, hlu, hru, _, hhu, _⟩ := cok.copies n (by rw [n4]; omega) hl'
      have hu : g.next ≤ u := hreg4.reachLo u hru
      have := ok.rank u hu hlu
      rw [hhu]; omega
  · intro n hn hl' gid a i o hk
    rw [k6] at hk
    by_cases hn1 : n < g1.next
    · have hn4 : n < g4.next := by rw [n4]; exact hn1
      have hl1' : W1.live n := ((cok.agree n hn4).1).mp hl'
      rw [cok.frame.kind n hn4, k4] at hk
      exact ok.fresh n hn hl1' gid a i o hk
    · obtain ⟨u, hlu, hru, hku, _, _⟩ := cok.copies n (by rw [n4]; omega) hl'
      have hu : g.next ≤ u := hreg4.reachLo u hru
      rw [hku, k4] at hk
      exact ok.fresh u hu hlu gid a i o hk
  · intro n hn hl' ho
    have ho5 : g5.isOpen n := by
      refine ⟨by rw [← k6]; exact ho.1, ?_⟩
      cases h : g5.inputOf n 0 with
      | none => rfl
      | some q => have := in6 _ _ _ h; rw [ho.2] at this; cases this
    by_cases hn1 : n < g1.next
    · have hn4 : n < g4.next := by rw [n4]; exact hn1
      have hl1' : W1.live n := ((cok.agree n hn4).1).mp hl'
      have ho4 : g4.isOpen n := (cok.frame.isOpen hn4).mp ho5
      have ho1 : g1.isOpen n := by
        refine ⟨by rw [← k4]; exact ho4.1, ?_⟩
        cases h : g1.inputOf n 0 with
        | none => rfl
        | some q => have := in4 _ _ _ h; rw [ho4.2] at this; cases this
      rcases ok.opens n hn hl1' ho1 with h | h | h
      · subst h; rw [ho4.2] at ia4; cases ia4
      · subst h; rw [ho4.2] at it4; cases it4
      · subst h; rw [ho4.2] at il4; cases il4
    · by_cases hc : n = c.head
      · subst hc; exact bound6 _ _ ic6 ho
      · exact cok.notOpen n (by rw [n4]; omega) hl' hc ho5

end ForML.Compose
