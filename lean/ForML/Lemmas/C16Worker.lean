/-
C16 helper lemmas, part 3: one pool worker and the replicas of its `pyfunc.Expression`
(`ForML.Model.ServingWorker`).  An evaluation that starts on an empty deque computes the property's `f inst payload`
(`runModel`); with the `finally` reset of the code that exists every evaluation starts on an empty deque.
Core Lean only.
-/
import ForML.Model.ServingWorker
namespace ForML.Serving

/-- the branch among `k … k+todo-1` that refuses the value `e`, if any -/
def failsIn (e : Entry) (k todo : Nat) : Option Nat :=
  match e.kind with
  | .refused b => if k ≤ b ∧ b < k + todo then some b else none
  | _ => none

theorem failsIn_zero (e : Entry) (k : Nat) : failsIn e k 0 = none := by
  unfold failsIn; split
  · rw [if_neg]; omega
  · rfl

theorem failsIn_hit (e : Entry) (k todo : Nat) (h : e.kind = .refused k) : failsIn e k (todo + 1) = some k := by
  unfold failsIn; rw [h]; simp

theorem failsIn_miss (e : Entry) (k todo : Nat) (h : e.kind ≠ .refused k) :
    failsIn e k (todo + 1) = failsIn e (k + 1) todo := by
  unfold failsIn; split
  · rename_i b hb
    have hne : b ≠ k := fun hk => h (hk ▸ hb)
    by_cases hc : k ≤ b ∧ b < k + (todo + 1)
    · rw [if_pos hc, if_pos (by omega)]
    · rw [if_neg hc, if_neg (by omega)]
  · rfl

theorem branchCall_hit (k : Nat) (e : Entry) (h : e.kind = .refused k) :
    branchCall k e = .error (.invalid e.payload k) := by simp [branchCall, h]

theorem branchCall_miss (k : Nat) (e : Entry) (h : e.kind ≠ .refused k) : branchCall k e = .ok e.payload := by
  simp [branchCall, h]

/-- branches served from a deque that holds (enough) replicas of the request's own value: every branch works on that
value; the first one that refuses it ends the evaluation -/
theorem evalBranches_own (r : Nat) (e : Entry) : ∀ (todo k m : Nat) (seen : List Nat), todo ≤ m →
    (evalBranches r e k todo (List.replicate m e) seen).1
      = match failsIn e k todo with
        | some b => .error (.invalid e.payload b)
        | none => .ok (seen.reverse ++ List.replicate todo e.payload) := by
  intro todo
  induction todo with
  | zero => intro k m seen _; simp [evalBranches, failsIn_zero]
  | succ todo ih =>
    intro k m seen hm
    obtain ⟨m', rfl⟩ : ∃ m', m = m' + 1 := ⟨m - 1, by omega⟩
    simp only [evalBranches, List.replicate_succ, replicaCall]
    by_cases hk : e.kind = .refused k
    · rw [branchCall_hit k e hk, failsIn_hit e k todo hk]
    · rw [branchCall_miss k e hk, failsIn_miss e k todo hk, ih (k + 1) m' (e.payload :: seen) (by omega)]
      split
      · rfl
      · simp

/-- … and when all of them accept it the deque ends up empty (every replica has been consumed) -/
theorem evalBranches_own_queue (r : Nat) (e : Entry) : ∀ (todo k : Nat) (seen : List Nat),
    failsIn e k todo = none → (evalBranches r e k todo (List.replicate todo e) seen).2 = [] := by
  intro todo
  induction todo with
  | zero => intro k seen _; simp [evalBranches]
  | succ todo ih =>
    intro k seen hf
    simp only [evalBranches, List.replicate_succ, replicaCall]
    by_cases hk : e.kind = .refused k
    · rw [failsIn_hit e k todo hk] at hf; cases hf
    · rw [branchCall_miss k e hk]
      exact ih (k + 1) (e.payload :: seen) (by rw [← failsIn_miss e k todo hk]; exact hf)

theorem all_replicate (m p : Nat) : (List.replicate m p).all (· == p) = true := by
  induction m with
  | zero => rfl
  | succ m ih => simp [List.replicate_succ]

theorem combine_replicate (inst m p : Nat) : combine inst (p :: List.replicate m p) = .value inst p := by
  simp [combine]

theorem headCall_ok (e : Entry) (h1 : e.kind ≠ .missingColumn) (h2 : e.kind ≠ .fatal) : headCall e = .ok e := by
  unfold headCall; split <;> simp_all

theorem headCall_ok_eq {e v : Entry} (h : headCall e = .ok v) : v = e := by
  unfold headCall at h; split at h <;> simp_all

theorem reduce_snd (inst : Nat) (r : Except Err (List Nat) × List Entry) : (reduce inst r).2 = r.2 := by
  obtain ⟨o, q⟩ := r; cases o <;> rfl

theorem reduce_fst_error (inst : Nat) (r : Except Err (List Nat) × List Entry) (err : Err) (h : r.1 = .error err) :
    (reduce inst r).1 = .error err := by
  obtain ⟨o, q⟩ := r; simp only at h; subst h; rfl

theorem reduce_fst_ok (inst : Nat) (r : Except Err (List Nat) × List Entry) (seen : List Nat) (h : r.1 = .ok seen) :
    (reduce inst r).1 = combine inst seen := by
  obtain ⟨o, q⟩ := r; simp only at h; subst h; rfl

/-- the first branch of a fan-out on an empty deque: the head is evaluated, its value replicated -/
theorem evalBranches_first (m : Nat) (e : Entry) :
    evalBranches m e 0 (m + 1) [] []
      = match headCall e with
        | .error err => (.error err, [])
        | .ok v =>
          match branchCall 0 v with
          | .error err => (.error err, List.replicate m v)
          | .ok p => evalBranches m e 1 m (List.replicate m v) [p] := by
  simp only [evalBranches, replicaCall]
  cases headCall e <;> rfl

/-- a fan-out evaluated from an empty deque, head passed: every branch works on the request's own value -/
theorem evalBranches_clean (m : Nat) (e : Entry) (hh : headCall e = .ok e) :
    (evalBranches m e 0 (m + 1) [] []).1
        = (match failsIn e 0 (m + 1) with
          | some b => .error (.invalid e.payload b)
          | none => .ok (List.replicate (m + 1) e.payload))
      ∧ (failsIn e 0 (m + 1) = none → (evalBranches m e 0 (m + 1) [] []).2 = []) := by
  rw [evalBranches_first, hh]
  by_cases hk : e.kind = .refused 0
  · simp only [branchCall_hit 0 e hk, failsIn_hit e 0 m hk]
    exact ⟨trivial, fun h => by cases h⟩
  · simp only [branchCall_miss 0 e hk, failsIn_miss e 0 m hk, Nat.zero_add]
    refine ⟨?_, fun h => evalBranches_own_queue m e m 1 [e.payload] h⟩
    rw [evalBranches_own m e m 1 m [e.payload] (Nat.le_refl _)]
    cases failsIn e 1 m with
    | some b => rfl
    | none => simp [List.replicate_succ]

theorem failsIn_all (e : Entry) (n : Nat) :
    failsIn e 0 n = match e.kind with
      | .refused b => if b < n then some b else none
      | _ => none := by
  unfold failsIn; split <;> simp

/-- **An evaluation that starts on an empty deque computes `f inst payload`** — for every fan-out `n`. -/
theorem evalTerm_clean (inst n : Nat) (e : Entry) : (evalTerm inst n e []).1 = runModel n inst e := by
  unfold evalTerm runModel
  by_cases hn : n ≤ 1
  · have hmax : max n 1 = 1 := by omega
    rw [if_pos hn, hmax]
    cases hk : e.kind with
    | ok => simp [linearEval, headCall, hk, branchCall]
    | missingColumn => simp [linearEval, headCall, hk]
    | fatal => simp [linearEval, headCall, hk]
    | refused b =>
      simp only [linearEval, headCall, hk, branchCall]
      by_cases hb : b = 0
      · subst hb; simp
      · have : ¬ b < 1 := by omega
        simp [hb, this]
  · rw [if_neg hn]
    obtain ⟨m, rfl⟩ : ∃ m, n = m + 1 := ⟨n - 1, by omega⟩
    have hmax : max (m + 1) 1 = m + 1 := by omega
    rw [hmax, Nat.add_sub_cancel]
    cases hk : e.kind with
    | missingColumn =>
      exact reduce_fst_error inst _ _ (by rw [evalBranches_first]; simp [headCall, hk])
    | fatal =>
      exact reduce_fst_error inst _ _ (by rw [evalBranches_first]; simp [headCall, hk])
    | ok =>
      have hh : headCall e = .ok e := headCall_ok e (by simp [hk]) (by simp [hk])
      have h := (evalBranches_clean m e hh).1
      rw [failsIn_all, hk] at h
      rw [reduce_fst_ok inst _ _ h, List.replicate_succ, combine_replicate]
    | refused b =>
      have hh : headCall e = .ok e := headCall_ok e (by simp [hk]) (by simp [hk])
      have h := (evalBranches_clean m e hh).1
      rw [failsIn_all, hk] at h
      by_cases hlt : b < m + 1
      · simp only [hlt, if_true] at h ⊢
        exact reduce_fst_error inst _ _ h
      · simp only [hlt, if_false] at h ⊢
        rw [reduce_fst_ok inst _ _ h, List.replicate_succ, combine_replicate]

/-- a successful evaluation that starts on an empty deque leaves it empty -/
theorem evalTerm_clean_queue (inst n : Nat) (e : Entry) (h : (evalTerm inst n e []).1.err? = none) :
    (evalTerm inst n e []).2 = [] := by
  unfold evalTerm at h ⊢
  by_cases hn : n ≤ 1
  · rw [if_pos hn]
    unfold linearEval
    cases headCall e with
    | error err => rfl
    | ok v => simp only; cases branchCall 0 v <;> rfl
  · rw [if_neg hn] at h ⊢
    obtain ⟨m, rfl⟩ : ∃ m, n = m + 1 := ⟨n - 1, by omega⟩
    rw [Nat.add_sub_cancel] at h ⊢
    rw [reduce_snd]
    cases hh : headCall e with
    | error err => rw [evalBranches_first, hh]
    | ok v =>
      have hv := headCall_ok_eq hh
      subst hv
      have hc := evalBranches_clean m v hh
      cases hf : failsIn v 0 (m + 1) with
      | none => exact hc.2 hf
      | some b =>
        rw [hf] at hc
        rw [reduce_fst_error inst _ _ hc.1] at h
        simp [Outcome.err?] at h

theorem failsIn_some {e : Entry} {k todo b : Nat} (h : failsIn e k todo = some b) :
    e.kind = .refused b ∧ k ≤ b ∧ b < k + todo := by
  unfold failsIn at h
  split at h
  · rename_i b' hb
    by_cases hc : k ≤ b' ∧ b' < k + todo
    · rw [if_pos hc] at h; cases h; exact ⟨hb, hc.1, hc.2⟩
    · rw [if_neg hc] at h; cases h
  · cases h

/-- what an interrupted evaluation leaves behind: the replicas of the branches that never ran -/
theorem evalBranches_own_residue (r : Nat) (e : Entry) (b : Nat) : ∀ (todo k m : Nat) (seen : List Nat), todo ≤ m →
    failsIn e k todo = some b →
    (evalBranches r e k todo (List.replicate m e) seen).2 = List.replicate (m - 1 - (b - k)) e := by
  intro todo
  induction todo with
  | zero => intro k m seen _ hf; rw [failsIn_zero] at hf; cases hf
  | succ todo ih =>
    intro k m seen hm hf
    obtain ⟨m', rfl⟩ : ∃ m', m = m' + 1 := ⟨m - 1, by omega⟩
    simp only [evalBranches, List.replicate_succ, replicaCall]
    by_cases hk : e.kind = .refused k
    · rw [failsIn_hit e k todo hk] at hf
      have hbk := Option.some.inj hf
      rw [branchCall_hit k e hk, ← hbk]
      simp
    · rw [failsIn_miss e k todo hk] at hf
      have hb := (failsIn_some hf).2.1
      rw [branchCall_miss k e hk, ih (k + 1) m' (e.payload :: seen) (by omega) hf]
      congr 1; omega

/-- the deque after an evaluation that starts on an empty deque: empty, unless a branch other than the last one
refused the request — then one replica per branch that never ran stays behind -/
theorem evalTerm_clean_residue (inst n : Nat) (e : Entry) :
    (evalTerm inst n e []).2 = match e.kind with
      | .refused b => if 2 ≤ n ∧ b < n then List.replicate (n - 1 - b) e else []
      | _ => [] := by
  by_cases hn : n ≤ 1
  · have : (evalTerm inst n e []).2 = [] := by
      unfold evalTerm linearEval; rw [if_pos hn]
      cases headCall e with
      | error err => rfl
      | ok v => simp only; cases branchCall 0 v <;> rfl
    rw [this]; split
    · rw [if_neg (by omega)]
    · rfl
  · obtain ⟨m, rfl⟩ : ∃ m, n = m + 1 := ⟨n - 1, by omega⟩
    unfold evalTerm
    rw [if_neg hn, Nat.add_sub_cancel, reduce_snd]
    cases hh : headCall e with
    | error err =>
      rw [evalBranches_first, hh]
      have : e.kind = .missingColumn ∨ e.kind = .fatal := by
        unfold headCall at hh; split at hh <;> simp_all
      rcases this with hk | hk <;> simp [hk]
    | ok v =>
      have hv := headCall_ok_eq hh
      subst hv
      cases hf : failsIn v 0 (m + 1) with
      | none =>
        rw [(evalBranches_clean m v hh).2 hf]
        rw [failsIn_all] at hf
        split
        · rename_i b hb
          rw [hb] at hf
          by_cases hlt : b < m + 1
          · simp [hlt] at hf
          · rw [if_neg (by omega)]
        · rfl
      | some b =>
        obtain ⟨hkb, _, hlt⟩ := failsIn_some hf
        rw [hkb]
        simp only
        rw [if_pos (by omega)]
        rw [evalBranches_first, hh]
        by_cases hb0 : b = 0
        · subst hb0
          simp only [branchCall_hit 0 v hkb]
          simp
        · have hne : v.kind ≠ .refused 0 := by rw [hkb]; simp; omega
          simp only [branchCall_miss 0 v hne]
          rw [failsIn_miss v 0 m hne] at hf
          rw [evalBranches_own_residue m v b m 1 m [v.payload] (Nat.le_refl _) hf]
          congr 1; omega

/-- a worker whose deque is empty answers `f inst payload`, whatever the reset discipline -/
theorem workerCall_clean (pol : ResetPolicy) (inst n : Nat) (cr : Carry) (e : Entry) (h : cr.queue = []) :
    (workerCall pol inst n cr e).1 = runModel n inst e := by
  simp only [workerCall, h]; exact evalTerm_clean inst n e

/-- the `finally` reset of the code that exists: after every call the deque is empty -/
theorem workerCall_always_queue (inst n : Nat) (cr : Carry) (e : Entry) :
    (workerCall .always inst n cr e).2.queue = [] := by
  simp [workerCall, resetWorks]

theorem workerCall_calls (pol : ResetPolicy) (inst n : Nat) (cr : Carry) (e : Entry) :
    (workerCall pol inst n cr e).2.calls = cr.calls + 1 := rfl

/-- a worker serving a whole history with the reset of the code that exists -/
theorem serveAll_always (inst n : Nat) : ∀ (hist : List Entry) (cr : Carry), cr.queue = [] →
    (serveAll .always inst n cr hist).1 = hist.map (runModel n inst)
    ∧ (serveAll .always inst n cr hist).2.queue = [] := by
  intro hist
  induction hist with
  | nil => intro cr h; exact ⟨rfl, h⟩
  | cons e es ih =>
    intro cr h
    have := ih (workerCall .always inst n cr e).2 (workerCall_always_queue inst n cr e)
    simp only [serveAll, List.map_cons]
    exact ⟨by rw [workerCall_clean _ _ _ _ _ h, this.1], this.2⟩

/-- no request of the history is refused by a branch other than the last one of an `n`-way fan-out -/
def tailRefusalsOnly (n : Nat) (hist : List Entry) : Prop :=
  ∀ e ∈ hist, ∀ b, e.kind = .refused b → n ≤ b + 1

/-- Whatever the reset discipline: as long as no evaluation is interrupted with replicas outstanding, nothing is ever
carried over, and every request is answered `f inst payload`. -/
theorem serveAll_anyreset (pol : ResetPolicy) (inst n : Nat) : ∀ (hist : List Entry) (cr : Carry), cr.queue = [] →
    tailRefusalsOnly n hist →
    (serveAll pol inst n cr hist).1 = hist.map (runModel n inst)
    ∧ (serveAll pol inst n cr hist).2.queue = [] := by
  intro hist
  induction hist with
  | nil => intro cr h _; exact ⟨rfl, h⟩
  | cons e es ih =>
    intro cr h ht
    have hq : (workerCall pol inst n cr e).2.queue = [] := by
      simp only [workerCall, h]
      split
      · rfl
      · rw [evalTerm_clean_residue]
        split
        · rename_i b hb
          have := ht e (by simp) b hb
          split
          · have h0 : n - 1 - b = 0 := by omega
            rw [h0]; rfl
          · rfl
        · rfl
    have := ih (workerCall pol inst n cr e).2 hq (fun x hx => ht x (List.mem_cons_of_mem _ hx))
    simp only [serveAll, List.map_cons]
    exact ⟨by rw [workerCall_clean _ _ _ _ _ h, this.1], this.2⟩

theorem serveAll_append (pol : ResetPolicy) (inst n : Nat) : ∀ (a b : List Entry) (cr : Carry),
    (serveAll pol inst n cr (a ++ b)).1
      = (serveAll pol inst n cr a).1 ++ (serveAll pol inst n (serveAll pol inst n cr a).2 b).1 := by
  intro a
  induction a with
  | nil => intro b cr; rfl
  | cons e es ih => intro b cr; simp only [List.cons_append, serveAll, ih]

end ForML.Serving
