/-
C18 helper lemmas: `Tag.loads (Tag.dumps t) = t` at the structured level, field by field.
-/
import ForML.Lemmas.C18Str

namespace ForML.Tag

/-- ordinals that persist: every primitive kind except `Decimal`, strings in the safe region -/
def safeOrd : Option Ordinal → Bool
  | some (.str s) => safeStr s
  | some (.decimal _ _ _) => false
  | _ => true

/-- a two-key table: each key reads back its own optional value (absent when `None` was dropped by the writer) -/
theorem lookup_sect (k1 k2 : Key) (h : k1 ≠ k2) (v1 v2 : Option TVal) :
    lookup k1 (sect [(k1, v1), (k2, v2)]) = v1 ∧ lookup k2 (sect [(k1, v1), (k2, v2)]) = v2 := by
  have h' : k2 ≠ k1 := fun e => h e.symm
  cases v1 <;> cases v2 <;> simp [sect, lookup, h, h']

theorem loadTs_dump (ts : Option Ts) : loadTs (ts.map .datetime) = .ok ts := by
  cases ts <;> rfl

theorem loadScore_dump (sc : Option Num) : loadScore (sc.map dumpNum) = .ok sc := by
  cases sc with
  | none => rfl
  | some n => cases n <;> rfl

/-- the ordinal: what is written is read back, for every kind but `Decimal` and unsafe strings -/
theorem ordinal_roundtrip (o : Option Ordinal) (h : safeOrd o = true) :
    ∃ ov, dumpOrd? o = .ok ov ∧ loadOrd? ov = .ok o := by
  cases o with
  | none => exact ⟨none, rfl, rfl⟩
  | some o =>
    cases o with
    | int i => exact ⟨_, rfl, rfl⟩
    | float b => exact ⟨_, rfl, rfl⟩
    | bool b => exact ⟨_, rfl, rfl⟩
    | date y m d => exact ⟨_, rfl, rfl⟩
    | datetime t => exact ⟨_, rfl, rfl⟩
    | decimal a b c => simp [safeOrd] at h
    | str s =>
      obtain ⟨hd, hl⟩ := str_roundtrip s h
      refine ⟨some (.strLit (34 :: escape s ++ [34])), ?_, ?_⟩
      · simp only [dumpOrd?, dumpOrdinal, hd]
      · simp only [loadOrd?, loadOrdinal, hl]

/-- the tag, given that its ordinal round-trips -/
theorem tag_roundtrip_of_ordinal (t : Tag) (ov : Option TVal) (hd : dumpOrd? t.ordinal = .ok ov)
    (hl : loadOrd? ov = .ok t.ordinal) : ∃ d, dumps t = .ok d ∧ loads d = .ok t := by
  obtain ⟨trainTs, ordinal, tuneTs, score, states⟩ := t
  have l1 := lookup_sect .timestamp .ordinal (by decide) (trainTs.map .datetime) ov
  have l2 := lookup_sect .timestamp .score (by decide) (tuneTs.map .datetime) (score.map dumpNum)
  simp only at hd hl
  have e : dumps ⟨trainTs, ordinal, tuneTs, score, states⟩ = .ok
      { states := states
        training := sect [(.timestamp, trainTs.map .datetime), (.ordinal, ov)]
        tuning := sect [(.timestamp, tuneTs.map .datetime), (.score, score.map dumpNum)] } := by
    simp only [dumps, hd]
  refine ⟨_, e, ?_⟩
  simp only [loads, l1.1, l1.2, l2.1, l2.2, loadTs_dump, loadScore_dump, hl]

theorem tag_roundtrip (t : Tag) (h : safeOrd t.ordinal = true) : ∃ d, dumps t = .ok d ∧ loads d = .ok t := by
  obtain ⟨ov, hd, hl⟩ := ordinal_roundtrip t.ordinal h
  exact tag_roundtrip_of_ordinal t ov hd hl

/-- the code before the repair reads back exactly the tags that have a training timestamp -/
theorem loadsStrict_eq (t : Tag) (d : Doc) (hd : dumps t = .ok d) :
    loadsStrict d = if t.trainTs.isSome then loads d else .error (.keyError .timestamp) := by
  obtain ⟨trainTs, ordinal, tuneTs, score, states⟩ := t
  unfold dumps at hd
  cases ho : dumpOrd? ordinal with
  | error e => simp [ho] at hd
  | ok ov =>
    simp only [ho, Except.ok.injEq] at hd
    subst hd
    cases trainTs with
    | none =>
      have l1 := (lookup_sect .timestamp .ordinal (by decide) none ov).1
      simp only [loadsStrict, Option.map_none, l1, Option.isSome_none, Bool.false_eq_true, if_false]
    | some ts =>
      have l1 := (lookup_sect .timestamp .ordinal (by decide) (some (.datetime ts)) ov).1
      simp only [loadsStrict, Option.map_some, l1, Option.isSome_some, if_true]

end ForML.Tag
