/-
C02 helper lemmas: evaluation of the lambda terms of the single-function runner. A term is *good for `k`* when,
started from queues holding only correct replicas, it returns the denotation of `k` and leaves only correct
replicas behind. Replica cells, calls of good branches and the raw head are good — whatever the order in which
the consumers of a fork are evaluated.
-/
import ForML.Model.PyFunc

namespace ForML.Flow.PyFunc
open ForML.Flow

theorem Queues.get_set (q : Queues) (k : Key) (d : List Val) (k' : Key) :
    (q.set k d).get k' = if k' = k then d else q.get k' := by
  induction q with
  | nil =>
    simp only [Queues.set, Queues.get]
    by_cases h : k' = k
    · simp [h]
    · have : ¬ k = k' := fun e => h e.symm
      simp [h, this]
  | cons e r ih =>
    obtain ⟨k0, d0⟩ := e
    simp only [Queues.set]
    by_cases h0 : k0 = k
    · subst h0
      simp only [if_true, Queues.get]
      by_cases h : k0 = k'
      · simp [h]
      · have : ¬ k' = k0 := fun e => h e.symm
        simp [h, this]
    · simp only [h0, if_false, Queues.get]
      by_cases h : k0 = k'
      · subst h
        simp [h0]
      · simp only [h, if_false, ih]

/-- every queued value is the denotation of the node the queue belongs to -/
def SoundQ (D : Key → Val) (q : Queues) : Prop := ∀ k v, v ∈ q.get k → v = D k

theorem SoundQ.nil (D : Key → Val) : SoundQ D [] := by
  intro k v h; simp [Queues.get] at h

/-- `U` computes `D k` from any sound queue state and keeps the state sound -/
def Good (D : Key → Val) (x : Val) (U : Term) (k : Key) : Prop :=
  ∀ q, SoundQ D q → (eval x U q).1 = D k ∧ SoundQ D (eval x U q).2

theorem eval_raw (x : Val) (k : Key) (r : Raw) (q : Queues) : eval x (.raw k r) q = (r.call [x], q) := by
  rw [eval]

theorem eval_call (x : Val) (k : Key) (r : Raw) (bs : List Term) (q : Queues) :
    eval x (.call k r bs) q = (r.call (evalArgs x bs q).1, (evalArgs x bs q).2) := by
  rw [eval]

theorem eval_replica (x : Val) (k : Key) (t : Term) (n : Nat) (q : Queues) :
    eval x (.replica k t n) q =
      match q.get k with
      | v :: d => (v, q.set k d)
      | [] => ((eval x t q).1, (eval x t q).2.set k ((eval x t q).2.get k ++ List.replicate n (eval x t q).1)) := by
  rw [eval]
  cases q.get k <;> rfl

theorem evalArgs_nil (x : Val) (q : Queues) : evalArgs x [] q = ([], q) := by rw [evalArgs]

theorem evalArgs_cons (x : Val) (b : Term) (bs : List Term) (q : Queues) :
    evalArgs x (b :: bs) q =
      ((eval x b q).1 :: (evalArgs x bs (eval x b q).2).1, (evalArgs x bs (eval x b q).2).2) := by
  rw [evalArgs]

/-- the raw head is good when calling it with the input gives the head's denotation -/
theorem good_raw {D : Key → Val} {x : Val} {k : Key} {r : Raw} (h : r.call [x] = D k) : Good D x (.raw k r) k := by
  intro q hq
  rw [eval_raw]
  exact ⟨h, hq⟩

/-- a replica cell of a good term is good, whether it is the first of its fork to be evaluated or not -/
theorem good_replica {D : Key → Val} {x : Val} {k : Key} {U : Term} (n : Nat) (h : Good D x U k) :
    Good D x (.replica k U n) k := by
  intro q hq
  rw [eval_replica]
  cases hg : q.get k with
  | cons v d =>
    simp only
    refine ⟨hq k v (by simp [hg]), ?_⟩
    intro k' v' hv'
    rw [Queues.get_set] at hv'
    split at hv'
    · rename_i he; subst he; exact hq k' v' (by simp [hg, hv'])
    · exact hq k' v' hv'
  | nil =>
    simp only
    obtain ⟨hv, hq'⟩ := h q hq
    refine ⟨hv, ?_⟩
    intro k' v' hv'
    rw [Queues.get_set] at hv'
    split at hv'
    · rename_i he
      subst he
      rcases List.mem_append.1 hv' with h1 | h1
      · exact hq' k' v' h1
      · rw [(List.mem_replicate.1 h1).2, hv]
    · exact hq' k' v' hv'

/-- pointwise relation of two lists (core Lean has no `List.Forall₂`) -/
inductive All₂ {α β : Type} (P : α → β → Prop) : List α → List β → Prop where
  | nil : All₂ P [] []
  | cons {a b as bs} : P a b → All₂ P as bs → All₂ P (a :: as) (b :: bs)

/-- branches that are good for the argument nodes evaluate, left to right, to the arguments' denotations -/
theorem evalArgs_good {D : Key → Val} {x : Val} :
    ∀ {bs : List Term} {ks : List Key}, All₂ (Good D x) bs ks → ∀ q, SoundQ D q →
      (evalArgs x bs q).1 = ks.map D ∧ SoundQ D (evalArgs x bs q).2 := by
  intro bs ks h
  induction h with
  | nil => intro q hq; rw [evalArgs_nil]; exact ⟨rfl, hq⟩
  | cons hb _ ih =>
    intro q hq
    rw [evalArgs_cons]
    obtain ⟨h1, h2⟩ := hb q hq
    obtain ⟨h3, h4⟩ := ih _ h2
    exact ⟨by simp [h1, h3], h4⟩

/-- `Chain` / `Zip` of good branches is good when the raw term applied to the arguments' denotations is the
node's denotation -/
theorem good_call {D : Key → Val} {x : Val} {k : Key} {r : Raw} {bs : List Term} {ks : List Key}
    (hbs : All₂ (Good D x) bs ks) (hr : r.call (ks.map D) = D k) : Good D x (.call k r bs) k := by
  intro q hq
  rw [eval_call]
  obtain ⟨h1, h2⟩ := evalArgs_good hbs q hq
  exact ⟨by simp only [h1, hr], h2⟩

/-- every term produced by `fork` from a good term is good -/
theorem good_fork {D : Key → Val} {x : Val} {k : Key} {U : Term} (szout : Nat) (h : Good D x U k) :
    ∀ V ∈ fork k U szout, Good D x V k := by
  intro V hV
  simp only [fork] at hV
  split at hV
  · rw [(List.mem_replicate.1 hV).2]; exact good_replica _ h
  · simp at hV; rw [hV]; exact h

end ForML.Flow.PyFunc
