/-
C03 — helper lemmas: the apply region of an expanded trunk, as `Segment.copy` needs it.

`Region g W Wx seg lo`: everything reachable from `seg.head` is at least `lo`, evaluable, fed from the region only,
reaches `seg.tail`, and satisfies its local equation under the alternative values `Wx` with the group states of `W`.
A region is obtained from two runs of `Spec` on the same graph with different apply inputs (the construction does not
depend on the values, and the trained states do not depend on the apply input: `Scope.Indep`); it survives
subscriptions whose publisher lies below `lo` (binding the heads of the trunk to older publishers).
-/
import ForML.Lemmas.C03CopySpec
import ForML.Lemmas.C03Indep
import ForML.Lemmas.C03Ops

namespace ForML.Compose

structure Region (g : Graph) (W Wx : World) (seg : Segment) (lo : Nat) : Prop where
  headLive : W.live seg.head
  headKind : g.kindOf seg.head = some .future
  reachLo : ∀ n, Reach g seg.head n → lo ≤ n
  reg : ∀ n, Reach g seg.head n → n ≠ seg.head →
    W.live n ∧ ∀ k q, g.inputOf n k = some q → Reach g seg.head q.node
  tail : Reach g seg.head seg.tail
  alt : ∀ n, Reach g seg.head n → n ≠ seg.head → AltGood g W Wx n
  headIn : ∀ k q, g.inputOf seg.head k = some q → q.node < lo

/-- copying a region -/
theorem Region.copy {g : Graph} {W Wx : World} {seg : Segment} {lo : Nat} (hr : Region g W Wx seg lo) (hi : Inv g W)
    (hw : Wired g) : ∃ c g' W', Run (copySegment seg) g c g' ∧ CopyOk g g' W Wx W' seg c := by
  refine copySegment_spec hi hw seg hr.headLive hr.headKind hr.reg hr.tail ?_ hr.alt
  intro k q hq hre
  have := hr.reachLo _ hre
  have := hr.headIn k q hq
  omega

/-- a subscription to a publisher below the region does not change the region -/
theorem Region.pushEdge {g : Graph} {W Wx : World} {seg : Segment} {lo : Nat} (hr : Region g W Wx seg lo) (e : Edge)
    (hfree : g.inputOf e.sub e.port = none) (hp : e.pub.node < lo)
    (hs : e.sub = seg.head ∨ ¬ Reach g seg.head e.sub) : Region (g.pushEdge e) W Wx seg lo := by
  have hin' : ∀ u k q, (g.pushEdge e).inputOf u k = some q → g.inputOf u k = some q ∨ (e.sub = u ∧ e.port = k ∧ e.pub = q) := by
    intro u k q hq
    rw [inputOf_pushEdge] at hq
    cases h : g.inputOf u k with
    | some q' => rw [h] at hq; simp at hq; exact Or.inl (by rw [hq])
    | none =>
      rw [h] at hq
      by_cases hc : e.sub = u ∧ e.port = k
      · simp [hc] at hq; exact Or.inr ⟨hc.1, hc.2, hq⟩
      · simp [hc] at hq
  have mono : ∀ u k q, g.inputOf u k = some q → (g.pushEdge e).inputOf u k = some q := by
    intro u k q hq; rw [inputOf_pushEdge, hq]; rfl
  -- reachability from the head is unchanged
  have back : ∀ n, Reach (g.pushEdge e) seg.head n → Reach g seg.head n := by
    intro n hre
    induction hre with
    | refl => exact Reach.refl
    | step _ he ih =>
      rcases hin' _ _ _ he with h | ⟨_, _, h3⟩
      · exact Reach.step ih h
      · have := hr.reachLo _ ih
        rw [h3] at hp
        simp at hp
        omega
  have fwd : ∀ n, Reach g seg.head n → Reach (g.pushEdge e) seg.head n := fun n h => h.mono mono
  -- inputs of the region nodes other than the head are unchanged
  have same : ∀ n, Reach g seg.head n → n ≠ seg.head → ∀ k, (g.pushEdge e).inputOf n k = g.inputOf n k := by
    intro n hre hne k
    rw [inputOf_pushEdge]
    have : ¬ (e.sub = n ∧ e.port = k) := by
      intro hc
      rcases hs with h | h
      · exact hne (hc.1 ▸ h)
      · exact h (hc.1 ▸ hre)
    simp [this]
  refine ⟨hr.headLive, by simpa using hr.headKind, fun n h => hr.reachLo n (back n h), ?_, fwd _ hr.tail, ?_, ?_⟩
  · intro n hre hne
    have hre0 := back n hre
    obtain ⟨hl, hall⟩ := hr.reg n hre0 hne
    refine ⟨hl, ?_⟩
    intro k q hq
    rw [same n hre0 hne k] at hq
    exact fwd _ (hall k q hq)
  · intro n hre hne
    have hre0 := back n hre
    have := hr.alt n hre0 hne
    unfold AltGood at this ⊢
    simp only [kindOf_pushEdge]
    cases hk : g.kindOf n with
    | none => simp [hk] at this
    | some kd =>
      cases kd with
      | future =>
        simp only [hk] at this ⊢
        obtain ⟨q, hq, hσ⟩ := this
        exact ⟨q, by rw [same n hre0 hne 0]; exact hq, hσ⟩
      | worker gid a szin szout =>
        simp only [hk] at this ⊢
        obtain ⟨ins, hins, st, hst, hσ⟩ := this
        refine ⟨ins, fun k hk' => by rw [same n hre0 hne k]; exact hins k hk', st, ?_, hσ⟩
        unfold StateFor at hst ⊢
        simpa using hst
  · intro k q hq
    rcases hin' _ _ _ hq with h | ⟨_, _, h3⟩
    · exact hr.headIn k q h
    · rw [← h3]; exact hp

/-- the alternative equation of a region node, from two certified valuations of the same graph that agree on the
states trained since `g0` -/
theorem altGood_of_good {g0 g : Graph} {W Wx : World} (hi : Inv g W) (hix : Inv g Wx) {n : Nat}
    (hl : W.live n) (hlx : Wx.live n)
    (hfut : g.kindOf n = some .future → ∃ q, g.inputOf n 0 = some q)
    (hgid : ∀ gid a i o, g.kindOf n = some (.worker gid a i o) → g0.next ≤ gid)
    (ts : List Training) (hts : g.trains = g0.trains ++ ts) (hb0 : ∀ t ∈ g0.trains, t.gid < g0.next)
    (heq : ts.map (trainedUnder W) = ts.map (trainedUnder Wx)) : AltGood g W Wx n := by
  have hgood := hi.good n hl
  have hgoodx := hix.good n hlx
  unfold GoodNode at hgood hgoodx
  unfold AltGood
  cases hk : g.kindOf n with
  | none => simp [hk] at hgood
  | some kd =>
    cases kd with
    | future =>
      simp only [hk] at hgoodx ⊢
      obtain ⟨q, hq⟩ := hfut hk
      rw [hq] at hgoodx
      exact ⟨q, hq, hgoodx.2⟩
    | worker gid a szin szout =>
      simp only [hk] at hgood hgoodx ⊢
      obtain ⟨ins, hins, st, hst, _⟩ := hgood
      obtain ⟨insx, hinsx, stx, hstx, hσx⟩ := hgoodx
      refine ⟨insx, fun k hk' => (hinsx k hk').1, st, hst, ?_⟩
      -- the two states coincide
      have hstate : stx = st := by
        unfold GoodState StateFor at hst hstx
        by_cases hsf : a.stateful = true
        · simp only [hsf, if_true] at hst hstx
          cases htr : g.trainerOf gid with
          | none =>
            simp only [htr] at hst hstx
            rw [hst, hstx]
          | some t =>
            simp only [htr] at hst hstx
            obtain ⟨_, _, e1⟩ := hst
            obtain ⟨_, _, e2⟩ := hstx
            -- the trainer was recorded since `g0`
            have htm : t ∈ g.trains := List.mem_of_find?_eq_some htr
            have htg : t.gid = gid := by
              have := List.find?_some htr
              simpa using this
            have htn : t ∈ ts := by
              rw [hts] at htm
              rcases List.mem_append.mp htm with h | h
              · have := hb0 t h
                have := hgid gid a szin szout hk
                omega
              · exact h
            have hpt : trainedUnder W t = trainedUnder Wx t := by
              have := List.map_inj_left.mp heq t htn
              exact this
            unfold trainedUnder at hpt
            have hv := (Prod.mk.inj hpt).2
            have h1 : W.σ t.train = Wx.σ t.train := by injection hv
            have h2 : W.σ t.label = Wx.σ t.label := by injection hv
            rw [e1, e2, h1, h2]
        · simp only [hsf] at hst hstx
          rw [hst, hstx]
      intro i
      rw [hσx i, hstate]

/-- the apply region of a freshly expanded trunk, from two runs of the same construction on different apply inputs -/
theorem Region.ofSpec {g g' : Graph} {W W' Wx' : World} {t : Trunk} {xa x' xt xl : Val} {r : Nat} {s sx : Sem}
    (hi : Inv g W) (hw : Wired g) (ok : TrunkOk True g g' W W' t xa xt xl r s) (okx : TrunkOk True g g' W Wx' t x' xt xl r sx)
    (hst : s.states = sx.states) : Region g' W' Wx' t.apply g.next := by
  have hlo : ∀ n, Reach g' t.apply.head n → g.next ≤ n := fun n h => Reach.new ok.frame hw ok.ha.ge h
  obtain ⟨d1, d2, _⟩ := ok.distinct
  refine ⟨ok.ha.live, ok.ha.isOpen.1, hlo, ok.reg trivial, ok.regTail trivial, ?_, ?_⟩
  · intro n hre hne
    obtain ⟨ts, hts, _, hm⟩ := ok.trains
    obtain ⟨tsx, htsx, _, hmx⟩ := okx.trains
    have ets : ts = tsx := List.append_cancel_left (hts.symm.trans htsx)
    refine altGood_of_good (g0 := g) ok.inv okx.inv ((ok.reg trivial n hre hne).1) ((okx.reg trivial n hre hne).1) ?_ ?_ ts hts
      hi.bounded.trainsLt ?_
    · intro hk
      cases hq : g'.inputOf n 0 with
      | some q => exact ⟨q, rfl⟩
      | none =>
        exfalso
        rcases ok.opens n (hlo n hre) ((ok.reg trivial n hre hne).1) ⟨hk, hq⟩ with h | h | h
        · exact hne h
        · exact not_reach_of_no_input ok.ht.free (fun e => d1 e.symm) (h ▸ hre)
        · exact not_reach_of_no_input ok.hl.free (fun e => d2 e.symm) (h ▸ hre)
    · intro gid a i o hk
      exact ok.fresh n (hlo n hre) ((ok.reg trivial n hre hne).1) gid a i o hk
    · rw [hm, hst, ← hmx, ets]
  · intro k q hq
    rw [ok.ha.free k] at hq; cases hq

/-- binding a live hole to a live publisher of smaller rank carrying the hole's value -/
theorem bindHead {g : Graph} {W : World} (hi : Inv g W) (hw : Wired g) (h : Nat) (q : PubRef) (hl : W.live h)
    (ho : g.isOpen h) (hq : RefOk W q (W.h h)) (hσ : ∀ i, W.σ ⟨h, i⟩ = W.σ q) :
    Run (subscribe h 0 q) g () (g.pushEdge ⟨h, 0, q⟩) ∧ Inv (g.pushEdge ⟨h, 0, q⟩) W ∧ Wired (g.pushEdge ⟨h, 0, q⟩) :=
  ⟨run_subscribe h 0 q g ho.2, hi.bindFuture h q hl ho hq hσ, hw.pushEdge _ (hi.liveLt _ hq.1).1 ho.2⟩

end ForML.Compose
