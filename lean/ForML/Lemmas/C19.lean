/-
Helper lemmas for C19 (core Lean only): stable insertion sort, glob matcher vs declarative
semantics, first-index search, option dictionaries, separator split/join.
-/
import ForML.Model.Codec

namespace ForML.Codec

/-! ### stable descending insertion sort -/

/-- sorted by descending quality -/
def Desc (l : List Range) : Prop := l.Pairwise (fun a b => a.q ≥ b.q)

theorem insertDesc_perm (x : Range) (l : List Range) : (insertDesc x l).Perm (x :: l) := by
  induction l with
  | nil => exact List.Perm.refl _
  | cons y ys ih =>
    simp only [insertDesc]
    split
    · exact ((List.Perm.cons y ih).trans (List.Perm.swap x y ys))
    · exact List.Perm.refl _

theorem sortDesc_perm (l : List Range) : (sortDesc l).Perm l := by
  induction l with
  | nil => exact List.Perm.refl _
  | cons x xs ih => exact (insertDesc_perm x (sortDesc xs)).trans (List.Perm.cons x ih)

theorem insertDesc_sorted (x : Range) (l : List Range) (h : Desc l) : Desc (insertDesc x l) := by
  induction l with
  | nil => simp [insertDesc, Desc]
  | cons y ys ih =>
    simp only [Desc, List.pairwise_cons] at h
    simp only [insertDesc]
    split
    · rename_i hgt
      simp only [Desc, List.pairwise_cons]
      refine ⟨?_, ih h.2⟩
      intro b hb
      have := (insertDesc_perm x ys).mem_iff.mp hb
      rcases List.mem_cons.mp this with rfl | hb'
      · omega
      · exact h.1 b hb'
    · rename_i hle
      simp only [Desc, List.pairwise_cons]
      refine ⟨?_, h.1, h.2⟩
      intro b hb
      rcases List.mem_cons.mp hb with rfl | hb'
      · omega
      · have := h.1 b hb'; omega

theorem sortDesc_sorted (l : List Range) : Desc (sortDesc l) := by
  induction l with
  | nil => simp [sortDesc, Desc]
  | cons x xs ih => exact insertDesc_sorted x _ ih

theorem insertDesc_filter_eq (x : Range) (l : List Range) (k : Int) (hk : x.q = k) :
    (insertDesc x l).filter (fun r => r.q == k) = x :: l.filter (fun r => r.q == k) := by
  induction l with
  | nil => simp [insertDesc, hk]
  | cons y ys ih =>
    simp only [insertDesc]
    split
    · rename_i hgt
      have hy : (y.q == k) = false := by simp; omega
      simp [hy, ih]
    · simp [List.filter_cons, hk]

theorem insertDesc_filter_ne (x : Range) (l : List Range) (k : Int) (hk : x.q ≠ k) :
    (insertDesc x l).filter (fun r => r.q == k) = l.filter (fun r => r.q == k) := by
  induction l with
  | nil => simp [insertDesc, hk]
  | cons y ys ih =>
    simp only [insertDesc]
    split
    · simp [List.filter_cons, ih]
    · simp [List.filter_cons, hk]

/-- stability: the ranges of any one quality keep their header order -/
theorem sortDesc_stable (l : List Range) (k : Int) :
    (sortDesc l).filter (fun r => r.q == k) = l.filter (fun r => r.q == k) := by
  induction l with
  | nil => rfl
  | cons x xs ih =>
    simp only [sortDesc]
    by_cases hk : x.q = k
    · rw [insertDesc_filter_eq x _ k hk, ih]; simp [hk]
    · rw [insertDesc_filter_ne x _ k hk, ih]; simp [hk]

/-! ### glob: declarative semantics -/

/-- a bracket member covers a character -/
def Item.Covers (c : Char) : Item → Prop
  | .ch a => a = c
  | .rng lo hi => lo ≤ c ∧ c ≤ hi

/-- one pattern element accepts one character: `?` anything, a literal itself, `[seq]` a character
covered by some member, `[!seq]` a character covered by none; `*` never consumes exactly one here -/
def Tok.Accepts (c : Char) : Tok → Prop
  | .star => False
  | .any => True
  | .set neg items => (∃ it ∈ items, it.Covers c) ↔ neg = false
  | .lit a => a = c

/-- declarative semantics of a compiled pattern: the language of the regular expression that
`fnmatch.translate` builds (`*` = any run, everything else = one accepted character) -/
inductive Matches : List Tok → Str → Prop
  | nil : Matches [] []
  | one (t : Tok) (c : Char) (ts : List Tok) (s : Str) : t.Accepts c → Matches ts s → Matches (t :: ts) (c :: s)
  | star0 (ts : List Tok) (s : Str) : Matches ts s → Matches (.star :: ts) s
  | star1 (ts : List Tok) (c : Char) (s : Str) : Matches (.star :: ts) s → Matches (.star :: ts) (c :: s)

theorem Item.has_iff (c : Char) (it : Item) : it.has c = true ↔ it.Covers c := by
  cases it <;> simp [Item.has, Item.Covers]

theorem Tok.accepts_iff (c : Char) (t : Tok) : t.accepts c = true ↔ t.Accepts c := by
  cases t with
  | star => simp [Tok.accepts, Tok.Accepts]
  | any => simp [Tok.accepts, Tok.Accepts]
  | lit a => simp [Tok.accepts, Tok.Accepts]
  | set neg items =>
    simp only [Tok.accepts, Tok.Accepts]
    have h : items.any (Item.has c) = true ↔ ∃ it ∈ items, it.Covers c := by
      simp [List.any_eq_true, Item.has_iff]
    cases neg <;> cases hany : items.any (Item.has c) <;> simp_all

theorem anySuffix_iff (f : Str → Bool) (s : Str) :
    anySuffix f s = true ↔ ∃ pre suf, s = pre ++ suf ∧ f suf = true := by
  induction s with
  | nil =>
    simp only [anySuffix]
    constructor
    · intro h; exact ⟨[], [], rfl, h⟩
    · rintro ⟨pre, suf, h, hf⟩
      have : suf = [] := by
        cases pre <;> simp_all
      subst this; exact hf
  | cons c s ih =>
    simp only [anySuffix, Bool.or_eq_true, ih]
    constructor
    · rintro (h | ⟨pre, suf, rfl, hf⟩)
      · exact ⟨[], c :: s, rfl, h⟩
      · exact ⟨c :: pre, suf, rfl, hf⟩
    · rintro ⟨pre, suf, h, hf⟩
      cases pre with
      | nil => left; simp at h; subst h; exact hf
      | cons a pre =>
        right
        simp at h
        exact ⟨pre, suf, h.2, hf⟩

theorem Matches_star_of_suffix (ts : List Tok) (pre suf : Str) (h : Matches ts suf) :
    Matches (.star :: ts) (pre ++ suf) := by
  induction pre with
  | nil => exact Matches.star0 _ _ h
  | cons c pre ih => exact Matches.star1 _ _ _ ih

theorem Matches_star_suffix (ts : List Tok) (s : Str) (h : Matches (.star :: ts) s) :
    ∃ pre suf, s = pre ++ suf ∧ Matches ts suf := by
  generalize hp : Tok.star :: ts = p at h
  induction h with
  | nil => cases hp
  | one t c ts' s' hacc _ _ =>
    cases hp
    exact absurd hacc (by simp [Tok.Accepts])
  | star0 ts' s' hm _ => cases hp; exact ⟨[], s', rfl, hm⟩
  | star1 ts' c s' _ ih =>
    cases hp
    obtain ⟨pre, suf, rfl, hm⟩ := ih rfl
    exact ⟨c :: pre, suf, rfl, hm⟩

/-- `*` matches any run of characters (including none) -/
theorem Matches_star_iff (ts : List Tok) (s : Str) :
    Matches (.star :: ts) s ↔ ∃ pre suf, s = pre ++ suf ∧ Matches ts suf :=
  ⟨Matches_star_suffix ts s, fun ⟨pre, suf, h, hm⟩ => h ▸ Matches_star_of_suffix ts pre suf hm⟩

theorem Matches_cons_iff (t : Tok) (ht : t ≠ .star) (ts : List Tok) (s : Str) :
    Matches (t :: ts) s ↔ ∃ c r, s = c :: r ∧ t.Accepts c ∧ Matches ts r := by
  constructor
  · intro h
    cases h with
    | one _ c _ r ha hm => exact ⟨c, r, rfl, ha, hm⟩
    | star0 => exact absurd rfl ht
    | star1 => exact absurd rfl ht
  · rintro ⟨c, r, rfl, ha, hm⟩
    exact Matches.one _ _ _ _ ha hm

theorem Matches_cons_cons (t : Tok) (ht : t ≠ .star) (ts : List Tok) (c : Char) (r : Str) :
    Matches (t :: ts) (c :: r) ↔ t.Accepts c ∧ Matches ts r := by
  rw [Matches_cons_iff t ht]
  constructor
  · rintro ⟨c', r', h, ha, hm⟩
    cases h; exact ⟨ha, hm⟩
  · rintro ⟨ha, hm⟩; exact ⟨c, r, rfl, ha, hm⟩

theorem Matches_cons_nil (t : Tok) (ht : t ≠ .star) (ts : List Tok) : ¬ Matches (t :: ts) [] := by
  rw [Matches_cons_iff t ht]
  rintro ⟨c', r', h, _⟩
  cases h

/-- the executable matcher decides the declarative semantics -/
theorem globToks_iff (ts : List Tok) (s : Str) : globToks ts s = true ↔ Matches ts s := by
  induction ts generalizing s with
  | nil =>
    cases s with
    | nil => simp [globToks]; exact Matches.nil
    | cons c r => simp [globToks]; intro h; cases h
  | cons t ts ih =>
    cases t with
    | star =>
      rw [Matches_star_iff]
      simp only [globToks, anySuffix_iff, ih]
    | any =>
      cases s with
      | nil => simp [globToks, Matches_cons_nil]
      | cons c r => rw [Matches_cons_cons _ (by simp)]; simp [globToks, ih, Tok.Accepts]
    | lit a =>
      cases s with
      | nil => simp [globToks, Matches_cons_nil]
      | cons c r => rw [Matches_cons_cons _ (by simp)]; simp [globToks, ih, Tok.accepts_iff]
    | set neg items =>
      cases s with
      | nil => simp [globToks, Matches_cons_nil]
      | cons c r =>
        rw [Matches_cons_cons _ (by simp)]
        simp only [globToks, Bool.and_eq_true, ih, Tok.accepts_iff]

/-! ### patterns without wildcard characters -/

/-- not one of the characters `fnmatch.translate` treats specially -/
def plain (c : Char) : Bool := c != '*' && c != '?' && c != '['

theorem compileAux_plain (n : Nat) (pat : Str) (hn : pat.length ≤ n) (hp : pat.all plain = true) :
    compileAux n pat = pat.map Tok.lit := by
  induction pat generalizing n with
  | nil => cases n <;> simp [compileAux]
  | cons c r ih =>
    cases n with
    | zero => simp at hn
    | succ n =>
      simp only [List.all_cons, Bool.and_eq_true] at hp
      obtain ⟨hc, hr⟩ := hp
      simp only [plain, Bool.and_eq_true, bne_iff_ne, ne_eq] at hc
      obtain ⟨⟨h1, h2⟩, h3⟩ := hc
      simp only [compileAux, beq_iff_eq, h1, h2, h3, if_false, List.map_cons]
      rw [ih n (by simp at hn; omega) hr]

theorem globToks_lits (pat name : Str) : globToks (pat.map Tok.lit) name = true ↔ name = pat := by
  induction pat generalizing name with
  | nil => cases name <;> simp [globToks]
  | cons a r ih =>
    cases name with
    | nil => simp [globToks]
    | cons c s =>
      simp only [List.map_cons, globToks, Tok.accepts, Bool.and_eq_true, beq_iff_eq, ih, List.cons.injEq]
      constructor
      · rintro ⟨h1, h2⟩; exact ⟨h1.symm, h2⟩
      · rintro ⟨h1, h2⟩; exact ⟨h1.symm, h2⟩

/-! ### first index -/

theorem findIdx?_none_iff (p : α → Bool) (l : List α) :
    findIdx? p l = none ↔ ∀ a ∈ l, p a = false := by
  induction l with
  | nil => simp [findIdx?]
  | cons a r ih =>
    simp only [findIdx?]
    split
    · rename_i h; simp [h]
    · rename_i h; simp [ih, h]

theorem findIdx?_some (p : α → Bool) (l : List α) (i : Nat) (h : findIdx? p l = some i) :
    ∃ a, l[i]? = some a ∧ p a = true ∧ ∀ j, j < i → ∀ b, l[j]? = some b → p b = false := by
  induction l generalizing i with
  | nil => simp [findIdx?] at h
  | cons a r ih =>
    simp only [findIdx?] at h
    split at h
    · rename_i hp
      cases h
      exact ⟨a, rfl, hp, fun j hj => absurd hj (Nat.not_lt_zero j)⟩
    · rename_i hp
      cases hr : findIdx? p r with
      | none => simp [hr] at h
      | some i' =>
        simp [hr] at h
        subst h
        obtain ⟨x, hx, hpx, hlt⟩ := ih i' hr
        refine ⟨x, by simpa using hx, hpx, ?_⟩
        intro j hj b hb
        cases j with
        | zero => simp at hb; subst hb; simpa using hp
        | succ j => exact hlt j (by omega) b (by simpa using hb)

/-- converse: an index with the first-match property is the one returned -/
theorem findIdx?_eq_of_first (p : α → Bool) (l : List α) (i : Nat) (a : α)
    (ha : l[i]? = some a) (hp : p a = true) (hlt : ∀ j, j < i → ∀ b, l[j]? = some b → p b = false) :
    findIdx? p l = some i := by
  induction l generalizing i with
  | nil => simp at ha
  | cons x r ih =>
    simp only [findIdx?]
    cases i with
    | zero => simp at ha; subst ha; simp [hp]
    | succ i =>
      have hx : p x = false := hlt 0 (by omega) x rfl
      simp [hx]
      exact ih i (by simpa using ha) (fun j hj b hb => hlt (j + 1) (by omega) b (by simpa using hb))

/-! ### option dictionaries -/

/-- keys are pairwise distinct -/
def UniqueKeys (o : Options) : Prop := (o.map (·.1)).Nodup

instance (o : Options) : Decidable (UniqueKeys o) := by unfold UniqueKeys; infer_instance

theorem getOpt_some_mem (k v : Str) (o : Options) (h : getOpt k o = some v) : (k, v) ∈ o := by
  induction o with
  | nil => simp [getOpt] at h
  | cons x r ih =>
    obtain ⟨k', v'⟩ := x
    simp only [getOpt] at h
    split at h
    · rename_i hk
      have : k' = k := by simpa using hk
      cases h; subst this; simp
    · exact List.mem_cons_of_mem _ (ih h)

theorem getOpt_of_mem (k v : Str) (o : Options) (hu : UniqueKeys o) (h : (k, v) ∈ o) : getOpt k o = some v := by
  induction o with
  | nil => simp at h
  | cons x r ih =>
    obtain ⟨k', v'⟩ := x
    simp only [UniqueKeys, List.map_cons, List.nodup_cons] at hu
    simp only [getOpt]
    rcases List.mem_cons.mp h with heq | hmem
    · cases heq; simp
    · have hne : k' ≠ k := by
        intro hkk; subst hkk
        exact hu.1 (List.mem_map.mpr ⟨(k', v), hmem, rfl⟩)
      simp [hne]
      exact ih hu.2 hmem

/-- with unique keys, `dict.get(k) == v` is membership of the pair -/
theorem getOpt_iff_mem (k v : Str) (o : Options) (hu : UniqueKeys o) : getOpt k o = some v ↔ (k, v) ∈ o :=
  ⟨getOpt_some_mem k v o, getOpt_of_mem k v o hu⟩

theorem setOpt_keys (k v : Str) (o : Options) :
    (setOpt k v o).map (·.1) = if k ∈ o.map (·.1) then o.map (·.1) else o.map (·.1) ++ [k] := by
  induction o with
  | nil => simp [setOpt]
  | cons x r ih =>
    obtain ⟨k', v'⟩ := x
    by_cases hk : k' = k
    · subst hk; simp [setOpt]
    · have hk' : ¬ k = k' := fun h => hk h.symm
      by_cases hm : k ∈ r.map (·.1)
      · have : k ∈ ((k', v') :: r).map (·.1) := by
          simp only [List.map_cons, List.mem_cons]; exact Or.inr hm
        rw [if_pos this]
        rw [if_pos hm] at ih
        simp [setOpt, hk, ih]
      · have : ¬ k ∈ ((k', v') :: r).map (·.1) := by
          simp only [List.map_cons, List.mem_cons, not_or]; exact ⟨hk', hm⟩
        rw [if_neg this]
        rw [if_neg hm] at ih
        simp [setOpt, hk, ih]

theorem setOpt_unique (k v : Str) (o : Options) (hu : UniqueKeys o) : UniqueKeys (setOpt k v o) := by
  unfold UniqueKeys at *
  rw [setOpt_keys]
  split
  · exact hu
  · rename_i hk
    rw [List.nodup_append]
    refine ⟨hu, by simp, ?_⟩
    intro a ha b hb
    simp at hb; subst hb
    intro h; subst h; exact hk ha

theorem paramDict_unique (parts : List Str) : UniqueKeys (paramDict parts) := by
  unfold paramDict
  suffices h : ∀ (d : Options), UniqueKeys d →
      UniqueKeys (parts.foldl (fun d p => match splitEq p with
        | none => d
        | some (n, v) => setOpt (lower (trim n)) (unquote (trim v)) d) d) from h [] (by simp [UniqueKeys])
  induction parts with
  | nil => intro d hd; exact hd
  | cons p ps ih =>
    intro d hd
    simp only [List.foldl_cons]
    apply ih
    split
    · exact hd
    · exact setOpt_unique _ _ _ hd

/-! ### separator split / join (codec round-trip slice) -/

theorem splitOn_ne_nil (sep : Char) (s : Str) : splitOn sep s ≠ [] := by
  induction s with
  | nil => simp [splitOn]
  | cons c r ih =>
    simp only [splitOn]
    split
    · simp
    · split <;> simp

theorem splitOn_free (sep : Char) (s : Str) (h : sep ∉ s) : splitOn sep s = [s] := by
  induction s with
  | nil => rfl
  | cons c r ih =>
    have hc : c ≠ sep := fun e => h (by simp [e])
    have hr : sep ∉ r := fun e => h (List.mem_cons_of_mem _ e)
    simp [splitOn, hc, ih hr]

theorem splitOn_append (sep : Char) (a b : Str) (h : sep ∉ a) :
    splitOn sep (a ++ sep :: b) = a :: splitOn sep b := by
  induction a with
  | nil => simp [splitOn]
  | cons c r ih =>
    have hc : c ≠ sep := fun e => h (by simp [e])
    have hr : sep ∉ r := fun e => h (List.mem_cons_of_mem _ e)
    simp [splitOn, hc, ih hr]

theorem splitOn_join (sep : Char) (cells : List Str) (hne : cells ≠ []) (h : ∀ c ∈ cells, sep ∉ c) :
    splitOn sep (joinWith sep cells) = cells := by
  induction cells with
  | nil => exact absurd rfl hne
  | cons a r ih =>
    cases r with
    | nil => simp [joinWith, splitOn_free sep a (h a (by simp))]
    | cons b r' =>
      simp only [joinWith]
      rw [splitOn_append sep a _ (h a (by simp))]
      rw [ih (by simp) (fun c hc => h c (List.mem_cons_of_mem _ hc))]

theorem joinWith_free (sep x : Char) (hx : x ≠ sep) (cells : List Str) (h : ∀ c ∈ cells, x ∉ c) :
    x ∉ joinWith sep cells := by
  induction cells with
  | nil => simp [joinWith]
  | cons a r ih =>
    cases r with
    | nil => simpa [joinWith] using h a (by simp)
    | cons b r' =>
      simp only [joinWith, List.mem_append, List.mem_cons, not_or]
      exact ⟨h a (by simp), hx, ih (fun c hc => h c (List.mem_cons_of_mem _ hc))⟩

theorem splitOn_lines (lines : List Str) (h : ∀ l ∈ lines, '\n' ∉ l) :
    splitOn '\n' (lines.flatMap (fun l => l ++ ['\n'])) = lines ++ [[]] := by
  induction lines with
  | nil => rfl
  | cons a r ih =>
    simp only [List.flatMap_cons, List.append_assoc, List.singleton_append]
    rw [splitOn_append '\n' a _ (h a (by simp)), ih (fun l hl => h l (List.mem_cons_of_mem _ hl))]
    rfl

/-! ### rounding division -/

theorem roundDiv_bound (n m half : Nat) (hm : m = 2 * half) (hpos : 0 < m) :
    2 * ((n + half) / m * m) ≤ 2 * n + m ∧ 2 * n < 2 * ((n + half) / m * m) + m + 1 := by
  have hdm := Nat.div_add_mod (n + half) m
  have hlt := Nat.mod_lt (n + half) hpos
  rw [Nat.mul_comm] at hdm
  generalize (n + half) / m * m = rm at *
  generalize (n + half) % m = e at *
  omega

end ForML.Codec
