/-
C01 — the absolute-linkage component: what a run of link operations with pairwise distinct free targets does to
`Linkage._absolute` (general lemma `absRun_spec`).
-/
import ForML.Lemmas.C01Fold

namespace ForML.Flow
open CState Segment

/-- `Linkage._absolute[k][j]` -/
def slot (abs : AbsS) (k : Key) (j : Nat) : Option Key := ((aget k abs).getD []).getD j none

/-- target slot of a link operation -/
def Op.tgt : Op → Option (Key × Nat)
  | .linsert k _ i => some (k, i.getD 0)
  | .linsertC _ i => some (.committer, i)
  | _ => none

/-- linked argument -/
def Op.src : Op → Key
  | .linsert _ a _ => a
  | .linsertC a _ => a
  | _ => .committer

/-- `Linkage.insert` without index (single-argument instruction) -/
def Op.noIdx : Op → Bool
  | .linsert _ _ none => true
  | _ => false

theorem absStep_nolink {abs : AbsS} {op : Op} (h : op.tgt = none) : absStep abs op = some abs := by
  cases op <;> simp_all [Op.tgt, absStep]

theorem slot_aset (abs : AbsS) (k k' : Key) (j j' : Nat) (a : Key) :
    slot (aset k (CState.putAt ((aget k abs).getD []) j a) abs) k' j' =
      if k' = k ∧ j' = j then some a else slot abs k' j' := by
  unfold slot
  rw [aget_aset]
  by_cases hk : k = k'
  · subst hk
    simp only [if_true, Option.getD_some, putAt_getD, true_and]
  · have : ¬ (k' = k ∧ j' = j) := fun h => hk h.1.symm
    simp [hk, this]

/-- the entries of the map keep their last slot filled -/
def AllLastSome (abs : AbsS) : Prop := ∀ k l, aget k abs = some l → LastSome l

theorem absIns_ok {abs : AbsS} {k a : Key} {i : Option Nat} (hfree : slot abs k (i.getD 0) = none)
    (hz : i = none → aget k abs = none) :
    absIns abs k a i = some (aset k (CState.putAt ((aget k abs).getD []) (i.getD 0) a) abs) := by
  unfold absIns
  simp only
  have h1 : ¬ (i = none ∧ ¬ ((aget k abs).getD []).length ≤ 1) := by
    rintro ⟨hi, hl⟩
    rw [hz hi] at hl
    simp at hl
  have h2 : (((aget k abs).getD []).getD (i.getD 0) none).isSome = false := by
    unfold slot at hfree
    rw [hfree]; rfl
  rw [if_neg]
  rintro (h | h)
  · exact h1 h
  · rw [h2] at h; cases h

structure AbsSpec (abs abs' : AbsS) (ops : List Op) : Prop where
  written : ∀ op ∈ ops, ∀ k j, op.tgt = some (k, j) → slot abs' k j = some op.src
  kept : ∀ k j a, slot abs k j = some a → slot abs' k j = some a
  sound : ∀ k j a, slot abs' k j = some a → slot abs k j = some a ∨ ∃ op ∈ ops, op.tgt = some (k, j) ∧ op.src = a
  keys : ∀ k, k ∈ abs'.map (·.1) ↔ k ∈ abs.map (·.1) ∨ ∃ op ∈ ops, ∃ j, op.tgt = some (k, j)
  nodup : (abs.map (·.1)).Nodup → (abs'.map (·.1)).Nodup
  last : AllLastSome abs → AllLastSome abs'

theorem absRun_spec (ops : List Op) : ∀ (abs : AbsS),
    (∀ op ∈ ops, ∀ k j, op.tgt = some (k, j) → slot abs k j = none) →
    (ops.filterMap Op.tgt).Nodup →
    (∀ op ∈ ops, op.noIdx = true → ∀ k j, op.tgt = some (k, j) →
      aget k abs = none ∧ ∀ op' ∈ ops, ∀ j', op'.tgt = some (k, j') → j' = 0) →
    ∃ abs', absRun abs ops = some abs' ∧ AbsSpec abs abs' ops := by
  induction ops with
  | nil =>
    intro abs _ _ _
    exact ⟨abs, rfl, ⟨fun _ h => (by cases h), fun _ _ _ h => h, fun _ _ _ h => Or.inl h,
      fun k => (by simp), fun h => h, fun h => h⟩⟩
  | cons op r ih =>
    intro abs hF hN hZ
    cases htgt : op.tgt with
    | none =>
      have hN' : (r.filterMap Op.tgt).Nodup := by simpa [List.filterMap_cons, htgt] using hN
      obtain ⟨abs', hrun, hspec⟩ := ih abs (fun o ho => hF o (List.mem_cons_of_mem _ ho)) hN'
        (fun o ho hn k j ht => ⟨(hZ o (List.mem_cons_of_mem _ ho) hn k j ht).1,
          fun o' ho' => (hZ o (List.mem_cons_of_mem _ ho) hn k j ht).2 o' (List.mem_cons_of_mem _ ho')⟩)
      refine ⟨abs', by simp [absRun, absStep_nolink htgt, hrun], ?_⟩
      refine ⟨?_, hspec.kept, ?_, ?_, hspec.nodup, hspec.last⟩
      · intro o ho k j ht
        rcases List.mem_cons.mp ho with rfl | ho
        · rw [htgt] at ht; cases ht
        · exact hspec.written o ho k j ht
      · intro k j a h
        rcases hspec.sound k j a h with h | ⟨o, ho, h⟩
        · exact Or.inl h
        · exact Or.inr ⟨o, List.mem_cons_of_mem _ ho, h⟩
      · intro k
        rw [hspec.keys k]
        constructor
        · rintro (h | ⟨o, ho, h⟩)
          · exact Or.inl h
          · exact Or.inr ⟨o, List.mem_cons_of_mem _ ho, h⟩
        · rintro (h | ⟨o, ho, j, h⟩)
          · exact Or.inl h
          · rcases List.mem_cons.mp ho with rfl | ho
            · rw [htgt] at h; cases h
            · exact Or.inr ⟨o, ho, j, h⟩
    | some t =>
      obtain ⟨k0, j0⟩ := t
      -- the step itself
      have hN' : (k0, j0) ∉ r.filterMap Op.tgt ∧ (r.filterMap Op.tgt).Nodup := by
        simpa [List.filterMap_cons, htgt] using hN
      obtain ⟨a0, i0, hop, hj0⟩ : ∃ a0 i0, absStep abs op = absIns abs k0 a0 i0 ∧ i0.getD 0 = j0 ∧ op.src = a0
          ∧ (i0 = none → op.noIdx = true) := by
        cases op with
        | linsert k a i =>
          simp only [Op.tgt, Option.some.injEq, Prod.mk.injEq] at htgt
          obtain ⟨rfl, rfl⟩ := htgt
          exact ⟨a, i, rfl, rfl, rfl, fun h => by subst h; rfl⟩
        | linsertC a i =>
          simp only [Op.tgt, Option.some.injEq, Prod.mk.injEq] at htgt
          obtain ⟨rfl, rfl⟩ := htgt
          exact ⟨a, some i, rfl, rfl, rfl, fun h => by cases h⟩
        | _ => simp [Op.tgt] at htgt
      obtain ⟨hj0, hsrc, hni⟩ := hj0
      have hfree : slot abs k0 (i0.getD 0) = none := by rw [hj0]; exact hF op List.mem_cons_self k0 j0 htgt
      have hz : i0 = none → aget k0 abs = none := fun h => (hZ op List.mem_cons_self (hni h) k0 j0 htgt).1
      have hins := absIns_ok (a := a0) hfree hz
      rw [hj0] at hins
      generalize habs1 : aset k0 (CState.putAt ((aget k0 abs).getD []) j0 a0) abs = abs1 at hins
      have hslot1 : ∀ k j, slot abs1 k j = if k = k0 ∧ j = j0 then some a0 else slot abs k j := by
        intro k j; rw [← habs1]; exact slot_aset abs k0 k j0 j a0
      -- tail
      have hF1 : ∀ o ∈ r, ∀ k j, o.tgt = some (k, j) → slot abs1 k j = none := by
        intro o ho k j ht
        rw [hslot1]
        have hne : ¬ (k = k0 ∧ j = j0) := by
          rintro ⟨rfl, rfl⟩
          exact hN'.1 (List.mem_filterMap.mpr ⟨o, ho, ht⟩)
        simp only [hne, if_false]
        exact hF o (List.mem_cons_of_mem _ ho) k j ht
      have hZ1 : ∀ o ∈ r, o.noIdx = true → ∀ k j, o.tgt = some (k, j) →
          aget k abs1 = none ∧ ∀ o' ∈ r, ∀ j', o'.tgt = some (k, j') → j' = 0 := by
        intro o ho hn k j ht
        have hz0 := hZ o (List.mem_cons_of_mem _ ho) hn k j ht
        refine ⟨?_, fun o' ho' => hz0.2 o' (List.mem_cons_of_mem _ ho')⟩
        rw [← habs1, aget_aset]
        have hne : k0 ≠ k := by
          rintro rfl
          have h1 := hz0.2 op List.mem_cons_self j0 htgt
          have h2 := hz0.2 o (List.mem_cons_of_mem _ ho) j ht
          subst h1 h2
          exact hN'.1 (List.mem_filterMap.mpr ⟨o, ho, ht⟩)
        simp only [hne, if_false]
        exact hz0.1
      obtain ⟨abs', hrun, hspec⟩ := ih abs1 hF1 hN'.2 hZ1
      refine ⟨abs', by simp [absRun, hop, hins, hrun], ?_⟩
      refine ⟨?_, ?_, ?_, ?_, ?_, ?_⟩
      · intro o ho k j ht
        rcases List.mem_cons.mp ho with rfl | ho
        · rw [htgt] at ht; cases ht
          rw [hsrc]
          exact hspec.kept _ _ a0 (by rw [hslot1]; simp)
        · exact hspec.written o ho k j ht
      · intro k j a h
        apply hspec.kept
        rw [hslot1]
        have hne : ¬ (k = k0 ∧ j = j0) := by
          rintro ⟨rfl, rfl⟩
          rw [hF op List.mem_cons_self k j htgt] at h; cases h
        simp only [hne, if_false]; exact h
      · intro k j a h
        rcases hspec.sound k j a h with h | ⟨o, ho, h⟩
        · rw [hslot1] at h
          split at h
          · rename_i heq
            cases h
            exact Or.inr ⟨op, List.mem_cons_self, by rw [htgt, heq.1, heq.2], hsrc⟩
          · exact Or.inl h
        · exact Or.inr ⟨o, List.mem_cons_of_mem _ ho, h⟩
      · intro k
        rw [hspec.keys k, ← habs1, aset_keys_mem]
        constructor
        · rintro ((rfl | h) | ⟨o, ho, h⟩)
          · exact Or.inr ⟨op, List.mem_cons_self, j0, htgt⟩
          · exact Or.inl h
          · exact Or.inr ⟨o, List.mem_cons_of_mem _ ho, h⟩
        · rintro (h | ⟨o, ho, j, h⟩)
          · exact Or.inl (Or.inr h)
          · rcases List.mem_cons.mp ho with rfl | ho
            · rw [htgt] at h; cases h; exact Or.inl (Or.inl rfl)
            · exact Or.inr ⟨o, ho, j, h⟩
      · intro h
        apply hspec.nodup
        rw [← habs1]
        exact aset_keys_nodup h
      · intro h
        apply hspec.last
        intro k l hl
        rw [← habs1, aget_aset] at hl
        split at hl
        · cases hl
          apply lastSome_putAt
          cases hg : aget k0 abs with
          | none => exact Or.inl rfl
          | some l0 => exact h k0 l0 hg
        · exact h k l hl

end ForML.Flow
