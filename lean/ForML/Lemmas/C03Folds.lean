/-
C03 — helper lemmas: the fold loop of `Ensembler.compose` (`foldsLoop`): the scope is expanded once per fold on that
fold's train part; a copy of its apply segment is fed with the held-out part.
-/
import ForML.Lemmas.C03Coll

namespace ForML.Compose

/-- what a loop of the ensemble leaves behind (relative to its start graph, all rounds on the same rank `rr`).
`X`: the older collector nodes whose input ports the loop subscribes; everything else older is untouched. -/
structure LoopOk (X : Nat → Prop) (lo : Nat) (g g' : Graph) (W W' : World) (rr : Nat) : Prop where
  inv : Inv g' W'
  wired : Wired g'
  next_le : g.next ≤ g'.next
  kind : ∀ u, u < g.next → g'.kindOf u = g.kindOf u
  input : ∀ u k, u < g.next → ¬ X u → g'.inputOf u k = g.inputOf u k
  inputMono : ∀ u k q, g.inputOf u k = some q → g'.inputOf u k = some q
  trainer : ∀ gid, gid < g.next → g'.trainerOf gid = g.trainerOf gid
  agree : Agree g.next W W'
  rank : ∀ n, g.next ≤ n → W'.live n → W'.h n < rr + (g'.next - g.next)
  /-- the new evaluable workers belong to groups created since `lo` (the start of the whole operator) -/
  fresh : ∀ n, g.next ≤ n → W'.live n → ∀ gid a i o, g'.kindOf n = some (.worker gid a i o) → lo ≤ gid
  noOpen : ∀ n, g.next ≤ n → W'.live n → ¬ g'.isOpen n

theorem LoopOk.refl {X : Nat → Prop} {lo : Nat} {g : Graph} {W : World} (hi : Inv g W) (hw : Wired g) (rr : Nat) :
    LoopOk X lo g g W W rr :=
  ⟨hi, hw, Nat.le_refl _, fun _ _ => rfl, fun _ _ _ _ => rfl, fun _ _ _ h => h, fun _ _ => rfl, Agree.refl _ _,
    fun n hn hl => by have := (hi.liveLt n hl).1; omega,
    fun n hn hl => by have := (hi.liveLt n hl).1; omega, fun n hn hl => by have := (hi.liveLt n hl).1; omega⟩

theorem LoopOk.trans' {X X' : Nat → Prop} {lo : Nat} {g1 g2 g3 : Graph} {W1 W2 W3 : World} {rr : Nat}
    (h12 : LoopOk X lo g1 g2 W1 W2 rr) (h23 : LoopOk X' lo g2 g3 W2 W3 rr) (hX : ∀ u, u < g1.next → X' u → X u) :
    LoopOk X lo g1 g3 W1 W3 rr := by
  have n12 := h12.next_le
  have n23 := h23.next_le
  refine ⟨h23.inv, h23.wired, by omega, fun u hu => by rw [h23.kind u (by omega), h12.kind u hu],
    fun u k hu hx => by rw [h23.input u k (by omega) (fun h => hx (hX u hu h)), h12.input u k hu hx],
    fun u k q h => h23.inputMono u k q (h12.inputMono u k q h),
    fun gid hg => by rw [h23.trainer gid (by omega), h12.trainer gid hg], h12.agree.trans h23.agree n12, ?_, ?_, ?_⟩
  · intro n hn hl
    by_cases h2 : n < g2.next
    · have := h12.rank n hn (((h23.agree n h2).1).mp hl)
      rw [(h23.agree n h2).2.1]; omega
    · have := h23.rank n (by omega) hl; omega
  · intro n hn hl gid a i o hk
    by_cases h2 : n < g2.next
    · rw [h23.kind n h2] at hk
      exact h12.fresh n hn (((h23.agree n h2).1).mp hl) gid a i o hk
    · exact h23.fresh n (by omega) hl gid a i o hk
  · intro n hn hl ho
    by_cases h2 : n < g2.next
    · refine h12.noOpen n hn (((h23.agree n h2).1).mp hl) ⟨by rw [← h23.kind n h2]; exact ho.1, ?_⟩
      cases h : g2.inputOf n 0 with
      | none => rfl
      | some q => have := h23.inputMono _ _ _ h; rw [ho.2] at this; cases this
    · exact h23.noOpen n (by omega) hl ho

theorem LoopOk.trans {X : Nat → Prop} {lo : Nat} {g1 g2 g3 : Graph} {W1 W2 W3 : World} {rr : Nat}
    (h12 : LoopOk X lo g1 g2 W1 W2 rr) (h23 : LoopOk X lo g2 g3 W2 W3 rr) : LoopOk X lo g1 g3 W1 W3 rr :=
  h12.trans' h23 (fun _ _ h => h)

theorem LoopOk.weaken {X X' : Nat → Prop} {lo : Nat} {g g' : Graph} {W W' : World} {rr rr' : Nat}
    (h : LoopOk X lo g g' W W' rr) (hX : ∀ u, X u → X' u) (hr : rr ≤ rr') : LoopOk X' lo g g' W W' rr' :=
  ⟨h.inv, h.wired, h.next_le, h.kind, fun u k hu hx => h.input u k hu (fun hx' => hx (hX u hx')), h.inputMono, h.trainer, h.agree,
    fun n hn hl => by have := h.rank n hn hl; omega, h.fresh, h.noOpen⟩

theorem LoopOk.ofFrame {X : Nat → Prop} {lo : Nat} {g g' : Graph} {W W' : World} {rr : Nat} (hlo : lo ≤ g.next) (hi : Inv g W) (inv : Inv g' W')
    (wired : Wired g') (frame : Frame g g') (agree : Agree g.next W W')
    (rank : ∀ n, g.next ≤ n → W'.live n → W'.h n < rr + (g'.next - g.next))
    (fresh : ∀ n, g.next ≤ n → W'.live n → ∀ gid a i o, g'.kindOf n = some (.worker gid a i o) → g.next ≤ gid)
    (noOpen : ∀ n, g.next ≤ n → W'.live n → ¬ g'.isOpen n) : LoopOk X lo g g' W W' rr :=
  ⟨inv, wired, frame.next_le, frame.kind, fun u k hu _ => frame.input u k hu, frame.input_mono hi.bounded, frame.trainer, agree,
    rank, fun n hn hl gid a i o hk => by have := fresh n hn hl gid a i o hk; omega, noOpen⟩

theorem IterOk.loop {X : Nat → Prop} {lo : Nat} {g g' : Graph} {W W' : World} {t c rr s vc} (hlo : lo ≤ g.next) (hi : Inv g W)
    (h : IterOk g g' W W' t c rr s vc) : LoopOk X lo g g' W W' rr :=
  LoopOk.ofFrame hlo hi h.inv h.wired h.frame h.agree h.rank h.fresh h.noOpen

/-- a loop that subscribes no older collector is a frame -/
theorem LoopOk.toFrame {lo : Nat} {g g' : Graph} {W W' : World} {rr : Nat} (h : LoopOk (fun _ => False) lo g g' W W' rr) :
    Frame g g' :=
  ⟨h.next_le, h.kind, fun u k hu => h.input u k hu (fun x => x), h.trainer⟩

/-- a loop whose collectors were created after `gb` leaves `gb` untouched -/
theorem LoopOk.frameFrom {X : Nat → Prop} {lo : Nat} {gb g g' : Graph} {W W' : World} {rr : Nat} (h : LoopOk X lo g g' W W' rr)
    (hf : Frame gb g) (hX : ∀ x, X x → gb.next ≤ x) : Frame gb g' := by
  have h1 := hf.next_le
  have h2 := h.next_le
  refine ⟨by omega, ?_, ?_, ?_⟩
  · intro u hu; rw [h.kind u (by omega), hf.kind u hu]
  · intro u k hu
    rw [h.input u k (by omega) (fun hx => by have := hX u hx; omega), hf.input u k hu]
  · intro gid hg; rw [h.trainer gid (by omega), hf.trainer gid hg]

/-- where the four publishers of a fold lie relative to the apply head `a` of the ensemble: the fold's apply output
is on the apply side, its train and label outputs and the held-out copy are not -/
structure FoldReach (g : Graph) (a lo : Nat) (f : Fold) : Prop where
  ta : Reach g a f.trainApply.node
  tt : ¬ Reach g a f.trainTrain.node
  tl : ¬ Reach g a f.trainLabel.node
  tx : ¬ Reach g a f.testTrain.node
  ge : lo ≤ f.trainApply.node ∧ lo ≤ f.trainTrain.node ∧ lo ≤ f.trainLabel.node ∧ lo ≤ f.testTrain.node
  lt : f.trainApply.node < g.next ∧ f.trainTrain.node < g.next ∧ f.trainLabel.node < g.next ∧ f.testTrain.node < g.next

theorem FoldReach.frame {g g' : Graph} {a lo : Nat} {f : Fold} (h : FoldReach g a lo f) (hf : Frame g g') (hw : Wired g)
    (hb : Bounded g) : FoldReach g' a lo f := by
  have := hf.next_le
  obtain ⟨l1, l2, l3, l4⟩ := h.lt
  exact ⟨h.ta.mono (hf.input_mono hb), fun x => h.tt (Reach.old hf hw l2 x), fun x => h.tl (Reach.old hf hw l3 x),
    fun x => h.tx (Reach.old hf hw l4 x), h.ge, ⟨by omega, by omega, by omega, by omega⟩⟩

/-- a publisher established before a loop is still one after it -/
theorem PubOk.loop {X : Nat → Prop} {lo : Nat} {g g' : Graph} {W W' : World} {rr : Nat} (hl : LoopOk X lo g g' W W' rr) (hi : Inv g W) {q : PubRef} {r : Nat}
    {v : Val} (h : PubOk W q r v) : PubOk W' q r v :=
  h.agree hl.agree (hi.liveLt _ h.live).1

theorem PubOk.mono {W : World} {q : PubRef} {r r' : Nat} {v : Val} (h : PubOk W q r v) (hr : r ≤ r') : PubOk W q r' v :=
  ⟨h.live, by have := h.rank; omega, h.val⟩

/-- the values the publishers of the folds carry: fold `k` of the list is fold number `k0 + k` -/
def FoldsVal (W : World) (R : Nat) (foldSem : Nat → Sem) (testV : Nat → Val) (lfuid : Nat) : Nat → List Fold → Prop
  | _, [] => True
  | k, f :: rest =>
    PubOk W f.trainApply R (foldSem k).apply ∧ PubOk W f.trainTrain R (foldSem k).train ∧
      PubOk W f.trainLabel R (foldSem k).label ∧ PubOk W f.testTrain R (testV k) ∧ f.testLabel = ⟨lfuid, 2 * k + 1⟩ ∧
      FoldsVal W R foldSem testV lfuid (k + 1) rest

theorem FoldsVal.mono {W W' : World} {R R' : Nat} {foldSem testV lfuid} (hR : R ≤ R')
    (hp : ∀ q r v, PubOk W q r v → PubOk W' q r v) : ∀ (fs : List Fold) (k : Nat),
    FoldsVal W R foldSem testV lfuid k fs → FoldsVal W' R' foldSem testV lfuid k fs := by
  intro fs
  induction fs with
  | nil => intro k _; trivial
  | cons f rest ih =>
    intro k h
    obtain ⟨h1, h2, h3, h4, h5, h6⟩ := h
    exact ⟨(hp _ _ _ h1).mono hR, (hp _ _ _ h2).mono hR, (hp _ _ _ h3).mono hR, (hp _ _ _ h4).mono hR, h5, ih _ h6⟩

/-- the publishers the folds are fed from -/
structure SplitPubs (W : World) (head : Trunk) (ffuid lfuid rr : Nat) (xa feats labs : Val) : Prop where
  apply : PubOk W head.apply.publisher rr xa
  feat : ∀ i, PubOk W ⟨ffuid, i⟩ rr (.proj i feats)
  lab : ∀ i, PubOk W ⟨lfuid, i⟩ rr (.proj i labs)

theorem foldsLoop_spec {scope : GraphM Trunk} {S : Scope} (hs : Spec True scope S) (hS : S.Indep) (head : Trunk)
    (ff lf : WRef) (rr lo : Nat) (xa feats labs : Val) (gb : Graph) (a : Nat) (hwb : Wired gb) (hbb : Bounded gb)
    (ha : a < gb.next) (hra : Reach gb a head.apply.publisher.node) (hrf : ¬ Reach gb a ff.uid) (hrl : ¬ Reach gb a lf.uid)
    (hbd : (lo ≤ head.apply.publisher.node ∧ head.apply.publisher.node < gb.next) ∧ (lo ≤ ff.uid ∧ ff.uid < gb.next) ∧
      (lo ≤ lf.uid ∧ lf.uid < gb.next)) :
    ∀ (remaining fid : Nat) (g : Graph) (W : World), Inv g W → Wired g → rr ≤ g.next → lo ≤ g.next →
      SplitPubs W head ff.uid lf.uid rr xa feats labs → Frame gb g → AReg a lo gb.next gb.next g W →
      ∃ folds g' W', Run (foldsLoop scope head ff lf remaining fid) g folds g' ∧ LoopOk (fun _ => False) lo g g' W W' rr ∧
        folds.length = remaining ∧
        FoldsVal W' (rr + (g'.next - g.next))
          (fun k => S xa (.proj (2 * k) feats) (.proj (2 * k) labs))
          (fun k => (S (.proj (2 * k + 1) feats) (.proj (2 * k) feats) (.proj (2 * k) labs)).apply) lf.uid fid folds ∧
        AReg a lo gb.next gb.next g' W' ∧ (∀ f ∈ folds, FoldReach g' a lo f) ∧
        ∃ ts, g'.trains = g.trains ++ ts ∧ (∀ x ∈ ts, W'.live x.train.node ∧ W'.live x.label.node) ∧
          ts.map (trainedUnder W') =
            (List.range remaining).flatMap (fun j => (S xa (.proj (2 * (fid + j)) feats) (.proj (2 * (fid + j)) labs)).states) := by
  intro remaining
  induction remaining with
  | zero =>
    intro fid g W hi hw _ _ _ _ hareg
    refine ⟨[], g, W, rfl, LoopOk.refl hi hw rr, rfl, trivial, hareg, (fun f hf => by cases hf), [], ?_, ?_, rfl⟩
    · simp
    · intro x hx; cases hx
  | succ remaining ih =>
    intro fid g W hi hw hrr hlo hp hfb hareg
    obtain ⟨t, c, g1, g2, g3, g4, g5, g6, W6, r1, r2, r3, r4, r5, r6, hit, hext⟩ :=
      iterV1 hs hS hi hw rr hrr hp.apply (hp.feat (2 * fid)) (hp.lab (2 * fid)) (hp.feat (2 * fid + 1))
    have hl6 : LoopOk (fun _ => False) lo g g6 W W6 rr := hit.loop hlo hi
    have hn6 := hit.frame.next_le
    have hnb := hfb.next_le
    have hp6 : SplitPubs W6 head ff.uid lf.uid rr xa feats labs :=
      ⟨hp.apply.loop hl6 hi, fun i => (hp.feat i).loop hl6 hi, fun i => (hp.lab i).loop hl6 hi⟩
    -- the apply side after this round
    have ireg : IterReg a g g6 W6 t c := hext.areg a (by omega) (hra.mono (hfb.input_mono hbb))
      (fun h => hrf (Reach.old hfb hwb hbd.2.1.2 h)) (fun h => hrl (Reach.old hfb hwb hbd.2.2.2 h))
      (fun h => hrf (Reach.old hfb hwb hbd.2.1.2 h))
    have hareg6 : AReg a lo gb.next gb.next g6 W6 := by
      refine hareg.step (X := fun _ => False) hfb hwb hw (fun x hx => hx.elim) (fun u k hu _ => hit.frame.input u k hu)
        (hit.frame.input_mono hi.bounded) hit.agree ?_ ireg.reg
      intro s k q hs' hq
      rcases hext.closed s k q hs' hq with h | h | h | h | h
      · exact Or.inl (by omega)
      · rw [h]; exact Or.inr hbd.1
      · rw [h]; exact Or.inr hbd.2.1
      · rw [h]; exact Or.inr hbd.2.2
      · rw [h]; exact Or.inr hbd.2.1
    obtain ⟨folds, g', W', hrun, hl', hlen, hfv, hareg', hfr', ts', hts', hlive', hmap'⟩ :=
      ih (fid + 1) g6 W6 hit.inv hit.wired (by omega) (by omega) hp6 (hfb.trans hit.frame) hareg6
    have hn' := hl'.next_le
    have hlt6 : ∀ n, W6.live n → n < g6.next := fun n hn => (hit.inv.liveLt n hn).1
    have keep : ∀ q r v, PubOk W6 q r v → PubOk W' q r v := fun q r v h => h.loop hl' hit.inv
    -- the four publishers of this fold
    have pub : ∀ (u : Nat) (v : Val), g.next ≤ u → W6.live u → W6.σ ⟨u, 0⟩ = v →
        PubOk W' ⟨u, 0⟩ (rr + (g'.next - g.next)) v := by
      intro u v hu hl hv
      have h6 : PubOk W6 ⟨u, 0⟩ (rr + (g6.next - g.next)) v := ⟨hl, hit.rank u hu hl, hv⟩
      exact (keep _ _ _ h6).mono (by omega)
    refine ⟨⟨t.apply.publisher, t.train.publisher, t.label.publisher, c.publisher, ⟨lf.uid, 2 * fid + 1⟩⟩ :: folds, g', W',
      ?_, hl6.trans hl', by simp [hlen], ?_, hareg', ?_, ?_⟩
    · unfold foldsLoop
      exact Run.bind r1 (Run.bind r2 (Run.bind r3 (Run.bind r4 (Run.bind r5 (Run.bind r6 (Run.bind hrun (Run.pure _ _)))))))
    · refine ⟨pub _ _ hit.tails_ge.1 hit.ta.1 hit.ta.2, pub _ _ hit.tails_ge.2.1 hit.tt.1 hit.tt.2,
        pub _ _ hit.tails_ge.2.2.1 hit.tl.1 hit.tl.2, pub _ _ hit.tails_ge.2.2.2 hit.tc.1 hit.tc.2, rfl, ?_⟩
      exact FoldsVal.mono (by omega) (fun q r v h => h) folds (fid + 1) hfv
    · intro f hf
      rcases List.mem_cons.mp hf with e | h
      · subst e
        have hf6' : Frame g6 g' := hl'.toFrame
        exact ⟨ireg.ta.mono hl'.inputMono, fun x => ireg.tt (Reach.old hf6' hit.wired (hlt6 _ hit.tt.1) x),
          fun x => ireg.tl (Reach.old hf6' hit.wired (hlt6 _ hit.tl.1) x),
          fun x => ireg.tc (Reach.old hf6' hit.wired (hlt6 _ hit.tc.1) x),
          ⟨by have := hit.tails_ge.1; show lo ≤ t.apply.tail; omega, by have := hit.tails_ge.2.1; show lo ≤ t.train.tail; omega,
            by have := hit.tails_ge.2.2.1; show lo ≤ t.label.tail; omega,
            by have := hit.tails_ge.2.2.2; show lo ≤ c.tail; omega⟩,
          ⟨by have := hlt6 _ hit.ta.1; show t.apply.tail < g'.next; omega, by have := hlt6 _ hit.tt.1; show t.train.tail < g'.next; omega,
            by have := hlt6 _ hit.tl.1; show t.label.tail < g'.next; omega,
            by have := hlt6 _ hit.tc.1; show c.tail < g'.next; omega⟩⟩
      · exact hfr' f h
    · obtain ⟨ts6, hts6, hlive6, hmap6⟩ := hit.trains
      refine ⟨ts6 ++ ts', by rw [hts', hts6, List.append_assoc], ?_, ?_⟩
      · intro x hx
        rcases List.mem_append.mp hx with h | h
        · obtain ⟨x1, x2⟩ := hlive6 x h
          exact ⟨((hl'.agree _ (hlt6 _ x1)).1).mpr x1, ((hl'.agree _ (hlt6 _ x2)).1).mpr x2⟩
        · exact hlive' x h
      · rw [List.map_append, hmap', List.range_succ_eq_map, List.flatMap_cons, List.flatMap_map]
        congr 1
        · simp only [Nat.add_zero]
          rw [← hmap6]
          apply List.map_congr_left
          intro x hx
          obtain ⟨x1, x2⟩ := hlive6 x hx
          unfold trainedUnder
          rw [hl'.agree.σ _ (hlt6 _ x1), hl'.agree.σ _ (hlt6 _ x2)]
        · apply flatMap_congr'
          intro j _
          have : fid + 1 + j = fid + (j + 1) := by omega
          simp only [Function.comp, this]

end ForML.Compose
