/-
C10 — "bounds are interpreted in the ordinal column's kind" for Integer ordinals of any magnitude:
`Integer.cast` of a written bound (canonical decimal string) is the written integer, exactly, for
every `Int` — so casting commutes with the order and window membership after casting is membership
of the written bound.  A detour through binary64 is refuted from 2^53 on.
-/
import ForML.Model.OrdinalInt

namespace ForML.Ordinal

/-! ### digits -/

private theorem digit_roundtrip : ∀ d : Fin 10, digitVal (digitChar d.val) = some d.val := by decide

private theorem digit_not_sign : ∀ d : Fin 10, digitChar d.val ≠ '-' ∧ digitChar d.val ≠ '+' := by decide

private def ofRev : List Nat → Nat
  | [] => 0
  | d :: r => d + 10 * ofRev r

private theorem digitsRev_value (fuel n : Nat) (h : n < fuel) : ofRev (digitsRev fuel n) = n := by
  induction fuel generalizing n with
  | zero => omega
  | succ f ih =>
    unfold digitsRev
    split
    · simp [ofRev]
    · rename_i hn
      have := ih (n / 10) (by omega)
      simp only [ofRev, this]
      omega

private theorem digitsRev_lt (fuel n : Nat) : ∀ d ∈ digitsRev fuel n, d < 10 := by
  induction fuel generalizing n with
  | zero => intro d hd; simp [digitsRev] at hd
  | succ f ih =>
    intro d hd
    unfold digitsRev at hd
    split at hd
    · simp at hd; omega
    · simp only [List.mem_cons] at hd
      rcases hd with e | hd
      · omega
      · exact ih _ d hd

private theorem digitsRev_ne_nil (fuel n : Nat) : digitsRev (fuel + 1) n ≠ [] := by
  unfold digitsRev; split <;> simp

private theorem parseDigits_map (ds : List Nat) (h : ∀ d ∈ ds, d < 10) (acc : Nat) :
    parseDigits (ds.map digitChar) acc = some (ds.foldl (fun a d => a * 10 + d) acc) := by
  induction ds generalizing acc with
  | nil => rfl
  | cons d r ih =>
    have hd : d < 10 := h d (by simp)
    have := digit_roundtrip ⟨d, hd⟩
    simp only [List.map_cons, parseDigits, this, List.foldl_cons]
    exact ih (fun x hx => h x (List.mem_cons_of_mem d hx)) _

private theorem foldr_ofRev (l : List Nat) : l.foldr (fun d a => a * 10 + d) 0 = ofRev l := by
  induction l with
  | nil => rfl
  | cons d r ih => simp only [List.foldr_cons, ih, ofRev]; omega

/-- `int(str(n)) = n` for every natural number -/
theorem C10_nat_parse_render (n : Nat) : parseNat (renderNat n) = some n := by
  unfold renderNat
  have hne : (digitsRev (n + 1) n).reverse ≠ [] := by
    simpa using digitsRev_ne_nil n n
  have hlt : ∀ d ∈ (digitsRev (n + 1) n).reverse, d < 10 := by
    intro d hd; exact digitsRev_lt _ _ d (by simpa using hd)
  have hp := parseDigits_map _ hlt 0
  rw [List.foldl_reverse, foldr_ofRev, digitsRev_value _ _ (by omega)] at hp
  cases hm : (digitsRev (n + 1) n).reverse with
  | nil => exact absurd hm hne
  | cons d r =>
    rw [hm] at hp
    simpa [parseNat] using hp

private theorem renderNat_head (n : Nat) :
    ∃ c r, renderNat n = c :: r ∧ c ≠ '-' ∧ c ≠ '+' := by
  unfold renderNat
  have hne : (digitsRev (n + 1) n).reverse ≠ [] := by simpa using digitsRev_ne_nil n n
  cases hm : (digitsRev (n + 1) n).reverse with
  | nil => exact absurd hm hne
  | cons d r =>
    have hd : d < 10 := digitsRev_lt (n + 1) n d (by
      have : d ∈ (digitsRev (n + 1) n).reverse := by rw [hm]; simp
      simpa using this)
    have := digit_not_sign ⟨d, hd⟩
    exact ⟨digitChar d, r.map digitChar, by simp, this.1, this.2⟩

/-- **`int(str(n)) = n` for every integer**: the parse of the decimal string is exact on unbounded
`Int` — no magnitude at which the written bound and the cast bound differ -/
theorem C10_int_parse_render (n : Int) : parseIntStr (renderInt n) = some n := by
  cases n with
  | ofNat m =>
    obtain ⟨c, r, hr, h1, h2⟩ := renderNat_head m
    have hp := C10_nat_parse_render m
    simp only [renderInt]
    rw [hr] at hp ⊢
    unfold parseIntStr
    split
    · rename_i heq; simp at heq; exact absurd heq.1 h1
    · rename_i heq; simp at heq; exact absurd heq.1 h2
    · simp [hp]
  | negSucc m =>
    simp only [renderInt, parseIntStr, C10_nat_parse_render, Option.map_some]
    rfl

/-! ### `Integer.cast` -/

/-- a bound written as a decimal string is cast to the integer it writes -/
theorem C10_int_cast_written (n : Int) : castInteger (.str (renderInt n)) = .ok n := by
  simp [castInteger, C10_int_parse_render]

/-- an Integral instance is left alone -/
theorem C10_int_cast_native (n : Int) : castInteger (.int n) = .ok n := rfl

/-- **casting commutes with the order**: on written bounds the cast is monotone and injective -/
theorem C10_int_cast_monotone_injective (a b x y : Int)
    (ha : castInteger (.str (renderInt a)) = .ok x) (hb : castInteger (.str (renderInt b)) = .ok y) :
    (x ≤ y ↔ a ≤ b) ∧ (x < y ↔ a < b) ∧ (x = y ↔ a = b) := by
  rw [C10_int_cast_written] at ha hb
  cases ha; cases hb
  exact ⟨Iff.rfl, Iff.rfl, Iff.rfl⟩

/-- … and the string spelling and the native spelling of a bound denote the same point -/
theorem C10_int_cast_str_eq_native (n : Int) :
    castInteger (.str (renderInt n)) = castInteger (.int n) := by
  rw [C10_int_cast_written]; rfl

/-- **window membership after casting = membership of the written bounds**, for every semantic,
all bounds and every record ordinal (any magnitude) -/
theorem C10_int_window_written (sem : Once) (lo hi x : Int) :
    ∃ lo' hi', castInteger (.str (renderInt lo)) = .ok lo' ∧ castInteger (.str (renderInt hi)) = .ok hi' ∧
      inWindow sem (some lo') (some hi') x = inWindow sem (some lo) (some hi) x :=
  ⟨lo, hi, C10_int_cast_written lo, C10_int_cast_written hi, rfl⟩

/-- a float / Decimal with an integral value `n` (= `n·d / d`) is cast to `n` -/
theorem C10_int_ratio_integral (n : Int) (d : Nat) (hd : 0 < d) :
    castInteger (.ratio (n * Int.ofNat d) d) = .ok n := by
  have h0 : d ≠ 0 := by omega
  have hz : (Int.ofNat d) ≠ 0 := by simp; omega
  simp [castInteger, h0]

/-- a fractional one is truncated towards zero (non-negative case: floor) -/
theorem C10_int_ratio_trunc (n : Int) (d : Nat) (hd : 0 < d) (hn : 0 ≤ n) :
    ∃ q, castInteger (.ratio n d) = .ok q ∧ q * Int.ofNat d ≤ n ∧ n < (q + 1) * Int.ofNat d := by
  have h0 : d ≠ 0 := by omega
  refine ⟨Int.tdiv n (Int.ofNat d), by simp [castInteger, h0], ?_, ?_⟩
  · have h1 := Int.mul_tdiv_add_tmod n (Int.ofNat d)
    have h2 := Int.tmod_nonneg (Int.ofNat d) hn
    rw [Int.mul_comm]
    omega
  · have h1 := Int.mul_tdiv_add_tmod n (Int.ofNat d)
    have h3 := Int.tmod_lt_of_pos n (show (0 : Int) < Int.ofNat d by simp; omega)
    rw [Int.add_mul, Int.mul_comm]
    omega

/-- what `int()` refuses is refused: exponent and fractional spellings, the empty string, a bare sign -/
theorem C10_int_refused :
    castInteger (.str "1e6".toList) = .error .castError ∧ castInteger (.str "10.0".toList) = .error .castError ∧
    castInteger (.str "2.7".toList) = .error .castError ∧ castInteger (.str "".toList) = .error .castError ∧
    castInteger (.str "-".toList) = .error .castError ∧ castInteger .other = .error .castError ∧
    castInteger (.ratio 1 0) = .error .castError := by
  decide

/-! ### a detour through a double is not the cast -/

/-- `int(float(s))` is not exact: 2^53 + 1 is cast to 2^53 -/
theorem C10_int_via_double_counterexample :
    ¬ (∀ n : Int, castIntegerViaDouble (.str (renderInt n)) = .ok n) := by
  intro h
  have := h 9007199254740993
  revert this
  decide +kernel

/-- … and windows lose records: with the bounds `'9007199254740991'`, `'9007199254740993'` cast
through a double the exactly-once window no longer contains 9007199254740992 -/
theorem C10_int_via_double_window_counterexample :
    ¬ (∀ (sem : Once) (lo hi x lo' hi' : Int),
        castIntegerViaDouble (.str (renderInt lo)) = .ok lo' → castIntegerViaDouble (.str (renderInt hi)) = .ok hi' →
        inWindow sem (some lo') (some hi') x = inWindow sem (some lo) (some hi) x) := by
  intro h
  have := h .exactly 9007199254740991 9007199254740993 9007199254740992 9007199254740991 9007199254740992
    (by decide +kernel) (by decide +kernel)
  revert this
  decide +kernel

/-- below 2^53 the detour is invisible (why small-domain tests cannot tell) -/
theorem C10_int_via_double_small (n : Nat) (h : n < 2 ^ 53) : toDoubleNat n = n := by
  unfold toDoubleNat
  by_cases h0 : n = 0
  · simp [h0]
  · have : Nat.log2 n + 1 ≤ 53 := by
      have := (Nat.log2_lt h0).mpr h
      omega
    simp [h0, this]

/-! ### non-vacuity (tests) -/

example : renderInt (-9223372036854775808) = "-9223372036854775808".toList := by decide +kernel
example : parseIntStr "+0012".toList = some 12 := by decide
example : castInteger (.str "9007199254740993".toList) = .ok 9007199254740993 := by decide +kernel
example : castIntegerViaDouble (.str "9007199254740993".toList) = .ok 9007199254740992 := by decide +kernel
example : castInteger (.ratio 5 2) = .ok 2 ∧ castInteger (.ratio (-5) 2) = .ok (-2) := by decide
example : toDouble 9007199254740995 = 9007199254740996 := by decide +kernel

end ForML.Ordinal
