/-
Helper lemmas for C09: the source skeleton `parse` (`Model/Matcher.lean`) is a sound abstraction of the parser
machine `visitS` / `parseFull` (`Model/MatcherParser.lean`) for every concrete parser (`Hooks`): the machine gets
through only if the skeleton does, and the unprovisioned source it reports is the one the skeleton reports.
Core Lean only.
-/
import ForML.Model.MatcherParser
import ForML.Lemmas.C09

namespace ForML.Matcher

open ForML.Dsl

variable {σ τ : Type}

/-! ### the `Except` monad -/

theorem bind_ok {α β : Type} {x : Except PErr α} {f : α → Except PErr β} {b : β} (h : (x >>= f) = .ok b) :
    ∃ a, x = .ok a ∧ f a = .ok b := by
  cases x with
  | error e => cases h
  | ok a => exact ⟨a, rfl, h⟩

theorem bind_error {α β : Type} {x : Except PErr α} {f : α → Except PErr β} {e : PErr} (h : (x >>= f) = .error e) :
    x = .error e ∨ ∃ a, x = .ok a ∧ f a = .error e := by
  cases x with
  | error e' =>
    left
    cases h
    rfl
  | ok a => exact Or.inr ⟨a, rfl, h⟩

/-- the computation never raises the unprovisioned-*source* error -/
def NoUnprov {α : Type} (x : Except PErr α) : Prop := ∀ t, x ≠ .error (.unprovisioned t)

theorem noUnprov_pure {α : Type} (a : α) : NoUnprov (pure a : Except PErr α) := by
  intro t h; cases h

theorem noUnprov_ok {α : Type} (a : α) : NoUnprov (.ok a : Except PErr α) := by
  intro t h; cases h

theorem noUnprov_bind {α β : Type} {x : Except PErr α} {f : α → Except PErr β} (hx : NoUnprov x)
    (hf : ∀ a, NoUnprov (f a)) : NoUnprov (x >>= f) := by
  intro t h
  rcases bind_error h with h | ⟨a, _, h⟩
  · exact hx t h
  · exact hf a t h

theorem noUnprov_liftH {α : Type} (x : Except HErr α) : NoUnprov (liftH x) := by
  intro t h
  cases x <;> simp [liftH] at h

theorem noUnprov_error {α : Type} {e : PErr} (he : ∀ t, e ≠ .unprovisioned t) : NoUnprov (.error e : Except PErr α) := by
  intro t h
  cases h
  exact he t rfl

theorem noUnprov_context (st : PState σ τ) : NoUnprov (context st) := by
  unfold context
  cases st.ctx
  · exact noUnprov_error (by intro t h; cases h)
  · exact noUnprov_ok _

theorem noUnprov_push (x : σ) (st : PState σ τ) : NoUnprov (push x st) := by
  unfold push
  exact noUnprov_bind (noUnprov_context st) (fun _ => noUnprov_pure _)

theorem noUnprov_pop (st : PState σ τ) : NoUnprov (pop st) := by
  unfold pop
  refine noUnprov_bind (noUnprov_context st) (fun c => ?_)
  cases c.symbols
  · exact noUnprov_error (by intro t h; cases h)
  · exact noUnprov_pure _

theorem noUnprov_setOrigin (o : Source) (x : σ) (st : PState σ τ) : NoUnprov (setOrigin o x st) := by
  unfold setOrigin
  exact noUnprov_bind (noUnprov_context st) (fun _ => noUnprov_pure _)

theorem noUnprov_getOrigin (o : Source) (st : PState σ τ) : NoUnprov (getOrigin o st) := by
  unfold getOrigin
  refine noUnprov_bind (noUnprov_context st) (fun c => ?_)
  cases c.origins.lookup o
  · exact noUnprov_error (by intro t h; cases h)
  · exact noUnprov_pure _

theorem noUnprov_leave (st : PState σ τ) : NoUnprov (leave st) := by
  intro t h
  unfold leave at h
  split at h
  · split at h
    · split at h <;> cases h
    · cases h
  · split at h <;> cases h

theorem noUnprov_popN : ∀ (n : Nat) (st : PState σ τ), NoUnprov (popN n st)
  | 0, st => noUnprov_pure _
  | n + 1, st => by
    unfold popN
    refine noUnprov_bind (noUnprov_pop st) ?_
    rintro ⟨x, st⟩
    refine noUnprov_bind (noUnprov_popN n st) ?_
    rintro ⟨xs, st⟩
    exact noUnprov_pure _

theorem noUnprov_bypassFeature (H : Hooks σ τ) (f : Feature) (st : PState σ τ) : NoUnprov (bypassFeature H f st) := by
  unfold bypassFeature
  refine noUnprov_bind (noUnprov_liftH _) (fun r => ?_)
  cases r
  · exact noUnprov_pure _
  · refine noUnprov_bind (noUnprov_pop st) ?_
    rintro ⟨_, st⟩
    exact noUnprov_push _ _

mutual
theorem noUnprov_visitF (H : Hooks σ τ) : ∀ (f : Feature) (st : PState σ τ), NoUnprov (visitF H f st)
  | .lit v, st => by
    unfold visitF
    exact noUnprov_bind (noUnprov_liftH _) (fun _ => noUnprov_push _ _)
  | .elem o n, st => by
    unfold visitF
    refine noUnprov_bind (noUnprov_getOrigin o st) (fun origin => ?_)
    refine noUnprov_bind (noUnprov_liftH _) (fun r => ?_)
    cases r
    · exact noUnprov_error (by intro t h; cases h)
    · exact noUnprov_bind (noUnprov_liftH _) (fun _ => noUnprov_push _ _)
  | .alias f n, st => by
    unfold visitF
    refine noUnprov_bind (noUnprov_visitF H f st) (fun st => ?_)
    refine noUnprov_bind (noUnprov_pop st) ?_
    rintro ⟨x, st⟩
    exact noUnprov_bind (noUnprov_liftH _) (fun _ => noUnprov_push _ _)
  | .expr op args, st => by
    unfold visitF
    refine noUnprov_bind (noUnprov_visitFs H args st) (fun st => ?_)
    refine noUnprov_bind (noUnprov_popN _ st) ?_
    rintro ⟨xs, st⟩
    refine noUnprov_bind (noUnprov_liftH _) (fun y => ?_)
    exact noUnprov_bind (noUnprov_push _ _) (fun st => noUnprov_bypassFeature H _ st)
  | .cast f k, st => by
    unfold visitF
    refine noUnprov_bind (noUnprov_visitF H f st) (fun st => ?_)
    refine noUnprov_bind (noUnprov_pop st) ?_
    rintro ⟨x, st⟩
    refine noUnprov_bind (noUnprov_liftH _) (fun y => ?_)
    exact noUnprov_bind (noUnprov_push _ _) (fun st => noUnprov_bypassFeature H _ st)
  | .window _ _ _, st => by
    unfold visitF
    exact noUnprov_error (by intro t h; cases h)
theorem noUnprov_visitFs (H : Hooks σ τ) : ∀ (fs : Features) (st : PState σ τ), NoUnprov (visitFs H fs st)
  | .nil, st => by
    unfold visitFs
    exact noUnprov_pure _
  | .cons f fs, st => by
    unfold visitFs
    exact noUnprov_bind (noUnprov_visitF H f st) (fun st => noUnprov_visitFs H fs st)
end

theorem noUnprov_genFeature (H : Hooks σ τ) (f : Feature) (st : PState σ τ) : NoUnprov (genFeature H f st) := by
  unfold genFeature
  exact noUnprov_bind (noUnprov_visitF H f st) (fun st => noUnprov_pop st)

theorem noUnprov_genFeatures (H : Hooks σ τ) : ∀ (fs : List Feature) (st : PState σ τ), NoUnprov (genFeatures H fs st)
  | [], st => noUnprov_pure _
  | f :: fs, st => by
    unfold genFeatures
    refine noUnprov_bind (noUnprov_genFeature H f st) ?_
    rintro ⟨x, st⟩
    refine noUnprov_bind (noUnprov_genFeatures H fs st) ?_
    rintro ⟨xs, st⟩
    exact noUnprov_pure _

theorem noUnprov_genFeatureOpt (H : Hooks σ τ) : ∀ (f : Option Feature) (st : PState σ τ), NoUnprov (genFeatureOpt H f st)
  | none, st => noUnprov_pure _
  | some f, st => by
    unfold genFeatureOpt
    refine noUnprov_bind (noUnprov_genFeature H f st) ?_
    rintro ⟨x, st⟩
    exact noUnprov_pure _

theorem noUnprov_genOrderings (H : Hooks σ τ) :
    ∀ (os : List Dsl.Ordering) (st : PState σ τ), NoUnprov (genOrderings H os st)
  | [], st => noUnprov_pure _
  | .mk f d :: os, st => by
    unfold genOrderings
    refine noUnprov_bind (noUnprov_genFeature H f st) ?_
    rintro ⟨x, st⟩
    refine noUnprov_bind (noUnprov_genOrderings H os st) ?_
    rintro ⟨xs, st⟩
    exact noUnprov_pure _

theorem noUnprov_tablesSelect (H : Hooks σ τ) (fs : List Feature) (st : PState σ τ) : NoUnprov (tablesSelect H fs st) := by
  unfold tablesSelect
  exact noUnprov_bind (noUnprov_context st) (fun _ => noUnprov_bind (noUnprov_liftH _) (fun _ => noUnprov_pure _))

theorem noUnprov_tablesFilter (H : Hooks σ τ) (f : Feature) (st : PState σ τ) : NoUnprov (tablesFilter H f st) := by
  unfold tablesFilter
  exact noUnprov_bind (noUnprov_context st) (fun _ => noUnprov_bind (noUnprov_liftH _) (fun _ => noUnprov_pure _))

theorem noUnprov_bypassSource (H : Hooks σ τ) (S : Sources) (s : Source) (st : PState σ τ) :
    NoUnprov (bypassSource H S s st) := by
  unfold bypassSource
  split
  · refine noUnprov_bind (noUnprov_pop st) ?_
    rintro ⟨_, st⟩
    exact noUnprov_push _ _
  · exact noUnprov_pure _

theorem noUnprov_tableTail (H : Hooks σ τ) (t : Source) (origin : σ) (st : PState σ τ) :
    NoUnprov (tableTail H t origin st) := by
  unfold tableTail
  refine noUnprov_bind (noUnprov_context st) (fun c => ?_)
  refine noUnprov_bind (noUnprov_liftH _) (fun fields => ?_)
  refine noUnprov_bind (noUnprov_genFeatures H _ _) ?_
  rintro ⟨fs, st⟩
  refine noUnprov_bind (noUnprov_liftH _) (fun predicate => ?_)
  refine noUnprov_bind (noUnprov_genFeatureOpt H _ _) ?_
  rintro ⟨p, st⟩
  exact noUnprov_bind (noUnprov_liftH _) (fun _ => noUnprov_push _ _)

theorem noUnprov_refTail (H : Hooks σ τ) (r : Source) (name : String) (st : PState σ τ) :
    NoUnprov (refTail H r name st) := by
  unfold refTail
  refine noUnprov_bind (noUnprov_pop st) ?_
  rintro ⟨i, st⟩
  refine noUnprov_bind (noUnprov_liftH _) ?_
  rintro ⟨origin, handle⟩
  exact noUnprov_bind (noUnprov_setOrigin _ _ _) (fun st => noUnprov_push _ _)

theorem noUnprov_tablesFilterOpt (H : Hooks σ τ) (c : FeatureOpt) (st : PState σ τ) :
    NoUnprov (tablesFilterOpt H c st) := by
  unfold tablesFilterOpt
  cases c
  · exact noUnprov_pure _
  · exact noUnprov_tablesFilter H _ st

theorem noUnprov_tablesSelectOpt (H : Hooks σ τ) (c : FeatureOpt) (st : PState σ τ) :
    NoUnprov (tablesSelectOpt H c st) := by
  unfold tablesSelectOpt
  cases c
  · exact noUnprov_pure _
  · exact noUnprov_tablesSelect H _ st

theorem noUnprov_joinHead (H : Hooks σ τ) (c : FeatureOpt) (st : PState σ τ) : NoUnprov (joinHead H c st) :=
  noUnprov_tablesFilterOpt H c st

theorem noUnprov_joinTail (H : Hooks σ τ) (S : Sources) (l r : Source) (k : JoinKind) (c : FeatureOpt)
    (st : PState σ τ) : NoUnprov (joinTail H S l r k c st) := by
  unfold joinTail
  refine noUnprov_bind (noUnprov_pop st) ?_
  rintro ⟨R, st⟩
  refine noUnprov_bind (noUnprov_pop st) ?_
  rintro ⟨L, st⟩
  refine noUnprov_bind (noUnprov_genFeatureOpt H _ _) ?_
  rintro ⟨e, st⟩
  refine noUnprov_bind (noUnprov_liftH _) (fun x => ?_)
  exact noUnprov_bind (noUnprov_push _ _) (fun st => noUnprov_bypassSource H S _ st)

theorem noUnprov_setTail (H : Hooks σ τ) (S : Sources) (l r : Source) (k : SetKind) (st : PState σ τ) :
    NoUnprov (setTail H S l r k st) := by
  unfold setTail
  refine noUnprov_bind (noUnprov_pop st) ?_
  rintro ⟨R, st⟩
  refine noUnprov_bind (noUnprov_pop st) ?_
  rintro ⟨L, st⟩
  refine noUnprov_bind (noUnprov_liftH _) (fun x => ?_)
  exact noUnprov_bind (noUnprov_push _ _) (fun st => noUnprov_bypassSource H S _ st)

theorem noUnprov_queryFeatures (H : Hooks σ τ) (src : Source) (sel : Features) : NoUnprov (queryFeatures H src sel) := by
  unfold queryFeatures
  split
  · exact noUnprov_liftH _
  · exact noUnprov_pure _

theorem noUnprov_queryHead (H : Hooks σ τ) (src : Source) (sel : Features) (pre : FeatureOpt) (grp : Features)
    (post : FeatureOpt) (ord : Orderings) (st : PState σ τ) : NoUnprov (queryHead H src sel pre grp post ord st) := by
  unfold queryHead
  refine noUnprov_bind (noUnprov_queryFeatures H src sel) (fun feats => ?_)
  refine noUnprov_bind (noUnprov_tablesSelect H _ _) (fun st => ?_)
  refine noUnprov_bind (noUnprov_tablesFilterOpt H _ _) (fun st => ?_)
  refine noUnprov_bind (noUnprov_tablesSelectOpt H _ _) (fun st => ?_)
  exact noUnprov_bind (noUnprov_tablesSelect H _ _) (fun st => noUnprov_tablesSelect H _ _)

theorem noUnprov_queryTail (H : Hooks σ τ) (S : Sources) (src : Source) (sel : Features) (pre : FeatureOpt)
    (grp : Features) (post : FeatureOpt) (ord : Orderings) (rows : Option Rows) (st : PState σ τ) :
    NoUnprov (queryTail H S src sel pre grp post ord rows st) := by
  unfold queryTail
  refine noUnprov_bind (noUnprov_queryFeatures H src sel) (fun feats => ?_)
  refine noUnprov_bind (noUnprov_genFeatures H _ _) ?_
  rintro ⟨fs, st⟩
  refine noUnprov_bind (noUnprov_genFeatureOpt H _ _) ?_
  rintro ⟨w, st⟩
  refine noUnprov_bind (noUnprov_genFeatures H _ _) ?_
  rintro ⟨g, st⟩
  refine noUnprov_bind (noUnprov_genFeatureOpt H _ _) ?_
  rintro ⟨h, st⟩
  refine noUnprov_bind (noUnprov_genOrderings H _ _) ?_
  rintro ⟨o, st⟩
  refine noUnprov_bind (noUnprov_pop st) ?_
  rintro ⟨frm, st⟩
  refine noUnprov_bind (noUnprov_liftH _) (fun q => ?_)
  refine noUnprov_bind (noUnprov_leave _) (fun st => ?_)
  exact noUnprov_bind (noUnprov_push _ _) (fun st => noUnprov_bypassSource H S _ st)

theorem noUnprov_fetch (st : PState σ τ) : NoUnprov (fetch st) := by
  intro t h
  unfold fetch at h
  split at h
  · cases h
  · split at h
    · cases h
    · split at h
      · split at h
        · rename_i e he
          cases h
          exact noUnprov_leave _ t he
        · cases h
      · cases h

/-! ### the skeleton abstracts the machine -/

theorem resolves_ok {S : Sources} {s : Source} (h : resolvesSkeleton S s = true) : ∃ a, parseSkeleton S s = .ok a := by
  unfold resolvesSkeleton at h
  cases hp : parseSkeleton S s with
  | ok a => exact ⟨a, rfl⟩
  | error e => simp [hp] at h

/-- Every visit of the parser machine, from any state: if it gets through, the skeleton resolvesSkeleton the statement; if it
raises the unprovisioned-source error, the skeleton reports the same source. -/
theorem visitS_sound (H : Hooks σ τ) (S : Sources) : ∀ (s : Source) (st : PState σ τ),
    (∀ st', visitS H S s st = .ok st' → resolvesSkeleton S s = true) ∧
    (∀ t, visitS H S s st = .error (.unprovisioned t) → parseSkeleton S s = .error t)
  | .table n fs, st => by
    unfold visitS
    constructor
    · intro st' h
      obtain ⟨origin, h1, _⟩ := bind_ok h
      rw [resolves_table]
      unfold resolveSource at h1
      split at h1
      · assumption
      · cases h1
    · intro t h
      rcases bind_error h with h1 | ⟨origin, _, h2⟩
      · unfold resolveSource at h1
        split at h1
        · cases h1
        · rename_i hadv
          cases h1
          simp [parseSkeleton, hadv]
      · rcases bind_error h2 with h3 | ⟨st1, _, h4⟩
        · exact absurd h3 (noUnprov_setOrigin _ _ _ t)
        · exact absurd h4 (noUnprov_tableTail H _ _ _ t)
  | .ref inst name, st => by
    have ih := visitS_sound H S inst
    unfold visitS
    constructor
    · intro st' h
      obtain ⟨st1, h1, _⟩ := bind_ok h
      rw [resolves_ref]
      exact (ih st).1 st1 h1
    · intro t h
      rcases bind_error h with h1 | ⟨st1, _, h2⟩
      · rw [parseSkeleton, (ih st).2 t h1]
      · exact absurd h2 (noUnprov_refTail H _ _ _ t)
  | .join l r k c, st => by
    have ihl := visitS_sound H S l
    have ihr := visitS_sound H S r
    unfold visitS
    constructor
    · intro st' h
      obtain ⟨st0, _, h⟩ := bind_ok h
      obtain ⟨st1, h1, h⟩ := bind_ok h
      obtain ⟨st2, h2, _⟩ := bind_ok h
      rw [resolves_join, (ihl st0).1 st1 h1, (ihr st1).1 st2 h2]
      rfl
    · intro t h
      rcases bind_error h with h0 | ⟨st0, _, h⟩
      · exact absurd h0 (noUnprov_joinHead H _ _ t)
      · rcases bind_error h with h1 | ⟨st1, h1, h⟩
        · rw [parseSkeleton, (ihl st0).2 t h1]
        · obtain ⟨a, ha⟩ := resolves_ok ((ihl st0).1 st1 h1)
          rcases bind_error h with h2 | ⟨st2, _, h⟩
          · rw [parseSkeleton, ha, (ihr st1).2 t h2]
          · exact absurd h (noUnprov_joinTail H S _ _ _ _ _ t)
  | .set l r k, st => by
    have ihl := visitS_sound H S l
    have ihr := visitS_sound H S r
    unfold visitS
    constructor
    · intro st' h
      obtain ⟨st1, h1, h⟩ := bind_ok h
      obtain ⟨st2, h2, _⟩ := bind_ok h
      rw [resolves_set, (ihl st).1 st1 h1, (ihr st1).1 st2 h2]
      rfl
    · intro t h
      rcases bind_error h with h1 | ⟨st1, h1, h⟩
      · rw [parseSkeleton, (ihl st).2 t h1]
      · obtain ⟨a, ha⟩ := resolves_ok ((ihl st).1 st1 h1)
        rcases bind_error h with h2 | ⟨st2, _, h⟩
        · rw [parseSkeleton, ha, (ihr st1).2 t h2]
        · exact absurd h (noUnprov_setTail H S _ _ _ _ t)
  | .query src sel pre grp post ord rows, st => by
    have ih := visitS_sound H S src
    unfold visitS
    constructor
    · intro st' h
      obtain ⟨st0, _, h⟩ := bind_ok h
      obtain ⟨st1, h1, _⟩ := bind_ok h
      rw [resolves_query]
      exact (ih st0).1 st1 h1
    · intro t h
      rcases bind_error h with h0 | ⟨st0, _, h⟩
      · exact absurd h0 (noUnprov_queryHead H _ _ _ _ _ _ _ t)
      · rcases bind_error h with h1 | ⟨st1, _, h⟩
        · rw [parseSkeleton, (ih st0).2 t h1]
        · exact absurd h (noUnprov_queryTail H S _ _ _ _ _ _ _ _ t)

/-- the whole parseSkeleton (`with parser as visitor: accept; fetch`) -/
theorem parseFull_sound (H : Hooks σ τ) (S : Sources) (s : Source) :
    (∀ x, parseFull H S s = .ok x → resolvesSkeleton S s = true) ∧
    (∀ t, parseFull H S s = .error (.unprovisioned t) → parseSkeleton S s = .error t) := by
  unfold parseFull
  constructor
  · intro x h
    obtain ⟨st1, h1, _⟩ := bind_ok h
    exact (visitS_sound H S s _).1 st1 h1
  · intro t h
    rcases bind_error h with h1 | ⟨st1, _, h⟩
    · exact (visitS_sound H S s _).2 t h1
    · rcases bind_error h with h2 | ⟨p, _, h⟩
      · exact absurd h2 (noUnprov_fetch _ t)
      · cases h

end ForML.Matcher
