/-
C14 — helper lemmas, part 9: the path-based specification `needs` (what `C14_columns` proves the hints against) covers
the property's own reading `usesIn` (the columns of the scanned origin occurring anywhere in its query, *every* join
condition of the query included) on every statement the grammar admits: a join condition off the path to a scan cannot
mention its origin (`Join.__new__` scopes conditions to their own sides, origins of a query are distinct).
Used by `ForML.Props.C14` (`C14_needs_uses`, `C14_columns_uses`, `C14_lazy_uses`).
-/
import ForML.Lemmas.C14Filter

namespace ForML.PushDown
open ForML.Dsl

theorem Forall2.trans' {α β γ : Type} {R : α → β → Prop} {R' : β → γ → Prop} {R'' : α → γ → Prop}
    {as : List α} {bs : List β} {cs : List γ} (h : Forall2 R as bs) (h' : Forall2 R' bs cs)
    (hR : ∀ a b c, R a b → R' b c → R'' a c) : Forall2 R'' as cs := by
  induction h generalizing cs with
  | nil => cases h'; exact .nil
  | cons hab _ ih =>
    cases h' with
    | cons hbc hrest => exact .cons (hR _ _ _ hab hbc) (ih hrest)

theorem mem_usedBy_iff {F : List Feature} {o : Source} {n : String} : n ∈ usedBy F o ↔ (o, n) ∈ elemsAll F := by
  constructor
  · exact mem_usedBy
  · intro h
    unfold usedBy
    simp only [List.mem_map, List.mem_filter]
    exact ⟨(o, n), ⟨h, by simp⟩, rfl⟩

theorem mem_elemsAll_append {F G : List Feature} {e : Elem} : e ∈ elemsAll (F ++ G) ↔ e ∈ elemsAll F ∨ e ∈ elemsAll G := by
  simp [elemsAll, List.flatMap_append]

/-- the elements of the join conditions of a scoped join tree belong to its origins -/
theorem conds_scoped : ∀ (s : Source), joinsScoped s = true → ∀ e ∈ elemsAll (condsOf s), e.1 ∈ origins s
  | .table _ _, _, e, he => by simp [condsOf, elemsAll] at he
  | .ref _ _, _, e, he => by simp [condsOf, elemsAll] at he
  | .set _ _ _, _, e, he => by simp [condsOf, elemsAll] at he
  | .query _ _ _ _ _ _ _, _, e, he => by simp [condsOf, elemsAll] at he
  | .join l r k c, hj, e, he => by
    simp only [joinsScoped, Bool.and_eq_true] at hj
    simp only [condsOf] at he
    simp only [origins, List.mem_append]
    rcases mem_elemsAll_append.mp he with he | he
    · rcases mem_elemsAll_append.mp he with he | he
      · simpa using scopedIn_mem hj.1.1 he
      · exact Or.inl (conds_scoped l hj.1.2 e he)
    · exact Or.inr (conds_scoped r hj.2 e he)

/-- `needs` (conditions collected along the path) offers what `usesIn` (all the conditions of the query) asks for -/
theorem needs_uses :
    ∀ (s : Source), grammarScoped s = true →
      (∀ (F G : List Feature), joinsScoped s = true → (origins s).Nodup →
          (∀ e ∈ elemsAll G, e.1 ∈ origins s → e ∈ elemsAll (F ++ condsOf s)) →
          Forall2 (fun u n => ∀ c ∈ u, c ∈ n) (usesIn G s) (needs F s))
      ∧ (isStmt s = true → ∀ (F G : List Feature), Forall2 (fun u n => ∀ c ∈ u, c ∈ n) (usesIn G s) (needs F s))
  | .table n fs, _ => by
    refine ⟨?_, by simp [isStmt]⟩
    intro F G _ _ hG
    simp only [usesIn, needs]
    refine .cons (fun c hc => ?_) .nil
    have := hG _ (mem_usedBy hc) (by simp [origins])
    exact mem_usedBy_iff.mpr (by simpa [condsOf] using this)
  | .ref i nm, hw => by
    refine ⟨?_, by simp [isStmt]⟩
    intro F G _ _ hG
    simp only [grammarScoped, Bool.and_eq_true, Bool.or_eq_true] at hw
    simp only [usesIn, needs]
    by_cases ht : isTable i = true
    · simp only [ht, if_true]
      refine .cons (fun c hc => ?_) .nil
      have := hG _ (mem_usedBy hc) (by simp [origins])
      exact mem_usedBy_iff.mpr (by simpa [condsOf] using this)
    · simp only [ht, Bool.false_eq_true, if_false]
      rcases hw.1 with ht' | hs
      · exact absurd ht' ht
      · exact (needs_uses i hw.2).2 hs F G
  | .join l r k c, hw => by
    refine ⟨?_, by simp [isStmt]⟩
    intro F G hj hnd hG
    simp only [grammarScoped, Bool.and_eq_true] at hw
    simp only [joinsScoped, Bool.and_eq_true] at hj
    simp only [origins, List.nodup_append] at hnd
    simp only [usesIn, needs]
    refine ((needs_uses l hw.1).1 (F ++ optList c) G hj.1.2 hnd.1 ?_).append
      ((needs_uses r hw.2).1 (F ++ optList c) G hj.2 hnd.2.1 ?_)
    · intro e he hel
      have := hG e he (by simp [origins, hel])
      simp only [condsOf] at this
      rcases mem_elemsAll_append.mp this with h | h
      · exact mem_elemsAll_append.mpr (Or.inl (mem_elemsAll_append.mpr (Or.inl h)))
      · rcases mem_elemsAll_append.mp h with h | h
        · rcases mem_elemsAll_append.mp h with h | h
          · exact mem_elemsAll_append.mpr (Or.inl (mem_elemsAll_append.mpr (Or.inr h)))
          · exact mem_elemsAll_append.mpr (Or.inr h)
        · exact absurd rfl (hnd.2.2 _ hel _ (conds_scoped r hj.2 e h))
    · intro e he her
      have := hG e he (by simp [origins, her])
      simp only [condsOf] at this
      rcases mem_elemsAll_append.mp this with h | h
      · exact mem_elemsAll_append.mpr (Or.inl (mem_elemsAll_append.mpr (Or.inl h)))
      · rcases mem_elemsAll_append.mp h with h | h
        · rcases mem_elemsAll_append.mp h with h | h
          · exact mem_elemsAll_append.mpr (Or.inl (mem_elemsAll_append.mpr (Or.inr h)))
          · exact absurd rfl (hnd.2.2 _ (conds_scoped l hj.1.2 e h) _ her)
        · exact mem_elemsAll_append.mpr (Or.inr h)
  | .set l r k, hw => by
    simp only [grammarScoped, Bool.and_eq_true] at hw
    have h : ∀ (F G : List Feature), Forall2 (fun u n => ∀ c ∈ u, c ∈ n) (usesIn G (.set l r k)) (needs F (.set l r k)) := by
      intro F G
      simp only [usesIn, needs]
      exact ((needs_uses l hw.1.2).2 hw.1.1.1 [] []).append ((needs_uses r hw.2).2 hw.1.1.2 [] [])
    exact ⟨fun F G _ _ _ => h F G, fun _ => h⟩
  | .query src sel pre grp post ord rows, hw => by
    simp only [grammarScoped, Bool.and_eq_true, decide_eq_true_eq] at hw
    have h : ∀ (F G : List Feature), Forall2 (fun u n => ∀ c ∈ u, c ∈ n)
        (usesIn G (.query src sel pre grp post ord rows)) (needs F (.query src sel pre grp post ord rows)) := by
      intro F G
      simp only [usesIn, needs]
      exact (needs_uses src hw.2).1 _ _ hw.1.2 hw.1.1 (fun e he _ => he)
    exact ⟨fun F G _ _ _ => h F G, fun _ => h⟩

end ForML.PushDown
