/-
C18 helper lemmas: the relative / absolute rule of `Components.load`, and that `Package.create` keeps every file the
import of a component module looks at.
-/
import ForML.Model.ManifestLoad

namespace ForML.Load

/-! ### `startswith` -/

theorem startsWith_append (p r : List Nat) : startsWith (p ++ r) p = true := by
  induction p with
  | nil => cases r <;> rfl
  | cons a p ih => simp [startsWith, ih]

/-- a text that starts with `p ++ [c]` contains `c` -/
theorem mem_of_startsWith (p : List Nat) (c : Nat) : ∀ name : List Nat, startsWith name (p ++ [c]) = true → c ∈ name := by
  induction p with
  | nil =>
    intro name h
    cases name with
    | nil => simp [startsWith] at h
    | cons a r =>
      simp only [List.nil_append, startsWith, Bool.and_eq_true, beq_iff_eq] at h
      simp [h.1]
  | cons b p ih =>
    intro name h
    cases name with
    | nil => simp [startsWith] at h
    | cons a r =>
      simp only [List.cons_append, startsWith, Bool.and_eq_true] at h
      exact List.mem_cons_of_mem _ (ih r h.2)

theorem startsWith_exact (p : List Nat) : ∀ name : List Nat, startsWith name p = true → ∃ r, name = p ++ r := by
  induction p with
  | nil => intro name _; exact ⟨name, rfl⟩
  | cons b p ih =>
    intro name h
    cases name with
    | nil => simp [startsWith] at h
    | cons a r =>
      simp only [startsWith, Bool.and_eq_true, beq_iff_eq] at h
      obtain ⟨r', hr⟩ := ih r h.2
      exact ⟨r', by rw [h.1, hr]; rfl⟩

/-! ### the rule -/

theorem pkgPrefix_nonempty (package : List Nat) (h : package ≠ []) : pkgPrefix package = rstripDots package ++ [46] := by
  unfold pkgPrefix
  cases package with
  | nil => exact absurd rfl h
  | cons a r => rfl

/-- a name without a dot is never absolute: it is looked up inside the package -/
theorem resolve_relative (package : List Nat) (modules : List (List Nat × List Nat)) (component : List Nat)
    (hp : package ≠ []) (hd : 46 ∉ chosen modules component) :
    resolve package modules component = rstripDots package ++ 46 :: chosen modules component := by
  unfold resolve
  rw [pkgPrefix_nonempty package hp]
  have : startsWith (chosen modules component) (rstripDots package ++ [46]) = false := by
    cases h : startsWith (chosen modules component) (rstripDots package ++ [46]) with
    | false => rfl
    | true => exact absurd (mem_of_startsWith _ 46 _ h) hd
  rw [this]
  simp

/-- a name inside the package (package name, a dot, anything) is taken as it is -/
theorem resolve_absolute (package : List Nat) (modules : List (List Nat × List Nat)) (component rest : List Nat)
    (h : chosen modules component = pkgPrefix package ++ rest) :
    resolve package modules component = chosen modules component := by
  unfold resolve
  rw [h, startsWith_append]
  rfl

/-- whatever is resolved starts with the package prefix -/
theorem resolve_startsWith (package : List Nat) (modules : List (List Nat × List Nat)) (component : List Nat) :
    startsWith (resolve package modules component) (pkgPrefix package) = true := by
  unfold resolve
  split
  · assumption
  · exact startsWith_append _ _

theorem lookup_single (k v : List Nat) : lookup k [(k, v)] = some v := by
  simp [lookup]

/-- writing the resolved (absolute) names into the module map changes nothing: resolution is idempotent -/
theorem resolve_idempotent (package : List Nat) (modules : List (List Nat × List Nat)) (component : List Nat)
    (hne : resolve package modules component ≠ []) :
    resolve package [(component, resolve package modules component)] component = resolve package modules component := by
  have hc : chosen [(component, resolve package modules component)] component = resolve package modules component := by
    unfold chosen
    rw [lookup_single]
    cases h : resolve package modules component with
    | nil => exact absurd h hne
    | cons a r => rfl
  show (if startsWith (chosen [(component, resolve package modules component)] component) (pkgPrefix package) = true
        then chosen [(component, resolve package modules component)] component
        else pkgPrefix package ++ chosen [(component, resolve package modules component)] component) = _
  rw [hc, resolve_startsWith]
  rfl

theorem resolve_no_package (modules : List (List Nat × List Nat)) (component : List Nat) :
    resolve [] modules component = chosen modules component := by
  unfold resolve pkgPrefix
  cases chosen modules component <;> simp [startsWith]

/-! ### what the archive keeps -/

theorem packList_cons (r : Bool) (c : Node) (cs : List Node) : packList r (c :: cs) = packNode r c ++ packList r cs := by
  rw [packList]

theorem findFile_append (n : List Nat) (a b : List Node) : findFile n (a ++ b) = (findFile n a || findFile n b) := by
  induction a with
  | nil => rfl
  | cons x a ih =>
    cases x with
    | file m => simp [findFile, ih, Bool.or_assoc]
    | dir m cs => simp [findFile, ih]

theorem findDir_append (n : List Nat) (a b : List Node) :
    findDir n (a ++ b) = match findDir n a with | some cs => some cs | none => findDir n b := by
  induction a with
  | nil => rfl
  | cons x a ih =>
    cases x with
    | file m => simp [findDir, ih]
    | dir m cs =>
      simp only [List.cons_append, findDir]
      split
      · rfl
      · exact ih

/-- a file whose name is kept is found in the archive exactly when it is in the tree -/
theorem findFile_pack (r : Bool) (n : List Nat) (hv : validName r n = true) :
    ∀ ns : List Node, findFile n (packList r ns) = findFile n ns := by
  intro ns
  induction ns with
  | nil => simp [packList]
  | cons x ns ih =>
    rw [packList_cons, findFile_append, ih]
    cases x with
    | file m =>
      simp only [packNode, findFile]
      by_cases hm : validName r m = true
      · simp [hm, findFile]
      · have hne : (m == n) = false := by
          cases hmn : (m == n) with
          | false => rfl
          | true => rw [beq_iff_eq] at hmn; subst hmn; exact absurd hv hm
        simp [hm, findFile, hne]
    | dir m cs =>
      simp only [packNode, findFile]
      split <;> simp [findFile]

/-- a directory whose name is kept is found in the archive exactly when it is in the tree, with its kept content -/
theorem findDir_pack (r : Bool) (n : List Nat) (hv : validName r n = true) :
    ∀ ns : List Node, findDir n (packList r ns) = (findDir n ns).map (packList false) := by
  intro ns
  induction ns with
  | nil => simp [packList, findDir]
  | cons x ns ih =>
    rw [packList_cons, findDir_append, ih]
    cases x with
    | file m =>
      simp only [packNode, findDir]
      by_cases hm : validName r m = true
      · simp [hm, findDir]
      · simp [hm, findDir]
    | dir m cs =>
      simp only [packNode, findDir]
      by_cases hm : validName r m = true
      · simp only [hm, if_true, findDir]
        by_cases hmn : (m == n) = true
        · simp [hmn]
        · simp [hmn]
      · have hne : (m == n) = false := by
          cases hmn : (m == n) with
          | false => rfl
          | true => rw [beq_iff_eq] at hmn; subst hmn; exact absurd hv hm
        simp [hm, findDir, hne]

theorem valid_initPy : validName false initPy = true := by decide

theorem locateLeaf_pack (r : Bool) (ns : List Node) (c : List Nat) (h1 : validName r c = true)
    (h2 : validName r (c ++ dotPy) = true) : locateLeaf (packList r ns) c = locateLeaf ns c := by
  unfold locateLeaf
  rw [findDir_pack r c h1, findFile_pack r (c ++ dotPy) h2]
  cases findDir c ns with
  | none => rfl
  | some cs => simp only [Option.map, findFile_pack false initPy valid_initPy]

/-- **the archive keeps every file the import looks at** -/
theorem locate_pack (segs : List (List Nat)) : ∀ (r : Bool) (ns : List Node), segsOk r segs = true →
    locate (packList r ns) segs = locate ns segs := by
  induction segs with
  | nil => intro _ _ _; rfl
  | cons a rest ih =>
    intro r ns hok
    cases rest with
    | nil =>
      simp only [segsOk, Bool.and_eq_true] at hok
      simp only [locate]
      exact locateLeaf_pack r ns a hok.1 hok.2
    | cons b rest =>
      simp only [segsOk, Bool.and_eq_true] at hok
      simp only [locate]
      rw [findDir_pack r a hok.1]
      cases findDir a ns with
      | none => rfl
      | some cs =>
        simp only [Option.map, findFile_pack false initPy valid_initPy]
        split
        · exact ih false cs hok.2
        · rfl

/-- the manifest file added at the root is not what a component import looks at -/
theorem locate_installed (root : List Node) (segs : List (List Nat)) (hok : segsOk true segs = true) :
    locate (installed root) segs = locate root segs := by
  unfold installed
  cases segs with
  | nil => rfl
  | cons a rest =>
    cases rest with
    | nil =>
      simp only [segsOk, Bool.and_eq_true] at hok
      have hne : (descriptor == a ++ dotPy) = false := by
        cases hd : (descriptor == a ++ dotPy) with
        | false => rfl
        | true =>
          rw [beq_iff_eq] at hd
          have h2 := hok.2
          rw [← hd] at h2
          revert h2
          decide
      have := locateLeaf_pack true root a hok.1 hok.2
      simp only [locate]
      unfold locateLeaf at this ⊢
      simp only [findDir, findFile, hne, Bool.false_or]
      exact this
    | cons b rest =>
      have := locate_pack (a :: b :: rest) true root hok
      simp only [locate] at this ⊢
      simp only [findDir]
      exact this

end ForML.Load
