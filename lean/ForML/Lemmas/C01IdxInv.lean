/-
C01 — invariant of the index component along `segment.accept(table)`, for an arbitrary visit order.
-/
import ForML.Lemmas.C01Idx

namespace ForML.Flow
open CState Segment

/-- what may be stored under key `k` after visiting `vis` -/
def IdxLegit (g : Segment) (A : Option Assets) (vis : List Uid) : Key → Obj → Prop
  | .uid n, o => ∃ w, g.worker? n = some w ∧ n ∈ vis ∧ o = functorObj g A w
  | .gid γ, o =>
    (∃ t ∈ g.workers, t.gid = γ ∧ g.isTrainer t = true ∧ t.uid ∈ vis ∧ o = functorObj g A t) ∨
    (o = loaderObj γ ∧ (∃ w ∈ g.workers, w.uid ∈ vis ∧ w.gid = γ ∧ persistentW A w = true) ∧
      ∀ t ∈ g.workers, t.gid = γ → g.isTrainer t = true → t.uid ∉ vis)
  | .loader γ, o =>
    o = loaderObj γ ∧ ∃ t ∈ g.workers, t.gid = γ ∧ t.uid ∈ vis ∧ g.isTrainer t = true ∧ persistentW A t = true
  | .getter n i, o =>
    o = getterObj n i ∧ ∃ w, g.worker? n = some w ∧ n ∈ vis ∧ g.trained n = false ∧ w.szout ≠ 1 ∧ i < w.szout
  | .dumper n, o =>
    o = dumperObj n ∧ ∃ w, g.worker? n = some w ∧ n ∈ vis ∧ g.isTrainer w = true ∧ persistentW A w = true
  | .committer, o =>
    o = committerObj ∧ ∃ t ∈ g.workers, t.uid ∈ vis ∧ g.isTrainer t = true ∧ persistentW A t = true

structure IdxInv (g : Segment) (A : Option Assets) (vis : List Uid) (ic : IdxS) : Prop where
  keys : (ic.1.map (·.1)).Nodup
  contig : Contig (ic.1.map (·.2.id))
  comm : (ic.2 = none ∧ ∀ t ∈ g.workers, t.uid ∈ vis → g.isTrainer t = true → persistentW A t = true → False) ∨
    (ic.2 = some Key.committer ∧ ∃ t ∈ g.workers, t.uid ∈ vis ∧ g.isTrainer t = true ∧ persistentW A t = true)
  sound : ∀ k o, aget k ic.1 = some o → IdxLegit g A vis k o
  c_uid : ∀ w ∈ g.workers, w.uid ∈ vis → aget (Key.uid w.uid) ic.1 = some (functorObj g A w)
  c_gidT : ∀ t ∈ g.workers, t.uid ∈ vis → g.isTrainer t = true → aget (Key.gid t.gid) ic.1 = some (functorObj g A t)
  c_gidL : ∀ w ∈ g.workers, w.uid ∈ vis → persistentW A w = true →
    (∀ t ∈ g.workers, t.gid = w.gid → g.isTrainer t = true → t.uid ∉ vis) →
    aget (Key.gid w.gid) ic.1 = some (loaderObj w.gid)
  c_pt : ∀ t ∈ g.workers, t.uid ∈ vis → g.isTrainer t = true → persistentW A t = true →
    aget (Key.loader t.gid) ic.1 = some (loaderObj t.gid) ∧ aget (Key.dumper t.uid) ic.1 = some (dumperObj t.uid) ∧
      aget Key.committer ic.1 = some committerObj
  c_getter : ∀ w ∈ g.workers, w.uid ∈ vis → g.trained w.uid = false → w.szout ≠ 1 → ∀ i, i < w.szout →
    aget (Key.getter w.uid i) ic.1 = some (getterObj w.uid i)

theorem IdxInv.init (g : Segment) (A : Option Assets) : IdxInv g A [] ([], none) :=
  ⟨by simp, trivial, Or.inl ⟨rfl, fun _ _ h => (by cases h)⟩, fun k o h => (by simp [aget] at h),
   fun _ _ h => (by cases h), fun _ _ h => (by cases h), fun _ _ h => (by cases h), fun _ _ h => (by cases h),
   fun _ _ h => (by cases h)⟩

/-- legitimacy is monotone in the visited set, except for a loader alias whose trainer gets visited -/
theorem IdxLegit.mono {g : Segment} {A : Option Assets} {vis : List Uid} {n : Uid} {k : Key} {o : Obj}
    (h : IdxLegit g A vis k o)
    (hL : ∀ γ, k = Key.gid γ → o = loaderObj γ → ∀ t ∈ g.workers, t.gid = γ → g.isTrainer t = true → t.uid ≠ n) :
    IdxLegit g A (vis ++ [n]) k o := by
  cases k with
  | uid m =>
    obtain ⟨w, h1, h2, h3⟩ := h
    exact ⟨w, h1, List.mem_append_left _ h2, h3⟩
  | gid γ =>
    rcases h with ⟨t, h1, h2, h3, h4, h5⟩ | ⟨h1, ⟨w, h2, h3, h4⟩, h5⟩
    · exact Or.inl ⟨t, h1, h2, h3, List.mem_append_left _ h4, h5⟩
    · refine Or.inr ⟨h1, ⟨w, h2, List.mem_append_left _ h3, h4⟩, ?_⟩
      intro t ht hg hT hmem
      rcases List.mem_append.mp hmem with hmem | hmem
      · exact h5 t ht hg hT hmem
      · simp only [List.mem_singleton] at hmem
        exact hL γ rfl h1 t ht hg hT hmem
  | loader γ =>
    obtain ⟨h1, t, h2, h3, h4, h5⟩ := h
    exact ⟨h1, t, h2, h3, List.mem_append_left _ h4, h5⟩
  | getter m i =>
    obtain ⟨h1, w, h2, h3, h4⟩ := h
    exact ⟨h1, w, h2, List.mem_append_left _ h3, h4⟩
  | dumper m =>
    obtain ⟨h1, w, h2, h3, h4⟩ := h
    exact ⟨h1, w, h2, List.mem_append_left _ h3, h4⟩
  | committer =>
    obtain ⟨h1, t, h2, h3, h4⟩ := h
    exact ⟨h1, t, h2, List.mem_append_left _ h3, h4⟩

/-- identity of a legitimately stored object -/
theorem IdxLegit.id_cases {g : Segment} {A : Option Assets} {vis : List Uid} {k : Key} {o : Obj}
    (h : IdxLegit g A vis k o) :
    (o.id = k ∧ ∀ γ, k ≠ Key.gid γ) ∨ (∃ γ, k = Key.gid γ ∧ o = loaderObj γ) ∨
      (∃ γ t, k = Key.gid γ ∧ t ∈ g.workers ∧ t.uid ∈ vis ∧ o = functorObj g A t) := by
  cases k with
  | uid m =>
    obtain ⟨w, h1, h2, h3⟩ := h
    subst h3
    left
    exact ⟨by simp [functorObj, (worker?_some h1).2], fun γ => by simp⟩
  | gid γ =>
    rcases h with ⟨t, h1, h2, h3, h4, h5⟩ | ⟨h1, _, _⟩
    · exact Or.inr (Or.inr ⟨γ, t, rfl, h1, h4, h5⟩)
    · exact Or.inr (Or.inl ⟨γ, rfl, h1⟩)
  | loader γ => obtain ⟨h1, _⟩ := h; subst h1; exact Or.inl ⟨rfl, fun γ => by simp⟩
  | getter m i => obtain ⟨h1, _⟩ := h; subst h1; exact Or.inl ⟨rfl, fun γ => by simp⟩
  | dumper m => obtain ⟨h1, _⟩ := h; subst h1; exact Or.inl ⟨rfl, fun γ => by simp⟩
  | committer => obtain ⟨h1, _⟩ := h; subst h1; exact Or.inl ⟨rfl, fun γ => by simp⟩

/-! ### generic list facts used by the step -/

theorem keys_nodup_append {α : Type} {l1 l2 : List (Key × α)} (h1 : (l1.map (·.1)).Nodup) (h2 : (l2.map (·.1)).Nodup)
    (hd : ∀ k, k ∈ l2.map (·.1) → aget k l1 = none) : ((l1 ++ l2).map (·.1)).Nodup := by
  rw [List.map_append, List.nodup_append]
  refine ⟨h1, h2, ?_⟩
  intro a ha b hb hab
  subst hab
  exact (aget_none_iff.mp (hd a hb)) ha

theorem Contig.append_list {l : List Key} (h : Contig l) (ids : List Key) (hnd : ids.Nodup) (hd : ∀ x ∈ ids, x ∉ l) :
    Contig (l ++ ids) := by
  induction ids generalizing l with
  | nil => simpa using h
  | cons x r ih =>
    have : l ++ x :: r = (l ++ [x]) ++ r := by simp
    rw [this]
    simp only [List.nodup_cons] at hnd
    apply ih (h.append_fresh (Or.inl (hd x List.mem_cons_self))) hnd.2
    intro y hy hmem
    rcases List.mem_append.mp hmem with hmem | hmem
    · exact hd y (List.mem_cons_of_mem _ hy) hmem
    · simp only [List.mem_singleton] at hmem
      subst hmem
      exact hnd.1 hy

theorem Contig.append_dup {l : List Key} {x : Key} (h : Contig (l ++ [x])) : Contig (l ++ [x] ++ [x]) :=
  h.append_fresh (Or.inr (by simp))

/-- entries of a sub-list of the index are entries of the index -/
theorem mem_ids_of {I B : List (Key × Obj)} (hB : ∀ x ∈ B, x ∈ I) (hnd : (I.map (·.1)).Nodup) {x : Key}
    (hx : x ∈ B.map (·.2.id)) : ∃ k o, aget k I = some o ∧ (k, o) ∈ B ∧ o.id = x := by
  simp only [List.mem_map] at hx
  obtain ⟨⟨k, o⟩, hmem, hid⟩ := hx
  exact ⟨k, o, aget_of_mem_nodup hnd (hB _ hmem), hmem, hid⟩

theorem aget_getterEntries {g : Segment} {w : Worker} (k : Key) (o : Obj) (h : aget k (getterEntries g w) = some o) :
    ∃ i, k = Key.getter w.uid i ∧ o = getterObj w.uid i ∧ i < w.szout ∧ g.trained w.uid = false ∧ w.szout ≠ 1 := by
  have hm := mem_of_aget h
  unfold getterEntries at hm
  split at hm
  · cases hm
  · rename_i hc
    simp only [Bool.or_eq_true, decide_eq_true_eq, not_or, Bool.not_eq_true] at hc
    simp only [List.mem_map, List.mem_range, Prod.mk.injEq] at hm
    obtain ⟨i, hi, rfl, rfl⟩ := hm
    exact ⟨i, rfl, rfl, hi, hc.1, hc.2⟩

theorem getterEntries_get {g : Segment} {w : Worker} (htr : g.trained w.uid = false) (hne : w.szout ≠ 1) {i : Nat}
    (hi : i < w.szout) : aget (Key.getter w.uid i) (getterEntries g w) = some (getterObj w.uid i) := by
  unfold getterEntries
  simp only [htr, hne, decide_false, Bool.or_self, Bool.false_eq_true, if_false]
  generalize w.szout = n at hi
  induction n with
  | zero => omega
  | succ n ih =>
    rw [List.range_succ, List.map_append]
    by_cases hin : i < n
    · exact aget_append_left _ (ih hin)
    · have : i = n := by omega
      subst this
      rw [aget_append_right]
      · simp [aget]
      · rw [aget_none_iff]
        simp only [List.map_map, List.mem_map, List.mem_range, Function.comp, not_exists, not_and]
        intro x hx heq
        simp only [Key.getter.injEq, true_and] at heq
        omega

theorem nodup_map_on {α β : Type} {f : α → β} {l : List α} (hinj : ∀ a ∈ l, ∀ b ∈ l, f a = f b → a = b)
    (hnd : l.Nodup) : (l.map f).Nodup := by
  rw [List.Nodup, List.pairwise_map]
  exact hnd.imp_of_mem (fun ha hb hne heq => hne (hinj _ ha _ hb heq))

theorem getterEntries_keys_nodup (g : Segment) (w : Worker) : ((getterEntries g w).map (·.1)).Nodup := by
  unfold getterEntries
  split
  · simp
  · rw [List.map_map]
    apply nodup_map_on _ List.nodup_range
    intro a _ b _ hab
    simpa using hab

theorem getterEntries_ids (g : Segment) (w : Worker) :
    (getterEntries g w).map (·.2.id) = (getterEntries g w).map (·.1) := by
  unfold getterEntries
  split
  · rfl
  · simp [List.map_map, Function.comp, getterObj]

end ForML.Flow
