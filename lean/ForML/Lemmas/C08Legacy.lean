/-
C08 (legacy) — the equality of DSL objects as it was BEFORE fixes/C08-structural-eq.diff and
fixes/C08-compound-kind-pickle.diff: `Comparison.Pythonic.__bool__` / `Equal.__bool__` compared `hash(left) ==
hash(right)`, sources were plain tuples (`tuple.__eq__`, the class took no part), compound kinds had no
`__getnewargs__`.  Model: `Feature.implEq` / `Source.implEq` / `Kind.pickle` of `ForML.Model.DslEq`.  These theorems
document the repaired defects (fixed entries C08-X1 … C08-X4 of findings.d/C08.json, whose witnesses are replayed on the
real code on every run): the full statement is refuted for that code by kernel-checked counterexamples, and the
strongest statement that did hold is kept as `_partial`.

  C08_legacy_full                      ∀ a b, implEq a b = true ↔ a = b     — FALSE for the unrepaired code:
  C08_legacy_counterexample              Literal(-1) == Literal(-2), Literal(0) == Literal(2^61-1)          (C08-X1)
  C08_legacy_collision_lift(_source)     … and every statement vs the same statement with such literals exchanged
  C08_legacy_table_counterexample        two tables with the same fields and different names are `==`      (C08-X2)
  C08_legacy_alias_counterexample        x == x.alias(n), the other way round false or raising             (C08-X3)
  C08_legacy_partial(_feature)           implEq a b = true → a = b where the compared features are told apart by their
                                         hashes, aligned in aliasing, and no twin tables are put side by side
  C08_legacy_pickle_partial / _counterexample   reconstruction is the identity unless a compound kind occurs (C08-X4)
-/
import ForML.Model.DslEq

namespace ForML.Dsl

variable {α : Type}

/-! ### a hash collision of two literals confuses every pair of statements built around them -/

private theorem elemClass_mapInt (φ : Int → Int) (o : Source) : elemClass (o.mapInt φ) = elemClass o := by
  cases o <;> simp [Source.mapInt, elemClass]

private theorem Lit.H_mapInt (env : HashEnv α) (φ : Int → Int) (hφ : ∀ n, pyIntHash (φ n) = pyIntHash n) (v : Lit) :
    (v.mapInt φ).H env = v.H env ∧ (v.mapInt φ).kind = v.kind := by
  cases v <;> simp [Lit.mapInt, Lit.H, Lit.kind, hφ]

mutual
private theorem Feature.H_mapInt (env : HashEnv α) (φ : Int → Int) (hφ : ∀ n, pyIntHash (φ n) = pyIntHash n) :
    (f : Feature) → (f.mapInt φ).H env = f.H env
  | .lit v => by simp [Feature.mapInt, Feature.H, Lit.H_mapInt env φ hφ v]
  | .elem o n => by simp [Feature.mapInt, Feature.H, elemClass_mapInt, Source.H_mapInt env φ hφ o]
  | .alias f n => by simp [Feature.mapInt, Feature.H, Feature.H_mapInt env φ hφ f]
  | .expr op args => by simp [Feature.mapInt, Feature.H, Features.Hs_mapInt env φ hφ args]
  | .cast f k => by simp [Feature.mapInt, Feature.H, Feature.H_mapInt env φ hφ f]
  | .window fn ps os => by
    simp [Feature.mapInt, Feature.H, Feature.H_mapInt env φ hφ fn, Features.Hs_mapInt env φ hφ ps,
      Orderings.Hs_mapInt env φ hφ os]
private theorem Features.Hs_mapInt (env : HashEnv α) (φ : Int → Int) (hφ : ∀ n, pyIntHash (φ n) = pyIntHash n) :
    (fs : Features) → (fs.mapInt φ).Hs env = fs.Hs env
  | .nil => by simp [Features.mapInt]
  | .cons f fs => by
    simp [Features.mapInt, Features.Hs, Feature.H_mapInt env φ hφ f, Features.Hs_mapInt env φ hφ fs]
private theorem FeatureOpt.H_mapInt (env : HashEnv α) (φ : Int → Int) (hφ : ∀ n, pyIntHash (φ n) = pyIntHash n) :
    (o : FeatureOpt) → (o.mapInt φ).H env = o.H env
  | .none => by simp [FeatureOpt.mapInt]
  | .some f => by simp [FeatureOpt.mapInt, FeatureOpt.H, Feature.H_mapInt env φ hφ f]
private theorem Ordering.H_mapInt (env : HashEnv α) (φ : Int → Int) (hφ : ∀ n, pyIntHash (φ n) = pyIntHash n) :
    (o : Ordering) → (o.mapInt φ).H env = o.H env
  | .mk f d => by simp [Ordering.mapInt, Ordering.H, Feature.H_mapInt env φ hφ f]
private theorem Orderings.Hs_mapInt (env : HashEnv α) (φ : Int → Int) (hφ : ∀ n, pyIntHash (φ n) = pyIntHash n) :
    (os : Orderings) → (os.mapInt φ).Hs env = os.Hs env
  | .nil => by simp [Orderings.mapInt]
  | .cons o os => by
    simp [Orderings.mapInt, Orderings.Hs, Ordering.H_mapInt env φ hφ o, Orderings.Hs_mapInt env φ hφ os]
private theorem Source.H_mapInt (env : HashEnv α) (φ : Int → Int) (hφ : ∀ n, pyIntHash (φ n) = pyIntHash n) :
    (s : Source) → (s.mapInt φ).H env = s.H env
  | .table n fs => by simp [Source.mapInt]
  | .ref s n => by simp [Source.mapInt, Source.H, Source.H_mapInt env φ hφ s]
  | .join l r k c => by
    simp [Source.mapInt, Source.H, Source.H_mapInt env φ hφ l, Source.H_mapInt env φ hφ r,
      FeatureOpt.H_mapInt env φ hφ c]
  | .set l r k => by simp [Source.mapInt, Source.H, Source.H_mapInt env φ hφ l, Source.H_mapInt env φ hφ r]
  | .query s sel pre grp post ord rows => by
    simp [Source.mapInt, Source.H, Source.H_mapInt env φ hφ s, Features.Hs_mapInt env φ hφ sel,
      FeatureOpt.H_mapInt env φ hφ pre, Features.Hs_mapInt env φ hφ grp, FeatureOpt.H_mapInt env φ hφ post,
      Orderings.Hs_mapInt env φ hφ ord]
end

variable [DecidableEq α]

/-! ### soundness: rebuilt objects are equal and hash equal -/

theorem C08_legacy_sound_feature (env : HashEnv α) (f : Feature) : Feature.implEq env f f = some true := by
  cases f <;> simp [Feature.implEq, aliasEq, Feature.operable]

private theorem Features.implEq_refl (env : HashEnv α) : (fs : Features) → Features.implEq env fs fs = some true
  | .nil => by simp [Features.implEq]
  | .cons f fs => by simp [Features.implEq, C08_legacy_sound_feature, eqAnd, Features.implEq_refl env fs]

private theorem FeatureOpt.implEq_refl (env : HashEnv α) (o : FeatureOpt) : FeatureOpt.implEq env o o = Option.some true := by
  cases o <;> simp [FeatureOpt.implEq, C08_legacy_sound_feature]

private theorem Orderings.implEq_refl (env : HashEnv α) : (os : Orderings) → Orderings.implEq env os os = some true
  | .nil => by simp [Orderings.implEq]
  | .cons (.mk f d) os => by
    simp [Orderings.implEq, Ordering.implEq, C08_legacy_sound_feature, eqAnd, Orderings.implEq_refl env os]

/-- a source compares equal to (a rebuilt copy of) itself -/
theorem C08_legacy_sound_source (env : HashEnv α) : (s : Source) → Source.implEq env s s = some true
  | .table n fs => by simp [Source.implEq, fieldsEq]
  | .ref s n => by simp [Source.implEq, eqAnd, C08_legacy_sound_source env s]
  | .join l r k c => by
    simp [Source.implEq, eqAnd, C08_legacy_sound_source env l, C08_legacy_sound_source env r, FeatureOpt.implEq_refl]
  | .set l r k => by simp [Source.implEq, eqAnd, C08_legacy_sound_source env l, C08_legacy_sound_source env r]
  | .query s sel pre grp post ord rows => by
    simp [Source.implEq, eqAnd, C08_legacy_sound_source env s, Features.implEq_refl, FeatureOpt.implEq_refl,
      Orderings.implEq_refl]

/-! ### completeness where hashes tell the compared features apart -/

/-- the pair of features is compared faithfully: both aliased or both not, and their operables are
distinguished by their hashes -/
def Faithful (env : HashEnv α) (p : Feature × Feature) : Prop :=
  p.1.isAlias = p.2.isAlias ∧ (p.1.operable.H env = p.2.operable.H env → p.1.operable = p.2.operable)

instance (env : HashEnv α) (p : Feature × Feature) : Decidable (Faithful env p) := by
  unfold Faithful; exact inferInstance

def Features.pairs : Features → Features → List (Feature × Feature)
  | .cons a as, .cons b bs => (a, b) :: Features.pairs as bs
  | _, _ => []

def FeatureOpt.pairs : FeatureOpt → FeatureOpt → List (Feature × Feature)
  | .some a, .some b => [(a, b)]
  | _, _ => []

def Orderings.pairs : Orderings → Orderings → List (Feature × Feature)
  | .cons (.mk a _) as, .cons (.mk b _) bs => (a, b) :: Orderings.pairs as bs
  | _, _ => []

/-- the feature pairs `tuple.__eq__` puts side by side when two sources are compared -/
def Source.cmpPairs : Source → Source → List (Feature × Feature)
  | .ref sa _, .ref sb _ => Source.cmpPairs sa sb
  | .join la ra _ ca, .join lb rb _ cb => Source.cmpPairs la lb ++ Source.cmpPairs ra rb ++ FeatureOpt.pairs ca cb
  | .set la ra _, .set lb rb _ => Source.cmpPairs la lb ++ Source.cmpPairs ra rb
  | .query sa sela prea grpa posta orda _, .query sb selb preb grpb postb ordb _ =>
    Source.cmpPairs sa sb ++ Features.pairs sela selb ++ FeatureOpt.pairs prea preb ++ Features.pairs grpa grpb
      ++ FeatureOpt.pairs posta postb ++ Orderings.pairs orda ordb
  | _, _ => []

/-- the table pairs put side by side -/
def Source.tabPairs : Source → Source → List ((String × Fields) × (String × Fields))
  | .table na fa, .table nb fb => [((na, fa), (nb, fb))]
  | .ref sa _, .ref sb _ => Source.tabPairs sa sb
  | .join la ra _ _, .join lb rb _ _ => Source.tabPairs la lb ++ Source.tabPairs ra rb
  | .set la ra _, .set lb rb _ => Source.tabPairs la lb ++ Source.tabPairs ra rb
  | .query sa _ _ _ _ _ _, .query sb _ _ _ _ _ _ => Source.tabPairs sa sb
  | _, _ => []

/-- tables with equal schemas have equal names (no "twin" tables) -/
def NoTwin (p : (String × Fields) × (String × Fields)) : Prop := p.1.2 = p.2.2 → p.1.1 = p.2.1

instance (p : (String × Fields) × (String × Fields)) : Decidable (NoTwin p) := by unfold NoTwin; exact inferInstance

/-- features: hash-based equality is the structural one on faithfully compared pairs -/
theorem C08_legacy_partial_feature (env : HashEnv α) (a b : Feature) (hf : Faithful env (a, b))
    (h : Feature.implEq env a b = some true) : a = b := by
  obtain ⟨hal, hinj⟩ := hf
  cases a <;> cases b <;>
    simp [Feature.implEq, aliasEq, Feature.operable, Feature.isAlias] at h hal hinj ⊢ <;>
    first
      | exact hinj h
      | exact ⟨hinj h.1, h.2⟩

private theorem Features.complete (env : HashEnv α) : (as bs : Features) →
    (∀ p ∈ Features.pairs as bs, Faithful env p) → Features.implEq env as bs = some true → as = bs
  | .nil, .nil, _, _ => rfl
  | .nil, .cons _ _, _, h => by simp [Features.implEq] at h
  | .cons _ _, .nil, _, h => by simp [Features.implEq] at h
  | .cons a as, .cons b bs, hf, h => by
    simp only [Features.pairs, List.mem_cons, forall_eq_or_imp] at hf
    simp only [Features.implEq, eqAnd] at h
    split at h
    · cases h
    · cases h
    · rename_i hab
      rw [C08_legacy_partial_feature env a b hf.1 hab, Features.complete env as bs hf.2 h]

private theorem FeatureOpt.complete (env : HashEnv α) (a b : FeatureOpt)
    (hf : ∀ p ∈ FeatureOpt.pairs a b, Faithful env p) (h : FeatureOpt.implEq env a b = Option.some true) : a = b := by
  cases a <;> cases b <;> simp [FeatureOpt.implEq] at h ⊢
  rename_i x y
  exact C08_legacy_partial_feature env x y (hf (x, y) (by simp [FeatureOpt.pairs])) h

private theorem Orderings.complete (env : HashEnv α) : (as bs : Orderings) →
    (∀ p ∈ Orderings.pairs as bs, Faithful env p) → Orderings.implEq env as bs = some true → as = bs
  | .nil, .nil, _, _ => rfl
  | .nil, .cons _ _, _, h => by simp [Orderings.implEq] at h
  | .cons _ _, .nil, _, h => by simp [Orderings.implEq] at h
  | .cons (.mk a da) as, .cons (.mk b db) bs, hf, h => by
    simp only [Orderings.pairs, List.mem_cons, forall_eq_or_imp] at hf
    simp only [Orderings.implEq, Ordering.implEq, eqAnd] at h
    split at h
    · cases h
    · cases h
    · rename_i hab
      split at hab
      · cases hab
      · cases hab
      · rename_i hfe
        simp at hab
        rw [C08_legacy_partial_feature env a b hf.1 hfe, hab, Orderings.complete env as bs hf.2 h]

private theorem eqAnd_true {r : EqRes} {k : Unit → EqRes} (h : eqAnd r k = some true) :
    r = some true ∧ k () = some true := by
  unfold eqAnd at h
  split at h
  · cases h
  · cases h
  · exact ⟨rfl, h⟩

/-- sources: if every compared feature pair is faithful and no twin tables are put side by side, the
implementation's `==` holds only between structurally identical sources -/
theorem C08_legacy_partial (env : HashEnv α) : (a b : Source) →
    (∀ p ∈ Source.cmpPairs a b, Faithful env p) → (∀ p ∈ Source.tabPairs a b, NoTwin p) →
    Source.implEq env a b = some true → a = b
  | .table na fa, .table nb fb, _, ht, h => by
    have := ht ((na, fa), (nb, fb)) (by simp [Source.tabPairs])
    simp [Source.implEq, fieldsEq] at h
    simp [NoTwin] at this
    rw [h, this h]
  | .ref sa na, .ref sb nb, hf, ht, h => by
    simp only [Source.implEq] at h
    obtain ⟨h1, h2⟩ := eqAnd_true h
    simp at h2
    rw [C08_legacy_partial env sa sb (by simpa [Source.cmpPairs] using hf) (by simpa [Source.tabPairs] using ht) h1, h2]
  | .join la ra ka ca, .join lb rb kb cb, hf, ht, h => by
    simp only [Source.implEq] at h
    obtain ⟨h1, h⟩ := eqAnd_true h
    obtain ⟨h2, h⟩ := eqAnd_true h
    obtain ⟨h3, h4⟩ := eqAnd_true h
    simp at h3
    simp only [Source.cmpPairs, List.mem_append] at hf
    simp only [Source.tabPairs, List.mem_append] at ht
    rw [C08_legacy_partial env la lb (fun p hp => hf p (.inl (.inl hp))) (fun p hp => ht p (.inl hp)) h1,
      C08_legacy_partial env ra rb (fun p hp => hf p (.inl (.inr hp))) (fun p hp => ht p (.inr hp)) h2, h3,
      FeatureOpt.complete env ca cb (fun p hp => hf p (.inr hp)) h4]
  | .set la ra ka, .set lb rb kb, hf, ht, h => by
    simp only [Source.implEq] at h
    obtain ⟨h1, h⟩ := eqAnd_true h
    obtain ⟨h2, h3⟩ := eqAnd_true h
    simp at h3
    simp only [Source.cmpPairs, List.mem_append] at hf
    simp only [Source.tabPairs, List.mem_append] at ht
    rw [C08_legacy_partial env la lb (fun p hp => hf p (.inl hp)) (fun p hp => ht p (.inl hp)) h1,
      C08_legacy_partial env ra rb (fun p hp => hf p (.inr hp)) (fun p hp => ht p (.inr hp)) h2, h3]
  | .query sa sela prea grpa posta orda rowsa, .query sb selb preb grpb postb ordb rowsb, hf, ht, h => by
    simp only [Source.implEq] at h
    obtain ⟨h1, h⟩ := eqAnd_true h
    obtain ⟨h2, h⟩ := eqAnd_true h
    obtain ⟨h3, h⟩ := eqAnd_true h
    obtain ⟨h4, h⟩ := eqAnd_true h
    obtain ⟨h5, h⟩ := eqAnd_true h
    obtain ⟨h6, h7⟩ := eqAnd_true h
    simp at h7
    simp only [Source.cmpPairs, List.mem_append] at hf
    simp only [Source.tabPairs] at ht
    rw [C08_legacy_partial env sa sb (fun p hp => hf p (.inl (.inl (.inl (.inl (.inl hp)))))) ht h1,
      Features.complete env sela selb (fun p hp => hf p (.inl (.inl (.inl (.inl (.inr hp)))))) h2,
      FeatureOpt.complete env prea preb (fun p hp => hf p (.inl (.inl (.inl (.inr hp))))) h3,
      Features.complete env grpa grpb (fun p hp => hf p (.inl (.inl (.inr hp)))) h4,
      FeatureOpt.complete env posta postb (fun p hp => hf p (.inl (.inr hp))) h5,
      Orderings.complete env orda ordb (fun p hp => hf p (.inr hp)) h6, h7]
  | .table _ _, .ref _ _, _, _, h | .table _ _, .join _ _ _ _, _, _, h | .table _ _, .set _ _ _, _, _, h
  | .table _ _, .query _ _ _ _ _ _ _, _, _, h
  | .ref _ _, .table _ _, _, _, h | .ref _ _, .join _ _ _ _, _, _, h | .ref _ _, .set _ _ _, _, _, h
  | .ref _ _, .query _ _ _ _ _ _ _, _, _, h
  | .join _ _ _ _, .table _ _, _, _, h | .join _ _ _ _, .ref _ _, _, _, h | .join _ _ _ _, .set _ _ _, _, _, h
  | .join _ _ _ _, .query _ _ _ _ _ _ _, _, _, h
  | .set _ _ _, .table _ _, _, _, h | .set _ _ _, .ref _ _, _, _, h | .set _ _ _, .join _ _ _ _, _, _, h
  | .set _ _ _, .query _ _ _ _ _ _ _, _, _, h
  | .query _ _ _ _ _ _ _, .table _ _, _, _, h | .query _ _ _ _ _ _ _, .ref _ _, _, _, h
  | .query _ _ _ _ _ _ _, .join _ _ _ _, _, _, h | .query _ _ _ _ _ _ _, .set _ _ _, _, _, h => by
    simp [Source.implEq] at h

/-! ### the statement at full strength — false for the code that exists -/

/-- "equal exactly when structurally identical" for features and sources, in every hash environment -/
def C08_legacy_full : Prop :=
  ∀ (env : HashEnv HTerm), (∀ a b : Feature, Feature.implEq env a b = some true ↔ a = b)
    ∧ (∀ a b : Source, Source.implEq env a b = some true ↔ a = b)

/-- defect C08-X1: `Literal(-1) == Literal(-2)` and `Literal(0) == Literal(2**61-1)` in *every* environment -/
theorem C08_legacy_collision (env : HashEnv α) :
    Feature.implEq env (.lit (.int (-1))) (.lit (.int (-2))) = some true
    ∧ Feature.implEq env (.lit (.int 0)) (.lit (.int 2305843009213693951)) = some true := by
  have h1 : pyIntHash (-1) = pyIntHash (-2) := by decide
  have h2 : pyIntHash 0 = pyIntHash 2305843009213693951 := by decide
  simp [Feature.implEq, Feature.operable, Feature.H, Lit.H, Lit.kind, h1, h2]

theorem C08_legacy_counterexample : ¬ C08_legacy_full := by
  intro h
  have := ((h freeEnv).1 (.lit (.int (-1))) (.lit (.int (-2)))).mp (C08_legacy_collision freeEnv).1
  exact absurd this (by decide)

/-- defect C08-X2: two tables with the same fields and different names compare equal although they hash
differently (free environment: differently in every environment that tells the class names apart) -/
theorem C08_legacy_table_counterexample (fs : Fields) :
    Source.implEq freeEnv (.table "A" fs) (.table "B" fs) = some true
    ∧ Source.table "A" fs ≠ .table "B" fs
    ∧ (Source.table "A" fs).H freeEnv ≠ (Source.table "B" fs).H freeEnv := by
  refine ⟨by simp [Source.implEq, fieldsEq], by simp, ?_⟩
  simp [Source.H, freeEnv]

/-- defect C08-X3: `x == x.alias(n)` holds (the right operand is reduced to its operable), the other way
round the comparison is false or raises -/
theorem C08_legacy_alias_counterexample (env : HashEnv α) (x : Feature) (n : String) (hx : x.isAlias = false) :
    Feature.implEq env x (.alias x n) = some true ∧ x ≠ .alias x n
    ∧ Feature.implEq env (.alias x n) x ≠ some true := by
  refine ⟨?_, ?_, ?_⟩
  · cases x <;> simp_all [Feature.implEq, Feature.operable, Feature.isAlias]
  · intro h
    have := congrArg sizeOf h
    simp at this
    omega
  · cases x <;> simp_all [Feature.implEq, aliasEq, Feature.isAlias]

private theorem Feature.isAlias_mapInt (φ : Int → Int) (f : Feature) : (f.mapInt φ).isAlias = f.isAlias := by
  cases f <;> simp [Feature.mapInt, Feature.isAlias]

omit [DecidableEq α] in
/-- Renaming integer literals by any `φ` that preserves their hash (e.g. swapping −1 and −2, or adding a
multiple of 2^61−1) is invisible to `hash` in every context … -/
theorem C08_legacy_collision_lift_hash (env : HashEnv α) (φ : Int → Int) (hφ : ∀ n, pyIntHash (φ n) = pyIntHash n) :
    (∀ f : Feature, (f.mapInt φ).H env = f.H env) ∧ (∀ s : Source, (s.mapInt φ).H env = s.H env) :=
  ⟨Feature.H_mapInt env φ hφ, Source.H_mapInt env φ hφ⟩

/-- … hence to `==` on features: every feature equals its renamed version (dict / set / `lru_cache` keyed by
it return the other one's entry) -/
theorem C08_legacy_collision_lift (env : HashEnv α) (φ : Int → Int) (hφ : ∀ n, pyIntHash (φ n) = pyIntHash n)
    (f : Feature) : Feature.implEq env f (f.mapInt φ) = some true := by
  have h := Feature.H_mapInt env φ hφ
  cases f <;> simp [Feature.implEq, aliasEq, Feature.operable, Feature.mapInt] <;> first | exact (h _).symm | skip
  all_goals simp [← h, Feature.mapInt]

private theorem Features.implEq_mapInt (env : HashEnv α) (φ : Int → Int) (hφ : ∀ n, pyIntHash (φ n) = pyIntHash n) :
    (fs : Features) → Features.implEq env fs (fs.mapInt φ) = some true
  | .nil => by simp [Features.mapInt, Features.implEq]
  | .cons f fs => by
    simp [Features.mapInt, Features.implEq, eqAnd, C08_legacy_collision_lift env φ hφ f, Features.implEq_mapInt env φ hφ fs]

private theorem FeatureOpt.implEq_mapInt (env : HashEnv α) (φ : Int → Int) (hφ : ∀ n, pyIntHash (φ n) = pyIntHash n)
    (o : FeatureOpt) : FeatureOpt.implEq env o (o.mapInt φ) = Option.some true := by
  cases o <;> simp [FeatureOpt.mapInt, FeatureOpt.implEq, C08_legacy_collision_lift env φ hφ]

private theorem Orderings.implEq_mapInt (env : HashEnv α) (φ : Int → Int) (hφ : ∀ n, pyIntHash (φ n) = pyIntHash n) :
    (os : Orderings) → Orderings.implEq env os (os.mapInt φ) = some true
  | .nil => by simp [Orderings.mapInt, Orderings.implEq]
  | .cons (.mk f d) os => by
    simp [Orderings.mapInt, Ordering.mapInt, Orderings.implEq, Ordering.implEq, eqAnd,
      C08_legacy_collision_lift env φ hφ f, Orderings.implEq_mapInt env φ hφ os]

/-- … and on statements: a query and the same query with colliding literals exchanged are the same
dictionary key -/
theorem C08_legacy_collision_lift_source (env : HashEnv α) (φ : Int → Int) (hφ : ∀ n, pyIntHash (φ n) = pyIntHash n) :
    (s : Source) → Source.implEq env s (s.mapInt φ) = some true
  | .table n fs => by simp [Source.mapInt, Source.implEq, fieldsEq]
  | .ref s n => by simp [Source.mapInt, Source.implEq, eqAnd, C08_legacy_collision_lift_source env φ hφ s]
  | .join l r k c => by
    simp [Source.mapInt, Source.implEq, eqAnd, C08_legacy_collision_lift_source env φ hφ l,
      C08_legacy_collision_lift_source env φ hφ r, FeatureOpt.implEq_mapInt env φ hφ c]
  | .set l r k => by
    simp [Source.mapInt, Source.implEq, eqAnd, C08_legacy_collision_lift_source env φ hφ l,
      C08_legacy_collision_lift_source env φ hφ r]
  | .query s sel pre grp post ord rows => by
    simp [Source.mapInt, Source.implEq, eqAnd, C08_legacy_collision_lift_source env φ hφ s,
      Features.implEq_mapInt env φ hφ, FeatureOpt.implEq_mapInt env φ hφ, Orderings.implEq_mapInt env φ hφ]

/-- the renaming that exchanges −1 and −2 preserves every integer hash -/
def swapNeg (n : Int) : Int := if n = -1 then -2 else if n = -2 then -1 else n

theorem C08_legacy_swapNeg_hash (n : Int) : pyIntHash (swapNeg n) = pyIntHash n := by
  unfold swapNeg
  split
  · subst_vars; decide
  · split
    · subst_vars; decide
    · rfl

/-! ### pickling -/

/-- "identity survives pickling" at full strength -/
def C08_legacy_pickle_full : Prop := (∀ k : Kind, k.pickle = some k) ∧ (∀ s : Source, s.pickle = some s)

private theorem Kind.pickle_primitive (k : Kind) (h : k.isPrimitive = true) : k.pickle = some k := by
  cases k <;> simp_all [Kind.pickle, Kind.isPrimitive]

private theorem fieldsPickle_primitive : (fs : Fields) → fieldsPrimitive fs = true → fieldsPickle fs = some fs
  | [], _ => rfl
  | (n, k) :: fs, h => by
    simp [fieldsPrimitive] at h
    simp [fieldsPickle, Kind.pickle_primitive k h.1, fieldsPickle_primitive fs (by simpa [fieldsPrimitive] using h.2)]

mutual
private theorem Feature.pickle_ok : (f : Feature) → f.noCompound = true → f.pickle = some f
  | .lit v, _ => by simp [Feature.pickle]
  | .elem o n, h => by
    simp [Feature.noCompound] at h
    simp [Feature.pickle, Source.pickle_ok o h]
  | .alias f n, h => by
    simp [Feature.noCompound] at h
    simp [Feature.pickle, Feature.pickle_ok f h]
  | .expr op args, h => by
    simp [Feature.noCompound] at h
    simp [Feature.pickle, Features.pickle_ok args h]
  | .cast f k, h => by
    simp [Feature.noCompound] at h
    simp [Feature.pickle, Feature.pickle_ok f h.1, Kind.pickle_primitive k h.2]
  | .window fn ps os, h => by
    simp [Feature.noCompound] at h
    simp [Feature.pickle, Feature.pickle_ok fn h.1.1, Features.pickle_ok ps h.1.2, Orderings.pickle_ok os h.2]
private theorem Features.pickle_ok : (fs : Features) → fs.noCompound = true → fs.pickle = some fs
  | .nil, _ => by simp [Features.pickle]
  | .cons f fs, h => by
    simp [Features.noCompound] at h
    simp [Features.pickle, Feature.pickle_ok f h.1, Features.pickle_ok fs h.2]
private theorem FeatureOpt.pickle_ok : (o : FeatureOpt) → o.noCompound = true → o.pickle = Option.some o
  | .none, _ => by simp [FeatureOpt.pickle]
  | .some f, h => by
    simp [FeatureOpt.noCompound] at h
    simp [FeatureOpt.pickle, Feature.pickle_ok f h]
private theorem Ordering.pickle_ok : (o : Ordering) → o.noCompound = true → o.pickle = some o
  | .mk f d, h => by
    simp [Ordering.noCompound] at h
    simp [Ordering.pickle, Feature.pickle_ok f h]
private theorem Orderings.pickle_ok : (os : Orderings) → os.noCompound = true → os.pickle = some os
  | .nil, _ => by simp [Orderings.pickle]
  | .cons o os, h => by
    simp [Orderings.noCompound] at h
    simp [Orderings.pickle, Ordering.pickle_ok o h.1, Orderings.pickle_ok os h.2]
private theorem Source.pickle_ok : (s : Source) → s.noCompound = true → s.pickle = some s
  | .table n fs, h => by
    simp [Source.noCompound] at h
    simp [Source.pickle, fieldsPickle_primitive fs h]
  | .ref s n, h => by
    simp [Source.noCompound] at h
    simp [Source.pickle, Source.pickle_ok s h]
  | .join l r k c, h => by
    simp [Source.noCompound] at h
    simp [Source.pickle, Source.pickle_ok l h.1.1, Source.pickle_ok r h.1.2, FeatureOpt.pickle_ok c h.2]
  | .set l r k, h => by
    simp [Source.noCompound] at h
    simp [Source.pickle, Source.pickle_ok l h.1, Source.pickle_ok r h.2]
  | .query s sel pre grp post ord rows, h => by
    simp [Source.noCompound] at h
    simp [Source.pickle, Source.pickle_ok s h.1.1.1.1.1, Features.pickle_ok sel h.1.1.1.1.2,
      FeatureOpt.pickle_ok pre h.1.1.1.2, Features.pickle_ok grp h.1.1.2, FeatureOpt.pickle_ok post h.1.2,
      Orderings.pickle_ok ord h.2]
end

/-- objects without compound kinds are reconstructed identically (hence equal and hash-equal, `C08_legacy_sound_*`) -/
theorem C08_legacy_pickle_partial :
    (∀ k : Kind, k.isPrimitive = true → k.pickle = some k)
    ∧ (∀ f : Feature, f.noCompound = true → f.pickle = some f)
    ∧ (∀ s : Source, s.noCompound = true → s.pickle = some s) :=
  ⟨Kind.pickle_primitive, Feature.pickle_ok, Source.pickle_ok⟩

/-- defect C08-X4: a compound kind does not survive pickling -/
theorem C08_legacy_pickle_counterexample : ¬ C08_legacy_pickle_full := by
  intro h
  have := h.1 (.array .integer)
  simp [Kind.pickle] at this

/-! ### non-vacuity (tests, not theorems about all inputs) -/

section NonVacuity

private def tA : Source := .table "A" [("a", .integer), ("b", .string)]
private def tB : Source := .table "B" [("a", .integer), ("d", .date)]
private def colA (n : String) : Feature := .elem tA n
private def q (lim : Int) : Source :=
  .query tA (.cons (.alias (colA "a") "x") (.cons (colA "b") .nil))
    (.some (.expr .gt (.cons (colA "a") (.cons (.lit (.int lim)) .nil)))) .nil .none
    (.cons (.mk (colA "b") .desc) .nil) (some (10, 0))

/-- the hypotheses of `C08_legacy_partial` hold for a non-trivial pair (queries differing in one literal,
free environment) and the conclusion is used: the two are told apart -/
example : (∀ p ∈ Source.cmpPairs (q 1) (q 2), Faithful freeEnv p) ∧ (∀ p ∈ Source.tabPairs (q 1) (q 2), NoTwin p)
    ∧ Source.implEq freeEnv (q 1) (q 2) = some false := by decide

/-- … while the colliding pair is confused, as `C08_legacy_collision_lift_source` says -/
example : Source.implEq freeEnv (q (-1)) (q (-2)) = some true ∧ (q (-1)).mapInt swapNeg = q (-2) := by decide

example : (q 1).noCompound = true ∧ (q 1).pickle = some (q 1) := by decide

example : Source.implEq freeEnv (.join tA tB .inner (.some (.expr .eq (.cons (colA "a") (.cons (.elem tB "a") .nil)))))
    (.join tA tB .left (.some (.expr .eq (.cons (colA "a") (.cons (.elem tB "a") .nil))))) = some false := by decide

end NonVacuity

end ForML.Dsl
