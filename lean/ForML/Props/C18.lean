/-
C18 — Persisted metadata and keys read back exactly as written.

Property theorems over the models in ForML.Model.{Tag,Keys,Manifest}.  The work is done in
ForML.Lemmas.C18Order (comparators, listings), C18GenKey / C18Values (key text, keys from Python values), C18Str / C18Tag (tags),
C18Py / C18Manifest (manifests), C18Exact (the excluded regions fail everywhere), C18Store / C18Proc (histories over
locations), C18Load (component resolution, package content); this file states the obligations.  Nothing is size-bounded: strings, key sets,
release segments, local-version segments, state lists and module maps are arbitrary lists.
-/
import ForML.Lemmas.C18Order
import ForML.Lemmas.C18GenKey
import ForML.Lemmas.C18Tag
import ForML.Lemmas.C18Manifest
import ForML.Lemmas.C18Exact
import ForML.Lemmas.C18Proc
import ForML.Lemmas.C18Load
import ForML.Lemmas.C18Values
import ForML.Lemmas.C18Pep440

/-! ## keys and listings -/
namespace ForML.Keys

/-- **listing is strictly sorted** (hence duplicate-free) for every strict total order and every input. -/
theorem C18_listing_sorted {cmp : α → α → Ordering} (h : Lawful cmp) (xs : List α) :
    (listing cmp xs).Pairwise (fun a b => cmp a b = .lt) :=
  foldl_insert_sorted h xs [] List.Pairwise.nil

/-- **listing has exactly the elements of the input** -/
theorem C18_listing_mem {cmp : α → α → Ordering} (h : Lawful cmp) (xs : List α) (x : α) :
    x ∈ listing cmp xs ↔ x ∈ xs := by
  simp [listing, foldl_insert_mem h]

/-- **listing is duplicate-free** -/
theorem C18_listing_nodup {cmp : α → α → Ordering} (h : Lawful cmp) (xs : List α) :
    (listing cmp xs).Nodup := by
  refine (C18_listing_sorted h xs).imp ?_
  intro a b hab e
  subst e
  rw [h.refl] at hab
  cases hab

/-- **"latest" is the maximum**: `last` of a listing is an element of the input and everything else is
strictly below it. -/
theorem C18_listing_last_max {cmp : α → α → Ordering} (h : Lawful cmp) (xs : List α) (m : α)
    (hl : last (listing cmp xs) = .ok m) : m ∈ xs ∧ ∀ x ∈ xs, x = m ∨ cmp x m = .lt := by
  unfold last at hl
  split at hl
  · rename_i y hy
    cases hl
    refine ⟨(C18_listing_mem h xs _).mp (List.mem_of_getLast? hy), ?_⟩
    intro x hx
    exact sorted_last _ _ (C18_listing_sorted h xs) hy x ((C18_listing_mem h xs x).mpr hx)
  · cases hl

/-- `last` raises `Listing.Empty` exactly on an empty input -/
theorem C18_listing_empty {cmp : α → α → Ordering} (h : Lawful cmp) (xs : List α) :
    last (listing cmp xs) = .error .empty ↔ xs = [] := by
  unfold last
  split
  · rename_i y hy
    have hm := (C18_listing_mem h xs y).mp (List.mem_of_getLast? hy)
    constructor
    · intro e; cases e
    · intro e; subst e; cases hm
  · rename_i hn
    have hnil : listing cmp xs = [] := List.getLast?_eq_none_iff.mp hn
    constructor
    · intro _
      cases xs with
      | nil => rfl
      | cons x r =>
        have : x ∈ listing cmp (x :: r) := (C18_listing_mem h _ x).mpr (by simp)
        rw [hnil] at this; cases this
    · intro _; rfl

/-- **the key after the latest generation is unused** -/
theorem C18_listing_next_unused (xs : List Nat) (m : Nat) (hl : last (listing natCmp xs) = .ok m) :
    genNext m ∉ xs := by
  intro hin
  rcases (C18_listing_last_max lawful_nat xs m hl).2 _ hin with e | hlt
  · simp [genNext] at e
  · unfold natCmp genNext at hlt
    split at hlt
    · omega
    · split at hlt <;> cases hlt

/-- non-vacuity: a listing with duplicates -/
example : listing natCmp [3, 1, 3, 2] = [1, 2, 3] ∧ last (listing natCmp [3, 1, 3, 2]) = .ok 3 := by decide

/-- **generation keys**: a text is accepted exactly when it denotes an integer `>= 1`, and the key is that integer;
rejection is `not an integer` when the text does not parse and `not natural` when it parses below one. -/
theorem C18_genkey (s : List Nat) :
    (∀ k, genKey s = .ok k ↔ ∃ i : Int, parseInt s = some i ∧ 1 ≤ i ∧ i.toNat = k) ∧
    (genKey s = .error .notInteger ↔ parseInt s = none) ∧
    (genKey s = .error .notNatural ↔ ∃ i : Int, parseInt s = some i ∧ i < 1) := by
  unfold genKey genMin
  cases hp : parseInt s with
  | none => simp
  | some i =>
    by_cases hi : i < 1
    · simp [hi]
    · simp [hi]; omega

/-- non-vacuity / examples: `" +1_0 "` is 10, `"0"`, `"-1"` are not natural, `"1__0"`, `""`, `"1.0"` are not integers -/
example : genKey [32, 43, 49, 95, 48, 32] = .ok 10 ∧ genKey [48] = .error .notNatural ∧ genKey [45, 49] = .error .notNatural
    ∧ genKey [49, 95, 95, 48] = .error .notInteger ∧ genKey [] = .error .notInteger ∧ genKey [49, 46, 48] = .error .notInteger := by
  decide

/-- **a plain digit string is read as its positional value** (leading zeros allowed), and **`Key(str(k)) = k`**: the
decimal text of every natural `k ≥ 1` is accepted as `k`, `str(0)` is rejected — generation keys are the naturals from one. -/
theorem C18_genkey_text :
    (∀ ds : List Nat, ds ≠ [] → (∀ c ∈ ds, isDigit c = true) → parseInt ds = some (Int.ofNat (valOf 0 ds))) ∧
    (∀ n : Nat, genKey (natStr n) = if 1 ≤ n then .ok n else .error .notNatural) :=
  ⟨parseInt_digits, genKey_natStr⟩

/-- generation keys compare as natural numbers (a strict total order) and `next` is the successor, above the key -/
theorem C18_genkey_order : Lawful natCmp ∧ ∀ k : Nat, natCmp k (genNext k) = .lt := by
  refine ⟨lawful_nat, fun k => ?_⟩
  simp [natCmp, genNext]

/-- **release keys are strictly totally ordered by their comparison key**: irreflexive, transitive, and exactly one of
`a < b`, `key a = key b`, `b < a` holds — for releases and local versions of any length. -/
theorem C18_version_order :
    (∀ a : Version, vcmp a a = .eq) ∧
    (∀ a b c : Version, vcmp a b = .lt → vcmp b c = .lt → vcmp a c = .lt) ∧
    (∀ a b : Version, vcmp a b = .eq ↔ cmpkey a = cmpkey b) ∧
    (∀ a b : Version, vcmp a b = .gt ↔ vcmp b a = .lt) ∧
    (∀ a b : Version, vcmp a b = .lt ∨ cmpkey a = cmpkey b ∨ vcmp b a = .lt) := by
  have h := lawful_cmpKey
  refine ⟨fun a => h.refl _, fun a b c => h.trans _ _ _, fun a b => h.eq_iff _ _, fun a b => h.gt_iff _ _, ?_⟩
  intro a b
  cases hab : vcmp a b with
  | lt => exact Or.inl rfl
  | eq => exact Or.inr (Or.inl ((h.eq_iff _ _).mp hab))
  | gt => exact Or.inr (Or.inr ((h.gt_iff _ _).mp hab))

/-- trailing zeros of the release are insignificant (`1.0.0 == 1`) -/
theorem C18_version_trailing_zero (v : Version) :
    vcmp { v with release := v.release ++ [0] } v = .eq := by
  have : cmpkey { v with release := v.release ++ [0] } = cmpkey v := by
    unfold cmpkey
    simp only [trim_snoc_zero]
  unfold vcmp
  rw [this]
  exact lawful_cmpKey.refl _

/-- **epoch first, then the release segment compared numerically position by position** (`1.9 < 1.10`, `1!0.1 > 99`),
for releases of any length -/
theorem C18_version_epoch_release (a b : Version) :
    (a.epoch < b.epoch → vcmp a b = .lt) ∧
    (a.epoch = b.epoch → listCmp natCmp (trim a.release) (trim b.release) = .lt → vcmp a b = .lt) :=
  vcmp_epoch_release a b

/-- **PEP 440 ordering rules** within one release `X` (any epoch, any release segment, any numbers):
`X.devN < XaN < XbN < XrcN < X < X.postN`, a dev release of a pre-release sorts before it, and a local version
sorts after its public version. -/
theorem C18_version_rules (e : Nat) (r : List Nat) (n m : Nat) :
    let X (pre : Option (Nat × Nat)) (post dev : Option Nat) (loc : Option (List Seg)) : Version :=
      { epoch := e, release := r, pre := pre, post := post, dev := dev, loc := loc }
    vcmp (X none none (some n) none) (X (some (0, m)) none none none) = .lt ∧
    vcmp (X (some (0, n)) none none none) (X (some (1, m)) none none none) = .lt ∧
    vcmp (X (some (1, n)) none none none) (X (some (2, m)) none none none) = .lt ∧
    vcmp (X (some (2, n)) none none none) (X none none none none) = .lt ∧
    vcmp (X none none none none) (X none (some m) none none) = .lt ∧
    vcmp (X (some (0, n)) none (some m) none) (X (some (0, n)) none none none) = .lt ∧
    vcmp (X none none none none) (X none none none (some [.num m])) = .lt := by
  intro X
  simp only [X, vcmp, cmpkey, cmpKey_same, stableSuffix]
  simp [prodCmp, listCmp, intCmp, optCmp]

/-- numeric, not textual, comparison of release segments: `1.9 < 1.10`; non-vacuity of the order theorem -/
example : vcmp ⟨0, [1, 9], none, none, none, none⟩ ⟨0, [1, 10], none, none, none, none⟩ = .lt ∧
    vcmp ⟨0, [1, 0], none, none, none, none⟩ ⟨0, [1], none, none, none, none⟩ = .eq ∧
    vcmp ⟨0, [1], none, none, none, some [.str [97]]⟩ ⟨0, [1], none, none, none, some [.num 1]⟩ = .lt := by decide

end ForML.Keys

/-! ## generation tags -/
namespace ForML.Tag

/-- **string ordinals round-trip through the TOML basic-string writer and reader** on the safe region (`safeStr`): no
character that `repr` writes as `\xNN`, no backslash directly followed by `x`, and not `"` / not starting with `""`.
Arbitrary length, any other characters (quotes, backslashes, tabs, newlines, `#`, `=`, non-ASCII …). -/
theorem C18_str_roundtrip (s : List Nat) (h : safeStr s = true) :
    ∃ lit, dumpStr s = .ok lit ∧ loadStr lit = .ok s :=
  ⟨_, (str_roundtrip s h).1, (str_roundtrip s h).2⟩

/-- non-vacuity: a string with quotes, backslashes, apostrophe, tab, newline, `#`, `=`, a non-ASCII letter and `\u`; it is
safe and its literal is what the writer emits -/
example : safeStr [97, 34, 92, 39, 9, 10, 35, 61, 233, 92, 117] = true ∧
    dumpStr [97, 34, 92] = .ok [34, 97, 92, 34, 92, 92, 34] := by decide

/-- the property at full strength: every tag reads back equal -/
def C18_tag_roundtrip_full : Prop := ∀ t : Tag, ∃ d, dumps t = .ok d ∧ loads d = .ok t

/-- **tags round-trip** for all timestamps (present or absent, both modes — the repaired `loads`), scores, state lists
and every ordinal except `Decimal` (finding F4) and strings outside the safe region (findings F1, F2). -/
theorem C18_tag_roundtrip_partial (t : Tag) (h : safeOrd t.ordinal = true) :
    ∃ d, dumps t = .ok d ∧ loads d = .ok t :=
  tag_roundtrip t h

/-- **the rest of the tag never depends on the ordinal's kind**: whenever the ordinal itself is written and read back,
so is the whole tag (timestamps present or absent, score, any number of states). -/
theorem C18_tag_roundtrip_of_ordinal (t : Tag) (ov : Option TVal) (hd : dumpOrd? t.ordinal = .ok ov)
    (hl : loadOrd? ov = .ok t.ordinal) : ∃ d, dumps t = .ok d ∧ loads d = .ok t :=
  tag_roundtrip_of_ordinal t ov hd hl

/-- **timestamps present or absent** (the repaired D19): a tag without ordinal reads back equal whatever combination of
training / tuning timestamps, score and states it has — in particular the empty tag `Tag()`. -/
theorem C18_tag_timestamps_roundtrip (trainTs tuneTs : Option Ts) (score : Option Num) (states : List Nat) :
    ∃ d, dumps ⟨trainTs, none, tuneTs, score, states⟩ = .ok d ∧ loads d = .ok ⟨trainTs, none, tuneTs, score, states⟩ :=
  tag_roundtrip _ rfl

def ts0 : Ts := ⟨2020, 1, 2, 3, 4, 5, 0, none⟩

/-- non-vacuity: a fully populated tag satisfying the hypothesis -/
example : safeOrd (Tag.mk (some ts0) (some (.str [97, 34, 92, 10])) (some ts0) (some (.float 5)) [1, 2, 3]).ordinal = true := by
  decide

/-- the code before the repair (C18-X1): `Tag()` is written but `loads` raises `KeyError('timestamp')` -/
theorem C18_tag_unrepaired_counterexample :
    ∃ d, dumps ⟨none, none, none, none, []⟩ = .ok d ∧ loadsStrict d = .error (.keyError .timestamp) :=
  ⟨_, rfl, by decide⟩

/-- … and that is exactly the difference: the unrepaired reader fails on every written tag without a training
timestamp and agrees with the repaired one on all others -/
theorem C18_tag_unrepaired_exact (t : Tag) (d : Doc) (hd : dumps t = .ok d) :
    loadsStrict d = if t.trainTs.isSome then loads d else .error (.keyError .timestamp) :=
  loadsStrict_eq t d hd

/-- `'a\x01b'` is written as `"ax01b"` and comes back as `'ax01b'`; `'\x85'` raises in the writer; `'a\\xb'` is written
with a reserved escape the reader rejects (known finding C18-F1) -/
theorem C18_tag_string_x_counterexample :
    dumpStr [97, 1, 98] = .ok [34, 97, 120, 48, 49, 98, 34] ∧ loadStr [34, 97, 120, 48, 49, 98, 34] = .ok [97, 120, 48, 49, 98]
    ∧ dumpStr [133] = .error .indexError
    ∧ dumpStr [97, 92, 120, 98] = .ok [34, 97, 92, 120, 98, 34] ∧ loadStr [34, 97, 92, 120, 98, 34] = .error .reserved := by
  decide

/-- `'"'` is written correctly as `"\""` but comes back empty (known finding C18-F2) -/
theorem C18_tag_string_quotes_counterexample :
    dumpStr [34] = .ok [34, 92, 34, 34] ∧ loadStr [34, 92, 34, 34] = .ok [] ∧
    dumpStr [34, 34, 97] = .ok [34, 92, 34, 92, 34, 97, 34] ∧ loadStr [34, 92, 34, 92, 34, 97, 34] = .ok [] := by
  decide

/-- **finding F2 is the whole region, not a sample**: every string that is `"` or starts with `""` (outside the `\x`
region) is written, read back without an error, and comes back different — `leadingQuotes` excludes nothing that works -/
theorem C18_tag_string_quotes_exact (s : List Nat) (hx : noXEsc s = true) (hb : hasBX s = false)
    (hq : leadingQuotes s = true) : ∃ lit t, dumpStr s = .ok lit ∧ loadStr lit = .ok t ∧ t ≠ s :=
  str_leadingQuotes_fails s hx hb hq

/-- each of the three conditions of `safeStr` is needed: the witnesses of F1 / F2 violate exactly one of them -/
example : (noXEsc [97, 1, 98] = false ∧ hasBX [97, 1, 98] = false ∧ leadingQuotes [97, 1, 98] = false) ∧
    (noXEsc [97, 92, 120, 98] = true ∧ hasBX [97, 92, 120, 98] = true ∧ leadingQuotes [97, 92, 120, 98] = false) ∧
    (noXEsc [34] = true ∧ hasBX [34] = false ∧ leadingQuotes [34] = true) := by decide

/-- a `Decimal` ordinal comes back as a float (known finding C18-F4) -/
theorem C18_tag_decimal_counterexample :
    ∃ d, dumps ⟨some ts0, some (.decimal [49, 46, 53] 1 4609434218613702656), none, none, []⟩ = .ok d ∧
      loads d = .ok ⟨some ts0, some (.float 4609434218613702656), none, none, []⟩ :=
  ⟨_, rfl, by decide⟩

/-- **finding F4 is the whole region**: whatever the rest of the tag, a `Decimal` ordinal reads back as the float or
the int of its text and everything else reads back intact -/
theorem C18_tag_decimal_exact (trainTs tuneTs : Option Ts) (score : Option Num) (states text : List Nat) (i : Int) (f : Nat) :
    ∃ d o', dumps ⟨trainTs, some (.decimal text i f), tuneTs, score, states⟩ = .ok d ∧
      loads d = .ok ⟨trainTs, some o', tuneTs, score, states⟩ ∧ (o' = .float f ∨ o' = .int i) :=
  tag_decimal_fails trainTs tuneTs score states text i f

theorem C18_tag_roundtrip_counterexample : ¬ C18_tag_roundtrip_full := by
  intro h
  obtain ⟨d, hd, hl⟩ := h ⟨some ts0, some (.decimal [49, 46, 53] 1 4609434218613702656), none, none, []⟩
  obtain ⟨d', hd', hl'⟩ := C18_tag_decimal_counterexample
  rw [hd] at hd'
  cases hd'
  rw [hl] at hl'
  cases hl'

end ForML.Tag

/-! ## manifests -/
namespace ForML.Manifest

/-- **string literals**: a name / version / package over a clean alphabet pasted between double quotes, and a module
path of BMP characters written by `json.dumps` (which escapes `"`, `\`, control characters and everything non-ASCII
as `\uXXXX`), are read back unchanged by Python. -/
theorem C18_manifest_literals (s rest : List Nat) :
    (clean s = true → pyStr (s ++ 34 :: rest) = .ok (s, rest)) ∧
    (bmp s = true → pyStr (jstr s ++ 34 :: rest) = .ok (s, rest)) :=
  ⟨pyStr_clean s rest, pyStr_jstr s rest⟩

/-- the module map alone: any number of entries, insertion order kept -/
theorem C18_manifest_modules (m : List (List Nat × List Nat)) (h : bmpPairs m = true) : pyDict (jdict m) = .ok m :=
  pyDict_jdict m h

/-- the statement for arbitrary module-map strings (names, versions, packages clean) -/
def C18_manifest_roundtrip_full : Prop :=
  ∀ m : Manifest, clean m.name = true → clean m.version = true → clean m.package = true → read (render m) = .ok m

/-- **manifests round-trip**: `read (write m) = m` for names / versions / packages without `"`, `\`, line breaks and
module maps (any number of entries, insertion order kept) whose keys and values are BMP text — quotes, backslashes,
control characters and non-ASCII letters included; only characters beyond U+FFFF are excluded (finding F5). -/
theorem C18_manifest_roundtrip_partial (m : Manifest) (h : legal m = true) : read (render m) = .ok m :=
  read_render m h

/-- the legal alphabets of names (PEP 503), versions (PEP 440 normal form) and dotted packages are clean -/
theorem C18_manifest_legal_alphabet (m : Manifest) (hn : m.name.all nameChar = true) (hv : m.version.all nameChar = true)
    (hp : m.package.all nameChar = true) (hm : bmpPairs m.modules = true) : read (render m) = .ok m := by
  apply read_render
  simp only [legal, clean_of_nameChars _ hn, clean_of_nameChars _ hv, clean_of_nameChars _ hp, hm, Bool.and_self]

/-- non-vacuity: a manifest with a three-entry module map containing a quote, a backslash, a newline and `é` -/
example : legal ⟨[102, 111, 111], [49, 46, 48, 114, 99, 49], [97, 46, 98],
    [([115], [120, 46, 121]), ([112], [97, 34, 98, 10]), ([101], [92, 233])]⟩ = true := by decide

/-- a module path with a character outside the BMP reads back as two surrogates (known finding C18-F5) -/
theorem C18_manifest_nonbmp_witness :
    (read (render ⟨[112], [49], [97], [([115], [119857])]⟩)).map (·.modules) = .ok [([115], [55349, 56369])] := by
  decide

/-- **finding F5 is the whole region**: every Unicode scalar value beyond the BMP, written by `json.dumps` as a surrogate
pair, is read back by Python as two code units — `bmp` excludes nothing that works -/
theorem C18_manifest_nonbmp_exact (c : Nat) (h : astral c = true) (rest : List Nat) :
    ∃ t, pyStr (jstr [c] ++ 34 :: rest) = .ok (t, rest) ∧ t ≠ [c] :=
  astral_value_fails c h rest

theorem C18_manifest_nonbmp_counterexample : ¬ C18_manifest_roundtrip_full := by
  intro h
  have h1 := h ⟨[112], [49], [97], [([115], [119857])]⟩ (by decide) (by decide) (by decide)
  have h2 := C18_manifest_nonbmp_witness
  rw [h1] at h2
  revert h2
  decide

/-- outside the legal alphabet the failure is characterised: a name with `\\` silently changes, one with `"` breaks the
module -/
theorem C18_manifest_illegal_name :
    (read (render ⟨[102, 92, 92, 111], [49], [97], []⟩)).map (·.name) = .ok [102, 92, 111] ∧
    read (render ⟨[102, 34, 111], [49], [97], []⟩) = .error .syntax := by
  decide

end ForML.Manifest

/-! ## keys from Python values -/
namespace ForML.Keys

/-- **invalid generation keys are rejected, whatever their Python type**: `Generation.Key(value)` looks at `str(value)`.
An `int` (or a key) is accepted exactly from one on and is itself; a `bool`, `None`, `bytes`, a tuple and every float
(integral or not — its text has a `.`, an `e` or an `n`) are rejected as not an integer; a `str` goes by its text
(`C18_genkey`). -/
theorem C18_genkey_values :
    (∀ i : Int, genKeyV (.int i) = if 1 ≤ i then .ok i.toNat else .error .notNatural) ∧
    (∀ b : Bool, genKeyV (.bool b) = .error .notInteger) ∧
    genKeyV .none = .error .notInteger ∧
    (∀ r : List Nat, genKeyV (.bytes r) = .error .notInteger) ∧
    (∀ r : List Nat, genKeyV (.tuple r) = .error .notInteger) ∧
    (∀ r : List Nat, floatShape r = true → genKeyV (.float r) = .error .notInteger) ∧
    (∀ s : List Nat, genKeyV (.str s) = genKey s) :=
  ⟨genKeyV_int, genKeyV_bool, genKeyV_none, genKeyV_bytes, genKeyV_tuple, genKeyV_float, fun _ => rfl⟩

/-- `int()` reads a text only over white space, digits, underscore and sign: anything else anywhere makes the key invalid -/
theorem C18_genkey_alphabet (s : List Nat) (c : Nat) (hc : c ∈ s) (hb : intChar c = false) :
    genKey s = .error .notInteger :=
  genKey_bad_char s c hc hb

/-- non-vacuity: `1.5`, `2.0`, `1e+16`, `inf`, `nan` have the float shape; `True` is rejected, `7` accepted, `0` and `-3` not natural -/
example : floatShape [49, 46, 53] = true ∧ floatShape [50, 46, 48] = true ∧ floatShape [49, 101, 43, 49, 54] = true ∧
    floatShape [105, 110, 102] = true ∧ floatShape [110, 97, 110] = true ∧
    genKeyV (.bool true) = .error .notInteger ∧ genKeyV (.int 7) = .ok 7 ∧ genKeyV (.int 0) = .error .notNatural ∧
    genKeyV (.int (-3)) = .error .notNatural ∧ genKeyV (.float [49, 46, 53]) = .error .notInteger := by decide

/-- **values that are not versions are rejected by `Release.Key`**: `bool`, `None`, `bytes`, tuples and negative ints — a
PEP 440 text starts (after white space and an optional `v`) with a digit -/
theorem C18_relkey_values :
    (∀ b : Bool, relKeyV (.bool b) = none) ∧ relKeyV .none = none ∧ (∀ r : List Nat, relKeyV (.bytes r) = none) ∧
    (∀ r : List Nat, relKeyV (.tuple r) = none) ∧ (∀ n : Nat, relKeyV (.int (Int.negSucc n)) = none) ∧
    (∀ (c : Nat) (r : List Nat), isSpaceU c = false → (lower c == 118) = false → isDigit c = false → vparse (c :: r) = none) :=
  ⟨relKeyV_bool, relKeyV_none, relKeyV_bytes, relKeyV_tuple, relKeyV_negative, vparse_bad_head⟩

/-- **`Release.Key(str(k)) == k`**: the normalised text `str(v)` of every well-formed version (a release, pre kind a/b/rc,
local parts non-empty lower-case alphanumeric and not all digits) is parsed back to exactly the same fields — for releases
and local versions of any length; so a key made from a `Version` / `Release.Key` object, and a key made from a
non-negative `int`, are accepted as that version -/
theorem C18_version_str_roundtrip :
    (∀ v : Version, wfVersion v = true → vparse (vstr v) = some v) ∧
    (∀ v : Version, wfVersion v = true → relKeyV (.version v) = some v) ∧
    (∀ n : Nat, vparse (pyStr (.int (Int.ofNat n))) = some ⟨0, [n], none, none, none, none⟩) := by
  refine ⟨vparse_vstr, vparse_vstr, fun n => ?_⟩
  have := vparse_vstr ⟨0, [n], none, none, none, none⟩ rfl
  show vparse (natStr n) = _
  simpa [vstr, joinWith] using this

/-- non-vacuity: a version with every part is well-formed; its text is what `packaging` prints -/
example : wfVersion ⟨1, [2, 0], some (2, 1), some 2, some 0, some [.str [117, 98], .num 1]⟩ = true ∧
    vstr ⟨1, [2, 0], some (2, 1), some 2, some 0, some [.str [117, 98], .num 1]⟩ =
      [49, 33, 50, 46, 48, 114, 99, 49, 46, 112, 111, 115, 116, 50, 46, 100, 101, 118, 48, 43, 117, 98, 46, 49] := by decide

/-- non-vacuity of the text parser: every spelling group of PEP 440 (`v` prefix, epoch, `-rc.1`, implicit post `-2`,
`dev`, local version with mixed separators and case) -/
example : vparse [32, 86, 49, 33, 50, 46, 48, 45, 82, 67, 46, 49, 45, 50, 46, 100, 101, 118, 43, 85, 98, 45, 49, 95, 120, 10] =
    some ⟨1, [2, 0], some (2, 1), some 2, some 0, some [.str [117, 98], .num 1, .str [120]]⟩ ∧
    vparse [49, 46, 48, 97, 46] = some ⟨0, [1, 0], some (0, 0), none, none, none⟩ ∧
    vparse [49, 46, 48, 43] = none ∧ vparse [49, 46, 46, 48] = none ∧ vparse [49, 46, 48, 97, 108, 112, 104] = none := by decide

end ForML.Keys

/-! ## histories over locations -/
namespace ForML.Store

/-- the statement at full strength: in one process, whatever sequence of `Manifest.write`, `Package.create`,
`Package.install`, `Manifest.read` and removals is run on a set of locations, with or without bytecode files, every
observation is that of the logical store `Path → Content` (every read returns the last write to that path) -/
def C18_store_read_your_writes_full : Prop :=
  ∀ (bc : Bool) (h : List Op), (prun bc Store.empty Memo.empty h).2.2 = (lrun (abs Store.empty) h).2

/-- **read-your-writes for every history** that does not change the kind (zip file / directory) of a location the
process has a path entry finder for (`okKind`) — whatever the clock and the bytecode setting -/
theorem C18_store_read_your_writes_partial (bc : Bool) (h : List Op) (hok : pokRun bc Store.empty Memo.empty h = true) :
    (prun bc Store.empty Memo.empty h).2.2 = (lrun (abs Store.empty) h).2 :=
  prun_refines bc h Store.empty Memo.empty (fresh_of_noPyc (fun _ _ hp => by cases hp)) consistent_empty hok

/-- … from any fresh store with a consistent finder cache -/
theorem C18_store_refines (bc : Bool) (h : List Op) (s : Store) (k : Memo) (hf : Fresh s) (hc : Consistent k s)
    (hok : pokRun bc s k h = true) : (prun bc s k h).2.2 = (lrun (abs s) h).2 :=
  prun_refines bc h s k hf hc hok

/-- **no read is ever served from stale bytecode (the repaired C18-F6)**: at the file level (mtimes in whole seconds,
`__pycache__`) every history from a fresh store observes the logical store — bytecode files on or off, no condition on
the clock — because `Manifest.write` removes the cache file of the module it writes -/
theorem C18_store_file_level (bc : Bool) (h : List Op) (s : Store) (hf : Fresh s) :
    (run bc s h).2 = (lrun (abs s) h).2 :=
  (run_refines bc h s hf).1

def m10 : SM := ⟨[112], ⟨0, [1, 0], none, none, none, none⟩, [97], []⟩
def m11 : SM := ⟨[112], ⟨0, [1, 1], none, none, none, none⟩, [97], []⟩
def m20 : SM := ⟨[112], ⟨0, [2, 0], none, none, none, none⟩, [97], []⟩

/-- the code before the repair (C18-F6): write `1.0`, read, write `1.1` within the same second (same length), read: the
old manifest comes back; the repaired write reads `1.1` -/
theorem C18_store_bytecode_unrepaired_counterexample :
    (runUnrepaired true Store.empty [.write 0 m10 5, .read 0, .write 0 m11 5, .read 0]).2 = [.done, .manifest m10, .done, .manifest m10] ∧
    (run true Store.empty [.write 0 m10 5, .read 0, .write 0 m11 5, .read 0]).2 = [.done, .manifest m10, .done, .manifest m11] := by
  decide

/-- C18-F7: a zip package at a location is read, removed, a manifest is written there (now a directory): unreadable -/
theorem C18_store_kind_counterexample :
    (prun false Store.empty Memo.empty [.create 0 m10 ⟨0, true⟩, .remove 0, .write 0 m20 1, .read 0]).2.2 =
      [.manifest m10, .done, .done, .error .missing] ∧
    (lrun (abs Store.empty) [.create 0 m10 ⟨0, true⟩, .remove 0, .write 0 m20 1, .read 0]).2 =
      [.manifest m10, .done, .done, .manifest m20] := by
  decide

theorem C18_store_read_your_writes_counterexample : ¬ C18_store_read_your_writes_full := by
  intro h
  have h1 := h false [.create 0 m10 ⟨0, true⟩, .remove 0, .write 0 m20 1, .read 0]
  rw [C18_store_kind_counterexample.1, C18_store_kind_counterexample.2] at h1
  revert h1
  decide

/-- non-vacuity: a history with every kind of operation on three locations satisfies the hypothesis, with bytecode files on
(the same second twice, equal lengths) -/
example : pokRun true Store.empty Memo.empty
    [.create 0 m10 ⟨0, false⟩, .create 1 m20 ⟨1, false⟩, .install 0 2 1, .read 2, .install 1 2 2, .read 2, .write 2 m11 3,
     .read 2, .remove 2, .install 0 2 4, .read 2] = true := by decide

/-- **the logical store is read-your-writes**: after a successful `write` of `m` to `p`, any history that does not
target `p` (reads anywhere, operations on other locations), then `read p`, returns `m` -/
theorem C18_store_read_last_write (s : LStore) (p : Path) (m : SM) (t : Nat) (h : List Op)
    (hw : (lstep s (.write p m t)).2 = .done) (hf : ∀ op ∈ h, target op ≠ some p) :
    (lstep (lrun (lstep s (.write p m t)).1 h).1 (.read p)).2 = .manifest m := by
  rw [(lstep_read _ p).2, lrun_frame h p _ hf, lstep_write s p m t hw]

/-- … and the same for a package created at `p`: its manifest is read back, its content is what is there -/
theorem C18_store_read_last_create (s : LStore) (p : Path) (m : SM) (tr : Tree) (h : List Op)
    (hw : (lstep s (.create p m tr)).2 = .manifest m) (hf : ∀ op ∈ h, target op ≠ some p) :
    (lstep (lrun (lstep s (.create p m tr)).1 h).1 (.read p)).2 = .manifest m ∧
    (lrun (lstep s (.create p m tr)).1 h).1 p = some (.zip m tr) := by
  have := lstep_create s p m tr hw
  rw [(lstep_read _ p).2, lrun_frame h p _ hf, this]
  exact ⟨rfl, rfl⟩

/-- reading never changes the logical store; the observation is the manifest that is there, or `MissingError` -/
theorem C18_store_read_pure (s : LStore) (p : Path) :
    (lstep s (.read p)).1 = s ∧
    (lstep s (.read p)).2 = match lman (s p) with | some m => .manifest m | none => .error .missing :=
  lstep_read s p

/-- the statement at full strength for `install`: the artifact carries the package's manifest and the target holds the
package's content -/
def C18_store_install_full : Prop :=
  ∀ (s : LStore) (src dst : Path) (t : Nat) (m : SM) (tr : Option Tree),
    (lstep s (.install src dst t)).2 = .installed m tr → tr = ltree (s src)

/-- **install**: a successful `Package(src).install(dst)` reports the manifest of the package at `src`; afterwards `dst`
holds that manifest or one equal to it (`==`); the components loaded are those found at `dst`; and they are the
package's own **unless `dst` already held an equal manifest over other content** (the already-installed shortcut) -/
theorem C18_store_install_partial (s : LStore) (src dst : Path) (t : Nat) (m : SM) (tr : Option Tree)
    (h : (lstep s (.install src dst t)).2 = .installed m tr) :
    lman (s src) = some m ∧
    (∃ m', lman ((lstep s (.install src dst t)).1 dst) = some m' ∧ (m' = m ∨ meq m' m = true)) ∧
    tr = ltree ((lstep s (.install src dst t)).1 dst) ∧
    ((∀ m', lman (s dst) = some m' → meq m' m = true → ltree (s dst) = ltree (s src)) → tr = ltree (s src)) :=
  lstep_install s src dst t m tr h

/-- **the already-installed shortcut is taken only for a manifest equal in ALL fields** (`Manifest.__eq__`: name,
version, package, module map): when the target holds a manifest that differs from the package's in any of them, the package
is installed — the target then holds exactly the package's manifest and content and those are the components loaded -/
theorem C18_store_install_differs (s : LStore) (src dst : Path) (t : Nat) (m m' : SM) (tr : Option Tree)
    (h : (lstep s (.install src dst t)).2 = .installed m tr) (hsd : src ≠ dst) (hd : lman (s dst) = some m')
    (hne : meq m' m = false) :
    tr = ltree (s src) ∧ lman ((lstep s (.install src dst t)).1 dst) = some m ∧
    ltree ((lstep s (.install src dst t)).1 dst) = ltree (s src) :=
  lstep_install_differs s src dst t m m' tr h hsd hd hne

/-- what "equal" means: all four fields; a different package name or a different module map is a different manifest -/
theorem C18_store_manifest_eq (a b : SM) :
    (meq a b = true ↔ a.name = b.name ∧ Keys.vcmp a.version b.version = .eq ∧ a.package = b.package ∧ modEq a.modules b.modules = true) ∧
    (a.package ≠ b.package → meq a b = false) ∧ (modEq a.modules b.modules = false → meq a b = false) := by
  refine ⟨meq_fields a b, ?_, ?_⟩
  · intro hp
    cases h : meq a b with
    | false => rfl
    | true => exact absurd ((meq_fields a b).mp h).2.2.1 hp
  · intro hm
    cases h : meq a b with
    | false => rfl
    | true => rw [((meq_fields a b).mp h).2.2.2] at hm; cases hm

def m10b : SM := ⟨[112], ⟨0, [1, 0], none, none, none, none⟩, [98, 46, 99], []⟩
def m10m : SM := ⟨[112], ⟨0, [1, 0], none, none, none, none⟩, [97], [([112, 105, 112, 101, 108, 105, 110, 101], [102, 108, 111, 119])]⟩

/-- **a name-and-version-only test would be wrong**: the target holds release `p 1.0` built in package `a`; the same
release rebuilt in package `b.c` (or with another module map) is installed.  The code that exists (`install` = the logical
install guarded by full equality) replaces the content; a guard on name and version keeps the old build while reporting
the new manifest -/
theorem C18_store_install_guard_counterexample :
    (∀ (s : LStore) (src dst : Path) (t : Nat), lstep s (.install src dst t) = linstallG meq s src dst) ∧
    (let s : LStore := fun p => if p = 0 then some (.zip m10b ⟨2, true⟩) else if p = 1 then some (.zip m10 ⟨1, true⟩)
      else if p = 2 then some (.zip m10m ⟨3, true⟩) else none
    (linstallG meq s 0 1).2 = .installed m10b (some ⟨2, true⟩) ∧ lman ((linstallG meq s 0 1).1 1) = some m10b ∧
    (linstallG nvEq s 0 1).2 = .installed m10b (some ⟨1, true⟩) ∧ lman ((linstallG nvEq s 0 1).1 1) = some m10 ∧
    (linstallG meq s 2 1).2 = .installed m10m (some ⟨3, true⟩) ∧ (linstallG nvEq s 2 1).2 = .installed m10m (some ⟨1, true⟩)) :=
  ⟨fun _ _ _ _ => rfl, by decide⟩

/-- two contents under one manifest: the target keeps the old content (a release is taken to be immutable) -/
theorem C18_store_install_counterexample : ¬ C18_store_install_full := by
  intro h
  have := h (fun p => if p = 0 then some (.zip m10 ⟨2, true⟩) else if p = 1 then some (.dir (some m10) (some ⟨1, true⟩)) else none)
    0 1 0 m10 (some ⟨1, true⟩) (by decide)
  revert this
  decide

end ForML.Store

/-! ## component resolution and package content -/
namespace ForML.Load

/-- **relative names**: with a package, a module name without a dot — whatever it begins with, the package name
included — is looked up inside the package -/
theorem C18_resolve_relative (package : List Nat) (modules : List (List Nat × List Nat)) (component : List Nat)
    (hp : package ≠ []) (hd : 46 ∉ chosen modules component) :
    resolve package modules component = rstripDots package ++ 46 :: chosen modules component :=
  resolve_relative package modules component hp hd

/-- **absolute names**: a name made of the package prefix (name and dot) and anything is taken as it is; without a
package every name is -/
theorem C18_resolve_absolute (package : List Nat) (modules : List (List Nat × List Nat)) (component rest : List Nat) :
    (chosen modules component = pkgPrefix package ++ rest → resolve package modules component = chosen modules component) ∧
    resolve [] modules component = chosen modules component :=
  ⟨resolve_absolute package modules component rest, resolve_no_package modules component⟩

/-- **resolution is stable**: every resolved name lies inside the package, and writing the resolved names into the
module map resolves to the same modules (what an installed artifact is given is what the manifest says) -/
theorem C18_resolve_idempotent (package : List Nat) (modules : List (List Nat × List Nat)) (component : List Nat) :
    startsWith (resolve package modules component) (pkgPrefix package) = true ∧
    (resolve package modules component ≠ [] →
      resolve package [(component, resolve package modules component)] component = resolve package modules component) :=
  ⟨resolve_startsWith package modules component, resolve_idempotent package modules component⟩

/-- non-vacuity / the adversarial shapes: package `pipe`, conventional component `pipeline` → `pipe.pipeline`; package
`titanic`, `source='titanic_source'` → `titanic.titanic_source`; absolute `pipe.x` stays; module named as the package -/
example :
    resolve [112, 105, 112, 101] [] [112, 105, 112, 101, 108, 105, 110, 101] = [112, 105, 112, 101, 46, 112, 105, 112, 101, 108, 105, 110, 101] ∧
    resolve [116] [([115], [116, 95, 115])] [115] = [116, 46, 116, 95, 115] ∧
    resolve [112, 105, 112, 101] [([115], [112, 105, 112, 101, 46, 120])] [115] = [112, 105, 112, 101, 46, 120] ∧
    resolve [112, 105, 112, 101] [([115], [112, 105, 112, 101])] [115] = [112, 105, 112, 101, 46, 112, 105, 112, 101] ∧
    resolve [97, 46] [] [115] = [97, 46, 115] := by decide

/-- **installing keeps the component identities**: for every source tree and every dotted module name whose segments are
names `Package.create` keeps (`segsOk`: not `__pycache__`, no `.dist-info` suffix, not the root `__4ml__.py`), the import
finds in the installed package exactly what it finds in the source tree — for every package and module map -/
theorem C18_install_components (root : List Node) (package : List Nat) (modules : List (List Nat × List Nat))
    (component : List Nat) (hok : segsOk true (splitDots (resolve package modules component)) = true) :
    locate (installed root) (splitDots (resolve package modules component)) =
      locate root (splitDots (resolve package modules component)) :=
  locate_installed root _ hok

/-- … and for any dotted name at any level of the tree: `Package.create` keeps every file the import looks at -/
theorem C18_archive_keeps (r : Bool) (ns : List Node) (segs : List (List Nat)) (hok : segsOk r segs = true) :
    locate (packList r ns) segs = locate ns segs :=
  locate_pack segs r ns hok

/-- the hypothesis is needed: a component module below `__pycache__` is in the source tree and not in the package -/
theorem C18_install_components_counterexample :
    locate [.dir [97] [.file initPy, .dir pycache [.file initPy, .file [115, 46, 112, 121]]]] [[97], pycache, [115]] = .module ∧
    locate (installed [.dir [97] [.file initPy, .dir pycache [.file initPy, .file [115, 46, 112, 121]]]]) [[97], pycache, [115]] = .nothing := by
  decide

/-- non-vacuity: a nested tree with a data file, a `__pycache__`, a `*.dist-info` and a stale root manifest -/
example :
    let root : List Node := [.dir [97] [.file initPy, .dir [98] [.file initPy, .file [115, 46, 112, 121], .file [100, 46, 99, 115, 118]],
                                        .dir pycache [.file [106]]], .dir ([120] ++ distInfo) [.file [77]], .file descriptor]
    segsOk true [[97], [98], [115]] = true ∧ locate root [[97], [98], [115]] = .module ∧
    locate (installed root) [[97], [98], [115]] = .module ∧
    archive root = [descriptor, [97, 47] ++ initPy, [97, 47, 98, 47] ++ initPy, [97, 47, 98, 47, 115, 46, 112, 121], [97, 47, 98, 47, 100, 46, 99, 115, 118]] ∧
    zipSafe (archive root) = false := by decide

end ForML.Load
