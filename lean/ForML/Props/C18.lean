/-
C18 — Persisted metadata and keys read back exactly as written.

Property theorems over the models in ForML.Model.{Tag,Keys,Manifest}.  Helper lemmas are `private` here or in
ForML.Lemmas.C18Order.  Nothing is size-bounded: strings, key sets, release segments and local-version
segments are arbitrary lists.
-/
import ForML.Model.Tag
import ForML.Model.Keys
import ForML.Model.Manifest
import ForML.Lemmas.C18Order

/-! ## keys and listings -/
namespace ForML.Keys

/-- **listing is strictly sorted** (hence duplicate-free) for every strict total order and every input. -/
theorem C18_listing_sorted {cmp : α → α → Ordering} (h : Lawful cmp) (xs : List α) :
    (listing cmp xs).Pairwise (fun a b => cmp a b = .lt) :=
  foldl_insert_sorted h xs [] List.Pairwise.nil

/-- **listing has exactly the elements of the input** -/
theorem C18_listing_mem {cmp : α → α → Ordering} (h : Lawful cmp) (xs : List α) (x : α) :
    x ∈ listing cmp xs ↔ x ∈ xs := by
  simp [listing, foldl_insert_mem h]

/-- **listing is duplicate-free** -/
theorem C18_listing_nodup {cmp : α → α → Ordering} (h : Lawful cmp) (xs : List α) :
    (listing cmp xs).Nodup := by
  refine (C18_listing_sorted h xs).imp ?_
  intro a b hab e
  subst e
  rw [h.refl] at hab
  cases hab

/-- **"latest" is the maximum**: `last` of a listing is an element of the input and everything else is
strictly below it. -/
theorem C18_listing_last_max {cmp : α → α → Ordering} (h : Lawful cmp) (xs : List α) (m : α)
    (hl : last (listing cmp xs) = .ok m) : m ∈ xs ∧ ∀ x ∈ xs, x = m ∨ cmp x m = .lt := by
  unfold last at hl
  split at hl
  · rename_i y hy
    cases hl
    refine ⟨(C18_listing_mem h xs _).mp (List.mem_of_getLast? hy), ?_⟩
    intro x hx
    exact sorted_last _ _ (C18_listing_sorted h xs) hy x ((C18_listing_mem h xs x).mpr hx)
  · cases hl

/-- `last` raises `Listing.Empty` exactly on an empty input -/
theorem C18_listing_empty {cmp : α → α → Ordering} (h : Lawful cmp) (xs : List α) :
    last (listing cmp xs) = .error .empty ↔ xs = [] := by
  unfold last
  split
  · rename_i y hy
    have hm := (C18_listing_mem h xs y).mp (List.mem_of_getLast? hy)
    constructor
    · intro e; cases e
    · intro e; subst e; cases hm
  · rename_i hn
    have hnil : listing cmp xs = [] := List.getLast?_eq_none_iff.mp hn
    constructor
    · intro _
      cases xs with
      | nil => rfl
      | cons x r =>
        have : x ∈ listing cmp (x :: r) := (C18_listing_mem h _ x).mpr (by simp)
        rw [hnil] at this; cases this
    · intro _; rfl

/-- **the key after the latest generation is unused** -/
theorem C18_listing_next_unused (xs : List Nat) (m : Nat) (hl : last (listing natCmp xs) = .ok m) :
    genNext m ∉ xs := by
  intro hin
  rcases (C18_listing_last_max lawful_nat xs m hl).2 _ hin with e | hlt
  · simp [genNext] at e
  · unfold natCmp genNext at hlt
    split at hlt
    · omega
    · split at hlt <;> cases hlt

/-- non-vacuity: a listing with duplicates -/
example : listing natCmp [3, 1, 3, 2] = [1, 2, 3] ∧ last (listing natCmp [3, 1, 3, 2]) = .ok 3 := by decide

/-- **generation keys**: a text is accepted exactly when it denotes an integer `>= 1`, and the key is that integer;
rejection is `not an integer` when the text does not parse and `not natural` when it parses below one. -/
theorem C18_genkey (s : List Nat) :
    (∀ k, genKey s = .ok k ↔ ∃ i : Int, parseInt s = some i ∧ 1 ≤ i ∧ i.toNat = k) ∧
    (genKey s = .error .notInteger ↔ parseInt s = none) ∧
    (genKey s = .error .notNatural ↔ ∃ i : Int, parseInt s = some i ∧ i < 1) := by
  unfold genKey genMin
  cases hp : parseInt s with
  | none => simp
  | some i =>
    by_cases hi : i < 1
    · simp [hi]
    · simp [hi]; omega

/-- non-vacuity / examples: `" +1_0 "` is 10, `"0"`, `"-1"` are not natural, `"1__0"`, `""`, `"1.0"` are not integers -/
example : genKey [32, 43, 49, 95, 48, 32] = .ok 10 ∧ genKey [48] = .error .notNatural ∧ genKey [45, 49] = .error .notNatural
    ∧ genKey [49, 95, 95, 48] = .error .notInteger ∧ genKey [] = .error .notInteger ∧ genKey [49, 46, 48] = .error .notInteger := by
  decide

/-- **release keys are strictly totally ordered by their comparison key**: irreflexive, transitive, and exactly one of
`a < b`, `key a = key b`, `b < a` holds — for releases and local versions of any length. -/
theorem C18_version_order :
    (∀ a : Version, vcmp a a = .eq) ∧
    (∀ a b c : Version, vcmp a b = .lt → vcmp b c = .lt → vcmp a c = .lt) ∧
    (∀ a b : Version, vcmp a b = .eq ↔ cmpkey a = cmpkey b) ∧
    (∀ a b : Version, vcmp a b = .gt ↔ vcmp b a = .lt) ∧
    (∀ a b : Version, vcmp a b = .lt ∨ cmpkey a = cmpkey b ∨ vcmp b a = .lt) := by
  have h := lawful_cmpKey
  refine ⟨fun a => h.refl _, fun a b c => h.trans _ _ _, fun a b => h.eq_iff _ _, fun a b => h.gt_iff _ _, ?_⟩
  intro a b
  cases hab : vcmp a b with
  | lt => exact Or.inl rfl
  | eq => exact Or.inr (Or.inl ((h.eq_iff _ _).mp hab))
  | gt => exact Or.inr (Or.inr ((h.gt_iff _ _).mp hab))

private theorem trim_snoc_zero (r : List Nat) : trim (r ++ [0]) = trim r := by
  simp [trim]

/-- trailing zeros of the release are insignificant (`1.0.0 == 1`) -/
theorem C18_version_trailing_zero (v : Version) :
    vcmp { v with release := v.release ++ [0] } v = .eq := by
  have : cmpkey { v with release := v.release ++ [0] } = cmpkey v := by
    unfold cmpkey
    simp only [trim_snoc_zero]
  unfold vcmp
  rw [this]
  exact lawful_cmpKey.refl _

private theorem cmpKey_same (e : Nat) (r : List Nat) (s1 s2 : List Int) (l1 l2 : Option (List (Int × List Nat))) :
    cmpKey (e, r, s1, l1) (e, r, s2, l2) =
      prodCmp (listCmp intCmp) (optCmp (listCmp (prodCmp intCmp (listCmp natCmp)))) (s1, l1) (s2, l2) := by
  have h1 : natCmp e e = .eq := lawful_nat.refl e
  have h2 : listCmp natCmp r r = .eq := (lawful_list lawful_nat).refl r
  simp [cmpKey, prodCmp, h1, h2]

/-- **PEP 440 ordering rules** within one release `X` (any epoch, any release segment, any numbers):
`X.devN < XaN < XbN < XrcN < X < X.postN`, a dev release of a pre-release sorts before it, and a local version
sorts after its public version. -/
theorem C18_version_rules (e : Nat) (r : List Nat) (n m : Nat) :
    let X (pre : Option (Nat × Nat)) (post dev : Option Nat) (loc : Option (List Seg)) : Version :=
      { epoch := e, release := r, pre := pre, post := post, dev := dev, loc := loc }
    vcmp (X none none (some n) none) (X (some (0, m)) none none none) = .lt ∧
    vcmp (X (some (0, n)) none none none) (X (some (1, m)) none none none) = .lt ∧
    vcmp (X (some (1, n)) none none none) (X (some (2, m)) none none none) = .lt ∧
    vcmp (X (some (2, n)) none none none) (X none none none none) = .lt ∧
    vcmp (X none none none none) (X none (some m) none none) = .lt ∧
    vcmp (X (some (0, n)) none (some m) none) (X (some (0, n)) none none none) = .lt ∧
    vcmp (X none none none none) (X none none none (some [.num m])) = .lt := by
  intro X
  simp only [X, vcmp, cmpkey, cmpKey_same, stableSuffix]
  simp [prodCmp, listCmp, intCmp, optCmp]

/-- numeric, not textual, comparison of release segments: `1.9 < 1.10`; non-vacuity of the order theorem -/
example : vcmp ⟨0, [1, 9], none, none, none, none⟩ ⟨0, [1, 10], none, none, none, none⟩ = .lt ∧
    vcmp ⟨0, [1, 0], none, none, none, none⟩ ⟨0, [1], none, none, none, none⟩ = .eq ∧
    vcmp ⟨0, [1], none, none, none, some [.str [97]]⟩ ⟨0, [1], none, none, none, some [.num 1]⟩ = .lt := by decide

end ForML.Keys

/-! ## generation tags -/
namespace ForML.Tag

def leadingQuotes : List Nat → Bool
  | [34] => true
  | 34 :: 34 :: _ => true
  | _ => false

/-- string ordinals on which the `toml` writer/reader pair is faithful -/
def safeStr (s : List Nat) : Bool :=
  s.all (fun c => !isXEsc c) && !hasBX (escape s) && !leadingQuotes s

/-- ordinals that persist: every primitive kind except `Decimal`, strings in the safe region -/
def safeOrd : Option Ordinal → Bool
  | some (.str s) => safeStr s
  | some (.decimal _ _ _) => false
  | _ => true

private theorem splitBX_noBX (l acc : List Nat) (h : hasBX l = false) : splitBX acc l = [acc.reverse ++ l] := by
  induction l generalizing acc with
  | nil => simp [splitBX]
  | cons a r ih =>
    cases r with
    | nil => simp [splitBX]
    | cons b r' =>
      simp only [hasBX, Bool.or_eq_false_iff] at h
      simp only [splitBX, h.1]
      rw [ih (a :: acc) h.2]
      simp

private theorem dumpStr_noBX (s : List Nat) (h : hasBX (escape s) = false) :
    dumpStr s = .ok (34 :: escape s ++ [34]) := by
  simp [dumpStr, splitBX_noBX _ [] h, xloop]

private theorem unescape_esc (c : Nat) (hx : isXEsc c = false) (rest t : List Nat) (hr : unescape rest = .ok t) :
    unescape (esc c ++ rest) = .ok (c :: t) := by
  by_cases h1 : c = 92
  · subst h1; simp [esc, unescape, escChar, hr]
  by_cases h2 : c = 34
  · subst h2; simp [esc, unescape, escChar, hr]
  by_cases h3 : c = 9
  · subst h3; simp [esc, unescape, escChar, hr]
  by_cases h4 : c = 10
  · subst h4; simp [esc, unescape, escChar, hr]
  by_cases h5 : c = 13
  · subst h5; simp [esc, unescape, escChar, hr]
  simp only [esc, h1, h2, h3, h4, h5, hx, beq_iff_eq, if_false, Bool.false_eq_true, List.cons_append, List.nil_append]
  unfold unescape
  simp [h1, hr]

private theorem unescape_escape (s : List Nat) (hx : ∀ c ∈ s, isXEsc c = false) (tail t : List Nat)
    (hr : unescape tail = .ok t) : unescape (escape s ++ tail) = .ok (s ++ t) := by
  induction s with
  | nil => simpa [escape] using hr
  | cons c r ih =>
    have hc := hx c (by simp)
    have hr' := ih (fun d hd => hx d (by simp [hd]))
    simp only [escape, List.append_assoc]
    simpa using unescape_esc c hc _ _ hr'

private theorem finish_quoted (s : List Nat) (hq : leadingQuotes s = false) : finish (34 :: (s ++ [34])) = s := by
  cases s with
  | nil => simp [finish, looksTriple]
  | cons c r =>
    cases r with
    | nil =>
      have hc : (c == 34) = false := by
        cases h : c == 34
        · rfl
        · have : c = 34 := by simpa using h
          subst this; simp [leadingQuotes] at hq
      show finish [34, c, 34] = [c]
      unfold finish looksTriple
      simp [hc]
    | cons d r' =>
      have hcd : (c == 34 && c == d) = false := by
        cases h : (c == 34 && c == d)
        · rfl
        · simp at h; obtain ⟨e1, e2⟩ := h; subst e1; subst e2; simp [leadingQuotes] at hq
      show finish (34 :: c :: d :: (r' ++ [34])) = c :: d :: r'
      unfold finish looksTriple
      simp only [hcd]
      simp
      exact List.dropLast_concat (l₁ := d :: r') (b := 34)

/-- **string ordinals round-trip through the TOML basic-string writer and reader** on the safe region: no character
that `repr` writes as `\xNN`, no `\x` in the escaped text (i.e. no backslash directly followed by `x`), and not `"` /
not starting with `""`.  Arbitrary length, any other characters (quotes, backslashes, tabs, newlines, `#`, `=` …). -/
theorem C18_str_roundtrip (s : List Nat) (h : safeStr s = true) :
    ∃ lit, dumpStr s = .ok lit ∧ loadStr lit = .ok s := by
  simp only [safeStr, Bool.and_eq_true, Bool.not_eq_true', List.all_eq_true] at h
  obtain ⟨⟨hx, hb⟩, hq⟩ := h
  refine ⟨_, dumpStr_noBX s hb, ?_⟩
  have hu : unescape (34 :: (escape s ++ [34])) = .ok (34 :: (s ++ [34])) := by
    have := unescape_escape s (fun c hc => by simpa using hx c hc) [34] [34] (by simp [unescape])
    simp [unescape, this]
  have hf := finish_quoted s (by simpa using hq)
  simp only [loadStr, List.cons_append] at hu ⊢
  simp only [hu]
  rw [← List.cons_append] at hf ⊢
  simp only [List.cons_append] at hf
  rw [hf]

/-- non-vacuity: a string with quotes, backslashes, apostrophe, tab, newline, `#`, `=`, a non-ASCII letter; it is safe and
its literal is what the writer emits -/
example : safeStr [97, 34, 92, 39, 9, 10, 35, 61, 233, 92, 117] = true ∧
    dumpStr [97, 34, 92] = .ok [34, 97, 92, 34, 92, 92, 34] := by decide

/-- the property at full strength: every tag reads back equal -/
def C18_tag_roundtrip_full : Prop := ∀ t : Tag, ∃ d, dumps t = .ok d ∧ loads d = .ok t

/-- **tags round-trip** for all timestamps (present or absent, both modes — the repaired `loads`), scores, state lists
and every ordinal except `Decimal` and strings outside the safe region. -/
theorem C18_tag_roundtrip_partial (t : Tag) (h : safeOrd t.ordinal = true) :
    ∃ d, dumps t = .ok d ∧ loads d = .ok t := by
  obtain ⟨trainTs, ordinal, tuneTs, score, states⟩ := t
  cases ordinal with
  | none =>
    cases trainTs <;> cases tuneTs <;> cases score <;>
      simp [dumps, loads, sect, lookup, loadTs, loadScore] <;> (rename_i n; cases n <;> simp [dumpNum, loadScore])
  | some o =>
    cases o with
    | str s =>
      obtain ⟨lit, hd, hl⟩ := C18_str_roundtrip s (by simpa [safeOrd] using h)
      cases trainTs <;> cases tuneTs <;> cases score <;>
        simp [dumps, dumpOrdinal, hd, loads, sect, lookup, loadTs, loadScore, loadOrdinal, hl] <;>
        (rename_i n; cases n <;> simp [dumpNum, loadScore])
    | decimal a b c => simp [safeOrd] at h
    | int i =>
      cases trainTs <;> cases tuneTs <;> cases score <;>
        simp [dumps, dumpOrdinal, loads, sect, lookup, loadTs, loadScore, loadOrdinal] <;>
        (rename_i n; cases n <;> simp [dumpNum, loadScore])
    | float i =>
      cases trainTs <;> cases tuneTs <;> cases score <;>
        simp [dumps, dumpOrdinal, loads, sect, lookup, loadTs, loadScore, loadOrdinal] <;>
        (rename_i n; cases n <;> simp [dumpNum, loadScore])
    | bool i =>
      cases trainTs <;> cases tuneTs <;> cases score <;>
        simp [dumps, dumpOrdinal, loads, sect, lookup, loadTs, loadScore, loadOrdinal] <;>
        (rename_i n; cases n <;> simp [dumpNum, loadScore])
    | date y m d =>
      cases trainTs <;> cases tuneTs <;> cases score <;>
        simp [dumps, dumpOrdinal, loads, sect, lookup, loadTs, loadScore, loadOrdinal] <;>
        (rename_i n; cases n <;> simp [dumpNum, loadScore])
    | datetime ts =>
      cases trainTs <;> cases tuneTs <;> cases score <;>
        simp [dumps, dumpOrdinal, loads, sect, lookup, loadTs, loadScore, loadOrdinal] <;>
        (rename_i n; cases n <;> simp [dumpNum, loadScore])

/-- **timestamps present or absent** (the repaired D19): a tag without ordinal reads back equal whatever combination of
training / tuning timestamps, score and states it has — in particular the empty tag `Tag()`. -/
theorem C18_tag_timestamps_roundtrip (trainTs tuneTs : Option Ts) (score : Option Num) (states : List Nat) :
    ∃ d, dumps ⟨trainTs, none, tuneTs, score, states⟩ = .ok d ∧ loads d = .ok ⟨trainTs, none, tuneTs, score, states⟩ :=
  C18_tag_roundtrip_partial _ rfl

def ts0 : Ts := ⟨2020, 1, 2, 3, 4, 5, 0, none⟩

/-- non-vacuity: a fully populated tag satisfying the hypothesis -/
example : safeOrd (Tag.mk (some ts0) (some (.str [97, 34, 92, 10])) (some ts0) (some (.float 5)) [1, 2, 3]).ordinal = true := by
  decide

/-- the code before the repair: `Tag()` is written but `loads` raises `KeyError('timestamp')` -/
theorem C18_tag_unrepaired_counterexample :
    ∃ d, dumps ⟨none, none, none, none, []⟩ = .ok d ∧ loadsStrict d = .error (.keyError "timestamp") := by
  exact ⟨_, rfl, by decide⟩

/-- `'a\x01b'` is written as `"ax01b"` and comes back as `'ax01b'` (known finding C18-F1) -/
theorem C18_tag_string_x_counterexample :
    dumpStr [97, 1, 98] = .ok [34, 97, 120, 48, 49, 98, 34] ∧ loadStr [34, 97, 120, 48, 49, 98, 34] = .ok [97, 120, 48, 49, 98]
    ∧ dumpStr [133] = .error .indexError
    ∧ dumpStr [97, 92, 120, 98] = .ok [34, 97, 92, 120, 98, 34] ∧ loadStr [34, 97, 92, 120, 98, 34] = .error .reserved := by
  decide

/-- `'"'` is written correctly as `"\""` but comes back empty (known finding C18-F2) -/
theorem C18_tag_string_quotes_counterexample :
    dumpStr [34] = .ok [34, 92, 34, 34] ∧ loadStr [34, 92, 34, 34] = .ok [] ∧
    dumpStr [34, 34, 97] = .ok [34, 92, 34, 92, 34, 97, 34] ∧ loadStr [34, 92, 34, 92, 34, 97, 34] = .ok [] := by
  decide

/-- a `Decimal` ordinal comes back as a float (known finding C18-F4) -/
theorem C18_tag_decimal_counterexample :
    ∃ d, dumps ⟨some ts0, some (.decimal [49, 46, 53] 1 4609434218613702656), none, none, []⟩ = .ok d ∧
      loads d = .ok ⟨some ts0, some (.float 4609434218613702656), none, none, []⟩ := by
  exact ⟨_, rfl, by decide⟩

theorem C18_tag_roundtrip_counterexample : ¬ C18_tag_roundtrip_full := by
  intro h
  obtain ⟨d, hd, hl⟩ := h ⟨some ts0, some (.decimal [49, 46, 53] 1 4609434218613702656), none, none, []⟩
  obtain ⟨d', hd', hl'⟩ := C18_tag_decimal_counterexample
  rw [hd] at hd'
  cases hd'
  rw [hl] at hl'
  cases hl'

end ForML.Tag

/-! ## manifests -/
namespace ForML.Manifest

/-- text pasted raw between double quotes survives iff nothing in it is special to a Python literal -/
def clean (s : List Nat) : Bool := s.all (fun c => c != 34 && c != 92 && c != 10 && c != 13)

/-- printable ASCII -/
def ascii (s : List Nat) : Bool := s.all (fun c => 32 ≤ c && c ≤ 126)

private theorem pyStr_clean (s rest : List Nat) (h : clean s = true) : pyStr (s ++ 34 :: rest) = .ok (s, rest) := by
  induction s with
  | nil => unfold pyStr; simp
  | cons c r ih =>
    simp only [clean, List.all_cons, Bool.and_eq_true, bne_iff_ne, ne_eq] at h
    obtain ⟨⟨⟨⟨h1, h2⟩, h3⟩, h4⟩, hr⟩ := h
    have := ih (by simpa [clean] using hr)
    simp only [List.cons_append]
    unfold pyStr
    simp [h1, h2, h3, h4, this]

private theorem pyStr_jstr (s rest : List Nat) (h : ascii s = true) : pyStr (jstr s ++ 34 :: rest) = .ok (s, rest) := by
  induction s with
  | nil => simp only [jstr, List.nil_append]; unfold pyStr; simp
  | cons c r ih =>
    simp only [ascii, List.all_cons, Bool.and_eq_true, decide_eq_true_eq] at h
    obtain ⟨⟨hlo, hhi⟩, hr⟩ := h
    have ih' := ih (by simpa [ascii] using hr)
    by_cases h1 : c = 34
    · subst h1; simp [jstr, jesc, pyStr, pyEsc, ih']
    by_cases h2 : c = 92
    · subst h2; simp [jstr, jesc, pyStr, pyEsc, ih']
    have h10 : c ≠ 10 := by omega
    have h13 : c ≠ 13 := by omega
    have h9 : c ≠ 9 := by omega
    have h8 : c ≠ 8 := by omega
    have h12 : c ≠ 12 := by omega
    simp only [jstr, jesc, h1, h2, h10, h13, h9, h8, h12, hlo, hhi, beq_iff_eq, if_false, Bool.false_eq_true, decide_true,
      Bool.and_self, if_true, List.cons_append, List.nil_append]
    unfold pyStr
    simp [h1, h2, h10, h13, ih']

/-- **string literals**: a name / version / package over a clean alphabet pasted between double quotes, and a module
path of printable ASCII written by `json.dumps` (which escapes `"` and `\`), are read back unchanged by Python. -/
theorem C18_manifest_literals (s rest : List Nat) :
    (clean s = true → pyStr (s ++ 34 :: rest) = .ok (s, rest)) ∧
    (ascii s = true → pyStr (jstr s ++ 34 :: rest) = .ok (s, rest)) :=
  ⟨pyStr_clean s rest, pyStr_jstr s rest⟩

def asciiPairs (m : List (List Nat × List Nat)) : Bool := m.all (fun kv => ascii kv.1 && ascii kv.2)

private theorem jitems_cons (k v : List Nat) (r : List (List Nat × List Nat)) :
    jitems ((k, v) :: r) = 34 :: jstr k ++ [34, 58, 32, 34] ++ jstr v ++
      (match r with | [] => [34, 125] | _ :: _ => [34, 44, 32] ++ jitems r) := by
  cases r <;> simp [jitems]

private theorem pyItems_jitems (m : List (List Nat × List Nat)) (hne : m ≠ []) (h : asciiPairs m = true) (f : Nat)
    (hf : m.length ≤ f) : pyItems f (jitems m) = .ok m := by
  induction m generalizing f with
  | nil => exact absurd rfl hne
  | cons kv r ih =>
    obtain ⟨k, v⟩ := kv
    simp only [asciiPairs, List.all_cons, Bool.and_eq_true] at h
    obtain ⟨⟨hk, hv⟩, hr⟩ := h
    cases f with
    | zero => simp at hf
    | succ f =>
      rw [jitems_cons]
      cases r with
      | nil =>
        simp only [pyItems, expect, List.cons_append, List.append_assoc, beq_self_eq_true, ite_true]
        rw [pyStr_jstr k _ hk]
        simp only [expect, List.cons_append, List.nil_append, beq_self_eq_true, ite_true]
        rw [pyStr_jstr v _ hv]
      | cons kv' r' =>
        have ih' := ih (by simp) (by simpa [asciiPairs] using hr) f (by simpa using hf)
        simp only [pyItems, expect, List.cons_append, List.append_assoc, beq_self_eq_true, ite_true]
        rw [pyStr_jstr k _ hk]
        simp only [expect, List.cons_append, List.nil_append, beq_self_eq_true, ite_true]
        rw [pyStr_jstr v _ hv]
        simp only [ih']

private theorem jitems_length (m : List (List Nat × List Nat)) : m.length ≤ (jitems m).length := by
  induction m with
  | nil => simp [jitems]
  | cons kv r ih =>
    obtain ⟨k, v⟩ := kv
    rw [jitems_cons]
    cases r with
    | nil => simp
    | cons a b => simp at ih ⊢; omega

private theorem pyDict_jdict (m : List (List Nat × List Nat)) (h : asciiPairs m = true) : pyDict (jdict m) = .ok m := by
  cases m with
  | nil => simp [jdict, jitems, pyDict]
  | cons kv r =>
    have hne : jitems (kv :: r) ≠ [125] := by
      obtain ⟨k, v⟩ := kv; rw [jitems_cons]; simp
    unfold jdict pyDict
    split
    · rename_i heq; simp at heq; exact absurd heq hne
    · rename_i t heq _; simp at heq; subst heq
      exact pyItems_jitems _ (by simp) h _ (jitems_length _)
    · rename_i hx _; exact absurd rfl (hx _)

/-- manifests over the legal alphabets -/
def legal (m : Manifest) : Bool := clean m.name && clean m.version && clean m.package && asciiPairs m.modules

/-- the statement for arbitrary module-map strings (names, versions, packages clean) -/
def C18_manifest_roundtrip_full : Prop :=
  ∀ m : Manifest, clean m.name = true → clean m.version = true → clean m.package = true → read (render m) = .ok m

/-- **manifests round-trip**: `read (write m) = m` for names / versions / packages without `"`, `\`, line breaks and
module maps (any number of entries, insertion order kept) whose keys and values are printable ASCII. -/
theorem C18_manifest_roundtrip_partial (m : Manifest) (h : legal m = true) : read (render m) = .ok m := by
  obtain ⟨name, version, package, modules⟩ := m
  simp only [legal, Bool.and_eq_true] at h
  obtain ⟨⟨⟨hn, hv⟩, hp⟩, hm⟩ := h
  have e1 : ∀ t, expect sNAME (sNAME ++ t) = .ok t := by intro t; simp [sNAME, expect]
  have e2 : ∀ t, expect (sVERSION.drop 1) (sVERSION.drop 1 ++ t) = .ok t := by intro t; simp [sVERSION, expect]
  have e3 : ∀ t, expect (sPACKAGE.drop 1) (sPACKAGE.drop 1 ++ t) = .ok t := by intro t; simp [sPACKAGE, expect]
  have e4 : ∀ t, expect (sMODULES.drop 1) (sMODULES.drop 1 ++ t) = .ok t := by intro t; simp [sMODULES, expect]
  have s2 : sVERSION = 34 :: sVERSION.drop 1 := by decide
  have s3 : sPACKAGE = 34 :: sPACKAGE.drop 1 := by decide
  have s4 : sMODULES = 34 :: sMODULES.drop 1 := by decide
  unfold read render
  simp only [List.append_assoc, e1]
  rw [s2, List.cons_append, pyStr_clean name _ hn]
  simp only [List.append_assoc, e2]
  rw [s3, List.cons_append, pyStr_clean version _ hv]
  simp only [List.append_assoc, e3]
  rw [s4, List.cons_append, pyStr_clean package _ hp]
  simp only [e4, pyDict_jdict modules hm]

/-- non-vacuity: a manifest with a three-entry module map containing a quote and a backslash -/
example : legal ⟨[102, 111, 111], [49, 46, 48, 114, 99, 49], [97, 46, 98],
    [([115], [120, 46, 121]), ([112], [97, 34, 98]), ([101], [92])]⟩ = true := by decide

/-- a module path with a character outside the BMP reads back as two surrogates (known finding C18-F5) -/
theorem C18_manifest_nonbmp_counterexample : ¬ C18_manifest_roundtrip_full := by
  intro h
  have := h ⟨[112], [49], [97], [([115], [119857])]⟩ (by decide) (by decide) (by decide)
  revert this
  decide

/-- outside the legal alphabet the failure is characterised: a name with `\\` silently changes, one with `"` breaks the
module -/
theorem C18_manifest_illegal_name :
    (read (render ⟨[102, 92, 92, 111], [49], [97], []⟩)).map (·.name) = .ok [102, 92, 111] ∧
    read (render ⟨[102, 34, 111], [49], [97], []⟩) = .error .syntax := by
  decide

end ForML.Manifest
