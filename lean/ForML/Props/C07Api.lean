/-
C07 — the argument-handling layer of the public API in front of the grammar (Model/GrammarApi): nothing in it changes
what is constructible.

  C07_tables_isa / _reflect / _directions / _join_kinds / _members   the data-like code re-read from the live objects
  C07_reflect_order_free / _spec / _literal / C07_literal_kind        `kind.reflect` is a function of the python type
  C07_ordering_spellings / _direction_spelling / _bad_direction / _remade / _operable   `Ordering.make`
  C07_join_kind_spelling / _unknown                                    `Join.Kind(kind)` before the checks
  C07_construct_through_api                                            `construct` = operands, then the API layer
  C07_chain_step / _sound / C07_chain_order_full / _partial / _counterexample    the chained `Queryable` interface
  C07_rows_unvalidated / C07_set_kind_irrelevant                       `limit`, `Set.Kind`
-/
import ForML.Model.GrammarApi
import ForML.Generated.C07ApiTables
import ForML.Lemmas.C07Api
import ForML.Lemmas.C07Chain

namespace ForML.Dsl

open ForML.Generated.C07Api

/-! ### tables extracted from the live forml objects agree with the model -/

/-- `isinstance(value, primitive.__type__)` for a value of each python type -/
theorem C07_tables_isa :
    isaTable.map (·.1) = PyTag.all ∧ primitiveTypes.map (·.1) = primitiveKinds ∧
    isaTable.all (fun (t, row) => row == primitiveKinds.map t.isa) = true := by decide

/-- `kind.reflect` on the sample values (equal / hash-alike values of different types first) -/
theorem C07_tables_reflect :
    reflectTable.all (fun (v, k) => decide (reflect v = match k with
      | some k => Except.ok k
      | none => Except.error CtorErr.illtyped)) = true := by decide

/-- `Ordering.Direction(spelling)`: the four documented spellings in any case, nothing else -/
theorem C07_tables_directions :
    directionTable.all (fun (s, d) => decide (dirOfStr s = d)) = true ∧
    directionMembers = [("ASCENDING", "ascending"), ("DESCENDING", "descending")] := by decide

/-- `Join.Kind(spelling)`: exactly the five values -/
theorem C07_tables_join_kinds :
    joinKindTable.all (fun (s, k) => decide (JoinKind.ofWire s = k)) = true := by decide

/-- members and values of `Join.Kind` and `Set.Kind` -/
theorem C07_tables_members :
    joinKindMembers.map (·.2) = [JoinKind.inner, .left, .right, .full, .cross].map JoinKind.wire ∧
    setKindMembers.map (·.2) = [SetKind.union, .intersection, .difference].map SetKind.wire := by decide

/-! ### `kind.reflect` -/

/-- whatever order the *set* `Primitive.__subkinds__` iterates in, the rank-sorted scan gives the same kind -/
theorem C07_reflect_order_free (order : List Kind) (hp : order.Perm primitiveKinds) (v : PyVal) :
    reflectWith order v = reflect v := reflectWith_eq order hp v

/-- and it is the kind of the most specific python type; a value of no known type (None, an empty sequence) is the
`ValueError` -/
theorem C07_reflect_spec (v : PyVal) : reflect v = match v.kindSpec with
    | some k => Except.ok k
    | none => Except.error CtorErr.illtyped := reflect_spec v

/-- the literal kinds of the shared AST are the reflected ones -/
theorem C07_reflect_literal (v : Lit) : reflect v.toPy = Except.ok v.kind := reflect_lit v

/-- a literal of any python value has the reflected kind -/
theorem C07_literal_kind (v : PyVal) (f : Feature) (h : literalOf v = Except.ok f) : f.kindOf = reflect v :=
  literalOf_kind v f h

-- `True == 1 == 1.0 == Decimal(1)` and `False == 0 == 0.0 == -0.0` in Python (equal hashes): four different kinds
example : [reflect (.bool true), reflect (.int 1), reflect (.float "1.0"), reflect (.decimal "1")] =
    [.ok .boolean, .ok .integer, .ok .float, .ok .decimal] := by decide
example : reflect (.datetime "2020-01-02T00:00:00") = .ok .timestamp ∧ reflect (.date "2020-01-02") = .ok .date ∧
    reflect (.seq (.seq (.bool false))) = .ok (.array (.array .boolean)) ∧ reflect .none = .error .illtyped ∧
    reflect (.seq .emptySeq) = .error .illtyped := by decide
-- an order in which the unsorted scan would answer `float` for `True`
example : reflectWith [.float, .timestamp, .date, .string, .decimal, .integer, .boolean] (.bool true) = .ok .boolean := by decide

/-! ### `Ordering.make` -/

/-- the three spellings of an ordering list — `Ordering` instances, `(feature, direction)` pairs, and the flat
`feature, direction, feature, direction…` — make the same orderings (or raise the same grammar error) -/
theorem C07_ordering_spellings (os : List Ordering) :
    makeOrderings (os.map Ordering.term) = makeOrderings (os.map (fun o => OTerm.pair o.feature (.enum o.dir))) ∧
    makeOrderings (os.map Ordering.term) = makeOrderings (os.flatMap (fun o => [OTerm.feat o.feature, .dir (.enum o.dir)])) ∧
    makeOrderings (os.map Ordering.term) = (do guardG (os.all (fun o => !o.feature.isAlias)); Except.ok os) := by
  rw [makeOrderings_terms, makeOrderings_pairs, makeOrderings_flat]
  exact ⟨rfl, rfl, rfl⟩

/-- a direction in any accepted spelling is the member it names -/
theorem C07_ordering_direction_spelling (f : Feature) (a : DirArg) (s : String) (d : Dir) (rest : List OTerm) :
    (a.direction = Except.ok d → makeOrderings (.pair f a :: rest) = makeOrderings (.pair f (.enum d) :: rest)) ∧
    ((DirArg.str s).direction = Except.ok d →
      makeOrderings (.feat f :: .dir (.str s) :: rest) = makeOrderings (.feat f :: .dir (.enum d) :: rest)) :=
  ⟨makeOrderings_pair_spelling f a d rest, makeOrderings_feat_spelling f s d rest⟩

/-- any other string is the `ValueError` of `Direction(…)`, raised before the feature is looked at -/
theorem C07_ordering_bad_direction (f : Feature) (s : String) (rest : List OTerm) (h : dirOfStr s = none) :
    makeOrderings (.feat f :: .dir (.str s) :: rest) = Except.error CtorErr.illtyped ∧
    makeOrderings (.pair f (.str s) :: rest) = Except.error CtorErr.illtyped :=
  makeOrderings_bad_spelling f s rest h

/-- what was made is made again unchanged (the chained interface hands the stored orderings over again) -/
theorem C07_ordering_remade (ts : List OTerm) (os : List Ordering) (h : makeOrderings ts = Except.ok os) :
    makeOrderings (os.map Ordering.term) = Except.ok os := makeOrderings_idem ts os h

/-- every feature of a made ordering is an operable -/
theorem C07_ordering_operable (ts : List OTerm) (os : List Ordering) (h : makeOrderings ts = Except.ok os) :
    os.all (fun o => !o.feature.isAlias) = true := makeOrderings_operable ts os h

def oId : Feature := .elem (.table "T" [("id", .integer), ("name", .string)]) "id"
def oName : Feature := .elem (.table "T" [("id", .integer), ("name", .string)]) "name"

-- the documented examples of `orderby`, a default direction, and the refusals
example : makeOrderings [.feat oId, .dir (.enum .desc), .feat oName, .dir (.str "asc")] = .ok [.mk oId .desc, .mk oName .asc] := by decide
example : makeOrderings [.pair oId (.str "DESC"), .pair oName (.enum .desc)] = .ok [.mk oId .desc, .mk oName .desc] := by decide
example : makeOrderings [.feat oId, .feat oName] = .ok [.mk oId .asc, .mk oName .asc] := by decide
example : makeOrderings [.ordering (.mk oId .desc), .feat oName] = .ok [.mk oId .desc, .mk oName .asc] := by decide
example : makeOrderings [.dir (.str "asc")] = .error .grammar ∧ makeOrderings [.dir (.enum .asc), .feat oId] = .error .grammar ∧
    makeOrderings [.feat oId, .dir (.str "asc"), .dir (.str "desc")] = .error .grammar ∧
    makeOrderings [.ordering (.mk oId .desc), .dir (.str "asc")] = .error .grammar ∧
    makeOrderings [.junk] = .error .grammar ∧ makeOrderings [.feat oId, .dir .none] = .error .grammar := by decide
example : makeOrderings [.feat (.alias oId "x")] = .error .grammar ∧ makeOrderings [.pair (.alias oId "x") (.enum .asc)] = .error .grammar ∧
    makeOrderings [.feat (.alias oId "x"), .dir (.str "bogus")] = .error .illtyped ∧
    makeOrderings [.pair oId .none] = .error .illtyped ∧ makeOrderings [.dir (.str "as")] = .error .illtyped := by decide

/-! ### `Join.Kind(kind)` -/

/-- the string value of a join kind is the member: same checks, same stored statement (in particular `'cross'`) -/
theorem C07_join_kind_spelling (eqv : Feature → Feature → Bool) (l r : Source) (k : JoinKind) (c : Option Feature) :
    joinNew eqv l r (.str k.wire) c = joinNew eqv l r (.enum k) c := joinNew_wire eqv l r k c

/-- any other string is the `ValueError` of `Join.Kind(…)`, with or without a condition -/
theorem C07_join_kind_unknown (eqv : Feature → Feature → Bool) (l r : Source) (s : String) (c : Option Feature)
    (h : JoinKind.ofWire s = none) : joinNew eqv l r (.str s) c = Except.error CtorErr.illtyped :=
  joinNew_bad eqv l r s c h

/-- `construct` evaluates the operands and then goes through this layer -/
theorem C07_construct_through_api (eqv : Feature → Feature → Bool) :
    (∀ s sel pre grp post ord rows, Source.construct eqv (.query s sel pre grp post ord rows) = (do
      let s' ← s.construct eqv
      let sel' ← sel.construct eqv
      let pre' ← pre.construct eqv
      let grp' ← grp.construct eqv
      let post' ← post.construct eqv
      let ord' ← ord.construct eqv
      queryNew eqv s' sel'.toList pre'.toOption grp'.toList post'.toOption (ord'.toList.map Ordering.term) rows)) ∧
    (∀ l r k c, Source.construct eqv (.join l r k c) = (do
      let l' ← l.construct eqv
      let r' ← r.construct eqv
      let c' ← c.construct eqv
      joinNew eqv l' r' (.enum k) c'.toOption)) ∧
    (∀ l r k, Source.construct eqv (.set l r k) = (do
      let l' ← l.construct eqv
      let r' ← r.construct eqv
      setNew l' r' k)) :=
  ⟨construct_query_eq eqv, construct_join_eq eqv, construct_set_eq eqv⟩

/-! ### the chained `Queryable` interface -/

/-- one call on a stored query: the replaced arguments must be accepted by `Query.__new__`, and they are what is stored -/
theorem C07_chain_step (eqv : Feature → Feature → Bool) (q : QState) (op : QOp) (c' : Source) :
    q.toSource.applyOp eqv op = Except.ok c' ↔ ∃ q', q.upd op = Except.ok q' ∧ q'.Valid eqv ∧ c' = q'.toSource :=
  applyOp_ok_iff eqv q op c'

/-- whatever a chain of calls returns, the constructor accepts with the arguments it stores -/
theorem C07_chain_sound (eqv : Feature → Feature → Bool) (ops : List QOp) (q : QState) (c : Source)
    (h : runChain eqv q.toSource ops = Except.ok c) (hne : ops ≠ []) :
    ∃ q' : QState, c = q'.toSource ∧ q'.s = q.s ∧
      queryNew eqv q'.s q'.sel q'.pre q'.grp q'.post (q'.ord.map Ordering.term) q'.rows = Except.ok c := by
  obtain ⟨q', _, h1, h2, h3⟩ := runChain_sound eqv ops q c h hne
  exact ⟨q', h1, h2, h3⟩

/-- full strength: the order of the calls does not matter -/
def C07_chain_order_full : Prop :=
  ∀ (ops ops' : List QOp), ops.Perm ops' → (ops.map QOp.slot).Nodup →
    ∀ q : QState, q.Valid structEqv → okOf (runChain structEqv q.toSource ops) = okOf (runChain structEqv q.toSource ops')

/-- proved for every equality and every accepted query as long as `groupby` is not among the calls: any two orders give
the same statement, or are both refused -/
theorem C07_chain_order_partial (eqv : Feature → Feature → Bool) (ops ops' : List QOp) (hp : ops.Perm ops')
    (hn : (ops.map QOp.slot).Nodup) (hg : ∀ op ∈ ops, op.isGroupby = false) (q : QState) (hv : q.Valid eqv) :
    okOf (runChain eqv q.toSource ops) = okOf (runChain eqv q.toSource ops') :=
  runChain_perm eqv ops ops' hp hn hg q hv

def cT : Source := .table "T" [("id", .integer), ("name", .string)]
def cBare : QState := ⟨cT, [], none, [], none, [], none⟩
def cCount : Feature := .expr .count (Features.ofList [oId])

/-- `T.groupby(T.name).select(T.name, Count(T.id))` — the example in the docstring of `Queryable.groupby` — is refused:
the statement in between groups `T.id` without aggregating it; `T.select(…).groupby(T.name)` is constructed -/
theorem C07_chain_order_counterexample : ¬ C07_chain_order_full := by
  intro h
  have := h [.groupby [oName], .select [oName, cCount]] [.select [oName, cCount], .groupby [oName]]
    (List.Perm.swap _ _ _) (by decide) cBare (by decide)
  revert this
  decide

-- non-vacuity: every kind of call, two orders, one statement
example : cBare.Valid structEqv ∧
    okOf (runChain structEqv cBare.toSource [.select [oId], .where_ (.expr .gt (Features.ofList [oId, .lit (.int 1)])),
      .orderby [.feat oName, .dir (.str "DESC")], .limit 10 0]) =
    okOf (runChain structEqv cBare.toSource [.limit 10 0, .orderby [.pair oName (.enum .desc)],
      .where_ (.expr .gt (Features.ofList [oId, .lit (.int 1)])), .select [oId]]) ∧
    (okOf (runChain structEqv cBare.toSource [.select [oId], .limit 10 0])).isSome = true := by decide
-- repeated `where` accumulates with AND (also an aliased condition, whose alias is dropped)
example : runChain structEqv cBare.toSource [.where_ (.expr .gt (Features.ofList [oId, .lit (.int 1)])),
      .where_ (.alias (.expr .lt (Features.ofList [oId, .lit (.int 9)])) "p")] =
    .ok (.query cT .nil (.some (.expr .and (Features.ofList [.expr .lt (Features.ofList [oId, .lit (.int 9)]),
      .expr .gt (Features.ofList [oId, .lit (.int 1)])]))) .nil .none .nil none) := by decide

/-! ### `limit`, `Set.Kind` -/

/-- `limit(count, offset)` validates nothing: any two integers are stored, and they never influence the verdict -/
theorem C07_rows_unvalidated (eqv : Feature → Feature → Bool) (s : Source) (sel : List Feature) (pre : Option Feature)
    (grp : List Feature) (post : Option Feature) (ts : List OTerm) (rows rows' : Option Rows) :
    (queryNew eqv s sel pre grp post ts rows).isOk = (queryNew eqv s sel pre grp post ts rows').isOk := by
  unfold queryNew
  cases checkQuery eqv s sel pre grp post [] with
  | error e => rfl
  | ok _ =>
    cases makeOrderings ts with
    | error e => rfl
    | ok os =>
      cases s.featuresOf with
      | error e => rfl
      | ok feats =>
        simp only [bind, Except.bind]
        cases guardG (subsetBy eqv (dissectAll Feature.isElem (os.map Ordering.feature)) (dissectAll Feature.isElem feats)) <;> rfl

/-- the kind of a set operation takes no part in the check -/
theorem C07_set_kind_irrelevant (l r : Source) (k k' : SetKind) : (setNew l r k).isOk = (setNew l r k').isOk := by
  unfold setNew
  cases checkSet l r <;> rfl

end ForML.Dsl
