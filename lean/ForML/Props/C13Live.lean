/-
C13 — operation sequences on live instances: the mechanism-shaped model of every actor flavour refines
the contract machine (`specMach`), for ALL operation sequences.

`C13_live_refines`: whatever a program does with one actor definition -- builders created, updated,
reset, pickled, called; instances trained, applied, asked for and given hyper-parameters, exported
(`get_state`) and imported (`set_state` of an own earlier export, a twin's export, the empty state,
foreign bytes; directly or through the platform's `SetState` preset), pickled and unpickled; functors
executed -- in any order and any number of times, every observation (every `apply` output or error,
every reported hyper-parameter dict, `is_stateful`, full/empty of every export, and through later
operations the behavioural content of every export) is the one the simplest actor
"(attributes, logical state)" gives.  A stale copy, a forgotten invalidation, an alias anywhere in an
implementation shows as a departure from this machine (`C13_memo_per_training_counterexample`), while a
memo that every mutating operation drops is proved harmless (`C13_memo_sound`).
-/
import ForML.Props.C13
import ForML.Lemmas.C13Machine
import ForML.Model.ActorWrap

namespace ForML.Actor

variable {σ : Type}

/-! ### the refinement relation -/

/-- what every reachable instance of a flavour satisfies -/
def FlavourSpec.Inv (fs : FlavourSpec) (o : Obj σ) : Prop :=
  match fs with
  | .native s _ => accepts s o.params = true
  | .custom s => accepts s o.params = true
  | .decorated _ _ => True
  | .wrapped s tm => WrappedInv s tm o

/-- model instance ~ contract instance: same logical state, same attribute values (dict order and
shadowed entries are not observable), and the flavour's invariant -/
def LiveRo (fs : FlavourSpec) (o : Obj σ) (a : SAct σ) : Prop :=
  o.state = a.state ∧ (∀ k, pget o.params k = pget a.attrs k) ∧ fs.Inv o

/-- model bytes ~ logical export -/
def LiveRb (fs : FlavourSpec) (b : Blob σ) (sb : SBlob σ) : Prop :=
  match b, sb with
  | none, .empty => True
  | some (.whole p st), .own p' st' =>
    fs.contract.carries = true ∧ st = st' ∧ (∀ k, pget p k = pget p' k) ∧ accepts fs.sig p = true
  | some (.value v), .own _ st' => fs.contract.carries = false ∧ st' = some v
  | some (.whole _ _), .foreign => fs.contract.carries = false
  | some (.value _), .foreign => fs.contract.carries = true
  | _, _ => False

/-- two hyper-parameter dicts with the same key→value content -/
def SameContent (kw1 kw2 : PMap) : Prop := ∀ k, pget kw1 k = pget kw2 k

/-! ### helper lemmas -/

private theorem storeParams_reported' (s : Sig) (X r0 : Obj σ) (hacc : accepts s r0.params = true) :
    storeParams s X (reported s r0) = .ok { X with params := pupdate X.params (reported s r0) } := by
  simp [storeParams, settable_reported s r0 hacc]

private theorem accepts_reported (s : Sig) (o : Obj σ) (h : accepts s o.params = true) :
    accepts s (reported s o) = true := settable_accepts s _ (settable_reported s o h)

private theorem overlay_lookup (s : Sig) (o : Obj σ) (a : SAct σ) (p p' : PMap)
    (ha : ∀ k, pget o.params k = pget a.attrs k) (hp : ∀ k, pget p k = pget p' k) (k : Key) :
    pget (pupdate p (reported s o)) k = pget (overlay s a.attrs p') k := by
  simp only [overlay, pget_pupdate, pget_reported, pget_pfilter, ha k, hp k]

private theorem stateful_trains (tm : TrainMap) : tm.stateful = tm.trains := by cases tm <;> rfl

/-- class-based `apply` against the contract's -/
private theorem classApply_spec (u : User σ) (c : Contract) (hl : c.late = false) (o : Obj σ) (a : SAct σ)
    (hs : o.state = a.state) (ha : ∀ k, pget o.params k = pget a.attrs k) (x : Int) :
    classApply u c.trains o x = (specMach u c).apply a x := by
  have hf : pget o.params = pget a.attrs := funext ha
  simp only [classApply, specMach, Contract.usable, hl, Bool.not_false, Bool.true_or, if_true, hf, hs]
  cases c.trains <;> cases a.state <;> rfl

/-- the dict-based state methods (`flow.Actor.get_state/set_state`, also behind `wrap.Actor.type`)
against the contract's, for a receiver whose attributes are all constructor names -/
private theorem dictSetState_spec (u : User σ) (fs : FlavourSpec) (s : Sig) (t : Bool)
    (hsig : fs.sig = s) (hc : fs.contract.sig = s) (ht : fs.contract.trains = t) (hcar : fs.contract.carries = true)
    (hpro : fs.contract.protects = true)
    (o : Obj σ) (a : SAct σ) (hs : o.state = a.state) (ha : ∀ k, pget o.params k = pget a.attrs k)
    (hacc : accepts s o.params = true) (b : Blob σ) (sb : SBlob σ) (hb : LiveRb fs b sb) :
    RelE (fun (o' : Obj σ) (a' : SAct σ) => o'.state = a'.state ∧ (∀ k, pget o'.params k = pget a'.attrs k) ∧
        accepts s o'.params = true ∧ o'.ctor = o.ctor ∧
        (b = none ∨ t = false → o' = o) ∧
        (∀ p st, b = some (.whole p st) → t = true → o' = { o with params := pupdate p (reported s o), state := st }))
      (dictSetState s t o b) ((specMach u fs.contract).setState a sb) := by
  cases b with
  | none =>
    cases sb with
    | empty => exact ⟨hs, ha, hacc, rfl, fun _ => rfl, fun _ _ h => by cases h⟩
    | own _ _ => exact hb.elim
    | foreign => exact hb.elim
  | some pl =>
    cases pl with
    | whole p st =>
      cases sb with
      | empty => exact hb.elim
      | own p' st' =>
        obtain ⟨_, hst, hp, hpacc⟩ := hb
        rw [hsig] at hpacc
        cases t with
        | false => simp [dictSetState, specMach, ht, RelE]
        | true =>
          simp only [dictSetState, Bool.not_true, Bool.false_eq_true, if_false, specMach, ht, hcar, hpro, if_true, hc]
          rw [storeParams_reported' s _ o hacc]
          refine ⟨hst, overlay_lookup s o a p p' ha hp, ?_, rfl, fun h => ?_, fun p2 st2 h _ => ?_⟩
          · exact accepts_pupdate s _ _ hpacc (accepts_reported s o hacc)
          · cases h with
            | inl h => cases h
            | inr h => cases h
          · cases h; rfl
      | foreign => simp [LiveRb, hcar] at hb
    | value v =>
      cases sb with
      | empty => exact hb.elim
      | own _ _ => simp [LiveRb, hcar] at hb
      | foreign => cases t <;> simp [dictSetState, specMach, ht, RelE]

private theorem isEmpty_rel (fs : FlavourSpec) (b : Blob σ) (sb : SBlob σ) (hb : LiveRb fs b sb) :
    b.isNone = sb.isEmpty := by
  cases b with
  | none => cases sb <;> first | rfl | exact hb.elim
  | some pl => cases pl <;> cases sb <;> first | rfl | exact hb.elim

/-! ### each flavour simulates the contract machine -/

private theorem live_sim_native [Inhabited σ] (u : User σ) (s : Sig) (t : Bool) (hwf : s.wf = true) :
    Sim (FlavourSpec.toMach u (.native s t)) (specMach u (FlavourSpec.native s t).contract)
      (LiveRo (.native s t)) (LiveRb (.native s t)) SameContent where
  specSig := rfl
  isStateful := rfl
  build := fun a kw => by
    simp only [FlavourSpec.toMach, Flavour.toMach, FlavourSpec.toFlavour, native, ctorStore, specMach,
      FlavourSpec.contract, Contract.construct, Bool.false_eq_true, if_false]
    cases hb : bind s a kw with
    | error e => rfl
    | ok b =>
      refine ⟨rfl, fun _ => rfl, ?_⟩
      have h : ctorStore (σ := σ) s a kw = .ok { params := pupdate s.defaults b, state := none } := by simp [ctorStore, hb]
      exact (ctorStore_ok s hwf a kw _ h).2.1
  apply := fun o a x ho =>
    classApply_spec u (FlavourSpec.native s t).contract rfl o a ho.1 ho.2.1 x
  train := fun o a x y ho => by
    have hf : pget o.params = pget a.attrs := funext ho.2.1
    simp only [FlavourSpec.toMach, Flavour.toMach, FlavourSpec.toFlavour, native, specMach, FlavourSpec.contract,
      Contract.usable, Bool.not_false, Bool.true_or, if_true]
    cases t with
    | false => rfl
    | true => exact ⟨by simp [hf, ho.1], ho.2.1, ho.2.2⟩
  getState := fun o a ho => by
    refine ⟨ho, ?_⟩
    simp only [FlavourSpec.toMach, Flavour.toMach, FlavourSpec.toFlavour, native, dictGetState, specMach,
      FlavourSpec.contract]
    cases t with
    | false => trivial
    | true => exact ⟨rfl, ho.1, ho.2.1, ho.2.2⟩
  setState := fun o a b sb ho hb => by
    have := dictSetState_spec u (.native s t) s t rfl rfl rfl rfl rfl o a ho.1 ho.2.1 ho.2.2 b sb hb
    simp only [FlavourSpec.toMach, Flavour.toMach, FlavourSpec.toFlavour, native]
    cases e1 : dictSetState s t o b <;> cases e2 : (specMach u (FlavourSpec.native s t).contract).setState a sb <;>
      simp only [e1, e2, RelE] at this ⊢
    · exact this
    · exact ⟨this.1, this.2.1, this.2.2.1⟩
  look := fun _ _ h => h
  refl := fun _ _ => rfl
  getParams := fun o a ho k => by
    simp only [FlavourSpec.toMach, Flavour.toMach, FlavourSpec.toFlavour, native, specMach, FlavourSpec.contract,
      Contract.reports, Bool.false_eq_true, if_false, pget_reported, pget_pfilter, ho.2.1 k]
  setParams := fun o a kw1 kw2 ho hk => by
    simp only [FlavourSpec.toMach, Flavour.toMach, FlavourSpec.toFlavour, native, storeParams, specMach,
      FlavourSpec.contract, Bool.false_or, settable_congr s kw1 kw2 hk]
    cases hset : settable s kw2 with
    | false => rfl
    | true =>
      refine ⟨ho.1, fun k => by simp [pget_pupdate, ho.2.1 k, hk k], ?_⟩
      exact accepts_pupdate s _ _ ho.2.2 (settable_accepts s kw1 (by rw [settable_congr s kw1 kw2 hk]; exact hset))
  repickle := fun o a ho => ho
  empty := trivial
  isEmpty := fun b sb hb => isEmpty_rel _ b sb hb
  foreign := rfl

private theorem live_sim_custom [Inhabited σ] (u : User σ) (s : Sig) (hwf : s.wf = true) :
    Sim (FlavourSpec.toMach u (.custom s)) (specMach u (FlavourSpec.custom s).contract)
      (LiveRo (.custom s)) (LiveRb (.custom s)) SameContent where
  specSig := rfl
  isStateful := rfl
  build := fun a kw => by
    simp only [FlavourSpec.toMach, Flavour.toMach, FlavourSpec.toFlavour, nativeCustom, ctorStore, specMach,
      FlavourSpec.contract, Contract.construct, Bool.false_eq_true, if_false]
    cases hb : bind s a kw with
    | error e => rfl
    | ok b =>
      refine ⟨rfl, fun _ => rfl, ?_⟩
      have h : ctorStore (σ := σ) s a kw = .ok { params := pupdate s.defaults b, state := none } := by simp [ctorStore, hb]
      exact (ctorStore_ok s hwf a kw _ h).2.1
  apply := fun o a x ho =>
    classApply_spec u (FlavourSpec.custom s).contract rfl o a ho.1 ho.2.1 x
  train := fun o a x y ho => by
    have hf : pget o.params = pget a.attrs := funext ho.2.1
    exact ⟨by simp [hf, ho.1], ho.2.1, ho.2.2⟩
  getState := fun o a ho => ⟨ho, rfl, ho.1, ho.2.1, ho.2.2⟩
  setState := fun o a b sb ho hb => by
    simp only [FlavourSpec.toMach, Flavour.toMach, FlavourSpec.toFlavour, nativeCustom, specMach, FlavourSpec.contract]
    cases b with
    | none => cases sb <;> first | exact ho | exact hb.elim
    | some pl =>
      cases pl with
      | whole p st =>
        cases sb with
        | empty => exact hb.elim
        | own p' st' => exact ⟨hb.2.1, hb.2.2.1, hb.2.2.2⟩
        | foreign => simp [LiveRb, FlavourSpec.contract] at hb
      | value v =>
        cases sb with
        | empty => exact hb.elim
        | own _ _ => simp [LiveRb, FlavourSpec.contract] at hb
        | foreign => rfl
  look := fun _ _ h => h
  refl := fun _ _ => rfl
  getParams := fun o a ho k => by
    simp only [FlavourSpec.toMach, Flavour.toMach, FlavourSpec.toFlavour, nativeCustom, specMach, FlavourSpec.contract,
      Contract.reports, Bool.false_eq_true, if_false, pget_reported, pget_pfilter, ho.2.1 k]
  setParams := fun o a kw1 kw2 ho hk => by
    simp only [FlavourSpec.toMach, Flavour.toMach, FlavourSpec.toFlavour, nativeCustom, storeParams, specMach,
      FlavourSpec.contract, Bool.false_or, settable_congr s kw1 kw2 hk]
    cases hset : settable s kw2 with
    | false => rfl
    | true =>
      refine ⟨ho.1, fun k => by simp [pget_pupdate, ho.2.1 k, hk k], ?_⟩
      exact accepts_pupdate s _ _ ho.2.2 (settable_accepts s kw1 (by rw [settable_congr s kw1 kw2 hk]; exact hset))
  repickle := fun o a ho => ho
  empty := trivial
  isEmpty := fun b sb hb => isEmpty_rel _ b sb hb
  foreign := rfl

private theorem live_sim_decorated [Inhabited σ] (u : User σ) (s : Sig) (p : Bool) :
    Sim (FlavourSpec.toMach u (.decorated s p)) (specMach u (FlavourSpec.decorated s p).contract)
      (LiveRo (.decorated s p)) (LiveRb (.decorated s p)) SameContent where
  specSig := rfl
  isStateful := rfl
  build := fun a kw => by
    simp only [FlavourSpec.toMach, Flavour.toMach, FlavourSpec.toFlavour, decorated, specMach,
      FlavourSpec.contract, Contract.construct, if_true]
    cases a.isEmpty with
    | false => rfl
    | true =>
      simp only [Bool.not_true, Bool.false_eq_true, if_false]
      cases bind { s with anon := 0 } [] kw with
      | error e => rfl
      | ok b => exact ⟨rfl, fun _ => rfl, trivial⟩
  apply := fun o a x ho => by
    have hf : pget o.params = pget a.attrs := funext ho.2.1
    have hacc := accepts_congr s o.params a.attrs ho.2.1
    simp only [FlavourSpec.toMach, Flavour.toMach, FlavourSpec.toFlavour, decorated, specMach, FlavourSpec.contract,
      Contract.usable, Bool.not_true, Bool.false_or, hf, hacc, ho.1]
    cases p <;> cases a.state <;> rfl
  train := fun o a x y ho => by
    have hf : pget o.params = pget a.attrs := funext ho.2.1
    have hacc := accepts_congr s o.params a.attrs ho.2.1
    simp only [FlavourSpec.toMach, Flavour.toMach, FlavourSpec.toFlavour, decorated, specMach, FlavourSpec.contract,
      Contract.usable, Bool.not_true, Bool.false_or, hacc]
    cases p with
    | false => rfl
    | true =>
      simp only [Bool.not_true, Bool.false_eq_true, if_false, if_true]
      cases accepts s a.attrs with
      | false => rfl
      | true => exact ⟨by simp [hf, ho.1], ho.2.1, trivial⟩
  getState := fun o a ho => by
    refine ⟨ho, ?_⟩
    simp only [FlavourSpec.toMach, Flavour.toMach, FlavourSpec.toFlavour, decorated, specMach, FlavourSpec.contract]
    cases p with
    | false => trivial
    | true =>
      simp only [Bool.not_true, Bool.false_eq_true, if_false, if_true, ← ho.1]
      cases o.state with
      | none => trivial
      | some v => exact ⟨rfl, rfl⟩
  setState := fun o a b sb ho hb => by
    simp only [FlavourSpec.toMach, Flavour.toMach, FlavourSpec.toFlavour, decorated, specMach, FlavourSpec.contract]
    cases b with
    | none => cases sb <;> first | (cases p <;> exact ho) | exact hb.elim
    | some pl =>
      cases pl with
      | whole q st =>
        cases sb with
        | empty => exact hb.elim
        | own p' st' => simp [LiveRb, FlavourSpec.contract] at hb
        | foreign => cases p <;> rfl
      | value v =>
        cases sb with
        | empty => exact hb.elim
        | own p' st' =>
          cases p with
          | false => rfl
          | true => exact ⟨hb.2.symm, ho.2.1, trivial⟩
        | foreign => simp [LiveRb, FlavourSpec.contract] at hb
  look := fun _ _ h => h
  refl := fun _ _ => rfl
  getParams := fun o a ho k => by
    simp only [FlavourSpec.toMach, Flavour.toMach, FlavourSpec.toFlavour, decorated, specMach, FlavourSpec.contract,
      Contract.reports, if_true, ho.2.1 k]
  setParams := fun o a kw1 kw2 ho hk => by
    simp only [FlavourSpec.toMach, Flavour.toMach, FlavourSpec.toFlavour, decorated, specMach, FlavourSpec.contract,
      Bool.true_or, if_true]
    exact ⟨ho.1, fun k => by simp [pget_pupdate, ho.2.1 k, hk k], trivial⟩
  repickle := fun o a ho => ho
  empty := trivial
  isEmpty := fun b sb hb => isEmpty_rel _ b sb hb
  foreign := rfl

/-- the wrapped invariant after the dict-based `set_state` of an accepted export -/
private theorem wrappedInv_setState (s : Sig) (tm : TrainMap) (hst : tm.stateful = true) (o : Obj σ) (p : PMap)
    (st : Option σ) (hi : WrappedInv s tm o) (hp : accepts s p = true) :
    WrappedInv s tm { o with params := pupdate p (reported s o), state := st } := by
  obtain ⟨o0, h0, hacc, hcov, _⟩ := hi
  refine ⟨o0, h0, accepts_pupdate s _ _ hp (accepts_reported s o hacc), fun k hv hk => ?_, fun hs' => by simp [hst] at hs'⟩
  simp only [pget_pupdate, pget_reported, hv, if_true]
  have := hcov k hv hk
  cases hok : pget o.params k with
  | none => simp [hok] at this
  | some v => simp [por]

private theorem live_sim_wrapped [Inhabited σ] (u : User σ) (s : Sig) (tm : TrainMap) (hwf : s.wf = true) :
    Sim (FlavourSpec.toMach u (.wrapped s tm)) (specMach u (FlavourSpec.wrapped s tm).contract)
      (LiveRo (.wrapped s tm)) (LiveRb (.wrapped s tm)) SameContent where
  specSig := rfl
  isStateful := stateful_trains tm
  build := fun a kw => by
    have hinv := (C13_wrapped_invariant u s tm hwf).1 a kw
    simp only [FlavourSpec.toMach, Flavour.toMach, FlavourSpec.toFlavour, wrapped, wrappedBuild, ctorStore, specMach,
      FlavourSpec.contract, Contract.construct, Bool.false_eq_true, if_false] at hinv ⊢
    cases hb : bind s a kw with
    | error e => rfl
    | ok b =>
      simp only [hb] at hinv
      exact ⟨rfl, fun _ => rfl, hinv _ rfl⟩
  apply := fun o a x ho =>
    classApply_spec u (FlavourSpec.wrapped s tm).contract rfl o a ho.1 ho.2.1 x
  train := fun o a x y ho => by
    have hf : pget o.params = pget a.attrs := funext ho.2.1
    have hinv := (C13_wrapped_invariant u s tm hwf).2.1 o
    simp only [FlavourSpec.toMach, Flavour.toMach, FlavourSpec.toFlavour, wrapped, specMach, FlavourSpec.contract,
      Contract.usable, Bool.not_false, Bool.true_or, if_true] at hinv ⊢
    cases tm with
    | callable => exact ⟨by simp [hf, ho.1], ho.2.1, hinv _ x y ho.2.2 rfl⟩
    | method => exact ⟨by simp [hf, ho.1], ho.2.1, hinv _ x y ho.2.2 rfl⟩
    | noncallable => rfl
    | absent => rfl
  getState := fun o a ho => by
    refine ⟨ho, ?_⟩
    simp only [FlavourSpec.toMach, Flavour.toMach, FlavourSpec.toFlavour, wrapped, dictGetState, specMach,
      FlavourSpec.contract, stateful_trains tm]
    obtain ⟨_, _, hacc, _, _⟩ := ho.2.2
    cases tm.trains with
    | false => trivial
    | true => exact ⟨rfl, ho.1, ho.2.1, hacc⟩
  setState := fun o a b sb ho hb => by
    have hacc : accepts s o.params = true := by obtain ⟨_, _, hacc, _, _⟩ := ho.2.2; exact hacc
    have := dictSetState_spec u (.wrapped s tm) s tm.stateful rfl rfl (stateful_trains tm).symm rfl rfl o a ho.1 ho.2.1
      hacc b sb hb
    simp only [FlavourSpec.toMach, Flavour.toMach, FlavourSpec.toFlavour, wrapped]
    cases e1 : dictSetState s tm.stateful o b <;>
      cases e2 : (specMach u (FlavourSpec.wrapped s tm).contract).setState a sb <;>
      simp only [e1, e2, RelE] at this ⊢
    · exact this
    · rename_i o' a'
      refine ⟨this.1, this.2.1, ?_⟩
      obtain ⟨_, _, _, _, hsame, hnew⟩ := this
      cases hst : tm.stateful with
      | false => rw [hsame (Or.inr hst)]; exact ho.2.2
      | true =>
        cases b with
        | none => rw [hsame (Or.inl rfl)]; exact ho.2.2
        | some pl =>
          cases pl with
          | whole p st =>
            rw [hnew p st rfl hst]
            cases sb with
            | empty => exact hb.elim
            | own p' st' => exact wrappedInv_setState s tm hst o p st ho.2.2 hb.2.2.2
            | foreign => simp [LiveRb, FlavourSpec.contract] at hb
          | value v => simp [dictSetState, hst] at e1
  look := fun _ _ h => h
  refl := fun _ _ => rfl
  getParams := fun o a ho k => by
    simp only [FlavourSpec.toMach, Flavour.toMach, FlavourSpec.toFlavour, wrapped, specMach, FlavourSpec.contract,
      Contract.reports, Bool.false_eq_true, if_false, pget_reported, pget_pfilter, ho.2.1 k]
  setParams := fun o a kw1 kw2 ho hk => by
    have hinv := (C13_wrapped_invariant u s tm hwf).2.2.1 o
    simp only [FlavourSpec.toMach, Flavour.toMach, FlavourSpec.toFlavour, wrapped, storeParams, specMach,
      FlavourSpec.contract, Bool.false_or, settable_congr s kw1 kw2 hk] at hinv ⊢
    cases hset : settable s kw2 with
    | false => rfl
    | true =>
      refine ⟨ho.1, fun k => by simp [pget_pupdate, ho.2.1 k, hk k], ?_⟩
      have := hinv { o with params := pupdate o.params kw1 } kw1 ho.2.2
      simp only [settable_congr s kw1 kw2 hk, hset, if_true] at this
      exact this trivial
  repickle := fun o a ho => by
    obtain ⟨o', h1, h2, _, h4⟩ := C13_pickle_wrapped u s tm o hwf ho.2.2
    simp only [FlavourSpec.toMach, Flavour.toMach, FlavourSpec.toFlavour, specMach] at h1 ⊢
    rw [h1]
    exact ⟨h2.1.trans ho.1, fun k => (h2.2 k).trans (ho.2.1 k), h4⟩
  empty := trivial
  isEmpty := fun b sb hb => isEmpty_rel _ b sb hb
  foreign := rfl

/-- every flavour's model simulates the contract machine -/
theorem C13_live_sim [Inhabited σ] (u : User σ) (fs : FlavourSpec) (hwf : fs.sig.wf = true) :
    Sim (fs.toMach u) (specMach u fs.contract) (LiveRo fs) (LiveRb fs) SameContent := by
  cases fs with
  | native s t => exact live_sim_native u s t hwf
  | custom s => exact live_sim_custom u s hwf
  | decorated s p => exact live_sim_decorated u s p
  | wrapped s tm => exact live_sim_wrapped u s tm hwf

/-- **Refinement, for all operation sequences.**  For every flavour, every user code, every
signature: whatever sequence of operations a program performs on one actor definition -- on builders,
on any number of live instances, on any number of exported states, through the actor API, through
pickling and through the platform -- every observation is the one the contract machine
"(attributes, logical state)" gives. -/
theorem C13_live_refines [Inhabited σ] (u : User σ) (fs : FlavourSpec) (hwf : fs.sig.wf = true) (ops : List MOp) :
    observe (fs.toMach u) ops = observe (specMach u fs.contract) ops :=
  sim_observe (C13_live_sim u fs hwf) ops

/-- … and it continues to hold from every pair of related worlds (e.g. in the middle of a program) -/
theorem C13_live_refines_from [Inhabited σ] (u : User σ) (fs : FlavourSpec) (hwf : fs.sig.wf = true) (ops : List MOp)
    (w : World (Obj σ) (Blob σ)) (sw : World (SAct σ) (SBlob σ)) (h : RelW (LiveRo fs) (LiveRb fs) w sw) :
    (runW (fs.toMach u) w ops).2 = (runW (specMach u fs.contract) sw ops).2 ∧
    RelW (LiveRo fs) (LiveRb fs) (runW (fs.toMach u) w ops).1 (runW (specMach u fs.contract) sw ops).1 :=
  sim_run (C13_live_sim u fs hwf) ops h

/-! ### `wrap.Actor.type`: from (origin class, mapping) to an actor definition -/

private theorem mget_append (m1 m2 : WMapping) (k : Nat) :
    mget (m1 ++ m2) k = match mget m1 k with
      | some t => some t
      | none => mget m2 k := by
  induction m1 with
  | nil => rfl
  | cons kv r ih =>
    obtain ⟨k', t⟩ := kv
    simp only [List.cons_append, mget]
    by_cases h : k' = k
    · simp [h]
    · simp only [h, if_false]; exact ih

private theorem mget_msetdefault (m : WMapping) (k : Nat) (t : Target) (k' : Nat) :
    mget (msetdefault m k t) k' = match mget m k' with
      | some x => some x
      | none => if k = k' then some t else none := by
  unfold msetdefault
  cases hk : mget m k with
  | some x =>
    simp only
    cases hk' : mget m k' with
    | some y => rfl
    | none =>
      by_cases h : k = k'
      · subst h; rw [hk] at hk'; cases hk'
      · simp [h]
  | none =>
    simp only [mget_append, mget]

private theorem mem_msetdefault (m : WMapping) (k : Nat) (t : Target) (kv : Nat × Target)
    (h : kv ∈ msetdefault m k t) : kv ∈ m ∨ kv = (k, t) := by
  unfold msetdefault at h
  cases hk : mget m k with
  | some x => simp only [hk] at h; exact Or.inl h
  | none =>
    simp only [hk, List.mem_append, List.mem_singleton] at h
    exact h

private theorem mget_mem (m : WMapping) (k : Nat) (t : Target) (h : mget m k = some t) : (k, t) ∈ m := by
  induction m with
  | nil => cases h
  | cons kv r ih =>
    obtain ⟨k', t'⟩ := kv
    simp only [mget] at h
    by_cases hk : k' = k
    · simp only [hk, if_true] at h; cases h; subst hk; exact List.mem_cons_self
    · simp only [hk, if_false] at h; exact List.mem_cons_of_mem _ (ih h)

/-- the mapping `Class.__new__` completes -/
private def completed (g : WMapping) : WMapping :=
  Wrap.apiNames.foldl (fun m n => msetdefault m n (.name n)) g

private theorem mget_completed (g : WMapping) (k : Nat) :
    mget (completed g) k = match mget g k with
      | some t => some t
      | none => if k ∈ Wrap.apiNames then some (.name k) else none := by
  simp only [completed, Wrap.apiNames, List.foldl, mget_msetdefault]
  cases mget g k with
  | some t => rfl
  | none =>
    simp only [List.mem_cons, List.not_mem_nil, or_false]
    by_cases h0 : 0 = k
    · subst h0; simp
    · by_cases h1 : 1 = k
      · subst h1; simp
      · by_cases h2 : 2 = k
        · subst h2; simp
        · by_cases h3 : 3 = k
          · subst h3; simp
          · have e0 : ¬ k = 0 := fun e => h0 e.symm
            have e1 : ¬ k = 1 := fun e => h1 e.symm
            have e2 : ¬ k = 2 := fun e => h2 e.symm
            have e3 : ¬ k = 3 := fun e => h3 e.symm
            simp [h0, h1, h2, h3, e0, e1, e2, e3]

private theorem mem_completed (g : WMapping) (kv : Nat × Target) (h : kv ∈ completed g) :
    kv ∈ g ∨ ∃ n, kv = (n, .name n) := by
  simp only [completed, Wrap.apiNames, List.foldl] at h
  rcases mem_msetdefault _ _ _ _ h with h | h
  · rcases mem_msetdefault _ _ _ _ h with h | h
    · rcases mem_msetdefault _ _ _ _ h with h | h
      · rcases mem_msetdefault _ _ _ _ h with h | h
        · exact Or.inl h
        · exact Or.inr ⟨_, h⟩
      · exact Or.inr ⟨_, h⟩
    · exact Or.inr ⟨_, h⟩
  · exact Or.inr ⟨_, h⟩

private theorem classNew_ok (o : OriginDef) (g m : WMapping) (h : classNew o g = .ok m) :
    m = completed g ∧ g.any (fun kv => kv.2 == .invalid) = false ∧ m.all (targetOk o) = true := by
  unfold classNew at h
  split at h
  · cases h
  · split at h
    · cases h
    · rename_i hinv
      dsimp only at h
      split at h
      · rename_i hall
        cases h
        exact ⟨rfl, Bool.eq_false_iff.2 hinv, hall⟩
      · cases h

/-- **`Class.__new__` completes and validates the mapping**: when a definition is accepted, each of the
four Actor methods has a target that is a name or a callable; what the user gave is kept; a method the
user did not map goes to the origin's method of the same name; and every name target of a method other
than `train` is a callable attribute of the origin. -/
theorem C13_classnew_complete (o : OriginDef) (g m : WMapping) (h : classNew o g = .ok m) :
    (∀ n, n ∈ Wrap.apiNames → ∃ t, mget m n = some t ∧ t ≠ .invalid) ∧
    (∀ k t, mget g k = some t → mget m k = some t) ∧
    (∀ k, mget g k = none → k ∈ Wrap.apiNames → mget m k = some (.name k)) ∧
    (∀ k n, k ≠ Wrap.train → mget m k = some (.name n) → o.callable n = true) := by
  obtain ⟨hm, hinv, hall⟩ := classNew_ok o g m h
  subst hm
  have hvalid : ∀ k t, mget (completed g) k = some t → t ≠ .invalid := by
    intro k t hk hti
    subst hti
    rcases mem_completed g _ (mget_mem _ _ _ hk) with hg | ⟨n, hn⟩
    · have := List.any_eq_false.1 hinv _ hg
      simp at this
    · cases hn
  refine ⟨fun n hn => ?_, fun k t hk => ?_, fun k hk hapi => ?_, fun k n hk hm => ?_⟩
  · have := mget_completed g n
    cases hg : mget g n with
    | some t => rw [hg] at this; exact ⟨t, this, hvalid n t this⟩
    | none => rw [hg] at this; simp only [hn, if_true] at this; exact ⟨_, this, by intro e; cases e⟩
  · rw [mget_completed, hk]
  · rw [mget_completed, hk]; simp [hapi]
  · have := List.all_eq_true.1 hall _ (mget_mem _ _ _ hm)
    simp only [targetOk, Bool.or_eq_true, beq_iff_eq] at this
    rcases this with h1 | h1
    · exact absurd h1 hk
    · exact h1

/-- **The Actor API of an accepted definition is always implemented by the mapping**: `apply`,
`get_params`, `set_params` resolve to the mapped callable applied to the origin or to a callable method
of the origin -- never to the wrapper's own (abstract / default) method, never to a missing attribute. -/
theorem C13_getattribute_api (o : OriginDef) (g m : WMapping) (h : classNew o g = .ok m) (n : Nat)
    (hn : n = Wrap.apply ∨ n = Wrap.getParams ∨ n = Wrap.setParams) :
    getattribute m o n = .decorated n ∨ ∃ t, getattribute m o n = .originAttr t ∧ o.callable t = true := by
  obtain ⟨hapi, _, _, hcall⟩ := C13_classnew_complete o g m h
  have hmem : n ∈ Wrap.apiNames := by rcases hn with h | h | h <;> subst h <;> decide
  have hnt : n ≠ Wrap.train := by rcases hn with h | h | h <;> subst h <;> decide
  have hres : Wrap.reserved.contains n = false := by rcases hn with h | h | h <;> subst h <;> decide
  obtain ⟨t, ht, hti⟩ := hapi n hmem
  unfold getattribute
  simp only [hres, Bool.false_eq_true, if_false, ht]
  cases t with
  | fn => exact Or.inl rfl
  | invalid => exact absurd rfl hti
  | name x =>
    have hc := hcall n x hnt ht
    have hh : o.has x = true := by simp [OriginDef.has, OriginDef.callable] at hc ⊢; exact Or.inl (Or.inl hc)
    simp only [hh, if_true]
    exact Or.inr ⟨x, rfl, hc⟩

/-- **`train` and `is_stateful`**: `is_stateful()` is true exactly when the `train` target resolves to
something callable (`TrainMap.stateful` of what the mapping resolves to), and `actor.train` is then that
callable; with a non-callable attribute it is that attribute (calling it raises `TypeError`), with a
missing one the access raises `AttributeError` -- the four cases the `wrapped` flavour is written for. -/
theorem C13_wrapped_train_resolution (o : OriginDef) (g m : WMapping) (h : classNew o g = .ok m) :
    isStatefulW m o = (trainMapOf m o).stateful ∧ (trainMapOf m o).stateful = (trainMapOf m o).trains ∧
    (match trainMapOf m o with
      | .callable => getattribute m o Wrap.train = .decorated Wrap.train
      | .method => ∃ n, getattribute m o Wrap.train = .originAttr n ∧ o.callable n = true
      | .noncallable => ∃ n, getattribute m o Wrap.train = .originAttr n ∧ o.callable n = false
      | .absent => ∃ n, getattribute m o Wrap.train = .missing n) := by
  obtain ⟨hapi, _, _, _⟩ := C13_classnew_complete o g m h
  obtain ⟨t, ht, hti⟩ := hapi Wrap.train (by decide)
  have hres : Wrap.reserved.contains Wrap.train = false := by decide
  refine ⟨?_, by cases trainMapOf m o <;> rfl, ?_⟩
  · unfold isStatefulW trainMapOf
    rw [ht]
    cases t with
    | fn => rfl
    | invalid => exact absurd rfl hti
    | name x => cases hc : o.callable x <;> cases hh : o.has x <;> simp [TrainMap.stateful, hc, hh]
  · unfold trainMapOf getattribute
    simp only [hres, Bool.false_eq_true, if_false, ht]
    cases t with
    | fn => rfl
    | invalid => exact absurd rfl hti
    | name x =>
      cases hc : o.callable x with
      | true =>
        have hh : o.has x = true := by simp [OriginDef.has, OriginDef.callable] at hc ⊢; exact Or.inl (Or.inl hc)
        simp only [hc, if_true, hh]; exact ⟨x, rfl, hc⟩
      | false =>
        cases hh : o.has x with
        | true => simp only [hc, hh, Bool.false_eq_true, if_false, if_true]; exact ⟨x, rfl, hc⟩
        | false => simp only [hc, hh, Bool.false_eq_true, if_false]; exact ⟨x, rfl⟩

/-- **Redirection of everything else**: the wrapper's four own attributes are never redirected; the
instance `__dict__` (what `flow.Actor.get_state/set_state` pickle and update) is the ORIGIN's; and
`get_state`/`set_state` themselves are `flow.Actor`'s unless the origin defines them -- then the
redirection hands out the origin's (`ownsState`, flavour `wrappedOwn`). -/
theorem C13_getattribute_redirection (o : OriginDef) (m : WMapping) :
    (∀ r, r ∈ Wrap.reserved → getattribute m o r = .own) ∧
    (mget m Wrap.dict = none → getattribute m o Wrap.dict = .originAttr Wrap.dict) ∧
    (∀ n, n = Wrap.getState ∨ n = Wrap.setState → mget m n = none →
      getattribute m o n = if o.has n then .originAttr n else .own) := by
  refine ⟨fun r hr => ?_, fun hd => ?_, fun n hn hm => ?_⟩
  · have : Wrap.reserved.contains r = true := by simpa using hr
    simp only [getattribute, this, if_true]
  · have hres : Wrap.reserved.contains Wrap.dict = false := by decide
    have hh : o.has Wrap.dict = true := by simp [OriginDef.has]
    simp only [getattribute, hres, Bool.false_eq_true, if_false, hd, hh, if_true]
  · have hres : Wrap.reserved.contains n = false := by rcases hn with h | h <;> subst h <;> decide
    simp only [getattribute, hres, Bool.false_eq_true, if_false, hm]

/-! ### a wrapped origin with its own state methods refines the contract of user-written state methods -/

/-- the contract flags of `wrappedOwn` -/
def ownContract (s : Sig) (tm : TrainMap) : Contract :=
  { sig := s, anon := s.anon, trains := tm.trains,
    trainErr := (match tm with
      | .noncallable => .typeError
      | _ => .attributeError),
    carries := true, protects := false, late := false }

/-- reachable instances: the remembered constructor arguments construct, every attribute is a constructor name -/
def OwnRo (s : Sig) (o : Obj σ) (a : SAct σ) : Prop :=
  o.state = a.state ∧ (∀ k, pget o.params k = pget a.attrs k) ∧
    accepts s o.params = true ∧ ∃ o0 : Obj σ, ctorStore s o.ctor.1 o.ctor.2 = .ok o0

theorem C13_wrapped_own_sim [Inhabited σ] (u : User σ) (s : Sig) (tm : TrainMap) (hwf : s.wf = true)
    (htr : tm.trains = true) :
    Sim ((wrappedOwn u s tm).toMach (some (.value default))) (specMach u (ownContract s tm))
      (OwnRo s) (LiveRb (.custom s)) SameContent where
  specSig := rfl
  isStateful := stateful_trains tm
  build := fun a kw => by
    simp only [Flavour.toMach, wrappedOwn, wrappedBuild, ctorStore, specMach, ownContract, Contract.construct,
      Bool.false_eq_true, if_false]
    cases hb : bind s a kw with
    | error e => rfl
    | ok b =>
      have h : ctorStore (σ := σ) s a kw = .ok { params := pupdate s.defaults b, state := none } := by simp [ctorStore, hb]
      exact ⟨rfl, fun _ => rfl, (ctorStore_ok s hwf a kw _ h).2.1, _, h⟩
  apply := fun o a x ho => classApply_spec u (ownContract s tm) rfl o a ho.1 ho.2.1 x
  train := fun o a x y ho => by
    have hf : pget o.params = pget a.attrs := funext ho.2.1
    simp only [Flavour.toMach, wrappedOwn, specMach, ownContract, Contract.usable, Bool.not_false, Bool.true_or, if_true]
    cases tm with
    | callable => exact ⟨by simp [hf, ho.1], ho.2.1, ho.2.2⟩
    | method => exact ⟨by simp [hf, ho.1], ho.2.1, ho.2.2⟩
    | noncallable => cases htr
    | absent => cases htr
  getState := fun o a ho => by
    refine ⟨ho, ?_⟩
    simp only [Flavour.toMach, wrappedOwn, specMach, ownContract, htr]
    exact ⟨rfl, ho.1, ho.2.1, ho.2.2.1⟩
  setState := fun o a b sb ho hb => by
    simp only [Flavour.toMach, wrappedOwn, specMach, ownContract, htr]
    cases b with
    | none => cases sb <;> first | exact ho | exact hb.elim
    | some pl =>
      cases pl with
      | whole p st =>
        cases sb with
        | empty => exact hb.elim
        | own p' st' => exact ⟨hb.2.1, hb.2.2.1, hb.2.2.2, ho.2.2.2⟩
        | foreign => simp [LiveRb, FlavourSpec.contract] at hb
      | value v =>
        cases sb with
        | empty => exact hb.elim
        | own _ _ => simp [LiveRb, FlavourSpec.contract] at hb
        | foreign => rfl
  look := fun _ _ h => h
  refl := fun _ _ => rfl
  getParams := fun o a ho k => by
    simp only [Flavour.toMach, wrappedOwn, specMach, ownContract, Contract.reports, Bool.false_eq_true, if_false,
      pget_reported, pget_pfilter, ho.2.1 k]
  setParams := fun o a kw1 kw2 ho hk => by
    simp only [Flavour.toMach, wrappedOwn, storeParams, specMach, ownContract, Bool.false_or, settable_congr s kw1 kw2 hk]
    cases hset : settable s kw2 with
    | false => rfl
    | true =>
      refine ⟨ho.1, fun k => by simp [pget_pupdate, ho.2.1 k, hk k], ?_, ho.2.2.2⟩
      exact accepts_pupdate s _ _ ho.2.2.1 (settable_accepts s kw1 (by rw [settable_congr s kw1 kw2 hk]; exact hset))
  repickle := fun o a ho => by
    obtain ⟨o0, h0⟩ := ho.2.2.2
    simp only [Flavour.toMach, wrappedOwn, wrappedOwnRepickle, wrappedBuild_of s _ _ o0 h0, specMach]
    rw [storeParams_reported' s _ o ho.2.2.1]
    refine ⟨ho.1, fun k => ?_, accepts_pupdate s _ _ ho.2.2.1 (accepts_reported s o ho.2.2.1), o0, h0⟩
    rw [← ho.2.1 k]
    simp only [pget_pupdate, pget_reported]
    cases s.visible k
    · rfl
    · exact por_self _
  empty := trivial
  isEmpty := fun b sb hb => isEmpty_rel _ b sb hb
  foreign := rfl

/-- **A class-wrapped actor whose origin brings its own state methods**: for all operation sequences it is
the contract machine of an actor with user-written state methods (a direct `set_state` takes everything
from the state; the platform's preset and the pickle reducer keep the hyper-parameters). -/
theorem C13_wrapped_own_refines [Inhabited σ] (u : User σ) (s : Sig) (tm : TrainMap) (hwf : s.wf = true)
    (htr : tm.trains = true) (ops : List MOp) :
    observe ((wrappedOwn u s tm).toMach (some (.value default))) ops = observe (specMach u (ownContract s tm)) ops :=
  sim_observe (C13_wrapped_own_sim u s tm hwf htr) ops

/-! ### implementations that memoise the exported bytes -/

/-- **A memo that every mutating operation drops is invisible** (harmless refactoring): wrapped around
any flavour, for every operation sequence the observations are still the contract's. -/
theorem C13_memo_sound [Inhabited σ] (u : User σ) (fs : FlavourSpec) (hwf : fs.sig.wf = true) (ops : List MOp) :
    observe (memoMach (fs.toMach u) Policy.sound) ops = observe (specMach u fs.contract) ops :=
  (sim_observe (memo_sim (fs.toMach u) Policy.sound (fun _ => rfl) rfl rfl (Or.inl rfl) (Or.inl rfl)) ops).trans
    (C13_live_refines u fs hwf ops)

/-- Function-based actors export the bare state value: dropping the memo on `train` **and `set_state`**
is enough (the bytes cannot change through `set_params` or pickling). -/
theorem C13_memo_decorated_state_only_sound [Inhabited σ] (u : User σ) (s : Sig) (p : Bool) (ops : List MOp) :
    observe (memoMach ((FlavourSpec.decorated s p).toMach u) Policy.stateOnly) ops
      = observe (specMach u (FlavourSpec.decorated s p).contract) ops := by
  refine (sim_observe (memo_sim _ Policy.stateOnly (fun _ => rfl) rfl rfl (Or.inr ?_) (Or.inr ?_)) ops).trans
    (sim_observe (live_sim_decorated u s p) ops)
  · intro o kw o' h
    simp only [FlavourSpec.toMach, Flavour.toMach, FlavourSpec.toFlavour, decorated] at h ⊢
    cases h; rfl
  · intro o o' h
    simp only [FlavourSpec.toMach, Flavour.toMach, FlavourSpec.toFlavour, decorated] at h ⊢
    cases h; rfl

/-- keyword-only hyper-parameters `a`, `b` (the decorated toy pair) -/
def exKwSig : Sig := { kw := [0, 1] }

/-- checkpoint, train on, checkpoint, roll back to the first checkpoint, export, rebuild from the export -/
def rollbackOps : List MOp :=
  [.spec [] [(0, 2)], .build 0 [] [], .train 0 1 2, .getState 0 0, .train 0 3 4, .getState 0 1, .setState 0 0,
   .apply 0 5, .getState 0 2, .fapply 2 5]

/-- "serialise once per training" (only `train` drops the memo), full statement: refuted below -/
def C13_memo_per_training_full : Prop :=
  ∀ ops : List MOp,
    observe (memoMach ((FlavourSpec.decorated exKwSig true).toMach toyUser) Policy.perTraining) ops
      = observe (specMach toyUser (FlavourSpec.decorated exKwSig true).contract) ops

/-- after the roll-back the live actor answers from the first checkpoint (`apply 0 5`), but what it
exports is still the second checkpoint's bytes: the rebuilt actor answers differently (`fapply 2 5`) -/
theorem C13_memo_per_training_counterexample : ¬ C13_memo_per_training_full := by
  intro h
  have := congrArg (List.map Out.int?) (h rollbackOps)
  revert this
  decide

/-! ### non-vacuity -/

/-- the roll-back program on the contract machine: the live actor and the actor rebuilt from its export agree -/
example : (observe (specMach toyUser (FlavourSpec.decorated exKwSig true).contract) rollbackOps).map Out.int?
    = [none, none, none, none, none, none, none, some 43, none, some 43] := by decide

/-- … on the model of the code that exists as well … -/
example : (observe ((FlavourSpec.decorated exKwSig true).toMach toyUser) rollbackOps).map Out.int?
    = [none, none, none, none, none, none, none, some 43, none, some 43] := by decide

/-- … and with a per-training memo the export is stale -/
example : (observe (memoMach ((FlavourSpec.decorated exKwSig true).toMach toyUser) Policy.perTraining) rollbackOps).map Out.int?
    = [none, none, none, none, none, none, none, some 43, none, some 109] := by decide

/-- `wrap.Actor.type(Origin, apply='predict', train='fit')` over an origin with `get_params set_params predict fit`
is accepted, completed with `get_params`/`set_params`, trains through the origin's method; the same origin with an
own `apply`/`train` (decoys) changes nothing; an origin with `get_state`/`set_state` owns its state -/
example :
    (classNew { methods := [2, 3, 4, 5] } [(0, .name 4), (1, .name 5)]).toOption
      = some [(0, .name 4), (1, .name 5), (2, .name 2), (3, .name 3)] ∧
    wrapDef { methods := [2, 3, 4, 5] } [(0, .name 4), (1, .name 5)] = .plain .method ∧
    wrapDef { methods := [0, 1, 2, 3, 4, 5] } [(0, .name 4), (1, .name 5)] = .plain .method ∧
    getattribute [(0, .name 4), (1, .name 5), (2, .name 2), (3, .name 3)] { methods := [0, 1, 2, 3, 4, 5] } 0 = .originAttr 4 ∧
    wrapDef { methods := [2, 3, 4, 5, 8, 9] } [(0, .name 4), (1, .fn)] = .own .callable ∧
    wrapDef { methods := [2, 3, 4], flags := [5] } [(0, .name 4), (1, .name 5)] = .plain .noncallable ∧
    wrapDef { methods := [2, 3, 4, 5] } [(0, .name 15), (1, .name 5)] = .failed .typeError ∧
    wrapDef { methods := [3, 4, 5] } [(0, .name 4)] = .failed .typeError ∧
    wrapDef { methods := [2, 3, 4, 5] } [(0, .name 4), (1, .invalid)] = .failed .typeError ∧
    wrapDef { methods := [0, 2, 3], isActor := true } [] = .failed .assertionError := by decide

/-- an origin with its own state methods: a direct `set_state` takes the state's `a=2`, the preset and the pickle
reducer keep the receiver's `a=5` -/
example : (observe ((wrappedOwn toyUser exSig .method).toMach (some (.value 0)))
      [.spec [] [(0, 2)], .build 0 [] [], .train 0 1 2, .getState 0 0, .update [] [(0, 5)], .build 1 [] [], .setState 1 0,
       .apply 1 1, .build 2 [] [], .preset 2 0, .apply 2 1, .pickle 2, .apply 2 1]).map Out.int?
    = [none, none, none, none, none, none, none, some 35, none, none, some 38, none, some 38] := by decide

/-- a native actor: transfer into a differently parameterised receiver, pickling, re-export -/
example : (observe ((FlavourSpec.native exSig true).toMach toyUser)
      [.spec [] [(0, 2)], .build 0 [] [], .train 0 1 2, .getState 0 0, .update [] [(0, 3)], .build 1 [] [], .setState 1 0,
       .apply 1 5, .pickle 1, .getState 1 1, .fapply 1 5, .params 1]).map Out.int?
    = [none, none, none, none, none, none, none, some 48, none, none, some 48, none] := by decide

end ForML.Actor
